"""C18 — a correlation written to YAML reads back as the same correlation.

Proof: lean/PGA/Props/C18.lean over the model PGA/Model/YamlFormat.lean (yaml_format as a tree) composed with the
loader model of C12.  Tie: ThermochemGroup.yaml_format(units) -> yaml_io.parse -> yaml_io.load, and -> GroupLibrary.Load
of a file embedding the text, for random correlations x unit choices and for every group of every shipped library;
the parsed tree and the re-loaded object are compared with the compiled model and with the original object.
"""
import os, json, math, re
from fractions import Fraction
from decimal import Decimal
from . import common
from . import lib_yamlmerge as L

PROPS = ['PGA.Props.C18']
GEN = ['YamlUnits']
OBLIGATIONS = ['PGA.YamlFormat.' + t for t in [
    'C18_format_total', 'C18_keys_are_present_data', 'C18_zero_values_emitted', 'C18_roundtrip_dimensional',
    'C18_roundtrip_any_units',
    'C18_roundtrip_values_exact', 'C18_roundtrip_nd', 'C18_roundtrip_nd_exact', 'C18_temperatures_six_digits',
    'C18_dimensional_six_digits']]
RULE = ('a case = one correlation (0-15 heat-capacity points; reference enthalpy/entropy present/absent/zero/negative/tiny/huge; '
        'range present/absent, and for correlations without a table also ranges that do not contain the reference temperature (above, '
        'below, touching it, a single temperature); Python and NumPy float types; temperatures with up to 6 or with more significant digits) x one '
        'choice of output units (none = non-dimensional; any subset of enthalpy/entropy/heat-capacity units; temperature in K or a '
        'prefixed K), formatted with yaml_format and re-loaded both through yaml_io.load (tagged) and through GroupLibrary.Load of a '
        'file embedding the text; plus every group of every shipped library in 3 unit choices. Non-trivial: at least one datum present.')
ASSUMPTIONS = ['A-float: repr(float) round-trips; "%g" keeps 6 significant digits (re-checked on every formatted value)',
               'A-yaml: PyYAML maps the formatted text to the obvious tree (the check compares the parsed tree with the model tree)',
               'round6 is any function with |round6 x - x| <= 5e-6 |x| that is monotone and fixes 0 (theorems); the driver uses the exact '
               'half-even rounding to 6 significant digits']
TRUSTED = ['modelled, not verified: ThermochemIncomplete.yaml_format, has_ND_*, Quantity.fmt_in_units/in_units, with_units, and the '
           'loader side as in C12']

H_UNITS = [None, 'kcal/mol', 'kJ/mol', 'J/mol', 'cal/mol', 'eV/molecule', 'MJ/kmol']
S_UNITS = [None, 'cal/mol/K', 'J/mol/K', 'kJ/(mol K)', 'cal/(mol K)', 'kcal/(mol K)']
T_UNITS = [None, 'K', 'K', 'kK', 'hK', 'mK', 'dK']


def rnd_float(rng):
    c = rng.random()
    if c < 0.15:
        return 0.0
    if c < 0.25:
        return float(rng.randint(-50, 50))
    if c < 0.32:
        return rng.choice([1e-7, -3.5e-6, 1.25e7, -4.2e9, 1e22])
    if c < 0.4:
        return -0.0 if rng.random() < 0.2 else round(rng.uniform(-100, 100), rng.choice([1, 2, 3]))
    return rng.uniform(-1, 1) * 10 ** rng.randint(-3, 3)


def rnd_temp(rng, lo, hi, exact6):
    if exact6:
        return round(rng.uniform(lo, hi), rng.choice([0, 0, 1, 2]) if hi < 1000 else rng.choice([0, 0, 1]))
    return rng.uniform(lo, hi)


def gen_corr(rng):
    """fields of a constructible correlation as Python/NumPy floats"""
    import numpy as np
    exact6 = rng.random() < 0.8
    Tref = rng.choice([298.15, 298.15, 300.0, 500.0, 1000.0, rnd_temp(rng, 200, 900, exact6)])
    n = rng.choice([0, 0, 1, 2, 3, 5, 8, 15])
    Ts = set()
    while len(Ts) < n:
        Ts.add(rnd_temp(rng, 100, 3000, exact6))
    Ts = sorted(Ts)
    if n and rng.random() < 0.3:
        Ts[rng.randrange(n)] = Tref
        Ts = sorted(set(Ts))
    lo = min(Ts + [Tref])
    hi = max(Ts + [Tref])
    need = bool(Ts) and not (Ts[0] <= Tref <= Ts[-1])
    if need or rng.random() < 0.6:
        rngv = (lo - rng.choice([0, 0, 1.5, 50]), hi + rng.choice([0, 0, 2.5, 1000]))
        if rngv[0] <= 0:
            rngv = (lo, rngv[1])
    else:
        rngv = None
    if not Ts and rng.random() < 0.5:
        # without a heat-capacity table the declared range is independent of the reference temperature (reference values measured
        # at 298.15 K, a range of validity that starts at 300 K): entirely above it, entirely below it, touching it with one end,
        # a single temperature away from it.  What is written is what must be read: a loader that "repairs" one field from
        # another (stretches, clips, swaps, defaults) shows here and nowhere else
        w = rng.choice([0.0, 1.85, 50.0, 700.0]) if exact6 else rng.uniform(0.0, 900.0)
        d = rng.choice([0.35, 1.85, 10.0, 100.0]) if exact6 else rng.uniform(0.01, 150.0)
        mode = rng.choice(['above', 'above', 'below', 'below', 'touch_lo', 'touch_hi'])
        t = float(Tref)
        rngv = {'above': (t + d, t + d + w), 'below': (t - d - w, t - d), 'touch_lo': (t, t + w), 'touch_hi': (t - w, t)}[mode]
        if exact6:
            rngv = (round(rngv[0], 2), round(rngv[1], 2))
        if rngv[0] <= 0 or rngv[1] < rngv[0]:
            rngv = (t + d, t + d + w)
    H = rnd_float(rng) * rng.choice([1, 10, 100]) if rng.random() < 0.8 else None
    S = rnd_float(rng) if rng.random() < 0.8 else None
    cp = [(T, rnd_float(rng)) for T in Ts]
    rng.shuffle(cp)
    typ = rng.choice(['py', 'py', 'np', 'mixed'])

    def cast(x):
        if x is None:
            return None
        if typ == 'np' or (typ == 'mixed' and rng.random() < 0.5):
            return np.float64(x)
        return x
    return {'H': cast(H), 'S': cast(S), 'cp': [(cast(T), cast(v)) for T, v in cp], 'Tref': cast(Tref),
            'range': None if rngv is None else (cast(rngv[0]), cast(rngv[1])), 'typ': typ, 'exact6': exact6}


def make_obj(f, units=None):
    from pgradd.ThermoChem import ThermochemGroup
    with L.quiet():
        if not f.get('history'):
            return ThermochemGroup(f['H'], f['S'], dict(f['cp']), f['Tref'], f['range'])
        # the same correlation reached through the public API after the object was already formatted: it held other reference
        # values where the final one has none, one more heat-capacity point, a wider range; each is withdrawn in turn, and the
        # object is formatted (in the units of the case, non-dimensionally and in one fixed dimensional choice) before the first
        # and after every step, so that a text remembered across ANY single mutator shows in the final text.  The mutators that
        # rebuild the table correlation come first, those that only drop an attribute last: a later rebuild must not tidy up
        # after an earlier omission
        table = dict(f['cp'])
        ts = sorted(table)
        tx = None
        if len(ts) >= 2:
            tx = 0.5 * (float(ts[0]) + float(ts[1]))
        wide = None if f['range'] is None else (f['range'][0] - 0.5 if f['range'][0] > 1.0 else f['range'][0], f['range'][1] + 25.0)
        more = dict(table)
        if tx is not None:
            more[tx] = 1.75
        o = ThermochemGroup(f['H'] if f['H'] is not None else 12.5, f['S'] if f['S'] is not None else -3.25, more, f['Tref'], wide)

        def use():
            for u in ({}, {'molar enthalpy': 'kJ/mol', 'molar entropy': 'J/(mol K)', 'molar heat capacity': 'J/(mol K)', 'temperature': 'K'},
                      units):
                if u is None:
                    continue
                try:
                    o.yaml_format(u)
                except Exception:
                    pass
        use()
        if tx is not None:
            o.del_ND_Cp(tx)
            use()
        if wide is not None:
            o.set_range(f['range'])
            use()
        if f['H'] is None:
            o.del_ND_H_ref()
            use()
        if f['S'] is None:
            o.del_ND_S_ref()
        return o


def pick_units(rng):
    mode = rng.choice(['nd', 'nd', 'all', 'some', 'Tonly'])
    u = {}
    if mode in ('all', 'some'):
        for k, lst in (('molar enthalpy', H_UNITS), ('molar entropy', S_UNITS), ('molar heat capacity', S_UNITS)):
            v = rng.choice(lst[1:]) if mode == 'all' else rng.choice(lst)
            if v is not None:
                u[k] = v
    if mode != 'nd':
        t = rng.choice(T_UNITS)
        if t is not None:
            u['temperature'] = t
    if mode == 'nd' and rng.random() < 0.2:
        u['molar enthalpy'] = None          # explicit None = non-dimensional
    return u


def sig6_close(a, b, extra=0.0):
    """a is b to six significant digits (half a unit in the sixth digit), zero exactly"""
    a = float(a)
    b = float(b)
    if b == 0:
        return a == 0
    return abs(a - b) <= (5.0e-6 * (1 + 1e-9) + extra) * abs(b)


def is6(x):
    """x is written exactly by '%g' (at most 6 significant digits)"""
    return float('%g' % x) == float(x)


def parse_dim(s):
    """'<number> <unit>' -> (Fraction, unit)"""
    num, unit = s.split(' ', 1)
    return Fraction(Decimal(num)), unit


def check_one(ctx, f, units, batch, label):
    """format one correlation, reload it twice, compare with the original (spec) and queue the model comparison"""
    from pgradd import yaml_io
    inp = {'corr': show_fields(f), 'units': units, 'label': label}
    obj = make_obj(f, units)
    orig = L.obs_corr(obj)
    try:
        with L.quiet():
            text = obj.yaml_format(units)
    except Exception as e:
        ctx.violation('yaml_format raises', inp, expected='text', observed=L.err_class(e))
        return
    inp['text'] = text
    ctx.count('formatted')
    if f['range'] is not None and not (float(f['range'][0]) <= float(f['Tref']) <= float(f['range'][1])):
        ctx.count('range_without_Tref')
    nontrivial = f['H'] is not None or f['S'] is not None or f['cp'] or f['range'] is not None
    ctx.case(json.dumps([inp['corr'], sorted((k, str(v)) for k, v in units.items())]) if nontrivial else None,
             {'text': text, 'units': units} if len(ctx.samples) < 6 else None)
    # ---- emitted key set = present data
    keys = [ln.split(':')[0] for ln in text.split('\n') if ln and not ln.startswith(' ')]
    want = ['T_ref']
    if f['H'] is not None:
        want.append('H_ref' if units.get('molar enthalpy') else 'ND_H_ref')
    if f['S'] is not None:
        want.append('S_ref' if units.get('molar entropy') else 'ND_S_ref')
    if f['cp']:
        want.append('Cp_data' if units.get('molar heat capacity') else 'ND_Cp_data')
    if f['range'] is not None:
        want.append('range')
    if keys != want:
        ctx.violation('the emitted keys are not exactly the present data', inp, expected=want, observed=keys,
                      finding=classify(text, 'keys'))
    # ---- path 1: tagged load
    st1, got1, tree = 'err', None, None
    try:
        with L.quiet():
            tree = yaml_io.parse('!ThermochemGroup\n' + text)
            got1 = yaml_io.load(tree)
        st1 = 'ok'
    except Exception as e:
        got1 = L.err_class(e)
    # ---- path 2: embedded in a library file
    d = L.new_dir(ctx, 'c18-')
    path = os.path.join(d, 'library.yaml')
    with open(path, 'w') as fh:
        fh.write('groups:\n  "C(H)4":\n    thermochem:\n' + ''.join('      %s\n' % ln for ln in text.split('\n')))
    st2, lib = L.load_library(path)
    if st1 != 'ok' or st2 != 'ok':
        ctx.count('reload_failed')
        ctx.violation('the formatted text cannot be loaded', inp, expected='loads', observed=[got1 if st1 != 'ok' else 'ok', lib if st2 != 'ok' else 'ok'],
                      finding=classify(text, 'load'))
        batch.append((fmt_request(orig, f, units), ('fmt', None, None), inp))
        return
    o1 = L.obs_corr(got1)
    o2 = L.obs_library(lib)['C(H)4']
    if not same_obs(o1, o2):
        ctx.violation('tagged loading and library loading of the same text differ', inp, expected=o1, observed=o2)
    compare_with_original(ctx, orig, o1, f, units, inp)
    batch.append((fmt_request(orig, f, units), ('fmt', plain_tree(tree.value), o1), inp))


def same_obs(a, b):
    return json.dumps(a, sort_keys=True) == json.dumps(b, sort_keys=True)


def compare_with_original(ctx, orig, got, f, units, inp):
    """the specification of C18 on the implementation"""
    def bad(what, e, o):
        ctx.violation(what, inp, expected=e, observed=o)
    Tu = units.get('temperature') or 'K'
    # temperatures: to the six significant digits written (in the chosen unit)
    def T_ok(orig_T, got_T):
        return sig6_close(got_T, orig_T, 1e-12)
    if not T_ok(orig['Tref'], got['Tref']):
        bad('T_ref does not read back to six significant digits', orig['Tref'], got['Tref'])
    if (orig['range'] is None) != (got['range'] is None) or (orig['range'] is not None and not all(T_ok(a, b) for a, b in zip(orig['range'], got['range']))):
        bad('range does not read back to six significant digits', orig['range'], got['range'])
    Tref_exact = is6(L.unit_info(Tu)[0] and float(orig['Tref']) / float(L.unit_info(Tu)[0]))
    for fld, key in (('H', 'molar enthalpy'), ('S', 'molar entropy')):
        a, b = orig[fld], got[fld]
        if a is None or b is None:
            if not (a is None and b is None):
                bad('a reference value appears or disappears when written and read back', a, b)
            continue
        if 'num' not in b:
            bad('a reference value does not read back as a plain number', a, b)
        elif not units.get(key):
            if b['num'] != a['num']:
                bad('a non-dimensional reference value does not read back exactly', a['num'], b['num'])
        else:
            extra = 0.0 if (fld == 'S' or Tref_exact) else 5.1e-6
            if not sig6_close(b['num'], a['num'], extra + 1e-12):
                bad('a dimensional reference value does not read back to six significant digits', a['num'], b['num'])
    # table
    exact_T = all(is6(T / float(L.unit_info(Tu)[0])) for T, _ in orig['cp'])
    if exact_T:
        if len(got['cp']) != len(orig['cp']):
            bad('the number of heat-capacity points changes', len(orig['cp']), len(got['cp']))
        else:
            for (T, v), (T2, v2) in zip(orig['cp'], got['cp']):
                if not T_ok(T, T2):
                    bad('a tabulated temperature does not read back to six significant digits', T, T2)
                if v2 is None or 'num' not in v2:
                    bad('a heat capacity does not read back as a plain number', v, v2)
                elif not units.get('molar heat capacity'):
                    if v2['num'] != v['num']:
                        bad('a non-dimensional heat capacity does not read back exactly', v['num'], v2['num'])
                elif not sig6_close(v2['num'], v['num'], 1e-12):
                    bad('a dimensional heat capacity does not read back to six significant digits', v['num'], v2['num'])
    else:
        ctx.count('table_temperatures_rounded')
        if len(got['cp']) > len(orig['cp']):
            bad('the number of heat-capacity points grows', len(orig['cp']), len(got['cp']))
        for T2, v2 in got['cp']:
            near = [(T, v) for T, v in orig['cp'] if T_ok(T, T2)]
            if not near:
                bad('a tabulated temperature does not read back to six significant digits', [T for T, _ in orig['cp']], T2)
            elif v2 is None or 'num' not in v2 or not any(
                    (v2['num'] == v['num']) if not units.get('molar heat capacity') else sig6_close(v2['num'], v['num'], 1e-12) for _, v in near):
                bad('a heat capacity does not read back', near, v2)


def classify(text, what):
    return None


def show_fields(f):
    def r(x):
        return None if x is None else float(x).hex()
    return {'H': r(f['H']), 'S': r(f['S']), 'cp': [[r(T), r(v)] for T, v in f['cp']], 'Tref': r(f['Tref']),
            'range': None if f['range'] is None else [r(f['range'][0]), r(f['range'][1])], 'typ': f.get('typ', 'py'),
            'history': bool(f.get('history'))}


def unshow_fields(j):
    import numpy as np

    def r(x):
        if x is None:
            return None
        v = float.fromhex(x)
        return np.float64(v) if j.get('typ') in ('np', 'mixed') else v
    return {'H': r(j['H']), 'S': r(j['S']), 'cp': [(r(a), r(b)) for a, b in j['cp']], 'Tref': r(j['Tref']),
            'range': None if j['range'] is None else (r(j['range'][0]), r(j['range'][1])), 'typ': j.get('typ', 'py'),
            'history': bool(j.get('history'))}


# ------------------------------------------------------------------------------------------------------------------ tie
def plain_tree(t):
    """parsed YAML tree -> comparable form: numbers as Fractions of their decimal text / exact float, 'v u' strings split"""
    if isinstance(t, dict):
        return [[str(k), plain_tree(v)] for k, v in t.items()]
    if isinstance(t, list):
        return [plain_tree(v) for v in t]
    if isinstance(t, str):
        m = re.match(r'^(-?[0-9.]+(?:[eE][-+]?[0-9]+)?) (.+)$', t)
        if m:
            return {'q': Fraction(Decimal(m.group(1))), 'u': m.group(2)}
        try:
            return {'num': Fraction(float(t))}      # e.g. '1e-07' (no dot: a YAML string), read by float()
        except ValueError:
            return {'str': t}
    if isinstance(t, (int, float)) and not isinstance(t, bool):
        return {'num': Fraction(t)}
    return {'other': repr(t)}


def fmt_request(orig, f, units):
    def num(v):
        return None if v is None else L.jr(common.exact_of_float(v['num']))
    corr = {'H': num(orig['H']), 'S': num(orig['S']),
            'cp': [[L.jr(common.exact_of_float(float(T))), L.jr(common.exact_of_float(float(v)))] for T, v in f['cp']],
            'Tref': L.jr(common.exact_of_float(orig['Tref'])),
            'range': None if orig['range'] is None else [L.jr(common.exact_of_float(x)) for x in orig['range']]}
    return {'op': 'c18.format', 'corr': corr,
            'units': {'H': units.get('molar enthalpy') or None, 'S': units.get('molar entropy') or None,
                      'Cp': units.get('molar heat capacity') or None, 'T': units.get('temperature', 'K')}}


def model_tree(j):
    """driver tree -> the same comparable form as plain_tree"""
    if j is None:
        return {'null': True}
    if isinstance(j, list):
        return [model_tree(v) for v in j]
    if 'm' in j:
        return [[k, model_tree(v)] for k, v in j['m']]
    if 'q' in j:
        return {'q': common.unjrat(j['q']), 'u': j['u']}
    return {'num': common.unjrat(j)}


def trees_agree(a, b, stats):
    if isinstance(a, list) and isinstance(b, list):
        return len(a) == len(b) and all(trees_agree(x, y, stats) for x, y in zip(a, b))
    if isinstance(a, str) or isinstance(b, str):
        return a == b
    if isinstance(a, dict) and isinstance(b, dict):
        if 'q' in a and 'q' in b:
            if a['u'] != b['u']:
                return False
            if a['q'] == b['q']:
                return True
            # the code rounds the double product, the model the exact product: they may straddle a rounding boundary
            # one unit in the sixth significant digit of the model's decimal
            if b['q'] != 0:
                e = math.floor(math.log10(abs(float(b['q']))))
                ulp6 = Fraction(10) ** (e - 5)
                if abs(a['q'] - b['q']) <= ulp6 * Fraction(1001, 1000):
                    stats['straddle'] += 1
                    return True
            return False
        if 'num' in a and 'num' in b:
            return a['num'] == b['num']
        return a == b
    return False


def compare_batch(ctx, batch):
    import collections
    replies = ctx.model([b[0] for b in batch])
    if replies is None:
        return
    stats = collections.Counter()
    for (req, impl, inp), rep in zip(batch, replies):
        _, tree, loaded = impl
        ctx.count('corr_c18.format')
        if 'err' in rep:
            ctx.disagree('corr:c18.format', inp, 'formatted', rep)
            continue
        if tree is None:
            continue          # the implementation's text did not load: already a violation above
        mt = model_tree(rep['tree'])
        before_straddles = stats['straddle']
        if not trees_agree(tree, mt, stats):
            ctx.disagree('corr:c18.format', inp, json.loads(json.dumps(tree, default=str)), json.loads(json.dumps(mt, default=str)))
            continue
        # model: load (format c) — compared with what the implementation loaded
        ctx.count('corr_c18.roundtrip')
        if 'err' in rep['loaded']:
            ctx.disagree('corr:c18.roundtrip', inp, loaded, rep['loaded'])
        else:
            from .c12 import cmp_model_corr
            # where code and model wrote different sixth digits (a rounding-boundary straddle) what is read back differs by
            # that digit too
            rel = 1e-9 if stats['straddle'] == before_straddles else 2e-5
            if not cmp_model_corr(loaded, rep['loaded']['ok'], rel):
                ctx.disagree('corr:c18.roundtrip', inp, loaded, rep['loaded']['ok'])
    ctx.count('rounding_straddles', stats['straddle'])
    if stats['straddle'] > max(3, len(batch) // 200):
        # code and model write different sixth digits far more often than double rounding explains: the tie is broken
        # (not a machinery failure: a changed formatter produces exactly this symptom)
        ctx.disagree('corr:c18.format', {'rounding_boundary_straddles': stats['straddle'], 'cases': len(batch)},
                     'sixth significant digit as written by the implementation', 'sixth significant digit of the exact product')


# -------------------------------------------------------------------------------------------------------------- shipped
def shipped_groups(ctx):
    """(library, group name, object) for every group with thermochemistry in every shipped library"""
    import pgradd
    from pgradd.GroupAdd.Library import GroupLibrary
    root = os.path.join(os.path.dirname(pgradd.__file__), 'data')
    out = []
    for name in sorted(os.listdir(root)):
        if not os.path.exists(os.path.join(root, name, 'library.yaml')):
            continue
        st, lib = L.load_library(name)
        if st != 'ok':
            ctx.count('shipped_library_not_loadable')
            continue
        for g in lib:
            if 'thermochem' in lib[g]:
                out.append((name, str(g), lib[g]['thermochem']))
    return out


def fields_of_obj(o):
    return {'H': o.ND_H_ref, 'S': o.ND_S_ref, 'cp': list((o.ND_Cp_data or {}).items()), 'Tref': o.T_ref, 'range': o.get_range(),
            'typ': 'mixed', 'exact6': True}


def run(ctx):
    import pgradd.ThermoChem  # noqa
    rng = ctx.rng
    batch = []
    for fname, rec in common.load_corpus('C18'):
        ctx.count('corpus')
        replay(ctx, rec)
    for i in range(ctx.n(250, 6000)):
        f = gen_corr(rng)
        f['history'] = rng.random() < 0.3
        for k in range(2):
            check_one(ctx, f, pick_units(rng), batch, 'random')
        if ctx.time_left() < 200:
            break
    # zero values in every position, deterministically
    for H, S, c0 in [(0.0, 0.0, 0.0), (0.0, 1.5, 2.0), (1.5, 0.0, 2.0), (1.5, 2.5, 0.0), (-0.0, 0.0, 0.0)]:
        f = {'H': H, 'S': S, 'cp': [(300.0, c0), (400.0, 1.0)], 'Tref': 298.15, 'range': (200.0, 1000.0), 'typ': 'py'}
        for u in [{}, {'molar enthalpy': 'kcal/mol', 'molar entropy': 'cal/mol/K', 'molar heat capacity': 'cal/mol/K'},
                  {'molar enthalpy': 'kJ/mol', 'temperature': 'kK'}]:
            check_one(ctx, f, u, batch, 'zeros')
    # no table, declared range away from the reference temperature, deterministically
    for rg in [(300.0, 1000.0), (100.0, 250.0), (400.0, 400.0), (298.15, 298.15), (298.15, 1500.0), (200.0, 298.15)]:
        f = {'H': 1.5, 'S': None if rg[0] == 400.0 else 2.5, 'cp': [], 'Tref': 298.15, 'range': rg, 'typ': 'py'}
        for u in [{}, {'molar enthalpy': 'kJ/mol', 'molar entropy': 'J/mol/K', 'temperature': 'K'}]:
            check_one(ctx, f, u, batch, 'range-away-from-Tref')
    ship = shipped_groups(ctx)
    ctx.count('shipped_groups', len(ship))
    choices = [{}, {'molar enthalpy': 'kcal/mol', 'molar entropy': 'cal/mol/K', 'molar heat capacity': 'cal/mol/K'},
               {'molar enthalpy': 'kJ/mol', 'molar entropy': 'J/mol/K', 'molar heat capacity': 'J/mol/K', 'temperature': 'kK'}]
    if not ctx.thorough():
        # quick tier: every group once, unit choice rotating
        for i, (libname, g, o) in enumerate(ship):
            check_one(ctx, fields_of_obj(o), choices[i % 3], batch, 'shipped:%s:%s' % (libname, g))
    else:
        for libname, g, o in ship:
            for u in choices:
                check_one(ctx, fields_of_obj(o), u, batch, 'shipped:%s:%s' % (libname, g))
    compare_batch(ctx, batch)
    check_float_assumption(ctx, rng)
    from .c12 import reach_floor
    reach_floor(ctx, ['formatted', 'corr_c18.format', 'corr_c18.roundtrip', 'table_temperatures_rounded', 'shipped_groups', 'range_without_Tref'])
    if ctx.stats['shipped_groups'] < 500:
        raise common.MachineryError('only %d shipped groups were found' % ctx.stats['shipped_groups'])


def check_float_assumption(ctx, rng):
    """A-float: repr round-trips, '%g' is within half a unit of the sixth significant digit"""
    bad = 0
    n = 0
    for i in range(5000):
        x = rnd_float(rng) * 10 ** rng.randint(-8, 8)
        n += 1
        if float(repr(x)) != x:
            bad += 1
        g = float('%g' % x)
        if not sig6_close(g, x):
            bad += 1
    ctx.assumption('A-float', bad == 0, '%d floats: repr round trip and %%g six-digit bound, %d failures' % (n, bad))


def replay(ctx, rec):
    inp = rec.get('input', rec)
    before = len(ctx.violations)
    f = unshow_fields(inp['corr'])
    batch = []
    check_one(ctx, f, inp['units'], batch, inp.get('label', 'replay'))
    return len(ctx.violations) == before


LEVEL_TEXT = ('Lean 4 theorems over the model of yaml_format composed with the model of the loader: for every correlation (any table '
              'length, reference values present/absent/zero, range present/absent) and every temperature unit, loading the formatted '
              'tree gives back the reference values and heat capacities exactly in the non-dimensional form and the whole correlation '
              'exactly when its temperatures have at most six significant digits; in the dimensional form every value is within the '
              'six-significant-digit bound of an abstract round6; the emitted keys are exactly the present data. Tied to the code by '
              'comparing the parsed YAML tree of the real output and the re-loaded object with the model on random correlations and '
              'on every group of every shipped library.')
LEVEL_NOTE = ('Trusted: Lean kernel, standard axioms, correspondence harness, decimal-literal abstraction, A-float, A-yaml (the text layer '
              'between the formatter and the loader is not modelled: the defects found there - NumPy scalar repr, exponent notation - were '
              'found by the oracle on the implementation), the unit table. Modelled not verified: yaml_format, fmt_in_units, the loaders.')
TECHNIQUE = 'Lean 4 proof over hand-written model + correspondence check + table translator'
