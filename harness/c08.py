"""C08 — RING fragment matching returns exactly the embeddings it denotes.

Proof: lean/PGA/Props/C08.lean (models PGA/Model/Query.lean of pgradd/RINGParser/MolQueryRead.py and
PGA/Model/Match.lean of pgradd/RDkitWrapper/MolQuery.py; denotation PGA/Spec/Embeds.lean).
Tie: `Read(text).GetQueryMatches(mol)` (sorted) against the model driver along TWO paths, on every fragment: (a) the *text*
path — text -> C09 parser model on the regenerated grammar (PGA/Model/RingParse.lean) -> bridge (PGA/Model/RingAstBridge.lean)
-> reader model -> matcher model, which does not involve the implementation's parser at all; (b) the *tree* path — the
implementation's own parse tree (harness/lib_ast.py) fed to the reader model.  The driver compares the two trees and the two
queries structurally; both must agree with the implementation.  Extra random layouts of every random fragment go through
the model's and the implementation's parser (tree and query must not depend on the layout).  The graph is that of
`Chem.AddHs(mol)` (harness/lib_mol.py); the operator / bond-word / element tables and the grammar come through the
translator (harness/gen/molquery.py, harness/gen/ring_grammar.py).
Property oracle: implementation vs `lib_embeds.embeddings` (direct enumeration of the denotation, written from the
property text on the generator's structured fragment).  Assumption check A-cand: RDKit's candidate list vs the
model's enumerator on every case.
"""
import os, json, io, contextlib, collections, base64
from . import common
from . import lib_mol, lib_ast, lib_ringgen_c08 as RG, lib_embeds as EM, lib_molgen_c08 as MG

PROPS = ['PGA.Props.C08', 'PGA.Props.C08Cap', 'PGA.Props.C08Text']
GEN = ['Chars', 'MolQuery', 'RingChars', 'RingGrammar']
OBLIGATIONS = ['PGA.C08.' + t for t in [
    'C08_tab_ops', 'C08_tab_bondwords', 'C08_tab_cn', 'C08_words_as_reference',
    'C08_matches_iff_partial', 'C08_fragment_matches_iff_partial', 'C08_matches_nodup', 'C08_matches_iff_full_fails',
    'C08_cap_inactive', 'C08_capped_iff_partial', 'C08_truncated_sound', 'C08_capped_iff_full_fails',
    'C08_read_wf', 'C08_read_only_ring_errors', 'C08_alpha_read', 'C08_alpha_read_full_holds', 'C08_alpha_matches', 'C08_labels_irrelevant',
    # from the text on (parser model of C09 + bridge): PGA/Props/C08Text.lean
    'C08_bridge_shape', 'C08_tab_rule_names', 'C08_text_never_aborts', 'C08_text_syntax_inside', 'C08_text_query_consumed',
    'C08_text_read_wf', 'C08_text_matches_iff_partial', 'C08_matchText_sound_complete_partial', 'C08_same_tree_same_matches',
    # layout (PGA/Proofs/RingLayout.lean: lock-step simulation of the engine; instantiated on the regenerated grammar)
    'C08_tab_layout_enhanced', 'C08_layout_irrelevant_partial', 'C08_layout_read_partial']] + [
    'PGA.Ring.eval_sim', 'PGA.Ring.parse_layout', 'PGA.Ring.checkLayout_sound']
RULE = ('cases = (fragment, molecule) pairs. Fragments: bounded-exhaustive one- and two-atom fragments (every symbol '
        'class x suffix, x prefix, every legal molecule-prefix combination, every constraint form x negation x operator '
        'x number, every bond word) plus random grammar-directed fragments of 1..8 atoms with random layout and label '
        'names; molecules: every sanitizable molecule of <= 3 (thorough 4) heavy atoms over C/O/N with bond orders 1-3, '
        'rings, one charged or radical atom, plus ~140 special ones (aromatic, Pt/Ru adsorbates, zero/dative/quadruple '
        'bonds, stereo double bonds, ions, polycycles) as parsed and as the library prepares them, with random atom '
        'renumberings. A case is non-trivial when RDKit produces at least one candidate or the oracle at least one '
        'embedding; distinct = distinct (canonical fragment text, molecule spelling).')
ASSUMPTIONS = [
    'A-graph: the RDKit graph of Chem.AddHs(mol) (atomic numbers, formal charges, radical electrons, aromatic flags, total '
    'valences, bond types, ring flags, SSSR atom rings, double-bond stereo) is the molecule; consistency facts re-checked on every molecule',
    'A-cand: GetSubstructMatches(query mol, uniquify=False) returns exactly the injective assignments passing RDKit\'s own '
    'atom/bond primitives; compared with the model\'s enumerator on every case below the cap',
    'molecules carry no bond of type UNSPECIFIED (the library turns them into ZERO before matching)',
    'Chem.Atom(symbol) accepts exactly the symbols found by probing all strings of one or two ASCII letters and the periodic table',
    'reference tables follow the package\'s documented reading where RING leaves room: & = N/O/P/S, M = Z >= 20, allylic = bears a '
    'double bond (pinned by the test-suite), positive/negative = net charge of exactly +1/-1, radical suffixes leave the charge free',
]
TRUSTED = ['modelled, not verified: MolQueryReader (MolQueryRead.py), MolQuery.GetQueryMatches and the constraint classes (MolQuery.py)',
           'the parser (Parser.py / Grammar.py) is modelled by C09 (PGA/Model/RingParse.lean over the regenerated grammar table) and joined to the '
           'reader model by PGA/Model/RingAstBridge.lean; every case is run from the text through that model as well as from the '
           'implementation\'s own tree, so the implementation\'s parser is not trusted by this tie',
           'harness/lib_mol.py (graph extraction), harness/lib_ast.py (tree serialisation), harness/lib_embeds.py (oracle)']
TECHNIQUE = 'Lean 4 proof over hand-written model + correspondence check + table translator'
LEVEL_TEXT = ('Lean 4 theorems for every query (any number of atoms, bonds, constraints), every well-formed molecule graph and every '
              'assignment: the matcher pipeline (molecule constraints, pruned candidate enumeration, bond, atom and stereo constraint '
              'filters) returns an assignment exactly when it embeds the fragment as the property text defines, without duplicates; the '
              'reader produces well-formed queries and is invariant under renaming of labels; the comparison-operator and bond-word '
              'tables of the live code equal the reference tables (kernel-checked on every run). Tied to the code by a differential run '
              'on generated fragment x molecule pairs. A proof is the right level: the quantifier is over all fragments and molecules.')
LEVEL_NOTE = ('Partial: T1 is proved under the guard "no * suffix" (finding FM1: the reader drops what * asks for; the full statement is '
              'kept and refuted in Lean) and the cap of 10 000 candidates is an explicit hypothesis (F30). Trusted: Lean kernel; RDKit as '
              'graph provider and candidate enumerator (assumptions A-graph, A-cand, re-validated on every case); the hand-written reference '
              'tables in PGA/Spec/Embeds.lean. Layout independence is proved for gaps of two or more filler characters or '
              'containing a newline / tab, and for leading / trailing filler (C08_layout_irrelevant_partial, any token sequence); turning a '
              'single blank into another gap is stated (C08_layout_irrelevant_full), not proved, and exercised by the text path on random layouts.')

EXC = None


def exc_table():
    global EXC
    if EXC is None:
        from pgradd.Error import RINGSyntaxError, RINGReaderError
        EXC = [(RINGSyntaxError, 'syntax'), (RINGReaderError, 'reader'), (NotImplementedError, 'notImplemented')]
    return EXC


def impl_read(text):
    from pgradd.RINGParser.Reader import Read
    try:
        return Read(text), 'ok'
    except Exception as e:
        return None, common.exc_class(e, exc_table())


def impl_summary(q):
    """what is observable of the query the reader built (compared with the model's reading of the same tree)"""
    cons = collections.Counter()
    for lst in q.atom_constraints.values():
        for c in lst:
            cons[type(c).__name__] += 1
    n = q.mol.GetNumAtoms()
    return {'natoms': n, 'nbonds': q.mol.GetNumBonds(), 'nstereo': len(q.double_bond_stereo_constraints),
            'nmol': len(q.mol_constraints), 'labels': list(q.atom_names),
            'bonds': [[b.GetBeginAtomIdx(), b.GetEndAtomIdx()] for b in q.mol.GetBonds()],
            'typecons': [len(q.atom_constraints.get(i, [])) for i in range(n)],
            'bondcons': len(q.bond_constraints),
            'cons': {'conn': cons['AtomConnectivityAtom'], 'ringSize': cons['AtomRing'], 'nRing': cons['AtomNRing'],
                     'radical': cons['AtomRadical']},
            'wf': True}


def impl_matches(q, mol, quiet=False):
    try:
        if quiet:
            with contextlib.redirect_stdout(io.StringIO()):
                r = q.GetQueryMatches(mol)
        else:
            r = q.GetQueryMatches(mol)
        return sorted(tuple(int(x) for x in t) for t in r)
    except Exception as e:
        return ('exc', type(e).__name__)


# ---------------------------------------------------------------------------------------------- molecules
class MolPool(object):
    def __init__(self, ctx):
        from rdkit import Chem, RDLogger
        RDLogger.DisableLog('rdApp.*')
        self.Chem = Chem
        self.entries = []        # dict(name, mol, H, g, G, feats)
        self.bad_graph = []
        self.skipped = collections.Counter()

    def add(self, name, mol):
        Chem = self.Chem
        try:
            H = Chem.AddHs(mol)
            g = lib_mol.mol_to_json(H)
        except lib_mol.UnsupportedGraph:
            self.skipped['unspecified_bond'] += 1
            return None
        except Exception as e:
            self.skipped['addhs_' + type(e).__name__] += 1
            return None
        bad = lib_mol.check_graph(H, g)
        if bad:
            self.bad_graph.append((name, bad))
        ent = {'name': name, 'mol': mol, 'H': H, 'g': g, 'G': EM.Graph(g), 'feats': mol_features(g)}
        self.entries.append(ent)
        return ent


def mol_features(g):
    f = set()
    for a in g['atoms']:
        f.add('Z%d' % a[0])
        if a[1] > 0:
            f.add('pos')
        if a[1] < 0:
            f.add('neg')
        if a[2] > 0:
            f.add('rad')
            f.add('rad%d' % a[2])
            if a[1] == 1 and a[2] == 1:
                f.add('posrad')
            if a[1] == -1 and a[2] == 1:
                f.add('negrad')
        if a[3]:
            f.add('arom')
        if a[0] >= 20:
            f.add('metal')
    for b in g['bonds']:
        f.add('b_' + b[2])
        if b[3]:
            f.add('ringbond')
        if b[4] != 'none':
            f.add('stereo')
    if g['rings']:
        f.add('ring')
    return f


SYM_FEAT = {'C': 'Z6', 'O': 'Z8', 'N': 'Z7', 'H': 'Z1', 'Pt': 'Z78', 'S': 'Z16', 'P': 'Z15', 'Cl': 'Z17', 'Si': 'Z14', 'Ru': 'Z44',
            'M': 'metal', 'c': 'arom', 'n': 'arom', 'o': 'arom'}
SUF_FEAT = {'+': 'pos', '-': 'neg', '.': 'rad1', ':': 'rad2', ':.': 'rad3', '+.': 'posrad', '-.': 'negrad', '*': 'pos'}
BOND_FEAT = {'double': 'b_double', 'triple': 'b_triple', 'quadruple': 'b_quadruple', 'aromatic': 'b_aromatic', 'ring': 'ringbond',
             'strong': None, 'partial': None}


def frag_wants(frag):
    """features a molecule should have for the fragment to stand a chance of matching (used to bias the pairing)"""
    w = set()
    for it in frag['items']:
        if it[0] == 'atom':
            a = it[1]
            if a['sym'] in SYM_FEAT:
                w.add(SYM_FEAT[a['sym']])
            if a.get('suffix') in SUF_FEAT:
                w.add(SUF_FEAT[a['suffix']])
            if a.get('prefix') in ('aromatic',):
                w.add('arom')
            if a.get('prefix') in ('ringatom',):
                w.add('ring')
            if a['bond'] and BOND_FEAT.get(a['bond'][0]):
                w.add(BOND_FEAT[a['bond'][0]])
            for c in a['chain']:
                if c[0] in ('ringsize', 'nring') and not c[1]:
                    w.add('ring')
                if c[0] == 'conn' and not c[1] and (c[2] is None or c[2] in ((None, 1), ('>=', 1), ('>', 0), ('=', 1))):
                    if BOND_FEAT.get(c[4]):
                        w.add(BOND_FEAT[c[4]])
                    if c[3]['sym'] in SYM_FEAT:
                        w.add(SYM_FEAT[c[3]['sym']])
        elif it[0] == 'stereo':
            w.add('stereo')
    for p in frag['molprefix']:
        w.add({'positive': 'pos', 'negative': 'neg', 'aromatic': 'arom', 'olefinic': 'b_double', 'cyclic': 'ring'}.get(p, 'Z6'))
    return w


def build_pool(ctx):
    rng = ctx.rng
    pool = MolPool(ctx)
    small = MG.small_molecules(4 if ctx.thorough() else 3, two_states=ctx.thorough())
    for smi, m in small:
        pool.add(smi, m)
    ctx.count('mols_small_exhaustive', len(small))
    for smi, m in MG.special_molecules():
        pool.add(smi, m)
        for how in ('kek', 'lib'):
            p = MG.prepare(m, how)
            if p is not None:
                pool.add(smi + '#' + how, p)
        for k in range(ctx.n(1, 3)):
            try:
                pool.add(smi + '#perm%d' % k, MG.renumbered(m, rng))
            except Exception:
                pass
    # renumbered copies of a sample of the small ones (index-order independence)
    for smi, m in rng.sample(small, min(len(small), ctx.n(150, 1200))):
        pool.add(smi + '#perm', MG.renumbered(m, rng))
    ctx.count('mols_total', len(pool.entries))
    for k, v in pool.skipped.items():
        ctx.count('mols_skipped_' + k, v)
    return pool


# ---------------------------------------------------------------------------------------------- one fragment
class FragCase(object):
    def __init__(self, frag, text, origin):
        self.frag, self.text, self.origin = frag, text, origin
        self.key = RG.render(frag, plain=True)
        self.q, self.read = impl_read(text)
        self.ast = None
        self.expected_read = 'ok'
        try:
            EM.resolve(frag)
        except EM.Unreadable:
            self.expected_read = 'reader'
        self.star = frag_has(frag, suffix='*')


def frag_has(frag, suffix=None):
    for it in frag['items']:
        if it[0] == 'atom':
            a = it[1]
            if a.get('suffix') == suffix:
                return True
            for c in a['chain']:
                if c[0] == 'conn' and c[3].get('suffix') == suffix:
                    return True
    return False


def count_constructs(ctx, frag, tag):
    for p in frag['molprefix']:
        ctx.count('%s_molprefix_%s' % (tag, p))
    for it in frag['items']:
        if it[0] == 'atom':
            a = it[1]
            ctx.count('%s_sym_%s' % (tag, a['sym'] if a['sym'] in RG.CLASS_SYMS else ('lower' if a['sym'][0].islower() else 'element')))
            ctx.count('%s_suffix_%s' % (tag, a.get('suffix') or 'none'))
            if a['label'] == 'AtomLabel':
                ctx.count('%s_label_AtomLabel' % tag)
                if a['bond'] and a['bond'][1] == 'AtomLabel':
                    ctx.count('%s_bond_to_AtomLabel' % tag)
            elif a['bond'] and a['bond'][1] == 'AtomLabel':
                ctx.count('%s_bond_to_AtomLabel' % tag)
            if a.get('prefix'):
                ctx.count('%s_prefix_%s' % (tag, a['prefix']))
            if a['bond']:
                ctx.count('%s_bond_%s' % (tag, a['bond'][0]))
            for c in a['chain']:
                cn = c[2]
                ctx.count('%s_cons_%s%s_%s' % (tag, '!' if c[1] else '', c[0], (cn[0] or 'noop') if cn else 'default'))
                if c[0] == 'conn':
                    ctx.count('%s_connbond_%s' % (tag, c[4] or 'default'))
        elif it[0] == 'ringbond':
            ctx.count('%s_ringbond_%s' % (tag, it[2]))
        else:
            ctx.count('%s_stereo_%s%s' % (tag, '!' if it[2] else '', it[3]))


def classify(fc, ent, impl, oracle, capped):
    """finding id for a violating case, by a precise predicate — or None"""
    if isinstance(impl, tuple) or isinstance(oracle, tuple):
        return None
    if capped and len(impl) < len(oracle) and set(impl) <= set(oracle):
        # explained by the cap only if the pipeline ran on 10 000 candidates: at most (all candidates - embeddings) of those
        # it kept can have been filtered out
        n_all = len(ent['H'].GetSubstructMatches(fc.q.mol, uniquify=False, maxMatches=10 ** 7))
        if len(impl) >= 10000 - (n_all - len(oracle)):
            return 'F30'
        return None
    if fc.star and impl == EM.embeddings(fc.frag, ent['g'], star=False, G=ent['G']):
        return 'FM1'
    return None


def shrink(fc, ent, budget=60, run=None):
    """smaller fragment on which implementation and oracle still differ on the same molecule (greedy, bounded).
    `run(text)` -> matches of the fragment text on the molecule in the environment under test (None: not read);
    default: this process."""
    import copy

    def inproc(text):
        q, cls = impl_read(text)
        return impl_matches(q, ent['mol'], quiet=True) if cls == 'ok' else None
    run = run or inproc

    def differs(frag):
        try:
            if isinstance(EM.embeddings(frag, ent['g'], G=ent['G']), tuple):
                return False
        except Exception:
            return False
        r = run(RG.render(frag, plain=True))
        if r is None:
            return False
        return r != EM.embeddings(frag, ent['g'], G=ent['G'])
    cur = copy.deepcopy(fc.frag)
    progress = True
    while progress and budget > 0:
        progress = False
        cands = []
        for k in range(len(cur['molprefix'])):
            c = copy.deepcopy(cur)
            del c['molprefix'][k]
            cands.append(c)
        for i in range(len(cur['items']) - 1, 0, -1):          # drop a trailing item nobody refers to
            it = cur['items'][i]
            lab = it[1]['label'] if it[0] == 'atom' else None
            later = json.dumps(cur['items'][i + 1:])
            if lab is None or ('"%s"' % lab) not in later:
                c = copy.deepcopy(cur)
                del c['items'][i]
                cands.append(c)
        for i, it in enumerate(cur['items']):
            if it[0] == 'atom':
                for k in range(len(it[1]['chain'])):
                    c = copy.deepcopy(cur)
                    del c['items'][i][1]['chain'][k]
                    cands.append(c)
                for field in ('prefix', 'suffix'):
                    if it[1].get(field) not in (None, '?'):
                        c = copy.deepcopy(cur)
                        c['items'][i][1][field] = None if field == 'prefix' else '?'
                        cands.append(c)
        for c in cands:
            budget -= 1
            if budget <= 0:
                break
            if differs(c):
                cur = c
                progress = True
                break
    return cur


# ---------------------------------------------------------------------------------------------- the environment of the process
# The embeddings a fragment denotes do not depend on how the interpreter was started or configured.  Two probes:
# (1) in this process, every pair that has candidates is matched again with the warnings filter set to 'error' (a warning
#     emitted inside a `try: constraint(...) except Exception` of the matcher then counts as "constraint failed");
# (2) a sample of the pairs is matched in child interpreters started with other options (lib_envchild.MODES: -O, -OO,
#     -W error, a fixed hash seed) - `assert` used as control flow, a docstring used as data, set order show there.
# Both compare with the ORACLE (the pairs sampled are those on which this process agrees with it), and the recorded input
# carries the environment.
ENV_MODES_QUICK = ['O', 'Werror', 'OO+hash']
ENV_MODES_THOROUGH = ['O', 'OO', 'Werror', 'OO+hash', 'plain']


def matches_under_filter(q, mol, action):
    import warnings
    with warnings.catch_warnings():
        warnings.simplefilter(action)
        return impl_matches(q, mol, quiet=True)


def read_and_match_under_filter(text, mol, action):
    import warnings
    with warnings.catch_warnings():
        warnings.simplefilter(action)
        q, cls = impl_read(text)
        return impl_matches(q, mol, quiet=True) if cls == 'ok' else None


class EnvProbe(object):
    def __init__(self):
        self.samples = []
        self.per_frag = collections.Counter()

    def offer(self, ctx, fc, ent, oracle, inp):
        """called for a pair with candidates on which this process returns exactly the oracle's embeddings"""
        ctx.count('env_warnings_error_pairs')
        r = matches_under_filter(fc.q, ent['mol'], 'error')
        if r != oracle:
            env = {'warnings': 'error'}
            report_env(ctx, fc, ent, oracle, r, inp, env, lambda text: read_and_match_under_filter(text, ent['mol'], 'error'))
        elif self.per_frag[(id(fc), bool(oracle))] < 1:
            self.per_frag[(id(fc), bool(oracle))] += 1
            self.samples.append((fc, ent, oracle, inp))


def report_env(ctx, fc, ent, oracle, got, inp, env, run):
    if isinstance(got, list) and isinstance(oracle, list):
        what = ('returns an assignment that violates the fragment' if set(got) - set(oracle) else 'omits an assignment that satisfies the fragment')
    else:
        what = 'matching raises an exception'
    what = 'the matches depend on the environment of the process (%s): %s' % (json.dumps(env, sort_keys=True), what)
    if not any(v['what'] == what for v in ctx.violations):
        small = shrink(fc, ent, budget=40, run=run)
        if small != fc.frag:
            st = RG.render(small, plain=True)
            r2 = run(st)
            if r2 is not None:
                inp = dict(inp, fragment=small, text=st, shrunk_from=fc.text)
                got, oracle = r2, EM.embeddings(small, ent['g'], G=ent['G'])
    detail = {'extra': sorted(set(map(tuple, got)) - set(oracle))[:5], 'missing': sorted(set(oracle) - set(map(tuple, got)))[:5]} \
        if isinstance(got, list) and got[:1] != ['exc'] else {}
    ctx.violation(what, dict(inp, env=env), expected={'embeddings': oracle[:50], 'n': len(oracle)},
                  observed={'matches': got[:50] if isinstance(got, list) else got, 'diff': detail})


def child_matches(child, text, molpkl):
    rep = child.ask({'op': 'match', 'text': text, 'molpkl': molpkl})
    if 'childerror' in rep:
        raise common.MachineryError('child interpreter (%s) failed: %s' % (child.mode, rep['childerror']))
    if rep['read'] != 'ok':
        return None
    m = rep['matches']
    return ('exc', m[1]) if m[:1] == ['exc'] else [tuple(t) for t in m]


def run_env_children(ctx, probe):
    """the sampled pairs in child interpreters of other modes, all modes in parallel (requests through files)"""
    import subprocess, sys
    from . import lib_envchild as EC
    rng = ctx.rng
    samples = probe.samples
    cap = ctx.n(5000, 25000)
    if len(samples) > cap:
        keep = [s for s in samples if s[0].origin == 'small']
        rest = [s for s in samples if s[0].origin != 'small']
        samples = keep[:cap] + rng.sample(rest, max(0, min(len(rest), cap - len(keep))))
    if not samples or ctx.time_left() < 90:
        ctx.count('env_children_not_run')
        return
    modes = ENV_MODES_THOROUGH if ctx.thorough() else ENV_MODES_QUICK
    reqf = os.path.join(ctx.scratch, 'c08_env_requests.jsonl')
    with open(reqf, 'w') as f:
        f.write(json.dumps({'op': 'hello'}) + '\n')
        for fc, ent, oracle, inp in samples:
            f.write(json.dumps({'op': 'match', 'text': fc.text, 'molpkl': inp['molpkl']}) + '\n')
    procs = []
    for mode in modes:
        outf = os.path.join(ctx.scratch, 'c08_env_%s.jsonl' % mode.replace('+', '_'))
        procs.append((mode, outf, EC.spawn_batch(mode, reqf, outf)))
    for mode, outf, p in procs:
        try:
            p.wait(timeout=max(60, ctx.time_left() - 30))
        except subprocess.TimeoutExpired:
            p.kill()
            raise common.MachineryError('the %s child interpreter did not finish in time' % mode)
        lines = [json.loads(l) for l in open(outf)]
        if len(lines) != len(samples) + 1:
            raise common.MachineryError('the %s child interpreter answered %d of %d requests (exit %r)' % (mode, len(lines), len(samples) + 1, p.returncode))
        facts = lines[0]
        want_asserts = '-O' not in EC.MODES[mode]['argv'] and '-OO' not in EC.MODES[mode]['argv']
        if facts.get('asserts') != want_asserts:
            raise common.MachineryError('child interpreter %s: assert statements %s, expected %s' % (mode, facts.get('asserts'), want_asserts))
        ctx.count('env_child_%s_pairs' % mode, len(samples))
        child = None
        for (fc, ent, oracle, inp), rep in zip(samples, lines[1:]):
            if 'childerror' in rep:
                raise common.MachineryError('child interpreter (%s) failed: %s' % (mode, rep['childerror']))
            got = None if rep['read'] != 'ok' else (('exc', rep['matches'][1]) if rep['matches'][:1] == ['exc'] else [tuple(t) for t in rep['matches']])
            if got != oracle:
                env = {'mode': mode, 'argv': EC.MODES[mode]['argv'], 'env': EC.MODES[mode]['env']}
                if got is None:
                    ctx.violation('reading a fragment depends on the environment of the process (%s)' % json.dumps(env, sort_keys=True),
                                  dict(inp, env=env), expected='ok', observed=rep['read'])
                    continue
                if child is None:
                    child = EC.EnvChild(mode)
                report_env(ctx, fc, ent, oracle, got, inp, env, lambda text, c=child, e=ent, i=inp: child_matches(c, text, i['molpkl']))
                if sum(1 for v in ctx.violations if '"mode": "%s"' % mode in v['what']) >= 3:
                    break
        if child is not None:
            child.close()


def check_pair(ctx, fc, ent, requests, selfcheck=True):
    """property oracle on one (fragment, molecule) pair; queues the model request. Returns True when the property holds."""
    q = fc.q
    raw = ent['H'].GetSubstructMatches(q.mol, uniquify=False, maxMatches=10000)
    capped = len(raw) >= 10000
    impl = impl_matches(q, ent['mol'], quiet=capped)
    oracle = EM.embeddings(fc.frag, ent['g'], G=ent['G'])
    nontrivial = bool(raw) or bool(oracle)
    ctx.case((fc.key, ent['name']) if nontrivial else None,
             {'fragment': fc.key, 'molecule': ent['name'], 'matches': impl[:4] if isinstance(impl, list) else impl} if (nontrivial and oracle) else None)
    ctx.count('pairs')
    if capped:
        ctx.count('pairs_capped_excluded_from_tie')
    if oracle:
        ctx.count('pairs_with_embeddings')
        count_constructs(ctx, fc.frag, 'hit')
    if raw:
        ctx.count('pairs_with_candidates')
        if len(raw) >= 100:
            ctx.count('pairs_with_100+_candidates')
        if len(raw) >= 1000:
            ctx.count('pairs_with_1000+_candidates')
    if selfcheck and ent['G'].n ** len(fc.q.atom_names) <= 4000:
        ctx.count('oracle_selfcheck_bruteforce')
        if EM.brute(fc.frag, ent['g']) != oracle:
            raise common.MachineryError('the oracle disagrees with the literal definition on %r / %s' % (fc.key, ent['name']))
    ok = True
    inp = {'fragment': fc.frag, 'text': fc.text, 'molecule': ent['name'], 'graph': ent['g'],
           'molpkl': base64.b64encode(ent['mol'].ToBinary()).decode()}
    if impl != oracle:
        fid = classify(fc, ent, impl, oracle, capped)
        ok = False
        if isinstance(impl, list) and isinstance(oracle, list):
            what = ('returns an assignment that violates the fragment' if set(impl) - set(oracle) else
                    'omits an assignment that satisfies the fragment')
            detail = {'extra': sorted(set(impl) - set(oracle))[:5], 'missing': sorted(set(oracle) - set(impl))[:5]}
        else:
            what, detail = 'matching raises an exception', {}
        if fid is None and not any(v['what'] == what for v in ctx.violations):
            small = shrink(fc, ent)
            if small != fc.frag:
                st = RG.render(small, plain=True)
                sq, _ = impl_read(st)
                inp = dict(inp, fragment=small, text=st, shrunk_from=fc.text)
                impl, oracle = impl_matches(sq, ent['mol'], quiet=True), EM.embeddings(small, ent['g'], G=ent['G'])
                detail = {'extra': sorted(set(impl) - set(oracle))[:5], 'missing': sorted(set(oracle) - set(impl))[:5]} if isinstance(impl, list) else {}
        ctx.violation(what, inp, expected={'embeddings': oracle[:50] if isinstance(oracle, list) else oracle, 'n': len(oracle)},
                      observed={'matches': impl[:50] if isinstance(impl, list) else impl, 'diff': detail}, finding=fid)
    elif isinstance(impl, list) and len(set(impl)) != len(impl):
        ok = False
        ctx.violation('returns an assignment twice', inp, expected='no duplicates', observed=impl[:50])
    elif raw and not capped and getattr(ctx, 'env_probe', None) is not None:
        ctx.env_probe.offer(ctx, fc, ent, oracle, inp)
    if not capped:
        requests.append((fc, ent, impl, sorted(tuple(int(x) for x in t) for t in raw)))
    return ok


def cps(text):
    return [ord(c) for c in text]


def impl_syntax_pos(text):
    from pgradd.RINGParser import Parser
    from pgradd.Error import RINGSyntaxError
    try:
        Parser.parse(text)
    except RINGSyntaxError as e:
        return [e.lineno, e.colno]
    except Exception:
        return None
    return None


def run_model(ctx, requests, fcs):
    """the tie: one driver batch per chunk of fragments; every fragment travels as its text (parser model + bridge) and, when the
    implementation's parser produced one, as the implementation's tree"""
    if not ctx.driver_ok:
        return
    by_frag = collections.OrderedDict()
    for r in requests:
        by_frag.setdefault(id(r[0]), []).append(r)
    frs = list(fcs)
    acand_bad = 0
    ncmp = 0
    for c0 in range(0, len(frs), 60):
        chunk = frs[c0:c0 + 60]
        mols, midx, pairs, meta = [], {}, [], []
        for ai, fc in enumerate(chunk):
            for (_, ent, impl, raw) in by_frag.get(id(fc), []):
                k = id(ent)
                if k not in midx:
                    midx[k] = len(mols)
                    mols.append(ent['g'])
                pairs.append([ai, midx[k]])
                meta.append((ai, fc, ent, impl, raw))
        rep = ctx.model([{'op': 'c08.batch', 'asts': [fc.ast for fc in chunk], 'texts': [cps(fc.text) for fc in chunk],
                          'mols': mols, 'pairs': pairs}])[0]
        if not all(rep['wf']):
            raise common.MachineryError('a generated molecule graph is not well-formed for the model')
        for fc, rs, ts, same, tree in zip(chunk, rep['reads'], rep['treads'], rep['tsame'], rep['ttree']):
            # --- tree path (the implementation's own tree through the reader model)
            impl_s = impl_summary(fc.q) if fc.read == 'ok' else None
            icls = 'internal' if fc.read.startswith('internal:') else fc.read
            if rs is not None:
                ctx.count('corr_c08.read')
                if fc.read == 'ok':
                    if 'err' in rs or any(rs.get(k) != impl_s[k] for k in impl_s):
                        ctx.disagree('corr:c08.read', {'text': fc.text}, impl_s, rs)
                else:
                    mcls = rs.get('err')
                    if mcls != icls and not (mcls is not None and fc.lenient):
                        ctx.disagree('corr:c08.read', {'text': fc.text}, fc.read, rs)
            # --- text path (parser model -> bridge -> reader model), against the implementation
            ctx.count('corr_c08.read_text')
            ctx.count('text_read_' + (ts.get('err') or 'ok'))
            if fc.read == 'ok':
                if 'err' in ts or any(ts.get(k) != impl_s[k] for k in impl_s):
                    ctx.disagree('corr:c08.read_text', {'text': fc.text}, impl_s, ts)
            else:
                if ts.get('err') != icls:
                    ctx.disagree('corr:c08.read_text', {'text': fc.text}, fc.read, ts)
                elif icls == 'syntax' and [ts.get('line'), ts.get('col')] != impl_syntax_pos(fc.text):
                    ctx.disagree('corr:c08.read_text', {'text': fc.text}, {'syntax': impl_syntax_pos(fc.text)}, ts)
            # --- the two paths against each other: same tree (parser model + bridge = implementation's parser), same query
            if fc.ast is not None:
                ctx.count('corr_c08.text_tree')
                if not tree:
                    ctx.disagree('corr:c08.text_tree', {'text': fc.text}, {'impl_tree': fc.ast}, {'model_text_path': ts})
                elif not same:
                    ctx.disagree('corr:c08.read_text', {'text': fc.text, 'note': 'same tree, different query: driver inconsistency'}, rs, ts)
        for (ai, fc, ent, impl, raw), r in zip(meta, rep['res']):
            inp = {'text': fc.text, 'molecule': ent['name'], 'graph': ent['g']}
            # text path: either the query is structurally the one of the tree path (then `m` is its result too) or `tm`/`terr`
            ctx.count('corr_c08.match_text')
            if 'terr' in r:
                ctx.disagree('corr:c08.match_text', inp, impl, r['terr'])
            elif 'tm' in r:
                if [tuple(t) for t in r['tm']] != impl:
                    ctx.disagree('corr:c08.match_text', inp, impl, r['tm'][:50])
            elif not rep['tsame'][ai]:
                raise common.MachineryError('driver reply lacks the text-path result of a pair')
            if fc.ast is None:
                continue
            ctx.count('corr_c08.match')
            ncmp += 1
            if 'err' in r:
                ctx.disagree('corr:c08.match', inp, impl, r)
                continue
            mm = [tuple(t) for t in r['m']]
            if mm != impl:
                ctx.disagree('corr:c08.match', inp, impl, mm[:50])
            mraw = sorted(tuple(t) for t in r['raw'])
            if mraw != raw:
                acand_bad += 1
                ctx.disagree('corr:c08.candidates', inp, raw[:50], mraw[:50])
    prev = ctx.assumption_checks.get('A-cand', {'ok': True, 'detail': ''})
    ctx.assumption_checks['A-cand'] = {'ok': prev['ok'] and acand_bad == 0,
                                       'detail': '%s; RDKit candidate list = model enumerator on %d cases, %d differences' % (prev['detail'], ncmp, acand_bad)}


def layout_group(ctx, frag, k):
    """k random layouts of one fragment; counts how many (first, other) pairs fall under the proved layout theorem"""
    ls = [RG.render_gaps(frag, ctx.rng) for _ in range(k)]
    ls.append(RG.alike_variant(frag, ls[0][1], ls[0][2], ctx.rng))
    for (_, _, g) in ls[1:]:
        ctx.count('layout_pairs')
        if RG.gaps_alike(ls[0][2], g):
            ctx.count('layout_pairs_covered_by_C08_layout_irrelevant_partial')
    return {'frag': frag, 'texts': [t for (t, _, _) in ls]}


def run_layouts(ctx, groups):
    """layout independence on both parsers: every text of a group is another random layout of one fragment; the model (parser
    model + bridge + reader) must give the first text's tree and query for each, the implementation's parser the first text's
    tree, and the model's reading must be the implementation's"""
    if not ctx.driver_ok or not groups:
        return
    reqs = [{'op': 'c08.layouts', 'texts': [cps(t) for t in g['texts']]} for g in groups]
    for g, rep in zip(groups, ctx.model(reqs)):
        trees = []
        for t in g['texts']:
            try:
                trees.append(lib_ast.parse_to_json(t))
            except Exception as e:
                trees.append(('exc', common.exc_class(e, exc_table())))
        for k, t in enumerate(g['texts']):
            ctx.count('layout_texts')
            ctx.count('corr_c08.layouts')
            if trees[k] != trees[0]:
                ctx.violation('the layout of a fragment changes its parse tree', {'text': g['texts'][0], 'other': t, 'fragment': g['frag']},
                              expected='the same tree', observed=trees[k] if isinstance(trees[k], tuple) else 'another tree')
            if not rep['same'][k]:
                ctx.disagree('corr:c08.layouts', {'text': g['texts'][0], 'other': t}, 'same tree and query for every layout (parser model)', rep['reads'][k])
            ok_impl = not isinstance(trees[k], tuple)
            if ok_impl != (rep['reads'][k].get('err') not in ('syntax', 'stuck', 'missingRule', 'hang', 'parserInternal')):
                ctx.disagree('corr:c08.layouts', {'text': t}, trees[k] if not ok_impl else 'parsed', rep['reads'][k])


# ---------------------------------------------------------------------------------------------- run
def make_case(ctx, frag, origin, layout=True):
    text = RG.render(frag, ctx.rng if layout else None)
    fc = FragCase(frag, text, origin)
    fc.lenient = False
    try:
        fc.ast = lib_ast.parse_to_json(text)
    except Exception:
        fc.ast = None
    if fc.ast is None:
        ctx.count('fragments_without_impl_tree')
    ctx.count('fragments')
    ctx.count('fragments_' + origin)
    ctx.count('read_' + fc.read)
    count_constructs(ctx, frag, 'gen')
    return fc


def check_read(ctx, fc):
    """the fragment-level clause: a fragment the grammar and the property give a meaning to must be read"""
    if fc.read != fc.expected_read:
        if fc.expected_read == 'ok' and fc.read == 'internal:TypeError' and atomlabel_class(fc.frag):
            # FM2 is `fixed` (repository commit e97afc2): the id is attached for the report only, a fixed entry excuses nothing
            ctx.violation('a well-formed fragment is not read (TypeError)', {'text': fc.text, 'fragment': fc.frag},
                          expected='ok', observed=fc.read, finding='FM2')
            return False
        if fc.read == 'ok':
            ctx.violation('a fragment naming an unknown element or label is accepted', {'text': fc.text, 'fragment': fc.frag},
                          expected=fc.expected_read, observed=fc.read)
        else:
            ctx.violation('a well-formed fragment is not read', {'text': fc.text, 'fragment': fc.frag},
                          expected=fc.expected_read, observed=fc.read)
        return False
    return True


def atomlabel_class(frag):
    """FM2's input class: an atom labelled `AtomLabel` is declared before another bonded atom"""
    seen = False
    for it in frag['items']:
        if it[0] == 'atom':
            if seen and it[1]['bond']:
                return True
            if it[1]['label'] == 'AtomLabel':
                seen = True
    return False


def pick_mols(ctx, pool, fc, k):
    rng = ctx.rng
    wants = frag_wants(fc.frag)
    ents = pool.entries
    out = [rng.choice(ents) for _ in range(k // 3 + 1)]
    good = [e for e in ents if wants <= e['feats']]
    if good:
        out += [rng.choice(good) for _ in range(k - len(out))]
    else:
        out += [rng.choice(ents) for _ in range(k - len(out))]
    seen, res = set(), []
    for e in out:
        if id(e) not in seen:
            seen.add(id(e))
            res.append(e)
    return res


def run_fragment(ctx, pool, fc, k, requests, extra_tries=30):
    """pairs of one fragment: k picked molecules, then (so that every construct is seen on a pair that has embeddings)
    further molecules with the wanted features until one pair has embeddings"""
    ents = pick_mols(ctx, pool, fc, k)
    before = ctx.stats.get('pairs_with_embeddings', 0)
    res = [check_pair(ctx, fc, ent, requests) for ent in ents]
    if ctx.stats.get('pairs_with_embeddings', 0) == before:
        wants = frag_wants(fc.frag)
        good = [e for e in pool.entries if wants <= e['feats'] and e not in ents]
        ctx.rng.shuffle(good)
        for ent in good[:extra_tries]:
            ctx.count('pairs_extra_for_reach')
            res.append(check_pair(ctx, fc, ent, requests))
            ents.append(ent)
            if ctx.stats.get('pairs_with_embeddings', 0) != before:
                break
    return ents, res


def merge_findings(ctx):
    """known_findings.json is assembled by the integrator (mkknown); until then read this property's own findings file"""
    p = os.path.join(common.VERIF, 'findings', 'C08.json')
    if os.path.exists(p):
        for e in json.load(open(p)):
            ctx.known[e['id']] = e          # this property's own file wins over a stale entry of the shared list


def run(ctx):
    rng = ctx.rng
    merge_findings(ctx)
    for fname, rec in common.load_corpus('C08'):
        ctx.count('corpus')
        replay(ctx, rec)
    ctx.env_probe = EnvProbe()
    pool = build_pool(ctx)
    ctx.assumption_checks['A-graph'] = {'ok': not pool.bad_graph,
                                        'detail': 'IsInRing/GetBonds/NumRings/no parallel bonds consistent with the extracted graph on %d molecules%s'
                                        % (len(pool.entries), ('; FAILED: %r' % pool.bad_graph[:3]) if pool.bad_graph else '')}
    if pool.bad_graph:
        raise common.MachineryError('assumption A-graph failed: %r' % (pool.bad_graph[:3],))
    # F22 (lower-case symbols) and FM2 (label `AtomLabel`) are repaired on the repository: both classes are generated
    # unconditionally and a recurrence is a violation
    fcs, requests, layout_groups = [], [], []
    # 1. bounded-exhaustive small fragments x sampled molecules
    small = RG.small_fragments(ctx.thorough())
    per_small = ctx.n(10, 60)
    for frag in small:
        if ctx.time_left() < 120:
            ctx.count('stopped_early_time')
            break
        fc = make_case(ctx, frag, 'small', layout=False)
        fcs.append(fc)
        layout_groups.append(layout_group(ctx, frag, 2))
        if not check_read(ctx, fc) or fc.read != 'ok':
            continue
        run_fragment(ctx, pool, fc, per_small, requests)
    # 2. random grammar-directed fragments (1..8 atoms, random layout and labels) x sampled molecules
    per_rand = ctx.n(10, 40)
    for i in range(ctx.n(1800, 30000)):
        if ctx.time_left() < 120:
            ctx.count('stopped_early_time')
            break
        if i % 25 == 0:
            frag = RG.stereo_fragment(rng)
        elif i % 40 == 7:
            frag = RG.dup_label_fragment(rng)
        elif i % 50 == 9:
            frag = RG.atomlabel_fragment(rng)
        else:
            frag = RG.rand_fragment(rng)
        fc = make_case(ctx, frag, 'random')
        fcs.append(fc)
        if not check_read(ctx, fc) or fc.read != 'ok':
            continue
        ents, res = run_fragment(ctx, pool, fc, per_rand, requests, extra_tries=6)
        # further random layouts of the same fragment: parse tree and query must not depend on them (both parsers)
        layout_groups.append(layout_group(ctx, frag, 1 + ctx.n(2, 3)))
        # 3. layout / label independence on the implementation itself (relational clause of the property); the renamed and
        # re-laid-out fragment is also a case of its own (oracle, tree path and text path of the model)
        if i % 4 == 0:
            g2 = RG.relabel(frag, rng)
            fc2 = make_case(ctx, g2, 'relabelled')
            fcs.append(fc2)
            t2, q2, r2 = fc2.text, fc2.q, fc2.read
            ctx.count('relabel_relayout_checks')
            if r2 != 'ok':
                ctx.violation('the same fragment with other label names / layout is not read', {'text': fc.text, 'other': t2}, 'ok', r2)
            else:
                for ent in ents[:4]:
                    a, b = impl_matches(fc.q, ent['mol']), impl_matches(q2, ent['mol'])
                    if a != b:
                        ctx.violation('label names or layout change the matches', {'text': fc.text, 'other': t2, 'molecule': ent['name']},
                                      expected=a[:50] if isinstance(a, list) else a, observed=b[:50] if isinstance(b, list) else b)
                    check_pair(ctx, fc2, ent, requests, selfcheck=False)
    # all random molecules exhaustively against a few central fragments (every small molecule is used at least once)
    core = [make_case(ctx, f, 'core', layout=False) for f in core_fragments()]
    fcs += core
    for ent in pool.entries:
        if ctx.time_left() < 100:
            ctx.count('stopped_early_time')
            break
        for fc in rng.sample(core, min(len(core), ctx.n(3, 8))):
            if fc.read == 'ok':
                check_pair(ctx, fc, ent, requests, selfcheck=False)
    # many-candidate cases: unconstrained chains and stars on the largest molecules (hundreds to thousands of candidates)
    dense = [make_case(ctx, f, 'dense', layout=False) for f in dense_fragments()]
    fcs += dense
    big = sorted(pool.entries, key=lambda e: -e['G'].n)[:ctx.n(30, 120)]
    for ent in big:
        if ctx.time_left() < 100:
            break
        for fc in rng.sample(dense, min(len(dense), ctx.n(2, 5))):
            ctx.count('dense_pairs')
            check_pair(ctx, fc, ent, requests, selfcheck=False)
    run_env_children(ctx, ctx.env_probe)
    run_model(ctx, requests, fcs)
    run_layouts(ctx, layout_groups)
    reach_floor(ctx)


def core_fragments():
    A = lambda **k: ('atom', dict(dict(prefix=None, sym='C', suffix=None, label='c1', chain=[], bond=None), **k))
    F = lambda items, mp=(): {'molprefix': list(mp), 'name': 'a', 'items': items}
    return [
        F([A(sym='$', suffix='?'), A(sym='$', suffix='?', label='c2', bond=('any', 'c1'))]),
        F([A(sym='X', suffix='?'), A(sym='X', suffix='?', label='c2', bond=('strong', 'c1'))]),
        F([A(sym='X', suffix='?'), A(sym='X', suffix='?', label='c2', bond=('nonring', 'c1')), A(sym='$', suffix='?', label='c3', bond=('single', 'c2'))]),
        F([A(sym='X', suffix='?', chain=[('nring', True, (None, 1))])]),
        F([A(sym='X', suffix='?', chain=[('ringsize', False, ('<', 5))])]),
        F([A(sym='X', chain=[('conn', False, ('>=', 2), dict(prefix=None, sym='H', suffix=None), None)])]),
        F([A(sym='X', suffix='.')]), F([A(sym='X', suffix='+')]), F([A(sym='X', suffix='-')]), F([A(sym='$')]),
        F([A(sym='X', suffix='?', chain=[('conn', True, ('>', 0), dict(prefix=None, sym='X', suffix='?'), 'strong')])]),
        F([A(sym='X', suffix='?', chain=[('radical', True, ('<=', 0))])]),
        F([A(sym='&', suffix='?'), A(sym='C', suffix='?', label='c2', bond=('any', 'c1'))]),
        F([A(sym='M', suffix='?'), A(sym='X', suffix='?', label='c2', bond=('any', 'c1'))]),
        F([A(sym='X', suffix='?', prefix='ringatom'), A(sym='X', suffix='?', label='c2', bond=('ring', 'c1')), ('atom', dict(prefix=None, sym='X', suffix='?', label='c3', chain=[], bond=('ring', 'c2'))), ('ringbond', 'c3', 'ring', 'c1')]),
    ]


def dense_fragments():
    A = lambda label, bond, sym='$', suffix='?': ('atom', dict(prefix=None, sym=sym, suffix=suffix, label=label, chain=[], bond=bond))
    F = lambda items: {'molprefix': [], 'name': 'd', 'items': items}
    return [
        F([A('a', None), A('b', ('any', 'a')), A('c', ('any', 'b')), A('d', ('any', 'c'))]),
        F([A('a', None), A('b', ('any', 'a')), A('c', ('any', 'a')), A('d', ('any', 'a'))]),
        F([A('a', None, 'X'), A('b', ('single', 'a')), A('c', ('single', 'b')), A('d', ('single', 'c'), 'H', None), A('e', ('single', 'a'), 'H', None)]),
        F([A('a', None, 'C', None), A('b', ('any', 'a')), A('c', ('any', 'a')), A('d', ('any', 'a')), A('e', ('any', 'a'))]),
        F([A('a', None), A('b', ('any', 'a')), A('c', ('any', 'b'))]),
        F([A('a', None, 'X'), A('b', ('nonring', 'a')), A('c', ('any', 'b')), A('d', ('any', 'c')), A('e', ('any', 'd'))]),
    ]


REACH = (['hit_suffix_' + s for s in ['none', '+', '-', '.', ':', '+.', '-.', '?', ':.']] +
         ['hit_prefix_' + p for p in RG.ATOM_PREFIX] +
         ['hit_bond_' + b for b in RG.BONDS] +
         ['hit_molprefix_' + p for p in RG.CHARGE_PREFIX + RG.KIND_PREFIX + RG.RING_PREFIX] +
         ['hit_sym_' + s for s in RG.CLASS_SYMS + ['element', 'lower']] + ['hit_label_AtomLabel', 'hit_bond_to_AtomLabel'] +
         ['hit_cons_%s%s_%s' % (n, f, o) for n in ('', '!') for f in ('conn', 'ringsize', 'radical', 'nring') for o in ('>', '<', '>=', '<=', '=', 'noop')] +
         ['hit_cons_conn_default', 'hit_cons_!conn_default'] +
         ['hit_connbond_' + b for b in RG.BONDS + ['default']])


def reach_floor(ctx):
    """generator rot is a machinery failure: every construct must occur in at least one pair that has embeddings"""
    if ctx.stats.get('stopped_early_time') or ctx.violations or ctx.disagreements or ctx.broken:
        return
    missing = [k for k in REACH if not ctx.stats.get(k)]
    if ctx.driver_ok and ctx.stats.get('text_read_ok', 0) < 1000:
        missing.append('text_read_ok>=1000 (texts accepted by the parser model and read by the reader model)')
    ctx.extra.setdefault('coverage', {})['reach_missing'] = missing
    if missing and not ctx.searching:
        raise common.MachineryError('generator reach below the floor: no pair with embeddings for %s' % missing[:10])


def replay(ctx, rec):
    """re-run a recorded input on the implementation against the specification"""
    from rdkit import Chem, RDLogger
    RDLogger.DisableLog('rdApp.*')
    merge_findings(ctx)
    inp = rec.get('input', rec)
    before = len(ctx.violations) + sum(v['count'] for v in ctx.known_seen.values())
    frag = inp['fragment']
    frag = dict(frag, items=[tuple(it) if it[0] != 'atom' else ('atom', dict(it[1], bond=tuple(it[1]['bond']) if it[1]['bond'] else None,
                                                                              chain=[detuple(c) for c in it[1]['chain']])) for it in frag['items']])
    text = inp.get('text') or RG.render(frag, plain=True)
    fc = FragCase(frag, text, 'replay')
    fc.lenient = False
    if 'other' in inp:
        q2, r2 = impl_read(inp['other'])
        mol = Chem.MolFromSmiles(inp['smiles']) if 'smiles' in inp else None
        ok = r2 == 'ok' and fc.read == 'ok' and (mol is None or impl_matches(fc.q, mol) == impl_matches(q2, mol))
        if not ok:
            ctx.violation('label names or layout change the matches', inp, None, None)
        return ok
    if not check_read(ctx, fc) or fc.read != 'ok':
        return len(ctx.violations) + sum(v['count'] for v in ctx.known_seen.values()) == before
    pool = MolPool(ctx)
    if 'molpkl' in inp:
        mol = Chem.Mol(base64.b64decode(inp['molpkl']))
    else:
        mol = Chem.MolFromSmiles(inp['smiles'])
        if inp.get('prep') in ('kek', 'lib'):
            mol = MG.prepare(mol, inp['prep'])
    ent = pool.add(inp.get('molecule', inp.get('smiles', '?')), mol)
    if ent is None:
        raise common.MachineryError('cannot rebuild the molecule of the recorded input')
    if 'env' in inp:
        # the recorded environment is re-created: the warnings filter in this process, or a child interpreter of that mode
        oracle = EM.embeddings(fc.frag, ent['g'], G=ent['G'])
        env = inp['env']
        if 'warnings' in env:
            got = read_and_match_under_filter(fc.text, ent['mol'], env['warnings'])
        else:
            from . import lib_envchild as EC
            child = EC.EnvChild(env['mode'])
            got = child_matches(child, fc.text, base64.b64encode(ent['mol'].ToBinary()).decode())
            child.close()
        if got != oracle:
            ctx.violation('the matches depend on the environment of the process (%s)' % json.dumps(env, sort_keys=True), inp,
                          expected=oracle[:50] if isinstance(oracle, list) else oracle, observed=got[:50] if isinstance(got, list) else got)
        return len(ctx.violations) + sum(v['count'] for v in ctx.known_seen.values()) == before
    check_pair(ctx, fc, ent, [], selfcheck=False)
    return len(ctx.violations) + sum(v['count'] for v in ctx.known_seen.values()) == before


def detuple(c):
    c = list(c)
    if c[0] == 'conn':
        return ('conn', c[1], tuple(c[2]) if c[2] else None, c[3], c[4])
    return (c[0], c[1], tuple(c[2]))
