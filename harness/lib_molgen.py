"""Random molecule generator for the scheme-level checks (C02, C03, C04): molecules grown by graph edits under
valence rules with RDKit as the builder only (nothing of the repository is used).  All randomness comes from
the `random.Random` passed in."""
from rdkit import Chem
from rdkit import RDLogger

RDLogger.DisableLog('rdApp.*')

VAL = {'C': 4, 'O': 2, 'N': 3, 'S': 2, 'B': 3, 'Si': 4, 'F': 1, 'Cl': 1}
ORDER = {1: Chem.BondType.SINGLE, 2: Chem.BondType.DOUBLE, 3: Chem.BondType.TRIPLE}


class Builder:
    def __init__(self, rng, elements, weights):
        self.rng = rng
        self.elements = elements
        self.weights = weights
        self.m = Chem.RWMol()
        self.free = []          # free valence per atom
        self.rad = {}

    def add_atom(self, sym=None):
        sym = sym or self.rng.choices(self.elements, self.weights)[0]
        i = self.m.AddAtom(Chem.Atom(sym))
        self.free.append(VAL.get(sym, 0))
        return i

    def bond(self, i, j, o):
        self.m.AddBond(i, j, ORDER[o])
        self.free[i] -= o
        self.free[j] -= o

    def grow(self, n_heavy, p_multi=0.25):
        self.add_atom('C' if self.rng.random() < 0.85 else None)
        tries = 0
        while self.m.GetNumAtoms() < n_heavy and tries < 200:
            tries += 1
            cands = [i for i, f in enumerate(self.free) if f > 0]
            if not cands:
                break
            i = self.rng.choice(cands)
            j = self.add_atom()
            omax = min(self.free[i], self.free[j], 3)
            o = 1
            if omax >= 2 and self.rng.random() < p_multi:
                o = self.rng.randint(2, omax)
            self.bond(i, j, o)

    def close_rings(self, k):
        for _ in range(k):
            m = self.m
            n = m.GetNumAtoms()
            cands = [i for i in range(n) if self.free[i] > 0]
            if len(cands) < 2:
                return
            self.rng.shuffle(cands)
            done = False
            dm = Chem.GetDistanceMatrix(m)
            for a in cands:
                for b in cands:
                    if a < b and m.GetBondBetweenAtoms(a, b) is None and 2 <= dm[a][b] <= 7:
                        self.bond(a, b, 1)
                        done = True
                        break
                if done:
                    break

    def add_benzene(self, fused_to=None):
        """attach a Kekulé C6 ring (alternating bonds) to an atom with free valence, or fuse it on a C=C / C-C bond"""
        cands = [i for i, f in enumerate(self.free) if f > 0]
        ring = [self.add_atom('C') for _ in range(6)]
        for k in range(6):
            self.bond(ring[k], ring[(k + 1) % 6], 2 if k % 2 == 0 else 1)
        if cands:
            self.bond(self.rng.choice(cands), self.rng.choice(ring), 1)
        return ring

    def add_radicals(self, k):
        for _ in range(k):
            cands = [i for i, f in enumerate(self.free) if f > 0]
            if not cands:
                return
            i = self.rng.choice(cands)
            r = 1 if self.rng.random() < 0.8 else min(2, self.free[i])
            self.free[i] -= r
            self.rad[i] = self.rad.get(i, 0) + r

    def add_metal(self, k, metal='Pt', p_multi_site=0.2):
        for _ in range(k):
            cands = [i for i, f in enumerate(self.free) if f > 0 and self.m.GetAtomWithIdx(i).GetSymbol() != metal]
            if not cands:
                return
            i = self.rng.choice(cands)
            j = self.m.AddAtom(Chem.Atom(metal))
            self.free.append(0)
            self.m.AddBond(i, j, Chem.BondType.SINGLE)
            self.free[i] -= 1
            if self.rng.random() < p_multi_site and self.free[i] > 0:      # same atom bound to a second metal atom
                j2 = self.m.AddAtom(Chem.Atom(metal))
                self.free.append(0)
                self.m.AddBond(i, j2, Chem.BondType.SINGLE)
                self.free[i] -= 1

    def add_weak_metal(self, metal='Pt'):
        """a weakly bound surface atom: bond of UNSPECIFIED type (written `~`), no valence consumed"""
        cands = [a.GetIdx() for a in self.m.GetAtoms() if a.GetSymbol() in ('O', 'C', 'N')]
        if not cands:
            return
        i = self.rng.choice(sorted(cands, key=lambda i: self.m.GetAtomWithIdx(i).GetSymbol() != 'O')[:max(1, len(cands) // 2)])
        j = self.m.AddAtom(Chem.Atom(metal))
        self.free.append(0)
        self.m.AddBond(i, j, Chem.BondType.UNSPECIFIED)

    def finish(self):
        m = self.m
        for i, r in self.rad.items():
            a = m.GetAtomWithIdx(i)
            a.SetNumRadicalElectrons(r)
            a.SetNoImplicit(True)
            a.SetNumExplicitHs(max(self.free[i], 0))
        for a in m.GetAtoms():
            if a.GetSymbol() in ('Pt', 'Ru', 'Ni'):
                a.SetNoImplicit(True)
        try:
            mol = m.GetMol()
            Chem.SanitizeMol(mol, sanitizeOps=Chem.SANITIZE_ALL ^ Chem.SANITIZE_SETAROMATICITY)
            smi = Chem.MolToSmiles(mol, kekuleSmiles=True)
            mol2 = Chem.MolFromSmiles(smi)
            if mol2 is None:
                return None
            # cis/trans marking of acyclic C=C bonds with both ends substituted (set on the re-parsed molecule: RDKit
            # drops stereo labels put on a molecule assembled atom by atom)
            marked = False
            for b in mol2.GetBonds():
                if b.GetBondType() == Chem.BondType.DOUBLE and not b.IsInRing() and self.rng.random() < 0.6:
                    a1, a2 = b.GetBeginAtom(), b.GetEndAtom()
                    n1 = [x.GetIdx() for x in a1.GetNeighbors() if x.GetIdx() != a2.GetIdx()]
                    n2 = [x.GetIdx() for x in a2.GetNeighbors() if x.GetIdx() != a1.GetIdx()]
                    if n1 and n2 and a1.GetSymbol() == 'C' and a2.GetSymbol() == 'C':
                        b.SetStereoAtoms(self.rng.choice(n1), self.rng.choice(n2))
                        b.SetStereo(self.rng.choice([Chem.BondStereo.STEREOCIS, Chem.BondStereo.STEREOTRANS]))
                        marked = True
            if marked:
                smi2 = Chem.MolToSmiles(mol2, kekuleSmiles=True)
                if Chem.MolFromSmiles(smi2) is not None:
                    return smi2
            return smi
        except Exception:
            return None


def gen_smiles(rng, kind='gas', max_heavy=10, oov=False):
    """kind: 'gas' (C/H/O, some N) or 'surface' (adsorbates on Pt).  oov=True adds an out-of-vocabulary atom."""
    elements, weights = (['C', 'O', 'N'], [0.72, 0.22, 0.06]) if kind != 'gasCHO' else (['C', 'O'], [0.78, 0.22])
    if kind == 'surface':
        elements, weights = ['C', 'O'], [0.75, 0.25]
    for _ in range(50):
        b = Builder(rng, elements, weights)
        b.grow(rng.randint(1, max_heavy), p_multi=rng.choice([0.0, 0.2, 0.4]))
        r = rng.random()
        if r < 0.35:
            b.close_rings(rng.randint(1, 2))
        if rng.random() < 0.15:
            b.add_benzene()
            if rng.random() < 0.3:
                b.add_benzene()
        if kind == 'surface':
            b.add_metal(rng.randint(0 if rng.random() < 0.2 else 1, 4))
            if rng.random() < 0.25:
                b.add_weak_metal()
        elif rng.random() < 0.15:
            b.add_radicals(rng.randint(1, 2))
        if oov:
            cands = [i for i, f in enumerate(b.free) if f > 0]
            if cands:
                j = b.add_atom(rng.choice(['Si', 'F', 'Cl', 'S']))
                b.bond(rng.choice(cands), j, 1)
        smi = b.finish()
        if smi:
            return smi
    return 'C'


FIXED_GAS = ['C', 'CC', 'CCC', 'C=C', 'C#C', 'CC(C)C', 'CC(C)(C)C', 'C1CC1', 'C1CCC1', 'C1CCCC1', 'C1CCCCC1', 'C1=CC=CC=C1',
             'CC1=CC=CC=C1', 'c1ccccc1', 'Cc1ccccc1', 'c1ccc2ccccc2c1', 'Cc1cccc2ccccc12', 'C=CC=C', 'C=C=C', 'CO', 'CCO', 'COC',
             'C=O', 'CC=O', 'CC(=O)C', 'CC(=O)O', 'CC(=O)OC', 'OC=O', 'O', 'OO', '[CH3]', 'C[CH2]', '[CH2]', '[OH]', 'C[O]', 'C/C=C/C',
             'C/C=C\\C', 'CC(C)=C(C)C', 'C1=CCCCC1', 'C1=CC=CCC1', 'OC1=CC=CC=C1', 'CCCCCC', 'C#CC', 'CC#CC', 'OCCO', 'OCC(O)CO',
             'C1CCC2CCCCC2C1', 'C1CC2CCC1C2', 'C1CCC2(CC1)CCCC2', 'CN', 'CNC', 'NC=O', '[H][H]',
             # branched alkanes / alkenes that trigger several same-named correction variants (gauche, cis, ortho)
             'CCC(C)(C)C', 'CC(C)C(C)C', 'CC(C)CC(C)C', 'CCC(C)C(C)CC', 'CC(C)(C)C(C)(C)C', 'CC=C(C)C', 'C/C=C\\C(C)(C)C',
             'CC(C)(C)/C=C\\C(C)(C)C', 'Cc1ccccc1C', 'Cc1cccc(C)c1C', 'CC1CC(C)(C)C1', 'C1=CC=CCC1', 'C1CC=CC=C1',
             'CC/C(C)=C\\C(C)(C)C', 'CC/C(C)=C/C(C)(C)C', 'CC(C)(C)/C=C(/C)CC', 'CC(C)(C)/C=C(\\C)CC', 'C/C=C/C', 'C/C=C\\C',
             'CC(C)(C)/C=C/C', 'CC(C)(C)/C=C\\C', 'C/C(=C/C(C)(C)C)C(C)(C)C',
             # tetrasubstituted double bonds with stereo marks, hydrogen-free molecules, an ether whose carbons have three C neighbours
             'CC/C(C)=C(/C)CC', 'CC/C(C)=C(\\C)CC', 'C/C(CC)=C(/C)C(C)(C)C', 'O=C=O', 'CC(C)(C)OC(C)(C)C', 'CC(C)OC(C)C', 'CC(C)(C)OC',
             # six-membered rings with a heteroatom, alone and next to an alternating C6 ring (ring-by-ring perception)
             'C1CCOCC1', 'C1CCOCC1c1ccccc1', 'c1ccccc1C1CCOCC1', 'c1ccncc1', 'C1=NC=CC=C1', 'C1N=CC=CC=1', 'Cc1ccccn1',
             'C1=CC=NC=C1', 'c1cc[nH]c1', 'c1ccoc1', 'c1ncccn1', 'C1=CC=CC=C1C1=CC=CN=C1',
             # single molecules in which two *different* same-named correction variants match at once
             'CCC(C)(C)CCC(C)C(C)C', 'C/C=C\\CCC=C(C)C', 'CC(C)C(C)CCC(C)(C)CC',
             # a C6 ring that RDKit's Kekule form and ring order present DOUBLE-bond first (the second branch of the Benson check)
             'CC1(C2=C(C3=CC=CC=C3)C=CC=C2)CC1',
             # alternating rings that are NOT six-membered (the size check of the Benson perception), alone and fused
             'C1=CC=CC=CC1', 'C1=CC=CC=CC=C1', 'c1ccc2cccc2cc1', 'C1=CC=CCC=C1', 'C1=CC=CC1', 'C1=CC=C1', 'C1=CC=CC=CC=CC=C1',
             # large molecules: more than 1000 (and more than 10 000) raw candidate matches of a generic centre pattern
             'C' * 45, 'C' * 50 + 'O']
# pool for mixtures (C04): components whose combination exercises same-named corrections, ring order and match caps
MIX_GAS = ['C', 'CC', 'CCC(C)(C)C', 'CC(C)C(C)C', 'C/C=C\\C', 'CC=C(C)C', 'c1ccccc1', 'C1CCOCC1', 'C1CCCCC1', 'Cc1ccccc1C',
           'C1=CC=CCC1', 'CC(=O)O', 'CO', 'C[CH2]', 'C' * 22, 'C' * 24, 'c1ccncc1', 'CC(C)CC(C)C', 'C1CC1', 'OCC(O)CO']
MIX_SURFACE = ['C[Pt]', 'C([Pt])[Pt]', 'CC[Pt]', 'C(C[Pt])[Pt]', 'O[Pt]', 'OC[Pt]', 'O~[Pt]', 'C([Pt])(CCCCCC)C[Pt]', 'C1CC1[Pt]',
               'C1C([Pt])C1[Pt]', 'OCC([Pt])O[Pt]', 'C' * 22, 'C' * 24, 'CC', 'OCC(O)C([Pt])O', 'C(=O)([Pt])[Pt]', '[H][Pt]',
               'OC(C[Pt])C([Pt])[Pt]', 'CC(C)C(C)C', 'C=C([Pt])[Pt]']
FIXED_SURFACE = ['C[Pt]', 'C([Pt])[Pt]', 'C([Pt])([Pt])[Pt]', 'C([Pt])([Pt])([Pt])[Pt]', 'CC[Pt]', 'C(C[Pt])[Pt]', 'CC([Pt])[Pt]',
                 'O[Pt]', 'O([Pt])[Pt]', 'OC[Pt]', 'CO[Pt]', 'O=C[Pt]', 'C(=O)([Pt])[Pt]', 'OCC([Pt])O[Pt]', 'C([Pt])(CCCCCC)C[Pt]',
                 'CCCCCCC([Pt])C[Pt]', 'OCC(O)C([Pt])O', '[Pt]OC(=O)C', 'C(O)(O)[Pt]', 'C=C([Pt])[Pt]', '[H][Pt]', 'C1CC1[Pt]',
                 'C1C([Pt])C1[Pt]', 'OC(C[Pt])C([Pt])[Pt]', 'CC(=O)[Pt]', 'OC([Pt])([Pt])[Pt]',
                 'O~[Pt]', 'OC~[Pt]', 'CC(O~[Pt])C[Pt]', 'O=C~[Pt]', 'CO~[Pt]', 'OCC(O~[Pt])[Pt]', 'C(~[Pt])O[Pt]',
                 # hetero-aromatic and aromatic adsorbates (aromatic flags vs bond types), hydrogen-free adsorbates
                 '[Pt]c1cocc1[Pt]', '[Pt]c1ccoc1', 'O=C([Pt])[Pt]', '[Pt]c1ccccc1', '[Pt]c1ccccc1[Pt]', 'O=C(O[Pt])c1ccco1', '[Pt]C1=COC=C1[Pt]']


def spellings(rng, smi, k):
    """k alternative spellings of the same molecule: random atom order (hence branching and ring-closure choices),
    explicit H, Kekulé vs aromatic.  Reproducible: the order comes from `rng`, RDKit writes atoms in the given order."""
    m = Chem.MolFromSmiles(smi)
    if m is None:
        return []
    out = set()
    for _ in range(k):
        order = list(range(m.GetNumAtoms()))
        rng.shuffle(order)
        mm = Chem.RenumberAtoms(m, order)
        kw = {'canonical': False}
        if rng.random() < 0.25:
            kw['allHsExplicit'] = True
        try:
            if rng.random() < 0.5:
                Chem.Kekulize(mm, clearAromaticFlags=True)
                kw['kekuleSmiles'] = True
            s = Chem.MolToSmiles(mm, **kw)
        except Exception:
            continue
        if Chem.MolFromSmiles(s) is not None:
            out.add(s)
    return sorted(out)


def renumbered(rng, smi):
    """the molecule with a random atom numbering, as a Mol object (and its SMILES written in that order)"""
    m = Chem.MolFromSmiles(smi)
    order = list(range(m.GetNumAtoms()))
    rng.shuffle(order)
    m2 = Chem.RenumberAtoms(m, order)
    return m2, Chem.MolToSmiles(m2, canonical=False)
