"""Entry point: `python -m harness.main Cnn [--tier quick|thorough] [--replay file]` / `--setup`."""
import sys, os, argparse, importlib, traceback, json, time, shutil
from . import common


def setup():
    """Build the whole framework from files on disk (MANIFEST.setup_cmd)."""
    from . import translate
    common.setup_imports()
    translate._load_generators()
    with common.Lock():
        res = translate.generate(sorted(translate.REGISTRY))
    from . import mkdriver
    mkdriver.main()
    for k, v in res.items():
        print('translated', k, 'changed' if v[1] else 'same')
    # remove generated modules no generator owns any more (e.g. a library that was removed)
    for f in os.listdir(translate.GEN_DIR):
        # only the per-library modules of harness/gen/libs.py are dynamic; other generators may write side files
        if f.endswith('.lean') and f[:-5] not in translate.REGISTRY and f.startswith(('Lib_', 'LibObl_', 'Uq_', 'UqObl_')):
            os.remove(os.path.join(translate.GEN_DIR, f))
            print('removed stale', f)
    with common.Lock():
        rc, out = common.run_cmd(['lake', 'build'], cwd=common.LEAN_DIR, timeout=7000)
    print(out[-3000:])
    return 0 if rc == 0 else 2


def main():
    ap = argparse.ArgumentParser()
    ap.add_argument('prop', nargs='?')
    ap.add_argument('--tier', default=os.environ.get('VERIF_TIER', 'quick'))
    ap.add_argument('--replay')
    ap.add_argument('--setup', action='store_true')
    a = ap.parse_args()
    if a.setup:
        sys.exit(setup())
    if not a.prop:
        ap.error('property id required')
    prop = a.prop.upper()
    tier = a.tier if a.tier in ('quick', 'thorough') else 'quick'
    seed = int(os.environ.get('VERIF_SEED', '0') or 0)
    common.setup_imports()
    ctx = common.Ctx(prop, tier, seed)
    try:
        mod = importlib.import_module('harness.%s' % prop.lower())
        if a.replay:
            rec = json.load(open(a.replay))
            ok = mod.replay(ctx, rec)
            print('replay: property %s on the recorded input' % ('HOLDS' if ok else 'FAILS'))
            sys.exit(0 if ok else 1)
        ctx.rule = getattr(mod, 'RULE', '')
        ctx.extra['assumptions'] = list(getattr(mod, 'ASSUMPTIONS', []))
        ctx.extra['trusted_base'] = list(getattr(mod, 'TRUSTED', []))
        gen = getattr(mod, 'GEN', [])
        ctx.translate(gen() if callable(gen) else gen)
        obl = mod.OBLIGATIONS
        try:
            obl = obl() if callable(obl) else obl
        except Exception as e:
            raise common.MachineryError('cannot enumerate obligations: %r' % (e,))
        ctx.build(mod.PROPS, obl)
        try:
            mod.run(ctx)
        except common.ImplFailure as f:
            ctx.violation(f.what, f.input, expected='accepted', observed='%s: %s' % (type(f.exc).__name__, str(f.exc)[:200]))
        if (ctx.broken or ctx.disagreements) and not ctx.violations:
            # a proof obligation or the tie broke: search harder for an input on which the property fails
            ctx.searching = True
            ctx.count('search_runs')
            if hasattr(mod, 'search'):
                mod.search(ctx)
            else:
                mod.run(ctx)
        rc = ctx.finish()
        print('%s %s tier=%s seed=%d: %s (%d obligations, %d discharged, %d evaluations, %d distinct non-trivial, %.1fs)' % (
            'check', prop, tier, seed, 'HELD' if rc == 0 else 'VIOLATED', len(ctx.obligations), len(ctx.discharged),
            ctx.evaluations, len(ctx.nontrivial), time.time() - ctx.t0))
        sys.exit(rc)
    except common.MachineryError as e:
        shutil.rmtree(ctx.scratch, ignore_errors=True)
        print('MACHINERY-ERROR property=%s %s' % (prop, e))
        sys.exit(2)
    except Exception:
        shutil.rmtree(ctx.scratch, ignore_errors=True)
        traceback.print_exc()
        print('MACHINERY-ERROR property=%s unexpected exception in the harness' % prop)
        sys.exit(2)


if __name__ == '__main__':
    main()
