"""C05 — correlations are thermodynamically consistent with their data.

Proof: lean/PGA/Props/C05.lean (model PGA/Model/Thermo.lean of pgradd/ThermoChem/raw_data.py, incomplete.py, base.py).
Tie: correspondence of ThermochemRawData / ThermochemIncomplete / ThermochemGroup .get_CpoR/.get_HoRT/.get_SoR/.get_GoRT
and .get_range against the model driver, with the values of the live SciPy spline / quad / log handed to the model as
exact rationals (oracle); exact-rational mode for H/RT (Fractions through the repository's own arithmetic).
Property oracle: the statements of the property evaluated directly on the implementation against independent
integration of the spline's piecewise-polynomial form.
"""
import math, itertools, json
from fractions import Fraction
from . import common
from . import lib_thermo as L
from . import lib_history_corr as H

PROPS = ['PGA.Props.C05', 'PGA.Props.CorrHistory']
GEN = []
OBLIGATIONS = ['PGA.Thermo.' + t for t in [
    'C05_ref_enthalpy', 'C05_ref_entropy', 'C05_enthalpy_integral', 'C05_entropy_integral',
    'C05_cp_at_data_points', 'C05_cp_extended', 'C05_gibbs', 'C05_order_independent',
    'C05_incomplete_delegates', 'C05_incomplete_consistent', 'C05_intCp_is_extension', 'C05_intCpT_is_extension',
    'F5_breaks_reference_value', 'F6_breaks_order_independence', 'exIp_good', 'exIp_hits']] + [
    'PGA.CorrHistory.' + t for t in [
    'HIST_constructed_fresh', 'HIST_step_preserves', 'HIST_invariant', 'HIST_invariant_every_step', 'HIST_freshS_fresh', 'HIST_failed_update_unchanged',
    'HIST_delCp_absent', 'HIST_failed_delCp_unchanged', 'HIST_setRange_reversed', 'HIST_never_raise', 'HIST_failed_op_state',
    'HIST_eval_pure', 'HIST_eval_interleaving', 'HIST_history_independent', 'HIST_history_vs_constructor',
    'HIST_estimate_independent', 'HIST_update_refines_C13', 'HIST_translation_is_C05_partial', 'HIST_reference_is_C05',
    'HIST_translation_full_fails', 'HIST_delCp_old_breaks', 'HIST_setRange_old_breaks']]
RULE = ('cases = (correlation, evaluation temperature, property) triples. Correlations: tables of 1..16 points (equal/unequal '
        'spacing, shuffled supply order, random or constant Cp/R) x range present / absent / degenerate x the reference '
        'temperature in each of six placements (below the table, at its first point, between knots, at an interior knot, at '
        'its last point, above) x class (ThermochemRawData, ThermochemIncomplete, ThermochemGroup); evaluation temperatures in '
        'the same six placements plus the range ends; every group of every shipped library. Distinct = distinct (class, table '
        'size, range kind, T_ref placement, T placement, property); non-trivial = the table has >= 2 points or T_ref/T lie '
        'outside the tabulated span. Histories (Props/CorrHistory): 10 scripted + 300 (quick) / 2 500 (thorough) random sequences of 1..12 '
        '(1..24) calls of update / del_ND_Cp(T) / del_ND_Cp() / del_ND_*_ref / set_range / copy / getters on ThermochemIncomplete and '
        'ThermochemGroup, each call drawn against the data the object holds at that point (temperatures from a pool of 13, so that '
        'operands meet equal and conflicting points; about a quarter of the mutating calls are refused: ReadOnlyDataError, ValueError, '
        'KeyError, AssertionError); distinct = distinct (length, set of call kinds, set of outcome classes).')
ASSUMPTIONS = ['A-spline: InterpolatedUnivariateSpline interpolates the table; spline.integral is additive/antisymmetric (1e-10); '
               'quad(spline/t) is additive and agrees with exact integration of the PPoly form (1e-5 of the scale; measured worst 1.4e-6) — re-validated on every run',
               'A-float: doubles are read as exact rationals; + - * / modelled exactly (DESIGN 2.3); tolerance 1e-9 x sum|terms|',
               'temperatures are positive inside the validity range (0 < range lower end), as for every shipped group',
               'histories: reference temperatures are positive (the C13 model of update, reused by the state machine, is exact only for '
               'T_ref != 0: HIST_translation_full_fails); float noise in a translated reference value (1e-9 of the scale) never decides an '
               'isclose(rel_tol=1e-15) comparison (generated reference values are equal or differ by >= 0.01)']
TRUSTED = ['modelled, not verified: ThermochemRawData.__init__/get_CpoR/get_SoR/get_HoRT, ThermochemIncomplete.__init__/'
           '_setup_correlation/get_*, ThermochemBase.check_range/get_GoRT',
           'SciPy spline, QUADPACK and np.log enter the model as parameters constrained by Interp.Good / Interp.Hits (A-spline)',
           'modelled, not verified (histories): ThermochemIncomplete.update / del_ND_Cp / del_ND_H_ref / del_ND_S_ref / set_range / copy, '
           'ThermochemBase.set_range; the interpolant is a function of the sorted table (the oracle values come from a spline the '
           'harness builds from the table, not from the object under test)']

KINDS = ('raw', 'inc', 'grp')


def ensure_f12(ctx):
    """F12 is owned by the units/loading checks; make its id usable here without touching known_findings.json"""
    e = ctx.known.get('F12')
    if e is None:
        ctx.known['F12'] = {'id': 'F12', 'status': 'known', 'properties': ['C05', 'C06', 'C12', 'C14', 'C18'],
                            'what': 'a reference value written as 0 under a units block loads as a Quantity; the group cannot be evaluated (UnitsError)'}
    elif e.get('status') == 'known' and ctx.prop not in e.get('properties', []):
        e = dict(e)
        e['properties'] = list(e.get('properties', [])) + [ctx.prop]
        ctx.known['F12'] = e


class Acc:
    """worst observed error of each assumption check"""

    def __init__(self):
        self.worst = {}
        self.n = 0

    def see(self, name, err, tol):
        self.n += 1
        w = self.worst.get(name, (0.0, tol))
        if err / tol > w[0] / w[1]:
            self.worst[name] = (err, tol)
        elif name not in self.worst:
            self.worst[name] = w

    def report(self, ctx):
        for name, (err, tol) in sorted(self.worst.items()):
            ctx.assumption('A-spline:' + name, err <= tol, 'worst error %.3g (tolerance %.3g), %d checks' % (err, tol, self.n))


def assumption_checks(ctx, acc, spec, rd):
    """A-spline on the live objects of one correlation"""
    import numpy as np
    pts = sorted(spec['pts'], key=lambda p: p[0])
    sp = rd.spline
    cmax = max(abs(p[1]) for p in pts) + 1e-300
    if len(pts) < 2:
        return          # one point: the repository's own ConstantSpline, not an external component
    for t, c in pts:
        err = abs(float(sp(t)) - c) / cmax
        if err > 1e-6:
            # far beyond anything SciPy's interpolation could be blamed for: the object holds an interpolant of OTHER data
            # (e.g. a stale one kept across an update) — a failure of the code on this input, not of the assumption
            ctx.violation("the correlation's interpolant does not reproduce the tabulated Cp/R it was built from",
                          {'spec': spec, 'T': t}, expected=c, observed=float(sp(t)))
            return
        acc.see('interpolates', err, 1e-10)
    mn, mx = pts[0][0], pts[-1][0]
    rng = ctx.rng
    pp = L.ppoly_of(rd)
    for _ in range(3):
        a, b, c = (rng.uniform(mn, mx) for _ in range(3))
        sc = cmax * (mx - mn)
        acc.see('integral_additive', abs(sp.integral(a, b) + sp.integral(b, c) - sp.integral(a, c)) / sc, 1e-10)
        acc.see('integral_antisymmetric', abs(sp.integral(a, b) + sp.integral(b, a)) / sc, 1e-10)
        acc.see('integral_vs_ppoly', abs(sp.integral(a, b) - L.exact_int(pp, a, b, False)) / sc, 1e-10)
        sj = cmax * (abs(math.log(mx / mn)) + 1e-3) + 0.1      # + absolute part: QUADPACK's epsabs is 1.49e-8 per call
        jab, jbc, jac = L.quad_J(sp, a, b), L.quad_J(sp, b, c), L.quad_J(sp, a, c)
        acc.see('quad_additive', abs(jab + jbc - jac) / sj, 1e-5)
        acc.see('quad_vs_ppoly', abs(jab - L.exact_int(pp, a, b, True)) / sj, 1e-5)


def expected_mk(spec):
    """constructor outcome from the documentation: the range must contain the table and T_ref; >= 1 point; distinct T"""
    pts = spec['pts']
    if spec['kind'] != 'raw' and spec['range'] is not None and spec['range'][1] < spec['range'][0]:
        return 'assertion'
    if not pts:
        return 'value' if spec['kind'] == 'raw' else 'ok'
    mn, mx = L.table_ends(spec)
    lo, hi = L.eff_range(spec)
    if mn < lo or mx > hi or not (lo <= spec['tref'] <= hi):
        return 'value'
    if len(set(p[0] for p in pts)) < len(pts):
        return 'value'
    return 'ok'


def check_correlation(ctx, spec, temps, batch, key, acc=None, library=None, do_perm=True):
    """one correlation at several temperatures: property oracle on the implementation + model requests"""
    obj, mk = L.build_impl(spec)
    inp0 = {'spec': spec}
    if library:
        inp0['library'] = library
    exp = expected_mk(spec)
    ctx.count('mk_' + mk)
    if mk != exp:
        ctx.violation('constructor outcome differs from the documented precondition (range must contain the table and T_ref)',
                      inp0, expected=exp, observed=mk)
    if obj is None:
        ctx.case(None)
        batch.append(({'op': 'c05.eval', 'cor': L.jspec(spec, {}), 'T': L.J(spec['tref']), 'want': []}, {'mk': mk}, inp0, None))
        return None
    if (spec.get('via_update') or spec.get('via_yaml')) and spec['pts']:
        prob = L.held_data_problem(obj, spec)
        ctx.count('held_data_checks')
        if prob:
            ctx.violation('after a history of API calls (or built by the YAML constructor) the correlation does not hold the data it was given',
                          inp0, expected='the data of the specification', observed=prob)
    rd = L.inner(obj)
    has_cp = bool(spec['pts'])
    if acc is not None and rd is not None and ctx.rng.random() < 0.25:
        assumption_checks(ctx, acc, spec, rd)
    lo, hi = L.eff_range(spec) if has_cp else (None, None)
    results = {}
    for T, tcls in temps:
        outs = {}
        for w in L.WHICH:
            outs[w] = L.eval_impl(obj, w, T, ctx.count)
            nontriv = has_cp and (len(spec['pts']) >= 2 or not (spec['pts'][0][0] == T == spec['tref']))
            ctx.case((key + (tcls, w)) if nontriv else None,
                     {'spec': spec, 'T': T, 'property': w, 'outcome': outs[w]} if len(ctx.samples) < 12 and w == 'h' else None)
            ctx.count('impl_' + w + '_' + ('ok' if 'ok' in outs[w] else outs[w]['err']))
        results[T] = outs
        orc = L.oracle_for(spec, obj, T, L.WHICH)
        impl = {'mk': 'ok', 'range': L.impl_range(obj), 'outs': outs}
        batch.append(({'op': 'c05.eval', 'cor': L.jspec(spec, orc), 'T': L.J(T), 'want': list(L.WHICH)}, impl,
                      dict(inp0, T=T), spec))
    if has_cp and rd is not None:
        property_oracle(ctx, spec, obj, rd, results, inp0, do_perm)
        array_oracle(ctx, obj, results, inp0)
    return obj


def array_oracle(ctx, obj, results, inp0):
    """the value at a temperature does not depend on how the temperature is passed: a NumPy array (float or integer
    dtype) or a list of temperatures gives, element by element, what the scalar calls give"""
    import numpy as np
    Ts = [T for T, o in results.items() if 'ok' in o.get('cp', {})]
    if not Ts:
        return
    forms = [('float-array', np.array(Ts, dtype=float))]
    ints = [T for T in Ts if float(T).is_integer()]
    if ints:
        forms.append(('int-array', np.array([int(T) for T in ints])))
        forms.append(('int-list', [int(T) for T in ints]))
    for name, arr in forms:
        ref = [results[float(T)]['cp']['ok'] for T in (Ts if name == 'float-array' else ints)]
        ctx.count('array_' + name)
        try:
            got = obj.get_CpoR(arr)
            got = [float(x) for x in np.asarray(got).ravel()]
        except Exception as e:
            ctx.count('array_' + name + '_raises_' + type(e).__name__)
            continue    # an array argument being refused is not a wrong value
        if len(got) != len(ref) or any(abs(g - r) > 1e-9 * (1 + abs(r)) for g, r in zip(got, ref)):
            ctx.violation('Cp/R at tabulated/extended temperatures depends on how the temperatures are passed (array vs scalar)',
                          dict(inp0, temperatures=[float(x) for x in np.asarray(arr).ravel()], form=name),
                          expected=ref, observed=got)


def property_oracle(ctx, spec, obj, rd, results, inp0, do_perm):
    """C05 read off the property text, on the implementation alone"""
    lo, hi = L.eff_range(spec)
    inr = [T for T in results if lo <= T <= hi and T > 0]
    si = L.SpecIntegrals(spec, rd)
    href, sref, tref = spec['href'], spec['sref'], spec['tref']
    cmax = max(abs(p[1]) for p in spec['pts'])

    def bad(what, T, expected, observed):
        ctx.violation(what, dict(inp0, T=T), expected=expected, observed=observed)

    # every in-range value is a finite number (for the properties the correlation has data for)
    for T in inr:
        for w in L.WHICH:
            need = {'cp': True, 'h': href is not None, 's': sref is not None, 'g': href is not None and sref is not None}[w]
            o = results[T][w]
            if o.get('skip'):
                continue
            if need and 'ok' not in o:
                bad('in-range evaluation of %s does not return a finite number' % L.GETTER[w], T, 'finite value', o)
            if not need and o.get('err') != 'incomplete':
                bad('%s without the reference value does not raise IncompleteDataError' % L.GETTER[w], T, 'incomplete', o)
    # outside the range nothing is returned
    for T in results:
        if not (lo <= T <= hi):
            for w in L.WHICH:
                if 'ok' in results[T][w]:
                    bad('%s returns a value outside the valid range' % L.GETTER[w], T, 'error', results[T][w])
    # T1 reference values (the reference temperature is always evaluated: it is in `results`)
    if tref in results and tref > 0:
        o = results[tref]
        if href is not None and not o['h'].get('skip') and not ('ok' in o['h'] and common.close(o['h']['ok'], href, L.scale_of(spec, 'h', tref))):
            bad('H/RT at the reference temperature is not the reference value', tref, href, o['h'])
        if sref is not None and not o['s'].get('skip') and not ('ok' in o['s'] and common.close(o['s']['ok'], sref, L.scale_of(spec, 's', tref))):
            bad('S/R at the reference temperature is not the reference value', tref, sref, o['s'])
    # T2 / T3 integral identities on all pairs of in-range temperatures
    for T1, T2 in itertools.combinations(sorted(inr), 2):
        a, b = results[T1], results[T2]
        if href is not None and 'ok' in a['h'] and 'ok' in b['h']:
            lhs = T2 * b['h']['ok'] - T1 * a['h']['ok']
            rhs = si.int_cp(T1, T2)
            sc = abs(href * tref) + 4 * cmax * max(abs(hi), abs(T2)) + abs(rhs)
            if abs(lhs - rhs) > 1e-9 * sc + 1e-300:
                bad('change of T*(H/RT) between two temperatures is not the integral of Cp/R', [T1, T2], rhs, lhs)
        if sref is not None and 'ok' in a['s'] and 'ok' in b['s']:
            lhs = b['s']['ok'] - a['s']['ok']
            rhs = si.int_cp_over_t(T1, T2)
            sc = abs(sref) + cmax * (abs(math.log(hi / lo)) + 1e-3) + abs(rhs)
            if abs(lhs - rhs) > 1e-5 * (sc + 0.1):       # measured QUADPACK error on C2 splines: up to ~1.4e-6 of the scale
                bad('change of S/R between two temperatures is not the integral of Cp/(R T)', [T1, T2], rhs, lhs)
    # T4 tabulated Cp reproduced; constant continuation outside the span
    for t, c in spec['pts']:
        o = L.eval_impl(obj, 'cp', t)
        if o.get('err') in F12_ERRORS and any(r[w].get('skip') for r in results.values() for w in r):
            continue
        if not ('ok' in o and abs(o['ok'] - c) <= 1e-9 * (cmax + 1e-300)):
            bad('tabulated Cp/R is not reproduced at its temperature', t, c, o)
    for T in inr:
        o = results[T]['cp']
        if o.get('skip'):
            continue
        if T < si.mn and o.get('ok') != si.cmn:
            bad('Cp/R below the table is not the first tabulated value', T, si.cmn, o)
        if T > si.mx and o.get('ok') != si.cmx:
            bad('Cp/R above the table is not the last tabulated value', T, si.cmx, o)
    # T5 G = H - S
    for T in inr:
        o = results[T]
        if 'ok' in o['h'] and 'ok' in o['s'] and not o['g'].get('skip'):
            if not ('ok' in o['g'] and abs(o['g']['ok'] - (o['h']['ok'] - o['s']['ok'])) <= 1e-12 * (abs(o['h']['ok']) + abs(o['s']['ok']) + 1e-300)):
                bad('G/RT is not H/RT - S/R', T, o['h']['ok'] - o['s']['ok'], o['g'])
    # T6 independence of the supply order
    if do_perm and len(spec['pts']) >= 2:
        spec2 = dict(spec, pts=L.shuffled(ctx.rng, spec['pts']))
        obj2, mk2 = L.build_impl(spec2)
        if obj2 is None:
            bad('the same data points in another order are rejected', None, 'ok', mk2)
        else:
            for T in results:
                for w in L.WHICH:
                    o2 = L.eval_impl(obj2, w, T)
                    if o2 != results[T][w]:
                        ctx.violation('result depends on the order in which the data points were supplied',
                                      dict(inp0, T=T, other_order=spec2['pts'], property=w), expected=results[T][w], observed=o2)


def compare_batch(ctx, batch, tag='corr:c05.eval'):
    replies = ctx.model([b[0] for b in batch])
    if replies is None:
        return
    for (req, impl, inp, spec), rep in zip(batch, replies):
        ctx.count('corr_requests')
        if rep.get('mk') != impl['mk']:
            ctx.disagree(tag + ':constructor', inp, impl['mk'], rep.get('mk'))
            continue
        ctx.count('model_mk_' + str(rep.get('mk')))
        if impl['mk'] != 'ok' or 'outs' not in impl:
            continue
        if L.model_range(rep) != impl['range']:
            ctx.disagree(tag + ':range', inp, impl['range'], L.model_range(rep))
        T = inp['T']
        for w, o in impl['outs'].items():
            m = rep[w]
            if o.get('skip'):
                continue
            ctx.count('model_' + w + '_' + ('ok' if 'ok' in m else m['err']))
            if not L.same_outcome(o, m, L.scale_of(spec, w, T)):
                mm = dict(m)
                if 'ok' in mm:
                    mm['ok'] = float(common.unjrat(mm['ok']))
                ctx.disagree(tag + ':' + w, dict(inp, property=w), o, mm)


# ----------------------------------------------------------------------------- synthetic grid
def range_for(rng, kind, pts_sorted):
    mn, mx = pts_sorted[0][0], pts_sorted[-1][0]
    if kind == 'absent':
        return None
    if kind == 'degenerate':
        return [mn, mx]
    if kind == 'half':
        return [mn, mx + float(rng.choice([50, 200]))] if rng.random() < 0.5 else [mn - float(rng.choice([25, 50])), mx]
    return [mn - float(rng.choice([10, 25, 50, 90])), mx + float(rng.choice([10, 100, 500]))]


def grid(ctx, batch, acc, reps):
    rng = ctx.rng
    for n in range(1, 17):
        for rep in range(reps):
            pts = L.gen_table(rng, n)
            for rkind in ('present', 'absent', 'degenerate', 'half'):
                if rkind != 'present' and rep % 2 == 1:
                    continue
                r = range_for(rng, rkind, pts)
                lo, hi = r if r is not None else (pts[0][0], pts[-1][0])
                for pcls in L.PLACEMENTS:
                    tref, pact = L.place(rng, pcls, pts, lo, hi)
                    kind = KINDS[(n + rep + L.PLACEMENTS.index(pcls)) % 3]
                    miss = rng.random()
                    spec = {'kind': kind,
                            'href': None if (kind != 'raw' and miss < 0.08) else round(rng.uniform(-60, 60), 3) * rng.choice([1, 1, 1, 0]),
                            'sref': None if (kind != 'raw' and 0.06 < miss < 0.14) else round(rng.uniform(-10, 40), 3) * rng.choice([1, 1, 1, 0]),
                            'pts': L.shuffled(rng, pts), 'tref': tref, 'range': r}
                    temps = {}
                    for tc in L.PLACEMENTS:
                        T, tact = L.place(rng, tc, pts, lo, hi)
                        temps.setdefault(T, tact)
                    temps.setdefault(lo, 'range_lo')
                    temps.setdefault(hi, 'range_hi')
                    temps[tref] = 'tref'
                    # outside the range: the error class (range error / its conversion by the incomplete-data wrapper)
                    temps.setdefault(L.nexta(lo, False) if rep % 2 else lo - 7.5, 'outside_below')
                    temps.setdefault(L.nexta(hi, True) if rep % 2 else hi + 40.0, 'outside_above')
                    ctx.count('grid_objects')
                    ctx.count('size_%02d' % n)
                    ctx.count('tref_' + pact)
                    for t, c in temps.items():
                        ctx.count('T_' + c)
                    if kind != 'raw' and rng.random() < 0.3:
                        spec['via_update'] = rng.choice(L.WAYS)
                        ctx.count('built_via_update')
                        ctx.count('way_%s' % spec['via_update'])
                    elif rng.random() < 0.2:
                        # the same data handed to the class through its YAML constructor (non-dimensional keys)
                        spec['via_yaml'] = 'nd'
                        ctx.count('built_via_yaml')
                        ctx.count('built_via_yaml_zero_ref' if (spec['href'] == 0 or spec['sref'] == 0) else 'built_via_yaml_nonzero')
                    check_correlation(ctx, spec, sorted(temps.items()), batch, (kind, n, rkind, pact), acc)
        if ctx.time_left() < 120:
            raise common.MachineryError('time budget exhausted in the C05 grid')


def constructor_cases(ctx, batch, n):
    """constructor error outcomes: empty table, table or T_ref outside the range, repeated temperature, inverted range"""
    rng = ctx.rng
    for i in range(n):
        pts = L.gen_table(rng, rng.randint(1, 6))
        mn, mx = pts[0][0], pts[-1][0]
        mode = i % 6
        kind = KINDS[i % 3]
        spec = {'kind': kind, 'href': 1.5, 'sref': 2.5, 'pts': L.shuffled(rng, pts), 'tref': mn, 'range': [mn - 10, mx + 10]}
        if mode == 0:
            spec['pts'] = []
        elif mode == 1:
            spec['range'] = [mn + 1.0, mx + 10] if rng.random() < 0.5 else [mn - 10, mx - 1.0]
            spec['tref'] = mn + 1.0 if len(pts) == 1 else spec['tref']
        elif mode == 2:
            spec['tref'] = rng.choice([mn - 11.0, mx + 11.0, mn - 10.5])
        elif mode == 3:
            if kind == 'raw' and len(pts) >= 1:
                spec['pts'] = spec['pts'] + [[spec['pts'][0][0], 9.0]]
        elif mode == 4:
            spec['range'] = [mx + 10, mn - 10]
        else:
            spec['range'] = None
            spec['tref'] = rng.choice([mn - 1.0, mx + 1.0])
        ctx.count('constructor_mode_%d' % mode)
        check_correlation(ctx, spec, [(spec['tref'], 'tref')], batch, ('ctor', mode), None, do_perm=False)


# ----------------------------------------------------------------------------- next to the special temperatures
# offsets in K, each tried with both signs: from one ulp to a third of a kelvin.  numpy.isclose's default window around
# 298.15 K is 3 mK, math.isclose's 0.3 uK, a rounding to 2 / 1 / 0 decimals 5 mK / 50 mK / 0.5 K
NEAR_OFFSETS = [None, 1e-10, 1e-8, 1e-7, 1e-6, 1e-5, 1e-4, 1e-3, 2.5e-3, 0.004, 0.01, 0.04, 0.3]


def near_special(ctx, batch, acc, reps):
    """Every special temperature of a correlation (T_ref, first / last / an interior tabulated temperature, the range ends) against
    temperatures a hair away from it.  A comparison made with a tolerance, a rounded key, a memo keyed by a formatted temperature
    -- anything that answers for t* when asked for t* + d -- leaves a flat step in H/RT, S/R or Cp/R; the step is tiny, so the
    oracle here is local: between t* and t* + d both values come out of the same few operations, and the change of T*(H/RT)
    [S/R next to T_ref] must be the integral of Cp/R [Cp/(R T)] over that sliver to rounding error, not to quadrature error."""
    rng = ctx.rng
    for n in (1, 2, 3, 4, 6, 9, 16):
        for rep in range(reps):
            pts = L.gen_table(rng, n)
            for pi, pcls in enumerate(L.PLACEMENTS):
                r = range_for(rng, 'degenerate' if (rep + pi) % 4 == 3 else 'present', pts)
                lo, hi = r
                tref, pact = L.place(rng, pcls, pts, lo, hi)
                kind = KINDS[(n + rep + pi) % 3]
                spec = {'kind': kind, 'href': round(rng.uniform(-60, 60), 3), 'sref': round(rng.uniform(-10, 40), 3),
                        'pts': L.shuffled(rng, pts), 'tref': tref, 'range': r}
                specials = {tref: 'tref', pts[0][0]: 'at_min', pts[-1][0]: 'at_max', lo: 'range_lo', hi: 'range_hi'}
                if n >= 3:
                    specials.setdefault(rng.choice(pts[1:-1])[0], 'at_knot')
                pairs = []
                for t0, cls in specials.items():
                    for d in rng.sample(NEAR_OFFSETS, 4):
                        for up in (True, False):
                            T = L.nexta(t0, up) if d is None else (t0 + d if up else t0 - d)
                            if lo <= T <= hi and T != t0:
                                pairs.append((t0, T, cls, 'ulp' if d is None else '%g' % d))
                ctx.count('near_objects')
                check_near(ctx, spec, pairs, batch, (kind, n, pact))


def check_near(ctx, spec, pairs, batch, key):
    obj, mk = L.build_impl(spec)
    inp0 = {'spec': spec, 'near': True}
    if obj is None:
        ctx.violation('constructor outcome differs from the documented precondition (range must contain the table and T_ref)',
                      inp0, expected='ok', observed=mk)
        return
    rd = L.inner(obj)
    si = L.SpecIntegrals(spec, rd)
    href, sref, tref = spec['href'], spec['sref'], spec['tref']
    lo, hi = L.eff_range(spec)
    cmax = max(abs(p[1]) for p in spec['pts'])
    tmax = max(abs(hi), abs(tref))
    h_scale = abs(href * tref) + 4 * cmax * tmax
    s_scale = abs(sref) + cmax * (abs(math.log(hi / lo)) + 1.0)
    vals = {}

    def at(T):
        if T not in vals:
            vals[T] = {w: L.eval_impl(obj, w, T, ctx.count) for w in L.WHICH}
            orc = L.oracle_for(spec, obj, T, L.WHICH)
            batch.append(({'op': 'c05.eval', 'cor': L.jspec(spec, orc), 'T': L.J(T), 'want': list(L.WHICH)},
                          {'mk': 'ok', 'range': L.impl_range(obj), 'outs': vals[T]}, dict(inp0, T=T), spec))
        return vals[T]
    for t0, T, cls, dname in pairs:
        a, b = at(t0), at(T)
        ctx.case(key + ('near', cls, dname))
        ctx.count('near_' + cls)
        inp = dict(inp0, T=[t0, T], special=cls)
        if not all('ok' in o[w] for o in (a, b) for w in L.WHICH):
            ctx.violation('in-range evaluation next to a special temperature does not return finite numbers', inp, 'finite values',
                          {'at': a, 'next to it': b})
            continue
        # H: exact spline integration on both sides -> rounding error only
        lhs = T * b['h']['ok'] - t0 * a['h']['ok']
        rhs = si.int_cp(t0, T)
        tol = 1e-12 * h_scale + 1e-9 * abs(rhs)        # measured worst error (thorough tier): 3e-4 of this
        NEAR_WORST['h'] = max(NEAR_WORST['h'], abs(lhs - rhs) / (tol + 1e-300))
        if abs(lhs - rhs) > tol:
            ctx.violation('next to a special temperature the change of T*(H/RT) is not the integral of Cp/R over the sliver between the two temperatures',
                          inp, expected=rhs, observed=lhs)
        # S: sharp next to T_ref (both quadratures run over a sliver), quadrature-limited elsewhere
        lhs = b['s']['ok'] - a['s']['ok']
        rhs = si.int_cp_over_t(t0, T)
        if cls == 'tref' or t0 == tref:
            tol = 1e-12 * s_scale + 1e-7 * abs(rhs)    # measured worst: 2e-4 of this
            NEAR_WORST['s_tref'] = max(NEAR_WORST['s_tref'], abs(lhs - rhs) / (tol + 1e-300))
        else:
            # two quadratures over long, almost equal intervals: their errors do not cancel exactly (measured worst
            # 3.3e-8 of the scale over 50 000 pairs in the thorough tier); 30 times that
            tol = 1e-6 * (s_scale + 0.1)
            NEAR_WORST['s'] = max(NEAR_WORST['s'], abs(lhs - rhs) / tol)
        if abs(lhs - rhs) > tol:
            ctx.violation('next to a special temperature the change of S/R is not the integral of Cp/(R T) over the sliver between the two temperatures',
                          inp, expected=rhs, observed=lhs)
        # Cp: the interpolant's own piecewise polynomial inside the table, the end values outside
        want = si.cmn if T < si.mn else si.cmx if T > si.mx else (float(si.pp(T)) if si.pp is not None else si.c1)
        NEAR_WORST['cp'] = max(NEAR_WORST['cp'], abs(b['cp']['ok'] - want) / (1e-9 * (cmax + 1e-300)))
        if abs(b['cp']['ok'] - want) > 1e-9 * (cmax + 1e-300):
            ctx.violation('next to a special temperature Cp/R is not the value of the interpolant (held at the end values outside the table)',
                          dict(inp, evaluated_at=T), expected=want, observed=b['cp']['ok'])
        if abs(b['g']['ok'] - (b['h']['ok'] - b['s']['ok'])) > 1e-12 * (abs(b['h']['ok']) + abs(b['s']['ok']) + 1e-300):
            ctx.violation('G/RT is not H/RT - S/R', dict(inp, evaluated_at=T), b['h']['ok'] - b['s']['ok'], b['g']['ok'])


NEAR_WORST = {'h': 0.0, 's_tref': 0.0, 's': 0.0, 'cp': 0.0}


# ----------------------------------------------------------------------------- exact-rational mode for H/RT
class ExactLinear:
    """exact piecewise-linear interpolant over Fractions with the interface get_HoRT uses"""

    def __init__(self, pts):
        self.pts = sorted(pts)

    def _anti(self, t):
        tot = Fraction(0)
        for (x0, y0), (x1, y1) in zip(self.pts, self.pts[1:]):
            if t <= x0:
                break
            u = min(t, x1)
            yu = y0 + (y1 - y0) * (u - x0) / (x1 - x0)
            tot += (y0 + yu) * (u - x0) / 2
        return tot

    def integral(self, a, b):
        return self._anti(b) - self._anti(a)

    def __call__(self, t):
        for (x0, y0), (x1, y1) in zip(self.pts, self.pts[1:]):
            if x0 <= t <= x1:
                return y0 + (y1 - y0) * (t - x0) / (x1 - x0)
        raise ValueError(t)


def exact_mode(ctx, n_cases):
    """the repository's own get_HoRT on Fractions with an exact interpolant injected; compared by equality"""
    from pgradd.ThermoChem import ThermochemRawData
    rng = ctx.rng
    batch = []
    F = Fraction
    for i in range(n_cases):
        n = rng.randint(1, 7)
        ts = sorted(rng.sample(range(100, 1000, 10), n))
        pts = [(F(t), F(rng.randint(-40, 90), rng.choice([1, 2, 3, 7]))) for t in ts]
        lo, hi = F(ts[0] - rng.choice([0, 10, 37])), F(ts[-1] + rng.choice([0, 10, 111]))
        fpts = [[float(p[0]), float(p[1])] for p in pts]
        for pcls in L.PLACEMENTS:
            tref, _ = L.place(rng, pcls, fpts, float(lo), float(hi))
            tref = F(tref)
            href = F(rng.randint(-300, 300), rng.choice([1, 3, 10]))
            sup = L.shuffled(rng, pts)
            try:
                obj = ThermochemRawData(href, F(0), [p[0] for p in sup], [p[1] for p in sup], T_ref=tref, range=(lo, hi))
            except Exception as e:
                raise common.MachineryError('exact mode: constructor failed on Fractions: %r' % (e,))
            exact = ExactLinear(pts) if n > 1 else None
            if exact is not None:
                obj.spline = exact
            mn, mx = pts[0][0], pts[-1][0]
            for tcls in L.PLACEMENTS + ('lo', 'hi'):
                T = lo if tcls == 'lo' else hi if tcls == 'hi' else F(L.place(rng, tcls, fpts, float(lo), float(hi))[0])
                if rng.random() < 0.3 and lo < T < hi:
                    T = T + F(rng.randint(-3, 3), 7) if lo < T + F(-3, 7) and T + F(3, 7) < hi else T
                try:
                    v = obj.get_HoRT(T)
                except Exception as e:
                    v = 'err:' + L.exc_name(e)
                ctx.case(('exact', n, pcls, tcls) if n > 1 else None)
                ctx.count('exact_mode')
                if not isinstance(v, (Fraction, int)):
                    raise common.MachineryError('exact mode: get_HoRT left the rationals: %r' % (v,))
                clamp = lambda t: max(mn, min(t, mx))
                P = sorted(set([clamp(tref), clamp(T), mn, mx]))
                orc = {'I': [[common.jrat(a), common.jrat(b), common.jrat(exact.integral(a, b) if exact else pts[0][1] * (b - a))]
                             for a in P for b in P]}
                spec = {'kind': 'raw', 'href': common.jrat(href), 'sref': common.jrat(0),
                        'pts': [[common.jrat(p[0]), common.jrat(p[1])] for p in sup], 'tref': common.jrat(tref),
                        'range': [common.jrat(lo), common.jrat(hi)], 'oracle': orc}
                inp = {'exact': True, 'pts': [[str(p[0]), str(p[1])] for p in sup], 'href': str(href), 'tref': str(tref),
                       'range': [str(lo), str(hi)], 'T': str(T)}
                batch.append(({'op': 'c05.eval', 'cor': spec, 'T': common.jrat(T), 'want': ['h']}, Fraction(v), inp))
                # property oracle, exactly: T*H(T) = Tref*Href + ∫ CpExt with the same exact interpolant
                cmn, cmx = pts[0][1], pts[-1][1]

                def anti(t):
                    if t <= mn:
                        return cmn * (t - mn)
                    mid = (exact.integral(mn, min(t, mx)) if exact else cmn * (min(t, mx) - mn))
                    return mid + (cmx * (t - mx) if t >= mx else 0)
                if T * Fraction(v) != tref * href + anti(T) - anti(tref):
                    ctx.violation('exact mode: T*(H/RT) is not T_ref*H_ref/RT_ref + integral of Cp/R', inp,
                                  expected=str((tref * href + anti(T) - anti(tref)) / T), observed=str(v))
    replies = ctx.model([b[0] for b in batch])
    if replies is not None:
        for (req, v, inp), rep in zip(batch, replies):
            m = rep.get('h', {})
            if rep.get('mk') != 'ok' or 'ok' not in m or common.unjrat(m['ok']) != v:
                ctx.disagree('corr:c05.exact_h', inp, str(v), json.dumps(rep)[:300])


# ----------------------------------------------------------------------------- shipped libraries
def library_names():
    import os, pgradd
    root = os.path.join(os.path.dirname(pgradd.__file__), 'data')
    return sorted(d for d in os.listdir(root) if os.path.exists(os.path.join(root, d, 'library.yaml')))


_libs = {}


def load_library(name):
    from pgradd.GroupAdd.Library import GroupLibrary
    import pgradd.ThermoChem  # noqa: registers the property set
    if name not in _libs:
        _libs[name] = GroupLibrary.Load(name)
    return _libs[name]


def is_quantity(x):
    import numbers
    return x is not None and not isinstance(x, numbers.Real)


F12_ERRORS = ('internal:UnitsError', 'internal:TypeError')


def spec_of_object(th):
    """spec of a loaded ThermochemGroup from its live attributes; second result: some datum (reference value or a
    tabulated Cp) loaded as a Quantity instead of a number (defect F12: `H_ref: 0` / `[1500 K, 0]` under a units block)"""
    qdata = is_quantity(th.ND_H_ref) or is_quantity(th.ND_S_ref) or any(is_quantity(c) for c in th.ND_Cp_data.values())
    rng = th.get_range()
    spec = {'kind': 'grp', 'href': None if th.ND_H_ref is None else float(th.ND_H_ref),
            'sref': None if th.ND_S_ref is None else float(th.ND_S_ref),
            'pts': [[float(t), float(c)] for t, c in th.ND_Cp_data.items()],
            'tref': float(th.T_ref), 'range': None if rng is None else [float(rng[0]), float(rng[1])]}
    return spec, qdata


def shipped(ctx, batch, acc, per_lib):
    rng = ctx.rng
    for name in library_names():
        try:
            lib = load_library(name)
        except Exception as e:
            ctx.count('library_load_failed')
            ctx.violation('shipped library does not load', {'library': name}, 'loads', repr(e)[:300])
            continue
        items = [(str(g), ps['thermochem']) for g, ps in lib.contents.items() if 'thermochem' in ps]
        special = [it for it in items if len(it[1].ND_Cp_data) <= 1 or it[1].ND_H_ref is None or it[1].ND_S_ref is None
                   or spec_of_object(it[1])[1]]
        special.sort(key=lambda it: not spec_of_object(it[1])[1])     # groups with Quantity data are always evaluated
        rest = [it for it in items if it not in special]
        rng.shuffle(rest)
        chosen = special[:max(6, per_lib // 3)] + rest[:per_lib] if per_lib else items
        ctx.count('shipped_groups', len(chosen))
        for gname, th in chosen:
            spec, qdata = spec_of_object(th)
            where = {'library': name, 'group': gname}
            pts = sorted(spec['pts'])
            lo, hi = spec['range'] if spec['range'] else ((pts[0][0], pts[-1][0]) if pts else (spec['tref'], spec['tref']))
            temps = {spec['tref']: 'tref', lo: 'range_lo', hi: 'range_hi'}
            if pts:
                for tc in L.PLACEMENTS:
                    T, tact = L.place(rng, tc, pts, lo, hi)
                    temps.setdefault(T, tact)
            else:
                temps.setdefault(L.between(rng, lo, hi), 'inside')
            # the loaded object itself is evaluated (not a rebuilt copy)
            shipped_object(ctx, th, spec, sorted(temps.items()), batch, where, acc, qdata)


def shipped_object(ctx, th, spec, temps, batch, where, acc, qdata=False):
    rd = L.inner(th)
    has_cp = bool(spec['pts'])
    inp0 = dict(where, spec=spec)
    if qdata:
        ensure_f12(ctx)
    if acc is not None and rd is not None and ctx.rng.random() < 0.2:
        assumption_checks(ctx, acc, spec, rd)
    results = {}
    for T, tcls in temps:
        outs = {w: L.eval_impl(th, w, T, ctx.count) for w in L.WHICH}
        for w in L.WHICH:
            ctx.case(('shipped', where['library'], len(spec['pts']), tcls, w) if has_cp else None)
            ctx.count('shipped_' + w + '_' + ('ok' if 'ok' in outs[w] else outs[w]['err']))
            if qdata and outs[w].get('err') in F12_ERRORS:
                # exactly the F12 class: a group holding a Quantity where a number belongs fails with a units/type error
                ctx.violation('a shipped group with a datum that loaded as a Quantity cannot be evaluated',
                              dict(where, T=T, property=w), expected='finite value', observed=outs[w], finding='F12')
                outs[w] = {'skip': True, 'warn': outs[w]['warn']}
        results[T] = outs
        orc = L.oracle_for(spec, th, T, L.WHICH)
        batch.append(({'op': 'c05.eval', 'cor': L.jspec(spec, orc), 'T': L.J(T), 'want': list(L.WHICH)},
                      {'mk': 'ok', 'range': L.impl_range(th), 'outs': outs}, dict(inp0, T=T), spec))
    if has_cp and rd is not None:
        property_oracle(ctx, spec, th, rd, results, inp0, do_perm=False)
    elif not has_cp:
        for T, outs in results.items():
            for w, need in (('h', spec['href'] is not None), ('s', spec['sref'] is not None)):
                if outs[w].get('skip'):
                    continue
                if need and outs[w].get('ok') != spec[w + 'ref']:
                    ctx.violation('a shipped group without Cp data does not return its reference value', dict(inp0, T=T, property=w),
                                  expected=spec[w + 'ref'], observed=outs[w])


# ----------------------------------------------------------------------------- entry points
def anchored_functions():
    from pgradd.ThermoChem import ThermochemRawData, ThermochemIncomplete, ThermochemBase
    return [('raw_data.__init__', ThermochemRawData.__init__), ('raw_data.get_CpoR', ThermochemRawData.get_CpoR),
            ('raw_data.get_SoR', ThermochemRawData.get_SoR), ('raw_data.get_HoRT', ThermochemRawData.get_HoRT),
            ('incomplete._setup_correlation', ThermochemIncomplete._setup_correlation),
            ('incomplete.get_CpoR', ThermochemIncomplete.get_CpoR), ('incomplete.get_HoRT', ThermochemIncomplete.get_HoRT),
            ('incomplete.get_SoR', ThermochemIncomplete.get_SoR), ('base.check_range', ThermochemBase.check_range),
            ('base.get_GoRT', ThermochemBase.get_GoRT)]


# statements the generators need not reach: the NumPy-array path of get_CpoR (the property is about scalar temperatures)
# (+ in C05 only: `del self._correlation` on re-setup (C13), the no-Cp out-of-range warning lines and the `range is None`
#  return of check_range, which the C06 generators reach)
REACH_EXEMPT = {'raw_data.get_CpoR': 1, 'incomplete._setup_correlation': 1, 'incomplete.get_HoRT': 1,
                'incomplete.get_SoR': 1, 'base.check_range': 1}
FLOORS = {'tref_below': 8, 'tref_at_min': 8, 'tref_between': 8, 'tref_at_knot': 8, 'tref_at_max': 8, 'tref_above': 8,
          'T_below': 20, 'T_at_min': 20, 'T_between': 20, 'T_at_knot': 20, 'T_at_max': 20, 'T_above': 20,
          'T_outside_below': 20, 'T_outside_above': 20, 'mk_value': 20, 'mk_assertion': 5, 'impl_h_incomplete': 10,
          'impl_s_incomplete': 10, 'impl_h_outside': 10, 'exact_mode': 500, 'shipped_groups': 60, 'size_01': 4, 'size_16': 4,
          'hist_histories': 300, 'hist_model_steps': 1500, 'hist_op_update': 300, 'hist_op_delCp': 150, 'hist_op_setRange': 150,
          'hist_op_copy': 60, 'hist_op_delH': 40, 'hist_res_raised:readOnly': 60, 'hist_res_raised:value': 60,
          'near_objects': 80, 'near_tref': 400, 'near_at_min': 200, 'near_at_max': 200, 'near_range_lo': 100, 'near_range_hi': 100,
          'near_at_knot': 100, 'built_via_yaml': 80, 'built_via_yaml_zero_ref': 20,
          'hist_res_raised:key': 40, 'hist_res_raised:assertion': 12, 'hist_update_other_Tref_done': 10, 'hist_model_h_ok': 2000}


def check_reach(ctx, reach, floors, exempt):
    """generator rot is a machinery failure (DESIGN Appendix B)"""
    # recorded reach moves with the seed: the alarm is for a fall to under half of it
    low = {k: ctx.stats.get(k, 0) for k, v in floors.items() if ctx.stats.get(k, 0) < max(1, v // 2)}
    rep = reach.report() if reach is not None else None
    ctx.extra.setdefault('coverage', {})['impl_reach'] = rep if rep is not None else 'coverage.py unavailable'
    ctx.extra['coverage']['reach_floors'] = floors
    if ctx.searching or ctx.violations or ctx.broken or ctx.disagreements or ctx.known_seen:
        return      # something is already reported: a changed outcome distribution is then a symptom, not generator rot
    if low:
        raise common.MachineryError('generator reach below its floor: %r' % low)
    if rep:
        # statement reach of the anchored functions is reported in the evidence only: a harmless refactor (or a change under
        # test) adds and removes statements, and that must not make the check unusable; generator rot is judged on the
        # outcome-class floors above
        bad = {k: v['missed'] for k, v in rep.items() if len(v['missed']) > exempt.get(k, 0)}
        ctx.extra['coverage']['anchored_statements_not_reached'] = bad


def run(ctx):
    with L.Reach(anchored_functions()) as reach:
        run_inner(ctx)
    check_reach(ctx, reach, FLOORS, REACH_EXEMPT)


def run_inner(ctx):
    acc = Acc()
    for fname, rec in common.load_corpus('C05'):
        ctx.count('corpus')
        replay(ctx, rec)
    # the correlation object as a state machine (Props/CorrHistory.lean): random and scripted histories of the public API
    H.run(ctx, ctx.n(300, 2500), 12 if not ctx.thorough() else 24)
    batch = []
    grid(ctx, batch, acc, ctx.n(2, 24))
    near_special(ctx, batch, acc, ctx.n(2, 12))
    ctx.extra.setdefault('coverage', {})['near_special_worst_error_over_tolerance'] = dict(NEAR_WORST)
    constructor_cases(ctx, batch, ctx.n(120, 2000))
    shipped(ctx, batch, acc, 0 if ctx.thorough() else ctx.n(14, 0))
    compare_batch(ctx, batch)
    exact_mode(ctx, ctx.n(40, 1200))
    acc.report(ctx)


def replay_input(rec):
    """the recorded input; for a `no-failing-input-found` record the first disagreeing input (None when there is none)"""
    if 'input' in rec:
        return rec['input']
    if rec.get('kind') == 'no-failing-input-found':
        ds = rec.get('disagreements') or []
        return ds[0]['input'] if ds else None
    return rec


def replay(ctx, rec):
    """re-run a recorded input on the implementation against the specification (property oracle only)"""
    inp = replay_input(rec)
    if inp is None:
        return True
    before = len(ctx.violations)
    if 'history' in inp:
        return H.replay(ctx, inp)
    if inp.get('exact'):
        return replay_exact(ctx, inp)
    if 'library' in inp and 'group' in inp:
        lib = load_library(inp['library'])
        for g, ps in lib.contents.items():
            if str(g) == inp['group'] and 'thermochem' in ps:
                th = ps['thermochem']
                spec, qdata = spec_of_object(th)
                T = inp.get('T', spec['tref'])
                Ts = T if isinstance(T, list) else [T]
                temps = sorted(set([(float(t), 'replay') for t in Ts if t is not None] + [(spec['tref'], 'tref')]))
                shipped_object(ctx, th, spec, temps, [], {'library': inp['library'], 'group': inp['group']}, None, qdata)
        return len(ctx.violations) == before
    spec = inp['spec']
    T = inp.get('T')
    if inp.get('near') and isinstance(T, list) and len(T) == 2:
        check_near(ctx, spec, [(float(T[0]), float(T[1]), inp.get('special', 'replay'), 'replay')], [], ('replay',))
        return len(ctx.violations) == before
    Ts = T if isinstance(T, list) else [T]
    temps = set((float(t), 'replay') for t in Ts if t is not None)
    temps.add((spec['tref'], 'tref'))
    if spec['pts'] and L.build_impl(spec)[0] is not None:
        lo, hi = L.eff_range(spec)
        temps.add((lo, 'range_lo'))
        temps.add((hi, 'range_hi'))
    check_correlation(ctx, spec, sorted(temps), [], ('replay',), None)
    return len(ctx.violations) == before


def replay_exact(ctx, inp):
    from pgradd.ThermoChem import ThermochemRawData
    F = Fraction
    pts = [(F(a), F(b)) for a, b in inp['pts']]
    href, tref, T = F(inp['href']), F(inp['tref']), F(inp['T'])
    lo, hi = F(inp['range'][0]), F(inp['range'][1])
    obj = ThermochemRawData(href, F(0), [p[0] for p in pts], [p[1] for p in pts], T_ref=tref, range=(lo, hi))
    sp = sorted(pts)
    exact = ExactLinear(sp) if len(sp) > 1 else None
    if exact:
        obj.spline = exact
    mn, mx, cmn, cmx = sp[0][0], sp[-1][0], sp[0][1], sp[-1][1]

    def anti(t):
        if t <= mn:
            return cmn * (t - mn)
        mid = (exact.integral(mn, min(t, mx)) if exact else cmn * (min(t, mx) - mn))
        return mid + (cmx * (t - mx) if t >= mx else 0)
    v = obj.get_HoRT(T)
    return T * F(v) == tref * href + anti(T) - anti(tref)


LEVEL_TEXT = ('Lean 4 theorems for every table of any length >= 1 in any supply order, every placement of the reference temperature, '
              'every declared or defaulted range with positive lower end and every temperature in range: reference values returned at '
              'T_ref, the enthalpy and entropy integral identities against a declarative extended-Cp integral, tabulated Cp reproduced, '
              'G = H - S, independence of the supply order, delegation of ThermochemIncomplete/Group; the model is tied to the code by a '
              'correspondence run over the exhaustive placement grid with the live SciPy values as oracle and an exact-rational mode. '
              'Right level: the quantifier is over all tables/placements/temperatures, which only a proof covers; the spline itself is external. '
              'Histories: Lean theorems (HIST_*) for every sequence of public calls of any length on any constructed correlation: the object '
              'stays what the constructor builds from the data it holds, a call that raises leaves it unchanged, getters never change it, the '
              'answers depend on the held data only; tied by running sampled histories on the real classes and through the model.')
LEVEL_NOTE = ('Trusted: Lean kernel; axioms propext/Classical.choice/Quot.sound; the correspondence harness; the decimal/rational '
              'abstraction of doubles (finiteness of floats is observed, not proved); assumption A-spline on SciPy (interpolation, additivity '
              'of spline.integral and of quad, re-validated numerically each run). Modelled not verified: raw_data.py, incomplete.py evaluation '
              'part, base.py check_range/get_GoRT. Theorems assume 0 < range lower end.')
TECHNIQUE = 'Lean 4 proof over hand-written model + correspondence check with oracle values from the live SciPy objects + exact-rational differential run'
