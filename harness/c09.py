"""C09 — reading RING text always ends with a query or a RING error.

Proof: lean/PGA/Props/C09.lean over the engine model PGA/Model/RingParse.lean (Parser.py), the generated
grammar tables PGA/Gen/RingGrammar.lean (Grammar.py, both dictionaries) and the reader outcome model
PGA/Model/RingRead.lean (Reader.py, MolQueryRead.py, ReactionQueryRead.py).
Tie: `pgradd.RINGParser.Read(text)` outcome class, error position, expected-token set, AST and atom/bond
counts against the model driver on generated text; property oracle: the property text applied to the
implementation's observable behaviour (allowed outcome classes, error position inside the text,
accepted text consumed in full, wall time).
"""
import json, os, collections
from . import common
from . import lib_ringgen as G

PROPS = ['PGA.Props.C09']
GEN = ['Chars', 'RingChars', 'RingGrammar', 'RingElements']
OBLIGATIONS = ['PGA.Ring.' + t for t in [
    'C09_tab_refs_defined_enhanced', 'C09_tab_refs_defined_strict', 'C09_tab_tokens_nonempty_enhanced',
    'C09_tab_tokens_nonempty_strict', 'C09_tab_wellranked_enhanced', 'C09_tab_wellranked_strict',
    'C09_tab_decimal_convertible', 'C09_tab_plain_enhanced', 'C09_never_stuck', 'C09_shipped_never_stuck',
    'C09_position_invariant', 'C09_update_furthest', 'C09_error_inside', 'C09_accepted_consumed', 'C09_read_query_consumed',
    'C09_read_syntax_inside', 'C09_read_no_hang', 'C09_read_internal_only_shape', 'C09_tree_conforms', 'C09_read_total']]
# table obligations behind C09_read_total: the child-kind tables of the rules the readers visit (PGA/Proofs/RingReadSafe.lean)
OBLIGATIONS += ['PGA.Ring.' + t for t in ['one_Symbols', 'one_AtomSuffix', 'one_AtomPrefix', 'one_AtomLabel', 'one_BondType', 'one_Boolean', 'one_GroupName', 'one_FragmentName', 'one_ReactantName', 'one_ReactionName', 'one_StereoType', 'rk_AtomType', 'rk_ConstraintNumber', 'rk_Conn', 'rk_Ring', 'rk_Radical', 'rk_NRing', 'rk_Constraints', 'rk_ConstraintChain', 'rk_Atom', 'rk_BondedAtom', 'rk_RingBond', 'rk_Stereo', 'rk_AtomChain', 'rk_MolQuery', 'rk_Fragment', 'rk_ReactantQuery', 'rk_LabelMapping', 'rk_ReactantGroup', 'rk_Duplicates', 'rk_Reactants', 'rk_BondForm', 'rk_BondBreak', 'rk_BondModify', 'rk_BondIncrease', 'rk_BondDecrease', 'rk_AtomTypeModify', 'rk_RadicalModify', 'rk_RadicalIncrease', 'rk_RadicalDecrease', 'rk_ChargeIncrease', 'rk_ChargeDecrease', 'rk_Change', 'rk_TransChain', 'rk_Rule', 'rk_Input']]
RULE = ('cases = input strings: every RING text shipped in pgradd/data/*/scheme.yaml; valid fragments and rules from a semantic '
        'generator; grammar-directed random walks over the live grammar objects (both dictionaries); EVERY prefix of a sample of '
        'them and token-boundary prefixes of the rest; single-token delete/substitute/duplicate/insert/swap/character edits; '
        'undefined/duplicate label misuse, self and duplicate bonds; random printable, keyword-soup and non-ASCII text incl. '
        'Unicode digits and letters; empty and whitespace-only. Lone surrogates are not generated (they cannot reach the driver). '
        'A case is non-trivial when the text has at least 2 tokens; distinct = distinct (text, strict) pairs.')
ASSUMPTIONS = ['CPython str.isalpha/isdigit/isdecimal/islower/upper and int() as dumped by the translator',
               'RDKit: Chem.Atom(symbol) accepts exactly the symbols dumped by the translator (probed over all strings of <= 3 '
               'ASCII alphanumerics and re-probed on every generated symbol); AddBond rejects exactly self and duplicate bonds',
               'the interpreter recursion limit (1000) is outside the model: inputs nested deeper than the stated bound are a known finding (F29)']
TRUSTED = ['modelled, not verified: Parser.py (ParseState, combinators), Reader.py, MolQueryRead.py, ReactionQueryRead.py outcome skeleton, Error.py update()']

TIMEOUT_S = 5.0
# F29: the interpreter's recursion limit.  Inputs with at least this many tokens may end in RecursionError (known
# finding; measured: 96 nested parentheses = 200 tokens, 193 formula items = 200 tokens are the smallest); every
# generator keeps its texts below it, and a RecursionError on a smaller text is a violation.
F29_MIN_TOKENS = 150


def ntokens(text):
    import re
    return len(re.findall(r"[^\W]+|[^\s\w]", text))


def cap(text):
    """cut a generated text below the F29 bound"""
    import re
    if ntokens(text) < F29_MIN_TOKENS:
        return text
    ms = list(re.finditer(r"[^\W]+|[^\s\w]", text))
    return text[:ms[F29_MIN_TOKENS - 1].start()]

ALLOWED = ('query', 'syntax', 'reader', 'notimpl')


# ---------------------------------------------------------------------- implementation side
def tok_key(t):
    return (t is not None, t or '')


def ast_json(t):
    if isinstance(t, list):
        return {'n': getattr(t[0], 'name', repr(t[0])), 'c': [ast_json(x) for x in t[1:]]}
    if isinstance(t, bool):
        return {'b': t}
    if isinstance(t, int):
        return {'i': str(t)}
    return t


def classify_exc(e):
    from pgradd.Error import RINGSyntaxError, RINGReaderError, RINGError
    if isinstance(e, common.Timeout):
        return {'cls': 'hang'}
    if isinstance(e, RINGSyntaxError):
        return {'cls': 'syntax', 'line': e.lineno, 'col': e.colno, 'toks': sorted(e.toks, key=tok_key)}
    if isinstance(e, RINGReaderError):
        return {'cls': 'reader'}
    if isinstance(e, RINGError):
        return {'cls': 'reader', 'sub': type(e).__name__}
    if isinstance(e, NotImplementedError):
        return {'cls': 'notimpl'}
    return {'cls': 'internal', 'kind': type(e).__name__}


def describe_query(q):
    from rdkit import Chem
    kind = type(q).__name__
    d = {'cls': 'query', 'kind': kind}
    try:
        if kind == 'MolQuery':
            d['atoms'] = q.mol.GetNumAtoms()
            d['bonds'] = q.mol.GetNumBonds()
            d['labels'] = list(q.atom_names)
        elif kind == 'ReactionQuery':
            d['reactants'] = len(q.reactantquery)
            d['atoms'] = sum(m.mol.GetNumAtoms() for m in q.reactantquery.values())
            d['bonds'] = sum(m.mol.GetNumBonds() for m in q.reactantquery.values())
            d['transformations'] = len(q.transformations)
    except Exception as e:      # an object we cannot describe is still a returned query
        d['describe_error'] = type(e).__name__
    return d


def impl_read(text, strict=False):
    from pgradd.RINGParser import Read
    try:
        q = common.call_with_alarm(TIMEOUT_S, Read, text, strict)
    except BaseException as e:
        if isinstance(e, (KeyboardInterrupt, SystemExit)):
            raise
        return classify_exc(e)
    return describe_query(q)


def impl_parse(text, strict=False):
    from pgradd.RINGParser import Parser
    try:
        t = common.call_with_alarm(TIMEOUT_S, Parser.parse, text, strict)
    except BaseException as e:
        if isinstance(e, (KeyboardInterrupt, SystemExit)):
            raise
        return classify_exc(e)
    return {'cls': 'ok', 'ast': ast_json(t)}


def impl_consumed(text, strict=False):
    """stream index reached by the parser on accepted text (observation through ParseState; None if unavailable)"""
    try:
        from pgradd.RINGParser import Parser, Grammar
        g = Grammar.strict_grammar if strict else Grammar.enhanced_grammar
        ps = Parser.ParseState(g, text)
        common.call_with_alarm(TIMEOUT_S, ps.parse)
        return ps.sidx
    except BaseException as e:
        if isinstance(e, (KeyboardInterrupt, SystemExit)):
            raise
        return None


_sentinel = None


def sentinel():
    """a character no grammar entry can consume: not a filler, not an identifier character, in no literal"""
    global _sentinel
    if _sentinel is None:
        from pgradd.RINGParser import Parser as P, Grammar
        used = set(''.join(P.filler) + ''.join(P.string_okay))

        def walk(e):
            if isinstance(e, str):
                return
            if hasattr(e, 'tok') and isinstance(e.tok, str):
                used.update(e.tok)
            for a in ('reqs', 'alts'):
                for x in getattr(e, a, ()):
                    walk(x)
            for a in ('opt', 'what'):
                if hasattr(e, a):
                    walk(getattr(e, a))
        for g in (Grammar.strict_grammar, Grammar.enhanced_grammar):
            for v in g[1].values():
                walk(v)
        for c in ['\x00', '\x01', '\x02', '§']:
            if c not in used and not c.isalnum():
                _sentinel = c
                break
        else:
            raise common.MachineryError('no sentinel character available')
    return _sentinel


def inside_text(text, line, col):
    """(line, col) is a position of the text: a character or the end of a line / of the text"""
    lines = text.split('\n')
    return isinstance(line, int) and isinstance(col, int) and 1 <= line <= len(lines) and 1 <= col <= len(lines[line - 1]) + 1


def finding_of(text, r):
    """precise classifier: which recorded finding (if any) explains this violation"""
    if r.get('cls') == 'internal' and r.get('kind') == 'RecursionError' and ntokens(text) >= F29_MIN_TOKENS:
        return 'F29'
    return None


def oracle(ctx, text, strict, r, inp=None):
    """the property, applied to the observed behaviour of Read(text); returns True when it holds"""
    inp = inp or {'text': text, 'strict': strict}
    ok = True
    if r['cls'] not in ALLOWED:
        what = ('Read(text) does not return within %gs' % TIMEOUT_S) if r['cls'] == 'hang' else \
            'Read(text) escapes with %s instead of a query, a RING error or NotImplementedError' % r.get('kind', r['cls'])
        if ctx.violation(what, inp, expected='query | RINGSyntaxError | RINGReaderError | NotImplementedError', observed=r,
                         finding=finding_of(text, r)):
            ok = False
        elif finding_of(text, r):
            ctx.count('known_F29')
    if r['cls'] == 'syntax' and not inside_text(text, r['line'], r['col']):
        ctx.violation('syntax error position lies outside the text', inp, expected='1 <= line <= #lines, 1 <= col <= len(line)+1', observed=r)
        ok = False
    if r['cls'] == 'query':
        # accepted text has been consumed in full: (a) nothing unconsumable can follow it, (b) the parser's index is the length
        r2 = impl_read(text + sentinel(), strict)
        if r2['cls'] == 'query':
            ctx.violation('accepted text was not consumed in full: the same text followed by an unconsumable character is accepted too',
                          inp, expected='RINGSyntaxError for text + %r' % sentinel(), observed=r2)
            ok = False
        n = impl_consumed(text, strict)
        if n is None:       # Read takes the enhanced dictionary whatever `strict` says (notes/C09.md)
            n = impl_consumed(text, not strict)
        if n is not None and n != len(text):
            ctx.violation('accepted text was not consumed in full: parser stopped at index %d of %d' % (n, len(text)), inp,
                          expected=len(text), observed=n)
            ok = False
        if n is None:
            ctx.violation('Read(text) returns a query for a text its own parser does not accept: the text was not consumed',
                          inp, expected='RINGSyntaxError', observed=dict(r, parser=impl_parse(text, False).get('cls')))
            ok = False
    return ok


# ---------------------------------------------------------------------- inputs
def shipped_texts():
    import yaml
    import pgradd
    root = os.path.join(os.path.dirname(pgradd.__file__), 'data')
    out = []

    def walk(x):
        if isinstance(x, dict):
            for v in x.values():
                walk(v)
        elif isinstance(x, list):
            for v in x:
                walk(v)
        elif isinstance(x, str):
            s = x.strip()
            if ('fragment' in s or 'rule' in s) and '{' in s:
                out.append(x)
    n_files = 0
    for d in sorted(os.listdir(root)):
        p = os.path.join(root, d, 'scheme.yaml')
        if os.path.exists(p):
            n_files += 1
            walk(yaml.safe_load(open(p)))
    return n_files, out


def vocab():
    from pgradd.RINGParser import Parser as P, Grammar
    v = set(G.GARBAGE)

    def walk(e):
        if isinstance(e, str):
            return
        if hasattr(e, 'tok') and isinstance(e.tok, str):
            v.add(e.tok)
        for a in ('reqs', 'alts'):
            for x in getattr(e, a, ()):
                walk(x)
        for a in ('opt', 'what'):
            if hasattr(e, a):
                walk(getattr(e, a))
    for val in Grammar.enhanced_grammar[1].values():
        walk(val)
    return sorted(v) + G.ELEMENTS + G.ODD_SYMBOLS + ['c1', 'c2', 'h1', '1', '2', '0', '9'] + G.UNI_DIGITS


def tokenize(text):
    """rough tokens of a shipped/valid text for the mutation stream"""
    import re
    return re.findall(r"[A-Za-z0-9_]+|[^\sA-Za-z0-9_]", text)


def literal_alts(rule):
    from pgradd.RINGParser import Grammar
    e = Grammar.enhanced_grammar[1].get(rule)
    return [a.tok for a in getattr(e, 'alts', []) if hasattr(a, 'tok')]


def valid_fragment(rng, toks_only=True, kind='fragment', name=None, labels=None):
    """a fragment every reader branch accepts: labels defined, no self/duplicate bonds, supported operators"""
    bondtypes = literal_alts('BondType') or ['single']
    suffixes = literal_alts('AtomSuffix') or ['+']
    prefixes = literal_alts('AtomPrefix')
    out = []
    p = []
    if rng.random() < 0.4:
        for rule in ('Prefix',):
            from pgradd.RINGParser import Grammar
            body = Grammar.enhanced_grammar[1].get('Prefix')
            for opt in getattr(body, 'reqs', []):
                alts = [a.tok for a in getattr(getattr(opt, 'opt', None), 'alts', []) if hasattr(a, 'tok')]
                if alts and rng.random() < 0.5:
                    p.append(rng.choice(alts))
    out += p + [kind, name or rng.choice(G.NAMES[:5]), '{']
    labels = [] if labels is None else labels
    mine = []
    bonds = set()
    n = rng.choice([1, 1, 2, 2, 3, 3, 4, 5, 6, 8])

    def atomtype():
        t = []
        if prefixes and rng.random() < 0.2:
            t.append(rng.choice(prefixes))
        t.append(rng.choice(['C', 'C', 'H', 'O', 'N', 'Pt', '$', '&', 'X', 'any atom', 'heteroatom', 'heavy atom', 'M', 'S', 'Ru']))
        if rng.random() < 0.3:
            t.append(rng.choice(suffixes))
        return t

    def constraints():
        c = ['{']
        for i in range(rng.choice([1, 1, 2, 3])):
            if i:
                c.append(',')
            if rng.random() < 0.3:
                c.append('!')
            k = rng.random()
            num = ([rng.choice(['>', '<', '=', '>=', '<='])] if rng.random() < 0.6 else []) + [str(rng.randint(0, 9))]
            if k < 0.4:
                c.append('connected to')
                if rng.random() < 0.7:
                    c += num
                c += atomtype()
                if rng.random() < 0.4:
                    c += ['with', rng.choice(bondtypes), 'bond']
            elif k < 0.6:
                c += ['in ring of size'] + num
            elif k < 0.8:
                c += ['has'] + num + ['radical electrons']
            else:
                c += ['in'] + num + ['ring']
        c.append('}')
        return c
    for i in range(n):
        lab = None
        while lab is None or lab in labels:
            lab = rng.choice(['c', 'h', 'o', 'x', 'C', 'a_']) + str(rng.randint(1, 40))
        out += atomtype() + ['labeled', lab]
        if mine:
            j = rng.randrange(len(mine))
            out += [rng.choice(bondtypes), 'bond to', mine[j]]
            bonds.add(frozenset((len(mine), j)))
        labels.append(lab)
        mine.append(lab)
        if rng.random() < 0.3:
            out += constraints()
        if len(mine) >= 3 and rng.random() < 0.25:
            a, b = rng.sample(range(len(mine)), 2)
            if frozenset((a, b)) not in bonds:
                bonds.add(frozenset((a, b)))
                out += ['ringbond', mine[a], rng.choice(bondtypes), 'bond to', mine[b]]
    out.append('}')
    return out, mine


def valid_rule(rng):
    """an electron-balanced reaction rule over one or two reactants"""
    labels = []
    out = ['rule', rng.choice(G.NAMES[:5]), '{']
    k = rng.choice([0, 1, 2, 3, 4, 4, 4, 5, 5])
    if k == 5:      # duplicates / group reactants (shared query objects, label renaming)
        frag, mine = valid_fragment(rng, kind='reactant', name='r1', labels=labels)
        out += frag
        new = ['d%d' % i for i in range(len(mine))]
        pairs = list(zip(mine, new))
        style = rng.random()
        if style < 0.25 and pairs:
            pairs = pairs[:-1]                                  # mapping too short
        elif style < 0.4:
            pairs = pairs + [(rng.choice(mine), 'e9')]          # a key mapped twice
        elif style < 0.5:
            pairs = [(a + 'x', b) for a, b in pairs]            # unknown labels, right length
        src = 'r1' if rng.random() < 0.85 else 'zz'
        if rng.random() < 0.15:
            out += ['reactant', 'r2', 'group', rng.choice(['g', 'r1'])]
        else:
            out += ['reactant', rng.choice(['r2', 'r2', 'r1', 'r']), 'duplicates', src]
        out.append('(')
        for i, (a, b) in enumerate(pairs or [('a', 'b')]):
            out += ([','] if i else []) + [a, '=>', b]
        out.append(')')
        pool = mine + new + ['zz']
        for _ in range(rng.randint(1, 3)):
            t = rng.choice(['form', 'break', 'modify bond', 'increase bond order', 'increase number of radical',
                            'decrease number of radical', 'increase formal charge', 'modify number of radical', 'modify atomtype'])
            a, b = rng.choice(pool), rng.choice(pool)
            if t in ('form', 'break'):
                out += [t] + ([rng.choice(literal_alts('BondType') or ['single'])] if rng.random() < 0.5 else []) + ['bond', '(', a, ',', b, ')']
            elif t == 'modify bond':
                out += [t, '(', a, ',', b, ',', rng.choice(literal_alts('BondType') or ['single']), ')']
            elif t.endswith('bond order'):
                out += [t, '(', a, ',', b, ')']
            elif t == 'modify number of radical':
                out += [t, '(', a, ',', str(rng.randint(0, 3)), ')']
            elif t == 'modify atomtype':
                out += [t, '(', a, ','] + ([rng.choice(literal_alts('AtomPrefix') or ['aromatic'])] if rng.random() < 0.2 else []) + \
                    [rng.choice(['C', 'H', 'O'])] + ([rng.choice(literal_alts('AtomSuffix') or ['+'])] if rng.random() < 0.6 else []) + [')']
            else:
                out += [t, '(', a, ')']
        out.append('}')
        return out
    if k == 0:      # C-H scission
        out += ['reactant', 'r1', '{', 'C', 'labeled', 'c1', 'H', 'labeled', 'h1', 'single', 'bond to', 'c1', '}',
                'break', 'bond', '(', 'c1', ',', 'h1', ')', 'increase number of radical', '(', 'c1', ')',
                'increase number of radical', '(', 'h1', ')']
    elif k == 1:    # bond order
        out += ['reactant', 'r1', '{', 'C', 'labeled', 'c1', 'C', 'labeled', 'c2', 'double', 'bond to', 'c1', '}',
                'decrease bond order', '(', 'c1', ',', 'c2', ')', 'increase number of radical', '(', 'c1', ')',
                'increase number of radical', '(', 'c2', ')']
    elif k == 2:    # two reactants, bond formation
        out += ['reactant', 'r1', '{', 'C.', 'labeled', 'c1', '}', 'reactant', 'r2', '{', 'H.', 'labeled', 'h1', '}',
                'form', 'bond', '(', 'c1', ',', 'h1', ')', 'decrease number of radical', '(', 'c1', ')',
                'decrease number of radical', '(', 'h1', ')']
        out = [t for tok in out for t in (['C', '.'] if tok == 'C.' else ['H', '.'] if tok == 'H.' else [tok])]
    elif k == 3:    # modify bond
        bt = rng.choice(['single', 'double', 'triple', 'aromatic'])
        out += ['reactant', 'r1', '{', 'C', 'labeled', 'c1', 'C', 'labeled', 'c2', bt, 'bond to', 'c1', '}',
                'modify bond', '(', 'c1', ',', 'c2', ',', bt, ')']
    else:           # random (often unbalanced or referring to unknown labels)
        frag, mine = valid_fragment(rng, kind='reactant', name='r1', labels=labels)
        out += frag
        pool = mine + ['zz']
        for _ in range(rng.randint(1, 3)):
            t = rng.choice(['form', 'break', 'modify bond', 'increase bond order', 'decrease bond order', 'increase number of radical',
                            'decrease number of radical', 'increase formal charge', 'decrease formal charge', 'modify number of radical',
                            'modify atomtype'])
            a, b = rng.choice(pool), rng.choice(pool)
            if t in ('form', 'break'):
                out += [t] + ([rng.choice(literal_alts('BondType') or ['single'])] if rng.random() < 0.5 else []) + ['bond', '(', a, ',', b, ')']
            elif t == 'modify bond':
                out += [t, '(', a, ',', b, ',', rng.choice(literal_alts('BondType') or ['single']), ')']
            elif t.endswith('bond order'):
                out += [t, '(', a, ',', b, ')']
            elif t == 'modify number of radical':
                out += [t, '(', a, ',', str(rng.randint(0, 3)), ')']
            elif t == 'modify atomtype':
                out += [t, '(', a, ','] + ([rng.choice(literal_alts('AtomPrefix') or ['aromatic'])] if rng.random() < 0.2 else []) + \
                    [rng.choice(['C', 'H', 'O'])] + ([rng.choice(literal_alts('AtomSuffix') or ['+'])] if rng.random() < 0.6 else []) + [')']
            else:
                out += [t, '(', a, ')']
    out.append('}')
    return out


def misuse(rng):
    """label misuse and bond misuse on otherwise valid fragments"""
    k = rng.choice(['undef_bond', 'undef_ring', 'dup_label', 'self_ring', 'dup_ring', 'dup_bond', 'undef_stereo', 'stereo', 'group'])
    base = ['fragment', 'a', '{', 'C', 'labeled', 'c1', 'C', 'labeled', 'c2', 'double', 'bond to', 'c1', 'H', 'labeled', 'h1', 'single', 'bond to', 'c1',
            'H', 'labeled', 'h2', 'single', 'bond to', 'c2']
    bt = rng.choice(literal_alts('BondType') or ['single'])
    if k == 'undef_bond':
        t = base + ['O', 'labeled', 'o1', bt, 'bond to', rng.choice(['o1', 'zz', 'C1', 'c'])]
    elif k == 'undef_ring':
        t = base + ['ringbond', rng.choice(['c1', 'zz']), bt, 'bond to', rng.choice(['q9', 'h2'])]
    elif k == 'dup_label':
        t = base + ['O', 'labeled', rng.choice(['c1', 'h2']), bt, 'bond to', 'c1']
    elif k == 'self_ring':
        t = base + ['ringbond', 'c1', bt, 'bond to', 'c1']
    elif k == 'dup_ring':
        t = base + ['ringbond', rng.choice(['c1', 'c2']), bt, 'bond to', rng.choice(['c2', 'c1', 'h1'])]
    elif k == 'dup_bond':
        t = base + ['ringbond', 'h1', bt, 'bond to', 'h2', 'ringbond', 'h2', bt, 'bond to', 'h1']
    elif k == 'undef_stereo':
        ls = [rng.choice(['h1', 'h2', 'c1', 'c2', 'zz']) for _ in range(4)]
        t = base + ['stereo double bond', ls[0], rng.choice(['cis', 'trans', 'notspecified']), 'to', ls[1], 'for double bond between', ls[2], 'and', ls[3]]
    elif k == 'stereo':
        t = base + ['stereo double bond', 'h1'] + (['!'] if rng.random() < 0.3 else []) + [rng.choice(['cis', 'trans', 'notspecified']), 'to', 'h2',
                    'for double bond between', 'c1', 'and', 'c2']
    else:
        t = base[:6] + ['{', 'connected to', 'group', rng.choice(['foo', 'a'])] + (['with', bt, 'bond'] if rng.random() < 0.5 else []) + ['}']
    return t + ['}']


def systematic_texts():
    """small exhaustive sweeps over the live vocabulary: every suffix, prefix, symbol class, bond kind (in every position
    that takes one), constraint form x Boolean x operator, molecule prefix combination, stereo type, transformation"""
    from pgradd.RINGParser import Grammar
    out = []
    bts = literal_alts('BondType')
    sufs = literal_alts('AtomSuffix')
    prefs = literal_alts('AtomPrefix')
    bools = literal_alts('Boolean')
    syms = [a.tok for a in getattr(getattr(Grammar.enhanced_grammar[1].get('Symbols'), 'alts', [None])[0], 'alts', []) if hasattr(a, 'tok')]
    cn = Grammar.enhanced_grammar[1].get('ConstraintNumber')
    ops = [a.tok for a in getattr(getattr(getattr(cn, 'reqs', [None])[0], 'opt', None), 'alts', []) if hasattr(a, 'tok')]
    for x in sufs:
        out.append('fragment a{C%s labeled c1}' % x)
        out.append('fragment a{c%s labeled c1}' % x)
        out.append('rule r{reactant r1{C labeled c1} modify atomtype (c1, C%s)}' % x)
        out.append('fragment a{C labeled c1 {connected to >1 O%s}}' % x)
    for x in prefs:
        out.append('fragment a{%s C labeled c1}' % x)
        out.append('rule r{reactant r1{C labeled c1} modify atomtype (c1, %s C)}' % x)
    for x in syms + ['M', 'C', 'Pt', 'c', 'Zz', 'zz', 'Uup', 'ſi', 'É']:
        out.append('fragment a{%s labeled c1}' % x)
        out.append('fragment a{C labeled c1 {connected to %s}}' % x)
    for x in bts:
        out.append('fragment a{C labeled c1 C labeled c2 %s bond to c1}' % x)
        out.append('fragment a{C labeled c1 C labeled c2 single bond to c1 C labeled c3 single bond to c2 ringbond c3 %s bond to c1}' % x)
        out.append('fragment a{C labeled c1 {connected to C with %s bond}}' % x)
        for t in ('form', 'break'):
            out.append('rule r{reactant r1{C labeled c1 C labeled c2 %s bond to c1} %s %s bond (c1, c2)}' % (x, t, x))
            out.append('rule r{reactant r1{C labeled c1 C labeled c2 single bond to c1} %s %s bond (c1, c2)}' % (t, x))
        for y in bts:
            out.append('rule r{reactant r1{C labeled c1 C labeled c2 %s bond to c1} modify bond (c1, c2, %s)}' % (x, y))
    for b in [''] + bools:
        for form in ('connected to 2 C', 'connected to C', 'in ring of size 5', 'has 1 radical electrons', 'in 2 ring', 'connected to group g'):
            out.append('fragment a{C labeled c1 {%s %s}}' % (b, form))
    for o in ops:
        for form in ('connected to %s2 C', 'in ring of size %s5', 'has %s1 radical electrons', 'in %s2 ring'):
            out.append('fragment a{C labeled c1 {%s}}' % (form % o))
    body = Grammar.enhanced_grammar[1].get('Prefix')
    groups = [[''] + [a.tok for a in getattr(getattr(o, 'opt', None), 'alts', []) if hasattr(a, 'tok')] for o in getattr(body, 'reqs', [])]
    import itertools
    for combo in itertools.product(*groups):
        out.append(' '.join(c for c in combo if c) + ' fragment a{C labeled c1}')
    for ty in literal_alts('DoubleBondStereoType'):
        for b in ['', '!', '-']:
            out.append('fragment a{C labeled c1 C labeled c2 double bond to c1 H labeled h1 single bond to c1 H labeled h2 single bond to c2 '
                       'stereo double bond h1 %s %s to h2 for double bond between c1 and c2}' % (b, ty))
    base = 'rule r{reactant r1{C labeled c1 H labeled h1 single bond to c1} %s}'
    for t in ('increase bond order (c1, h1)', 'decrease bond order (c1, h1)', 'increase number of radical (c1)', 'decrease number of radical (c1)',
              'increase formal charge (c1)', 'decrease formal charge (c1)', 'modify number of radical (c1, 0)', 'modify number of radical (c1, 2)',
              'increase formal charge (c1) decrease formal charge (h1)', 'increase number of radical (c1) decrease number of radical (c1)',
              'constraints{ r1.size > 3 } increase formal charge (c1)', 'constraints{ r1 is cyclic } break bond (c1, h1)',
              'constraints{ fragment f{C labeled x} r1 contains >1 of f && r1.charge = 0 } break bond (c1, h1)',
              'constraints{ r1.formula is C 2 H 6 } break bond (c1, h1)', 'constraints{ (r1 is aromatic) || ! r1 is foo } break bond (c1, h1)'):
        out.append(base % t)
    # `modify number of radical` is balanced against the radical count the pattern declares (suffix or `has =n radical electrons`)
    for sfx in [''] + literal_alts('AtomSuffix'):
        for chain in ('', '{has 1 radical electrons}', '{has =2 radical electrons}', '{! has =1 radical electrons}', '{has >0 radical electrons}',
                      '{in ring of size 3, has 0 radical electrons}'):
            for n in (0, 1, 2):
                out.append('rule r{reactant r1{C%s labeled c1 %s H labeled h1 single bond to c1 %s} modify number of radical (%s, %d)}'
                           % (sfx, chain, chain if n == 2 else '', 'c1' if n < 2 or not chain else 'h1', n))
    base2 = 'rule r{reactant r1{C labeled c1 H labeled h1 single bond to c1 H labeled h2 any bond to c1} reactant r2{O labeled x1} %s}'
    labs = ['c1', 'h1', 'h2', 'x1', 'zz']
    for a in labs:
        for b in labs:
            for t in ('form bond (%s, %s)', 'break bond (%s, %s)', 'break single bond (%s, %s)', 'modify bond (%s, %s, double)',
                      'increase bond order (%s, %s)', 'decrease bond order (%s, %s)'):
                out.append(base2 % (t % (a, b)))
    return out


def stereo_misuse_texts():
    labs = ['h1', 'h2', 'c1', 'c2', 'o1', 'n1', 'zz']
    base = ('fragment a{C labeled c1 C labeled c2 double bond to c1 H labeled h1 single bond to c1 H labeled h2 single bond to c2 '
            'O labeled o1 single bond to c2 N labeled n1 single bond to o1 stereo double bond %s cis to %s for double bond between %s and %s}')
    import itertools
    first = [('n1', 'h2', 'c1', 'c2'), ('h1', 'n1', 'c1', 'c2'), ('h1', 'h1', 'c1', 'c2'), ('h1', 'h2', 'c1', 'c2'), ('h1', 'o1', 'c2', 'c1'),
             ('h1', 'h2', 'c2', 'o1'), ('h1', 'h2', 'c1', 'n1'), ('h1', 'h2', 'c1', 'zz')]
    return [base % c for c in first] + [base % c for c in itertools.product(labs, repeat=4) if c not in first]


def generate_inputs(ctx):
    """-> list of (source, text, strict)"""
    from pgradd.RINGParser import Parser as P, Grammar
    rng = ctx.rng
    out = []
    voc = vocab()

    def add(src, text, strict=None):
        text = cap(text)
        if strict is None:
            strict = rng.random() < 0.12
        out.append((src, text, strict))
    # empty / whitespace only
    for t in ['', ' ', '\n', '\t', ' \n\t ', '\r', '\x0b', '\xa0', '  \n\n  ']:
        add('blank', t, False)
        add('blank', t, True)
    # shipped texts
    nfiles, shipped = shipped_texts()
    ctx.count('shipped_files', nfiles)
    ctx.count('shipped_texts', len(shipped))
    distinct_shipped = sorted(set(shipped))
    for t in distinct_shipped:
        add('shipped', t, False)
    for t in systematic_texts():
        add('systematic', t, False)
    st = stereo_misuse_texts()
    for t in (st if ctx.thorough() else st[:8] + rng.sample(st[8:], 140)):
        add('systematic', t, False)
    # valid streams
    valid = []
    for _ in range(ctx.n(160, 3000)):
        toks, _ = valid_fragment(rng)
        valid.append(toks)
        add('valid_fragment', G.join(rng, toks, messy=rng.random() < 0.4))
    for _ in range(ctx.n(260, 5000)):
        toks = valid_rule(rng)
        valid.append(toks)
        add('valid_rule', G.join(rng, toks, messy=rng.random() < 0.4))
    for _ in range(ctx.n(90, 1500)):
        toks = misuse(rng)
        valid.append(toks)
        add('misuse', G.join(rng, toks))
    walkers = [G.Walker(rng, Grammar.enhanced_grammar, P, valid=True), G.Walker(rng, Grammar.enhanced_grammar, P, valid=False),
               G.Walker(rng, Grammar.strict_grammar, P, valid=True)]
    for i in range(ctx.n(330, 7000)):
        w = walkers[i % 3]
        toks = w.gen()
        valid.append(toks)
        add('walk', G.join(rng, toks, messy=rng.random() < 0.3), strict=(i % 3 == 2) or None)
    ctx.extra.setdefault('coverage', {})['generator_reach'] = {k: sum(w.hits.get(k, 0) for w in walkers)
                                                                for k in sorted(set().union(*[w.hits for w in walkers]))}
    for t in rng.sample(distinct_shipped, min(len(distinct_shipped), ctx.n(40, 200))):
        valid.append(tokenize(t))
    # every prefix of a sample; token-boundary prefixes of more
    sample = rng.sample(valid, min(len(valid), ctx.n(7, 120)))
    for toks in sample:
        text = ' '.join(toks)[:260]
        for i in range(len(text)):
            add('prefix', text[:i])
    for toks in rng.sample(valid, min(len(valid), ctx.n(50, 1200))):
        for i in rng.sample(range(len(toks) + 1), min(len(toks) + 1, 6)):
            add('tokprefix', ' '.join(toks[:i]))
    # single-token mutations
    for _ in range(ctx.n(800, 17000)):
        toks = rng.choice(valid)
        kind, m = G.mutate_tokens(rng, toks, voc)
        if rng.random() < 0.15:
            kind2, m = G.mutate_tokens(rng, m, voc)
        add('mut_' + kind, G.join(rng, m, messy=rng.random() < 0.1))
    # random text
    for _ in range(ctx.n(350, 8000)):
        add('random', G.random_text(rng))
    # would-be layout: remarks in the styles of other languages, block remarks, line continuations, exotic blanks — one per
    # text, at a token boundary of a text laid out over several lines, most often as a `commented-out' tail of a text that
    # is then incomplete; every opener in turn (lib_ringgen.junk_texts)
    really_valid = valid[:ctx.n(160, 3000) + ctx.n(260, 5000)]
    for _ in range(ctx.n(120, 1500)):
        toks = rng.choice(really_valid if rng.random() < 0.8 else valid)
        for kind, text in G.junk_texts(rng, toks[:60], 7):
            add(kind, text)
    # texts that are the names of things that exist in this environment (files, directories, devices, programs)
    for t in existing_paths():
        add('path', t, False)
    return out


def existing_paths():
    import sys
    import pgradd
    root = os.path.dirname(pgradd.__file__)
    cands = ['/', '.', '..', '/etc/passwd', '/etc/hostname', '/proc/self/status', '/proc/self/cmdline', '/dev/null', sys.executable,
             pgradd.__file__, os.path.join(root, 'data', 'BensonGA', 'scheme.yaml'), os.path.join(root, 'data', 'BensonGA', 'library.yaml'),
             root, os.path.join(root, 'data'), os.path.relpath(pgradd.__file__), os.path.relpath(root), '~', os.path.expanduser('~'),
             'file://' + pgradd.__file__, os.devnull]
    return [c for c in dict.fromkeys(cands) if c]


# ---------------------------------------------------------------------- the environment: files lying around
FS_CONTENT = {
    'valid': 'fragment zz{\n C labeled c1\n H labeled h1 single bond to c1\n}\n',
    'rule': ('rule r{reactant r1{C labeled c1 H labeled h1 single bond to c1} break bond (c1, h1) '
             'increase number of radical (c1) increase number of radical (h1)}'),
    'invalid_multiline': 'fragment zz{\n C labeled c1\n\n\n   H labeled',
    'undefined_label': 'fragment zz{C labeled c1 H labeled h1 single bond to q9}',
    'binary': b'\xff\xfe\x00\x80RING\xc3(',
    'empty': '',
}
FS_KINDS = sorted(FS_CONTENT) + ['dir', 'symlink']
FS_NAMES = ['water.ring', 'notes.txt', 'table.bin', 'a', 'C', 'fragment', 'rule', 'x.yaml', 'scheme.yaml', 'c1', '.hidden', 'data',
            'README', 'fragment a{C labeled c1}', 'fragment a{C labeled c1', 'f.ring ', ' f.ring', 'é.ring', '٣', 'a b', '-',
            '~', '*', '{}', '$HOME', 'fragment', 'C labeled c1']


def fs_name_ok(t):
    """the text can be the name of a file in a directory"""
    try:
        b = t.encode('utf-8')
    except UnicodeEncodeError:
        return False
    return 0 < len(b) <= 200 and '/' not in t and '\x00' not in t and t not in ('.', '..')


def fs_make(root, files):
    import shutil
    shutil.rmtree(root, ignore_errors=True)
    os.makedirs(root)
    for f in files:
        path = os.path.join(root, f['name'])
        os.makedirs(os.path.dirname(path), exist_ok=True)
        if f['kind'] == 'dir':
            os.makedirs(path, exist_ok=True)
        elif f['kind'] == 'symlink':
            target = os.path.join(root, '_target_of_links')
            with open(target, 'w') as fh:
                fh.write(FS_CONTENT['valid'])
            if not os.path.lexists(path):
                os.symlink(target, path)
        else:
            c = FS_CONTENT[f['kind']]
            with open(path, 'wb') as fh:
                fh.write(c if isinstance(c, bytes) else c.encode('utf-8'))


def fs_text(case, root):
    """the text of a case: recorded literally, or — for absolute paths — relative to the environment directory of this run"""
    return os.path.join(root, case['abs_of']) if case.get('abs_of') is not None else case['text']


def fs_read_in(root, cases, ctx=None):
    """Read every case's text with `root` as the working directory; -> outcomes (the property oracle is applied when ctx is given)"""
    old = os.getcwd()
    out = []
    try:
        os.chdir(root)
        for c in cases:
            text = fs_text(c, root)
            r = impl_read(text, c['strict'])
            out.append(r)
            if ctx is not None:
                oracle(ctx, text, c['strict'], r, inp=fs_input(c))
    finally:
        os.chdir(old)
    return out


def fs_input(c):
    return {k: c[k] for k in ('text', 'abs_of', 'strict', 'files') if k in c}


def fs_run(ctx, cases, tag='fs'):
    """Each case = a text + files lying around.  The text is read (A) from a working directory that holds the files and (B)
    from the same place after the files are gone; the outcome must be the same (a text means what it says, whatever the
    environment holds), and in (A) it must be an outcome the property allows.  -> number of cases that differ"""
    env = os.path.join(ctx.scratch, tag, 'env')
    files = []
    seen = set()
    for c in cases:
        for f in c['files']:
            if f['name'] not in seen:
                seen.add(f['name'])
                files.append(f)
    before = len(ctx.violations)
    fs_make(env, files)
    with_files = fs_read_in(env, cases, ctx)
    fs_make(env, [])
    without = fs_read_in(env, cases)
    bad = 0
    for c, a, b in zip(cases, with_files, without):
        ctx.count('fs_cases')
        ctx.count('fs_' + c.get('form', 'name') + '_' + '+'.join(sorted({f['kind'] for f in c['files']})))
        if a != b:
            bad += 1
            ctx.violation('the outcome of Read(text) depends on files lying around: read from a working directory that holds '
                          'the listed files, and again after they are gone', fs_input(c), expected=b, observed=a)
    return bad + len(ctx.violations) - before


def fs_cases(ctx, items):
    """texts x files: names a user might have lying around, a sample of this run's generated texts that can be file names
    (valid fragments, truncations, random text), each as the bare name, ./name, sub/name and the absolute path; the file holds
    valid RING, a rule, invalid multi-line RING, undefined labels, non-UTF-8 bytes, nothing, or is a directory / a symlink"""
    rng = ctx.rng
    names = list(dict.fromkeys(FS_NAMES))
    reserved = set(names) | {'sub', '_target_of_links'}
    pool = sorted({t for _, t, _ in items if fs_name_ok(t) and t not in reserved})
    names += rng.sample(pool, min(len(pool), ctx.n(60, 600)))
    cases = []
    k = 0
    for nm in names:
        if not fs_name_ok(nm):
            continue
        k += 1
        for form in (['name', './', 'sub/', 'abs'] if nm in FS_NAMES else [rng.choice(['name', 'name', './', 'abs'])]):
            # one kind per file: the bare name, ./name and the absolute path denote the same file
            kind = FS_KINDS[(k + (3 if form == 'sub/' else 0)) % len(FS_KINDS)]
            rel = 'sub/' + nm if form == 'sub/' else nm
            c = {'strict': False, 'files': [{'name': rel, 'kind': kind}], 'form': form}
            if form == 'abs':
                c['text'], c['abs_of'] = '<working directory>/' + rel, rel
            else:
                c['text'] = {'name': nm, './': './' + nm, 'sub/': rel}[form]
            cases.append(c)
    return cases


def fs_check(ctx, items):
    fs_run(ctx, fs_cases(ctx, items))


# ---------------------------------------------------------------------- the check
def cps(text):
    return [ord(c) for c in text]


def sendable(text):
    return not any(0xD800 <= ord(c) <= 0xDFFF for c in text)


def canon_model(m):
    if isinstance(m, dict) and m.get('cls') == 'syntax':
        m = dict(m, toks=sorted(m['toks'], key=tok_key))
    return m


def compare(ctx, text, strict, r_read, r_parse, rep):
    """the tie: implementation vs model reply for one text"""
    inp = {'text': text, 'strict': strict}
    mp = canon_model(rep.get('parse'))
    mr = canon_model(rep.get('read'))
    ctx.count('model_parse_' + str(mp.get('cls')))
    ctx.count('model_read_' + str(mr.get('cls')))
    # parser: class, position, expected tokens, AST
    ip = r_parse
    keys = ('cls', 'ast') if ip.get('cls') == 'ok' else ('cls', 'line', 'col', 'toks', 'kind')
    a = {k: ip[k] for k in keys if k in ip}
    b = {k: mp[k] for k in keys if k in mp}
    if ip.get('cls') == 'internal' and ip.get('kind') == 'RecursionError':
        ctx.count('corr_skipped_recursion')
        return
    if a != b:
        ctx.disagree('corr:c09.parse', inp, a, b)
        return
    keys = ('cls', 'line', 'col', 'toks', 'kind', 'atoms', 'bonds', 'labels', 'reactants', 'transformations')
    if r_read.get('cls') == 'internal':
        keys = ('cls',)         # the model has one class for every non-RING exception
    a = {k: r_read[k] for k in keys if k in r_read}
    b = {k: mr[k] for k in keys if k in mr}
    if r_read.get('cls') == 'internal' and r_read.get('kind') == 'RecursionError':
        ctx.count('corr_skipped_recursion')
        return
    if mr.get('cls') == 'unmodelled':
        return
    if a != b:
        ctx.disagree('corr:c09.read', inp, a, b)


def walk_ast(ctx, a, prefix):
    if isinstance(a, dict) and 'n' in a:
        ctx.count(prefix + a['n'])
        for c in a['c']:
            walk_ast(ctx, c, prefix)


MAX_HANGS = 6      # each observed hang costs TIMEOUT_S; a few are enough to report the violation


def check_texts(ctx, items, batch):
    for src, text, strict in items:
        if ctx.stats.get('impl_hang', 0) >= MAX_HANGS and src != 'corpus':
            ctx.count('skipped_after_hangs')
            continue
        r = impl_read(text, strict)
        ntok = len(text.split())
        ctx.case((text, strict) if ntok >= 2 else None,
                 {'text': text[:200], 'strict': strict, 'outcome': {k: v for k, v in r.items() if k != 'labels'}})
        ctx.count('src_' + src)
        ctx.count('impl_' + r['cls'] + (':' + r['kind'] if r['cls'] in ('internal', 'query') else ''))
        oracle(ctx, text, strict, r)
        if r['cls'] == 'syntax' and not strict:
            rp = r
            for t in r['toks']:
                ctx.count('impl_expected_' + ('None' if t is None else 'literal' if t.startswith("'") else t))
        else:
            rp = impl_parse(text, strict)
            if rp['cls'] == 'ok':
                walk_ast(ctx, rp['ast'], 'impl_rule_')
        if sendable(text):
            batch.append(({'op': 'c09.read', 't': cps(text), 'strict': bool(strict)}, (r, rp), (text, strict)))


def finish_batch(ctx, batch):
    replies = ctx.model([b[0] for b in batch])
    if replies is None:
        return
    for (req, (r, rp), (text, strict)), rep in zip(batch, replies):
        compare(ctx, text, strict, r, rp, rep)
        mp = rep.get('parse', {})
        if mp.get('cls') == 'ok':
            walk_ast(ctx, mp['ast'], 'model_rule_')
        elif mp.get('cls') == 'syntax':
            for t in mp['toks']:
                ctx.count('model_expected_' + ('None' if t is None else 'literal' if t.startswith("'") else t))


def load_own_findings(ctx):
    """work-around: known_findings.json is assembled by the integrator; until then read findings/C09.json directly"""
    p = os.path.join(common.VERIF, 'findings', 'C09.json')
    if os.path.exists(p):
        for e in json.load(open(p)):
            ctx.known.setdefault(e['id'], e)


def recursion_probe(ctx):
    """F29: the interpreter's recursion limit (outside the model). Long chains may end in RecursionError."""
    n = 400
    text = 'fragment a{C labeled c0 ' + ' '.join('C labeled c%d single bond to c%d' % (i, i - 1) for i in range(1, n)) + '}'
    r = impl_read(text)
    ctx.case(None)
    ctx.count('probe_F29_' + r['cls'] + (':' + r.get('kind', '') if r['cls'] == 'internal' else ''))
    oracle(ctx, text, False, r)


def run(ctx):
    from rdkit import RDLogger
    RDLogger.DisableLog('rdApp.*')
    load_own_findings(ctx)
    batch = []
    for fname, rec in common.load_corpus('C09'):
        ctx.count('corpus')
        inp = rec.get('input', rec)
        check_texts(ctx, [('corpus', inp['text'], bool(inp.get('strict', False)))], batch)
    items = generate_inputs(ctx)
    check_texts(ctx, items, batch)
    fs_check(ctx, items)
    recursion_probe(ctx)
    check_assumptions(ctx)
    finish_batch(ctx, batch)
    measure_reach(ctx, batch)
    reach_floor(ctx)


def measure_reach(ctx, batch):
    """implementation-side reach: statement coverage of the anchored files, measured in a second pass over the texts
    that returned in the first one (an exception raised from the alarm handler dead-locks coverage's tracer, so the
    measured pass runs without alarm; the texts are deterministic and have already terminated once)"""
    if ctx.searching or ctx.violations:
        return
    cov = start_coverage()
    if cov is None:
        return
    from pgradd.RINGParser import Read
    try:
        for req, (r, rp), (text, strict) in batch:
            if r['cls'] == 'hang' or rp.get('cls') == 'hang':
                continue
            try:
                Read(text, strict)
            except BaseException as e:
                if isinstance(e, (KeyboardInterrupt, SystemExit)):
                    raise
    finally:
        stop_coverage(ctx, cov)


def replay(ctx, rec, record=False):
    from rdkit import RDLogger
    RDLogger.DisableLog('rdApp.*')
    load_own_findings(ctx)
    inp = rec.get('input', rec)
    if 'files' in inp:       # a text read with files lying around
        return fs_run(ctx, [dict(inp, strict=bool(inp.get('strict', False)))], tag='fs-replay') == 0
    text, strict = inp['text'], bool(inp.get('strict', False))
    before = len(ctx.violations)
    r = impl_read(text, strict)
    oracle(ctx, text, strict, r)
    print('Read(%r, strict=%r) -> %s' % (text[:120], strict, json.dumps(r)[:300]))
    return len(ctx.violations) == before


# ---------------------------------------------------------------------- reach measurement
ANCHORS = ['RINGParser/Parser.py', 'RINGParser/Grammar.py', 'RINGParser/Reader.py', 'RINGParser/MolQueryRead.py',
           'RINGParser/ReactionQueryRead.py', 'Error.py']


def start_coverage():
    if os.environ.get('C09_NOCOV'):
        return None
    try:
        import coverage
        import pgradd
        root = os.path.dirname(pgradd.__file__)
        cov = coverage.Coverage(branch=True, include=[os.path.join(root, a) for a in ANCHORS], data_file=None, config_file=False)
        cov.start()
        return cov
    except Exception:
        return None


def body_lines(path):
    """line numbers of statements inside function bodies (module/class-level lines run at import, before the measurement)"""
    import ast
    tree = ast.parse(open(path, encoding='utf-8').read())
    out = set()
    for f in ast.walk(tree):
        if isinstance(f, (ast.FunctionDef, ast.AsyncFunctionDef)):
            for n in ast.walk(f):
                if isinstance(n, ast.stmt) and n is not f:
                    out.add(n.lineno)
    return out


def stop_coverage(ctx, cov):
    if cov is None:
        return
    try:
        cov.stop()
        import pgradd
        root = os.path.dirname(pgradd.__file__)
        res = {}
        for a in ANCHORS:
            try:
                path = os.path.join(root, a)
                an = cov.analysis2(path)
                body = body_lines(path)
                stm = [l for l in an[1] if l in body]
                miss = [l for l in an[3] if l in body]
                res[a] = {'function_body_statements': len(stm), 'executed': len(stm) - len(miss), 'missing_lines': miss[:80]}
            except Exception as e:
                res[a] = {'error': type(e).__name__}
        ctx.extra.setdefault('coverage', {})['implementation_reach'] = res
    except Exception:
        pass


def check_assumptions(ctx):
    """re-validate what the reader outcome model assumes about RDKit (never presented as proof)"""
    from rdkit import Chem
    from rdkit.Chem import rdqueries
    from .gen import ring_grammar
    ok = ring_grammar.accepted_symbols()
    rng = ctx.rng
    pools = ['ABCDEFGHIJKLMNOPQRSTUVWXYZ', 'abcdefghijklmnopqrstuvwxyz', '0123456789_', 'éÉßΩλ中ſıİ٣²', ' *$&+-.']
    bad = []
    for _ in range(ctx.n(400, 4000)):
        t = ''.join(rng.choice(rng.choice(pools)) for _ in range(rng.randint(1, 4)))
        try:
            Chem.Atom(t)
            acc = True
        except RuntimeError:
            acc = False
        except Exception as e:
            bad.append((t, type(e).__name__))
            continue
        if acc != (t in ok) and t != '*':
            bad.append((t, acc))
    ctx.assumption('A-symbols: Chem.Atom(str) accepts exactly the dumped symbol table, RuntimeError otherwise', not bad, repr(bad[:5]))
    q = rdqueries.AtomNumEqualsQueryAtom(6)
    m = Chem.RWMol(Chem.Mol())
    i = m.AddAtom(q)
    j = m.AddAtom(rdqueries.AtomNumGreaterQueryAtom(0))
    a = m.GetAtomWithIdx(i)
    facts = [a.GetSymbol() == '*', a.GetNumRadicalElectrons() == 0, a.GetFormalCharge() == 0, bool(m)]
    m.AddBond(i, j, Chem.BondType.UNSPECIFIED)
    facts.append(str(m.GetBondBetweenAtoms(j, i).GetBondType()) == 'UNSPECIFIED' and m.GetBondBetweenAtoms(i, i) is None)
    for args in ((i, i), (j, i)):
        try:
            m.AddBond(args[0], args[1], Chem.BondType.SINGLE)
            facts.append(False)
        except RuntimeError:
            facts.append(True)
    ctx.assumption("A-queryatom: query atoms have symbol '*', no radicals/charge; AddBond rejects self and duplicate bonds with RuntimeError",
                   all(facts), repr(facts))


def reach_floor(ctx):
    """generator rot is a machinery failure: the floors are what the check reached when it was built"""
    if ctx.searching:
        return
    s = ctx.stats
    need = {'impl_query:MolQuery': 300, 'impl_query:ReactionQuery': 50, 'impl_syntax': 1500, 'impl_reader': 400, 'impl_notimpl': 70}
    low = {k: s.get(k, 0) for k, v in need.items() if s.get(k, 0) < v // 2}     # under half of the recorded reach
    rules = len([k for k in s if k.startswith('impl_rule_')])
    if rules < 45:
        low['distinct rules in accepted ASTs'] = rules
    reach = ctx.extra.get('coverage', {}).get('implementation_reach', {})
    # statement counts per file are reported in the evidence only (a harmless refactor changes them)
    if low and not ctx.violations and not ctx.broken and not ctx.disagreements:
        raise common.MachineryError('generator reach fell below the floor: %r' % low)


LEVEL_TEXT = ('Lean 4 theorems for every text of any length and content: on a statically well-ranked grammar table the parser ends in '
              'accepted or a syntax error (never stuck, missing rule, hang or internal exception; termination is Lean\'s own check), '
              'every state keeps (line, col) = line/column of the stream index <= |text| so every reported error lies inside the text, '
              'accepted text is consumed to its last character, and Read(text) ends in a query, RINGSyntaxError, RINGReaderError or '
              'NotImplementedError (no other exception, no hang; the reader part via the child-kind tables of the rules the readers visit); '
              'well-rankedness, defined references, non-empty tokens and the child-kind tables are kernel-decided over both grammar '
              'dictionaries regenerated from the working tree on every run; '
              'the model is tied to the code by a correspondence run of outcome class, error position, expected-token set, AST and '
              'atom/bond/label counts. Right level: the quantifier is over all strings, which only a proof covers.')
LEVEL_NOTE = ('Trusted: Lean kernel; axioms propext/Classical.choice/Quot.sound; the grammar/character/element translators; the '
              'correspondence harness. Modelled not verified: Parser.py, Reader.py, MolQueryRead.py, ReactionQueryRead.py (outcome '
              'skeleton only: what constraints and query atoms mean is C08); RDKit enters through three re-validated assumptions '
              '(symbol table, query-atom attributes, AddBond preconditions). Outside the model: wall-clock time and the interpreter '
              'recursion limit (F29, known finding with a token-count bound).')
TECHNIQUE = 'Lean 4 proof over hand-written model + correspondence check + table translator'
