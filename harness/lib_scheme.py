"""Shared pieces of the scheme-level checks (C02, C03, C04): independent molecule normalisation, the driver input
for `PGA.Scheme.getDescriptors`, the declarative interpretation of a scheme (spec oracle), and the canonical
observation of the implementation."""
import collections, json, os, warnings
from fractions import Fraction
import contextlib
from rdkit import Chem
from . import common


# ----------------------------------------------------------------------------- live schemes and their pattern texts
_TEXT = {}          # id(MolQuery) -> (MolQuery, RING text it was read from)
_LIBS = None


def _install_text_recorder():
    """`GroupAdditivityScheme.Load` hands every `connectivity` text to `Read` and keeps only the query object.  The
    end-to-end model needs the text, so the name `Read` *as the Scheme module sees it* is wrapped: same call, same result,
    and the (query object, text) pair is remembered.  Nothing else of the load is touched."""
    import pgradd.GroupAdd.Scheme as M
    if getattr(M.Read, '_verif_recorder', False):
        return
    real = M.Read

    def Read(text, *a, **kw):
        q = real(text, *a, **kw)
        _TEXT[id(q)] = (q, text)
        return q
    Read._verif_recorder = True
    M.Read = Read


def load_schemes():
    """(library name, GroupLibrary) for every bundled library (live objects of $REPO), loaded with the text recorder on"""
    global _LIBS
    if _LIBS is None:
        warnings.filterwarnings('ignore')
        import pgradd.ThermoChem  # noqa
        from pgradd.GroupAdd.Library import GroupLibrary
        from .gen import libs
        _install_text_recorder()
        _LIBS = [(n, GroupLibrary.Load(n)) for n in libs.lib_names()]
    return _LIBS


def text_of(query):
    """the RING text a live query object of a loaded scheme was read from"""
    ent = _TEXT.get(id(query))
    if ent is None or ent[0] is not query:
        raise common.MachineryError('no recorded RING text for a scheme query object (scheme not loaded through lib_scheme.load_schemes?)')
    return ent[1]


# ----------------------------------------------------------------------------- independent normalisation
def sanitize_like_repo(mol):
    """Every sanitisation step except aromaticity perception, requested from RDKit one by one in the order the string
    branch of GetDescriptors requests them (the order matters to RDKit for exotic inputs — e.g. radical perception on an
    aromatic atom carrying a zero-order bond — so it is part of what "the molecule RDKit reports" means, assumption A-graph)."""
    F = Chem.rdmolops.SanitizeFlags
    for op in (F.SANITIZE_ADJUSTHS, F.SANITIZE_CLEANUP, F.SANITIZE_CLEANUPCHIRALITY, F.SANITIZE_FINDRADICALS,
               F.SANITIZE_KEKULIZE, F.SANITIZE_PROPERTIES, F.SANITIZE_SETCONJUGATION, F.SANITIZE_SETHYBRIDIZATION,
               F.SANITIZE_SYMMRINGS):
        Chem.SanitizeMol(mol, sanitizeOps=op)


def benson_aromatize(mol):
    """Ring by ring, in RDKit's SSSR order: a six-membered all-carbon ring whose bonds alternate single/double (either
    phase, as the bond types stand when the ring is visited) becomes aromatic (atoms flagged, bonds AROMATIC)."""
    for ring in Chem.GetSymmSSSR(mol):
        ring = list(ring)
        if len(ring) != 6:
            continue
        if any(mol.GetAtomWithIdx(i).GetSymbol() != 'C' for i in ring):
            continue
        kinds = [str(mol.GetBondBetweenAtoms(ring[k], ring[(k + 1) % 6]).GetBondType()) for k in range(6)]
        if kinds not in (['SINGLE', 'DOUBLE'] * 3, ['DOUBLE', 'SINGLE'] * 3):
            continue
        for k in range(6):
            mol.GetAtomWithIdx(ring[k]).SetIsAromatic(True)
            b = mol.GetBondBetweenAtoms(ring[k], ring[(k + 1) % 6])
            b.SetIsAromatic(True)
            b.SetIsConjugated(True)
            b.SetBondType(Chem.BondType.AROMATIC)


_RDKIT_DEFAULT = {}


@contextlib.contextmanager
def rdkit_defaults():
    """RDKit's process-wide switches as a fresh interpreter has them (asked of one, once), for the oracle's own parsing:
    the molecule a SMILES text denotes is what RDKit reports by default, whatever the package under test set globally"""
    if 'legacy_stereo' not in _RDKIT_DEFAULT:
        import subprocess, sys
        r = subprocess.run([sys.executable, '-c', 'from rdkit import Chem; print(int(Chem.GetUseLegacyStereoPerception()))'],
                           capture_output=True, text=True, env={k: v for k, v in os.environ.items() if k != 'PYTHONPATH'})
        _RDKIT_DEFAULT['legacy_stereo'] = (r.stdout.strip() != '0')
    now = Chem.GetUseLegacyStereoPerception()
    Chem.SetUseLegacyStereoPerception(_RDKIT_DEFAULT['legacy_stereo'])
    try:
        yield
    finally:
        Chem.SetUseLegacyStereoPerception(now)


def prepare(x, aromatize=True):
    with rdkit_defaults():
        return _prepare(x, aromatize)


def _prepare(x, aromatize=True):
    """The molecule the properties talk about: explicit-H Kekulé graph with weak bonds as ZERO and (aromatize=True) Benson
    C6 rings aromatic.  Computed with RDKit only.  Returns None when RDKit cannot parse the SMILES.
    aromatize=False: the *raw* graph the Lean model `aromatizeBenson`/`decompose` starts from — the Python perception below
    is not run, only RDKit's ring perception the code calls (`GetSymmSSSR`), so that the ring list is the one the code visits."""
    if isinstance(x, str):
        mol = Chem.MolFromSmiles(x)
        if mol is None:
            return None
        try:
            sanitize_like_repo(mol)
        except Exception as e:
            # RDKit accepts the text as a whole but refuses one of the steps when they are requested one by one (seen:
            # KekulizeException on exotic aromatic radicals): there is no "molecule RDKit reports" for this text in the
            # order GetDescriptors asks, so it is outside the domain (A-graph), like a text RDKit cannot parse
            if type(e).__module__.startswith('rdkit'):
                return None
            raise
    else:
        mol = Chem.Mol(x)
    mol = Chem.AddHs(mol)
    Chem.Kekulize(mol)
    for b in mol.GetBonds():
        if str(b.GetBondType()) == 'UNSPECIFIED':
            b.SetBondType(Chem.BondType.ZERO)
    if aromatize:
        benson_aromatize(mol)
    else:
        Chem.GetSymmSSSR(mol)
    return mol


def raw_graph(x):
    """JSON graph (`lib_mol.mol_to_json`) of the normalised, NOT yet Benson-aromatised molecule, with the A-graph facts the
    end-to-end model relies on re-checked: stability and consistency of the ring information (`lib_mol.check_graph`), the
    ring list being exactly what `Chem.GetSymmSSSR` returns (the list `_aromatization_Benson` iterates), and the neighbour
    order of every atom being its bond order.  None when RDKit cannot parse the input or the graph has a feature the model
    does not represent."""
    from . import lib_mol
    mol = prepare(x, aromatize=False)
    if mol is None:
        return None
    try:
        g = lib_mol.mol_to_json(mol)
    except lib_mol.UnsupportedGraph:
        return None
    bad = lib_mol.check_graph(mol, g)
    if [list(r) for r in Chem.GetSymmSSSR(mol)] != g['rings']:
        bad.append('AtomRings() differs from GetSymmSSSR()')
    if lib_mol.mol_to_json(mol) != g:
        bad.append('GetSymmSSSR() is not idempotent on the ring information')
    for a in mol.GetAtoms():
        i = a.GetIdx()
        if [n.GetIdx() for n in a.GetNeighbors()] != [b.GetOtherAtomIdx(i) for b in a.GetBonds()]:
            bad.append('GetNeighbors order != GetBonds order at %d' % i)
    if bad:
        raise common.MachineryError('A-graph check failed for %r: %s' % (x if isinstance(x, str) else Chem.MolToSmiles(x), bad[:3]))
    return g


def graph_key(x):
    """What molecule RDKit itself takes an input to be: its canonical SMILES after standard parsing/sanitisation plus the
    multiset of (element, charge, radical electrons, H count).  Two inputs denote the same molecule *for RDKit* exactly when
    these agree (assumption A-graph is checked, not assumed: exotic inputs — e.g. an aromatic atom carrying a zero-order
    bond — are perceived differently in Kekulé and aromatic spelling, and are then not equivalent inputs).  Independent of
    the Kekulé form."""
    try:
        if isinstance(x, str):
            mol = Chem.MolFromSmiles(x)
            if mol is None:
                return None
        else:
            mol = Chem.Mol(x)
            Chem.SanitizeMol(mol)
        inv = sorted((a.GetSymbol(), a.GetFormalCharge(), a.GetNumRadicalElectrons(), a.GetTotalNumHs()) for a in mol.GetAtoms())
        return Chem.MolToSmiles(mol), tuple(inv)
    except Exception:
        return None


# ----------------------------------------------------------------------------- implementation, canonically observed
def impl_descriptors(lib, x):
    """{'ok': {name: count}} | {'err': 'patternMatch'} | {'err': 'internal:<Type>'}"""
    from pgradd.Error import PatternMatchError
    try:
        with warnings.catch_warnings():
            warnings.simplefilter('ignore')
            d = lib.GetDescriptors(x)
        return {'ok': {str(k): v for k, v in d.items()}}
    except PatternMatchError:
        return {'err': 'patternMatch'}
    except Exception as e:
        return {'err': 'internal:' + type(e).__name__}


def impl_atoms(lib):
    """per-atom (centre, peripheral, group name) of the last decomposition (guarded hook)"""
    m = getattr(lib.scheme, '_verif_last_mol', None)
    if m is None:
        return None
    out = []
    for a in m.GetAtoms():
        out.append([a.GetProp('Group_Center_Name') if a.HasProp('Group_Center_Name') else None,
                    a.GetProp('Group_Periph_Name') if a.HasProp('Group_Periph_Name') else None,
                    a.GetProp('Group_name') if a.HasProp('Group_name') else None])
    return out


# ----------------------------------------------------------------------------- driver input
def matches_of(query, mol):
    return [list(m) for m in query.GetQueryMatches(mol)]


def scheme_input(scheme, mol, matcher=matches_of):
    """JSON input of `c02.descriptors`: the graph's adjacency, the match lists of every pattern, the remap table"""
    n = mol.GetNumAtoms()
    nbrs = [[b.GetIdx() for b in mol.GetAtomWithIdx(i).GetNeighbors()] for i in range(n)]
    centres = [{'center': str(p['center_name']), 'periph': str(p['periph_name']), 'ms': matcher(p['connectivity'], mol)}
               for p in scheme.patterns]
    descs = [{'name': str(d['name']), 'ms': matcher(d['connectivity'], mol)} for d in scheme.other_descriptors]
    remaps = [{'key': str(k), 'targets': [{'coef': common.jrat(common.frac_of_float(t[0])), 'name': str(t[1])} for t in v]}
              for k, v in scheme.remaps.items()]
    return {'op': 'c02.descriptors', 'n': n, 'nbrs': nbrs, 'centres': centres, 'descs': descs, 'remaps': remaps}


_SJ = {}


def remaps_json(scheme):
    return [{'key': str(k), 'targets': [{'coef': common.jrat(common.frac_of_float(t[0])), 'name': str(t[1])} for t in v]}
            for k, v in scheme.remaps.items()]


def scheme_json(scheme):
    """The scheme as the end-to-end model takes it: entries (names, order) from the live scheme object, each `connectivity`
    as the parse tree the implementation's own parser makes of the recorded text, the remap table."""
    from . import lib_ast
    key = id(scheme)
    ent = _SJ.get(key)
    if ent is not None and ent[0] is scheme:
        return ent[1]
    trees = {}

    def tree(q):
        t = text_of(q)
        if t not in trees:
            trees[t] = lib_ast.parse_to_json(t)
        return trees[t]
    j = {'centres': [{'center': str(p['center_name']), 'periph': str(p['periph_name']), 'ast': tree(p['connectivity'])}
                     for p in scheme.patterns],
         'descs': [{'name': str(d['name']), 'ast': tree(d['connectivity'])} for d in scheme.other_descriptors],
         'remaps': remaps_json(scheme)}
    _SJ[key] = (scheme, j)
    return j


def full_request(scheme, graphs):
    """one `c02.full_batch` request: the scheme once, the raw graphs of a batch of molecules"""
    return {'op': 'c02.full_batch', 'scheme': scheme_json(scheme), 'mols': graphs}


# ----------------------------------------------------------------------------- patterns as sets of embeddings (independent of the implementation's reader and matcher)
def _kids(t, name=None):
    if not isinstance(t, dict) or (name is not None and t['n'] != name):
        raise common.MachineryError('unexpected parse-tree node %r (wanted %s)' % (t if not isinstance(t, dict) else t['n'], name))
    return t['c']


def _leaf(t, name):
    c = _kids(t, name)
    if len(c) != 1 or not isinstance(c[0], str):
        raise common.MachineryError('unexpected leaf under %s' % name)
    return c[0]


def _atomtype(t):
    out = {'prefix': None, 'suffix': None}
    for c in _kids(t, 'AtomType'):
        if c['n'] == 'AtomPrefix':
            out['prefix'] = _leaf(c, 'AtomPrefix')
        elif c['n'] == 'Symbols':
            out['sym'] = _leaf(c, 'Symbols')
        elif c['n'] == 'AtomSuffix':
            out['suffix'] = _leaf(c, 'AtomSuffix')
        else:
            raise common.MachineryError('AtomType child %s' % c['n'])
    return out


def _unchain(cs, chain):
    out = []
    while True:
        out.append(cs[0])
        if len(cs) == 1:
            return out
        cs = _kids(cs[1], chain)


def _cn(t):
    c = _kids(t, 'ConstraintNumber')
    return (c[0], int(c[1])) if len(c) == 2 else (None, int(c[0]))


def _cons(t):
    (c,) = _kids(t, 'AtomConstraints')
    kids = list(c['c'])
    neg = False
    if kids and isinstance(kids[0], dict) and kids[0]['n'] == 'Boolean':
        if _leaf(kids[0], 'Boolean') != '!':
            raise common.MachineryError('Boolean other than !')
        neg = True
        kids = kids[1:]
    if c['n'] == 'AtomConstraintConnectivity':
        cn = None
        if kids[0]['n'] == 'ConstraintNumber':
            cn = _cn(kids[0])
            kids = kids[1:]
        t_ = _atomtype(kids[0])
        bw = _leaf(kids[1], 'BondType') if len(kids) > 1 else None
        return ('conn', neg, cn, t_, bw)
    kind = {'AtomConstraintRing': 'ringsize', 'AtomConstraintRadical': 'radical', 'AtomConstraintNRing': 'nring'}[c['n']]
    return (kind, neg, _cn(kids[0]))


def _chain(rest):
    if not rest:
        return []
    return [_cons(x) for x in _unchain(_kids(rest[0], 'AtomConstraintChain'), 'AtomConstraintChain')]


def frag_of_ast(t):
    """parse tree of a fragment -> the structured fragment `lib_embeds` works on (`lib_ringgen_c08`'s form).  Only decodes the
    tree's shape (which child is which); what the words mean is `lib_embeds`' business."""
    if t['n'] == 'RINGInput':
        (t,) = t['c']
    pre, name, mq = _kids(t, 'Fragment')
    frag = {'molprefix': list(_kids(pre, 'Prefix')), 'name': name['c'][0], 'items': []}
    mq = _kids(mq, 'MolQuery')
    a0 = _kids(mq[0], 'Atom')
    at = _atomtype(a0[0])
    at.update(label=_leaf(a0[1], 'AtomLabel'), chain=_chain(a0[2:]), bond=None)
    frag['items'].append(('atom', at))
    for it in (_unchain(_kids(mq[1], 'AtomChain'), 'AtomChain') if len(mq) > 1 else []):
        c = it['c']
        if it['n'] == 'BondedAtom':
            at = _atomtype(c[0])
            at.update(label=_leaf(c[1], 'AtomLabel'), bond=(_leaf(c[2], 'BondType'), _leaf(c[3], 'AtomLabel')), chain=_chain(c[4:]))
            frag['items'].append(('atom', at))
        elif it['n'] == 'RingBond':
            frag['items'].append(('ringbond', _leaf(c[0], 'AtomLabel'), _leaf(c[1], 'BondType'), _leaf(c[2], 'AtomLabel')))
        elif it['n'] == 'StereoDoubleBond':
            l1 = _leaf(c[0], 'AtomLabel')
            rest = c[1:]
            neg = False
            if rest[0]['n'] == 'Boolean':
                neg = True
                rest = rest[1:]
            frag['items'].append(('stereo', l1, neg, _leaf(rest[0], 'DoubleBondStereoType'), _leaf(rest[1], 'AtomLabel'),
                                  _leaf(rest[2], 'AtomLabel'), _leaf(rest[3], 'AtomLabel')))
        else:
            raise common.MachineryError('AtomChain item %s' % it['n'])
    return frag


_FRAG = {}


def embed_matcher(graph):
    """a `matcher` for `scheme_input`: the matches of a pattern are the embeddings its text denotes in `graph`
    (`lib_embeds`, written from the property text of C08) — neither the implementation's reader, nor its matcher, nor RDKit's."""
    from . import lib_ast, lib_embeds
    G = lib_embeds.Graph(graph)

    def matcher(query, mol):
        text = text_of(query)
        if text not in _FRAG:
            _FRAG[text] = frag_of_ast(lib_ast.parse_to_json(text))
        r = lib_embeds.embeddings(_FRAG[text], graph, G=G)
        if isinstance(r, tuple) and r and r[0] == 'error':
            raise common.MachineryError('a shipped pattern is unreadable for the oracle: %r' % text)
        return [list(f) for f in r]
    return matcher


def declared_full(scheme, x):
    """The declared decomposition of input `x` with every pattern read as the set of its embeddings, on the graph normalised
    and Benson-aromatised by the harness: independent of the implementation's normalisation, perception, reader and matcher
    (it shares the implementation's *parser*, which is C09's subject).  None when RDKit cannot parse the input."""
    from . import lib_mol
    mol = prepare(x)
    if mol is None:
        return None
    try:
        g = lib_mol.mol_to_json(mol)
    except lib_mol.UnsupportedGraph:
        return None
    return declared(scheme_input(scheme, mol, embed_matcher(g)))


# ----------------------------------------------------------------------------- the declarative interpretation (spec oracle)
def canon_name(csg, psgs):
    c = collections.Counter(psgs)
    return csg + ''.join('(%s)' % k if c[k] == 1 else '(%s)%d' % (k, c[k]) for k in sorted(c))


def declared(inp, parts=False):
    """What the scheme file declares for this molecule, written from the property text (no loop of the implementation):
    each atom is classified by the one centre pattern matching it; each atom with a named centre contributes the group of its
    centre name and the multiset of its neighbours' peripheral names; each correction descriptor counts once per distinct set
    of matched atoms; remaps are linear substitutions.  Returns {'ok': {name: Fraction}} | {'err': 'patternMatch'}."""
    n = inp['n']
    cls = [[] for _ in range(n)]
    for k, p in enumerate(inp['centres']):
        for a in {m[0] for m in p['ms'] if m}:
            cls[a].append(k)
    if any(len(c) != 1 for c in cls):
        return {'err': 'patternMatch'}
    centre = [inp['centres'][c[0]]['center'] for c in cls]
    periph = [inp['centres'][c[0]]['periph'] for c in cls]
    groups = collections.Counter()
    for a in range(n):
        if centre[a] != 'none':
            groups[canon_name(centre[a], [periph[b] for b in inp['nbrs'][a] if periph[b] != 'none'])] += 1
    descs = collections.Counter()
    for d in inp['descs']:
        k = len({frozenset(m) for m in d['ms']})
        if k:
            descs[d['name']] += k
    table = {r['key']: [(common.unjrat(t['coef']), t['name']) for t in r['targets']] for r in inp['remaps']}

    def subst(cnt):
        out = collections.defaultdict(Fraction)
        for name, c in cnt.items():
            if name in table:
                for coef, t in table[name]:
                    out[t] += c * coef
            else:
                out[name] += c
        return out
    g, d = subst(groups), subst(descs)
    if parts:
        return {'ok': (dict(g), dict(d))}
    res = dict(g)
    res.update(d)       # a correction descriptor named like a group replaces it (the mapping is a dict)
    return {'ok': {k: Fraction(v) for k, v in res.items()}}


def same_counts(a, b, tol=1e-9):
    """two name->count maps equal (counts numerically within tol relative)"""
    if set(a) != set(b):
        return False
    return all(abs(float(a[k]) - float(b[k])) <= tol * (1 + abs(float(b[k]))) for k in a)


def add_counts(a, b):
    out = collections.defaultdict(float)
    for d in (a, b):
        for k, v in d.items():
            out[k] += v
    return dict(out)


# ----------------------------------------------------------------------------- second correspondence: end to end from the raw graph
def hook_graph(lib):
    """aromatic flags and bond kinds of the molecule the implementation annotated in its last successful decomposition
    (guarded hook): what `_aromatization_Benson` made of the input, as the implementation itself saw it"""
    from . import lib_mol
    m = getattr(lib.scheme, '_verif_last_mol', None)
    if m is None:
        return None
    try:
        g = lib_mol.mol_to_json(m)
    except lib_mol.UnsupportedGraph:
        return None
    return {'arom': [a[3] for a in g['atoms']], 'kinds': [b[2] for b in g['bonds']]}


class FullTie(object):
    """`GetDescriptors(x)` vs the end-to-end Lean model `PGA.Decompose.decompose` (driver op `c02.full_batch`): the model gets
    the raw graph (normalised by the harness with RDKit, NOT aromatised), the parse trees of the scheme's pattern texts and
    the remap table; it aromatises, reads, matches and decomposes itself.  Molecules are batched per scheme object (the
    scheme travels once per request).  Compared: descriptors or failure, per-atom centre/peripheral/group names, and the
    aromatised graph (flags, bond kinds) against the molecule the implementation annotated."""
    CAP = 10000

    def __init__(self, ctx, max_atoms=None, max_cases=None):
        self.ctx = ctx
        self.by = collections.OrderedDict()
        self.max_atoms = max_atoms
        self.max_cases = max_cases
        self.n = 0
        self.flags = []

    def add(self, lib, x, impl, where, atoms=None, hook=None):
        ctx = self.ctx
        if self.max_cases is not None and self.n >= self.max_cases:
            ctx.count('full_not_run_budget')
            return
        g = raw_graph(x)
        if g is None:
            ctx.count('full_no_graph')
            return
        if self.max_atoms is not None and len(g['atoms']) > self.max_atoms:
            ctx.count('full_skipped_over_%d_atoms' % self.max_atoms)
            return
        self.n += 1
        self.by.setdefault(id(lib.scheme), [lib.scheme, []])[1].append((g, impl, where, atoms, hook))

    def run(self):
        ctx = self.ctx
        groups = list(self.by.values())
        self.by = collections.OrderedDict()
        self.n = 0
        if not groups:
            return
        replies = ctx.model([full_request(s, [c[0] for c in cases]) for s, cases in groups])
        if replies is None:
            return
        for (s, cases), rep in zip(groups, replies):
            if 'loaderr' in rep:
                ctx.disagree('corr:c02.full', cases[0][2], 'scheme loaded', rep)
                continue
            # hypotheses of the composition theorems, observed on every scheme sent: queries well-formed, no `*` suffix,
            # no molecule-level prefix (the last one is what C04_decompose_union needs; a table observation for the shipped schemes)
            for flag in ('schemewf', 'nostar', 'nomolprefix', 'connected'):
                ctx.count('scheme_%s_%s' % (flag, 'yes' if rep.get(flag) else 'NO'))
            if not rep.get('schemewf') or not rep.get('connected'):
                raise common.MachineryError('the model reader returned an ill-formed or disconnected query for a scheme pattern '
                                            '(contradicts C02_load_wf / C04_load_connected)')
            self.flags.append({k: bool(rep.get(k)) for k in ('nostar', 'nomolprefix')})
            table = {str(k): str(v[0][1]) for k, v in s.remaps.items() if v}
            for (g, impl, where, atoms, hook), r in zip(cases, rep['res']):
                ctx.count('corr_c02.full')
                ctx.count('full_atoms_%03d' % (10 * (len(g['atoms']) // 10)))
                if not (r['wf'] and r['bonded']):
                    raise common.MachineryError('A-graph: the model finds the extracted graph ill-formed (wf=%s, rings bonded=%s) for %r'
                                                % (r['wf'], r['bonded'], where))
                if r['maxraw'] >= self.CAP:
                    ctx.count('full_cap_reached')      # which 10 000 candidates RDKit keeps is not modelled (F30)
                    continue
                ctx.count('full_cap_inactive')
                self.maxraw = max(getattr(self, 'maxraw', 0), r['maxraw'])
                if 'err' in r or 'err' in impl:
                    if r.get('err') != impl.get('err'):
                        ctx.disagree('corr:c02.full', where, impl, {k: r[k] for k in ('ok', 'err') if k in r})
                    continue
                model = {k: common.unjrat(v) for k, v in r['ok']}
                if not same_counts(impl['ok'], model):
                    ctx.disagree('corr:c02.full', where, impl['ok'], {k: float(v) for k, v in model.items()})
                    continue
                if atoms is not None and r['atoms'] is not None and len(atoms) == len(r['atoms']):
                    ma = [[c, p, table.get(gn, gn)] for c, p, gn in r['atoms']]
                    if ma != atoms:
                        bad = [i for i in range(len(ma)) if ma[i] != atoms[i]][:3]
                        ctx.disagree('corr:c02.full.atoms', dict(where, atoms=bad), [atoms[i] for i in bad], [ma[i] for i in bad])
                    ctx.count('corr_c02.full.atoms')
                if hook is not None and len(hook['arom']) == len(r['arom']):
                    if hook['arom'] != r['arom'] or hook['kinds'] != r['kinds']:
                        ctx.disagree('corr:c02.full.aromatize', where, hook, {'arom': r['arom'], 'kinds': r['kinds']})
                    ctx.count('corr_c02.full.aromatize')
                    if any(r['arom']):
                        ctx.count('corr_c02.full.aromatize_with_aromatic_ring')


# ----------------------------------------------------------------------------- A-graph for mixtures (C04)
def mixture_is_union(parts):
    """Is RDKit's raw graph of the mixture 'A.B[.C…]' the disjoint union of the parts' raw graphs (`Mol.union`, atoms of each
    part after those of the previous ones) renumbered by an explicit permutation π — the hypothesis `MolIso π (A ⊔ B) M` of
    `C04_decompose_mixture`?  π is fixed by how RDKit builds the molecule (heavy atoms of all parts first, in order, then the
    hydrogens `AddHs` appends, part by part).  Checked: atoms at π(i) identical; bonds identical as a multiset with the same
    begin/end atoms (any order); rings renamed **in the same order**.  Returns (ok, detail); None when a graph is unavailable."""
    gs = [raw_graph(p) for p in parts]
    gm = raw_graph('.'.join(parts))
    if gm is None or any(g is None for g in gs):
        return None
    heavy = []
    for p in parts:
        m = Chem.MolFromSmiles(p)
        heavy.append(m.GetNumAtoms())
    ns = [len(g['atoms']) for g in gs]
    tot_heavy = sum(heavy)
    pi, off = [], 0
    h_before = 0      # hydrogens of earlier parts
    hv_before = 0     # heavy atoms of earlier parts
    for g, n, hv in zip(gs, ns, heavy):
        for k in range(n):
            pi.append(hv_before + k if k < hv else tot_heavy + h_before + (k - hv))
        hv_before += hv
        h_before += n - hv
    if sorted(pi) != list(range(len(gm['atoms']))):
        return False, 'pi is not a permutation of the mixture atoms'
    atoms = [None] * len(pi)
    bonds, rings, off = [], [], 0
    for g, n in zip(gs, ns):
        for k, a in enumerate(g['atoms']):
            atoms[pi[off + k]] = a
        bonds += [[pi[b[0] + off], pi[b[1] + off], b[2], b[3], b[4], [pi[s + off] for s in b[5]]] for b in g['bonds']]
        rings += [[pi[x + off] for x in r] for r in g['rings']]
        off += n
    if atoms != gm['atoms']:
        return False, 'atoms differ'
    if rings != gm['rings']:
        return False, 'rings differ (as an ordered list)'
    key = json.dumps
    if sorted(map(key, bonds)) != sorted(map(key, gm['bonds'])):
        return False, 'bonds differ (as a multiset with orientation)'
    return True, 'same bond order' if bonds == gm['bonds'] else 'bond order differs'


# ----------------------------------------------------------------------------- A-graph for renumbered molecules (C03)
def renumbering_relation(rng, smi):
    """How RDKit's raw graph of a molecule relates to the raw graph of the same molecule object with its heavy atoms renumbered
    at random (`Chem.RenumberAtoms`): with π the renumbering extended to the hydrogens (k-th hydrogen of a heavy atom ↦ k-th
    hydrogen of its image), are the atoms at π(i) identical, the bonds identical as a multiset (begin/end and stereo reference
    atoms included), the rings identical as an ordered list / up to rotation-reflection of each ring / as a set?  This is where
    `MolIso` (C03_decompose_relabel), `RingEquiv` (C03_aromatize_rotation_reflection) and the ring-order theorem literally
    apply.  Returns a short class name, or None."""
    m = Chem.MolFromSmiles(smi)
    if m is None or m.GetNumAtoms() < 2:
        return None
    n = m.GetNumAtoms()
    order = list(range(n))
    rng.shuffle(order)
    m2 = Chem.RenumberAtoms(m, order)
    g1, g2 = raw_graph(m), raw_graph(m2)
    if g1 is None or g2 is None or any(a[0] == 1 for a in g1['atoms'][:n]):
        return None
    pos = {old: new for new, old in enumerate(order)}

    def hyd(g):
        d = collections.defaultdict(list)
        for b in g['bonds']:
            for x, y in ((b[0], b[1]), (b[1], b[0])):
                if x < n and y >= n:
                    d[x].append(y)
        return d
    h1, h2 = hyd(g1), hyd(g2)
    pi = {}
    for a in range(n):
        pi[a] = pos[a]
        if len(h1[a]) != len(h2[pos[a]]):
            return 'other'
        for u, v in zip(h1[a], h2[pos[a]]):
            pi[u] = v
    N = len(g1['atoms'])
    if len(pi) != N or len(g2['atoms']) != N:
        return 'other'
    atoms = [None] * N
    for k, a in enumerate(g1['atoms']):
        atoms[pi[k]] = a
    if atoms != g2['atoms']:
        return 'other'
    bonds = [[pi[b[0]], pi[b[1]], b[2], b[3], b[4], [pi[s] for s in b[5]]] for b in g1['bonds']]
    if sorted(map(json.dumps, bonds)) != sorted(map(json.dumps, g2['bonds'])):
        return 'bonds_differ(stereo_reference_atoms_or_orientation)'
    rings = [[pi[x] for x in r] for r in g1['rings']]
    if rings == g2['rings']:
        return 'MolIso'

    def norm(r):
        rots = [tuple(r[i:] + r[:i]) for i in range(len(r))] + [tuple(r[::-1][i:] + r[::-1][:i]) for i in range(len(r))]
        return min(rots)
    if [norm(r) for r in rings] == [norm(r) for r in g2['rings']]:
        return 'MolIso_up_to_ring_rotation'
    if sorted(norm(r) for r in rings) == sorted(norm(r) for r in g2['rings']):
        return 'MolIso_up_to_ring_rotation_and_order'
    return 'other'


# ----------------------------------------------------------------------------- remap chains: from a broken obligation to a molecule
def remap_chains(scheme):
    """(key, target) pairs of the live remap table whose target is itself a key: the theorems' ChainFree hypothesis fails"""
    keys = set(str(k) for k in scheme.remaps)
    return [(str(k), str(t[1])) for k, v in scheme.remaps.items() for t in v if str(t[1]) in keys and str(t[1]) != str(k)]


def group_reach(lib, molecules):
    """pre-remap name (group or correction descriptor) -> a molecule of `molecules` whose decomposition contains it"""
    out = {}
    for smi in molecules:
        m = prepare(smi)
        if m is None or m.GetNumAtoms() > 80:
            continue
        try:
            d = declared(dict(scheme_input(lib.scheme, m), remaps=[]), parts=True)
        except Exception:
            continue
        if 'ok' in d:
            for part in d['ok']:
                for name in part:
                    out.setdefault(name, smi)
    return out


def chain_witnesses(lib, molecules):
    """For every chain key -> target of the live remap table: mixtures 'A.B' and 'B.A' of a molecule containing the key's group
    and one containing the target's group (the one-pass remap loop then depends on which group is met first).  Returns a list of
    (key, target, 'A.B', 'B.A', A, B); empty when the table is chain-free or no molecule of the pool reaches both names."""
    chains = remap_chains(lib.scheme)
    if not chains:
        return []
    reach = group_reach(lib, molecules)
    out = []
    for k, t in chains:
        if k in reach and t in reach:
            a, b = reach[k], reach[t]
            out.append((k, t, a + '.' + b, b + '.' + a, a, b))
    return out


def chain_free_hypothesis(ctx, libs_, on_witness):
    """ChainFree is a hypothesis of the scheme-layer theorems about the LIVE remap tables: check it on every loaded scheme.  Where
    it fails, build mixtures in which the chain shows (`chain_witnesses` over the covering molecule set) and hand them to
    `on_witness(name, lib, key, target, 'A.B', 'B.A', A, B)`, which runs the property's own oracle on them; if that reports
    nothing, the broken hypothesis is reported without a failing input."""
    from .lib_molcover import COVER_GAS, COVER_SURFACE
    from . import lib_molgen as G
    for name, lib in libs_:
        chains = remap_chains(lib.scheme)
        ctx.count('remap_tables_checked_chain_free')
        if not chains:
            continue
        before = len(ctx.violations)
        gas = name in ('BensonGA', 'PPY')
        pool = list(COVER_GAS) + list(G.FIXED_GAS) if gas else list(COVER_SURFACE) + list(COVER_GAS) + list(G.FIXED_SURFACE)
        pool += ['C[C]=CC', 'CC=[C]C', 'C=CC', 'CC(=O)C#C', 'CC(=O)C=C', 'C[CH]C', 'CC#C', 'Cc1ccccc1']
        for k, t, ab, ba, a, b in chain_witnesses(lib, pool):
            on_witness(name, lib, k, t, ab, ba, a, b)
        if len(ctx.violations) == before:
            ctx.broken.append({'kind': 'hypothesis', 'name': 'ChainFree(%s.remaps)' % name,
                               'detail': 'remap targets that are themselves remapped: %r' % (chains[:4],)})
