"""C17 — a generated reaction network is the duplicate-free closure of its seeds.

Proof: lean/PGA/Props/C17.lean (model PGA/Model/Net.lean of the work-list loop of
pgradd/RDkitWrapper/GenRxnNet.py, parametric in the one-step successor function).
Tie: the successor graph is *recorded from the real calls* (`RunReactants` of RDKit reactions / RING
`ReactionQuery` objects, wrapped so that every call of the loop is seen), keyed by the canonical SMILES of the
explicit-hydrogen molecule, and handed to the compiled model; the returned list is compared with the model's as a
sequence and as a multiset of keys.
Property oracle: an independent breadth-first closure computed here with the same rule objects' `RunReactants`,
an independently written radical treatment and over-valence filter; the implementation's list must contain every
seed, equal that closure as a set, list nothing twice, and return within the alarm whenever the closure is finite.
"""
import collections, json, itertools
from . import common

PROPS = ['PGA.Props.C17']
GEN = []
OBLIGATIONS = ['PGA.Net.' + t for t in [
    'C17_seeds_in', 'C17_closed', 'C17_only_reachable', 'C17_complete', 'C17_nodup', 'C17_is_closure',
    'C17_terminates', 'C17_generates_closure', 'C17_terminates_of_finite', 'C17_fuel_irrelevant', 'C17_fuel_exact',
    'C17_inner_dedup_redundant', 'C17_empty_error', 'C17_nonunary_error',
    'C17_unrepaired_witness', 'C17_unrepaired_not_nodup', 'C17_repaired_witness']]
RULE = ('case = (seed list of 1-2 small molecules/radicals given as SMILES or Mol, rule list of 1-4 rules drawn from a pool of '
        'bond-scission / dehydrogenation / H-shift / bond-order rules as reaction SMARTS, RDKit reaction objects, or RING rule '
        'texts once the reader accepts them); a fixed list of designed cases (the docstring example, propane, alcohols, '
        'over-valence producing rules, two seeds where one produces the other) plus random draws. A case is non-trivial when '
        'its closure has >= 3 species; distinct = distinct (sorted seed keys, rule texts in order). Closures above the cap '
        'are skipped and counted.')
ASSUMPTIONS = [
    'A-canon: the canonical SMILES of the explicit-hydrogen molecule is a complete isomorphism invariant on the species met, and the '
    "code's sameness test (equal atom count and a full-size substructure match) coincides with key equality — re-validated on "
    'pairs of every closure on every run',
    'A-graph/succ: the products of RunReactants on a species depend on the species only up to their order (checked: the graph '
    'recorded from the implementation and the graph of the independent closure agree as multisets per species and rule)',
    'seeds pairwise distinct as species (the loop never compares seeds with each other; duplicate seeds are exercised for the tie '
    'only and are listed twice by model and code alike)',
    'rules are unimolecular (the property); other arities are modelled as the TypeError/ValueError they raise',
]
TRUSTED = ['modelled, not verified: the work-list loop of GenerateRxnNet (pgradd/RDkitWrapper/GenRxnNet.py 46-155)',
           'parameter, not modelled: RunReactants of RDKit ChemicalReaction / pgradd ReactionQuery, RDKit valence and radical '
           'perception, SMILES parsing and the final RemoveHs ("prettify") — observed through the canonical key',
           'species equality is modelled as equality of a canonical key (assumption A-canon, re-validated on every run)']

CAP = 220          # closure-size cap (species)
ALARM = 10.0       # seconds per GenerateRxnNet call

SEEDS = ['C', 'CC', 'CCC', 'C=C', 'CO', 'CCO', 'C=O', '[CH3]', '[CH2]C', '[OH]', 'C[O]', '[CH2]', 'C#C', 'O', '[H][H]',
         'OO', 'CC=O', 'C=CC', 'C1CC1', 'COC', 'N', 'CN', '[CH2]O', '[CH]=C', 'C=C=C', 'OCO', '[H]', 'C-C', 'OC',
         '[CH3][CH3]', 'CCCC', 'CC(C)C', 'OCCO', 'NCC', 'C(=O)O',
         # elements whose highest listed valence exceeds the default valence (S, P): the valence filter must use the default
         'CS', 'CSC', 'S', 'CP', 'CCS']
SMARTS = {
    'CH-sc': '[C:1][H:2]>>[C:1].[H:2]',
    'CC-sc': '[C:1][C:2]>>[C:1].[C:2]',
    'OH-sc': '[O:1][H:2]>>[O:1].[H:2]',
    'CO-sc': '[C:1][O:2]>>[C:1].[O:2]',
    'NH-sc': '[N:1][H:2]>>[N:1].[H:2]',
    'CN-sc': '[C:1][N:2]>>[C:1].[N:2]',
    'XH-sc': '[*:1][H:2]>>[*:1].[H:2]',
    'XY-sc': '[!#1:1]-[!#1:2]>>[*:1].[*:2]',
    'any-sc': '[*:1]-[*:2]>>[*:1].[*:2]',
    'C=C-dn': '[C:1]=[C:2]>>[C:1][C:2]',
    'C#C-dn': '[C:1]#[C:2]>>[C:1]=[C:2]',
    'C=O-dn': '[C:1]=[O:2]>>[C:1][O:2]',
    'CC-up': '[C:1][C:2]>>[C:1]=[C:2]',          # over-valent on saturated carbons: exercises the valence filter
    'CO-up': '[C:1][O:2]>>[C:1]=[O:2]',
    'C=C-up': '[C:1]=[C:2]>>[C:1]#[C:2]',
    'rad-up': '[C;v3:1][C;v3:2]>>[C:1]=[C:2]',
    'deH2': '[H:1][C:2][C:3][H:4]>>[C:2]=[C:3].[H:1][H:4]',
    'deH2-CO': '[H:1][C:2][O:3][H:4]>>[C:2]=[O:3].[H:1][H:4]',
    'H-shift': '[H:3][C:1][C;v3:2]>>[C:1][C:2][H:3]',
    'HH-sc': '[H:1][H:2]>>[H:1].[H:2]',
    'CS-sc': '[C:1][S:2]>>[C:1].[S:2]',
    'SH-sc': '[S:1][H:2]>>[S:1].[H:2]',
    'CS-up': '[C:1][S:2]>>[C:1]=[S:2]',          # over-valent on divalent sulfur unless a hydrogen left first
    'CP-up': '[C:1][P:2]>>[C:1]=[P:2]',
    'ring-open': '[C:1]1[C:2][C:3]1>>[C:1][C:2][C:3]',
    'ring-q': '[C;R:1][C;R:2]>>[C:1].[C:2]',       # ring primitive: RDKit raises on the unsanitised products (rule error)
}
RING = {
    'r-CH-sc': 'rule chsc{ reactant r1{ C labeled c1 H labeled h1 single bond to c1 } increase number of radical (c1) '
               'increase number of radical (h1) break bond(c1,h1) }',
    'r-CC-sc': 'rule ccsc{ reactant r1{ C labeled c1 C labeled c2 single bond to c1 } increase number of radical (c1) '
               'increase number of radical (c2) break bond(c1,c2) }',
    'r-OH-sc': 'rule ohsc{ reactant r1{ O labeled o1 H labeled h1 single bond to o1 } increase number of radical (o1) '
               'increase number of radical (h1) break bond(o1,h1) }',
    'r-XH-sc': 'rule xhsc{ reactant r1{ $ labeled x1 H labeled h1 single bond to x1 } increase number of radical (x1) '
               'increase number of radical (h1) break bond(x1,h1) }',
    'r-any-up': 'rule anyup{ reactant r1{ C. labeled c1 C. labeled c2 any bond to c1 } decrease number of radical (c1) '
                'decrease number of radical (c2) increase bond order (c1,c2) }',
    'r-C=C-dn': 'rule ccdn{ reactant r1{ C labeled c1 C labeled c2 double bond to c1 } increase number of radical (c1) '
                'increase number of radical (c2) decrease bond order (c1,c2) }',
}
def _scission(name, a1, a2):
    return ('rule %s{ reactant r1{ %s labeled c1 %s labeled c2 single bond to c1 } increase number of radical (c1) '
            'increase number of radical (c2) break bond(c1,c2) }' % (name, a1, a2))


# RING rules whose reactant pattern is NOT symmetric in what it asks of its atoms (a radical centre next to a closed-shell
# carbon, a carbon bearing an oxygen next to one that need not) or that restrict an atom by a prefix (ring / chain / aromatic /
# allylic): the pattern maps onto one set of atoms in two ways of which one is accepted, or onto atoms the prefix excludes
RING_ORIENTED = {
    'r-radCC-sc': _scission('radccsc', 'C.', 'C'),
    'r-aO-CC-sc': _scission('aoccsc', 'C', 'C').replace('C labeled c1', 'C labeled c1 {connected to >=1 O with single bond}'),
    'r-side-CC-sc': _scission('sidesc', 'ringatom C', 'nonringatom C'),
    'r-chain-CH-sc': _scission('chainchsc', 'nonringatom C', 'H'),
    'r-ring-CH-sc': _scission('ringchsc', 'ringatom C', 'H'),
    'r-aliph-CH-sc': _scission('aliphchsc', 'nonaromatic C', 'H'),
    'r-allyl-CH-sc': _scission('allylchsc', 'allylic C', 'H'),
    'r-in3ring-CC-sc': _scission('ring3sc', 'C', 'C').replace('C labeled c1', 'C labeled c1 {in ring of size 3}'),
}
RING.update(RING_ORIENTED)
# (seeds, rule names): species with ring / aromatic / allylic atoms, radicals and alcohols written from either end
ORIENTED = [
    (['C[CH2]'], ['r-radCC-sc']), (['[CH2]C'], ['r-radCC-sc']), (['CC[CH2]'], ['r-radCC-sc', 'r-CH-sc']), (['CCO'], ['r-aO-CC-sc']),
    (['OCC'], ['r-aO-CC-sc']), (['CCCO'], ['r-aO-CC-sc', 'r-OH-sc']), (['CC1CC1'], ['r-side-CC-sc']), (['CC1CC1'], ['r-chain-CH-sc']),
    (['C1CC1C'], ['r-ring-CH-sc']), (['Cc1ccccc1'], ['r-aliph-CH-sc']), (['CC=C'], ['r-allyl-CH-sc']), (['C=CC'], ['r-allyl-CH-sc', 'r-radCC-sc']),
    (['CC1CC1'], ['r-in3ring-CC-sc', 'r-side-CC-sc']), (['CCC1CC1'], ['r-side-CC-sc', 'r-radCC-sc']), (['C1CCC1'], ['r-chain-CH-sc', 'r-CC-sc']),
    (['CC(O)C'], ['r-aO-CC-sc', 'r-radCC-sc']), (['OC(C)C'], ['r-aO-CC-sc']), (['CC[CH]C'], ['r-radCC-sc']),
]
BIMOLECULAR = '[C:1].[C:2]>>[C:1][C:2]'
NO_TEMPLATE = '>>[C:1]'

# designed cases: (seeds, rule names)
DESIGNED = [
    (['CC'], ['CH-sc', 'CC-sc']),                 # the docstring's example (F25 witness)
    (['CCC'], ['CH-sc']), (['CCC'], ['CH-sc', 'CC-sc']), (['CO'], ['CH-sc', 'OH-sc', 'CO-sc']),
    (['C=C'], ['CH-sc', 'C=C-dn']), (['CC'], ['CH-sc', 'CC-up']), (['CC'], ['CC-up']), (['CC'], ['deH2']),
    (['CCO'], ['CH-sc', 'OH-sc']), (['C=O'], ['CH-sc', 'C=O-dn']), (['CC', 'C'], ['CH-sc']),
    (['CC', '[CH3]'], ['CC-sc']),                 # a seed that another seed produces while it is still unprocessed
    (['[CH3]', 'CC'], ['CC-sc']), (['CO'], ['XH-sc']), (['CO'], ['any-sc']), (['C1CC1'], ['ring-open', 'H-shift']),
    (['CCC'], ['deH2', 'C=C-dn']), (['C#C'], ['C#C-dn', 'C=C-dn', 'CH-sc']), (['[CH2]C'], ['H-shift', 'rad-up', 'CH-sc']),
    (['CCO'], ['deH2', 'deH2-CO']), (['CN'], ['NH-sc', 'CN-sc', 'CH-sc']), (['[H][H]'], ['HH-sc', 'any-sc']),
    (['O'], ['CH-sc']), (['CC'], ['CO-up', 'CC-up', 'C=C-up']), (['OO', 'O'], ['any-sc']),
    (['CC', 'C-C'], ['CC-sc']),                   # the same seed written twice (outside the property's quantifier; tie only)
    (['CC', 'CC'], ['CH-sc']), (['C1CC1'], ['ring-q']),
    (['CS'], ['CS-up', 'CH-sc', 'SH-sc']), (['CSC'], ['CS-up']), (['CSC'], ['CS-up', 'CH-sc']), (['CP'], ['CP-up', 'CH-sc']),
    (['CCS'], ['CS-sc', 'SH-sc', 'CS-up']),
    # one rule object applied to bonds of different orders (pattern bond `any`): each application raises the order it finds
    (['CC'], ['r-CH-sc', 'r-any-up']), (['[CH2][CH2]'], ['r-any-up', 'r-CH-sc']), (['C=C'], ['r-CH-sc', 'r-any-up']),
]


# ---------------------------------------------------------------------------------------------- species / keys
def rd():
    from rdkit import Chem, RDLogger
    RDLogger.DisableLog('rdApp.*')
    return Chem


def key(mol):
    """canonical key of an explicit-hydrogen molecule"""
    return rd().MolToSmiles(mol)


def result_key(mol):
    """key of a molecule of the returned list (hydrogens were removed by the 'prettify' step)"""
    Chem = rd()
    return Chem.MolToSmiles(Chem.AddHs(mol))


def prep_seed(smiles):
    """the harness's own preparation of a seed: explicit hydrogens, no implicit ones, radicals assigned"""
    Chem = rd()
    m = Chem.MolFromSmiles(smiles)
    if m is None:
        raise common.MachineryError('seed SMILES rejected by RDKit: %r' % smiles)
    m = Chem.AddHs(m)
    for a in m.GetAtoms():
        a.SetNoImplicit(True)
    Chem.AssignRadicals(m)
    return m


def treat(mol):
    """radical treatment of a raw product (what the property calls a species): no implicit hydrogens, radicals from valence"""
    Chem = rd()
    for a in mol.GetAtoms():
        a.SetNoImplicit(True)
        a.UpdatePropertyCache(strict=False)
    Chem.AssignRadicals(mol)
    return mol


def over_valent(mol):
    """the valence filter of the property: some atom's total valence exceeds the default valence of its element"""
    pt = rd().GetPeriodicTable()
    return any(a.GetTotalValence() > pt.GetDefaultValence(a.GetAtomicNum()) for a in mol.GetAtoms())


def code_same(a, b):
    """the code's sameness test (GenRxnNet.py 132-136 / 147-149), for the A-canon validation"""
    return a.GetNumAtoms() == b.GetNumAtoms() and a.GetNumAtoms() == len(a.GetSubstructMatch(b))


def successors(raw_product_sets, stats=None):
    """flatten RunReactants output, treat, filter; returns [(key, mol)] in the order of the code's `products` list"""
    Chem = rd()
    out = []
    for ps in raw_product_sets:
        for m in ps:
            m = treat(Chem.Mol(m))
            if over_valent(m):
                if stats is not None:
                    stats['filtered'] += 1
                continue
            out.append((key(m), m))
    if stats is not None:
        ks = [k for k, _ in out]
        stats['dups_in_products'] += len(ks) - len(set(ks))
        stats['products'] += len(ks)
    return out


# ---------------------------------------------------------------------------------------------- rules
_ring_ok = None


def ring_readable():
    """RING `rule` texts can be read at all (defect F20 of the reader makes every one raise AssertionError)"""
    global _ring_ok
    if _ring_ok is None:
        from pgradd.RINGParser import Read
        try:
            common.call_with_alarm(10, Read, RING['r-CH-sc'])
            _ring_ok = True
        except AssertionError:
            _ring_ok = False
        except common.Timeout:
            _ring_ok = False
    return _ring_ok


def rule_text(name):
    return SMARTS[name] if name in SMARTS else RING[name] if name in RING else name


def build_rule(text):
    """a fresh rule object for a rule text, the way GenerateRxnNet would build it"""
    if text.lstrip().startswith('rule'):
        from pgradd.RINGParser import Read
        return Read(text)
    from rdkit.Chem.AllChem import ReactionFromSmarts
    return ReactionFromSmarts(text)


class Recorder(object):
    """wraps a rule object; GenerateRxnNet only uses GetNumReactantTemplates and RunReactants"""

    def __init__(self, rule):
        self.rule = rule
        self.calls = []

    def GetNumReactantTemplates(self):
        return self.rule.GetNumReactantTemplates()

    def RunReactants(self, reactants):
        Chem = rd()
        k = key(Chem.Mol(reactants[0]))
        out = self.rule.RunReactants(reactants)
        self.calls.append((k, [[Chem.Mol(m) for m in ps] for ps in out]))
        return out


# ---------------------------------------------------------------------------------------------- oracle
class TooLarge(Exception):
    pass


class RuleRaises(Exception):
    """RunReactants itself raised on a species of the closure (e.g. a ring primitive on an unsanitised product)"""


def soft_fail(ctx, name, detail):
    """an assumption check failed; reported as a machinery failure at the end of the run unless a violation explains it"""
    ctx.extra.setdefault('_assumption_failures', []).append((name, detail))


def closure(seed_smiles, rule_texts, cap=CAP):
    """independent breadth-first closure. Returns (seed_keys, graph, mols) with graph[key][i] = product keys of rule i"""
    mols = collections.OrderedDict()
    seed_keys = []
    queue = collections.deque()
    for s in seed_smiles:
        m = prep_seed(s)
        k = key(m)
        seed_keys.append(k)
        if k not in mols:
            mols[k] = m
            queue.append(k)
    graph = {}
    stats = collections.Counter()
    while queue:
        k = queue.popleft()
        graph[k] = []
        for t in rule_texts:
            try:
                # a FRESH rule object for every application: what a rule does to a species must not depend on what the same
                # rule object was applied to before (state kept in rule or edit objects)
                raw = build_rule(t).RunReactants((mols[k],))
            except Exception as e:
                raise RuleRaises(type(e).__name__)
            prods = successors(raw, stats)
            graph[k].append([pk for pk, _ in prods])
            for pk, pm in prods:
                if pk not in mols:
                    if len(mols) >= cap:
                        raise TooLarge()
                    mols[pk] = pm
                    queue.append(pk)
    return seed_keys, graph, mols, stats


def run_impl(seeds, rules):
    """call the implementation under the alarm; returns ('ok', [keys]) | ('err', class) | ('timeout', None)"""
    from pgradd.RDkitWrapper.GenRxnNet import GenerateRxnNet
    try:
        res = common.call_with_alarm(ALARM, GenerateRxnNet, seeds, rules)
    except common.Timeout:
        return 'timeout', None
    except Exception as e:
        return 'err', common.exc_class(e, [(IndexError, 'index'), (ValueError, 'value'), (TypeError, 'type')])
    return 'ok', [result_key(m) for m in res]


def model_request(op, seed_keys, graph, arities, fuel):
    ids = {}
    for k in itertools.chain(seed_keys, graph):
        ids.setdefault(k, len(ids))
    for k in list(graph):
        for row in graph[k]:
            for pk in row:
                ids.setdefault(pk, len(ids))
    rules = []
    for i, ar in enumerate(arities):
        rows = [[ids[k], [ids[p] for p in graph[k][i]]] for k in graph] if ar == 1 else []
        rules.append({'arity': ar, 'run': rows})
    return {'op': op, 'fuel': fuel, 'seeds': [ids[k] for k in seed_keys], 'rules': rules}, {v: k for k, v in ids.items()}


def classify_f25(seed_keys, keys, clos):
    """F25 exactly: distinct seeds, the set is the closure, only the multiplicity is wrong"""
    return (len(set(seed_keys)) == len(seed_keys) and set(keys) == set(clos) and len(keys) > len(set(keys)))


def check_case(ctx, seeds, rule_names, batch, form=None):
    """one network: property oracle on the implementation + queue the model requests for the tie"""
    Chem = rd()
    rng = ctx.rng
    texts = [rule_text(n) for n in rule_names]
    inp = {'seeds': list(seeds), 'rules': texts, 'rule_names': list(rule_names)}
    if any(t.lstrip().startswith('rule') for t in texts) and not ring_readable():
        ctx.count('skipped_ring_rule_unreadable(F20)')
        return
    try:
        seed_keys, G2, mols, st = closure(seeds, texts)
    except TooLarge:
        ctx.count('skipped_closure_above_cap')
        return
    except RuleRaises as e:
        # outside the model (a successor function that is not total): the loop has no handler, so the call must raise too
        ctx.count('rule_raises_cases')
        status, keys = run_impl(list(seeds), [build_rule(t) for t in texts])
        ctx.case(None)
        if status != 'err':
            soft_fail(ctx, 'A-graph', 'RunReactants raised %s in the independent closure but the call returned %s' % (e, status))
        return
    for k, v in st.items():
        ctx.count('oracle_' + k, v)
    distinct_seeds = len(set(seed_keys)) == len(seed_keys)
    clos = list(mols)
    n = len(clos)
    ctx.count('closure_size_%s' % ('1' if n == 1 else '2' if n == 2 else '3-9' if n < 10 else '10-49' if n < 50 else '50+'))
    ctx.count('networks')
    ctx.count('seeds_%d' % len(seeds))
    ctx.count('rules_%d' % len(texts))
    if not distinct_seeds:
        ctx.count('duplicate_seed_cases(tie only)')
    # ---- implementation, rules as recording objects, seeds as SMILES or as Mol objects
    form = form or rng.choice(['smiles', 'mol'])
    recs = [Recorder(build_rule(t)) for t in texts]
    seed_arg = [s if form == 'smiles' else Chem.MolFromSmiles(s) for s in seeds]
    status, keys = run_impl(seed_arg, list(recs))
    ctx.count('seed_form_' + form)
    sample = {'seeds': seeds, 'rules': rule_names, 'closure': n, 'returned': keys if status != 'ok' else len(keys)}
    ctx.case(json.dumps([sorted(seed_keys), texts]) if n >= 3 else None, sample)
    if status == 'timeout':
        ctx.violation('generation does not terminate although the closure is finite', inp,
                      expected='a list of %d species within %.0f s' % (n, ALARM), observed='still running')
        return
    if status == 'err':
        ctx.violation('generation raises %s on unimolecular rules' % keys, inp, expected='a list of %d species' % n, observed=keys)
        return
    # ---- property oracle (implementation vs the specification)
    missing_seeds = [k for k in seed_keys if k not in keys]
    if missing_seeds:
        ctx.violation('a seed is not in the returned list', inp, expected=seed_keys, observed=keys)
    if set(keys) - set(clos):
        ctx.violation('the list contains a species that is not obtainable from the seeds', inp,
                      expected=sorted(clos), observed=sorted(set(keys) - set(clos)))
    if set(clos) - set(keys):
        ctx.violation('a species obtainable from the seeds is missing from the list', inp,
                      expected=sorted(clos), observed={'missing': sorted(set(clos) - set(keys)), 'returned': keys})
    if distinct_seeds and len(keys) != len(set(keys)):
        dup = sorted(k for k, c in collections.Counter(keys).items() if c > 1)
        ctx.violation('a species is listed twice', inp, expected='each of the %d species once' % n,
                      observed={'twice': dup, 'returned': keys},
                      finding='F25' if classify_f25(seed_keys, keys, clos) else None)
    # ---- recorded successor graph (what the loop actually saw) vs the independent one: A-graph / A-canon
    G1 = {}
    arities = [r.GetNumReactantTemplates() for r in recs]
    for i, r in enumerate(recs):
        for k, raw in r.calls:
            row = [pk for pk, _ in successors(raw)]
            G1.setdefault(k, [None] * len(recs))
            if G1[k][i] is None:
                G1[k][i] = row
            elif collections.Counter(G1[k][i]) != collections.Counter(row):
                soft_fail(ctx, 'A-graph', 'two molecules with key %s give different products under rule %d' % (k, i))
    for k, rows in G1.items():
        if k in G2:
            for i, row in enumerate(rows):
                if row is not None and collections.Counter(row) != collections.Counter(G2[k][i]):
                    soft_fail(ctx, 'A-graph', 'species %s rule %d: recorded products %s, independent %s' % (k, i, row, G2[k][i]))
    ctx.count('recorded_calls', sum(len(r.calls) for r in recs))
    # graph for the model: recorded rows first (their order is the order the loop saw), independent rows elsewhere;
    # a species nobody expanded gets no row (the driver reports it as `missing` if the model reaches it)
    G = {}
    for k in itertools.chain(G1, G2):
        if k not in G:
            rec_rows = G1.get(k) or [None] * len(recs)
            if k in G2:
                G[k] = [rec_rows[i] if rec_rows[i] is not None else G2[k][i] for i in range(len(recs))]
            elif all(r is not None for r in rec_rows):
                G[k] = rec_rows
    fuel = max(len(keys), n) + 2
    req, names = model_request('c17.net', seed_keys, G, arities, fuel)
    batch.append((req, {'ok': keys}, inp, names))
    req_old, _ = model_request('c17.net_old', seed_keys, G, arities, 4 * fuel + 8)
    batch.append((req_old, None, inp, names))
    # ---- string path = object path, Mol seeds = SMILES seeds (implementation vs implementation)
    if rng.random() < 0.6 or ctx.thorough():
        other = 'mol' if form == 'smiles' else 'smiles'
        seed_arg2 = [s if other == 'smiles' else Chem.MolFromSmiles(s) for s in seeds]
        st2, keys2 = run_impl(seed_arg2, list(texts))
        ctx.count('string_rule_runs')
        if (st2, keys2) != (status, keys):
            ctx.violation('the list depends on whether rules are given as text or as objects / seeds as SMILES or Mol', inp,
                          expected=keys, observed=[st2, keys2])
    # ---- A-canon on pairs of the closure
    pairs = list(itertools.combinations(clos, 2))
    if len(pairs) > 400:
        pairs = rng.sample(pairs, 400)
    for a, b in pairs:
        ctx.count('acanon_pairs')
        if code_same(mols[a], mols[b]) or code_same(mols[b], mols[a]):
            soft_fail(ctx, 'A-canon', 'distinct keys %s / %s are the same species for the code' % (a, b))
    for k in clos[:40]:
        m2 = Chem.MolFromSmiles(k, sanitize=False)
        m2 = Chem.RenumberAtoms(m2, list(reversed(range(m2.GetNumAtoms()))))
        treat(m2)
        ctx.count('acanon_self')
        if key(m2) != k or not code_same(mols[k], m2) or not code_same(m2, mols[k]):
            soft_fail(ctx, 'A-canon', 'renumbered copy of %s is not recognised as the same species' % k)


def respellings(rng, smi, k=2):
    """the same species written with its atoms in other orders (the reversed order first, then random ones); only spellings
    RDKit reads back as the same species (same canonical key of the prepared seed) are returned"""
    Chem = rd()
    m = Chem.MolFromSmiles(smi)
    if m is None or m.GetNumAtoms() < 2:
        return []
    ref = key(prep_seed(smi))
    n = m.GetNumAtoms()
    orders = [list(reversed(range(n)))]
    for _ in range(k - 1):
        o = list(range(n))
        rng.shuffle(o)
        orders.append(o)
    out = []
    for o in orders:
        try:
            s2 = Chem.MolToSmiles(Chem.RenumberAtoms(m, o), canonical=False)
            if s2 != smi and s2 not in out and key(prep_seed(s2)) == ref:
                out.append(s2)
        except Exception:
            continue
    return out


def spelling_independence(ctx, seeds, rule_names, inp):
    """The closure is a function of the seed SPECIES: the same seeds written with their atoms in another order (SMILES text or
    renumbered Mol object) must give the same species, each once."""
    Chem, rng = rd(), ctx.rng
    texts = [rule_text(n) for n in rule_names]
    st0, k0 = run_impl(list(seeds), list(texts))
    alts = [respellings(rng, s) for s in seeds]
    if not any(alts):
        return
    for j in range(max(len(a) for a in alts)):
        seeds2 = [a[j % len(a)] if a else s for s, a in zip(seeds, alts)]
        as_mol = rng.random() < 0.3
        st1, k1 = run_impl([Chem.MolFromSmiles(x) for x in seeds2] if as_mol else list(seeds2), list(texts))
        ctx.count('respelled_seed_runs')
        ctx.case(None)
        if st0 != st1 or (st0 == 'ok' and sorted(k0) != sorted(k1)) or (st0 != 'ok' and k0 != k1):
            ctx.violation('the network depends on the order in which the atoms of a seed are written', dict(inp, seeds_respelled=seeds2, respelled_as='mol' if as_mol else 'smiles'),
                          expected={'status': st0, 'species': sorted(k0) if st0 == 'ok' else k0},
                          observed={'status': st1, 'species': sorted(k1) if st1 == 'ok' else k1,
                                    'missing': sorted(set(k0) - set(k1)) if st0 == st1 == 'ok' else None,
                                    'extra': sorted(set(k1) - set(k0)) if st0 == st1 == 'ok' else None})
            return


def run_env_children(ctx, cases):
    """a sample of networks again in child interpreters started with -O and with -W error (harness/lib_envchild.py): the
    returned list must be the one of this process (which the oracle above compared with the independent closure)"""
    import subprocess, os
    from . import lib_envchild as EC
    if not cases or ctx.time_left() < 90:
        ctx.count('env_children_not_run')
        return
    reqf = os.path.join(ctx.scratch, 'c17_env_requests.jsonl')
    refs = []
    with open(reqf, 'w') as f:
        f.write(json.dumps({'op': 'hello'}) + '\n')
        for seeds, names in cases:
            texts = [rule_text(n) for n in names]
            refs.append(run_impl(list(seeds), list(texts)))
            f.write(json.dumps({'op': 'net', 'seeds': list(seeds), 'rules': texts}) + '\n')
    modes = ['O', 'Werror'] + (['OO+hash'] if ctx.thorough() else [])
    procs = [(mode, os.path.join(ctx.scratch, 'c17_env_%s.jsonl' % mode.replace('+', '_'))) for mode in modes]
    procs = [(mode, outf, EC.spawn_batch(mode, reqf, outf)) for mode, outf in procs]
    for mode, outf, p in procs:
        try:
            p.wait(timeout=max(60, ctx.time_left() - 30))
        except subprocess.TimeoutExpired:
            p.kill()
            raise common.MachineryError('the %s child interpreter did not finish in time' % mode)
        lines = [json.loads(l) for l in open(outf)]
        if len(lines) != len(cases) + 1:
            raise common.MachineryError('the %s child interpreter answered %d of %d requests (exit %r)' % (mode, len(lines), len(cases) + 1, p.returncode))
        if lines[0].get('asserts') != (mode == 'Werror'):
            raise common.MachineryError('child interpreter %s: assert statements %s' % (mode, lines[0].get('asserts')))
        ctx.count('env_child_%s_networks' % mode, len(cases))
        bad = 0
        for (seeds, names), ref, rep in zip(cases, refs, lines[1:]):
            if 'childerror' in rep:
                raise common.MachineryError('child interpreter (%s) failed: %s' % (mode, rep['childerror']))
            got = (rep['status'], rep['keys'])
            if got != ref:
                env = {'mode': mode, 'argv': EC.MODES[mode]['argv'], 'env': EC.MODES[mode]['env']}
                ctx.violation('the network depends on the environment of the process (%s)' % json.dumps(env, sort_keys=True),
                              {'seeds': list(seeds), 'rules': [rule_text(n) for n in names], 'rule_names': list(names), 'env': env},
                              expected={'status': ref[0], 'species': ref[1]},
                              observed={'status': got[0], 'species': got[1],
                                        'extra': sorted(set(got[1]) - set(ref[1])) if got[0] == ref[0] == 'ok' else None,
                                        'missing': sorted(set(ref[1]) - set(got[1])) if got[0] == ref[0] == 'ok' else None})
                bad += 1
                if bad >= 3:
                    break


def error_cases(ctx, batch):
    """the error outcomes of the model against the code (tie only; outside the property's quantifier)"""
    Chem = rd()
    cases = [([], ['CH-sc'], 'index'), (['CC'], [], 'index'),
             (['CC'], [BIMOLECULAR], 'type'), (['CC'], ['CH-sc', BIMOLECULAR], 'type'), (['CC'], [BIMOLECULAR, NO_TEMPLATE], 'type'),
             (['CC'], [NO_TEMPLATE], 'value'), (['C', 'CC'], [NO_TEMPLATE, BIMOLECULAR], 'value'), (['CO'], ['OH-sc', NO_TEMPLATE], 'value')]
    for seeds, rule_names, _ in cases:
        texts = [rule_text(nm) for nm in rule_names]
        rules = [build_rule(t) for t in texts]
        arities = [r.GetNumReactantTemplates() for r in rules]
        status, keys = run_impl(list(seeds), rules)
        ctx.case(None)
        ctx.count('error_case_' + (keys if status == 'err' else status))
        seed_keys = [key(prep_seed(s)) for s in seeds]
        G = {k: [[] for _ in rules] for k in seed_keys}
        req, names = model_request('c17.net', seed_keys, G, arities, 5)
        impl = {'err': keys} if status == 'err' else {'ok': keys}
        batch.append((req, impl, {'seeds': seeds, 'rules': texts}, names))


def applicable(seed, text):
    """some rule application is possible on the seed itself (keeps the random stream away from one-species networks)"""
    try:
        return len(build_rule(text).RunReactants((prep_seed(seed),))) > 0
    except Exception:
        return True


def random_case(rng, ring):
    pool = [n for n in SMARTS if n != 'ring-q'] + (list(RING) * 2 if ring else [])
    for _ in range(6):
        seeds = rng.sample(SEEDS, rng.choice([1, 1, 1, 2]))
        rules = rng.sample(pool, rng.choice([1, 2, 2, 3, 4]))
        if rng.random() < 0.1 or any(applicable(s, rule_text(r)) for s in seeds for r in rules):
            break
    if rng.random() < 0.03:
        rules = rules + ['ring-q']
    return seeds, rules


def shared_rule_lists(ctx, ring):
    """One rule LIST object reused for several networks (GenerateRxnNet parses rule texts in place on the first call, so the
    later calls run the very same rule objects): every network must equal the one generated with a fresh copy of the texts.
    Seeds are chosen so that later networks meet species of earlier ones, written with other atom orders."""
    rule_sets = [['CH-sc', 'CC-sc'], ['CH-sc', 'OH-sc', 'CC-sc'], ['XH-sc', 'CC-sc']]
    if ring:
        rule_sets += [['r-CH-sc', 'r-CC-sc'], ['r-XH-sc', 'r-CC-sc'], ['r-CH-sc', 'r-OH-sc', 'r-CC-sc']]
    seqs = [['CCO', 'CC', 'OCC'], ['CC(C)C', 'CCC', 'C(C)C'], ['CC', 'CCC', 'CC'], ['OCC', 'CCO', 'C(O)C'], ['CCC', 'CC(C)C']]
    for names in rule_sets:
        for seq in seqs[:ctx.n(3, 5)]:
            shared = [rule_text(n) for n in names]
            for i, seed in enumerate(seq):
                st, got = run_impl([seed], shared)                      # same list object every time
                st2, fresh = run_impl([seed], [rule_text(n) for n in names])
                ctx.case(('shared', tuple(names), tuple(seq), i), None)
                ctx.count('shared_rule_list_calls')
                if (st, got) != (st2, fresh):
                    ctx.violation('the network generated for a seed depends on networks generated earlier with the same rule list',
                                  {'rules': names, 'seeds_in_order': seq, 'position': i}, expected=[st2, fresh], observed=[st, got])
                    break


def compare_batch(ctx, batch):
    replies = ctx.model([b[0] for b in batch])
    if replies is None:
        return
    last = None
    for (req, impl, inp, names), rep in zip(batch, replies):
        if rep.get('missing'):
            raise common.MachineryError('successor graph handed to the model is incomplete: %r for %r' %
                                        ([names[i] for i in rep['missing']], inp))
        out = {'ok': [names[i] for i in rep['ok']]} if 'ok' in rep else rep
        if req['op'] == 'c17.net_old':
            # always queued right after the c17.net request of the same case
            new_out, new_impl, dis = last
            if 'ok' in new_out and out != new_out:
                ctx.count('model_repair_matters')   # the loop before the F25 repair would list a species twice here
                if dis is not None and new_impl == out:
                    dis['what'] += ' [the list equals that of the loop before the F25 repair]'
            continue
        ctx.count('corr_c17.net')
        ctx.count('model_ok' if 'ok' in out else 'model_err_' + out['err'])
        dis = None
        if out != impl:
            what = 'corr:c17.net'
            if 'ok' in out and 'ok' in impl and collections.Counter(out['ok']) == collections.Counter(impl['ok']):
                what = 'corr:c17.net(order only)'
            ctx.disagree(what, inp, impl, out)
            dis = ctx.disagreements[-1]
        last = (out, impl, dis)


def run(ctx):
    rng = ctx.rng
    batch = []
    for fname, rec in common.load_corpus('C17'):
        ctx.count('corpus')
        replay(ctx, rec, batch=batch)
    ring = ring_readable()
    ctx.count('ring_rule_texts_readable', 1 if ring else 0)
    for seeds, rules in DESIGNED:
        check_case(ctx, seeds, rules, batch)
    # every RING rule text on a few seeds (skipped and counted while the reader rejects every rule text: F20)
    for name in RING:
        for seeds in (['CC'], ['CO'], ['C=C']):
            check_case(ctx, seeds, [name], batch)
    check_case(ctx, ['CCO'], ['r-XH-sc', 'CC-sc'], batch)      # RING text and SMARTS mixed in one rule list
    env_cases = []
    if ring:
        for seeds, rules in ORIENTED:
            check_case(ctx, seeds, rules, batch)
            env_cases.append((seeds, rules))
    for seeds, rules in DESIGNED + (ORIENTED if ring else []):
        if ring or not any(r in RING for r in rules):
            spelling_independence(ctx, seeds, rules, {'seeds': list(seeds), 'rules': [rule_text(n) for n in rules], 'rule_names': list(rules)})
    error_cases(ctx, batch)
    shared_rule_lists(ctx, ring)
    for i in range(ctx.n(500, 6000)):
        if ctx.time_left() < 120:
            ctx.count('stopped_for_time')
            break
        if len(ctx.violations) >= 20:
            ctx.count('stopped_after_20_violations')
            break
        seeds, rules = random_case(rng, ring)
        check_case(ctx, seeds, rules, batch)
        if i % 5 == 0:
            spelling_independence(ctx, seeds, rules, {'seeds': list(seeds), 'rules': [rule_text(n) for n in rules], 'rule_names': list(rules)})
        if i % 8 == 0 and len(env_cases) < ctx.n(80, 400) and 'ring-q' not in rules:
            env_cases.append((seeds, rules))
    run_env_children(ctx, env_cases)
    compare_batch(ctx, batch)
    fails = ctx.extra.pop('_assumption_failures', [])
    if fails and not ctx.violations:
        ctx.assumption(fails[0][0], False, '; '.join(d for _, d in fails[:3]))
    # generator reach (Appendix B): the branches the property is about must have been exercised
    if not ctx.searching and not ctx.violations and not ctx.disagreements:
        floor = {'oracle_filtered': 1, 'oracle_dups_in_products': 1, 'model_repair_matters': 1, 'closure_size_10-49': 1}
        for k, v in floor.items():
            if ctx.stats.get(k, 0) < v and ctx.driver_ok:
                raise common.MachineryError('generator reach below floor: %s = %d' % (k, ctx.stats.get(k, 0)))
    ctx.assumption('A-canon', True, '%d pairs of distinct keys, %d renumbered copies' % (ctx.stats['acanon_pairs'], ctx.stats['acanon_self']))
    ctx.assumption('A-graph', True, '%d recorded RunReactants calls agree with the independent closure' % ctx.stats['recorded_calls'])


def replay(ctx, rec, batch=None):
    """re-run a recorded input on the implementation against the specification"""
    inp = rec.get('input', rec)
    before = len(ctx.violations)
    own = batch is None
    b = [] if own else batch
    names = inp.get('rule_names') or inp['rules']
    for form in ('smiles', 'mol'):
        check_case(ctx, list(inp['seeds']), list(names), b, form=form)
    if 'seeds_respelled' in inp:
        Chem = rd()
        texts = [rule_text(n) for n in names]
        st0, k0 = run_impl(list(inp['seeds']), list(texts))
        s2 = [Chem.MolFromSmiles(x) for x in inp['seeds_respelled']] if inp.get('respelled_as') == 'mol' else list(inp['seeds_respelled'])
        st1, k1 = run_impl(s2, list(texts))
        if st0 != st1 or (st0 == 'ok' and sorted(k0) != sorted(k1)) or (st0 != 'ok' and k0 != k1):
            ctx.violation('the network depends on the order in which the atoms of a seed are written', inp, expected=[st0, k0], observed=[st1, k1])
    if 'env' in inp:
        from . import lib_envchild as EC
        texts = [rule_text(n) for n in names]
        ref = run_impl(list(inp['seeds']), list(texts))
        child = EC.EnvChild(inp['env']['mode'])
        rep = child.ask({'op': 'net', 'seeds': list(inp['seeds']), 'rules': texts})
        child.close()
        if (rep.get('status'), rep.get('keys')) != ref:
            ctx.violation('the network depends on the environment of the process (%s)' % json.dumps(inp['env'], sort_keys=True), inp,
                          expected=list(ref), observed=[rep.get('status'), rep.get('keys')])
    return len(ctx.violations) == before


LEVEL_TEXT = ('Lean 4 theorems for every key type, every list of unimolecular rules (arbitrary successor functions, valence filter '
              'included), every list of distinct seeds and every fuel: a returned list contains every seed, is closed under the rules, '
              'contains only species reachable from a seed, lists nothing twice, and the loop returns within |C| iterations whenever a '
              'finite closed list C contains the seeds; the loop before the repair of F25 is proved to violate duplicate-freeness. '
              'The model is tied to GenRxnNet.py by recording the successor graph from the real RunReactants calls of each run and '
              'comparing the returned list with the model\'s as a sequence of canonical keys. Right level: the quantifier is over all '
              'rule sets and seed sets, i.e. all successor graphs, which only a proof covers; the tests never call the generator.')
LEVEL_NOTE = ('Trusted: Lean kernel; axioms propext/Classical.choice/Quot.sound; the correspondence harness; RDKit (RunReactants, '
              'valence/radical perception, canonical SMILES as a complete invariant — A-canon, re-validated on pairs each run). '
              'Modelled, not verified: the work-list loop. Species equality is key equality; seeds are assumed pairwise distinct for '
              'duplicate-freeness; termination is proved relative to a finite closed superset and observed under a %.0f s alarm.' % ALARM)
TECHNIQUE = 'Lean 4 proof over hand-written model (parametric in the successor function) + correspondence check on recorded successor graphs + independent closure oracle'
