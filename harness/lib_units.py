"""Shared pieces of the C10/C11 checks: calling pgradd.Units quietly, canonical outcomes, the
expression generator (abstract trees -> text) and the property oracle (denotation of a tree over the
hand-written SI reference table, obtained from the driver: PGA/Spec/SI.lean)."""
import io, sys, contextlib, math
from fractions import Fraction
from . import common

PRIMS = ['m', 'kg', 's', 'A', 'K', 'mol', 'cd']


@contextlib.contextmanager
def quiet():
    """the package prints debugging lines from FundamentalUnits.__eq__/__str__: keep stdout clean"""
    old = sys.stdout
    sys.stdout = io.StringIO()
    try:
        yield
    finally:
        sys.stdout = old


def errclass(e):
    from pgradd.Error import UnitsParseError, UnitsError
    if isinstance(e, UnitsParseError):
        return 'unitsParse'
    if isinstance(e, UnitsError):
        return 'unitsError'
    if isinstance(e, (ZeroDivisionError, OverflowError)):
        return 'math'
    return 'internal:' + type(e).__name__


def exps_of(units):
    """exponents of a FundamentalUnits by primitive name, in the fixed order PRIMS"""
    names = list(type(units)._primitive_units)
    d = dict(zip(names, [float(x) for x in units.exps]))
    return [d.get(p, 0.0) for p in PRIMS]


def canon_value(r):
    """canonical form of what an API call returned"""
    import numpy as np
    from pgradd.Units import Quantity, ArrayQuantity
    if isinstance(r, Quantity):
        v = r.value
        if isinstance(v, complex):
            return {'err': 'internal:complex'}
        if not any(exps_of(r.units)):
            return {'err': 'internal:unitless-Quantity'}     # a dimensionless result must be a plain number
        return {'val': float(v), 'dim': exps_of(r.units)}
    if isinstance(r, ArrayQuantity):
        if not any(exps_of(r._units)):
            return {'err': 'internal:unitless-ArrayQuantity'}
        return {'arr': [float(x) for x in np.asarray(r).ravel()], 'dim': exps_of(r._units)}
    if isinstance(r, (bool, np.bool_)):
        return {'bool': bool(r)}
    if isinstance(r, complex):
        return {'err': 'internal:complex'}
    if isinstance(r, np.ndarray):
        if r.dtype == bool:
            return {'bools': [bool(x) for x in r.ravel()]}
        return {'arr': [float(x) for x in r.ravel()], 'dim': [0.0] * 7}
    if isinstance(r, (int, float, np.number)):
        return {'val': float(r), 'dim': [0.0] * 7}
    if r is None:
        return {'none': True}
    return {'err': 'internal:type:' + type(r).__name__}


def call(fn, *a):
    try:
        return canon_value(fn(*a))
    except RecursionError:
        return {'err': 'internal:RecursionError'}
    except Exception as e:
        return {'err': errclass(e)}


# ------------------------------------------------------------------------------ comparison impl vs model
def dim_matches(impl_dim, model_dim):
    for x, q in zip(impl_dim, model_dim):
        q = common.unjrat(q) if isinstance(q, dict) else Fraction(q)
        if q.denominator == 1:
            if x != int(q):
                return False
        elif abs(x - float(q)) > 1e-12:
            return False
    return True


def out_of_range(model):
    """the model's exact magnitude lies where doubles overflow / underflow (outside the abstraction, DESIGN 2.3)"""
    vals = []
    if isinstance(model, dict):
        if 'val' in model:
            vals.append(model['val'])
        vals += model.get('arr', [])
    for j in vals:
        if len(j['n']) > 400 or len(j['d']) > 400:
            return True
        q = common.unjrat(j)
        if q != 0 and not (Fraction(1, 10 ** 200) < abs(q) < 10 ** 200):
            return True
    return False


def same_outcome(impl, model, scale=0.0):
    """impl: canonical outcome of the implementation; model: the driver's reply"""
    if 'err' in model:
        if 'err' not in impl:
            return False
        if model['err'] == 'internal:complex':
            # a complex magnitude: returned as such, or refused by Quantity._build with an AssertionError
            return impl['err'] in ('internal:complex', 'internal:AssertionError')
        return impl['err'] == model['err']
    if 'err' in impl:
        return False
    if 'dim' in model:
        if 'dim' not in impl or not dim_matches(impl['dim'], model['dim']):
            return False
    if 'val' in model:
        return 'val' in impl and common.close(impl['val'], common.unjrat(model['val']), scale)
    if 'inexact' in model:
        return 'val' in impl and impl['val'] != 0 and math.isfinite(impl['val']) and (impl['val'] < 0) == model['inexact']
    if 'arr' in model:
        return 'arr' in impl and len(impl['arr']) == len(model['arr']) and all(
            common.close(a, common.unjrat(b), scale) for a, b in zip(impl['arr'], model['arr']))
    if 'bool' in model:
        return impl.get('bool') is model['bool']
    if 'bools' in model:
        return impl.get('bools') == model['bools']
    return False


# ------------------------------------------------------------------------------ the SI reference (from the driver)
class SI:
    """the hand-written reference (PGA/Spec/SI.lean), extended by the units of the working tree the reference does not know
    and that are consistent with their definitions (PGA/Spec/SIExt.lean): `units` = both, `ref_units` = the reference alone,
    `verdicts` = the driver's verdict on every new unit (registration order), `new` = the accepted ones"""

    def __init__(self, ctx):
        rep = ctx.model([{'op': 'c10.si_table'}, {'op': 'c10.ext_table'}])
        if rep is None:
            raise common.MachineryError('the model driver is not available: no SI reference table')
        t = rep[0]
        self.units = {}
        for u in t['units']:
            self.units[u['name']] = (common.unjrat(u['value']), [common.unjrat(x) for x in u['dim']], float(common.unjrat(u['tol'])))
        self.ref_units = dict(self.units)
        self.prefixes = {p['name']: int(p['exp']) for p in t['prefixes']}
        self.R = (common.unjrat(t['R']['value']), [common.unjrat(x) for x in t['R']['dim']], float(common.unjrat(t['R']['tol'])))
        self.verdicts = rep[1]['new']
        self.new = {}
        for v in self.verdicts:
            if v['verdict'] == 'accepted':
                self.new[v['name']] = (common.unjrat(v['value']), [common.unjrat(x) for x in v['dim']], float(common.unjrat(v['tol'])))
        self.units.update(self.new)
        # names the generator uses as *unknown* names: only those that have no meaning over the extended reference either
        # (a maintainer may add `hr`, `inch`, ...: then they are units, not malformed texts)
        reps = ctx.model([{'op': 'c10.eval_ext', 'text': t} for t in BAD_NAMES])
        self.bad_names = [t for t, r in zip(BAD_NAMES, reps) if 'err' in r] or ['foo']

    def named(self, prefix, unit):
        """meaning of the name prefix+unit: the unit itself if the concatenation is a unit name"""
        full = prefix + unit
        if full in self.units:
            v, d, tol = self.units[full]
            return v, d, tol
        v, d, tol = self.units[unit]
        k = self.prefixes[prefix] if prefix else 0
        return v * Fraction(10) ** k, d, tol


# ------------------------------------------------------------------------------ expression trees
# ('num', text) | ('name', prefix, unit) | ('bad', text) | ('paren', expr) |
# ('pow', base, exptext, parenthesised) | ('chain', first, [(op, factor), ...]) with op in '*', '/', 'j'

def num_value(text):
    t = text
    neg = t.startswith('-')
    if neg:
        t = t[1:]
    import unicodedata
    t = ''.join(c if c == '.' else str(unicodedata.decimal(c)) for c in t)
    if t.endswith('.'):
        t = t + '0'
    if t.startswith('.'):
        t = '0' + t
    v = Fraction(t)
    return -v if neg else v


class Domain(Exception):
    def __init__(self, kind):
        self.kind = kind


def denote(si, e):
    """(value, dims, tol, exact) of a tree, from the definitions; raises Domain('unitsParse'|'math'|'complex'|'range')
    ('range': a magnitude outside 1e-200..1e200 appears, where doubles overflow/underflow: outside the abstraction)"""
    try:
        r = _denote(si, e)
    except OverflowError:
        raise Domain('range')
    v = r[0]
    if v != 0 and not (1e-200 < abs(v) < 1e200):
        raise Domain('range')
    return r


def _denote(si, e):
    k = e[0]
    if k == 'num':
        return num_value(e[1]), [Fraction(0)] * 7, 0.0, True
    if k == 'name':
        if e[1] + e[2] not in si.units and (e[2] not in si.units or (e[1] and e[1] not in si.prefixes)):
            raise Domain('unitsParse')      # (a replayed tree over a unit the table no longer has)
        v, d, tol = si.named(e[1], e[2])
        return v, list(d), tol, True
    if k == 'bad':
        raise Domain('unitsParse')
    if k == 'paren':
        return denote(si, e[1])
    if k == 'pow':
        v, d, tol, ex = denote(si, e[1])
        x = num_value(e[2])
        nd = [x * c for c in d]
        if x.denominator == 1:
            n = int(x)
            if v == 0 and n < 0:
                raise Domain('math')
            return (v ** n if ex else float(v) ** n), nd, tol * abs(n), ex
        if v == 1:
            return Fraction(1), nd, 0.0, ex
        if v == 0:
            if x < 0:
                raise Domain('math')
            return Fraction(0), nd, 0.0, ex
        if v < 0:
            raise Domain('complex')
        return float(v) ** float(x), nd, tol * abs(float(x)), False
    if k == 'chain':
        v, d, tol, ex = denote(si, e[1])
        for op, f in e[2]:
            w, fd, ft, fx = denote(si, f)
            if op == '/':
                if w == 0:
                    raise Domain('math')
                v = v / w if (ex and fx) else float(v) / float(w)
                d = [a - b for a, b in zip(d, fd)]
            else:
                v = v * w if (ex and fx) else float(v) * float(w)
                d = [a + b for a, b in zip(d, fd)]
            tol += ft
            ex = ex and fx
        return v, d, tol, ex
    raise common.MachineryError('bad tree %r' % (e,))


def tokens_of(e):
    """token texts of a tree, in the grammar of the package (left-associative chain of factors)"""
    k = e[0]
    if k == 'num':
        return [e[1]]
    if k == 'name':
        return [e[1] + e[2]]
    if k == 'bad':
        return [e[1]]
    if k == 'paren':
        return ['('] + tokens_of(e[1]) + [')']
    if k == 'pow':
        ex = ['(', e[2], ')'] if e[3] else [e[2]]
        return tokens_of(e[1]) + ['^'] + ex
    if k == 'chain':
        out = tokens_of(e[1])
        for op, f in e[2]:
            if op != 'j':
                out.append(op)
            out += tokens_of(f)
        return out
    raise common.MachineryError('bad tree %r' % (e,))


def kind_of_token(t):
    if t and (t[0].isdigit() or t[0] == '.' or (t[0] == '-' and len(t) > 1)):
        return 'n'
    if t.isalpha():
        return 'w'
    return 's'


def join_tokens(rng, toks, tight=0.5):
    """text of a token list: a blank where the scanner needs one, elsewhere at random"""
    out = []
    for i, t in enumerate(toks):
        if i:
            a, b = kind_of_token(toks[i - 1]), kind_of_token(t)
            need = (a == b and a in 'nw')
            if need or rng.random() > tight:
                out.append(rng.choice([' ', ' ', ' ', '  ', '\t']))
        out.append(t)
    return ''.join(out)


NUMS = ['2', '3', '10', '0.5', '.25', '4.', '1.5', '12', '100', '-2', '-0.5', '1', '7', '1000', '2.54', '0.001']
EXPS = ['2', '3', '-1', '-2', '1', '0', '4', '-3', '2.0', '0.5', '-0.5', '1.5', '.5', '0.25']
# near-integer exponents OUTSIDE the documented 1e-7 snapping grid: they must stay fractional.  Used on single names only:
# in nested expressions they multiply into exponents finer than the grid, where the documented rounding applies.
EXPS_NEAR = ['1.000001', '2.00001', '-2.00001', '0.000005', '-1.000002']


BAD_NAMES = ['foo', 'ohm', 'inch', 'hr', 'x', 'T', 'kk', 'inf', 'nan', 'Infinity', 'e', 'dal', 'mmm']


def gen_base(rng, si, depth, names, allow_bad=False):
    r = rng.random()
    if depth > 0 and r < 0.22:
        return ('paren', gen_expr(rng, si, depth - 1, names, allow_bad))
    if r < 0.40:
        return ('num', rng.choice(NUMS))
    if allow_bad and r < 0.43:
        return ('bad', rng.choice(getattr(si, 'bad_names', BAD_NAMES)))
    return rng.choice(names)


def gen_factor(rng, si, depth, names, allow_bad=False):
    b = gen_base(rng, si, depth, names, allow_bad)
    if rng.random() < 0.35:
        return ('pow', b, rng.choice(EXPS), rng.random() < 0.3)
    return b


def gen_expr(rng, si, depth, names, allow_bad=False):
    n = rng.choice([1, 1, 2, 2, 3, 4])
    first = gen_factor(rng, si, depth, names, allow_bad)
    rest = [(rng.choice(['*', '/', 'j', 'j']), gen_factor(rng, si, depth, names, allow_bad)) for _ in range(n - 1)]
    if not rest:
        return first
    return ('chain', first, rest)


def all_names(si, live_prefixes=None):
    """every (prefix, unit) pair of the reference table, '' = no prefix"""
    out = []
    for u in si.units:
        out.append(('name', '', u))
        for p in si.prefixes:
            out.append(('name', p, u))
    return out


def importable(ctx):
    """the package builds its unit database at import by evaluating builtin.py's definitions; if that fails, every
    expression fails: reported as a violation with the failing definition as the input (the loop variables of builtin.py at
    the point of failure) and the import error as the observed outcome, not as a harness failure"""
    try:
        import pgradd.Units  # noqa
        import pgradd.Consts  # noqa
        return True
    except Exception as e:
        import traceback
        tb = traceback.extract_tb(e.__traceback__)
        where = ['%s:%d' % (f.filename.split('pgradd/')[-1], f.lineno) for f in tb if 'pgradd' in f.filename][-3:]
        inp = {'import': 'pgradd.Units'}
        t = e.__traceback__
        while t is not None:
            if t.tb_frame.f_code.co_filename.replace('\\', '/').endswith('pgradd/Units/builtin.py'):
                loc = t.tb_frame.f_locals
                if isinstance(loc.get('val'), str) and isinstance(loc.get('name'), str):
                    inp = {'import': 'pgradd.Units', 'text': loc['val'], 'unit': loc['name']}
            t = t.tb_next
        ctx.violation('pgradd.Units cannot be imported: a built-in unit definition does not evaluate over the units defined before it',
                      inp, 'the unit database is built',
                      {'err': errclass(e), 'message': str(e)[:200], 'where': where})
        return False
