import PGA.Model.GroupName
