import PGA.Drv.All
/-! `pgadriver`: executes the model. One JSON request per input line, one JSON reply per
output line, in order.  {"op": "<prop>.<name>", ...} ↦ reply | {"driver_error": msg}. -/
open Lean

def handlers : List (String → Json → Option (Except String Json)) := PGA.Drv.allHandlers

def dispatch (line : String) : Json :=
  match Json.parse line with
  | .error e => Json.mkObj [("driver_error", Json.str s!"json: {e}")]
  | .ok j =>
    match j.getObjValAs? String "op" with
    | .error e => Json.mkObj [("driver_error", Json.str e)]
    | .ok op =>
      match handlers.findSome? (fun h => h op j) with
      | none => Json.mkObj [("driver_error", Json.str s!"unknown op {op}")]
      | some (.ok r) => r
      | some (.error e) => Json.mkObj [("driver_error", Json.str e)]

partial def loop (hin : IO.FS.Stream) (hout : IO.FS.Stream) : IO Unit := do
  let line ← hin.getLine
  if line.isEmpty then return ()
  let t := line.trimAscii.toString
  if t.isEmpty then loop hin hout else
  hout.putStrLn (dispatch t).compress
  loop hin hout

def main : IO Unit := do
  let hin ← IO.getStdin
  let hout ← IO.getStdout
  loop hin hout
  hout.flush
