import PGA.Proofs.UnitsRender
/-!
# The scanner: token sizes are bounded by the text, and a spaced rendering scans back to its tokens
-/
namespace PGA.Units
open PGA.Chars

def Tok.bodyLen : Tok → Nat
  | .num _ body => body.length
  | _ => 0

def LexSt.accLen : LexSt → Nat
  | .inNum _ acc => acc.length
  | _ => 0

theorem lexStart_accLen (c : Char) (cs : List Char) :
    (lexStart c cs).2.accLen ≤ 1 ∧ ∀ t ∈ (lexStart c cs).1, t.bodyLen = 0 := by
  unfold lexStart
  split
  · simp [LexSt.accLen]
  · split
    · simp [LexSt.accLen]
    · split
      · simp [LexSt.accLen]
      · split
        · simp [LexSt.accLen]
        · split
          · simp [LexSt.accLen]
          · simp [LexSt.accLen, Tok.bodyLen]

/-- every number token produced has a body no longer than what has been scanned into it plus what remains -/
theorem lexGo_bodyLen : ∀ (cs : List Char) (st : LexSt), ∀ t ∈ lexGo st cs, t.bodyLen ≤ st.accLen + cs.length := by
  intro cs
  induction cs with
  | nil =>
    intro st t ht
    cases st <;> simp [lexGo, LexSt.flush] at ht <;> subst ht <;> simp [Tok.bodyLen, LexSt.accLen]
  | cons c cs ih =>
    intro st t ht
    have hs := lexStart_accLen c cs
    have hcont : ∀ t ∈ (lexStart c cs).1 ++ lexGo (lexStart c cs).2 cs, t.bodyLen ≤ 1 + cs.length := by
      intro t ht
      rcases List.mem_append.mp ht with h | h
      · rw [hs.2 t h]; omega
      · have := ih _ t h; omega
    cases st with
    | idle =>
      simp only [lexGo] at ht
      have := hcont t ht
      simp [LexSt.accLen]; omega
    | inNum neg acc =>
      simp only [lexGo] at ht
      split at ht
      · have := ih _ t ht
        simp [LexSt.accLen] at this ⊢; omega
      · rcases List.mem_cons.mp ht with h | h
        · subst h; simp [Tok.bodyLen, LexSt.accLen]
        · have := hcont t h
          simp [LexSt.accLen]; omega
    | inWord acc =>
      simp only [lexGo] at ht
      split at ht
      · have := ih _ t ht
        simp [LexSt.accLen] at this ⊢; omega
      · rcases List.mem_cons.mp ht with h | h
        · subst h; simp [Tok.bodyLen]
        · have := hcont t h
          simp [LexSt.accLen]; omega

/-- a text within the interpreter's digit limit scans to tokens within the limit -/
theorem lex_digitsOK (s : List Char) (h : s.length ≤ PGA.Gen.Chars.intMaxStrDigits) : ∀ t ∈ lex s, t.digitsOK := by
  intro t ht
  have := lexGo_bodyLen s .idle t ht
  cases t with
  | num neg body => simp [Tok.digitsOK, Tok.bodyLen, LexSt.accLen] at this ⊢; omega
  | word s => trivial
  | sym c => trivial


/-! ## a spaced rendering scans back to its tokens -/

/-- the token texts separated (and followed) by one blank -/
def spaced : List Tok → List Char
  | [] => []
  | t :: ts => t.text ++ ' ' :: spaced ts

/-- tokens as the renderer produces them -/
def CleanTok : Tok → Prop
  | .num _ body => body ≠ [] ∧ ∀ c ∈ body, isNumChar c = true
  | .word s => s ≠ [] ∧ ∀ c ∈ s, isAsciiAlpha c = true
  | .sym c => c = '(' ∨ c = ')' ∨ c = '^' ∨ c = '*' ∨ c = '/'

instance : DecidablePred CleanTok := fun t => by
  cases t <;> simp only [CleanTok] <;> infer_instance

theorem blank_facts : isNumChar ' ' = false ∧ isAsciiAlpha ' ' = false ∧ isSpaceChar ' ' = true := by
  refine ⟨?_, ?_, ?_⟩ <;> decide +kernel

theorem lexStart_blank (rest : List Char) : lexStart ' ' rest = ([], .idle) := by
  obtain ⟨h1, h2, h3⟩ := blank_facts
  unfold lexStart
  simp [h1, h2, h3]

theorem lexGo_idle_blank (rest : List Char) : lexGo .idle (' ' :: rest) = lexGo .idle rest := by
  simp [lexGo, lexStart_blank]

theorem lexGo_inNum (neg : Bool) : ∀ (body acc rest : List Char), (∀ c ∈ body, isNumChar c = true) →
    lexGo (.inNum neg acc) (body ++ ' ' :: rest) = .num neg (acc ++ body) :: lexGo .idle rest := by
  intro body
  induction body with
  | nil =>
    intro acc rest _
    simp [lexGo, blank_facts.1, lexStart_blank]
  | cons c body ih =>
    intro acc rest h
    have hc : isNumChar c = true := h c List.mem_cons_self
    simp only [List.cons_append, lexGo, hc, if_true]
    rw [ih (acc ++ [c]) rest (fun d hd => h d (List.mem_cons_of_mem _ hd))]
    simp

theorem lexGo_inWord : ∀ (s acc rest : List Char), (∀ c ∈ s, isAsciiAlpha c = true) →
    lexGo (.inWord acc) (s ++ ' ' :: rest) = .word (acc ++ s) :: lexGo .idle rest := by
  intro s
  induction s with
  | nil =>
    intro acc rest _
    simp [lexGo, blank_facts.2.1, lexStart_blank]
  | cons c s ih =>
    intro acc rest h
    have hc : isAsciiAlpha c = true := h c List.mem_cons_self
    simp only [List.cons_append, lexGo, hc, if_true]
    rw [ih (acc ++ [c]) rest (fun d hd => h d (List.mem_cons_of_mem _ hd))]
    simp

/-- ASCII letters are below 128 … -/
theorem alpha_lt (c : Char) (h : isAsciiAlpha c = true) : c.toNat < 128 := by
  simp only [isAsciiAlpha, Bool.or_eq_true, Bool.and_eq_true, decide_eq_true_eq] at h
  have h1 : ∀ a b : Char, a ≤ b → a.toNat ≤ b.toNat := fun a b h => h
  rcases h with ⟨_, h⟩ | ⟨_, h⟩
  · have := h1 _ _ h
    have : 'z'.toNat = 122 := by decide
    omega
  · have := h1 _ _ h
    have : 'Z'.toNat = 90 := by decide
    omega

/-- … and none of the 128 ASCII characters is both a letter and a `[.\d]` character or the minus sign -/
theorem alpha_table : ∀ n : Fin 128, isAsciiAlpha (Char.ofNat n.val) = true →
    isNumChar (Char.ofNat n.val) = false ∧ (Char.ofNat n.val == '-') = false := by decide +kernel

theorem alpha_not_num (c : Char) (h : isAsciiAlpha c = true) : isNumChar c = false ∧ (c == '-') = false := by
  have hlt := alpha_lt c h
  have hc : Char.ofNat c.toNat = c := Char.ofNat_toNat c
  have := alpha_table ⟨c.toNat, hlt⟩ (by simpa [hc] using h)
  simpa [hc] using this

theorem minus_facts : isNumChar '-' = false := by decide +kernel

theorem sym_facts : ∀ c ∈ ['(', ')', '^', '*', '/'],
    isNumChar c = false ∧ (c == '-') = false ∧ isAsciiAlpha c = false ∧ (c == '\n') = false ∧ isSpaceChar c = false := by
  decide +kernel

theorem lexGo_tok (t : Tok) (h : CleanTok t) (rest : List Char) :
    lexGo .idle (t.text ++ ' ' :: rest) = t :: lexGo .idle rest := by
  cases t with
  | num neg body =>
    obtain ⟨hne, hall⟩ := h
    cases body with
    | nil => exact absurd rfl hne
    | cons b body =>
      have hb : isNumChar b = true := hall b List.mem_cons_self
      cases neg with
      | false =>
        simp only [Tok.text, Bool.false_eq_true, if_false, List.cons_append, lexGo, lexStart, hb, if_true, List.nil_append]
        rw [lexGo_inNum false body [b] rest (fun d hd => hall d (List.mem_cons_of_mem _ hd))]
        simp
      | true =>
        simp only [Tok.text, if_true, List.cons_append, lexGo, lexStart, minus_facts, Bool.false_eq_true, if_false,
          beq_self_eq_true, nextIsNumChar, hb, Bool.and_self, List.nil_append]
        rw [lexGo_inNum true body [b] rest (fun d hd => hall d (List.mem_cons_of_mem _ hd))]
        simp
  | word s =>
    obtain ⟨hne, hall⟩ := h
    cases s with
    | nil => exact absurd rfl hne
    | cons b s =>
      have hb : isAsciiAlpha b = true := hall b List.mem_cons_self
      obtain ⟨hn, hm⟩ := alpha_not_num b hb
      simp only [Tok.text, List.cons_append, lexGo, lexStart, hn, Bool.false_eq_true, if_false, hm, Bool.false_and,
        hb, if_true, List.nil_append]
      rw [lexGo_inWord s [b] rest (fun d hd => hall d (List.mem_cons_of_mem _ hd))]
      simp
  | sym c =>
    have hmem : c ∈ ['(', ')', '^', '*', '/'] := by
      simp only [List.mem_cons, List.mem_nil_iff, or_false]; exact h
    obtain ⟨h1, h2, h3, h4, h5⟩ := sym_facts c hmem
    have hb := lexGo_idle_blank rest
    simp only [lexGo] at hb
    simp only [Tok.text, List.cons_append, List.nil_append, lexGo, lexStart.eq_1 c, h1, h2, h3, h4, h5,
      Bool.false_eq_true, if_false, Bool.false_and, List.cons_append, hb]

/-- the scanner reads a spaced rendering of clean tokens back exactly -/
theorem lex_spaced (ts : List Tok) (h : ∀ t ∈ ts, CleanTok t) : lex (spaced ts) = ts := by
  unfold lex
  induction ts with
  | nil => simp [spaced, lexGo, LexSt.flush]
  | cons t ts ih =>
    simp only [spaced]
    rw [lexGo_tok t (h t List.mem_cons_self), ih (fun t' ht' => h t' (List.mem_cons_of_mem _ ht'))]

end PGA.Units
