import PGA.Props.C04
/-! Which *names* a decomposition lists (not only which counts it gives them): `GroupLibrary.Estimate` looks every
listed name up — a name listed with the count 0 must still have data — so the composition theorems need the key set
of the dictionary `GetDescriptors` returns, under a renumbering (C03) and for a disjoint union (C04). -/
namespace PGA.Scheme
open PGA

/-! ### the dictionary operations -/

theorem mem_keys_countGroups (a : Assign) (nbrs : List (List Nat)) (is : List Nat) (c : Counts) (t : String) :
    t ∈ Counts.keys (countGroups a nbrs is c) ↔ t ∈ Counts.keys c ∨ ∃ i ∈ is, groupName a nbrs i = some t := by
  induction is generalizing c with
  | nil => simp [countGroups]
  | cons i is ih =>
    unfold countGroups
    cases hg : groupName a nbrs i with
    | none =>
      rw [ih]
      constructor
      · rintro (h | ⟨j, hj, hgj⟩)
        · exact Or.inl h
        · exact Or.inr ⟨j, List.mem_cons_of_mem _ hj, hgj⟩
      · rintro (h | ⟨j, hj, hgj⟩)
        · exact Or.inl h
        · rcases List.mem_cons.mp hj with rfl | hj
          · rw [hg] at hgj; cases hgj
          · exact Or.inr ⟨j, hj, hgj⟩
    | some g =>
      rw [ih, Counts.mem_keys_add]
      constructor
      · rintro ((rfl | h) | ⟨j, hj, hgj⟩)
        · exact Or.inr ⟨i, List.mem_cons_self, hg⟩
        · exact Or.inl h
        · exact Or.inr ⟨j, List.mem_cons_of_mem _ hj, hgj⟩
      · rintro (h | ⟨j, hj, hgj⟩)
        · exact Or.inl (Or.inr h)
        · rcases List.mem_cons.mp hj with rfl | hj
          · rw [hg] at hgj; cases hgj; exact Or.inl (Or.inl rfl)
          · exact Or.inr ⟨j, hj, hgj⟩

/-- a name is listed by the group loop exactly when some atom contributes it -/
theorem mem_keys_countGroups_iff_count (a : Assign) (nbrs : List (List Nat)) (is : List Nat) (t : String) :
    t ∈ Counts.keys (countGroups a nbrs is []) ↔
      (is.filter fun i => decide (groupName a nbrs i = some t)).length ≠ 0 := by
  rw [mem_keys_countGroups]
  simp only [Counts.keys, List.map_nil, List.not_mem_nil, false_or, ne_eq, List.length_eq_zero_iff,
    List.filter_eq_nil_iff, decide_eq_true_eq, not_forall, Classical.not_not]
  constructor
  · rintro ⟨i, hi, h⟩; exact ⟨i, hi, h⟩
  · rintro ⟨i, hi, h⟩; exact ⟨i, hi, h⟩

theorem mem_keys_countDescs (ds : List DescPat) (c : Counts) (t : String) (h : t ∈ Counts.keys (countDescs ds c)) :
    t ∈ Counts.keys c ∨ ∃ d ∈ ds, d.name = t := by
  induction ds generalizing c with
  | nil => exact Or.inl (by simpa [countDescs] using h)
  | cons d ds ih =>
    unfold countDescs at h
    simp only at h
    split at h
    · rcases ih c h with h' | ⟨d', hd', e⟩
      · exact Or.inl h'
      · exact Or.inr ⟨d', List.mem_cons_of_mem _ hd', e⟩
    · rcases ih _ h with h' | ⟨d', hd', e⟩
      · rcases (Counts.mem_keys_add c d.name t _).mp h' with e | h''
        · exact Or.inr ⟨d, List.mem_cons_self, e.symm⟩
        · exact Or.inl h''
      · exact Or.inr ⟨d', List.mem_cons_of_mem _ hd', e⟩

theorem Counts.mem_keys_set (c : Counts) (k x : String) (v : Rat) :
    x ∈ Counts.keys (c.set k v) ↔ x = k ∨ x ∈ Counts.keys c := by
  induction c with
  | nil => simp [Counts.set, Counts.keys]
  | cons p c ih =>
    obtain ⟨k0, v0⟩ := p
    unfold Counts.set
    by_cases h0 : k0 = k
    · subst h0; simp [Counts.keys]
    · simp only [h0, if_false]
      simp only [Counts.keys, List.map_cons, List.mem_cons] at ih ⊢
      rw [ih]
      constructor
      · rintro (h | h | h) <;> simp [h]
      · rintro (h | h | h) <;> simp [h]

theorem Counts.nodup_set (c : Counts) (k : String) (v : Rat) (h : (Counts.keys c).Nodup) :
    (Counts.keys (c.set k v)).Nodup := by
  induction c with
  | nil => simp [Counts.set, Counts.keys]
  | cons p c ih =>
    obtain ⟨k0, v0⟩ := p
    have hc : (Counts.keys c).Nodup := (List.nodup_cons.mp h).2
    have hn : k0 ∉ Counts.keys c := (List.nodup_cons.mp h).1
    unfold Counts.set
    by_cases h0 : k0 = k
    · subst h0; simpa [Counts.keys] using h
    · simp only [h0, if_false]
      show (k0 :: Counts.keys (Counts.set c k v)).Nodup
      refine List.nodup_cons.mpr ⟨?_, ih hc⟩
      rw [Counts.mem_keys_set]
      rintro (h' | h')
      · exact h0 h'
      · exact hn h'

/-- `all = groups.copy(); all.update(descs)` lists the names of both -/
theorem mem_keys_mergeUpdate (g d : Counts) (t : String) :
    t ∈ Counts.keys (mergeUpdate g d) ↔ t ∈ Counts.keys g ∨ t ∈ Counts.keys d := by
  induction d generalizing g with
  | nil => simp [mergeUpdate, Counts.keys]
  | cons p d ih =>
    obtain ⟨k, v⟩ := p
    simp only [mergeUpdate]
    rw [ih, Counts.mem_keys_set]
    have hk : Counts.keys ((k, v) :: d) = k :: Counts.keys d := rfl
    rw [hk, List.mem_cons]
    tauto

theorem nodup_mergeUpdate (g d : Counts) (hg : (Counts.keys g).Nodup) : (Counts.keys (mergeUpdate g d)).Nodup := by
  induction d generalizing g with
  | nil => simpa [mergeUpdate]
  | cons p d ih =>
    obtain ⟨k, v⟩ := p
    simp only [mergeUpdate]
    exact ih _ (Counts.nodup_set g k v hg)

/-! ### the dictionary `GetDescriptors` returns -/

theorem getDescriptors_ok (inp : Input) (res : Counts) (hr : getDescriptors inp = .ok res) :
    ∃ a, assignCentres inp = .ok a ∧ res = mergeUpdate (groupsOf inp a) (descsOf inp) := by
  unfold getDescriptors at hr
  cases ha : assignCentres inp with
  | error e => simp [ha] at hr
  | ok a =>
    simp only [ha, Except.ok.injEq] at hr
    exact ⟨a, rfl, hr.symm⟩

/-- it is a dictionary: no name twice -/
theorem getDescriptors_nodup (inp : Input) (res : Counts) (hr : getDescriptors inp = .ok res) :
    (Counts.keys res).Nodup := by
  obtain ⟨a, _, rfl⟩ := getDescriptors_ok inp res hr
  exact nodup_mergeUpdate _ _ (remapAll_nodup _ _ (countGroups_nodup _ _ _ _ (by simp [Counts.keys])))

theorem getDescriptors_keys (inp : Input) (a : Assign) (res : Counts) (ha : assignCentres inp = .ok a)
    (hr : getDescriptors inp = .ok res) (t : String) :
    t ∈ Counts.keys res ↔ t ∈ Counts.keys (groupsOf inp a) ∨ t ∈ Counts.keys (descsOf inp) := by
  obtain ⟨a', ha', rfl⟩ := getDescriptors_ok inp res hr
  rw [ha] at ha'; cases ha'
  exact mem_keys_mergeUpdate _ _ t

/-- the names listed after the remap pass depend only on the names listed before it -/
theorem mem_keys_remapAll_congr (rm : List (String × List (Rat × String))) (hcf : ChainFree rm)
    (c c' : Counts) (hc : (Counts.keys c).Nodup) (hc' : (Counts.keys c').Nodup)
    (hk : ∀ t, t ∈ Counts.keys c ↔ t ∈ Counts.keys c') (t : String) :
    t ∈ Counts.keys (remapAll rm c) ↔ t ∈ Counts.keys (remapAll rm c') := by
  rw [mem_keys_remapAll rm hcf c hc, mem_keys_remapAll rm hcf c' hc']
  simp only [hk]

/-! ### renumbering (C03) -/

/-- **the names listed do not depend on the numbering of the atoms** -/
theorem descriptors_relabel_keys {inp inp' : Input} {π : Nat → Nat} (R : Relabel inp inp' π) (hcf : ChainFree inp.remaps)
    (res res' : Counts) (hr : getDescriptors inp = .ok res) (hr' : getDescriptors inp' = .ok res') (t : String) :
    t ∈ Counts.keys res' ↔ t ∈ Counts.keys res := by
  obtain ⟨a, ha, _⟩ := getDescriptors_ok inp res hr
  obtain ⟨a', ha', _⟩ := getDescriptors_ok inp' res' hr'
  rw [getDescriptors_keys inp a res ha hr, getDescriptors_keys inp' a' res' ha' hr']
  have hd : countDescs inp'.descs [] = countDescs inp.descs [] := countDescs_relabel_aux R.inj _ _ R.descs []
  have hnil : (Counts.keys ([] : Counts)).Nodup := by simp [Counts.keys]
  have hg : t ∈ Counts.keys (groupsOf inp' a') ↔ t ∈ Counts.keys (groupsOf inp a) := by
    unfold groupsOf
    rw [R.remaps]
    apply mem_keys_remapAll_congr inp.remaps hcf
    · exact countGroups_nodup _ _ _ _ hnil
    · exact countGroups_nodup _ _ _ _ hnil
    · intro g
      rw [mem_keys_countGroups_iff_count, mem_keys_countGroups_iff_count, groupCount_relabel R a a' ha ha' g]
  have hdd : descsOf inp' = descsOf inp := by unfold descsOf; rw [hd, R.remaps]
  rw [hg, hdd]

/-! ### disjoint union (C04) -/

/-- **the names listed for a disjoint union are those listed for either part** (no hypothesis on the separation of group
and correction-descriptor names is needed for the names, only for the counts) -/
theorem descriptors_union_keys {A B : Input} (hs : SameScheme A B) (hA : WF A) (hB : WF B) (hcf : ChainFree A.remaps)
    (rU rA rB : Counts) (hU : getDescriptors (union A B) = .ok rU) (hrA : getDescriptors A = .ok rA)
    (hrB : getDescriptors B = .ok rB) (t : String) :
    t ∈ Counts.keys rU ↔ t ∈ Counts.keys rA ∨ t ∈ Counts.keys rB := by
  obtain ⟨u, hu, _⟩ := getDescriptors_ok _ rU hU
  obtain ⟨a, ha, _⟩ := getDescriptors_ok _ rA hrA
  obtain ⟨b, hb, _⟩ := getDescriptors_ok _ rB hrB
  rw [getDescriptors_keys _ u rU hu hU, getDescriptors_keys _ a rA ha hrA, getDescriptors_keys _ b rB hb hrB]
  have hremB : B.remaps = A.remaps := hs.remaps
  have hUrem : (union A B).remaps = A.remaps := rfl
  have hnil : (Counts.keys ([] : Counts)).Nodup := by simp [Counts.keys]
  -- correction descriptors
  have hdesc := countDescs_union_aux A.n A.descs B.descs hs.descs hA.desc_lt
    (fun d hd m hm => (hB.desc_lt d hd m hm).1) [] [] [] (by intro t; simp [Counts.get]) (by intro t; simp [Counts.keys])
  have hUdescs : (union A B).descs
      = List.zipWith (fun d e => (⟨d.name, d.ms ++ e.ms.map (shift A.n)⟩ : DescPat)) A.descs B.descs := rfl
  have hdk : t ∈ Counts.keys (descsOf (union A B)) ↔ t ∈ Counts.keys (descsOf A) ∨ t ∈ Counts.keys (descsOf B) := by
    unfold descsOf
    rw [hUrem, hremB, hUdescs]
    exact mem_keys_remapAll_union A.remaps hcf _ _ _ (countDescs_nodup _ [] hnil) (countDescs_nodup _ [] hnil)
      (countDescs_nodup _ [] hnil) hdesc.2 t
  -- groups
  have hgk : t ∈ Counts.keys (groupsOf (union A B) u) ↔ t ∈ Counts.keys (groupsOf A a) ∨ t ∈ Counts.keys (groupsOf B b) := by
    unfold groupsOf
    rw [hUrem, hremB]
    apply mem_keys_remapAll_union A.remaps hcf _ _ _ (countGroups_nodup _ _ _ _ hnil) (countGroups_nodup _ _ _ _ hnil)
      (countGroups_nodup _ _ _ _ hnil)
    intro g
    rw [mem_keys_countGroups_iff_count, mem_keys_countGroups_iff_count, mem_keys_countGroups_iff_count,
      groupCount_union hs hA u a b hu ha hb g]
    omega
  rw [hgk, hdk]
  tauto

end PGA.Scheme

/-! ## end to end: `decompose` -/
namespace PGA.Decompose
open PGA PGA.Spec PGA.Scheme PGA.Match

theorem decompose_nodup (S : SchemeDef) (m : Mol) (res : Counts) (h : decompose S m = .ok res) :
    (Counts.keys res).Nodup := getDescriptors_nodup _ res h

/-- **C03, names**: the decomposition of a renumbered graph lists the same names -/
theorem decompose_relabel_keys (S : SchemeDef) {π : Nat → Nat} {m m' : Mol} (iso : MolIso π m m')
    (hm : m.wf = true) (hq : S.wf = true) (hs : S.noStar = true)
    (hcap : maxRaw S (aromatizeBenson m) < maxMatches) (hcap' : maxRaw S (aromatizeBenson m') < maxMatches)
    (hcf : ChainFree S.remaps) (res res' : Counts) (h : decompose S m = .ok res) (h' : decompose S m' = .ok res') (t : String) :
    t ∈ Counts.keys res' ↔ t ∈ Counts.keys res := by
  have hm' := iso.wf hm
  have R := toInput_relabel S (iso.aromatizeBenson hm hm') (wf_aromatizeBenson m hm) (wf_aromatizeBenson m' hm') hq hs hcap hcap'
  exact descriptors_relabel_keys R hcf res res' h h' t

/-- **C03, names, presentation of the rings**: under the guard of `C03_decompose_ring_presentation_partial` the decomposition
lists the same names however the rings are presented -/
theorem decompose_ring_presentation_keys (S : SchemeDef) (m : Mol) (rs' : List (List Nat))
    (h : RingsSame m.rings rs') (hd : EligibleRingsBondDisjoint m)
    (hm : m.wf = true) (hq : S.wf = true) (hs : S.noStar = true)
    (hcap : maxRaw S (aromatizeBenson m) < maxMatches)
    (hcap' : maxRaw S { aromatizeBenson m with rings := rs' } < maxMatches) (hcf : ChainFree S.remaps)
    (res res' : Counts) (h1 : decompose S m = .ok res) (h2 : decompose S { m with rings := rs' } = .ok res') (t : String) :
    t ∈ Counts.keys res' ↔ t ∈ Counts.keys res := by
  have ha := wf_aromatizeBenson m hm
  have hr : RingsSame (aromatizeBenson m).rings rs' := by
    have : (aromatizeBenson m).rings = m.rings := aromatizeRings_rings m.rings m
    rw [this]; exact h
  have R := toInput_rings_relabel S (aromatizeBenson m) ha rs' hr hq hs hcap hcap'
  unfold decompose at h2
  rw [aromatizeBenson_rings m rs' h hd] at h2
  exact descriptors_relabel_keys R hcf res res' h1 h2 t

/-- **C04, names**: the decomposition of `A ⊔ B` lists exactly the names listed for `A` or for `B` -/
theorem decompose_union_keys (S : SchemeDef) (A B : Mol) (hA : A.wf = true) (hB : B.wf = true)
    (hq : S.wf = true) (hs : S.noStar = true) (hmp : S.noMolPrefix = true) (hcn : S.connected = true)
    (capa : maxRaw S (aromatizeBenson A) < maxMatches) (capb : maxRaw S (aromatizeBenson B) < maxMatches)
    (capu : maxRaw S ((aromatizeBenson A).union (aromatizeBenson B)) < maxMatches)
    (hcf : ChainFree S.remaps) (rU rA rB : Counts)
    (hU : decompose S (A.union B) = .ok rU) (hrA : decompose S A = .ok rA) (hrB : decompose S B = .ok rB) (t : String) :
    t ∈ Counts.keys rU ↔ t ∈ Counts.keys rA ∨ t ∈ Counts.keys rB := by
  have ha := wf_aromatizeBenson A hA
  have hb := wf_aromatizeBenson B hB
  have R := toInput_union_relabel S _ _ ha hb hq hs hmp hcn capa capb capu
  have hss := sameScheme_toInput S (aromatizeBenson A) (aromatizeBenson B)
  have wA := wF_toInput S _ ha hq hs hcn capa
  have wB := wF_toInput S _ hb hq hs hcn capb
  have hdec : decompose S (A.union B) = getDescriptors (toInput S ((aromatizeBenson A).union (aromatizeBenson B))) := by
    unfold decompose; rw [aromatizeBenson_union A B hA hB]
  rw [hdec] at hU
  have hcfA : ChainFree (toInput S (aromatizeBenson A)).remaps := hcf
  cases hu' : getDescriptors (Scheme.union (toInput S (aromatizeBenson A)) (toInput S (aromatizeBenson B))) with
  | error e =>
    cases e
    have Rl := PGA.Scheme.C03_descriptors_relabel R (show ChainFree (Scheme.union _ _).remaps from hcf)
    have := Rl.1.2 hu'
    rw [hU] at this; cases this
  | ok rU' =>
    rw [descriptors_relabel_keys R (show ChainFree (Scheme.union _ _).remaps from hcf) rU' rU hu' hU t]
    exact descriptors_union_keys hss wA wB hcfA rU' rA rB hu' hrA hrB t

end PGA.Decompose
