import PGA.Spec.Estimate
import Mathlib.Algebra.BigOperators.Group.Finset.Basic
import Mathlib.Algebra.BigOperators.Ring.Finset
import Mathlib.Algebra.BigOperators.Field
import Mathlib.Algebra.BigOperators.Fin
import Mathlib.Data.List.GetD
import Mathlib.Algebra.Order.BigOperators.Group.Finset
import Mathlib.Algebra.Order.Field.Rat
import Mathlib.Algebra.Order.AbsoluteValue.Basic
import Mathlib.Tactic.Linarith
import Mathlib.Tactic.Ring
/-! A symmetric, diagonally dominant matrix (hence with non-negative diagonal) is positive semi-definite — for any size.
First for functions on `Fin n`, then for the list representation the model and the generated tables use
(`specQuad`, `PSD` of `PGA/Spec/Estimate.lean`).  Reused by the PSD certificate of C14 (M = LLᵀ + E, E diagonally dominant). -/
namespace PGA.Estimate
open Finset

theorem dd_term (e x y : ℚ) : -(|e| * (x ^ 2 + y ^ 2) / 2) ≤ x * e * y := by
  rcases abs_cases e with ⟨h, _⟩ | ⟨h, _⟩
  · rw [h]; nlinarith [sq_nonneg (x + y), mul_nonneg ‹0 ≤ e› (sq_nonneg (x + y))]
  · rw [h]; nlinarith [sq_nonneg (x - y), mul_nonneg (le_of_lt (neg_pos.mpr ‹e < 0›)) (sq_nonneg (x - y))]

theorem diagDominant_psd {n : ℕ} (E : Fin n → Fin n → ℚ) (hsym : ∀ i j, E i j = E j i)
    (hdd : ∀ i, ∑ j ∈ univ.erase i, |E i j| ≤ E i i) (x : Fin n → ℚ) :
    0 ≤ ∑ i, ∑ j, x i * E i j * x j := by
  classical
  let a : Fin n → Fin n → ℚ := fun i j => if i = j then 0 else |E i j|
  have ha_sym : ∀ i j, a i j = a j i := by
    intro i j
    simp only [a]
    by_cases h : i = j
    · subst h; rfl
    · have h' : ¬ j = i := fun e => h e.symm
      simp [h, h', hsym i j]
  have hrow : ∀ i, ∑ j, a i j = ∑ j ∈ univ.erase i, |E i j| := by
    intro i
    rw [← Finset.add_sum_erase univ (a i) (mem_univ i)]
    simp only [a, if_true, zero_add]
    apply Finset.sum_congr rfl
    intro j hj
    have : ¬ i = j := fun e => (Finset.ne_of_mem_erase hj) e.symm
    simp [this]
  have hterm : ∀ i j, (if i = j then E i i * x i ^ 2 else 0) - a i j * (x i ^ 2 + x j ^ 2) / 2 ≤ x i * E i j * x j := by
    intro i j
    by_cases h : i = j
    · subst h
      simp only [a, if_true]
      nlinarith
    · simp only [a, h, if_false]
      have := dd_term (E i j) (x i) (x j)
      linarith
  have hsum : ∑ i, ∑ j, ((if i = j then E i i * x i ^ 2 else 0) - a i j * (x i ^ 2 + x j ^ 2) / 2)
      = ∑ i, (E i i - ∑ j, a i j) * x i ^ 2 := by
    have h1 : ∑ i, ∑ j, (if i = j then E i i * x i ^ 2 else 0) = ∑ i, E i i * x i ^ 2 := by
      apply Finset.sum_congr rfl; intro i _; simp
    have h2 : ∑ i, ∑ j, a i j * (x i ^ 2 + x j ^ 2) / 2 = ∑ i, (∑ j, a i j) * x i ^ 2 := by
      have e1 : ∑ i, ∑ j, a i j * (x i ^ 2 + x j ^ 2) / 2
          = (∑ i, ∑ j, a i j * x i ^ 2) / 2 + (∑ i, ∑ j, a i j * x j ^ 2) / 2 := by
        rw [← add_div, ← Finset.sum_add_distrib, Finset.sum_div]
        apply Finset.sum_congr rfl; intro i _
        rw [← Finset.sum_add_distrib, Finset.sum_div]
        apply Finset.sum_congr rfl; intro j _
        ring
      have e2 : ∑ i, ∑ j, a i j * x j ^ 2 = ∑ i, ∑ j, a i j * x i ^ 2 := by
        rw [Finset.sum_comm]
        apply Finset.sum_congr rfl; intro i _
        apply Finset.sum_congr rfl; intro j _
        rw [ha_sym]
      rw [e1, e2]
      rw [← add_div, ← two_mul, mul_div_cancel_left₀ _ (two_ne_zero)]
      apply Finset.sum_congr rfl; intro i _
      rw [Finset.sum_mul]
    simp only [Finset.sum_sub_distrib, h1, h2]
    rw [← Finset.sum_sub_distrib]
    apply Finset.sum_congr rfl; intro i _
    ring
  calc (0 : ℚ) ≤ ∑ i, (E i i - ∑ j, a i j) * x i ^ 2 := by
        apply Finset.sum_nonneg; intro i _
        apply mul_nonneg _ (sq_nonneg _)
        rw [hrow i]; linarith [hdd i]
    _ = ∑ i, ∑ j, ((if i = j then E i i * x i ^ 2 else 0) - a i j * (x i ^ 2 + x j ^ 2) / 2) := hsum.symm
    _ ≤ ∑ i, ∑ j, x i * E i j * x j := by
        apply Finset.sum_le_sum; intro i _
        apply Finset.sum_le_sum; intro j _
        exact hterm i j

/-- entry `(i, j)` of a matrix given by rows (0 outside) -/
def entry (M : List (List Rat)) (i j : Nat) : Rat := (M.getD i []).getD j 0

theorem sum_zipWith_fin {α β : Type} (f : α → β → ℚ) (da : α) (db : β) :
    ∀ (n : ℕ) (a : List α) (b : List β), a.length = n → b.length = n →
      (List.zipWith f a b).sum = ∑ i : Fin n, f (a.getD i da) (b.getD i db)
  | 0, a, b, ha, hb => by
    have : a = [] := List.length_eq_zero_iff.mp ha
    subst this; simp
  | n + 1, [], _, ha, _ => by simp at ha
  | n + 1, _ :: _, [], _, hb => by simp at hb
  | n + 1, x :: xs, y :: ys, ha, hb => by
    rw [Fin.sum_univ_succ]
    simp [sum_zipWith_fin f da db n xs ys (by simpa using ha) (by simpa using hb)]

/-- the list quadratic form as a double sum over `Fin n` -/
theorem specQuad_eq_sum (n : ℕ) (M : List (List Rat)) (x : List Rat) (hM : Square n M) (hx : x.length = n) :
    specQuad M x = ∑ i : Fin n, ∑ j : Fin n, x.getD i 0 * entry M i j * x.getD j 0 := by
  unfold specQuad
  rw [sum_zipWith_fin _ 0 [] n x M hx hM.1]
  apply Finset.sum_congr rfl
  intro i _
  have hrow : (M.getD i []).length = n := by
    apply hM.2
    rw [List.getD_eq_getElem (l := M) (d := []) (by rw [hM.1]; exact i.2)]
    exact List.getElem_mem _
  unfold specDot
  rw [sum_zipWith_fin _ 0 0 n _ x hrow hx, Finset.mul_sum]
  apply Finset.sum_congr rfl
  intro j _
  simp only [entry]
  ring

/-- **General lemma** (any size): a square matrix that is symmetric and diagonally dominant
(`Σ_{j≠i} |E_ij| ≤ E_ii` for every row, so the diagonal is non-negative) satisfies `0 ≤ xᵀEx` for every `x`. -/
theorem diagDominant_PSD (n : ℕ) (E : List (List Rat)) (hsq : Square n E)
    (hsym : ∀ i j : Fin n, entry E i j = entry E j i)
    (hdd : ∀ i : Fin n, ∑ j ∈ Finset.univ.erase i, |entry E i j| ≤ entry E i i) : PSD n E := by
  intro x hx
  rw [specQuad_eq_sum n E x hsq hx]
  exact diagDominant_psd (fun i j => entry E i j) hsym hdd (fun i => x.getD i 0)

end PGA.Estimate
