import PGA.Spec.GroupName
import PGA.Proofs.Chars
/-! Helper lemmas for C19 (group-name round trip). -/
namespace PGA.GroupName
open PGA.Chars

/-! ### splitting on parentheses -/

def NoParen (n : Name) : Prop := ∀ c ∈ n, isParen c = false

theorem splitParens_ne_nil (s : List Char) : splitParens s ≠ [] := by
  induction s with
  | nil => simp [splitParens]
  | cons c cs ih =>
    unfold splitParens
    split
    · simp
    · split <;> simp

theorem splitParens_noParen_append (pre : Name) (hpre : NoParen pre) (c : Char) (hc : isParen c = true)
    (rest : List Char) : splitParens (pre ++ c :: rest) = pre :: splitParens rest := by
  induction pre with
  | nil =>
    simp only [List.nil_append]
    rw [splitParens]
    cases h : splitParens rest with
    | nil => exact absurd h (splitParens_ne_nil rest)
    | cons p ps => simp [hc]
  | cons a pre ih =>
    have ha : isParen a = false := hpre a (by simp)
    have hpre' : NoParen pre := fun x hx => hpre x (by simp [hx])
    simp only [List.cons_append]
    rw [splitParens, ih hpre']
    simp [ha]

theorem splitParens_noParen (pre : Name) (hpre : NoParen pre) : splitParens pre = [pre] := by
  induction pre with
  | nil => simp [splitParens]
  | cons a pre ih =>
    have ha : isParen a = false := hpre a (by simp)
    have hpre' : NoParen pre := fun x hx => hpre x (by simp [hx])
    rw [splitParens, ih hpre']
    simp [ha]


theorem noParen_of_WFName {n : Name} (h : WFName n = true) : NoParen n := by
  intro c hc
  have := (List.all_eq_true.mp h) c hc
  simpa using this

theorem noParen_showNat (n : Nat) : NoParen (showNat n) := by
  intro c hc
  obtain ⟨d, hd, rfl⟩ := showNat_all_digit n c hc
  have := digitChar_ne_paren ⟨d, hd⟩
  simp [isParen, this.1, this.2]

theorem noParen_suffix (r : Run) : NoParen r.suffix := by
  unfold Run.suffix
  cases r.cnt with
  | none => intro c hc; simp at hc
  | some n => exact noParen_showNat n

/-! ### parts of a spelling -/

def tailParts (runs : List Run) : List Name := runs.flatMap fun r => [r.name, r.suffix]

theorem splitParens_spell_aux (pre : Name) (hpre : NoParen pre) (runs : List Run)
    (h : ∀ r ∈ runs, NoParen r.name) :
    splitParens (pre ++ (runs.map fun r => '(' :: (r.name ++ ')' :: r.suffix)).flatten)
      = pre :: tailParts runs := by
  induction runs generalizing pre with
  | nil => simp [tailParts, splitParens_noParen pre hpre]
  | cons r rs ih =>
    have hr : NoParen r.name := h r (by simp)
    have hrs : ∀ r ∈ rs, NoParen r.name := fun x hx => h x (by simp [hx])
    simp only [List.map_cons, List.flatten_cons, List.cons_append, List.append_assoc]
    rw [splitParens_noParen_append pre hpre '(' (by decide)]
    rw [splitParens_noParen_append r.name hr ')' (by decide)]
    rw [ih r.suffix (noParen_suffix r) hrs]
    simp [tailParts]

theorem splitParens_spell (csg : Name) (runs : List Run) (hc : NoParen csg)
    (h : ∀ r ∈ runs, NoParen r.name) : splitParens (spell csg runs) = csg :: tailParts runs :=
  splitParens_spell_aux csg hc runs h

/-! ### the parse loop on the parts of a spelling -/

theorem parseLoop_nil (next : Option Name) (acc : List Name) :
    parseLoop [] next acc = .ok (flush next acc) := by
  simp only [parseLoop]

theorem parseLoop_cons_empty (part : Name) (rest : List Name) (next : Option Name) (acc : List Name)
    (h : part.isEmpty = true) : parseLoop (part :: rest) next acc = parseLoop rest next acc := by
  simp [parseLoop, h]

theorem parseLoop_cons_name (part : Name) (rest : List Name) (next : Option Name) (acc : List Name)
    (h : part.isEmpty = false) (hd : isDigitStr part = false) :
    parseLoop (part :: rest) next acc = parseLoop rest (some part) (flush next acc) := by
  simp [parseLoop, h, hd]

theorem parseLoop_cons_count (part : Name) (rest : List Name) (p : Name) (n : Nat) (acc : List Name)
    (h : part.isEmpty = false) (hd : isDigitStr part = true) (hn : readNat part = some n) :
    parseLoop (part :: rest) (some p) acc = parseLoop rest none (acc ++ List.replicate n p) := by
  simp [parseLoop, h, hd, hn]

theorem parseLoop_cons_count_none (part : Name) (rest : List Name) (acc : List Name)
    (h : part.isEmpty = false) (hd : isDigitStr part = true) :
    parseLoop (part :: rest) none acc = .error .syntax := by
  simp [parseLoop, h, hd]

theorem parseLoop_tailParts (runs : List Run)
    (h : ∀ r ∈ runs, WFPsg r.name = true ∧ r.count < intLimit)
    (hpos : 0 < PGA.Gen.Chars.intMaxStrDigits) (next : Option Name) (acc : List Name) :
    parseLoop (tailParts runs) next acc = .ok (flush next acc ++ expandRuns runs) := by
  induction runs generalizing next acc with
  | nil => cases next <;> simp [tailParts, parseLoop_nil, flush, expandRuns]
  | cons r rs ih =>
    have hr := h r (by simp)
    have hrs : ∀ r ∈ rs, WFPsg r.name = true ∧ r.count < intLimit := fun x hx => h x (by simp [hx])
    obtain ⟨hwf, hcnt⟩ := hr
    simp only [WFPsg, Bool.and_eq_true, Bool.not_eq_true'] at hwf
    obtain ⟨⟨_, hne⟩, hnd⟩ := hwf
    have htp : tailParts (r :: rs) = r.name :: r.suffix :: tailParts rs := by simp [tailParts]
    rw [htp, parseLoop_cons_name _ _ _ _ hne hnd]
    cases hc : r.cnt with
    | none =>
      have hs : r.suffix = [] := by simp [Run.suffix, hc]
      have hn : r.count = 1 := by simp [Run.count, hc]
      rw [hs, parseLoop_cons_empty _ _ _ _ rfl, ih hrs]
      simp [flush, expandRuns, hn]
    | some n =>
      have hs : r.suffix = showNat n := by simp [Run.suffix, hc]
      have hn : r.count = n := by simp [Run.count, hc]
      have e1 : (showNat n).isEmpty = false := by
        cases h' : showNat n with
        | nil => exact absurd h' (showNat_ne_nil n)
        | cons _ _ => rfl
      rw [hs, parseLoop_cons_count _ _ _ n _ e1 (isDigitStr_showNat n)
        (readNat_showNat n (hn ▸ hcnt) hpos), ih hrs]
      simp [flush, expandRuns, hn]

/-- Parsing any well-formed spelling gives the centre and exactly the peripherals it denotes. -/
theorem parse_spell (csg : Name) (runs : List Run) (h : WFRuns csg runs)
    (hpos : 0 < PGA.Gen.Chars.intMaxStrDigits) :
    parse (spell csg runs) = .ok ⟨csg, expandRuns runs⟩ := by
  obtain ⟨hc, hr⟩ := h
  have hnp : ∀ r ∈ runs, NoParen r.name := by
    intro r hm
    have := (hr r hm).1
    simp only [WFPsg, Bool.and_eq_true] at this
    exact noParen_of_WFName this.1.1
  unfold parse
  rw [splitParens_spell csg runs (noParen_of_WFName hc) hnp]
  simp only
  rw [parseLoop_tailParts runs hr hpos]
  simp [flush]


/-! ### distinct sorted keys -/

theorem mem_uniq (a : Name) (l : List Name) : a ∈ uniq l ↔ a ∈ l := by
  induction l with
  | nil => simp [uniq]
  | cons b l ih =>
    unfold uniq
    split
    · rename_i h; rw [ih]; constructor
      · intro h'; exact List.mem_cons_of_mem _ h'
      · intro h'; rcases List.mem_cons.mp h' with rfl | h'
        · exact h
        · exact h'
    · simp [ih]

theorem nodup_uniq (l : List Name) : (uniq l).Nodup := by
  induction l with
  | nil => simp [uniq]
  | cons b l ih =>
    unfold uniq
    split
    · exact ih
    · rename_i h; exact List.nodup_cons.mpr ⟨by rwa [mem_uniq], ih⟩

theorem nameLe_trans (a b c : Name) : nameLe a b = true → nameLe b c = true → nameLe a c = true := by
  simp only [nameLe, decide_eq_true_eq]; exact List.le_trans
theorem nameLe_total (a b : Name) : (nameLe a b || nameLe b a) = true := by
  simp only [nameLe, Bool.or_eq_true, decide_eq_true_eq]; exact List.le_total a b
theorem nameLe_antisymm (a b : Name) : nameLe a b = true → nameLe b a = true → a = b := by
  simp only [nameLe, decide_eq_true_eq]; exact List.le_antisymm

theorem mem_keys (a : Name) (l : List Name) : a ∈ keys l ↔ a ∈ l := by
  unfold keys; rw [(List.mergeSort_perm _ _).mem_iff, mem_uniq]

theorem nodup_keys (l : List Name) : (keys l).Nodup := by
  unfold keys; exact (List.mergeSort_perm _ _).nodup_iff.mpr (nodup_uniq l)

theorem uniq_perm {l l' : List Name} (h : l.Perm l') : (uniq l).Perm (uniq l') := by
  rw [List.perm_iff_count]
  intro a
  rw [(nodup_uniq l).count, (nodup_uniq l').count]
  simp only [mem_uniq, h.mem_iff]

/-- the sorted distinct keys depend only on the multiset of peripherals -/
theorem keys_perm {l l' : List Name} (h : l.Perm l') : keys l = keys l' := by
  unfold keys
  apply List.Perm.eq_of_pairwise (le := fun a b => nameLe a b = true)
  · intro a b _ _ hab hba; exact nameLe_antisymm a b hab hba
  · exact List.pairwise_mergeSort nameLe_trans nameLe_total _
  · exact List.pairwise_mergeSort nameLe_trans nameLe_total _
  · exact (List.mergeSort_perm _ _).trans ((uniq_perm h).trans (List.mergeSort_perm _ _).symm)

/-! ### the canonical name is a spelling -/

def canonRun (psgs : List Name) (k : Name) : Run :=
  ⟨k, if psgs.count k = 1 then none else some (psgs.count k)⟩

def canonRuns (psgs : List Name) : List Run := (keys psgs).map (canonRun psgs)

theorem canonRun_count (psgs : List Name) (k : Name) : (canonRun psgs k).count = psgs.count k := by
  unfold canonRun Run.count
  split <;> rename_i h
  · split at h <;> simp_all
  · split at h <;> simp_all

theorem canon_eq_spell (csg : Name) (psgs : List Name) : canon csg psgs = spell csg (canonRuns psgs) := by
  unfold canon spell canonRuns
  congr 2
  rw [List.map_map]
  apply List.map_congr_left
  intro k _
  simp only [Function.comp, piece, canonRun, Run.suffix]
  split <;> simp

theorem count_flatMap_replicate (f : Name → Nat) (ks : List Name) (hk : ks.Nodup) (a : Name) :
    (ks.flatMap fun k => List.replicate (f k) k).count a = if a ∈ ks then f a else 0 := by
  induction ks with
  | nil => simp
  | cons k ks ih =>
    obtain ⟨hnk, hks⟩ := List.nodup_cons.mp hk
    simp only [List.flatMap_cons, List.count_append, ih hks, List.count_replicate, List.mem_cons]
    by_cases hak : k = a
    · subst hak; simp [hnk]
    · have : ¬ a = k := fun h => hak h.symm
      simp [hak, this]

/-- the peripherals denoted by the canonical spelling are a permutation of the group's -/
theorem expand_canonRuns_perm (psgs : List Name) : (expandRuns (canonRuns psgs)).Perm psgs := by
  rw [List.perm_iff_count]
  intro a
  have : expandRuns (canonRuns psgs) = (keys psgs).flatMap fun k => List.replicate (psgs.count k) k := by
    unfold expandRuns canonRuns
    rw [List.flatMap_map]
    congr 1
    funext k
    rw [canonRun_count]
    rfl
  rw [this, count_flatMap_replicate _ _ (nodup_keys psgs)]
  split
  · rfl
  · rename_i h; rw [mem_keys] at h; exact (List.count_eq_zero_of_not_mem h).symm

theorem count_le_length' (psgs : List Name) (k : Name) : psgs.count k ≤ psgs.length := List.count_le_length

theorem wfRuns_canonRuns {csg : Name} {psgs : List Name} (h : WFGroup csg psgs) :
    WFRuns csg (canonRuns psgs) := by
  obtain ⟨hc, hp, hl⟩ := h
  refine ⟨hc, ?_⟩
  intro r hr
  unfold canonRuns at hr
  obtain ⟨k, hk, rfl⟩ := List.mem_map.mp hr
  rw [mem_keys] at hk
  refine ⟨hp k hk, ?_⟩
  rw [canonRun_count]
  exact Nat.lt_of_le_of_lt (count_le_length' psgs k) hl

/-- the canonical name depends only on the centre and the multiset of peripherals -/
theorem canon_perm (csg : Name) {l l' : List Name} (h : l.Perm l') : canon csg l = canon csg l' := by
  unfold canon
  rw [keys_perm h]
  congr 2
  apply List.map_congr_left
  intro k _
  simp only [piece, h.count_eq]

end PGA.GroupName
