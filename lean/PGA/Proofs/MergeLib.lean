import PGA.Proofs.Merge
/-! Helper lemmas for C13 at the level of libraries and file trees. -/
namespace PGA.Merge
open PGA.Yaml PGA.GroupName

/-! ### the library dictionary -/

theorem libLookup_libInsert (g g' : Name) (v : Option Obj) (l : Lib) :
    libLookup g' (libInsert g v l) = if g = g' then some v else libLookup g' l := by
  induction l with
  | nil => simp [libInsert, libLookup]
  | cons kv l ih =>
    obtain ⟨k, w⟩ := kv
    simp only [libInsert]
    by_cases h : k = g
    · subst h
      simp only [if_true, libLookup]
      split <;> rfl
    · simp only [h, if_false, libLookup, ih]
      by_cases h2 : k = g'
      · subst h2
        have : ¬ g = k := fun e => h e.symm
        simp [this]
      · simp [h2]

theorem libLookup_isSome_iff (g : Name) (l : Lib) : (libLookup g l).isSome = true ↔ g ∈ l.map Prod.fst := by
  induction l with
  | nil => simp [libLookup]
  | cons kv l ih =>
    obtain ⟨k, w⟩ := kv
    simp only [libLookup, List.map_cons, List.mem_cons]
    by_cases h : k = g
    · subst h; simp
    · simp only [h, if_false, ih]
      constructor
      · exact Or.inr
      · rintro (e | hm)
        · exact absurd e.symm h
        · exact hm

theorem libInsert_of_absent (g : Name) (v : Option Obj) (l : Lib) (h : libLookup g l = none) :
    libInsert g v l = l ++ [(g, v)] := by
  induction l with
  | nil => rfl
  | cons kv l ih =>
    obtain ⟨k, w⟩ := kv
    simp only [libLookup] at h
    by_cases hk : k = g
    · simp [hk] at h
    · simp only [hk, if_false] at h
      simp only [libInsert, hk, if_false, ih h, List.cons_append]

theorem names_libInsert (g : Name) (v : Option Obj) (l : Lib) :
    (libInsert g v l).map Prod.fst = if g ∈ l.map Prod.fst then l.map Prod.fst else l.map Prod.fst ++ [g] := by
  induction l with
  | nil => simp [libInsert]
  | cons kv l ih =>
    obtain ⟨k, w⟩ := kv
    simp only [libInsert, List.map_cons, List.mem_cons]
    by_cases h : k = g
    · subst h; simp
    · have h' : ¬ g = k := fun e => h e.symm
      simp only [h, if_false, List.map_cons, ih, h', false_or]
      split <;> simp_all

theorem nodup_libInsert (g : Name) (v : Option Obj) (l : Lib) (h : (l.map Prod.fst).Nodup) :
    ((libInsert g v l).map Prod.fst).Nodup := by
  rw [names_libInsert]
  split
  · exact h
  · rename_i hk
    rw [List.nodup_append]
    refine ⟨h, by simp, ?_⟩
    intro a ha b hb
    simp at hb
    subst hb
    intro e; subst e; exact hk ha

theorem libLookup_of_mem_nodup {l : Lib} (hnd : (l.map Prod.fst).Nodup) {g : Name} {x : Option Obj} (h : (g, x) ∈ l) :
    libLookup g l = some x := by
  induction l with
  | nil => simp at h
  | cons kv l ih =>
    obtain ⟨k, w⟩ := kv
    simp only [List.map_cons, List.nodup_cons] at hnd
    simp only [libLookup]
    rcases List.mem_cons.mp h with e | hm
    · cases e; simp
    · have : k ≠ g := by
        intro e; subst e
        exact hnd.1 (List.mem_map_of_mem (f := Prod.fst) hm)
      simp only [this, if_false]
      exact ih hnd.2 hm

/-! ### data coverage under a merge -/

theorem covers_merge {Ea Eb : List Corr} {a b c : Corr} (ca : Covers Ea a) (cb : Covers Eb b)
    (hH : c.H = pick b.H a.H) (hS : c.S = pick b.S a.S)
    (hcp : ∀ T, dlookup T c.cp = match dlookup T b.cp with | some v => some v | none => dlookup T a.cp)
    (hr : c.range = unionRange a.range b.range) : Covers (Ea ++ Eb) c := by
  have ex : ∀ (P : Corr → Prop), ((∃ p ∈ Eb, P p) ∨ (∃ p ∈ Ea, P p)) ↔ ∃ p ∈ Ea ++ Eb, P p := by
    intro P
    constructor
    · rintro (⟨p, hp, h⟩ | ⟨p, hp, h⟩)
      · exact ⟨p, List.mem_append.mpr (Or.inr hp), h⟩
      · exact ⟨p, List.mem_append.mpr (Or.inl hp), h⟩
    · rintro ⟨p, hp, h⟩
      rcases List.mem_append.mp hp with hp | hp
      · exact Or.inr ⟨p, hp, h⟩
      · exact Or.inl ⟨p, hp, h⟩
  refine ⟨?_, ?_, ?_, ?_⟩
  · rw [hH, pick_isSome, Bool.or_eq_true, cb.h, ca.h]; exact ex _
  · rw [hS, pick_isSome, Bool.or_eq_true, cb.s, ca.s]; exact ex _
  · intro T
    have : (dlookup T c.cp).isSome = ((dlookup T b.cp).isSome || (dlookup T a.cp).isSome) := by
      rw [hcp T]; cases dlookup T b.cp <;> simp
    rw [this, Bool.or_eq_true, cb.cp T, ca.cp T]; exact ex _
  · rw [hr, unionRange_isSome, Bool.or_eq_true, ca.range, cb.range, or_comm]; exact ex _

theorem copy_fresh {b : Corr} (vb : Valid b) : copy (fresh b) = .ok (fresh b) := by
  simp only [copy, mk, fresh, (checkValid_iff _ _ _).mpr vb.ok]

theorem LibInv_congr {Wg : Name → Corr} {E E' : Name → List Corr} {lib : Lib} (h : ∀ g, E g = E' g)
    (hi : LibInv Wg E lib) : LibInv Wg E' lib := by
  refine ⟨hi.1, fun g => ?_⟩
  have := hi.2 g
  rw [h g] at this
  exact this

/-! ### the two passes of `GroupLibrary.Update` (repair of FA1) -/

/-- whether `update` raises, and what, depends on the data fields of the target only -/
theorem update_err_congr (ev : RawEval) (c : Corr) (b1 b2 : Bool) (d : Corr) (ow : Bool) :
    (update ev ⟨c, b1⟩ d ow).2 = (update ev ⟨c, b2⟩ d ow).2 := by
  unfold update
  simp only
  cases mergeCp ow c.cp c.cp d.cp with
  | error e => rfl
  | ok cp =>
    simp only
    cases mergeRefs ev ow c d cp (unionRange c.range d.range) with
    | error e => rfl
    | ok HS =>
      obtain ⟨H, S⟩ := HS
      simp only
      cases checkValid cp c.Tref (unionRange c.range d.range) with
      | error e => rfl
      | ok u => rfl

/-- a copy holds the data of the original -/
theorem copy_c {m m' : Obj} (h : copy m = .ok m') : m'.c = m.c := by
  unfold copy mk at h
  split at h
  · cases h; rfl
  · cases h

/-- the trial on a copy raises what the call on the original raises -/
theorem update_copy_err (ev : RawEval) {m m' : Obj} (h : copy m = .ok m') (d : Corr) (ow : Bool) :
    (update ev m' d ow).2 = (update ev m d ow).2 := by
  have hc := copy_c h
  obtain ⟨c, b⟩ := m
  obtain ⟨c', b'⟩ := m'
  simp only at hc
  subst hc
  exact update_err_congr ev _ _ _ d ow

/-- the storing pass writes the group it handles and nothing else -/
theorem updateGroup_fst (ev : RawEval) (ow : Bool) (cur : Lib) (g : Name) (ps : Option Obj) :
    ∃ v, (updateGroup ev ow cur g ps).1 = libInsert g v cur := by
  unfold updateGroup
  cases ps with
  | none => exact ⟨_, rfl⟩
  | some o =>
    simp only
    split
    · split
      · exact ⟨_, rfl⟩
      · exact ⟨_, rfl⟩
    · exact ⟨_, rfl⟩

theorem libLookup_updateGroup_ne (ev : RawEval) (ow : Bool) (cur : Lib) (g g' : Name) (ps : Option Obj) (h : g ≠ g') :
    libLookup g' (updateGroup ev ow cur g ps).1 = libLookup g' cur := by
  obtain ⟨v, hv⟩ := updateGroup_fst ev ow cur g ps
  rw [hv, libLookup_libInsert]
  simp [h]

/-- the target's property sets can be copied (they are what the constructor accepts) -/
def Copyable (self : Lib) : Prop := ∀ g m, libLookup g self = some (some m) → ∃ m', copy m = .ok m'

/-- one group: if the first pass (against the target as it was) goes through, so does the storing of that group into a
target that still holds for this group what it held -/
theorem updateGroup_ok_of_trial (ev : RawEval) (ow : Bool) {cur self0 : Lib} {g : Name} (ps : Option Obj)
    (hl : libLookup g cur = libLookup g self0) (ht : trialGroup ev ow self0 g ps = none) :
    (updateGroup ev ow cur g ps).2 = none := by
  unfold trialGroup at ht
  unfold updateGroup
  rw [hl]
  cases ps with
  | none => rfl
  | some o =>
    simp only at ht ⊢
    split at ht
    · split at ht
      · rename_i o' ho
        simp only
      · cases ht
    · rename_i m hm
      split at ht
      · cases ht
      · rename_i m' hm'
        simp only
        rw [← update_copy_err ev hm']
        exact ht

/-- one group, with the exception: when the target's property set can be copied, the first pass raises exactly what
storing the group raises -/
theorem trialGroup_eq (ev : RawEval) (ow : Bool) {cur self0 : Lib} {g : Name} (ps : Option Obj)
    (hl : libLookup g cur = libLookup g self0) (hc : Copyable self0) :
    trialGroup ev ow self0 g ps = (updateGroup ev ow cur g ps).2 := by
  unfold trialGroup updateGroup
  rw [hl]
  cases ps with
  | none => rfl
  | some o =>
    simp only
    cases hlk : libLookup g self0 with
    | none =>
      simp only
      cases copy o <;> rfl
    | some x =>
      cases x with
      | none =>
        simp only
        cases copy o <;> rfl
      | some m =>
        simp only
        obtain ⟨m', hm'⟩ := hc g m hlk
        simp only [hm']
        exact update_copy_err ev hm' o.c ow

/-- the first pass went through ⇒ the storing pass does not raise (the groups of the source are pairwise different: a
Python mapping) -/
theorem libUpdateOld_ok_of_trial (ev : RawEval) (ow : Bool) (self0 : Lib) :
    ∀ (other cur : Lib), (other.map Prod.fst).Nodup → (∀ g ∈ other.map Prod.fst, libLookup g cur = libLookup g self0) →
      libTrial ev ow self0 other = none → (libUpdateOld ev ow cur other).2 = none := by
  intro other
  induction other with
  | nil => intro cur _ _ _; rfl
  | cons gx rest ih =>
    intro cur hnd hag ht
    obtain ⟨g, ps⟩ := gx
    simp only [List.map_cons, List.nodup_cons] at hnd
    rw [libTrial] at ht
    cases htg : trialGroup ev ow self0 g ps with
    | some e => rw [htg] at ht; cases ht
    | none =>
      rw [htg] at ht
      simp only at ht
      have hok := updateGroup_ok_of_trial ev ow ps (hag g (by simp)) htg
      rw [libUpdateOld]
      cases hu : updateGroup ev ow cur g ps with
      | mk cur' err =>
        rw [hu] at hok
        simp only at hok
        subst hok
        simp only
        apply ih cur' hnd.2 _ ht
        intro g' hg'
        have hne : g ≠ g' := fun e => hnd.1 (e ▸ hg')
        have := libLookup_updateGroup_ne ev ow cur g g' ps hne
        rw [hu] at this
        rw [this]
        exact hag g' (by simp [hg'])

/-- the exception of the first pass is the exception at which the old loop stopped -/
theorem libTrial_eq (ev : RawEval) (ow : Bool) (self0 : Lib) (hc : Copyable self0) :
    ∀ (other cur : Lib), (other.map Prod.fst).Nodup → (∀ g ∈ other.map Prod.fst, libLookup g cur = libLookup g self0) →
      libTrial ev ow self0 other = (libUpdateOld ev ow cur other).2 := by
  intro other
  induction other with
  | nil => intro cur _ _; rfl
  | cons gx rest ih =>
    intro cur hnd hag
    obtain ⟨g, ps⟩ := gx
    simp only [List.map_cons, List.nodup_cons] at hnd
    rw [libTrial, libUpdateOld, trialGroup_eq ev ow ps (hag g (by simp)) hc]
    cases hu : updateGroup ev ow cur g ps with
    | mk cur' err =>
      cases err with
      | some e => rfl
      | none =>
        simp only
        apply ih cur' hnd.2
        intro g' hg'
        have hne : g ≠ g' := fun e => hnd.1 (e ▸ hg')
        have := libLookup_updateGroup_ne ev ow cur g g' ps hne
        rw [hu] at this
        rw [this]
        exact hag g' (by simp [hg'])

/-- **`Update` is all-or-nothing**: when it raises, the target library is what it was -/
theorem libUpdate_atomic (ev : RawEval) (ow : Bool) (self other : Lib) (hnd : (other.map Prod.fst).Nodup) (e : UErr)
    (h : (libUpdate ev ow self other).2 = some e) : (libUpdate ev ow self other).1 = self := by
  unfold libUpdate at h ⊢
  cases ht : libTrial ev ow self other with
  | some e' => rfl
  | none =>
    rw [ht] at h
    simp only at h
    rw [libUpdateOld_ok_of_trial ev ow self other self hnd (fun _ _ => rfl) ht] at h
    cases h

/-- a merge that goes through gives what the method gave before the repair -/
theorem libUpdate_ok_eq_old (ev : RawEval) (ow : Bool) (self other r : Lib) (h : libUpdate ev ow self other = (r, none)) :
    libUpdateOld ev ow self other = (r, none) := by
  unfold libUpdate at h
  cases ht : libTrial ev ow self other with
  | some e' => rw [ht] at h; cases h
  | none => rw [ht] at h; exact h

/-- the repaired method raises exactly when, and exactly what, the method raised before the repair -/
theorem libUpdate_err_eq_old (ev : RawEval) (ow : Bool) (self other : Lib) (hnd : (other.map Prod.fst).Nodup)
    (hc : Copyable self) : (libUpdate ev ow self other).2 = (libUpdateOld ev ow self other).2 := by
  have ht := libTrial_eq ev ow self hc other self hnd (fun _ _ => rfl)
  unfold libUpdate
  cases h : libTrial ev ow self other with
  | some e' => rw [← ht, h]
  | none => rfl

/-- … and a merge that went through before the repair goes through now, with the same result -/
theorem libUpdate_of_old_ok (ev : RawEval) (ow : Bool) (self other r : Lib) (hnd : (other.map Prod.fst).Nodup)
    (hc : Copyable self) (h : libUpdateOld ev ow self other = (r, none)) : libUpdate ev ow self other = (r, none) := by
  have ht := libTrial_eq ev ow self hc other self hnd (fun _ _ => rfl)
  rw [h] at ht
  unfold libUpdate
  rw [ht]
  exact h

/-! ### `GroupLibrary.Update` on libraries of parts -/

/-- every whole is consistent and has a non-zero reference temperature -/
def WgOK (Wg : Name → Corr) : Prop := ∀ g, Valid (Wg g) ∧ (Wg g).Tref ≠ 0

theorem updateGroup_inv (ev : RawEval) {Wg : Name → Corr} (hWg : WgOK Wg) {E : Name → List Corr} {self : Lib}
    (hi : LibInv Wg E self) {g : Name} {b : Corr} {Eb : List Corr}
    (pb : PartOf b (Wg g)) (vb : Valid b) (cb : Covers Eb b) (hEb : Eb ≠ []) :
    ∃ self', updateGroup ev false self g (some (fresh b)) = (self', none) ∧
      LibInv Wg (fun g' => if g' = g then E g ++ Eb else E g') self' := by
  have hg := hi.2 g
  cases hl : libLookup g self with
  | none =>
    rw [hl] at hg
    simp only at hg
    refine ⟨libInsert g (some (fresh b)) self, ?_, nodup_libInsert _ _ _ hi.1, ?_⟩
    · simp only [updateGroup, hl, copy_fresh vb]
    · intro g'
      rw [libLookup_libInsert]
      by_cases e : g = g'
      · subst e
        simp only [if_true, hg, List.nil_append]
        exact ⟨rfl, pb, vb, cb, hEb⟩
      · have e' : ¬ g' = g := fun h => e h.symm
        simp only [e, e', if_false]
        exact hi.2 g'
  | some x =>
    cases x with
    | none => rw [hl] at hg; exact absurd hg id
    | some o =>
      rw [hl] at hg
      simp only at hg
      obtain ⟨ho, pa, va, ca, hEa⟩ := hg
      obtain ⟨c, hc, pc, vc, hH, hS, hcp, _, hr⟩ := update_parts ev (hWg g).1 (hWg g).2 pa pb va vb
      refine ⟨libInsert g (some (fresh c)) self, ?_, nodup_libInsert _ _ _ hi.1, ?_⟩
      · simp only [updateGroup, hl]
        rw [ho]
        show (libInsert g (some (update ev (fresh o.c) b false).1) self, (update ev (fresh o.c) b false).2) = _
        rw [hc]
      · intro g'
        rw [libLookup_libInsert]
        by_cases e : g = g'
        · subst e
          simp only [if_true]
          exact ⟨rfl, pc, vc, covers_merge ca cb hH hS hcp hr, by simp [hEa]⟩
        · have e' : ¬ g' = g := fun h => e h.symm
          simp only [e, e', if_false]
          exact hi.2 g'

/-- merging a library of parts into a library of parts never fails; every group ends up holding the data of the entries
of both -/
theorem libUpdateOld_inv (ev : RawEval) {Wg : Name → Corr} (hWg : WgOK Wg) {E2 : Name → List Corr} :
    ∀ (other : Lib) (self : Lib) (E1 : Name → List Corr), LibInv Wg E1 self → (other.map Prod.fst).Nodup →
      (∀ gx ∈ other, ∃ b, gx.2 = some (fresh b) ∧ PartOf b (Wg gx.1) ∧ Valid b ∧ Covers (E2 gx.1) b ∧ E2 gx.1 ≠ []) →
      ∃ r, libUpdateOld ev false self other = (r, none) ∧
        LibInv Wg (fun g => E1 g ++ (if g ∈ other.map Prod.fst then E2 g else [])) r := by
  intro other
  induction other with
  | nil =>
    intro self E1 hi _ _
    exact ⟨self, rfl, LibInv_congr (fun g => by simp) hi⟩
  | cons gx rest ih =>
    intro self E1 hi hnd hall
    obtain ⟨g, x⟩ := gx
    simp only [List.map_cons, List.nodup_cons] at hnd
    obtain ⟨b, hx, pb, vb, cb, hEb⟩ := hall (g, x) (by simp)
    simp only at hx pb cb hEb
    subst hx
    obtain ⟨self', hs', hi'⟩ := updateGroup_inv ev hWg hi pb vb cb hEb
    obtain ⟨r, hr, hir⟩ := ih self' _ hi' hnd.2 (fun gx hgx => hall gx (by simp [hgx]))
    refine ⟨r, ?_, LibInv_congr ?_ hir⟩
    · rw [libUpdateOld, hs']; exact hr
    · intro g'
      simp only [List.map_cons, List.mem_cons]
      by_cases e : g' = g
      · subst e
        have : g' ∉ rest.map Prod.fst := hnd.1
        simp [this]
      · simp only [e, if_false, false_or]

/-- a library of parts holds objects the constructor accepts -/
theorem copyable_of_libInv {Wg : Name → Corr} {E : Name → List Corr} {self : Lib} (hi : LibInv Wg E self) : Copyable self := by
  intro g m hl
  have := hi.2 g
  rw [hl] at this
  obtain ⟨hm, _, vm, _, _⟩ := this
  exact ⟨fresh m.c, by rw [hm]; exact copy_fresh vm⟩

/-- the same for the repaired `Update`: its first pass goes through, so it stores what the old loop stored -/
theorem libUpdate_inv (ev : RawEval) {Wg : Name → Corr} (hWg : WgOK Wg) {E2 : Name → List Corr}
    (other : Lib) (self : Lib) (E1 : Name → List Corr) (hi : LibInv Wg E1 self) (hnd : (other.map Prod.fst).Nodup)
    (hall : ∀ gx ∈ other, ∃ b, gx.2 = some (fresh b) ∧ PartOf b (Wg gx.1) ∧ Valid b ∧ Covers (E2 gx.1) b ∧ E2 gx.1 ≠ []) :
    ∃ r, libUpdate ev false self other = (r, none) ∧
      LibInv Wg (fun g => E1 g ++ (if g ∈ other.map Prod.fst then E2 g else [])) r := by
  obtain ⟨r, hr, hir⟩ := libUpdateOld_inv ev hWg (E2 := E2) other self E1 hi hnd hall
  exact ⟨r, libUpdate_of_old_ok ev false self other r hnd (copyable_of_libInv hi) hr, hir⟩

/-! ### the groups of one file -/

theorem ownEntries_append (xs ys : GroupsD) (g : Name) : ownEntries (xs ++ ys) g = ownEntries xs g ++ ownEntries ys g := by
  simp [ownEntries, List.filterMap_append]

theorem ownEntries_eq_nil_of_not_mem {xs : GroupsD} {g : Name} (h : some g ∉ xs.map fun te => canonOf te.1) :
    ownEntries xs g = [] := by
  induction xs with
  | nil => rfl
  | cons te xs ih =>
    simp only [List.map_cons, List.mem_cons, not_or] at h
    have h1 : ¬ canonOf te.1 = some g := fun e => h.1 e.symm
    simp only [ownEntries, List.filterMap_cons, h1, if_false]
    exact ih h.2

theorem canonOf_of_parse {t : List Char} {g : Group} (h : parse t = .ok g) : canonOf t = some g.name := by
  simp [canonOf, h]

theorem loadOwn_inv {Wg : Name → Corr} :
    ∀ (rest done : GroupsD) (acc : Lib), GroupsOK Wg (done ++ rest) → LibInv Wg (ownEntries done) acc →
      ∃ lib, loadOwn acc rest = .ok lib ∧ LibInv Wg (ownEntries (done ++ rest)) lib := by
  intro rest
  induction rest with
  | nil =>
    intro done acc _ hi
    exact ⟨acc, rfl, by simpa using hi⟩
  | cons te rest ih =>
    intro done acc hok hi
    obtain ⟨text, entry⟩ := te
    obtain ⟨grp, l, c, hp, he, hc, pc, vc⟩ := hok.each (text, entry) (by simp)
    simp only at hp he
    subst he
    have hcanon : canonOf text = some grp.name := canonOf_of_parse hp
    have hnd := hok.distinct
    simp only [List.map_append, List.map_cons] at hnd
    have hnot : some grp.name ∉ done.map fun te => canonOf te.1 := by
      rw [← hcanon]
      intro hm
      have := (List.nodup_append.mp hnd).2.2 _ hm _ (List.mem_cons_self)
      exact this rfl
    have hnil : ownEntries done grp.name = [] := ownEntries_eq_nil_of_not_mem hnot
    have hlk : libLookup grp.name acc = none := by
      have := hi.2 grp.name
      cases hl : libLookup grp.name acc with
      | none => rfl
      | some x =>
        rw [hl] at this
        cases x with
        | none => exact absurd this id
        | some o => exact absurd hnil this.2.2.2.2
    have hstep : LibInv Wg (ownEntries (done ++ [(text, Except.ok (some l))])) (acc ++ [(grp.name, some (fresh c))]) := by
      rw [← libInsert_of_absent grp.name (some (fresh c)) acc hlk]
      refine ⟨nodup_libInsert _ _ _ hi.1, fun g' => ?_⟩
      rw [libLookup_libInsert, ownEntries_append]
      by_cases e : grp.name = g'
      · subst e
        rw [hnil]
        simp only [if_true, List.nil_append, ownEntries, List.filterMap_cons, hcanon, hc, List.filterMap_nil]
        exact ⟨rfl, pc, vc, covers_self c, by simp⟩
      · have hne : ¬ canonOf text = some g' := by rw [hcanon]; intro h; exact e (Option.some.inj h)
        simp only [e, if_false, ownEntries, List.filterMap_cons, hne, List.filterMap_nil, List.append_nil]
        exact hi.2 g'
    have hok' : GroupsOK Wg ((done ++ [(text, Except.ok (some l))]) ++ rest) := by
      simpa [List.append_assoc] using hok
    obtain ⟨lib, hlib, hil⟩ := ih (done ++ [(text, Except.ok (some l))]) (acc ++ [(grp.name, some (fresh c))]) hok' hstep
    refine ⟨lib, ?_, by simpa [List.append_assoc] using hil⟩
    rw [loadOwn, hp]
    simp only [hlk, Option.isSome_none, Bool.false_eq_true, if_false, hc]
    exact hlib

theorem libInv_empty (Wg : Name → Corr) : LibInv Wg (fun _ => []) [] := by
  refine ⟨by simp, fun g => ?_⟩
  simp [libLookup]

/-! ### trees of files -/

/-- `Update` with a library that satisfies the invariant -/
theorem libUpdate_libInv (ev : RawEval) {Wg : Name → Corr} (hWg : WgOK Wg) {E1 E2 : Name → List Corr} {self other : Lib}
    (h1 : LibInv Wg E1 self) (h2 : LibInv Wg E2 other) :
    ∃ r, libUpdate ev false self other = (r, none) ∧ LibInv Wg (fun g => E1 g ++ E2 g) r := by
  have hall : ∀ gx ∈ other, ∃ b, gx.2 = some (fresh b) ∧ PartOf b (Wg gx.1) ∧ Valid b ∧ Covers (E2 gx.1) b ∧ E2 gx.1 ≠ [] := by
    intro gx hgx
    obtain ⟨g, x⟩ := gx
    have hl := libLookup_of_mem_nodup h2.1 hgx
    have := h2.2 g
    rw [hl] at this
    cases x with
    | none => exact absurd this id
    | some o =>
      obtain ⟨ho, po, vo, co, hE⟩ := this
      exact ⟨o.c, by simp only; rw [← ho], po, vo, co, hE⟩
  obtain ⟨r, hr, hir⟩ := libUpdate_inv ev hWg (E2 := E2) other self E1 h1 h2.1 hall
  refine ⟨r, hr, LibInv_congr ?_ hir⟩
  intro g
  by_cases hg : g ∈ other.map Prod.fst
  · simp [hg]
  · have : libLookup g other = none := by
      cases hl : libLookup g other with
      | none => rfl
      | some x =>
        have : (libLookup g other).isSome = true := by rw [hl]; rfl
        exact absurd ((libLookup_isSome_iff g other).mp this) hg
    have h2g := h2.2 g
    rw [this] at h2g
    simp only at h2g
    simp [hg, h2g]

/-- **Loading a tree of files.**  Every file well formed (its groups parse, load to consistent parts of their wholes,
and are pairwise different groups): merging the tree into a library that satisfies the invariant never fails and adds
exactly the entries of the tree. -/
theorem loadIncs_inv (ev : RawEval) {Wg : Name → Corr} (hWg : WgOK Wg) :
    ∀ (t : Incs) (acc : Lib) (E : Name → List Corr), TreeOK Wg t → LibInv Wg E acc →
      ∃ r, loadIncs ev acc t = .ok r ∧ LibInv Wg (fun g => E g ++ treeEntries t g) r := by
  intro t
  induction t with
  | nil =>
    intro acc E _ hi
    exact ⟨acc, rfl, LibInv_congr (fun g => by simp [treeEntries]) hi⟩
  | cons groups sub rest ihsub ihrest =>
    intro acc E hok hi
    obtain ⟨hg, hsub, hrest⟩ := hok
    obtain ⟨own, hown, hiown⟩ := loadOwn_inv (Wg := Wg) groups [] [] (by simpa using hg) (libInv_empty Wg)
    simp only [List.nil_append] at hiown
    obtain ⟨inc, hinc, hiinc⟩ := ihsub own _ hsub hiown
    obtain ⟨acc', hacc', hiacc'⟩ := libUpdate_libInv ev hWg hi hiinc
    obtain ⟨r, hr, hir⟩ := ihrest acc' _ hrest hiacc'
    refine ⟨r, ?_, LibInv_congr (fun g => by simp [treeEntries, List.append_assoc]) hir⟩
    rw [loadIncs, hown]
    simp only [hinc, hacc']
    exact hr

theorem loadFile_inv (ev : RawEval) {Wg : Name → Corr} (hWg : WgOK Wg) {groups : GroupsD} {incs : Incs}
    (hg : GroupsOK Wg groups) (ht : TreeOK Wg incs) :
    ∃ r, loadFile ev groups incs = .ok r ∧ LibInv Wg (fun g => ownEntries groups g ++ treeEntries incs g) r := by
  obtain ⟨own, hown, hiown⟩ := loadOwn_inv (Wg := Wg) groups [] [] (by simpa using hg) (libInv_empty Wg)
  simp only [List.nil_append] at hiown
  obtain ⟨r, hr, hir⟩ := loadIncs_inv ev hWg incs own _ ht hiown
  exact ⟨r, by rw [loadFile, hown]; exact hr, hir⟩

/-! ### duplicate spellings -/

theorem loadOwn_append (acc : Lib) (xs ys : GroupsD) :
    loadOwn acc (xs ++ ys) = match loadOwn acc xs with
      | .ok l => loadOwn l ys
      | .error e => .error e := by
  induction xs generalizing acc with
  | nil => rfl
  | cons te xs ih =>
    obtain ⟨text, entry⟩ := te
    simp only [List.cons_append, loadOwn]
    cases parse text with
    | error e => cases e <;> rfl
    | ok g =>
      simp only
      split
      · rfl
      · cases entry with
        | error e => rfl
        | ok o =>
          cases o with
          | none => exact ih _
          | some l =>
            simp only
            cases toCorr l with
            | none => rfl
            | some c => exact ih _

/-- names only accumulate while a file's groups are read -/
theorem loadOwn_keeps (g : Name) :
    ∀ (xs : GroupsD) (acc lib : Lib), loadOwn acc xs = .ok lib → (libLookup g acc).isSome = true →
      (libLookup g lib).isSome = true := by
  intro xs
  induction xs with
  | nil => intro acc lib h hl; cases h; exact hl
  | cons te xs ih =>
    intro acc lib h hl
    obtain ⟨text, entry⟩ := te
    rw [loadOwn] at h
    cases hp : parse text with
    | error e => rw [hp] at h; cases e <;> cases h
    | ok grp =>
      rw [hp] at h
      simp only at h
      split at h
      · cases h
      · have step : ∀ x, (libLookup g (acc ++ [(grp.name, x)])).isSome = true := by
          intro x
          rw [libLookup_isSome_iff] at hl ⊢
          simp [hl]
        cases entry with
        | error e => cases h
        | ok o =>
          cases o with
          | none => exact ih _ lib h (step _)
          | some l =>
            simp only at h
            cases hc : toCorr l with
            | none => rw [hc] at h; cases h
            | some c => rw [hc] at h; exact ih _ lib h (step _)

/-- reading a group whose canonical name is already in the file's table is `KeyError` -/
theorem loadOwn_duplicate {acc : Lib} {text : List Char} {grp : Group} (hp : parse text = .ok grp)
    (hl : (libLookup grp.name acc).isSome = true) (entry : Except LoadErr (Option Loaded)) (rest : GroupsD) :
    loadOwn acc ((text, entry) :: rest) = .error .key := by
  rw [loadOwn, hp]
  simp [hl]

/-- after a group was read successfully its canonical name is in the table -/
theorem loadOwn_adds {acc lib : Lib} {text : List Char} {grp : Group} (hp : parse text = .ok grp)
    {entry : Except LoadErr (Option Loaded)} {rest : GroupsD} (h : loadOwn acc ((text, entry) :: rest) = .ok lib) :
    (libLookup grp.name lib).isSome = true := by
  rw [loadOwn, hp] at h
  simp only at h
  split at h
  · cases h
  · have step : ∀ x, (libLookup grp.name (acc ++ [(grp.name, x)])).isSome = true := by
      intro x
      rw [libLookup_isSome_iff]
      simp
    cases entry with
    | error e => cases h
    | ok o =>
      cases o with
      | none => exact loadOwn_keeps _ _ _ _ h (step _)
      | some l =>
        simp only at h
        cases hc : toCorr l with
        | none => rw [hc] at h; cases h
        | some c => rw [hc] at h; exact loadOwn_keeps _ _ _ _ h (step _)

end PGA.Merge
