import PGA.Spec.MolUnion
import PGA.Spec.Embeds
import Mathlib.Tactic.ByContra
/-! An embedding of a *connected* query into a graph whose bonds never cross a cut (`n`) lies entirely on one side of
the cut: each atom after the first is bonded to an earlier one, and a bond stays on its side. -/
namespace PGA.Spec
open PGA

theorem connected_iff (q : Query) : q.connected = true ↔
    ∀ k, k < q.atoms.length → k = 0 ∨ ∃ b ∈ q.bonds, (b.i = k ∧ b.j < k) ∨ (b.j = k ∧ b.i < k) := by
  simp only [Query.connected, List.all_eq_true, List.mem_range, Bool.or_eq_true, beq_iff_eq, List.any_eq_true,
    Bool.and_eq_true, decide_eq_true_eq]

theorem joins_ends_eq (e : Bond) (x y : Nat) (h : e.joins x y = true) : (e.a = x ∧ e.b = y) ∨ (e.a = y ∧ e.b = x) := by
  simpa [Bond.joins] using h

theorem same_side (U : Mol) (n : Nat)
    (sides : ∀ e ∈ U.bonds, (e.a < n ∧ e.b < n) ∨ (n ≤ e.a ∧ n ≤ e.b))
    (q : Query) (hc : q.connected = true) (f : List Nat) (E : Embeds q U f) (x0 : Nat) (h0 : f[0]? = some x0) :
    ∀ (k x : Nat), f[k]? = some x → (x < n ↔ x0 < n) := by
  have hconn := (connected_iff q).1 hc
  intro k
  induction k using Nat.strongRecOn with
  | _ k ih =>
    intro x hx
    by_cases hk0 : k = 0
    · subst hk0; rw [hx] at h0; cases h0; exact Iff.rfl
    · have hklt : k < q.atoms.length := by
        rw [← E.length]; exact (List.getElem?_eq_some_iff.1 hx).1
      rcases hconn k hklt with h | ⟨b, hb, hh⟩
      · exact absurd h hk0
      · obtain ⟨xi, xj, e, hi, hj, hbb, _⟩ := E.bonds b hb
        have he : e ∈ U.bonds := by unfold Mol.bondBetween at hbb; exact List.mem_of_find?_eq_some hbb
        have hjn : e.joins xi xj = true := by
          unfold Mol.bondBetween at hbb; exact List.find?_some (p := fun e : Bond => e.joins xi xj) hbb
        have hside : xi < n ↔ xj < n := by
          rcases joins_ends_eq e xi xj hjn with ⟨ha, hb'⟩ | ⟨ha, hb'⟩ <;> rcases sides e he with ⟨s1, s2⟩ | ⟨s1, s2⟩ <;>
            subst ha hb' <;> constructor <;> intro <;> omega
        rcases hh with ⟨hik, hjk⟩ | ⟨hjk, hik⟩
        · -- b.i = k, b.j < k
          rw [hik, hx] at hi; cases hi
          exact hside.trans (ih b.j hjk xj hj)
        · rw [hjk, hx] at hj; cases hj
          exact hside.symm.trans (ih b.i hik xi hi)

/-- the embedding lies in one part -/
theorem one_side (U : Mol) (n : Nat)
    (sides : ∀ e ∈ U.bonds, (e.a < n ∧ e.b < n) ∨ (n ≤ e.a ∧ n ≤ e.b))
    (q : Query) (hc : q.connected = true) (f : List Nat) (E : Embeds q U f) :
    (∀ x ∈ f, x < n) ∨ (∀ x ∈ f, n ≤ x) := by
  cases f with
  | nil => left; intro x hx; cases hx
  | cons x0 f =>
    have key := same_side U n sides q hc (x0 :: f) E x0 rfl
    by_cases h : x0 < n
    · left; intro x hx
      obtain ⟨k, hk⟩ := List.getElem?_of_mem hx
      exact (key k x hk).2 h
    · right; intro x hx
      obtain ⟨k, hk⟩ := List.getElem?_of_mem hx
      have := key k x hk
      exact Nat.le_of_not_lt fun hlt => h (this.1 hlt)

end PGA.Spec
