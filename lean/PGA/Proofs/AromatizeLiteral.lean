import PGA.Proofs.Aromatize
import PGA.Proofs.Neighbours
/-! The update of `_aromatization_Benson` written call by call — six `GetAtomWithIdx(a).SetIsAromatic(True)`, six
`GetBondBetweenAtoms(x, y).SetBondType(AROMATIC)` — and the proof that, on a graph without parallel bonds, it is the
one-pass update `Arom.setAromatic` the model uses. -/
namespace PGA.Arom

/-- `mol.GetAtomWithIdx(x).SetIsAromatic(True)` (an index outside the molecule: nothing — the Python would raise) -/
def flagAtom (atoms : List Atom) (x : Nat) : List Atom := atoms.modify x fun a => { a with aromatic := true }

/-- `mol.GetBondBetweenAtoms(x, y).SetBondType(AROMATIC)`: the first bond joining `x` and `y` (none: nothing — the Python
would raise) -/
def typeBond : List Bond → Nat → Nat → List Bond
  | [], _, _ => []
  | e :: es, x, y => if e.joins x y then { e with kind := .aromatic } :: es else e :: typeBond es x y

/-- lines 372–407 of `Scheme.py`, call by call -/
def setAromaticLiteral (m : Mol) : List Nat → Mol
  | [a0, a1, a2, a3, a4, a5] =>
    { m with
      atoms := flagAtom (flagAtom (flagAtom (flagAtom (flagAtom (flagAtom m.atoms a0) a1) a2) a3) a4) a5
      bonds := typeBond (typeBond (typeBond (typeBond (typeBond (typeBond m.bonds a0 a1) a1 a2) a2 a3) a3 a4) a4 a5) a5 a0 }
  | _ => m

theorem flagAtom_eq (atoms : List Atom) (x : Nat) :
    flagAtom atoms x = atoms.mapIdx fun i a => if i == x then { a with aromatic := true } else a := by
  unfold flagAtom
  apply List.ext_getElem?
  intro i
  rw [List.getElem?_modify, List.getElem?_mapIdx]
  cases atoms[i]? with
  | none => rfl
  | some a =>
    by_cases h : x = i
    · subst h; simp
    · have : (i == x) = false := by simpa using fun hh => h hh.symm
      simp [h, this]

/-- the joins-uniqueness the one-pass form needs -/
def NoParallel (l : List Bond) : Prop := l.Pairwise fun e e' => e'.joins e.a e.b = false

theorem typeBond_eq (l : List Bond) (h : NoParallel l) (x y : Nat) :
    typeBond l x y = l.map fun e => if e.joins x y then { e with kind := BondKind.aromatic } else e := by
  induction l with
  | nil => rfl
  | cons e es ih =>
    obtain ⟨hhead, htail⟩ := List.pairwise_cons.1 h
    simp only [typeBond, List.map_cons]
    by_cases hj : e.joins x y = true
    · simp only [hj, if_true]
      congr 1
      symm
      conv => rhs; rw [← List.map_id es]
      apply List.map_congr_left
      intro e' he'
      have hne : e'.joins x y = false := by
        cases hc : e'.joins x y
        · rfl
        · exfalso
          have := hhead e' he'
          rw [PGA.Match.joins_ends e' e x y hc hj] at this
          cases this
      simp [hne]
    · simp only [hj, if_false, Bool.false_eq_true]
      rw [ih htail]

theorem noParallel_map (l : List Bond) (h : NoParallel l) (f : Bond → Bond) (hf : ∀ e, (f e).a = e.a ∧ (f e).b = e.b) :
    NoParallel (l.map f) := by
  unfold NoParallel at *
  rw [List.pairwise_map]
  refine h.imp ?_
  intro e e' hh
  have h1 := hf e; have h2 := hf e'
  unfold Bond.joins at hh ⊢
  rw [h1.1, h1.2, h2.1, h2.2]; exact hh

/-- retype a bond when the flag is set -/
def stepAny (b : Bool) (e : Bond) : Bond := if b then { e with kind := BondKind.aromatic } else e

theorem stepAny_joins (b : Bool) (e : Bond) (x y : Nat) : (stepAny b e).joins x y = e.joins x y := by
  cases b <;> rfl

theorem stepAny_stepAny (b b' : Bool) (e : Bond) : stepAny b' (stepAny b e) = stepAny (b || b') e := by
  cases b <;> cases b' <;> rfl

theorem typeBond_eq' (l : List Bond) (h : NoParallel l) (x y : Nat) :
    typeBond l x y = l.map fun e => stepAny (e.joins x y) e := typeBond_eq l h x y

theorem noParallel_stepAny (l : List Bond) (h : NoParallel l) (g : Bond → Bool) :
    NoParallel (l.map fun e => stepAny (g e) e) :=
  noParallel_map l h _ (fun e => by cases hg : g e <;> simp [stepAny])

/-- **The one-pass update is the call-by-call update** on every graph without parallel bonds (in particular on every
`Mol.wf` graph), for every six-atom ring list. -/
theorem setAromatic_eq_literal (m : Mol) (h : NoParallel m.bonds) (r : List Nat) (h6 : r.length = 6) :
    setAromatic m r = setAromaticLiteral m r := by
  rcases r with _ | ⟨a0, _ | ⟨a1, _ | ⟨a2, _ | ⟨a3, _ | ⟨a4, _ | ⟨a5, _ | ⟨a6, l⟩⟩⟩⟩⟩⟩⟩ <;> simp at h6
  unfold setAromatic setAromaticLiteral
  congr 1
  · simp only [flagAtom_eq, List.mapIdx_mapIdx]
    congr 1; funext i a
    simp only [Function.comp, List.contains_cons, List.contains_nil, Bool.or_false]
    cases i == a0 <;> cases i == a1 <;> cases i == a2 <;> cases i == a3 <;> cases i == a4 <;> cases i == a5 <;> rfl
  · have n1 := noParallel_stepAny _ h (fun e => e.joins a0 a1)
    rw [typeBond_eq' _ h a0 a1]
    have e2 : typeBond (m.bonds.map fun e => stepAny (e.joins a0 a1) e) a1 a2
        = m.bonds.map fun e => stepAny (e.joins a0 a1 || e.joins a1 a2) e := by
      rw [typeBond_eq' _ n1, List.map_map]; congr 1; funext e
      simp only [Function.comp, stepAny_joins, stepAny_stepAny]
    rw [e2]
    have n2 := noParallel_stepAny _ h (fun e => e.joins a0 a1 || e.joins a1 a2)
    have e3 : typeBond (m.bonds.map fun e => stepAny (e.joins a0 a1 || e.joins a1 a2) e) a2 a3
        = m.bonds.map fun e => stepAny (e.joins a0 a1 || e.joins a1 a2 || e.joins a2 a3) e := by
      rw [typeBond_eq' _ n2, List.map_map]; congr 1; funext e
      simp only [Function.comp, stepAny_joins, stepAny_stepAny]
    rw [e3]
    have n3 := noParallel_stepAny _ h (fun e => e.joins a0 a1 || e.joins a1 a2 || e.joins a2 a3)
    have e4 : typeBond (m.bonds.map fun e => stepAny (e.joins a0 a1 || e.joins a1 a2 || e.joins a2 a3) e) a3 a4
        = m.bonds.map fun e => stepAny (e.joins a0 a1 || e.joins a1 a2 || e.joins a2 a3 || e.joins a3 a4) e := by
      rw [typeBond_eq' _ n3, List.map_map]; congr 1; funext e
      simp only [Function.comp, stepAny_joins, stepAny_stepAny]
    rw [e4]
    have n4 := noParallel_stepAny _ h (fun e => e.joins a0 a1 || e.joins a1 a2 || e.joins a2 a3 || e.joins a3 a4)
    have e5 : typeBond (m.bonds.map fun e => stepAny (e.joins a0 a1 || e.joins a1 a2 || e.joins a2 a3 || e.joins a3 a4) e) a4 a5
        = m.bonds.map fun e => stepAny (e.joins a0 a1 || e.joins a1 a2 || e.joins a2 a3 || e.joins a3 a4 || e.joins a4 a5) e := by
      rw [typeBond_eq' _ n4, List.map_map]; congr 1; funext e
      simp only [Function.comp, stepAny_joins, stepAny_stepAny]
    rw [e5]
    have n5 := noParallel_stepAny _ h (fun e => e.joins a0 a1 || e.joins a1 a2 || e.joins a2 a3 || e.joins a3 a4 || e.joins a4 a5)
    rw [typeBond_eq' _ n5, List.map_map]
    congr 1; funext e
    simp only [Function.comp, stepAny_joins, stepAny_stepAny, ringEdge, edgePairs, List.any_cons, List.any_nil, Bool.or_false]
    unfold stepAny
    cases e.joins a0 a1 <;> cases e.joins a1 a2 <;> cases e.joins a2 a3 <;> cases e.joins a3 a4 <;>
      cases e.joins a4 a5 <;> cases e.joins a5 a0 <;> rfl

end PGA.Arom
