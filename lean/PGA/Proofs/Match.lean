import PGA.Proofs.Cand
import PGA.Proofs.Tables
import PGA.Proofs.Neighbours
/-! The matcher's pipeline returns exactly the embeddings of the query (main refinement proof). -/
namespace PGA.Match
open PGA.Spec

theorem connCount_eq (m : Mol) (h : m.wf = true) (x : Nat) (t : AtomType) (bs : BondSpec)
    (hs : t.suf ≠ .star) : connCount m x t bs = (neighbours m x t bs).length := by
  unfold connCount neighbours
  rw [count_bonds_eq_neighbours m h x (fun y e => typeMatch m t y && bondQuery bs e)]
  congr 1
  apply List.filter_congr
  intro y _
  rw [Bool.eq_iff_iff, decide_eq_true_eq]
  unfold Adjacent
  cases hb : m.bondBetween x y with
  | none => simp
  | some e =>
    simp only [Bool.and_eq_true]
    rw [typeMatch_iff m t y hs, bondQuery_iff]
    tauto

/-- the constraint is not a `connected to` constraint on a `*` atom type -/
def consNoStar : ACons → Bool
  | .conn _ _ t _ => t.suf != .star
  | _ => true

theorem evalA_iff (m : Mol) (h : m.wf = true) (x : Nat) (a : Atom) (hx : m.atom? x = some a)
    (c : ACons) (hc : consNoStar c = true) : evalA m x a c = true ↔ ConsHolds m x c := by
  cases c with
  | conn neg cn t bs =>
    have hs : t.suf ≠ .star := by simpa [consNoStar] using hc
    simp only [evalA, ConsHolds]
    apply negated_iff
    rw [cn_holds, connCount_eq m h x t bs hs]
  | ringSize neg cn =>
    simp only [evalA, ConsHolds, Negated]
    cases neg
    · simp only [Bool.false_eq_true, if_false, Bool.and_eq_true, List.any_eq_true,
        List.contains_iff_mem, atomInRing_iff, OnRing]
      constructor
      · rintro ⟨_, r, hr, hxr, hcn⟩
        exact ⟨r, hr, hxr, (cn_holds _ _).1 hcn⟩
      · rintro ⟨r, hr, hxr, hcn⟩
        exact ⟨⟨r, hr, hxr⟩, r, hr, hxr, (cn_holds _ _).2 hcn⟩
    · simp only [if_true, Bool.not_eq_true', ← Bool.not_eq_true, List.any_eq_true, Bool.and_eq_true,
        List.contains_iff_mem, decide_eq_true_eq]
      constructor
      · rintro hn ⟨r, hr, hxr, hcn⟩
        exact hn ⟨r, hr, hxr, (cn_holds _ _).2 hcn⟩
      · rintro hn ⟨r, hr, hxr, hcn⟩
        exact hn ⟨r, hr, hxr, (cn_holds _ _).1 hcn⟩
  | radical neg cn =>
    simp only [evalA, ConsHolds, hx]
    apply negated_iff
    exact cn_holds _ _
  | nRing neg cn =>
    simp only [evalA, ConsHolds]
    apply negated_iff
    rw [cn_holds, ringCount_eq m x (wf_bonds m h).2.2]

theorem atom_split (m : Mol) (h : m.wf = true) (qa : QAtom) (x : Nat)
    (hs : qa.ty.suf ≠ .star) (hc : ∀ c ∈ qa.chain, consNoStar c = true) :
    AtomHolds m qa x ↔
      (∃ a, m.atom? x = some a ∧ rdAtomMatch qa.ty a = true) ∧ atomCons m qa x = true := by
  unfold AtomHolds atomCons
  rw [← typeMatch_iff m qa.ty x hs]
  unfold typeMatch
  cases hx : m.atom? x with
  | none => simp
  | some a =>
    simp only [Bool.and_eq_true, List.all_eq_true, Option.some.injEq, exists_eq_left']
    constructor
    · rintro ⟨⟨h1, h2⟩, h3⟩
      exact ⟨h1, h2, fun c hcm => (evalA_iff m h x a hx c (hc c hcm)).2 (h3 c hcm)⟩
    · rintro ⟨h1, h2, h3⟩
      exact ⟨⟨h1, h2⟩, fun c hcm => (evalA_iff m h x a hx c (hc c hcm)).1 (h3 c hcm)⟩

theorem hasCC_iff (m : Mol) : hasCC m = true ↔ HasCC m := by
  unfold hasCC HasCC
  simp only [List.any_eq_true, Bool.and_eq_true, beq_iff_eq]
  constructor
  · rintro ⟨e, he, hk, hz⟩
    refine ⟨e, he, hk, ?_⟩
    cases ha : m.atom? e.a <;> cases hb : m.atom? e.b <;> simp [ha, hb] at hz
    exact ⟨_, _, rfl, rfl, hz.1, hz.2⟩
  · rintro ⟨e, he, hk, a, b, ha, hb, hz⟩
    exact ⟨e, he, hk, by simp [ha, hb, hz]⟩

theorem molCons_iff (m : Mol) (p : MolPrefix) : molCons m p = true ↔ MolPrefixHolds m p := by
  cases p <;> simp [molCons, MolPrefixHolds, ← hasCC_iff, Mol.numRings]

theorem bondAt_iff (m : Mol) (f : List Nat) (i j : Nat) (p : Bond → Bool) (P : Bond → Prop)
    (hp : ∀ e, p e = true ↔ P e) : bondAt m f i j p = true ↔ BondAt m f i j P := by
  unfold bondAt BondAt
  cases hi : f[i]? <;> cases hj : f[j]? <;> simp
  rename_i x y
  cases hb : m.bondBetween x y <;> simp [hp]

theorem stereoJudge_iff (s : QStereo) (e : Bond) (x1 x2 : Nat) :
    stereoJudge s e x1 x2 = true ↔ Negated s.neg (StereoRel e x1 x2 s.kind) := by
  unfold stereoJudge Negated StereoRel sameSide
  have hle : (([x1, x2].eraseDups).filter (e.stereoAtoms.contains ·)).length ≤ 2 := by
    refine Nat.le_trans (List.length_filter_le _ _) ?_
    by_cases hx : x1 = x2
    · simp [List.eraseDups_cons, hx]
    · have : (x2 == x1) = false := by simpa using Ne.symm hx
      simp [List.eraseDups_cons, List.filter_cons, this]
  generalize (([x1, x2].eraseDups).filter (e.stereoAtoms.contains ·)).length = n at hle ⊢
  have hn : n = 0 ∨ n = 1 ∨ n = 2 := by omega
  rcases hn with rfl | rfl | rfl <;> cases s.kind <;> cases s.neg <;> cases e.stereo <;>
    simp [stereoTarget, flipStereo]

theorem stereoCons_iff (m : Mol) (f : List Nat) (s : QStereo) :
    stereoCons m f s = true ↔ StereoHolds m f s := by
  unfold stereoCons StereoHolds
  cases h1 : f[s.i1]? <;> cases h2 : f[s.i2]? <;> cases h3 : f[s.i3]? <;> cases h4 : f[s.i4]? <;>
    try (simp; done)
  rename_i x1 x2 x3 x4
  cases hb : m.bondBetween x3 x4 with
  | none =>
    simp only [hb, Bool.false_eq_true, false_iff]
    rintro ⟨_, _, _, _, e', h1', h2', h3', h4', hb', _⟩
    cases h3'; cases h4'; rw [hb] at hb'; cases hb'
  | some e =>
    simp only [hb, Option.some.injEq]
    rw [stereoJudge_iff]
    constructor
    · intro h; exact ⟨x1, x2, x3, x4, e, rfl, rfl, rfl, rfl, hb, h⟩
    · rintro ⟨_, _, _, _, e', rfl, rfl, rfl, rfl, hb', h⟩
      rw [hb] at hb'; cases hb'; exact h

theorem all_zip_iff {α β : Type} (p : α × β → Bool) : ∀ (l1 : List α) (l2 : List β),
    (l1.zip l2).all p = true ↔
      ∀ (i : Nat) (a : α) (b : β), l1[i]? = some a → l2[i]? = some b → p (a, b) = true := by
  intro l1
  induction l1 with
  | nil => intro l2; simp
  | cons a l1 ih =>
    intro l2
    cases l2 with
    | nil => simp
    | cons b l2 =>
      simp only [List.zip_cons_cons, List.all_cons, Bool.and_eq_true, ih]
      constructor
      · rintro ⟨h0, hr⟩ i a' b' ha hb
        cases i with
        | zero => simp at ha hb; subst ha hb; exact h0
        | succ i => simp at ha hb; exact hr i a' b' ha hb
      · intro hall
        exact ⟨hall 0 a b rfl rfl, fun i a' b' ha hb => hall (i + 1) a' b' (by simpa using ha) (by simpa using hb)⟩

theorem noStar_atoms (q : Query) (h : NoStar q = true) (i : Nat) (qa : QAtom) (hqa : q.atoms[i]? = some qa) :
    qa.ty.suf ≠ .star ∧ ∀ c ∈ qa.chain, consNoStar c = true := by
  have hmem : qa ∈ q.atoms := List.mem_of_getElem? hqa
  simp only [NoStar, List.all_eq_true, Bool.and_eq_true, bne_iff_ne, ne_eq] at h
  obtain ⟨h1, h2⟩ := h qa hmem
  refine ⟨h1, fun c hc => ?_⟩
  have := h2 c hc
  cases c <;> simp_all [consNoStar]

/-- **Main refinement**: the pipeline over the candidates returns exactly the embeddings. -/
theorem mem_queryMatches (q : Query) (m : Mol) (f : List Nat)
    (hq : q.wf = true) (hm : m.wf = true) (hstar : NoStar q = true) :
    f ∈ queryMatches q m ↔ Embeds q m f := by
  unfold queryMatches pipeline
  by_cases hmol : molConsOK q m = true
  · simp only [hmol, if_true, List.mem_filter, mem_rawMatches q m f hq]
    have hmol' : ∀ p ∈ q.molPre, MolPrefixHolds m p := by
      intro p hp
      have := hmol
      simp only [molConsOK, List.all_eq_true] at this
      exact (molCons_iff m p).1 (this p hp)
    constructor
    · rintro ⟨⟨⟨hc, hbc⟩, hac⟩, hst⟩
      refine ⟨hc.length, hc.inj, hc.range, ?_, ?_, hmol', ?_⟩
      · intro i qa x hqa hx
        obtain ⟨hs, hcs⟩ := noStar_atoms q hstar i qa hqa
        rw [atom_split m hm qa x hs hcs]
        refine ⟨hc.atoms i qa x hqa hx, ?_⟩
        have := (all_zip_iff _ _ _).1 hac i qa x hqa hx
        exact this
      · intro b hb
        have h1 := hc.bonds b hb
        have h2 : ∀ c ∈ bondCons b.spec, bondAt m f b.i b.j (bondQuery c) = true := by
          have := hbc
          simp only [bondConsOK, List.all_eq_true] at this
          exact this b hb
        rw [bondAt_iff m f b.i b.j _ _ (fun e => Iff.rfl)] at h1
        obtain ⟨x, y, e, hx, hy, he, hr⟩ := h1
        refine ⟨x, y, e, hx, hy, he, ?_⟩
        rw [bond_split]
        refine ⟨hr, fun c hc' => ?_⟩
        have := h2 c hc'
        simp only [bondAt, hx, hy, he] at this
        exact this
      · intro s hs
        have := hst
        simp only [stereoOK, List.all_eq_true] at this
        exact (stereoCons_iff m f s).1 (this s hs)
    · intro he
      have hatoms : ∀ (i : Nat) (qa : QAtom) (x : Nat), q.atoms[i]? = some qa → f[i]? = some x →
          (∃ a, m.atom? x = some a ∧ rdAtomMatch qa.ty a = true) ∧ atomCons m qa x = true := by
        intro i qa x hqa hx
        obtain ⟨hs, hcs⟩ := noStar_atoms q hstar i qa hqa
        exact (atom_split m hm qa x hs hcs).1 (he.atoms i qa x hqa hx)
      have hbonds : ∀ b ∈ q.bonds, ∃ x y e, f[b.i]? = some x ∧ f[b.j]? = some y ∧
          m.bondBetween x y = some e ∧ rdBondMatch b.spec e = true ∧
          ∀ c ∈ bondCons b.spec, bondQuery c e = true := by
        intro b hb
        obtain ⟨x, y, e, hx, hy, hbe, hr⟩ := he.bonds b hb
        exact ⟨x, y, e, hx, hy, hbe, (bond_split _ _).1 hr⟩
      refine ⟨⟨⟨⟨he.length, he.inj, he.range, fun i qa x hqa hx => (hatoms i qa x hqa hx).1, ?_⟩, ?_⟩, ?_⟩, ?_⟩
      · intro b hb
        obtain ⟨x, y, e, hx, hy, hbe, hr, _⟩ := hbonds b hb
        simp [bondAt, hx, hy, hbe, hr]
      · simp only [bondConsOK, List.all_eq_true]
        intro b hb c hc
        obtain ⟨x, y, e, hx, hy, hbe, _, hr⟩ := hbonds b hb
        simp [bondAt, hx, hy, hbe, hr c hc]
      · rw [atomConsOK, all_zip_iff]
        intro i qa x hqa hx
        exact (hatoms i qa x hqa hx).2
      · simp only [stereoOK, List.all_eq_true]
        intro s hs
        exact (stereoCons_iff m f s).2 (he.stereo s hs)
  · simp only [hmol, if_false, List.not_mem_nil, false_iff, Bool.false_eq_true]
    intro he
    apply hmol
    simp only [molConsOK, List.all_eq_true]
    intro p hp
    exact (molCons_iff m p).2 (he.molecule p hp)

theorem queryMatches_nodup (q : Query) (m : Mol) : (queryMatches q m).Nodup := by
  unfold queryMatches pipeline
  split
  · exact (((rawMatches_nodup q m).filter _).filter _).filter _
  · exact List.nodup_nil

end PGA.Match
