import PGA.Spec.Net
import Mathlib.Data.List.Perm.Subperm
import Mathlib.Data.List.Induction
/-! Helper lemmas for C17: the duplicate elimination, the push of new species, one pass over the rules, and the
invariants of the work-list loop (`processed` / `unprocessed`). -/
namespace PGA.Net
variable {α : Type} [DecidableEq α]

/-! ### duplicate elimination inside one product list (lines 130-139) -/

theorem mem_dedupRev (l : List α) (x : α) : x ∈ dedupRev l ↔ x ∈ l := by
  induction l with
  | nil => simp [dedupRev]
  | cons a l ih =>
    unfold dedupRev
    split
    · rename_i h
      constructor
      · intro hx; exact List.mem_cons_of_mem _ (ih.mp hx)
      · intro hx
        rcases List.mem_cons.mp hx with e | hx
        · subst e; exact ih.mpr h
        · exact ih.mpr hx
    · simp [ih]

theorem nodup_dedupRev (l : List α) : (dedupRev l).Nodup := by
  induction l with
  | nil => simp [dedupRev]
  | cons a l ih =>
    unfold dedupRev
    split
    · exact ih
    · rename_i h
      exact List.nodup_cons.mpr ⟨fun hx => h ((mem_dedupRev l a).mp hx), ih⟩

theorem mem_dedup (l : List α) (x : α) : x ∈ dedup l ↔ x ∈ l := by
  simp [dedup, mem_dedupRev]

theorem nodup_dedup (l : List α) : (dedup l).Nodup := by
  unfold dedup
  exact (List.reverse_perm _).nodup_iff.mpr (nodup_dedupRev _)

/-! ### pushing the new species (lines 142-155, repaired) -/

theorem mem_pushNew (p ms u : List α) (x : α) :
    x ∈ pushNew p ms u ↔ x ∈ u ∨ (x ∈ ms ∧ x ∉ p) := by
  induction ms generalizing u with
  | nil => simp [pushNew]
  | cons m ms ih =>
    unfold pushNew
    split
    · rename_i h
      rw [ih]
      rcases List.mem_append.mp h with h | h
      · constructor
        · rintro (hx | ⟨hx, hp⟩)
          · exact Or.inl hx
          · exact Or.inr ⟨List.mem_cons_of_mem _ hx, hp⟩
        · rintro (hx | ⟨hx, hp⟩)
          · exact Or.inl hx
          · rcases List.mem_cons.mp hx with e | hx
            · subst e; exact absurd h hp
            · exact Or.inr ⟨hx, hp⟩
      · constructor
        · rintro (hx | ⟨hx, hp⟩)
          · exact Or.inl hx
          · exact Or.inr ⟨List.mem_cons_of_mem _ hx, hp⟩
        · rintro (hx | ⟨hx, hp⟩)
          · exact Or.inl hx
          · rcases List.mem_cons.mp hx with e | hx
            · subst e; exact Or.inl h
            · exact Or.inr ⟨hx, hp⟩
    · rename_i h
      rw [ih]
      have hp : m ∉ p := fun hm => h (List.mem_append_left _ hm)
      constructor
      · rintro (hx | ⟨hx, hxp⟩)
        · rcases List.mem_cons.mp hx with e | hx
          · subst e; exact Or.inr ⟨List.mem_cons_self, hp⟩
          · exact Or.inl hx
        · exact Or.inr ⟨List.mem_cons_of_mem _ hx, hxp⟩
      · rintro (hx | ⟨hx, hxp⟩)
        · exact Or.inl (List.mem_cons_of_mem _ hx)
        · rcases List.mem_cons.mp hx with e | hx
          · subst e; exact Or.inl List.mem_cons_self
          · exact Or.inr ⟨hx, hxp⟩

theorem nodup_pushNew (p ms u : List α) (h : (p ++ u).Nodup) : (p ++ pushNew p ms u).Nodup := by
  induction ms generalizing u with
  | nil => simpa [pushNew] using h
  | cons m ms ih =>
    unfold pushNew
    split
    · exact ih u h
    · rename_i hm
      apply ih
      exact (List.perm_middle.nodup_iff).mpr (List.nodup_cons.mpr ⟨hm, h⟩)

/-! ### the duplicate elimination inside one product list is redundant once new species are compared with both work lists -/

theorem pushNew_append (p l1 l2 u : List α) : pushNew p (l1 ++ l2) u = pushNew p l2 (pushNew p l1 u) := by
  induction l1 generalizing u with
  | nil => rfl
  | cons m ms ih =>
    simp only [List.cons_append, pushNew]
    split <;> exact ih _

theorem dedup_snoc (l : List α) (x : α) : dedup (l ++ [x]) = if x ∈ l then dedup l else dedup l ++ [x] := by
  simp only [dedup, List.reverse_append, List.reverse_cons, List.reverse_nil, List.nil_append, List.singleton_append, dedupRev,
    List.mem_reverse]
  split <;> simp

theorem pushNew_dedup (p l u : List α) : pushNew p (dedup l) u = pushNew p l u := by
  induction l using List.reverseRecOn with
  | nil => rfl
  | append_singleton l x ih =>
    rw [dedup_snoc, pushNew_append]
    by_cases hx : x ∈ l
    · rw [if_pos hx, ih]
      have : x ∈ p ++ pushNew p l u := by
        by_cases hp : x ∈ p
        · exact List.mem_append_left _ hp
        · exact List.mem_append_right _ ((mem_pushNew p l u x).mpr (Or.inr ⟨hx, hp⟩))
      simp [pushNew, this]
    · rw [if_neg hx, pushNew_append, ih]

/-! ### one pass over the rules for the popped species (lines 87-155) -/

theorem ruleStep_unary (r0 : α) (p u : List α) (rule : Rule α) (h : rule.arity = 1) :
    ruleStep pushNew r0 p u rule = .ok (pushNew p (dedup (rule.run r0)) u) := by
  simp [ruleStep, h]

theorem rulesStep_ok (r0 : α) (p : List α) (rs : List (Rule α)) (hU : ∀ r ∈ rs, r.arity = 1) (u : List α) :
    ∃ u', rulesStep pushNew r0 p rs u = .ok u' ∧
      (∀ x, x ∈ u' ↔ x ∈ u ∨ ((∃ r ∈ rs, x ∈ r.run r0) ∧ x ∉ p)) ∧
      ((p ++ u).Nodup → (p ++ u').Nodup) := by
  induction rs generalizing u with
  | nil => exact ⟨u, rfl, by simp, id⟩
  | cons rule rest ih =>
    have h1 : rule.arity = 1 := hU rule List.mem_cons_self
    obtain ⟨u', he, hm, hn⟩ := ih (fun r hr => hU r (List.mem_cons_of_mem _ hr)) (pushNew p (dedup (rule.run r0)) u)
    refine ⟨u', ?_, ?_, ?_⟩
    · simp only [rulesStep, ruleStep_unary r0 p u rule h1]
      exact he
    · intro x
      rw [hm x, mem_pushNew, mem_dedup]
      constructor
      · rintro ((hx | ⟨hx, hp⟩) | ⟨⟨r, hr, hx⟩, hp⟩)
        · exact Or.inl hx
        · exact Or.inr ⟨⟨rule, List.mem_cons_self, hx⟩, hp⟩
        · exact Or.inr ⟨⟨r, List.mem_cons_of_mem _ hr, hx⟩, hp⟩
      · rintro (hx | ⟨⟨r, hr, hx⟩, hp⟩)
        · exact Or.inl (Or.inl hx)
        · rcases List.mem_cons.mp hr with e | hr
          · subst e; exact Or.inl (Or.inr ⟨hx, hp⟩)
          · exact Or.inr ⟨⟨r, hr, hx⟩, hp⟩
    · intro h
      exact hn (nodup_pushNew p _ u h)

/-- a rule that is not unimolecular makes the pass end in `ValueError` / `TypeError` -/
theorem rulesStep_nonunary (push : List α → List α → List α → List α) (r0 : α) (p : List α) (rs : List (Rule α))
    (h : ∃ r ∈ rs, r.arity ≠ 1) (u : List α) :
    rulesStep push r0 p rs u = .error .value ∨ rulesStep push r0 p rs u = .error .type := by
  induction rs generalizing u with
  | nil => obtain ⟨r, hr, _⟩ := h; cases hr
  | cons rule rest ih =>
    by_cases h1 : rule.arity = 1
    · have : ∃ r ∈ rest, r.arity ≠ 1 := by
        obtain ⟨r, hr, hne⟩ := h
        rcases List.mem_cons.mp hr with e | hr
        · subst e; exact absurd h1 hne
        · exact ⟨r, hr, hne⟩
      simp only [rulesStep, ruleStep, h1]
      exact ih this _
    · by_cases h0 : rule.arity = 0
      · left; simp [rulesStep, ruleStep, h0]
      · right; simp [rulesStep, ruleStep, h0, h1]

/-! ### the loop -/

theorem loop_nil (rules : List (Rule α)) (f : Nat) (p : List α) : loop rules f [] p = .ok p := by
  cases f <;> simp [loop, loopWith]

theorem loop_zero_cons (rules : List (Rule α)) (r0 : α) (rest p : List α) :
    loop rules 0 (r0 :: rest) p = .error .fuel := by
  simp [loop, loopWith]

theorem loop_succ_cons (rules : List (Rule α)) (f : Nat) (r0 : α) (rest p u' : List α)
    (h : rulesStep pushNew r0 (r0 :: p) rules rest = .ok u') :
    loop rules (f + 1) (r0 :: rest) p = loop rules f u' (r0 :: p) := by
  simp [loop, loopWith, h]

/-- The invariant carried through the loop, in one statement: for a unimolecular rule list, if the loop ends with
`res` then (1) everything that was in either work list is in `res`; (2) if the processed species already have all
their successors in the work lists, `res` is closed; (3) any predicate that holds on the work lists and is
preserved by rule application holds on `res`; (4) if the work lists are jointly duplicate-free so is `res`. -/
theorem loop_inv (rules : List (Rule α)) (hU : Unary rules) (f : Nat) (u p res : List α)
    (h : loop rules f u p = .ok res) :
    (∀ x, x ∈ p ∨ x ∈ u → x ∈ res) ∧
    ((∀ a ∈ p, ∀ b, Step rules a b → b ∈ p ∨ b ∈ u) → ∀ a ∈ res, ∀ b, Step rules a b → b ∈ res) ∧
    (∀ R : α → Prop, (∀ x, x ∈ p ∨ x ∈ u → R x) → (∀ a b, R a → Step rules a b → R b) → ∀ x ∈ res, R x) ∧
    ((p ++ u).Nodup → res.Nodup) := by
  induction f generalizing u p with
  | zero =>
    cases u with
    | nil =>
      rw [loop_nil] at h
      cases h
      refine ⟨?_, ?_, ?_, ?_⟩
      · rintro x (hx | hx)
        · exact hx
        · cases hx
      · intro hc a ha b hs
        rcases hc a ha b hs with hb | hb
        · exact hb
        · cases hb
      · intro R hR _ x hx
        exact hR x (Or.inl hx)
      · intro hn; simpa using hn
    | cons r0 rest => rw [loop_zero_cons] at h; cases h
  | succ f ih =>
    cases u with
    | nil =>
      rw [loop_nil] at h
      cases h
      refine ⟨?_, ?_, ?_, ?_⟩
      · rintro x (hx | hx)
        · exact hx
        · cases hx
      · intro hc a ha b hs
        rcases hc a ha b hs with hb | hb
        · exact hb
        · cases hb
      · intro R hR _ x hx
        exact hR x (Or.inl hx)
      · intro hn; simpa using hn
    | cons r0 rest =>
      obtain ⟨u', he, hm, hn⟩ := rulesStep_ok r0 (r0 :: p) rules hU rest
      rw [loop_succ_cons rules f r0 rest p u' he] at h
      obtain ⟨i1, i2, i3, i4⟩ := ih u' (r0 :: p) h
      refine ⟨?_, ?_, ?_, ?_⟩
      · rintro x (hx | hx)
        · exact i1 x (Or.inl (List.mem_cons_of_mem _ hx))
        · rcases List.mem_cons.mp hx with e | hx
          · subst e; exact i1 x (Or.inl List.mem_cons_self)
          · exact i1 x (Or.inr ((hm x).mpr (Or.inl hx)))
      · intro hc
        apply i2
        intro a ha b hs
        by_cases hbp : b ∈ r0 :: p
        · exact Or.inl hbp
        · right
          rcases List.mem_cons.mp ha with e | ha
          · subst e
            obtain ⟨r, hr, hb⟩ := hs
            exact (hm b).mpr (Or.inr ⟨⟨r, hr, hb⟩, hbp⟩)
          · rcases hc a ha b hs with hb | hb
            · exact absurd (List.mem_cons_of_mem _ hb) hbp
            · rcases List.mem_cons.mp hb with e | hb
              · subst e; exact absurd List.mem_cons_self hbp
              · exact (hm b).mpr (Or.inl hb)
      · intro R hR hstep
        apply i3 R _ hstep
        rintro x (hx | hx)
        · rcases List.mem_cons.mp hx with e | hx
          · subst e; exact hR x (Or.inr List.mem_cons_self)
          · exact hR x (Or.inl hx)
        · rcases (hm x).mp hx with hx | ⟨⟨r, hr, hx⟩, _⟩
          · exact hR x (Or.inr (List.mem_cons_of_mem _ hx))
          · exact hstep r0 x (hR r0 (Or.inr List.mem_cons_self)) ⟨r, hr, hx⟩
      · intro hnd
        apply i4
        apply hn
        have : (r0 :: (p ++ rest)).Nodup := (List.perm_middle.nodup_iff).mp hnd
        simpa using this

/-- Termination: if the work lists are jointly duplicate-free and inside a finite closed list `C`, the loop ends
within `C.length - processed.length` further iterations. -/
theorem loop_terminates (rules : List (Rule α)) (hU : Unary rules) (C : List α) (hC : Closed rules (· ∈ C))
    (f : Nat) (u p : List α) (hnd : (p ++ u).Nodup) (hsub : ∀ x, x ∈ p ∨ x ∈ u → x ∈ C)
    (hf : C.length ≤ f + p.length) : ∃ res, loop rules f u p = .ok res := by
  induction f generalizing u p with
  | zero =>
    cases u with
    | nil => exact ⟨p, loop_nil _ _ _⟩
    | cons r0 rest =>
      exfalso
      have hss : p ++ r0 :: rest ⊆ C := by
        intro x hx
        exact hsub x (List.mem_append.mp hx)
      have := List.Nodup.length_le_of_subset hnd hss
      simp at this
      omega
  | succ f ih =>
    cases u with
    | nil => exact ⟨p, loop_nil _ _ _⟩
    | cons r0 rest =>
      obtain ⟨u', he, hm, hn⟩ := rulesStep_ok r0 (r0 :: p) rules hU rest
      rw [loop_succ_cons rules f r0 rest p u' he]
      apply ih
      · apply hn
        have : (r0 :: (p ++ rest)).Nodup := (List.perm_middle.nodup_iff).mp hnd
        simpa using this
      · rintro x (hx | hx)
        · rcases List.mem_cons.mp hx with e | hx
          · subst e; exact hsub x (Or.inr List.mem_cons_self)
          · exact hsub x (Or.inl hx)
        · rcases (hm x).mp hx with hx | ⟨⟨r, hr, hx⟩, _⟩
          · exact hsub x (Or.inr (List.mem_cons_of_mem _ hx))
          · exact hC r0 x (hsub r0 (Or.inr List.mem_cons_self)) ⟨r, hr, hx⟩
      · simp; omega

/-- More fuel never changes a result. -/
theorem loopWith_fuel_mono (push : List α → List α → List α → List α) (rules : List (Rule α)) (f g : Nat) (hfg : f ≤ g)
    (u p res : List α) (h : loopWith push rules f u p = .ok res) : loopWith push rules g u p = .ok res := by
  induction f generalizing g u p with
  | zero =>
    cases u with
    | nil => cases g <;> simpa [loopWith] using h
    | cons r0 rest => simp [loopWith] at h
  | succ f ih =>
    cases u with
    | nil => cases g <;> simpa [loopWith] using h
    | cons r0 rest =>
      cases g with
      | zero => omega
      | succ g =>
        simp only [loopWith] at h ⊢
        split at h
        · cases h
        · rename_i u' he
          exact ih g (by omega) u' (r0 :: p) h

end PGA.Net
