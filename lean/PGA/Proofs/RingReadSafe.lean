import PGA.Proofs.RingShape
import PGA.Model.RingRead
/-!
# The readers never meet a tree shape they do not expect (C09-T4)

For every tree that conforms to the generated `enhanced_grammar` (`Conf`, which `parse_conf` gives for
every accepted text) the outcome model of the readers does not end in `shape`.  The proofs use the
child-kind tables of the rules the readers visit (`ruleKinds`, each re-checked by `decide +kernel`
over the regenerated grammar).
-/
set_option linter.unusedVariables false
namespace PGA.Ring
open PGA.Chars PGA.Gen.RingGrammar

def ruleKinds (G : Grammar) (n : Nat) : List (List Kind) :=
  match G.rules[n]? with | some (some b) => kinds b | _ => []

theorem conf_kinds {G : Grammar} {n : Nat} {kids : List Ast} (h : Conf G (.node n kids)) :
    kids.map kindOf ∈ ruleKinds G n ∧ ∀ k ∈ kids, Conf G k := by
  cases h with
  | node _ body _ hb hk hc => exact ⟨by simp only [ruleKinds, hb]; exact hk, hc⟩

theorem map_kind_nil {kids : List Ast} : kids.map kindOf = [] ↔ kids = [] := List.map_eq_nil_iff
theorem map_kind_cons {kids : List Ast} {K : Kind} {Ks : List Kind} :
    kids.map kindOf = K :: Ks ↔ ∃ a as, kids = a :: as ∧ kindOf a = K ∧ as.map kindOf = Ks := by
  cases kids with
  | nil => simp
  | cons a as =>
    simp only [List.map_cons, List.cons.injEq]
    constructor
    · rintro ⟨h1, h2⟩; exact ⟨a, as, ⟨rfl, rfl⟩, h1, h2⟩
    · rintro ⟨_, _, ⟨rfl, rfl⟩, h1, h2⟩; exact ⟨h1, h2⟩
theorem kindOf_node {a : Ast} {n : Nat} : kindOf a = .node n ↔ ∃ c, a = .node n c := by
  cases a <;> simp [kindOf]
theorem kindOf_str {a : Ast} : kindOf a = .str ↔ ∃ s, a = .str s := by
  cases a <;> simp [kindOf]
theorem kindOf_int {a : Ast} : kindOf a = .int ↔ ∃ v, a = .int v := by
  cases a <;> simp [kindOf]

/-- not a shape failure -/
def Safe {α : Type} (r : RM α) : Prop := r ≠ .error .shape

theorem safe_ok {α : Type} (a : α) : Safe (pure a : RM α) := by simp [Safe, pure, Except.pure]
theorem safe_reader {α : Type} : Safe (throw .reader : RM α) := by simp [Safe, throw, throwThe, MonadExceptOf.throw]
theorem safe_notImpl {α : Type} : Safe (throw .notImpl : RM α) := by simp [Safe, throw, throwThe, MonadExceptOf.throw]
theorem safe_bind {α β : Type} {x : RM α} {f : α → RM β} (hx : Safe x) (hf : ∀ a, x = .ok a → Safe (f a)) :
    Safe (x >>= f) := by
  cases x with
  | error e =>
    intro h
    simp only [bind, Except.bind] at h
    cases h; exact hx rfl
  | ok a => simpa [bind, Except.bind] using hf a rfl

/-- a one-string-child node of the grammar (`Symbols`, `AtomLabel`, `BondType`, names, …) -/
def oneStr (G : Grammar) (n : Nat) : Bool := (ruleKinds G n).all fun k => decide (k = [Kind.str])
def OneStr (G : Grammar) (n : Nat) : Prop := ∀ k ∈ ruleKinds G n, k = [Kind.str]
theorem oneStr_sound {G : Grammar} {n : Nat} (h : oneStr G n = true) : OneStr G n := by
  intro k hk
  simp only [oneStr, List.all_eq_true, decide_eq_true_eq] at h
  exact h k hk

theorem conf_oneStr {G : Grammar} {n : Nat} {kids : List Ast} (h : Conf G (.node n kids)) (h1 : OneStr G n) :
    ∃ s, s ≠ [] ∧ kids = [.str s] := by
  obtain ⟨hk, hc⟩ := conf_kinds h
  have := h1 _ hk
  simp only [map_kind_cons, map_kind_nil, kindOf_str] at this
  obtain ⟨a, as, rfl, ⟨s, rfl⟩, rfl⟩ := this
  have hs := hc (.str s) (by simp)
  cases hs with
  | str _ hne => exact ⟨s, hne, rfl⟩

/-! ## table facts about `enhanced_grammar` -/

theorem one_Symbols : OneStr enhanced rSymbols := oneStr_sound (by decide +kernel)
theorem one_AtomSuffix : OneStr enhanced rAtomSuffix := oneStr_sound (by decide +kernel)
theorem one_AtomPrefix : OneStr enhanced rAtomPrefix := oneStr_sound (by decide +kernel)
theorem one_AtomLabel : OneStr enhanced rAtomLabel := oneStr_sound (by decide +kernel)
theorem one_BondType : OneStr enhanced rBondType := oneStr_sound (by decide +kernel)
theorem one_Boolean : OneStr enhanced rBoolean := oneStr_sound (by decide +kernel)
theorem one_GroupName : OneStr enhanced rGroupName := oneStr_sound (by decide +kernel)
theorem one_FragmentName : OneStr enhanced rFragmentName := oneStr_sound (by decide +kernel)
theorem one_ReactantName : OneStr enhanced rReactantName := oneStr_sound (by decide +kernel)
theorem one_ReactionName : OneStr enhanced rReactionName := oneStr_sound (by decide +kernel)
theorem one_StereoType : OneStr enhanced rDoubleBondStereoType := oneStr_sound (by decide +kernel)

theorem rk_AtomType : ruleKinds enhanced rAtomType =
    [[.node rSymbols], [.node rSymbols, .node rAtomSuffix], [.node rAtomPrefix, .node rSymbols],
     [.node rAtomPrefix, .node rSymbols, .node rAtomSuffix]] := by decide +kernel

/-! ## MolQueryRead -/

theorem readSymbols_safe (s : List Char) (hs : s ≠ []) : Safe (readSymbols [.str s]) := by
  unfold readSymbols
  simp only
  split
  · exact safe_ok _
  · cases s with
    | nil => exact absurd rfl hs
    | cons c r =>
      simp only
      split
      · split
        · exact safe_ok _
        · exact safe_reader
      · split
        · exact safe_ok _
        · split
          · exact safe_ok _
          · exact safe_reader

theorem readSuffix_safe (s : List Char) : Safe (readSuffix [.str s]) := by
  unfold readSuffix
  simp only
  split
  · exact safe_ok _
  · exact safe_notImpl

theorem readAtomType_safe (kids : List Ast) (h : Conf enhanced (.node rAtomType kids)) : Safe (readAtomType kids) := by
  obtain ⟨hk, hc⟩ := conf_kinds h
  rw [rk_AtomType] at hk
  simp only [List.mem_cons, List.not_mem_nil, or_false, map_kind_cons, map_kind_nil, kindOf_node] at hk
  rcases hk with hk | hk | hk | hk
  · obtain ⟨a, as, rfl, ⟨c, rfl⟩, rfl⟩ := hk
    obtain ⟨s, hs, rfl⟩ := conf_oneStr (hc (.node rSymbols c) (by simp)) one_Symbols
    simp only [readAtomType]
    exact safe_bind (readSymbols_safe s hs) (fun _ _ => safe_ok _)
  · obtain ⟨a, as, rfl, ⟨c, rfl⟩, b, bs, rfl, ⟨d, rfl⟩, rfl⟩ := hk
    obtain ⟨s, hs, rfl⟩ := conf_oneStr (hc (.node rSymbols c) (by simp)) one_Symbols
    obtain ⟨x, hx, rfl⟩ := conf_oneStr (hc (.node rAtomSuffix d) (by simp)) one_AtomSuffix
    simp only [readAtomType]
    exact safe_bind (readSymbols_safe s hs) (fun _ _ => readSuffix_safe x)
  · obtain ⟨a, as, rfl, ⟨c, rfl⟩, b, bs, rfl, ⟨d, rfl⟩, rfl⟩ := hk
    obtain ⟨s, hs, rfl⟩ := conf_oneStr (hc (.node rSymbols d) (by simp)) one_Symbols
    simp only [readAtomType]
    exact safe_bind (readSymbols_safe s hs) (fun _ _ => safe_ok _)
  · obtain ⟨a, as, rfl, ⟨c, rfl⟩, b, bs, rfl, ⟨d, rfl⟩, e, es, rfl, ⟨f, rfl⟩, rfl⟩ := hk
    obtain ⟨s, hs, rfl⟩ := conf_oneStr (hc (.node rSymbols d) (by simp)) one_Symbols
    obtain ⟨x, hx, rfl⟩ := conf_oneStr (hc (.node rAtomSuffix f) (by simp)) one_AtomSuffix
    simp only [readAtomType]
    exact safe_bind (readSymbols_safe s hs) (fun _ _ => readSuffix_safe x)

theorem safe_shape_false {α : Type} : ¬ Safe (throw .shape : RM α) := by simp [Safe, throw, throwThe, MonadExceptOf.throw]

/-- destructure `kids.map kindOf ∈ [...]` into a disjunction of explicit shapes -/
macro "kids_shapes" h:ident : tactic =>
  `(tactic| simp only [List.mem_cons, List.not_mem_nil, or_false, map_kind_cons, map_kind_nil, kindOf_node, kindOf_str,
      kindOf_int] at $h:ident)

theorem rk_ConstraintNumber : ruleKinds enhanced rConstraintNumber = [[.int], [.str, .int]] := by decide +kernel
theorem rk_Conn : ruleKinds enhanced rAtomConstraintConnectivity =
    [[.node rGroupName], [.node rGroupName, .node rBondType], [.node rAtomType], [.node rAtomType, .node rBondType],
     [.node rConstraintNumber, .node rGroupName], [.node rConstraintNumber, .node rGroupName, .node rBondType],
     [.node rConstraintNumber, .node rAtomType], [.node rConstraintNumber, .node rAtomType, .node rBondType],
     [.node rBoolean, .node rGroupName], [.node rBoolean, .node rGroupName, .node rBondType],
     [.node rBoolean, .node rAtomType], [.node rBoolean, .node rAtomType, .node rBondType],
     [.node rBoolean, .node rConstraintNumber, .node rGroupName],
     [.node rBoolean, .node rConstraintNumber, .node rGroupName, .node rBondType],
     [.node rBoolean, .node rConstraintNumber, .node rAtomType],
     [.node rBoolean, .node rConstraintNumber, .node rAtomType, .node rBondType]] := by decide +kernel
theorem rk_Ring : ruleKinds enhanced rAtomConstraintRing = [[.node rConstraintNumber], [.node rBoolean, .node rConstraintNumber]] := by
  decide +kernel
theorem rk_Radical : ruleKinds enhanced rAtomConstraintRadical = [[.node rConstraintNumber], [.node rBoolean, .node rConstraintNumber]] := by
  decide +kernel
theorem rk_NRing : ruleKinds enhanced rAtomConstraintNRing = [[.node rConstraintNumber], [.node rBoolean, .node rConstraintNumber]] := by
  decide +kernel
theorem rk_Constraints : ruleKinds enhanced rAtomConstraints =
    [[.node rAtomConstraintConnectivity], [.node rAtomConstraintRing], [.node rAtomConstraintRadical], [.node rAtomConstraintNRing]] := by
  decide +kernel
theorem rk_ConstraintChain : ruleKinds enhanced rAtomConstraintChain =
    [[.node rAtomConstraints], [.node rAtomConstraints, .node rAtomConstraintChain]] := by decide +kernel

theorem cnOK_conf (ck : List Ast) (h : Conf enhanced (.node rConstraintNumber ck)) : cnOK ck = true := by
  obtain ⟨hk, _⟩ := conf_kinds h
  rw [rk_ConstraintNumber] at hk
  kids_shapes hk
  rcases hk with hk | hk
  · obtain ⟨_, _, rfl, _, rfl⟩ := hk; simp [cnOK]
  · obtain ⟨_, _, rfl, _, _, _, rfl, _, rfl⟩ := hk; simp [cnOK]

theorem readBoolean_bool (b : List Ast) (r : List Ast) (h : Conf enhanced (.node rBoolean b)) :
    readBoolean (.node rBoolean b :: r) = pure r ∨ readBoolean (.node rBoolean b :: r) = throw .notImpl := by
  obtain ⟨s, _, rfl⟩ := conf_oneStr h one_Boolean
  simp only [readBoolean, if_true]
  split
  · exact Or.inl rfl
  · exact Or.inr rfl

theorem readBoolean_other (n : Nat) (k r : List Ast) (h : n ≠ rBoolean) :
    readBoolean (.node n k :: r) = pure (.node n k :: r) := by
  simp [readBoolean, h]

theorem connTail_nil : connTail [] = pure () := rfl
theorem connTail_bond (bk : List Ast) (h : Conf enhanced (.node rBondType bk)) : Safe (connTail [.node rBondType bk]) := by
  obtain ⟨s, _, rfl⟩ := conf_oneStr h one_BondType
  simp only [connTail, if_true]
  split
  · exact safe_ok _
  · exact safe_notImpl

theorem connCore_atom (k rest : List Ast) (h : Conf enhanced (.node rAtomType k)) (hr : Safe (connTail rest)) :
    Safe (connCore (.node rAtomType k :: rest)) := by
  simp only [connCore, if_true]
  exact safe_bind (readAtomType_safe k h) (fun _ _ => hr)

theorem connCore_group (k rest : List Ast) (h : Conf enhanced (.node rGroupName k)) :
    Safe (connCore (.node rGroupName k :: rest)) := by
  obtain ⟨s, _, rfl⟩ := conf_oneStr h one_GroupName
  simp only [connCore]
  exact safe_reader

theorem connCN_cn (ck r : List Ast) (h : Conf enhanced (.node rConstraintNumber ck)) :
    connCN (.node rConstraintNumber ck :: r) = pure r := by
  simp [connCN, cnOK_conf ck h]

theorem connCN_other (n : Nat) (k r : List Ast) (h : n ≠ rConstraintNumber) :
    connCN (.node n k :: r) = pure (.node n k :: r) := by
  simp [connCN, h]

def connKinds8 : List (List Kind) :=
  [[Kind.node rGroupName], [.node rGroupName, .node rBondType], [.node rAtomType], [.node rAtomType, .node rBondType],
   [.node rConstraintNumber, .node rGroupName], [.node rConstraintNumber, .node rGroupName, .node rBondType],
   [.node rConstraintNumber, .node rAtomType], [.node rConstraintNumber, .node rAtomType, .node rBondType]]

/-- after the optional Boolean: `[ConstraintNumber?] (AtomType | GroupName) [BondType?]` -/
theorem connRest_safe (kids : List Ast) (hc : ∀ k ∈ kids, Conf enhanced k)
    (hk : kids.map kindOf ∈ connKinds8) :
    Safe (connCN kids >>= connCore) := by
  unfold connKinds8 at hk
  kids_shapes hk
  rcases hk with hk | hk | hk | hk | hk | hk | hk | hk
  · obtain ⟨_, _, rfl, ⟨g, rfl⟩, rfl⟩ := hk
    rw [connCN_other _ _ _ (by decide)]
    exact connCore_group g [] (hc _ (by simp))
  · obtain ⟨_, _, rfl, ⟨g, rfl⟩, _, _, rfl, ⟨b, rfl⟩, rfl⟩ := hk
    rw [connCN_other _ _ _ (by decide)]
    exact connCore_group g [.node rBondType b] (hc (.node rGroupName g) (by simp))
  · obtain ⟨_, _, rfl, ⟨a, rfl⟩, rfl⟩ := hk
    rw [connCN_other _ _ _ (by decide)]
    exact connCore_atom a [] (hc _ (by simp)) (by rw [connTail_nil]; exact safe_ok _)
  · obtain ⟨_, _, rfl, ⟨a, rfl⟩, _, _, rfl, ⟨b, rfl⟩, rfl⟩ := hk
    rw [connCN_other _ _ _ (by decide)]
    exact connCore_atom a _ (hc (.node rAtomType a) (by simp)) (connTail_bond b (hc (.node rBondType b) (by simp)))
  · obtain ⟨_, _, rfl, ⟨c, rfl⟩, _, _, rfl, ⟨g, rfl⟩, rfl⟩ := hk
    rw [connCN_cn c _ (hc (.node rConstraintNumber c) (by simp))]
    exact connCore_group g [] (hc (.node rGroupName g) (by simp))
  · obtain ⟨_, _, rfl, ⟨c, rfl⟩, _, _, rfl, ⟨g, rfl⟩, _, _, rfl, ⟨b, rfl⟩, rfl⟩ := hk
    rw [connCN_cn c _ (hc (.node rConstraintNumber c) (by simp))]
    exact connCore_group g [.node rBondType b] (hc (.node rGroupName g) (by simp))
  · obtain ⟨_, _, rfl, ⟨c, rfl⟩, _, _, rfl, ⟨a, rfl⟩, rfl⟩ := hk
    rw [connCN_cn c _ (hc (.node rConstraintNumber c) (by simp))]
    exact connCore_atom a [] (hc (.node rAtomType a) (by simp)) (by rw [connTail_nil]; exact safe_ok _)
  · obtain ⟨_, _, rfl, ⟨c, rfl⟩, _, _, rfl, ⟨a, rfl⟩, _, _, rfl, ⟨b, rfl⟩, rfl⟩ := hk
    rw [connCN_cn c _ (hc (.node rConstraintNumber c) (by simp))]
    exact connCore_atom a _ (hc (.node rAtomType a) (by simp)) (connTail_bond b (hc (.node rBondType b) (by simp)))

theorem conn_split (n : Nat) (ks : List Kind) (h : Kind.node n :: ks ∈ ruleKinds enhanced rAtomConstraintConnectivity) :
    (n = rBoolean ∧ ks ∈ connKinds8) ∨ (n ≠ rBoolean ∧ Kind.node n :: ks ∈ connKinds8) := by
  rw [rk_Conn] at h
  simp only [List.mem_cons, List.cons.injEq, Kind.node.injEq, List.not_mem_nil, or_false] at h
  rcases h with ⟨rfl, rfl⟩ | ⟨rfl, rfl⟩ | ⟨rfl, rfl⟩ | ⟨rfl, rfl⟩ | ⟨rfl, rfl⟩ | ⟨rfl, rfl⟩ | ⟨rfl, rfl⟩ | ⟨rfl, rfl⟩ |
    ⟨rfl, rfl⟩ | ⟨rfl, rfl⟩ | ⟨rfl, rfl⟩ | ⟨rfl, rfl⟩ | ⟨rfl, rfl⟩ | ⟨rfl, rfl⟩ | ⟨rfl, rfl⟩ | ⟨rfl, rfl⟩ <;> decide

theorem readConn_safe (kids : List Ast) (h : Conf enhanced (.node rAtomConstraintConnectivity kids)) : Safe (readConn kids) := by
  obtain ⟨hk, hc⟩ := conf_kinds h
  cases kids with
  | nil => rw [rk_Conn] at hk; simp at hk
  | cons a as =>
    cases a with
    | str _ => rw [rk_Conn] at hk; simp [kindOf] at hk
    | int _ => rw [rk_Conn] at hk; simp [kindOf] at hk
    | node n k =>
      simp only [List.map_cons, kindOf] at hk
      rcases conn_split n _ hk with ⟨rfl, hk'⟩ | ⟨hn, hk'⟩
      · have hb := readBoolean_bool k as (hc _ (by simp))
        have hrest := connRest_safe as (fun k hk => hc k (by simp [hk])) hk'
        unfold readConn
        rcases hb with hb | hb
        · rw [hb]; simpa [bind, Except.bind, pure, Except.pure] using hrest
        · rw [hb]; exact safe_notImpl
      · have hrest := connRest_safe (.node n k :: as) hc (by simpa [kindOf] using hk')
        unfold readConn
        rw [readBoolean_other n k as hn]
        simpa [bind, Except.bind, pure, Except.pure] using hrest

theorem readCount_safe (n : Nat) (kids : List Ast) (h : Conf enhanced (.node n kids))
    (hr : ruleKinds enhanced n = [[.node rConstraintNumber], [.node rBoolean, .node rConstraintNumber]]) :
    Safe (readCountConstraint kids) := by
  obtain ⟨hk, hc⟩ := conf_kinds h
  rw [hr] at hk
  kids_shapes hk
  rcases hk with hk | hk
  · obtain ⟨_, _, rfl, ⟨c, rfl⟩, rfl⟩ := hk
    unfold readCountConstraint
    rw [readBoolean_other _ _ _ (by decide)]
    simp [bind, Except.bind, pure, Except.pure, cnOK_conf c (hc _ (by simp)), Safe]
  · obtain ⟨_, _, rfl, ⟨b, rfl⟩, _, _, rfl, ⟨c, rfl⟩, rfl⟩ := hk
    unfold readCountConstraint
    rcases readBoolean_bool b [.node rConstraintNumber c] (hc (.node rBoolean b) (by simp)) with hb | hb
    · rw [hb]
      simp [bind, Except.bind, pure, Except.pure, cnOK_conf c (hc (.node rConstraintNumber c) (by simp)), Safe]
    · rw [hb]; exact safe_notImpl

theorem readConstraints_safe (kids : List Ast) (h : Conf enhanced (.node rAtomConstraints kids)) : Safe (readConstraints kids) := by
  obtain ⟨hk, hc⟩ := conf_kinds h
  rw [rk_Constraints] at hk
  kids_shapes hk
  rcases hk with hk | hk | hk | hk
  · obtain ⟨_, _, rfl, ⟨c, rfl⟩, rfl⟩ := hk
    simp only [readConstraints, if_true]
    exact readConn_safe c (hc _ (by simp))
  · obtain ⟨_, _, rfl, ⟨c, rfl⟩, rfl⟩ := hk
    simp only [readConstraints]
    exact readCount_safe _ c (hc _ (by simp)) rk_Ring
  · obtain ⟨_, _, rfl, ⟨c, rfl⟩, rfl⟩ := hk
    simp only [readConstraints]
    exact readCount_safe _ c (hc _ (by simp)) rk_Radical
  · obtain ⟨_, _, rfl, ⟨c, rfl⟩, rfl⟩ := hk
    simp only [readConstraints]
    exact readCount_safe _ c (hc _ (by simp)) rk_NRing

theorem readConstraintChain_safe : ∀ (kids : List Ast), Conf enhanced (.node rAtomConstraintChain kids) →
    Safe (readConstraintChain kids) := by
  intro kids
  induction hsz : sizeOf kids using Nat.strongRecOn generalizing kids with
  | _ sz ih =>
    intro h
    obtain ⟨hk, hc⟩ := conf_kinds h
    rw [rk_ConstraintChain] at hk
    kids_shapes hk
    rcases hk with hk | hk
    · obtain ⟨_, _, rfl, ⟨c, rfl⟩, rfl⟩ := hk
      rw [readConstraintChain]
      simp only [if_true]
      exact safe_bind (readConstraints_safe c (hc _ (by simp))) (fun _ _ => safe_ok _)
    · obtain ⟨_, _, rfl, ⟨c, rfl⟩, _, _, rfl, ⟨d, rfl⟩, rfl⟩ := hk
      rw [readConstraintChain]
      simp only [if_true]
      refine safe_bind (readConstraints_safe c (hc (.node rAtomConstraints c) (by simp))) (fun _ _ => ?_)
      exact ih (sizeOf d) (by subst hsz; simp; omega) d rfl (hc (.node rAtomConstraintChain d) (by simp))

theorem rk_Atom : ruleKinds enhanced rAtom =
    [[.node rAtomType, .node rAtomLabel], [.node rAtomType, .node rAtomLabel, .node rAtomConstraintChain]] := by decide +kernel
theorem rk_BondedAtom : ruleKinds enhanced rBondedAtom =
    [[.node rAtomType, .node rAtomLabel, .node rBondType, .node rAtomLabel],
     [.node rAtomType, .node rAtomLabel, .node rBondType, .node rAtomLabel, .node rAtomConstraintChain]] := by decide +kernel
theorem rk_RingBond : ruleKinds enhanced rRingBond = [[.node rAtomLabel, .node rBondType, .node rAtomLabel]] := by decide +kernel
theorem rk_Stereo : ruleKinds enhanced rStereoDoubleBond =
    [[.node rAtomLabel, .node rDoubleBondStereoType, .node rAtomLabel, .node rAtomLabel, .node rAtomLabel],
     [.node rAtomLabel, .node rBoolean, .node rDoubleBondStereoType, .node rAtomLabel, .node rAtomLabel, .node rAtomLabel]] := by
  decide +kernel
theorem rk_AtomChain : ruleKinds enhanced rAtomChain =
    [[.node rBondedAtom], [.node rBondedAtom, .node rAtomChain], [.node rRingBond], [.node rRingBond, .node rAtomChain],
     [.node rStereoDoubleBond], [.node rStereoDoubleBond, .node rAtomChain]] := by decide +kernel
theorem rk_MolQuery : ruleKinds enhanced rMolQuery = [[.node rAtom], [.node rAtom, .node rAtomChain]] := by decide +kernel

theorem safe_lookup (q : MolQ) (l : List Char) : Safe (lookup q l) := by
  unfold lookup; split
  · exact safe_ok _
  · exact safe_reader

theorem safe_addBond (q : MolQ) (i j : Nat) (k : Ast) : Safe (addBond q i j k) := by
  unfold addBond
  split
  · exact safe_reader
  · split
    · exact safe_reader
    · split
      · split
        · exact safe_ok _
        · exact safe_notImpl
      · exact safe_notImpl

theorem labelOf_str (n : Nat) (s : List Char) : labelOf (.node n [.str s]) = pure s := rfl
theorem child1_one (n : Nat) (x : Ast) : child1 (.node n [x]) = pure x := rfl

theorem bind_pure_eq {α β : Type} (a : α) (f : α → RM β) : (pure a : RM α) >>= f = f a := rfl

theorem readAtom_safe (kids : List Ast) (q : MolQ) (h : Conf enhanced (.node rAtom kids)) : Safe (readAtom kids q) := by
  obtain ⟨hk, hc⟩ := conf_kinds h
  rw [rk_Atom] at hk
  kids_shapes hk
  rcases hk with hk | hk
  · obtain ⟨_, _, rfl, ⟨t, rfl⟩, _, _, rfl, ⟨l, rfl⟩, rfl⟩ := hk
    obtain ⟨s, _, rfl⟩ := conf_oneStr (hc (.node rAtomLabel l) (by simp)) one_AtomLabel
    simp only [readAtom, if_true, labelOf_str, bind_pure_eq]
    exact safe_bind (readAtomType_safe t (hc (.node rAtomType t) (by simp))) (fun _ _ => safe_ok _)
  · obtain ⟨_, _, rfl, ⟨t, rfl⟩, _, _, rfl, ⟨l, rfl⟩, _, _, rfl, ⟨c, rfl⟩, rfl⟩ := hk
    obtain ⟨s, _, rfl⟩ := conf_oneStr (hc (.node rAtomLabel l) (by simp)) one_AtomLabel
    simp only [readAtom, if_true, labelOf_str, bind_pure_eq]
    refine safe_bind (readAtomType_safe t (hc (.node rAtomType t) (by simp))) (fun _ _ => ?_)
    exact safe_bind (readConstraintChain_safe c (hc (.node rAtomConstraintChain c) (by simp))) (fun _ _ => safe_ok _)

theorem readBondedAtom_safe (kids : List Ast) (q : MolQ) (h : Conf enhanced (.node rBondedAtom kids)) :
    Safe (readBondedAtom kids q) := by
  obtain ⟨hk, hc⟩ := conf_kinds h
  rw [rk_BondedAtom] at hk
  kids_shapes hk
  rcases hk with hk | hk
  · obtain ⟨_, _, rfl, ⟨t, rfl⟩, _, _, rfl, ⟨l, rfl⟩, _, _, rfl, ⟨b, rfl⟩, _, _, rfl, ⟨l2, rfl⟩, rfl⟩ := hk
    obtain ⟨s, _, rfl⟩ := conf_oneStr (hc (.node rAtomLabel l) (by simp)) one_AtomLabel
    obtain ⟨s2, _, rfl⟩ := conf_oneStr (hc (.node rAtomLabel l2) (by simp)) one_AtomLabel
    obtain ⟨bs, _, rfl⟩ := conf_oneStr (hc (.node rBondType b) (by simp)) one_BondType
    simp only [readBondedAtom, if_true, labelOf_str, child1_one, bind_pure_eq]
    refine safe_bind (readAtomType_safe t (hc (.node rAtomType t) (by simp))) (fun _ _ => ?_)
    refine safe_bind (safe_lookup _ _) (fun _ _ => ?_)
    exact safe_bind (safe_addBond _ _ _ _) (fun _ _ => safe_ok _)
  · obtain ⟨_, _, rfl, ⟨t, rfl⟩, _, _, rfl, ⟨l, rfl⟩, _, _, rfl, ⟨b, rfl⟩, _, _, rfl, ⟨l2, rfl⟩, _, _, rfl, ⟨c, rfl⟩, rfl⟩ := hk
    obtain ⟨s, _, rfl⟩ := conf_oneStr (hc (.node rAtomLabel l) (by simp)) one_AtomLabel
    obtain ⟨s2, _, rfl⟩ := conf_oneStr (hc (.node rAtomLabel l2) (by simp)) one_AtomLabel
    obtain ⟨bs, _, rfl⟩ := conf_oneStr (hc (.node rBondType b) (by simp)) one_BondType
    simp only [readBondedAtom, if_true, labelOf_str, child1_one, bind_pure_eq]
    refine safe_bind (readAtomType_safe t (hc (.node rAtomType t) (by simp))) (fun _ _ => ?_)
    refine safe_bind (safe_lookup _ _) (fun _ _ => ?_)
    refine safe_bind (safe_addBond _ _ _ _) (fun _ _ => ?_)
    exact safe_bind (readConstraintChain_safe c (hc (.node rAtomConstraintChain c) (by simp))) (fun _ _ => safe_ok _)

theorem readRingBond_safe (kids : List Ast) (q : MolQ) (h : Conf enhanced (.node rRingBond kids)) :
    Safe (readRingBond kids q) := by
  obtain ⟨hk, hc⟩ := conf_kinds h
  rw [rk_RingBond] at hk
  kids_shapes hk
  obtain ⟨_, _, rfl, ⟨l, rfl⟩, _, _, rfl, ⟨b, rfl⟩, _, _, rfl, ⟨l2, rfl⟩, rfl⟩ := hk
  obtain ⟨s, _, rfl⟩ := conf_oneStr (hc (.node rAtomLabel l) (by simp)) one_AtomLabel
  obtain ⟨s2, _, rfl⟩ := conf_oneStr (hc (.node rAtomLabel l2) (by simp)) one_AtomLabel
  obtain ⟨bs, _, rfl⟩ := conf_oneStr (hc (.node rBondType b) (by simp)) one_BondType
  simp only [readRingBond, labelOf_str, child1_one, bind_pure_eq]
  refine safe_bind (safe_lookup _ _) (fun _ _ => ?_)
  refine safe_bind (safe_lookup _ _) (fun _ _ => ?_)
  exact safe_addBond _ _ _ _

theorem safe_notImpl_bind {α β : Type} (f : α → RM β) : Safe ((throw .notImpl : RM α) >>= f) := by
  simp [Safe, throw, throwThe, MonadExceptOf.throw, bind, Except.bind]
theorem safe_reader_bind {α β : Type} (f : α → RM β) : Safe ((throw .reader : RM α) >>= f) := by
  simp [Safe, throw, throwThe, MonadExceptOf.throw, bind, Except.bind]

/-- one step of a proof that a reader expression cannot end in `shape` -/
macro "safe_step" : tactic => `(tactic| first
  | exact safe_ok _ | exact safe_reader | exact safe_notImpl
  | exact safe_lookup _ _ | exact safe_addBond _ _ _ _
  | exact safe_notImpl_bind _ | exact safe_reader_bind _
  | (refine safe_bind (safe_lookup _ _) (fun _ _ => ?_))
  | split)
macro "safe_tac" : tactic => `(tactic| repeat' safe_step)

/-- the part of `readStereo` after the optional Boolean -/
theorem stereoTail_safe (q : MolQ) (i1 : Nat) (ty s2 s3 s4 : List Char) :
    Safe (do
      let t ← child1 (.node rDoubleBondStereoType [.str ty])
      if !(isStr t (kw "cis") || isStr t (kw "trans") || isStr t (kw "notspecified")) then throw .notImpl
      let i2 ← lookup q (← labelOf (.node rAtomLabel [.str s2]))
      let i3 ← lookup q (← labelOf (.node rAtomLabel [.str s3]))
      let i4 ← lookup q (← labelOf (.node rAtomLabel [.str s4]))
      match q.getBond i3 i4 with
      | none => throw .reader
      | some bt =>
        if bt ≠ .double then throw .reader
        let b13 := (q.getBond i1 i3).isSome
        let b14 := (q.getBond i1 i4).isSome
        let b23 := (q.getBond i2 i3).isSome
        let b24 := (q.getBond i2 i4).isSome
        if (b13 && b23) || (b14 && b24) then throw .reader
        else if !b13 && !b14 then throw .reader
        else if !b23 && !b24 then throw .reader
        else pure q : RM MolQ) := by
  simp only [child1_one, labelOf_str, bind_pure_eq]
  safe_tac

theorem readStereo_safe (kids : List Ast) (q : MolQ) (h : Conf enhanced (.node rStereoDoubleBond kids)) :
    Safe (readStereo kids q) := by
  obtain ⟨hk, hc⟩ := conf_kinds h
  rw [rk_Stereo] at hk
  kids_shapes hk
  rcases hk with hk | hk
  · obtain ⟨_, _, rfl, ⟨l1, rfl⟩, _, _, rfl, ⟨t, rfl⟩, _, _, rfl, ⟨l2, rfl⟩, _, _, rfl, ⟨l3, rfl⟩, _, _, rfl, ⟨l4, rfl⟩, rfl⟩ := hk
    obtain ⟨s1, _, rfl⟩ := conf_oneStr (hc (.node rAtomLabel l1) (by simp)) one_AtomLabel
    obtain ⟨s2, _, rfl⟩ := conf_oneStr (hc (.node rAtomLabel l2) (by simp)) one_AtomLabel
    obtain ⟨s3, _, rfl⟩ := conf_oneStr (hc (.node rAtomLabel l3) (by simp)) one_AtomLabel
    obtain ⟨s4, _, rfl⟩ := conf_oneStr (hc (.node rAtomLabel l4) (by simp)) one_AtomLabel
    obtain ⟨ty, _, rfl⟩ := conf_oneStr (hc (.node rDoubleBondStereoType t) (by simp)) one_StereoType
    simp only [readStereo, labelOf_str, bind_pure_eq]
    refine safe_bind (safe_lookup _ _) (fun i1 _ => ?_)
    rw [readBoolean_other _ _ _ (by decide)]
    simp only [bind_pure_eq]
    exact stereoTail_safe q i1 ty s2 s3 s4
  · obtain ⟨_, _, rfl, ⟨l1, rfl⟩, _, _, rfl, ⟨b, rfl⟩, _, _, rfl, ⟨t, rfl⟩, _, _, rfl, ⟨l2, rfl⟩, _, _, rfl, ⟨l3, rfl⟩, _, _, rfl,
      ⟨l4, rfl⟩, rfl⟩ := hk
    obtain ⟨s1, _, rfl⟩ := conf_oneStr (hc (.node rAtomLabel l1) (by simp)) one_AtomLabel
    obtain ⟨s2, _, rfl⟩ := conf_oneStr (hc (.node rAtomLabel l2) (by simp)) one_AtomLabel
    obtain ⟨s3, _, rfl⟩ := conf_oneStr (hc (.node rAtomLabel l3) (by simp)) one_AtomLabel
    obtain ⟨s4, _, rfl⟩ := conf_oneStr (hc (.node rAtomLabel l4) (by simp)) one_AtomLabel
    obtain ⟨ty, _, rfl⟩ := conf_oneStr (hc (.node rDoubleBondStereoType t) (by simp)) one_StereoType
    simp only [readStereo, labelOf_str, bind_pure_eq]
    refine safe_bind (safe_lookup _ _) (fun i1 _ => ?_)
    rcases readBoolean_bool b _ (hc (.node rBoolean b) (by simp)) with hb | hb
    · rw [hb]
      simp only [bind_pure_eq]
      exact stereoTail_safe q i1 ty s2 s3 s4
    · rw [hb]; exact safe_notImpl_bind _

theorem readAtomChain_safe : ∀ (kids : List Ast) (q : MolQ), Conf enhanced (.node rAtomChain kids) →
    Safe (readAtomChain kids q) := by
  intro kids
  induction hsz : sizeOf kids using Nat.strongRecOn generalizing kids with
  | _ sz ih =>
    intro q h
    obtain ⟨hk, hc⟩ := conf_kinds h
    rw [rk_AtomChain] at hk
    kids_shapes hk
    rcases hk with hk | hk | hk | hk | hk | hk
    · obtain ⟨_, _, rfl, ⟨c, rfl⟩, rfl⟩ := hk
      rw [readAtomChain]
      simp only [if_true]
      exact safe_bind (readBondedAtom_safe c q (hc _ (by simp))) (fun _ _ => safe_ok _)
    · obtain ⟨_, _, rfl, ⟨c, rfl⟩, _, _, rfl, ⟨d, rfl⟩, rfl⟩ := hk
      rw [readAtomChain]
      simp only [if_true]
      refine safe_bind (readBondedAtom_safe c q (hc (.node rBondedAtom c) (by simp))) (fun q' _ => ?_)
      exact ih (sizeOf d) (by subst hsz; simp; omega) d rfl q' (hc (.node rAtomChain d) (by simp))
    · obtain ⟨_, _, rfl, ⟨c, rfl⟩, rfl⟩ := hk
      rw [readAtomChain]
      simp only [show (rRingBond = rBondedAtom) = False from by decide, if_false, if_true]
      exact safe_bind (readRingBond_safe c q (hc _ (by simp))) (fun _ _ => safe_ok _)
    · obtain ⟨_, _, rfl, ⟨c, rfl⟩, _, _, rfl, ⟨d, rfl⟩, rfl⟩ := hk
      rw [readAtomChain]
      simp only [show (rRingBond = rBondedAtom) = False from by decide, if_false, if_true]
      refine safe_bind (readRingBond_safe c q (hc (.node rRingBond c) (by simp))) (fun q' _ => ?_)
      exact ih (sizeOf d) (by subst hsz; simp; omega) d rfl q' (hc (.node rAtomChain d) (by simp))
    · obtain ⟨_, _, rfl, ⟨c, rfl⟩, rfl⟩ := hk
      rw [readAtomChain]
      simp only [show (rStereoDoubleBond = rBondedAtom) = False from by decide,
        show (rStereoDoubleBond = rRingBond) = False from by decide, if_false, if_true]
      exact safe_bind (readStereo_safe c q (hc _ (by simp))) (fun _ _ => safe_ok _)
    · obtain ⟨_, _, rfl, ⟨c, rfl⟩, _, _, rfl, ⟨d, rfl⟩, rfl⟩ := hk
      rw [readAtomChain]
      simp only [show (rStereoDoubleBond = rBondedAtom) = False from by decide,
        show (rStereoDoubleBond = rRingBond) = False from by decide, if_false, if_true]
      refine safe_bind (readStereo_safe c q (hc (.node rStereoDoubleBond c) (by simp))) (fun q' _ => ?_)
      exact ih (sizeOf d) (by subst hsz; simp; omega) d rfl q' (hc (.node rAtomChain d) (by simp))

theorem readMolQuery_safe (kids : List Ast) (q : MolQ) (h : Conf enhanced (.node rMolQuery kids)) :
    Safe (readMolQuery kids q) := by
  obtain ⟨hk, hc⟩ := conf_kinds h
  rw [rk_MolQuery] at hk
  kids_shapes hk
  rcases hk with hk | hk
  · obtain ⟨_, _, rfl, ⟨c, rfl⟩, rfl⟩ := hk
    simp only [readMolQuery, if_true]
    exact safe_bind (readAtom_safe c q (hc _ (by simp))) (fun _ _ => safe_ok _)
  · obtain ⟨_, _, rfl, ⟨c, rfl⟩, _, _, rfl, ⟨d, rfl⟩, rfl⟩ := hk
    simp only [readMolQuery, if_true]
    exact safe_bind (readAtom_safe c q (hc (.node rAtom c) (by simp))) (fun q' _ => readAtomChain_safe d q' (hc (.node rAtomChain d) (by simp)))

theorem readPrefix_safe (ks : List Ast) : Safe (readPrefix ks) := by
  unfold readPrefix
  simp only
  safe_tac

theorem rk_Fragment : ruleKinds enhanced rFragment = [[.node rPrefix, .node rFragmentName, .node rMolQuery]] := by decide +kernel
theorem rk_ReactantQuery : ruleKinds enhanced rReactantQuery = [[.node rPrefix, .node rReactantName, .node rMolQuery]] := by decide +kernel

theorem readMol_safe_frag (kids : List Ast) (h : Conf enhanced (.node rFragment kids)) : Safe (readMol kids) := by
  obtain ⟨hk, hc⟩ := conf_kinds h
  rw [rk_Fragment] at hk
  kids_shapes hk
  obtain ⟨_, _, rfl, ⟨p, rfl⟩, _, _, rfl, ⟨nm, rfl⟩, _, _, rfl, ⟨m, rfl⟩, rfl⟩ := hk
  obtain ⟨s, _, rfl⟩ := conf_oneStr (hc (.node rFragmentName nm) (by simp)) one_FragmentName
  simp only [readMol, if_true, true_or]
  split
  · exact safe_bind (readPrefix_safe p) (fun _ _ => readMolQuery_safe m _ (hc (.node rMolQuery m) (by simp)))
  · exact readMolQuery_safe m _ (hc (.node rMolQuery m) (by simp))

theorem readMol_safe_reactant (kids : List Ast) (h : Conf enhanced (.node rReactantQuery kids)) : Safe (readMol kids) := by
  obtain ⟨hk, hc⟩ := conf_kinds h
  rw [rk_ReactantQuery] at hk
  kids_shapes hk
  obtain ⟨_, _, rfl, ⟨p, rfl⟩, _, _, rfl, ⟨nm, rfl⟩, _, _, rfl, ⟨m, rfl⟩, rfl⟩ := hk
  obtain ⟨s, _, rfl⟩ := conf_oneStr (hc (.node rReactantName nm) (by simp)) one_ReactantName
  simp only [readMol, if_true, true_or, or_true]
  split
  · exact safe_bind (readPrefix_safe p) (fun _ _ => readMolQuery_safe m _ (hc (.node rMolQuery m) (by simp)))
  · exact readMolQuery_safe m _ (hc (.node rMolQuery m) (by simp))

/-! ## ReactionQueryRead -/

theorem safe_locate (s : Rxn) (l : List Char) : Safe (locate s l) := by
  unfold locate; safe_tac
theorem safe_globalIdx (s : Rxn) (l : List Char) : Safe (globalIdx s l) := by
  unfold globalIdx; safe_tac
theorem safe_rxnBondType (k : Ast) : Safe (rxnBondType k) := by
  unfold rxnBondType; safe_tac

macro "rsafe_step" : tactic => `(tactic| first
  | exact safe_ok _ | exact safe_reader | exact safe_notImpl
  | exact safe_notImpl_bind _ | exact safe_reader_bind _
  | (refine safe_bind (safe_locate _ _) (fun _ _ => ?_))
  | (refine safe_bind (safe_globalIdx _ _) (fun _ _ => ?_))
  | (refine safe_bind (safe_rxnBondType _) (fun _ _ => ?_))
  | split)
macro "rsafe_tac" : tactic => `(tactic| repeat' rsafe_step)

theorem rk_LabelMapping : ruleKinds enhanced rLabelMapping =
    [[.node rAtomLabel, .node rAtomLabel], [.node rAtomLabel, .node rAtomLabel, .node rLabelMapping]] := by decide +kernel
theorem rk_ReactantGroup : ruleKinds enhanced rReactantGroup = [[.node rReactantName, .node rGroupName, .node rLabelMapping]] := by
  decide +kernel
theorem rk_Duplicates : ruleKinds enhanced rDuplicates = [[.node rReactantName, .node rReactantName, .node rLabelMapping]] := by
  decide +kernel
theorem rk_Reactants : ruleKinds enhanced rReactants =
    [[.node rReactantQuery], [.node rReactantQuery, .node rReactants], [.node rReactantGroup], [.node rReactantGroup, .node rReactants],
     [.node rDuplicates], [.node rDuplicates, .node rReactants]] := by decide +kernel
theorem rk_BondForm : ruleKinds enhanced rBondForm =
    [[.node rAtomLabel, .node rAtomLabel], [.node rBondType, .node rAtomLabel, .node rAtomLabel]] := by decide +kernel
theorem rk_BondBreak : ruleKinds enhanced rBondBreak =
    [[.node rAtomLabel, .node rAtomLabel], [.node rBondType, .node rAtomLabel, .node rAtomLabel]] := by decide +kernel
theorem rk_BondModify : ruleKinds enhanced rBondModify = [[.node rAtomLabel, .node rAtomLabel, .node rBondType]] := by decide +kernel
theorem rk_BondIncrease : ruleKinds enhanced rBondIncrease = [[.node rAtomLabel, .node rAtomLabel]] := by decide +kernel
theorem rk_BondDecrease : ruleKinds enhanced rBondDecrease = [[.node rAtomLabel, .node rAtomLabel]] := by decide +kernel
theorem rk_AtomTypeModify : ruleKinds enhanced rAtomTypeModify = [[.node rAtomLabel, .node rAtomType]] := by decide +kernel
theorem rk_RadicalModify : ruleKinds enhanced rRadicalModify = [[.node rAtomLabel, .int]] := by decide +kernel
theorem rk_RadicalIncrease : ruleKinds enhanced rRadicalIncrease = [[.node rAtomLabel]] := by decide +kernel
theorem rk_RadicalDecrease : ruleKinds enhanced rRadicalDecrease = [[.node rAtomLabel]] := by decide +kernel
theorem rk_ChargeIncrease : ruleKinds enhanced rChargeIncrease = [[.node rAtomLabel]] := by decide +kernel
theorem rk_ChargeDecrease : ruleKinds enhanced rChargeDecrease = [[.node rAtomLabel]] := by decide +kernel
theorem rk_Change : ruleKinds enhanced rConnectivityChange =
    [[.node rBondForm], [.node rBondBreak], [.node rBondModify], [.node rBondDecrease], [.node rBondIncrease], [.node rAtomTypeModify],
     [.node rRadicalModify], [.node rRadicalIncrease], [.node rRadicalDecrease], [.node rChargeIncrease], [.node rChargeDecrease]] := by
  decide +kernel
theorem rk_TransChain : ruleKinds enhanced rTransformationChain =
    [[.node rConnectivityChange], [.node rConnectivityChange, .node rTransformationChain]] := by decide +kernel
theorem rk_Rule : ruleKinds enhanced rReactionRule =
    [[.node rReactionName, .node rReactants, .node rTransformationChain],
     [.node rReactionName, .node rReactants, .node rConstraints, .node rTransformationChain]] := by decide +kernel
theorem rk_Input : ruleKinds enhanced rRINGInput = [[.node rFragment], [.node rReactionRule]] := by decide +kernel

theorem readLabelMapping_safe : ∀ (kids : List Ast) (m : List (List Char × List Char)),
    Conf enhanced (.node rLabelMapping kids) → Safe (readLabelMapping kids m) := by
  intro kids
  induction hsz : sizeOf kids using Nat.strongRecOn generalizing kids with
  | _ sz ih =>
    intro m h
    obtain ⟨hk, hc⟩ := conf_kinds h
    rw [rk_LabelMapping] at hk
    kids_shapes hk
    rcases hk with hk | hk
    · obtain ⟨_, _, rfl, ⟨a, rfl⟩, _, _, rfl, ⟨b, rfl⟩, rfl⟩ := hk
      obtain ⟨sa, _, rfl⟩ := conf_oneStr (hc (.node rAtomLabel a) (by simp)) one_AtomLabel
      obtain ⟨sb, _, rfl⟩ := conf_oneStr (hc (.node rAtomLabel b) (by simp)) one_AtomLabel
      rw [readLabelMapping]
      simp only [and_self, if_true]
      exact safe_ok _
    · obtain ⟨_, _, rfl, ⟨a, rfl⟩, _, _, rfl, ⟨b, rfl⟩, _, _, rfl, ⟨c, rfl⟩, rfl⟩ := hk
      obtain ⟨sa, _, rfl⟩ := conf_oneStr (hc (.node rAtomLabel a) (by simp)) one_AtomLabel
      obtain ⟨sb, _, rfl⟩ := conf_oneStr (hc (.node rAtomLabel b) (by simp)) one_AtomLabel
      rw [readLabelMapping]
      simp only [and_self, if_true]
      exact ih (sizeOf c) (by subst hsz; simp; omega) c rfl _ (hc (.node rLabelMapping c) (by simp))

theorem readReactantGroup_safe (kids : List Ast) (h : Conf enhanced (.node rReactantGroup kids)) : Safe (readReactantGroup kids) := by
  obtain ⟨hk, hc⟩ := conf_kinds h
  rw [rk_ReactantGroup] at hk
  kids_shapes hk
  obtain ⟨_, _, rfl, ⟨a, rfl⟩, _, _, rfl, ⟨g, rfl⟩, _, _, rfl, ⟨c, rfl⟩, rfl⟩ := hk
  obtain ⟨sg, _, rfl⟩ := conf_oneStr (hc (.node rGroupName g) (by simp)) one_GroupName
  simp only [readReactantGroup, and_self, if_true]
  exact safe_bind (readLabelMapping_safe c [] (hc (.node rLabelMapping c) (by simp))) (fun _ _ => safe_reader)

theorem readDuplicates_safe (kids : List Ast) (s : Rxn) (h : Conf enhanced (.node rDuplicates kids)) : Safe (readDuplicates kids s) := by
  obtain ⟨hk, hc⟩ := conf_kinds h
  rw [rk_Duplicates] at hk
  kids_shapes hk
  obtain ⟨_, _, rfl, ⟨a, rfl⟩, _, _, rfl, ⟨b, rfl⟩, _, _, rfl, ⟨c, rfl⟩, rfl⟩ := hk
  obtain ⟨sa, _, rfl⟩ := conf_oneStr (hc (.node rReactantName a) (by simp)) one_ReactantName
  obtain ⟨sb, _, rfl⟩ := conf_oneStr (hc (.node rReactantName b) (by simp)) one_ReactantName
  simp only [readDuplicates, and_self, if_true]
  refine safe_bind (readLabelMapping_safe c [] (hc (.node rLabelMapping c) (by simp))) (fun _ _ => ?_)
  rsafe_tac

theorem readReactants_safe : ∀ (kids : List Ast) (s : Rxn), Conf enhanced (.node rReactants kids) → Safe (readReactants kids s) := by
  intro kids
  induction hsz : sizeOf kids using Nat.strongRecOn generalizing kids with
  | _ sz ih =>
    intro s h
    obtain ⟨hk, hc⟩ := conf_kinds h
    rw [rk_Reactants] at hk
    kids_shapes hk
    rcases hk with hk | hk | hk | hk | hk | hk
    · obtain ⟨_, _, rfl, ⟨c, rfl⟩, rfl⟩ := hk
      rw [readReactants]
      simp only [if_true]
      refine safe_bind (safe_bind (readMol_safe_reactant c (hc _ (by simp))) (fun _ _ => safe_ok _)) (fun _ _ => safe_ok _)
    · obtain ⟨_, _, rfl, ⟨c, rfl⟩, _, _, rfl, ⟨d, rfl⟩, rfl⟩ := hk
      rw [readReactants]
      simp only [if_true]
      refine safe_bind (safe_bind (readMol_safe_reactant c (hc (.node rReactantQuery c) (by simp))) (fun _ _ => safe_ok _)) (fun s' _ => ?_)
      exact ih (sizeOf d) (by subst hsz; simp; omega) d rfl s' (hc (.node rReactants d) (by simp))
    · obtain ⟨_, _, rfl, ⟨c, rfl⟩, rfl⟩ := hk
      rw [readReactants]
      simp only [show (rReactantGroup = rReactantQuery) = False from by decide, if_false, if_true]
      refine safe_bind (safe_bind (readReactantGroup_safe c (hc _ (by simp))) (fun _ _ => safe_ok _)) (fun _ _ => safe_ok _)
    · obtain ⟨_, _, rfl, ⟨c, rfl⟩, _, _, rfl, ⟨d, rfl⟩, rfl⟩ := hk
      rw [readReactants]
      simp only [show (rReactantGroup = rReactantQuery) = False from by decide, if_false, if_true]
      refine safe_bind (safe_bind (readReactantGroup_safe c (hc (.node rReactantGroup c) (by simp))) (fun _ _ => safe_ok _)) (fun s' _ => ?_)
      exact ih (sizeOf d) (by subst hsz; simp; omega) d rfl s' (hc (.node rReactants d) (by simp))
    · obtain ⟨_, _, rfl, ⟨c, rfl⟩, rfl⟩ := hk
      rw [readReactants]
      simp only [show (rDuplicates = rReactantQuery) = False from by decide, show (rDuplicates = rReactantGroup) = False from by decide,
        if_false, if_true]
      refine safe_bind (readDuplicates_safe c s (hc _ (by simp))) (fun _ _ => safe_ok _)
    · obtain ⟨_, _, rfl, ⟨c, rfl⟩, _, _, rfl, ⟨d, rfl⟩, rfl⟩ := hk
      rw [readReactants]
      simp only [show (rDuplicates = rReactantQuery) = False from by decide, show (rDuplicates = rReactantGroup) = False from by decide,
        if_false, if_true]
      refine safe_bind (readDuplicates_safe c s (hc (.node rDuplicates c) (by simp))) (fun s' _ => ?_)
      exact ih (sizeOf d) (by subst hsz; simp; omega) d rfl s' (hc (.node rReactants d) (by simp))

theorem readBondForm_safe (kids : List Ast) (s : Rxn) (h : Conf enhanced (.node rBondForm kids)) : Safe (readBondForm kids s) := by
  obtain ⟨hk, hc⟩ := conf_kinds h
  rw [rk_BondForm] at hk
  kids_shapes hk
  rcases hk with hk | hk
  · obtain ⟨_, _, rfl, ⟨a, rfl⟩, _, _, rfl, ⟨b, rfl⟩, rfl⟩ := hk
    obtain ⟨sa, _, rfl⟩ := conf_oneStr (hc (.node rAtomLabel a) (by simp)) one_AtomLabel
    obtain ⟨sb, _, rfl⟩ := conf_oneStr (hc (.node rAtomLabel b) (by simp)) one_AtomLabel
    simp only [readBondForm, show (rAtomLabel = rBondType) = False from by decide, if_false, labelOf_str, bind_pure_eq]
    rsafe_tac
  · obtain ⟨_, _, rfl, ⟨t, rfl⟩, _, _, rfl, ⟨a, rfl⟩, _, _, rfl, ⟨b, rfl⟩, rfl⟩ := hk
    obtain ⟨sa, _, rfl⟩ := conf_oneStr (hc (.node rAtomLabel a) (by simp)) one_AtomLabel
    obtain ⟨sb, _, rfl⟩ := conf_oneStr (hc (.node rAtomLabel b) (by simp)) one_AtomLabel
    obtain ⟨st, _, rfl⟩ := conf_oneStr (hc (.node rBondType t) (by simp)) one_BondType
    have hsafe := safe_rxnBondType (.str st)
    simp only [readBondForm, if_true]
    cases hb : rxnBondType (.str st) with
    | error e =>
      rw [hb] at hsafe
      simp only [bind, Except.bind]
      intro h'; cases h'; exact hsafe rfl
    | ok v =>
      simp only [bind, Except.bind, pure, Except.pure, labelOf_str]
      rsafe_tac

theorem readBondBreak_safe (kids : List Ast) (s : Rxn) (h : Conf enhanced (.node rBondBreak kids)) : Safe (readBondBreak kids s) := by
  obtain ⟨hk, hc⟩ := conf_kinds h
  rw [rk_BondBreak] at hk
  kids_shapes hk
  rcases hk with hk | hk
  · obtain ⟨_, _, rfl, ⟨a, rfl⟩, _, _, rfl, ⟨b, rfl⟩, rfl⟩ := hk
    obtain ⟨sa, _, rfl⟩ := conf_oneStr (hc (.node rAtomLabel a) (by simp)) one_AtomLabel
    obtain ⟨sb, _, rfl⟩ := conf_oneStr (hc (.node rAtomLabel b) (by simp)) one_AtomLabel
    simp only [readBondBreak, show (rAtomLabel = rBondType) = False from by decide, if_false, labelOf_str, bind_pure_eq]
    rsafe_tac
  · obtain ⟨_, _, rfl, ⟨t, rfl⟩, _, _, rfl, ⟨a, rfl⟩, _, _, rfl, ⟨b, rfl⟩, rfl⟩ := hk
    obtain ⟨sa, _, rfl⟩ := conf_oneStr (hc (.node rAtomLabel a) (by simp)) one_AtomLabel
    obtain ⟨sb, _, rfl⟩ := conf_oneStr (hc (.node rAtomLabel b) (by simp)) one_AtomLabel
    obtain ⟨st, _, rfl⟩ := conf_oneStr (hc (.node rBondType t) (by simp)) one_BondType
    have hsafe := safe_rxnBondType (.str st)
    simp only [readBondBreak, if_true]
    cases hb : rxnBondType (.str st) with
    | error e =>
      rw [hb] at hsafe
      simp only [bind, Except.bind]
      intro h'; cases h'; exact hsafe rfl
    | ok v =>
      simp only [bind, Except.bind, pure, Except.pure, labelOf_str]
      rsafe_tac

theorem readBondModify_safe (kids : List Ast) (s : Rxn) (h : Conf enhanced (.node rBondModify kids)) : Safe (readBondModify kids s) := by
  obtain ⟨hk, hc⟩ := conf_kinds h
  rw [rk_BondModify] at hk
  kids_shapes hk
  obtain ⟨_, _, rfl, ⟨a, rfl⟩, _, _, rfl, ⟨b, rfl⟩, _, _, rfl, ⟨t, rfl⟩, rfl⟩ := hk
  obtain ⟨sa, _, rfl⟩ := conf_oneStr (hc (.node rAtomLabel a) (by simp)) one_AtomLabel
  obtain ⟨sb, _, rfl⟩ := conf_oneStr (hc (.node rAtomLabel b) (by simp)) one_AtomLabel
  obtain ⟨st, _, rfl⟩ := conf_oneStr (hc (.node rBondType t) (by simp)) one_BondType
  simp only [readBondModify, labelOf_str, child1_one, bind_pure_eq]
  rsafe_tac

theorem readBondOrder_safe (n : Nat) (d : Int) (kids : List Ast) (s : Rxn) (h : Conf enhanced (.node n kids))
    (hr : ruleKinds enhanced n = [[.node rAtomLabel, .node rAtomLabel]]) : Safe (readBondOrder d kids s) := by
  obtain ⟨hk, hc⟩ := conf_kinds h
  rw [hr] at hk
  kids_shapes hk
  obtain ⟨_, _, rfl, ⟨a, rfl⟩, _, _, rfl, ⟨b, rfl⟩, rfl⟩ := hk
  obtain ⟨sa, _, rfl⟩ := conf_oneStr (hc (.node rAtomLabel a) (by simp)) one_AtomLabel
  obtain ⟨sb, _, rfl⟩ := conf_oneStr (hc (.node rAtomLabel b) (by simp)) one_AtomLabel
  simp only [readBondOrder, labelOf_str, bind_pure_eq]
  rsafe_tac

theorem readAtomStep_safe (n : Nat) (d : Int) (kids : List Ast) (s : Rxn) (h : Conf enhanced (.node n kids))
    (hr : ruleKinds enhanced n = [[.node rAtomLabel]]) : Safe (readAtomStep d kids s) := by
  obtain ⟨hk, hc⟩ := conf_kinds h
  rw [hr] at hk
  kids_shapes hk
  obtain ⟨_, _, rfl, ⟨a, rfl⟩, rfl⟩ := hk
  obtain ⟨sa, _, rfl⟩ := conf_oneStr (hc (.node rAtomLabel a) (by simp)) one_AtomLabel
  simp only [readAtomStep, labelOf_str, bind_pure_eq]
  rsafe_tac

theorem readRadicalModify_safe (kids : List Ast) (s : Rxn) (h : Conf enhanced (.node rRadicalModify kids)) :
    Safe (readRadicalModify kids s) := by
  obtain ⟨hk, hc⟩ := conf_kinds h
  rw [rk_RadicalModify] at hk
  kids_shapes hk
  obtain ⟨_, _, rfl, ⟨a, rfl⟩, _, _, rfl, ⟨v, rfl⟩, rfl⟩ := hk
  obtain ⟨sa, _, rfl⟩ := conf_oneStr (hc (.node rAtomLabel a) (by simp)) one_AtomLabel
  simp only [readRadicalModify, labelOf_str, bind_pure_eq]
  rsafe_tac

theorem readAtomTypeModify_safe (kids : List Ast) (s : Rxn) (h : Conf enhanced (.node rAtomTypeModify kids)) :
    Safe (readAtomTypeModify kids s) := by
  obtain ⟨hk, hc⟩ := conf_kinds h
  rw [rk_AtomTypeModify] at hk
  kids_shapes hk
  obtain ⟨_, _, rfl, ⟨a, rfl⟩, _, _, rfl, ⟨t, rfl⟩, rfl⟩ := hk
  obtain ⟨sa, _, rfl⟩ := conf_oneStr (hc (.node rAtomLabel a) (by simp)) one_AtomLabel
  obtain ⟨hkt, hct⟩ := conf_kinds (hc (.node rAtomType t) (by simp))
  rw [rk_AtomType] at hkt
  simp only [readAtomTypeModify, labelOf_str, bind_pure_eq]
  refine safe_bind (safe_locate _ _) (fun _ _ => ?_)
  simp only [ne_eq, not_true_eq_false, if_false, bind_pure_eq]
  kids_shapes hkt
  rcases hkt with hkt | hkt | hkt | hkt
  · obtain ⟨_, _, rfl, ⟨c, rfl⟩, rfl⟩ := hkt
    obtain ⟨x, hx, rfl⟩ := conf_oneStr (hct (.node rSymbols c) (by simp)) one_Symbols
    cases x with
    | nil => exact absurd rfl hx
    | cons _ _ => simp only [show (rSymbols = rAtomPrefix) = False from by decide, if_false, if_true]; rsafe_tac
  · obtain ⟨_, _, rfl, ⟨c, rfl⟩, _, _, rfl, ⟨d, rfl⟩, rfl⟩ := hkt
    obtain ⟨x, hx, rfl⟩ := conf_oneStr (hct (.node rSymbols c) (by simp)) one_Symbols
    cases x with
    | nil => exact absurd rfl hx
    | cons _ _ => simp only [show (rSymbols = rAtomPrefix) = False from by decide, if_false, if_true]; rsafe_tac
  · obtain ⟨_, _, rfl, ⟨c, rfl⟩, _, _, rfl, ⟨d, rfl⟩, rfl⟩ := hkt
    simp only [if_true]; rsafe_tac
  · obtain ⟨_, _, rfl, ⟨c, rfl⟩, _, _, rfl, ⟨d, rfl⟩, _, _, rfl, ⟨e, rfl⟩, rfl⟩ := hkt
    simp only [if_true]; rsafe_tac

theorem readChange_safe (kids : List Ast) (s : Rxn) (h : Conf enhanced (.node rConnectivityChange kids)) : Safe (readChange kids s) := by
  obtain ⟨hk, hc⟩ := conf_kinds h
  rw [rk_Change] at hk
  kids_shapes hk
  rcases hk with hk | hk | hk | hk | hk | hk | hk | hk | hk | hk | hk <;> obtain ⟨_, _, rfl, ⟨c, rfl⟩, rfl⟩ := hk
  · simp only [readChange, if_true]; exact readBondForm_safe c s (hc _ (by simp))
  · simp only [readChange, show (rBondBreak = rBondForm) = False from by decide, if_false, if_true]
    exact readBondBreak_safe c s (hc _ (by simp))
  · simp only [readChange, show (rBondModify = rBondForm) = False from by decide, show (rBondModify = rBondBreak) = False from by decide,
      if_false, if_true]
    exact readBondModify_safe c s (hc _ (by simp))
  · simp only [readChange, show (rBondDecrease = rBondForm) = False from by decide, show (rBondDecrease = rBondBreak) = False from by decide,
      show (rBondDecrease = rBondModify) = False from by decide, show (rBondDecrease = rBondIncrease) = False from by decide, if_false, if_true]
    exact readBondOrder_safe _ _ c s (hc _ (by simp)) rk_BondDecrease
  · simp only [readChange, show (rBondIncrease = rBondForm) = False from by decide, show (rBondIncrease = rBondBreak) = False from by decide,
      show (rBondIncrease = rBondModify) = False from by decide, if_false, if_true]
    exact readBondOrder_safe _ _ c s (hc _ (by simp)) rk_BondIncrease
  · simp only [readChange, show (rAtomTypeModify = rBondForm) = False from by decide, show (rAtomTypeModify = rBondBreak) = False from by decide,
      show (rAtomTypeModify = rBondModify) = False from by decide, show (rAtomTypeModify = rBondIncrease) = False from by decide,
      show (rAtomTypeModify = rBondDecrease) = False from by decide, if_false, if_true]
    exact readAtomTypeModify_safe c s (hc _ (by simp))
  · simp only [readChange, show (rRadicalModify = rBondForm) = False from by decide, show (rRadicalModify = rBondBreak) = False from by decide,
      show (rRadicalModify = rBondModify) = False from by decide, show (rRadicalModify = rBondIncrease) = False from by decide,
      show (rRadicalModify = rBondDecrease) = False from by decide, show (rRadicalModify = rAtomTypeModify) = False from by decide,
      if_false, if_true]
    exact readRadicalModify_safe c s (hc _ (by simp))
  · simp only [readChange, show (rRadicalIncrease = rBondForm) = False from by decide, show (rRadicalIncrease = rBondBreak) = False from by decide,
      show (rRadicalIncrease = rBondModify) = False from by decide, show (rRadicalIncrease = rBondIncrease) = False from by decide,
      show (rRadicalIncrease = rBondDecrease) = False from by decide, show (rRadicalIncrease = rAtomTypeModify) = False from by decide,
      show (rRadicalIncrease = rRadicalModify) = False from by decide, if_false, if_true]
    exact readAtomStep_safe _ _ c s (hc _ (by simp)) rk_RadicalIncrease
  · simp only [readChange, show (rRadicalDecrease = rBondForm) = False from by decide, show (rRadicalDecrease = rBondBreak) = False from by decide,
      show (rRadicalDecrease = rBondModify) = False from by decide, show (rRadicalDecrease = rBondIncrease) = False from by decide,
      show (rRadicalDecrease = rBondDecrease) = False from by decide, show (rRadicalDecrease = rAtomTypeModify) = False from by decide,
      show (rRadicalDecrease = rRadicalModify) = False from by decide, show (rRadicalDecrease = rRadicalIncrease) = False from by decide,
      if_false, if_true]
    exact readAtomStep_safe _ _ c s (hc _ (by simp)) rk_RadicalDecrease
  · simp only [readChange, show (rChargeIncrease = rBondForm) = False from by decide, show (rChargeIncrease = rBondBreak) = False from by decide,
      show (rChargeIncrease = rBondModify) = False from by decide, show (rChargeIncrease = rBondIncrease) = False from by decide,
      show (rChargeIncrease = rBondDecrease) = False from by decide, show (rChargeIncrease = rAtomTypeModify) = False from by decide,
      show (rChargeIncrease = rRadicalModify) = False from by decide, show (rChargeIncrease = rRadicalIncrease) = False from by decide,
      show (rChargeIncrease = rRadicalDecrease) = False from by decide, if_false, if_true]
    exact readAtomStep_safe _ _ c s (hc _ (by simp)) rk_ChargeIncrease
  · simp only [readChange, show (rChargeDecrease = rBondForm) = False from by decide, show (rChargeDecrease = rBondBreak) = False from by decide,
      show (rChargeDecrease = rBondModify) = False from by decide, show (rChargeDecrease = rBondIncrease) = False from by decide,
      show (rChargeDecrease = rBondDecrease) = False from by decide, show (rChargeDecrease = rAtomTypeModify) = False from by decide,
      show (rChargeDecrease = rRadicalModify) = False from by decide, show (rChargeDecrease = rRadicalIncrease) = False from by decide,
      show (rChargeDecrease = rRadicalDecrease) = False from by decide, show (rChargeDecrease = rChargeIncrease) = False from by decide,
      if_false, if_true]
    exact readAtomStep_safe _ _ c s (hc _ (by simp)) rk_ChargeDecrease

theorem readTransChain_safe : ∀ (kids : List Ast) (s : Rxn), Conf enhanced (.node rTransformationChain kids) →
    Safe (readTransChain kids s) := by
  intro kids
  induction hsz : sizeOf kids using Nat.strongRecOn generalizing kids with
  | _ sz ih =>
    intro s h
    obtain ⟨hk, hc⟩ := conf_kinds h
    rw [rk_TransChain] at hk
    kids_shapes hk
    rcases hk with hk | hk
    · obtain ⟨_, _, rfl, ⟨c, rfl⟩, rfl⟩ := hk
      rw [readTransChain]
      simp only [if_true]
      exact safe_bind (readChange_safe c s (hc _ (by simp))) (fun _ _ => safe_ok _)
    · obtain ⟨_, _, rfl, ⟨c, rfl⟩, _, _, rfl, ⟨d, rfl⟩, rfl⟩ := hk
      rw [readTransChain]
      simp only [if_true]
      refine safe_bind (readChange_safe c s (hc (.node rConnectivityChange c) (by simp))) (fun s' _ => ?_)
      exact ih (sizeOf d) (by subst hsz; simp; omega) d rfl s' (hc (.node rTransformationChain d) (by simp))

theorem readRule_safe (kids : List Ast) (h : Conf enhanced (.node rReactionRule kids)) : Safe (readRule kids) := by
  obtain ⟨hk, hc⟩ := conf_kinds h
  rw [rk_Rule] at hk
  kids_shapes hk
  rcases hk with hk | hk
  · obtain ⟨_, _, rfl, ⟨a, rfl⟩, _, _, rfl, ⟨r, rfl⟩, _, _, rfl, ⟨t, rfl⟩, rfl⟩ := hk
    obtain ⟨sa, _, rfl⟩ := conf_oneStr (hc (.node rReactionName a) (by simp)) one_ReactionName
    simp only [readRule, and_self, if_true]
    refine safe_bind (readReactants_safe r _ (hc (.node rReactants r) (by simp))) (fun s' _ => ?_)
    simp only [show (rTransformationChain = rConstraints) = False from by decide, if_false, if_true]
    refine safe_bind (readTransChain_safe t s' (hc (.node rTransformationChain t) (by simp))) (fun _ _ => ?_)
    rsafe_tac
  · obtain ⟨_, _, rfl, ⟨a, rfl⟩, _, _, rfl, ⟨r, rfl⟩, _, _, rfl, ⟨c, rfl⟩, _, _, rfl, ⟨t, rfl⟩, rfl⟩ := hk
    obtain ⟨sa, _, rfl⟩ := conf_oneStr (hc (.node rReactionName a) (by simp)) one_ReactionName
    simp only [readRule, and_self, if_true]
    refine safe_bind (readReactants_safe r _ (hc (.node rReactants r) (by simp))) (fun s' _ => ?_)
    exact safe_notImpl

/-- **no unexpected shape**: a tree that conforms to `enhanced_grammar` and is a `RINGInput` node is read
to a query, a RINGReaderError or a NotImplementedError -/
theorem readAst_safe (t : Ast) (hc : Conf enhanced t) (hk : kindOf t = .node rRINGInput) : readAst t ≠ .error .shape := by
  obtain ⟨kids, rfl⟩ := kindOf_node.mp hk
  obtain ⟨hk', hc'⟩ := conf_kinds hc
  rw [rk_Input] at hk'
  kids_shapes hk'
  rcases hk' with hk' | hk'
  · obtain ⟨_, _, rfl, ⟨c, rfl⟩, rfl⟩ := hk'
    simp only [readAst, ne_eq, not_true_eq_false, if_false, if_true]
    exact safe_bind (readMol_safe_frag c (hc' _ (by simp))) (fun _ _ => safe_ok _)
  · obtain ⟨_, _, rfl, ⟨c, rfl⟩, rfl⟩ := hk'
    simp only [readAst, ne_eq, not_true_eq_false, if_false, show (rReactionRule = rFragment) = False from by decide, if_true]
    exact safe_bind (readRule_safe c (hc' _ (by simp))) (fun _ _ => safe_ok _)

end PGA.Ring
