import PGA.Spec.Relabel
import PGA.Proofs.Scheme
import PGA.Proofs.SchemeSets
import PGA.Proofs.GroupName
import Mathlib.Algebra.BigOperators.Group.Finset.Basic
/-! Invariance of the decomposition model under renumbering of the atoms (C03). -/
namespace PGA.Scheme
open PGA

variable {inp inp' : Input} {π : Nat → Nat}

theorem cnt_relabel_aux (ps ps' : List CentrePat)
    (h : List.Forall₂ (fun p p' => p'.center = p.center ∧ p'.periph = p.periph ∧
      ∀ i, π i ∈ firstAtoms p'.ms ↔ i ∈ firstAtoms p.ms) ps ps') (i : Nat) :
    cnt ps' (π i) = cnt ps i ∧ firstMatch ps' (π i) = firstMatch ps i := by
  induction h with
  | nil => simp [cnt, firstMatch]
  | @cons p p' ps ps' hp _ ih =>
    obtain ⟨hc, hpe, hm⟩ := hp
    constructor
    · rw [cnt_cons, cnt_cons, ih.1]
      by_cases h : i ∈ firstAtoms p.ms
      · simp [h, (hm i).mpr h]
      · have : π i ∉ firstAtoms p'.ms := fun h' => h ((hm i).mp h')
        simp [h, this]
    · by_cases h : i ∈ firstAtoms p.ms
      · have h' := (hm i).mpr h
        simp [firstMatch, h, h', hc, hpe]
      · have h' : π i ∉ firstAtoms p'.ms := fun h' => h ((hm i).mp h')
        have e1 : firstMatch (p :: ps) i = firstMatch ps i := by simp [firstMatch, h]
        have e2 : firstMatch (p' :: ps') (π i) = firstMatch ps' (π i) := by simp [firstMatch, h']
        rw [e1, e2, ih.2]

theorem cnt_relabel (R : Relabel inp inp' π) (i : Nat) : cnt inp'.centres (π i) = cnt inp.centres i :=
  (cnt_relabel_aux _ _ R.centres i).1

theorem firstMatch_relabel (R : Relabel inp inp' π) (i : Nat) :
    firstMatch inp'.centres (π i) = firstMatch inp.centres i :=
  (cnt_relabel_aux _ _ R.centres i).2

/-- centre classification succeeds for the renumbered molecule exactly when it does for the original -/
theorem centres_ok_relabel (R : Relabel inp inp' π) :
    (∃ a', assignCentres inp' = .ok a') ↔ (∃ a, assignCentres inp = .ok a) := by
  rw [assignCentres_ok_iff, assignCentres_ok_iff]
  constructor
  · rintro ⟨h1, h2⟩
    refine ⟨fun i => ?_, fun i hi => ?_⟩
    · rw [← cnt_relabel R i]; exact h1 _
    · rw [← cnt_relabel R i]; exact h2 _ (by rw [R.n_eq]; exact (R.range i).mpr hi)
  · rintro ⟨h1, h2⟩
    refine ⟨fun j => ?_, fun j hj => ?_⟩
    · obtain ⟨i, rfl⟩ := R.surj j; rw [cnt_relabel R i]; exact h1 i
    · obtain ⟨i, rfl⟩ := R.surj j; rw [cnt_relabel R i]
      exact h2 i ((R.range i).mp (by rw [← R.n_eq]; exact hj))

theorem get_relabel (R : Relabel inp inp' π) (a a' : Assign)
    (ha : assignCentres inp = .ok a) (ha' : assignCentres inp' = .ok a') (i : Nat) :
    a'.get? (π i) = a.get? i := by
  rw [assignCentres_get inp' a' ha', assignCentres_get inp a ha, firstMatch_relabel R]

/-- the group an atom contributes does not depend on the numbering -/
theorem groupName_relabel (R : Relabel inp inp' π) (a a' : Assign)
    (ha : assignCentres inp = .ok a) (ha' : assignCentres inp' = .ok a') (i : Nat) :
    groupName a' inp'.nbrs (π i) = groupName a inp.nbrs i := by
  unfold groupName
  rw [get_relabel R a a' ha ha' i]
  cases hg : a.get? i with
  | none => rfl
  | some v =>
    obtain ⟨csg, per⟩ := v
    simp only
    split
    · rfl
    · congr 2
      apply PGA.GroupName.canon_perm
      apply List.Perm.map
      set f' : Nat → Option String := fun j =>
        match a'.get? j with
        | some (_, p) => if p == "none" then none else some p
        | none => none with hf'
      set f : Nat → Option String := fun j =>
        match a.get? j with
        | some (_, p) => if p == "none" then none else some p
        | none => none with hf
      have h1 : ((inp'.nbrs.getD (π i) []).filterMap f').Perm (((inp.nbrs.getD i []).map π).filterMap f') :=
        (R.nbrs i).filterMap f'
      refine h1.trans ?_
      rw [List.filterMap_map]
      have : f' ∘ π = f := by
        funext j
        simp only [Function.comp, hf', hf, get_relabel R a a' ha ha' j]
      rw [this]
      exact List.Perm.refl _


/-- a permutation of the atoms maps `0..n-1` onto a permutation of `0..n-1` -/
theorem range_map_perm (n : Nat) (hinj : Function.Injective π) (hr : ∀ i, π i < n ↔ i < n) :
    ((List.range n).map π).Perm (List.range n) := by
  have hnd : ((List.range n).map π).Nodup := (List.nodup_range).map hinj
  have hsub : ((List.range n).map π) ⊆ List.range n := by
    intro j hj
    obtain ⟨i, hi, rfl⟩ := List.mem_map.mp hj
    exact List.mem_range.mpr ((hr i).mpr (List.mem_range.mp hi))
  have hsp : ((List.range n).map π).Subperm (List.range n) := List.subperm_of_subset hnd hsub
  exact hsp.perm_of_length_le (by simp)

/-- the number of atoms contributing a given group name is the same in both numberings -/
theorem groupCount_relabel (R : Relabel inp inp' π) (a a' : Assign)
    (ha : assignCentres inp = .ok a) (ha' : assignCentres inp' = .ok a') (g : String) :
    ((List.range inp'.n).filter fun j => decide (groupName a' inp'.nbrs j = some g)).length
      = ((List.range inp.n).filter fun i => decide (groupName a inp.nbrs i = some g)).length := by
  rw [R.n_eq]
  have hp := range_map_perm inp.n R.inj R.range
  rw [← (hp.filter _).length_eq, List.filter_map, List.length_map]
  congr 1
  apply List.filter_congr
  intro i _
  simp only [Function.comp, groupName_relabel R a a' ha ha' i]

/-- the number of distinct matched atom sets of a correction descriptor does not depend on the numbering -/
theorem distinctSets_relabel (hinj : Function.Injective π) (ms ms' : List Match)
    (h : (ms'.map List.toFinset).toFinset = ((ms.map List.toFinset).toFinset).image (Finset.image π)) :
    distinctSets ms' = distinctSets ms := by
  rw [distinctSets_card, distinctSets_card, h]
  exact Finset.card_image_of_injective _ (Finset.image_injective hinj)

theorem countDescs_relabel_aux (hinj : Function.Injective π) (ds ds' : List DescPat)
    (h : List.Forall₂ (fun d d' => d'.name = d.name ∧
      (d'.ms.map List.toFinset).toFinset = ((d.ms.map List.toFinset).toFinset).image (Finset.image π)) ds ds')
    (c : Counts) : countDescs ds' c = countDescs ds c := by
  induction h generalizing c with
  | nil => rfl
  | @cons d d' ds ds' hd _ ih =>
    obtain ⟨hn, hm⟩ := hd
    unfold countDescs
    simp only [distinctSets_relabel hinj d.ms d'.ms hm, hn, ih]

theorem targetSum_zero (ts : List (Rat × String)) (t : String) : targetSum 0 ts t = 0 := by
  induction ts with
  | nil => simp [targetSum]
  | cons p ts ih =>
    simp only [targetSum, List.map_cons, List.sum_cons] at ih ⊢
    rw [ih]; by_cases e : p.2 = t <;> simp [e]

theorem contrib_zero (rm : List (String × List (Rat × String))) (k t : String) : contrib rm k 0 t = 0 := by
  unfold contrib
  cases lookupRemap rm k with
  | none => by_cases e : k = t <;> simp [e]
  | some ts => exact targetSum_zero ts t

/-- **the remap pass depends on the dictionary only through its counts** (not on insertion order) -/
theorem remapAll_get_congr (rm : List (String × List (Rat × String))) (hcf : ChainFree rm)
    (c c' : Counts) (hc : (Counts.keys c).Nodup) (hc' : (Counts.keys c').Nodup)
    (hget : ∀ k, c.get k = c'.get k) (t : String) :
    (remapAll rm c).get t = (remapAll rm c').get t := by
  have key : ∀ (d : Counts), (Counts.keys d).Nodup → ∀ K : Finset String, (Counts.keys d).toFinset ⊆ K →
      (remapAll rm d).get t = ∑ k ∈ K, contrib rm k (d.get k) t := by
    intro d hd K hK
    rw [remapAll_get rm hcf d hd, sum_entries_eq_sum_keys d hd (fun k v => contrib rm k v t)]
    rw [← List.sum_toFinset _ hd]
    apply Finset.sum_subset hK
    intro k _ hk
    have : k ∉ Counts.keys d := fun h => hk (List.mem_toFinset.mpr h)
    rw [Counts.get_of_not_mem d k this, contrib_zero]
  rw [key c hc ((Counts.keys c).toFinset ∪ (Counts.keys c').toFinset) Finset.subset_union_left,
      key c' hc' ((Counts.keys c).toFinset ∪ (Counts.keys c').toFinset) Finset.subset_union_right]
  apply Finset.sum_congr rfl
  intro k _
  rw [hget k]

end PGA.Scheme
