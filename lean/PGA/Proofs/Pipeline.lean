import PGA.Proofs.Estimate
import PGA.Props.C01
import PGA.Props.C19
import PGA.Proofs.EstimateUQ
import PGA.Proofs.DiagDominant
import PGA.Proofs.SchemeUnion
import PGA.Spec.Pipeline
import Mathlib.Algebra.BigOperators.Group.Finset.Basic
/-! Helper lemmas for the pipeline theorems (`Props/Pipeline.lean`): what an estimate sees of a dictionary of counts. -/
namespace PGA.Estimate

/-! ### the outcome of `Estimate`, stage by stage: `estimate` goes the way `outcomeKind` says -/

section
variable {N S : Type} [DecidableEq N] [DecidableEq S]

theorem placeX_kind (basis : List N) (gs : List (N × Rat)) (x : List Rat) :
    (∃ y, placeX basis gs x = .ok y) ∧ gs.all (fun g => decide (g.1 ∈ basis)) = true ∨
    (∃ g, placeX basis gs x = .error (.notInBasis g)) ∧ gs.all (fun g => decide (g.1 ∈ basis)) = false := by
  cases h : placeX basis gs x with
  | ok y =>
    left
    refine ⟨⟨y, rfl⟩, ?_⟩
    have := (placeX_ok_iff basis gs x).mp ⟨y, h⟩
    simpa [List.all_eq_true] using this
  | error e =>
    right
    obtain ⟨g, rfl⟩ := placeX_error basis gs x e h
    refine ⟨⟨g, rfl⟩, ?_⟩
    by_contra hc
    have hall : ∀ g ∈ gs, g.1 ∈ basis := by simpa [List.all_eq_true] using hc
    obtain ⟨y, hy⟩ := (placeX_ok_iff basis gs x).mpr hall
    rw [hy] at h; cases h

omit [DecidableEq S] in
theorem uqPart_kind (lib : Library N S) (gs : List (N × Rat)) :
    (∃ q, uqPart lib gs = .ok q ∧ uqKind lib gs = none) ∨
    (∃ e, uqPart lib gs = .error e ∧ uqKind lib gs = some (estKind e)) := by
  unfold uqPart uqKind
  cases hu : lib.uq with
  | none => left; exact ⟨none, rfl, rfl⟩
  | some u =>
    simp only
    unfold buildUQ
    rcases placeX_kind u.basis gs (zeros u.basis.length) with ⟨⟨y, hy⟩, hall⟩ | ⟨⟨g, hg⟩, hall⟩
    · simp only [hy, hall, if_true]
      by_cases hs : shapeOK u.basis.length u.mat = true
      · left; simp [hs]
      · right; simp [hs, estKind]
    · right
      simp only [hg, hall]
      exact ⟨_, rfl, by simp [estKind]⟩

/-- **`Estimate` goes the way `outcomeKind` says.** -/
theorem estimate_kind (reg : List S) (lib : Library N S) (gs : List (N × Rat)) (s : S) :
    kindOf (estimate reg lib gs s) = outcomeKind reg lib gs s := by
  unfold estimate outcomeKind
  rw [missingGroups_eq_spec]
  by_cases hr : reg.contains s = true
  · simp only [hr, if_true]
    cases hm : specMissing lib s gs with
    | cons m ms => simp [kindOf, estKind]
    | nil =>
      simp only [List.isEmpty_nil, if_true]
      obtain ⟨cs, hcs⟩ := collect_of_noMissing lib s gs hm
      have hterms : cs = termsOf lib s gs := terms_eq_map lib s gs cs (collect_ok lib s gs cs hcs)
      unfold construct
      simp only [hcs]
      rcases uqPart_kind lib gs with ⟨q, hq, hk⟩ | ⟨e, he, hk⟩
      · simp only [hq, hk]
        unfold finish rangeKind
        rw [← hterms]
        cases hc : commonRange cs with
        | none => simp [kindOf]
        | some r =>
          obtain ⟨lo, hi⟩ := r
          by_cases hle : lo ≤ hi <;> simp [hle, kindOf, estKind]
      · simp only [he, hk, kindOf]
  · rw [Bool.not_eq_true] at hr
    simp only [hr, Bool.false_eq_true, if_false, kindOf, estKind]

/-! #### `outcomeKind` does not see the order of the mapping -/

theorem specMissing_isEmpty_perm (lib : Library N S) (s : S) {gs gs' : List (N × Rat)} (h : gs.Perm gs') :
    (specMissing lib s gs).isEmpty = (specMissing lib s gs').isEmpty := by
  have hp : (specMissing lib s gs).Perm (specMissing lib s gs') := by
    unfold specMissing
    exact (h.map _).filter _
  rw [Bool.eq_iff_iff, List.isEmpty_iff, List.isEmpty_iff]
  constructor
  · intro e; rw [e] at hp; exact List.perm_nil.mp hp.symm |> fun x => x
  · intro e; rw [e] at hp; exact List.perm_nil.mp hp

omit [DecidableEq S] in
theorem uqKind_perm (lib : Library N S) {gs gs' : List (N × Rat)} (h : gs.Perm gs') : uqKind lib gs = uqKind lib gs' := by
  unfold uqKind
  cases lib.uq with
  | none => rfl
  | some u =>
    have : gs.all (fun g => decide (g.1 ∈ u.basis)) = gs'.all (fun g => decide (g.1 ∈ u.basis)) := by
      rw [Bool.eq_iff_iff, List.all_eq_true, List.all_eq_true]
      exact ⟨fun a g hg => a g (h.mem_iff.mpr hg), fun a g hg => a g (h.mem_iff.mp hg)⟩
    simp only [this]

theorem rangeKind_perm {cs cs' : List (Corr × Rat)} (h : cs.Perm cs') : rangeKind cs = rangeKind cs' := by
  unfold rangeKind; rw [commonRange_perm h]

theorem outcomeKind_perm (reg : List S) (lib : Library N S) {gs gs' : List (N × Rat)} (s : S) (h : gs.Perm gs') :
    outcomeKind reg lib gs s = outcomeKind reg lib gs' s := by
  unfold outcomeKind
  rw [specMissing_isEmpty_perm lib s h, uqKind_perm lib h, rangeKind_perm (show (termsOf lib s gs).Perm (termsOf lib s gs') from h.map _)]

/-- **order of the mapping, every outcome**: `Estimate` on a reordered mapping succeeds or fails at the same stage, and a
missing-data error names the same descriptors (in the new order) -/
theorem estimate_perm_kind (reg : List S) (lib : Library N S) {gs gs' : List (N × Rat)} (s : S) (h : gs.Perm gs') :
    kindOf (estimate reg lib gs' s) = kindOf (estimate reg lib gs s) ∧
    ∀ ds, estimate reg lib gs s = .error (.missing ds) →
      ∃ ds', estimate reg lib gs' s = .error (.missing ds') ∧ ds'.Perm ds := by
  refine ⟨by rw [estimate_kind, estimate_kind, outcomeKind_perm reg lib s h], ?_⟩
  intro ds hds
  obtain ⟨hr, rfl, hne⟩ := (C01_missing_iff reg lib gs s ds).mp hds
  have hp : (specMissing lib s gs').Perm (specMissing lib s gs) := by
    unfold specMissing
    exact (h.symm.map _).filter _
  refine ⟨specMissing lib s gs', (C01_missing_iff reg lib gs' s _).mpr ⟨hr, rfl, ?_⟩, hp⟩
  intro e
  rw [e] at hp
  exact hne (List.perm_nil.mp hp.symm |> fun x => x)

end

/-! ### the common range depends on the *set* of the constituents' ranges only -/

theorem interRange_none_left (r : Option (Rat × Rat)) : interRange none r = r := by
  rcases r with _ | ⟨a, b⟩ <;> rfl

theorem interRange_none_right (a : Option (Rat × Rat)) : interRange a none = a := by
  rcases a with _ | ⟨a, b⟩ <;> rfl

theorem interRange_comm (a b : Option (Rat × Rat)) : interRange a b = interRange b a := by
  rcases a with _ | ⟨a1, a2⟩ <;> rcases b with _ | ⟨b1, b2⟩ <;>
    simp only [interRange, pyMax_eq_max, pyMin_eq_min, Option.some.injEq, Prod.mk.injEq]
  exact ⟨max_comm _ _, min_comm _ _⟩

theorem interRange_assoc (a b c : Option (Rat × Rat)) :
    interRange (interRange a b) c = interRange a (interRange b c) := by
  rcases a with _ | ⟨a1, a2⟩ <;> rcases b with _ | ⟨b1, b2⟩ <;> rcases c with _ | ⟨c1, c2⟩ <;>
    simp only [interRange, pyMax_eq_max, pyMin_eq_min, Option.some.injEq, Prod.mk.injEq]
  exact ⟨max_assoc _ _ _, min_assoc _ _ _⟩

theorem interRange_idem (a : Option (Rat × Rat)) : interRange a a = a := by
  rcases a with _ | ⟨a1, a2⟩ <;> simp [interRange, pyMax_eq_max, pyMin_eq_min]

/-- the fold of `__init__`'s range loop over a list of ranges -/
def foldR (rs : List (Option (Rat × Rat))) (acc : Option (Rat × Rat)) : Option (Rat × Rat) := rs.foldl interRange acc

theorem commonRange_eq_foldR (cs : List (Corr × Rat)) : commonRange cs = foldR (cs.map (·.1.range)) none := by
  unfold commonRange foldR
  rw [List.foldl_map]

theorem foldR_acc (rs : List (Option (Rat × Rat))) (acc : Option (Rat × Rat)) :
    foldR rs acc = interRange acc (foldR rs none) := by
  induction rs generalizing acc with
  | nil => simp [foldR, interRange_none_right]
  | cons r rs ih =>
    have h1 : foldR (r :: rs) acc = foldR rs (interRange acc r) := rfl
    have h2 : foldR (r :: rs) none = foldR rs (interRange none r) := rfl
    rw [h1, h2, ih (interRange acc r), ih (interRange none r), interRange_none_left, interRange_assoc]

theorem foldR_append (rs rs' : List (Option (Rat × Rat))) :
    foldR (rs ++ rs') none = interRange (foldR rs none) (foldR rs' none) := by
  have : foldR (rs ++ rs') none = foldR rs' (foldR rs none) := by unfold foldR; rw [List.foldl_append]
  rw [this, foldR_acc]

theorem foldR_absorb (rs : List (Option (Rat × Rat))) (r : Option (Rat × Rat)) (h : r ∈ rs) :
    interRange (foldR rs none) r = foldR rs none := by
  induction rs with
  | nil => cases h
  | cons r0 rs ih =>
    have h2 : foldR (r0 :: rs) none = interRange r0 (foldR rs none) := by
      have : foldR (r0 :: rs) none = foldR rs (interRange none r0) := rfl
      rw [this, foldR_acc, interRange_none_left]
    rw [h2]
    rcases List.mem_cons.mp h with rfl | h
    · rw [interRange_comm r (foldR rs none), interRange_assoc, interRange_idem]
    · rw [interRange_assoc, ih h]

theorem foldR_subset (rs rs' : List (Option (Rat × Rat))) (h : ∀ r ∈ rs', r ∈ rs) :
    interRange (foldR rs none) (foldR rs' none) = foldR rs none := by
  induction rs' with
  | nil => simp [foldR, interRange_none_right]
  | cons r0 rs' ih =>
    have h2 : foldR (r0 :: rs') none = interRange r0 (foldR rs' none) := by
      have : foldR (r0 :: rs') none = foldR rs' (interRange none r0) := rfl
      rw [this, foldR_acc, interRange_none_left]
    rw [h2, ← interRange_assoc, foldR_absorb rs r0 (h r0 List.mem_cons_self)]
    exact ih fun r hr => h r (List.mem_cons_of_mem _ hr)

theorem foldR_congr (rs rs' : List (Option (Rat × Rat))) (h : ∀ r, r ∈ rs ↔ r ∈ rs') : foldR rs none = foldR rs' none := by
  rw [← foldR_subset rs rs' (fun r hr => (h r).mpr hr), interRange_comm, foldR_subset rs' rs (fun r hr => (h r).mp hr)]

/-- the common range of a set of terms that is the union of two sets is the intersection of their common ranges -/
theorem commonRange_union (csU csA csB : List (Corr × Rat))
    (h : ∀ r, r ∈ csU.map (·.1.range) ↔ r ∈ csA.map (·.1.range) ∨ r ∈ csB.map (·.1.range)) :
    commonRange csU = interRange (commonRange csA) (commonRange csB) := by
  rw [commonRange_eq_foldR, commonRange_eq_foldR, commonRange_eq_foldR, ← foldR_append]
  exact foldR_congr _ _ fun r => by rw [h r, List.mem_append]

end PGA.Estimate

namespace PGA.Pipeline
open PGA PGA.Scheme PGA.Estimate

/-! ### a dictionary with distinct keys is determined, up to order, by its key set and its `get` -/

theorem counts_mem_iff (c : Counts) (h : (Counts.keys c).Nodup) (p : String × Rat) :
    p ∈ c ↔ p.1 ∈ Counts.keys c ∧ c.get p.1 = p.2 := by
  constructor
  · intro hp
    exact ⟨List.mem_map_of_mem hp, Counts.get_of_mem c h p hp⟩
  · rintro ⟨hk, hg⟩
    obtain ⟨q, hq, hq1⟩ := List.mem_map.mp hk
    have := Counts.get_of_mem c h q hq
    rw [hq1, hg] at this
    have : q = p := Prod.ext hq1 this.symm
    rw [← this]; exact hq

theorem counts_nodup (c : Counts) (h : (Counts.keys c).Nodup) : c.Nodup := List.Nodup.of_map _ h

/-- two dictionaries with the same keys and the same counts list the same entries, possibly in another order -/
theorem counts_perm (c c' : Counts) (hc : (Counts.keys c).Nodup) (hc' : (Counts.keys c').Nodup)
    (hk : ∀ k, k ∈ Counts.keys c ↔ k ∈ Counts.keys c') (hg : ∀ k, c.get k = c'.get k) : c.Perm c' := by
  rw [List.perm_ext_iff_of_nodup (counts_nodup c hc) (counts_nodup c' hc')]
  intro p
  rw [counts_mem_iff c hc, counts_mem_iff c' hc', hk, hg]

/-- a sum over the entries of a dictionary is a sum over any finite set of names containing its keys, as long as a
zero count contributes nothing -/
theorem sum_entries_finset (c : Counts) (hc : (Counts.keys c).Nodup) (F : String → Rat → Rat) (hF : ∀ k, F k 0 = 0)
    (K : Finset String) (hK : (Counts.keys c).toFinset ⊆ K) :
    (c.map fun p => F p.1 p.2).sum = ∑ k ∈ K, F k (c.get k) := by
  rw [sum_entries_eq_sum_keys c hc F, ← List.sum_toFinset _ hc]
  apply Finset.sum_subset hK
  intro k _ hk
  have : k ∉ Counts.keys c := fun h => hk (List.mem_toFinset.mpr h)
  rw [Counts.get_of_not_mem c k this, hF]

section
variable (lib : Library String String) (s : String) (get : Corr → Val)

/-- **the weighted sum depends on the counts only**: same `get` on every name ⇒ same `Σ n·x_d`, whatever the order of
the entries and whichever names carry an explicit zero -/
theorem specEstimate_congr (c c' : Counts) (hc : (Counts.keys c).Nodup) (hc' : (Counts.keys c').Nodup)
    (hg : ∀ k, c.get k = c'.get k) : specEstimate lib s get c = specEstimate lib s get c' := by
  unfold specEstimate
  set K := (Counts.keys c).toFinset ∪ (Counts.keys c').toFinset with hK
  have e1 := sum_entries_finset c hc (fun k n => n * valOf lib s get k) (by intro k; simp) K (by rw [hK]; exact Finset.subset_union_left)
  have e2 := sum_entries_finset c' hc' (fun k n => n * valOf lib s get k) (by intro k; simp) K (by rw [hK]; exact Finset.subset_union_right)
  rw [e1, e2]
  exact Finset.sum_congr rfl fun k _ => by rw [hg]

/-- **… and is additive in them**: `get_U = get_A + get_B` on every name ⇒ `Σ_U = Σ_A + Σ_B` -/
theorem specEstimate_add (cU cA cB : Counts) (hU : (Counts.keys cU).Nodup) (hA : (Counts.keys cA).Nodup)
    (hB : (Counts.keys cB).Nodup) (hg : ∀ k, cU.get k = cA.get k + cB.get k) :
    specEstimate lib s get cU = specEstimate lib s get cA + specEstimate lib s get cB := by
  unfold specEstimate
  set K := (Counts.keys cU).toFinset ∪ (Counts.keys cA).toFinset ∪ (Counts.keys cB).toFinset with hK
  have hF : ∀ k, (fun k n => n * valOf lib s get k) k 0 = 0 := by intro k; simp
  have eU := sum_entries_finset cU hU (fun k n => n * valOf lib s get k) hF K (by rw [hK]; intro x hx; simp only [Finset.mem_union]; tauto)
  have eA := sum_entries_finset cA hA (fun k n => n * valOf lib s get k) hF K (by rw [hK]; intro x hx; simp only [Finset.mem_union]; tauto)
  have eB := sum_entries_finset cB hB (fun k n => n * valOf lib s get k) hF K (by rw [hK]; intro x hx; simp only [Finset.mem_union]; tauto)
  rw [eU, eA, eB, ← Finset.sum_add_distrib]
  exact Finset.sum_congr rfl fun k _ => by rw [hg]; ring

end

/-! ### `Estimate` on a dictionary whose names are the union of two others' (C04) -/

section
variable (lib : Lib) (s : String)

theorem specMissing_mem (c : Counts) (g : String) :
    g ∈ specMissing lib s c ↔ g ∈ Counts.keys c ∧ corrOf lib s g = none := by
  unfold specMissing Counts.keys
  rw [List.mem_filter]
  simp only [Option.isNone_iff_eq_none]

theorem specMissing_union (cU cA cB : Counts)
    (hk : ∀ k, k ∈ Counts.keys cU ↔ k ∈ Counts.keys cA ∨ k ∈ Counts.keys cB) (g : String) :
    g ∈ specMissing lib s cU ↔ g ∈ specMissing lib s cA ∨ g ∈ specMissing lib s cB := by
  rw [specMissing_mem, specMissing_mem, specMissing_mem, hk]
  tauto

theorem specMissing_isEmpty_union (cU cA cB : Counts)
    (hk : ∀ k, k ∈ Counts.keys cU ↔ k ∈ Counts.keys cA ∨ k ∈ Counts.keys cB) :
    (specMissing lib s cU).isEmpty = ((specMissing lib s cA).isEmpty && (specMissing lib s cB).isEmpty) := by
  rw [Bool.eq_iff_iff, Bool.and_eq_true, List.isEmpty_iff, List.isEmpty_iff, List.isEmpty_iff,
    List.eq_nil_iff_forall_not_mem, List.eq_nil_iff_forall_not_mem, List.eq_nil_iff_forall_not_mem]
  constructor
  · intro h
    exact ⟨fun g hg => h g ((specMissing_union lib s cU cA cB hk g).mpr (Or.inl hg)),
      fun g hg => h g ((specMissing_union lib s cU cA cB hk g).mpr (Or.inr hg))⟩
  · rintro ⟨h1, h2⟩ g hg
    rcases (specMissing_union lib s cU cA cB hk g).mp hg with h | h
    · exact h1 g h
    · exact h2 g h

theorem allBasis_keys (basis : List String) (c : Counts) :
    c.all (fun g => decide (g.1 ∈ basis)) = true ↔ ∀ k ∈ Counts.keys c, k ∈ basis := by
  rw [List.all_eq_true]
  unfold Counts.keys
  simp only [decide_eq_true_eq, List.mem_map, forall_exists_index, and_imp, forall_apply_eq_imp_iff₂]

theorem allBasis_union (basis : List String) (cU cA cB : Counts)
    (hk : ∀ k, k ∈ Counts.keys cU ↔ k ∈ Counts.keys cA ∨ k ∈ Counts.keys cB) :
    cU.all (fun g => decide (g.1 ∈ basis)) =
      (cA.all (fun g => decide (g.1 ∈ basis)) && cB.all (fun g => decide (g.1 ∈ basis))) := by
  rw [Bool.eq_iff_iff, Bool.and_eq_true, allBasis_keys, allBasis_keys, allBasis_keys]
  constructor
  · intro h
    exact ⟨fun k hk' => h k ((hk k).mpr (Or.inl hk')), fun k hk' => h k ((hk k).mpr (Or.inr hk'))⟩
  · rintro ⟨h1, h2⟩ k hk'
    rcases (hk k).mp hk' with h | h
    · exact h1 k h
    · exact h2 k h

theorem termsOf_range_mem (c : Counts) (r : Option (Rat × Rat)) :
    r ∈ (termsOf lib s c).map (·.1.range) ↔ ∃ k ∈ Counts.keys c, (corrD lib s k).range = r := by
  unfold termsOf Counts.keys
  simp only [List.map_map, List.mem_map, Function.comp, exists_exists_and_eq_and]

/-- the common range over the union's names is the intersection of the parts' common ranges -/
theorem commonRange_termsOf_union (cU cA cB : Counts)
    (hk : ∀ k, k ∈ Counts.keys cU ↔ k ∈ Counts.keys cA ∨ k ∈ Counts.keys cB) :
    commonRange (termsOf lib s cU) = interRange (commonRange (termsOf lib s cA)) (commonRange (termsOf lib s cB)) := by
  apply commonRange_union
  intro r
  rw [termsOf_range_mem, termsOf_range_mem, termsOf_range_mem]
  constructor
  · rintro ⟨k, hk', hr⟩
    rcases (hk k).mp hk' with h | h
    · exact Or.inl ⟨k, h, hr⟩
    · exact Or.inr ⟨k, h, hr⟩
  · rintro (⟨k, hk', hr⟩ | ⟨k, hk', hr⟩)
    · exact ⟨k, (hk k).mpr (Or.inl hk'), hr⟩
    · exact ⟨k, (hk k).mpr (Or.inr hk'), hr⟩

end

/-- the range of an estimate is the common range of the mapping's terms -/
theorem estimate_range (reg : List String) (lib : Lib) (c : Counts) (s : String) (e : Estimator)
    (he : estimate reg lib c s = .ok e) : e.range = commonRange (termsOf lib s c) ∧ e.correlations = termsOf lib s c := by
  obtain ⟨_, _, hc⟩ := (estimate_ok_iff reg lib c s e).mp he
  obtain ⟨h1, _, h3⟩ := construct_ok lib s c e hc
  have := terms_eq_map lib s c _ (collect_ok lib s c _ h1)
  exact ⟨by rw [h3, this]; rfl, this⟩

theorem rangeKind_eq (cs : List (Corr × Rat)) : rangeKind cs = rangeKindOf (commonRange cs) := rfl

theorem rangeKindOf_cases (r : Option (Rat × Rat)) : rangeKindOf r = none ∨ rangeKindOf r = some .emptyRange := by
  unfold rangeKindOf
  rcases r with _ | ⟨lo, hi⟩
  · exact Or.inl rfl
  · by_cases h : lo ≤ hi <;> simp [h]

/-- **`Estimate` on a union of names.** -/
theorem outcomeKind_union (reg : List String) (lib : Lib) (s : String) (cU cA cB : Counts)
    (hk : ∀ k, k ∈ Counts.keys cU ↔ k ∈ Counts.keys cA ∨ k ∈ Counts.keys cB) :
    outcomeKind reg lib cU s = mixKind (outcomeKind reg lib cA s) (outcomeKind reg lib cB s)
      (rangeKindOf (interRange (commonRange (termsOf lib s cA)) (commonRange (termsOf lib s cB)))) := by
  unfold outcomeKind uqKind
  rw [specMissing_isEmpty_union lib s cU cA cB hk, rangeKind_eq, commonRange_termsOf_union lib s cU cA cB hk]
  generalize rangeKindOf (interRange (commonRange (termsOf lib s cA)) (commonRange (termsOf lib s cB))) = rU
  rw [rangeKind_eq, rangeKind_eq]
  have hA := rangeKindOf_cases (commonRange (termsOf lib s cA))
  have hB := rangeKindOf_cases (commonRange (termsOf lib s cB))
  generalize rangeKindOf (commonRange (termsOf lib s cA)) = rA at hA ⊢
  generalize rangeKindOf (commonRange (termsOf lib s cB)) = rB at hB ⊢
  cases hu : lib.uq with
  | none =>
    simp only
    rcases hA with rfl | rfl <;> rcases hB with rfl | rfl <;>
      cases reg.contains s <;> cases (specMissing lib s cA).isEmpty <;> cases (specMissing lib s cB).isEmpty <;>
      simp [mixKind]
  | some u =>
    simp only
    rw [allBasis_union u.basis cU cA cB hk]
    rcases hA with rfl | rfl <;> rcases hB with rfl | rfl <;>
      cases reg.contains s <;> cases (specMissing lib s cA).isEmpty <;> cases (specMissing lib s cB).isEmpty <;>
      cases cA.all (fun g => decide (g.1 ∈ u.basis)) <;> cases cB.all (fun g => decide (g.1 ∈ u.basis)) <;>
      cases shapeOK u.basis.length u.mat <;>
      simp [mixKind]

/-! ### the count vector of the uncertainty block and the quadratic form -/

theorem counts_lookup_get (c : Counts) (k : String) :
    (match c.lookup k with | some n => n | none => 0) = c.get k := by
  induction c with
  | nil => rfl
  | cons p c ih =>
    obtain ⟨k0, v0⟩ := p
    by_cases h : k0 = k
    · subst h; simp [List.lookup, Counts.get]
    · have h' : (k == k0) = false := by
        rw [beq_eq_false_iff_ne]; exact fun e => h e.symm
      simp only [List.lookup, h', Counts.get, h, if_false]
      exact ih

/-- entry `i` of the count vector is the count the dictionary gives the `i`-th basis descriptor -/
theorem specX_counts (basis : List String) (c : Counts) : specX basis c = basis.map c.get := by
  unfold specX
  apply List.map_congr_left
  intro b _
  exact counts_lookup_get c b

theorem specQuad_eq_bilin (M : List (List Rat)) (x : List Rat) : specQuad M x = specBilin M x x := rfl

theorem specDot_vplus_right (row x y : List Rat) (h : x.length = y.length) :
    specDot row (vplus x y) = specDot row x + specDot row y := by
  induction row generalizing x y with
  | nil => simp [specDot]
  | cons r row ih =>
    cases x with
    | nil =>
      cases y with
      | nil => simp [specDot, vplus]
      | cons b y => simp at h
    | cons a x =>
      cases y with
      | nil => simp at h
      | cons b y =>
        have h' : x.length = y.length := by simpa using h
        have := ih x y h'
        simp only [specDot, vplus, List.zipWith_cons_cons, List.sum_cons] at this ⊢
        rw [this]; ring

theorem specBilin_vplus_left (M : List (List Rat)) (x y z : List Rat) (h : x.length = y.length) :
    specBilin M (vplus x y) z = specBilin M x z + specBilin M y z := by
  induction M generalizing x y with
  | nil => simp [specBilin]
  | cons row M ih =>
    cases x with
    | nil =>
      cases y with
      | nil => simp [specBilin, vplus]
      | cons b y => simp at h
    | cons a x =>
      cases y with
      | nil => simp at h
      | cons b y =>
        have h' : x.length = y.length := by simpa using h
        have := ih x y h'
        simp only [specBilin, vplus, List.zipWith_cons_cons, List.sum_cons] at this ⊢
        rw [this]; ring

theorem specBilin_vplus_right (M : List (List Rat)) (x y z : List Rat) (h : y.length = z.length) :
    specBilin M x (vplus y z) = specBilin M x y + specBilin M x z := by
  induction M generalizing x with
  | nil => simp [specBilin]
  | cons row M ih =>
    cases x with
    | nil => simp [specBilin]
    | cons a x =>
      have := ih x
      simp only [specBilin, List.zipWith_cons_cons, List.sum_cons] at this ⊢
      rw [this, specDot_vplus_right row y z h]; ring

/-- **the quadratic form of a sum**: `(x+y)ᵀM(x+y) = xᵀMx + yᵀMy + xᵀMy + yᵀMx` -/
theorem specQuad_vplus (M : List (List Rat)) (x y : List Rat) (h : x.length = y.length) :
    specQuad M (vplus x y) = specQuad M x + specQuad M y + specBilin M x y + specBilin M y x := by
  rw [specQuad_eq_bilin, specQuad_eq_bilin, specQuad_eq_bilin, specBilin_vplus_left M x y _ h,
    specBilin_vplus_right M x x y h, specBilin_vplus_right M y x y h]
  ring

/-- the bilinear form as a double sum over `Fin n` -/
theorem specBilin_eq_sum (n : ℕ) (M : List (List Rat)) (x y : List Rat) (hM : Square n M) (hx : x.length = n)
    (hy : y.length = n) :
    specBilin M x y = ∑ i : Fin n, ∑ j : Fin n, x.getD i 0 * entry M i j * y.getD j 0 := by
  unfold specBilin
  rw [sum_zipWith_fin _ 0 [] n x M hx hM.1]
  apply Finset.sum_congr rfl
  intro i _
  have hrow : (M.getD i []).length = n := by
    apply hM.2
    rw [List.getD_eq_getElem (l := M) (d := []) (by rw [hM.1]; exact i.2)]
    exact List.getElem_mem _
  unfold specDot
  rw [sum_zipWith_fin _ 0 0 n _ y hrow hy, Finset.mul_sum]
  apply Finset.sum_congr rfl
  intro j _
  simp only [entry]
  ring

/-- for a symmetric matrix `xᵀMy = yᵀMx` -/
theorem specBilin_symm (n : ℕ) (M : List (List Rat)) (x y : List Rat) (hM : Square n M) (hx : x.length = n)
    (hy : y.length = n) (hsym : ∀ i j, entry M i j = entry M j i) : specBilin M x y = specBilin M y x := by
  rw [specBilin_eq_sum n M x y hM hx hy, specBilin_eq_sum n M y x hM hy hx, Finset.sum_comm]
  apply Finset.sum_congr rfl
  intro j _
  apply Finset.sum_congr rfl
  intro i _
  rw [hsym i j]
  ring

/-- the count vector is additive in the counts -/
theorem specX_add (basis : List String) (cU cA cB : Counts) (hg : ∀ k, cU.get k = cA.get k + cB.get k) :
    specX basis cU = vplus (specX basis cA) (specX basis cB) := by
  rw [specX_counts, specX_counts, specX_counts]
  unfold vplus
  rw [List.zipWith_map_left, List.zipWith_map_right]
  induction basis with
  | nil => rfl
  | cons b basis ih => simp [hg b, ih]

/-! ### a datum of the estimate of a union of names with added counts -/

theorem forall_entries_iff_keys (c : Counts) (P : String → Prop) : (∀ g ∈ c, P g.1) ↔ ∀ k ∈ Counts.keys c, P k := by
  unfold Counts.keys
  simp only [List.mem_map, forall_exists_index, and_imp, forall_apply_eq_imp_iff₂]

theorem wsum_union (get : Corr → Val) (reg : List String) (lib : Lib) (s : String) (cU cA cB : Counts)
    (eU eA eB : Estimator) (hU : (Counts.keys cU).Nodup) (hA : (Counts.keys cA).Nodup) (hB : (Counts.keys cB).Nodup)
    (hg : ∀ k, cU.get k = cA.get k + cB.get k)
    (hk : ∀ k, k ∈ Counts.keys cU ↔ k ∈ Counts.keys cA ∨ k ∈ Counts.keys cB)
    (heU : estimate reg lib cU s = .ok eU) (heA : estimate reg lib cA s = .ok eA) (heB : estimate reg lib cB s = .ok eB)
    (v : Rat) :
    wsum get eU.correlations = .ok v ↔
      ∃ x y, wsum get eA.correlations = .ok x ∧ wsum get eB.correlations = .ok y ∧ v = x + y := by
  simp only [C01_value_iff get reg lib _ s _ heU, C01_value_iff get reg lib _ s _ heA, C01_value_iff get reg lib _ s _ heB,
    forall_entries_iff_keys, specEstimate_add lib s get cU cA cB hU hA hB hg]
  constructor
  · rintro ⟨h, rfl⟩
    exact ⟨_, _, ⟨fun k hk' => h k ((hk k).mpr (Or.inl hk')), rfl⟩, ⟨fun k hk' => h k ((hk k).mpr (Or.inr hk')), rfl⟩, rfl⟩
  · rintro ⟨x, y, ⟨h1, rfl⟩, ⟨h2, rfl⟩, rfl⟩
    exact ⟨fun k hk' => ((hk k).mp hk').elim (h1 k) (h2 k), rfl⟩

/-! ### the library's record of the decomposed molecule only names the estimate -/

theorem collect_withName (lib : Lib) (nm : Option (List Nat)) (gs : List (String × Rat)) (s : String) :
    collect ({ lib with name := nm } : Lib) s gs = collect lib s gs := by
  induction gs with
  | nil => rfl
  | cons g rest ih =>
    obtain ⟨g, n⟩ := g
    unfold collect
    rw [ih]
    rfl

theorem estimate_withName (reg : List String) (lib : Lib) (nm : Option (List Nat)) (gs : List (String × Rat)) (s : String) :
    estimate reg ({ lib with name := nm } : Lib) gs s =
      match estimate reg lib gs s with
      | .ok e => .ok (withName nm e)
      | .error err => .error err := by
  unfold estimate
  have hm : missingGroups ({ lib with name := nm } : Lib) s gs = missingGroups lib s gs := rfl
  rw [hm]
  split
  · split
    · unfold construct
      have hc := collect_withName lib nm gs s
      have hu : uqPart ({ lib with name := nm } : Lib) gs = uqPart lib gs := rfl
      rw [hc, hu]
      cases collect lib s gs with
      | error e => rfl
      | ok cs =>
        cases uqPart lib gs with
        | error e => rfl
        | ok uq =>
          simp only
          unfold finish
          cases commonRange cs with
          | none => rfl
          | some r =>
            obtain ⟨lo, hi⟩ := r
            by_cases hle : lo ≤ hi <;> simp [hle, withName]
    · rfl
  · rfl

theorem pipeline_patternMatch_iff (reg : List String) (S : Decompose.SchemeDef) (lib : Lib) (m : Mol) (set : String) :
    pipeline reg S lib m set = .error .patternMatch ↔ Decompose.decompose S m = .error .patternMatch := by
  unfold pipeline getDescriptors estimateOf
  cases hd : Decompose.decompose S m with
  | error e => cases e; simp
  | ok c =>
    simp only
    cases estimate reg (remember lib m) c set <;> simp

theorem pipeline_ok_iff (reg : List String) (S : Decompose.SchemeDef) (lib : Lib) (m : Mol) (set : String) (e : Estimator) :
    pipeline reg S lib m set = .ok e ↔
      ∃ c e0, Decompose.decompose S m = .ok c ∧ estimate reg lib c set = .ok e0 ∧ e = withName (some (atomsOf m)) e0 := by
  unfold pipeline getDescriptors estimateOf
  cases hd : Decompose.decompose S m with
  | error err => cases err; simp
  | ok c =>
    simp only [remember]
    rw [estimate_withName]
    cases he : estimate reg lib c set with
    | error err => simp [he]
    | ok e0 =>
      simp only [Except.ok.injEq, exists_and_left, exists_eq_left', he]
      exact eq_comm

theorem pipeline_esterr_iff (reg : List String) (S : Decompose.SchemeDef) (lib : Lib) (m : Mol) (set : String)
    (err : EstErr String) :
    pipeline reg S lib m set = .error (.estimate err) ↔
      ∃ c, Decompose.decompose S m = .ok c ∧ estimate reg lib c set = .error err := by
  unfold pipeline getDescriptors estimateOf
  cases hd : Decompose.decompose S m with
  | error e => cases e; simp
  | ok c =>
    simp only [remember]
    rw [estimate_withName]
    cases he : estimate reg lib c set with
    | error err' => simp [he]
    | ok e0 => simp [he]

/-! ### how `_do_load` keys a library -/

section
variable {α : Type}
open PGA.GroupName

/-- one step of the keying loop on an entry whose name parses -/
theorem loadGroups_cons_ok (text : Name) (ps : α) (rest : List (Name × α)) (acc : List (String × α)) (g : Group)
    (hp : parse text = .ok g) :
    loadGroups ((text, ps) :: rest) acc =
      if (acc.lookup (String.ofList g.name)).isSome then .error (.duplicate (String.ofList g.name))
      else loadGroups rest (acc ++ [(String.ofList g.name, ps)]) := by
  simp only [loadGroups, hp]

theorem lookup_append_single (acc : List (String × α)) (k k' : String) (v : α) :
    (acc ++ [(k, v)]).lookup k' = match acc.lookup k' with
      | some w => some w
      | none => if k' == k then some v else none := by
  rw [List.lookup_append]
  cases acc.lookup k' with
  | some w => rfl
  | none =>
    simp only [Option.none_or, List.lookup]
    cases k' == k <;> rfl

/-- what the keying loop of the `groups:` section guarantees of the dict it returns: earlier entries stay, and every entry
of the section is found under the canonical name of the group its name denotes -/
theorem loadGroups_lookup (src : List (Name × α)) (acc cont : List (String × α)) (h : loadGroups src acc = .ok cont) :
    (∀ k v, acc.lookup k = some v → cont.lookup k = some v) ∧
    (∀ text ps g, (text, ps) ∈ src → parse text = .ok g → cont.lookup (String.ofList g.name) = some ps) := by
  induction src generalizing acc with
  | nil =>
    simp only [loadGroups, Except.ok.injEq] at h
    subst h
    exact ⟨fun _ _ h => h, fun _ _ _ h => by cases h⟩
  | cons p rest ih =>
    obtain ⟨text, ps⟩ := p
    cases hp : parse text with
    | error e => cases e <;> simp [loadGroups, hp] at h
    | ok g =>
      rw [loadGroups_cons_ok text ps rest acc g hp] at h
      cases hl : acc.lookup (String.ofList g.name) with
      | some w => simp [hl] at h
      | none =>
        simp only [hl, Option.isSome_none, Bool.false_eq_true, if_false] at h
        obtain ⟨ih1, ih2⟩ := ih _ h
        constructor
        · intro k v hk
          apply ih1
          rw [lookup_append_single, hk]
        · intro text' ps' g' hm hp'
          rcases List.mem_cons.mp hm with e | hm
          · cases e
            rw [hp] at hp'; cases hp'
            apply ih1
            rw [lookup_append_single, hl]
            simp
          · exact ih2 text' ps' g' hm hp'

theorem loadDescs_lookup (src : List (String × α)) (acc cont : List (String × α)) (h : loadDescs src acc = .ok cont) :
    ∀ k v, acc.lookup k = some v → cont.lookup k = some v := by
  induction src generalizing acc with
  | nil =>
    simp only [loadDescs, Except.ok.injEq] at h
    subst h
    exact fun _ _ h => h
  | cons p rest ih =>
    obtain ⟨name, ps⟩ := p
    unfold loadDescs at h
    cases hl : acc.lookup name with
    | some w => simp [hl] at h
    | none =>
      simp only [hl, Option.isSome_none, Bool.false_eq_true, if_false] at h
      intro k v hk
      apply ih _ h
      rw [lookup_append_single, hk]

theorem loadGroups_sameSpelling (src src' : List (Name × α)) (h : SameSpelling src src') (acc : List (String × α)) :
    loadGroups src' acc = loadGroups src acc := by
  induction h generalizing acc with
  | nil => rfl
  | @cons p p' src src' hp _ ih =>
    obtain ⟨text, ps⟩ := p
    obtain ⟨text', ps'⟩ := p'
    obtain ⟨hps, c, r, r', rfl, rfl, hw, hw', hperm⟩ := hp
    simp only at hps
    subst hps
    rw [loadGroups_cons_ok _ _ _ _ _ (C19_parse_spell c r hw), loadGroups_cons_ok _ _ _ _ _ (C19_parse_spell c r' hw')]
    have : Group.name ⟨c, expandRuns r'⟩ = Group.name ⟨c, expandRuns r⟩ := (canon_perm c hperm).symm
    rw [this, ih]

end

end PGA.Pipeline
