import PGA.Proofs.Read
import PGA.Spec.MolUnion
/-! Every query the reader returns is connected: each atom declared after the first one is declared with a bond to
an atom declared before it (`BondedAtom` attaches to an existing label; attaching an atom to itself is refused by
`AddBond`), and it has at least one atom. -/
namespace PGA.Read

/-- reader invariant for connectivity -/
def Conn (st : St) : Prop :=
  st.names.length = st.atoms.length ∧ 0 < st.atoms.length ∧
  ∀ k, k < st.atoms.length → k = 0 ∨ ∃ b ∈ st.bonds, (b.i = k ∧ b.j < k) ∨ (b.j = k ∧ b.i < k)

theorem addBond_ne (st st' : St) (i j : Nat) (s : BondSpec) (h : addBond st i j s = .ok st') : i ≠ j := by
  unfold addBond at h
  split at h
  · cases h
  · rename_i hne; simpa using hne

theorem step_conn (st st' : St) (it : RawItem) (h : step st it = .ok st') (hi : Conn st) : Conn st' := by
  obtain ⟨hn, hpos, hc⟩ := hi
  cases it with
  | bonded ty l b l2 ch =>
    simp only [step, bind, Except.bind] at h
    cases h1 : atomType ty with
    | error e => simp [h1] at h
    | ok t =>
      simp only [h1] at h
      cases h2 : lookup (st.names ++ [l]) l2 with
      | error e => simp [h2] at h
      | ok j =>
        simp only [h2] at h
        have hj := lookup_lt _ _ _ h2
        cases h3 : bondSpec b with
        | error e => simp [h3] at h
        | ok bs =>
          simp only [h3] at h
          cases h4 : addBond ⟨st.names ++ [l], st.atoms ++ [⟨l, t, []⟩], st.bonds, st.stereo⟩ st.atoms.length j bs with
          | error e => simp [h4] at h
          | ok st1 =>
            simp only [h4] at h
            have e1 := addBond_ok _ _ _ _ _ h4
            have hne := addBond_ne _ _ _ _ _ h4
            cases h5 : ch.mapM cons with
            | error e => simp [h5] at h
            | ok chain =>
              simp only [h5, pure, Except.pure, Except.ok.injEq] at h
              subst h e1
              simp only [List.length_append, List.length_cons, List.length_nil] at hj ⊢
              refine ⟨by simp [hn], by simp, ?_⟩
              intro k hk
              simp only [List.length_append, List.length_cons, List.length_nil] at hk
              by_cases hk' : k < st.atoms.length
              · rcases hc k hk' with h0 | ⟨b', hb', hh⟩
                · exact Or.inl h0
                · exact Or.inr ⟨b', List.mem_append_left _ hb', hh⟩
              · have : k = st.atoms.length := by omega
                subst this
                right
                refine ⟨⟨st.atoms.length, j, bs⟩, List.mem_append_right _ (List.mem_singleton.2 rfl), Or.inl ⟨rfl, ?_⟩⟩
                show j < st.atoms.length
                omega
  | ringBond l1 b l2 =>
    simp only [step, bind, Except.bind] at h
    cases h1 : lookup st.names l1 with
    | error e => simp [h1] at h
    | ok i =>
      cases h2 : lookup st.names l2 with
      | error e => simp [h1, h2] at h
      | ok j =>
        cases h3 : bondSpec b with
        | error e => simp [h1, h2, h3] at h
        | ok bs =>
          simp only [h1, h2, h3] at h
          have e1 := addBond_ok _ _ _ _ _ h
          subst e1
          refine ⟨hn, hpos, ?_⟩
          intro k hk
          rcases hc k hk with h0 | ⟨b', hb', hh⟩
          · exact Or.inl h0
          · exact Or.inr ⟨b', List.mem_append_left _ hb', hh⟩
  | stereo l1 bo k l2 l3 l4 =>
    simp only [step, bind, Except.bind] at h
    cases h1 : lookup st.names l1 with
    | error e => simp [h1] at h
    | ok i1 =>
    cases hb0 : negOf bo with
    | error e => simp [h1, hb0] at h
    | ok neg =>
    cases hk : stereoKind k with
    | error e => simp [h1, hb0, hk] at h
    | ok kind =>
    cases h2 : lookup st.names l2 with
    | error e => simp [h1, hb0, hk, h2] at h
    | ok i2 =>
    cases h3 : lookup st.names l3 with
    | error e => simp [h1, hb0, hk, h2, h3] at h
    | ok i3 =>
    cases h4 : lookup st.names l4 with
    | error e => simp [h1, hb0, hk, h2, h3, h4] at h
    | ok i4 =>
      simp only [h1, hb0, hk, h2, h3, h4] at h
      have key : ∀ st'', st'' = ({ st with stereo := st.stereo ++ [⟨i1, i2, i3, i4, neg, kind⟩] } : St) → Conn st'' := by
        intro st'' e
        subst e
        exact ⟨hn, hpos, hc⟩
      split at h
      · cases h
      · split at h
        · cases h
        · split at h
          · cases h
          · split at h
            · cases h
            · split at h
              · cases h
              · simp only [pure, Except.pure, Except.ok.injEq] at h
                exact key _ h.symm

theorem items_conn (its : List RawItem) (st st' : St) (h : items st its = .ok st') (hi : Conn st) : Conn st' := by
  induction its generalizing st with
  | nil => simp only [items, pure, Except.pure, Except.ok.injEq] at h; subst h; exact hi
  | cons it its ih =>
    simp only [items, bind, Except.bind] at h
    cases h1 : step st it with
    | error e => simp [h1] at h
    | ok st1 =>
      simp only [h1] at h
      exact ih st1 h (step_conn st st1 it h1 hi)

/-- what the reader returns is connected and has at least one atom -/
theorem frag_connected (f : Frag) (q : Query) (h : frag f = .ok q) : q.connected = true ∧ 0 < q.atoms.length := by
  unfold frag at h
  simp only [bind, Except.bind] at h
  cases h1 : molPrefix f.pre with
  | error e => simp [h1] at h
  | ok mp =>
  cases h2 : atomType f.ty0 with
  | error e => simp [h1, h2] at h
  | ok t =>
  cases h3 : f.chain0.mapM cons with
  | error e => simp [h1, h2, h3] at h
  | ok chain =>
  cases h4 : items ⟨[f.label0], [⟨f.label0, t, chain⟩], [], []⟩ f.items with
  | error e => simp [h1, h2, h3, h4] at h
  | ok st =>
    simp only [h1, h2, h3, h4, pure, Except.pure, Except.ok.injEq] at h
    subst h
    have hinv : Conn st := items_conn _ _ _ h4 ⟨by simp, by simp, by intro k hk; left; simp at hk; exact hk⟩
    obtain ⟨_, hpos, hc⟩ := hinv
    refine ⟨?_, hpos⟩
    simp only [Query.connected, List.all_eq_true, List.mem_range, Bool.or_eq_true, beq_iff_eq, List.any_eq_true,
      Bool.and_eq_true, decide_eq_true_eq]
    intro k hk
    exact hc k hk

end PGA.Read

namespace PGA
theorem readFragment_connected (t : Ast) (q : Query) (h : readFragment t = .ok q) :
    q.connected = true ∧ 0 < q.atoms.length := by
  unfold readFragment at h
  simp only [bind, Except.bind] at h
  cases hf : Frag.ofAst t with
  | error e => simp [hf] at h
  | ok f => simp only [hf] at h; exact Read.frag_connected f q h
end PGA
