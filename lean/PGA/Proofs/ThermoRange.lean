import PGA.Proofs.Thermo
/-! Helper lemmas for C06: the range intersection fold of `ThermochemGroupAdditive.__init__`, the invariant
of constructed `ThermochemIncomplete` objects, what each class does outside / inside its range, and how
the sequential sums and `G = H − S` propagate errors and warnings. -/
namespace PGA.Thermo


/-! ### range intersection -/

theorem inRange_rangeStep (T : Rat) (acc r : Option Range) :
    inRange T (rangeStep acc r) ↔ inRange T acc ∧ inRange T r := by
  cases r with
  | none => simp [rangeStep, inRange]
  | some dr =>
    cases acc with
    | none => simp [rangeStep, inRange]
    | some a =>
      simp only [rangeStep, inRange, max_le_iff, le_min_iff]
      tauto

theorem inRange_foldl (T : Rat) (rs : List (Option Range)) (acc : Option Range) :
    inRange T (rs.foldl rangeStep acc) ↔ inRange T acc ∧ ∀ r ∈ rs, inRange T r := by
  induction rs generalizing acc with
  | nil => simp
  | cons r rs ih =>
    rw [List.foldl_cons, ih, inRange_rangeStep]
    simp only [List.mem_cons, forall_eq_or_imp]
    tauto

theorem inRange_estRange (T : Rat) (rs : List (Option Range)) :
    inRange T (estRange rs) ↔ ∀ r ∈ rs, inRange T r := by
  unfold estRange
  rw [inRange_foldl]
  simp [inRange]

theorem foldl_rangeStep_none (rs : List (Option Range)) (acc : Option Range) :
    rs.foldl rangeStep acc = none ↔ acc = none ∧ ∀ r ∈ rs, r = none := by
  induction rs generalizing acc with
  | nil => simp
  | cons r rs ih =>
    rw [List.foldl_cons, ih]
    simp only [List.mem_cons, forall_eq_or_imp]
    cases r <;> cases acc <;> simp [rangeStep]

theorem rangeStep_comm (acc x y : Option Range) : rangeStep (rangeStep acc x) y = rangeStep (rangeStep acc y) x := by
  cases x <;> cases y <;> cases acc <;> simp only [rangeStep]
  · rw [max_comm, min_comm]
  · rw [max_right_comm, min_right_comm]

theorem estRange_perm {rs rs' : List (Option Range)} (h : rs.Perm rs') : estRange rs = estRange rs' :=
  h.foldl_eq' (fun x _ y _ z => rangeStep_comm z x y) none

/-- the fold started from `some a`: the result is the maximum of the lows and the minimum of the highs -/
theorem foldl_rangeStep_some (rs : List (Option Range)) (a : Range) :
    ∃ lo hi, rs.foldl rangeStep (some a) = some (lo, hi) ∧
      (lo = a.1 ∨ ∃ r, some r ∈ rs ∧ r.1 = lo) ∧ a.1 ≤ lo ∧ (∀ r, some r ∈ rs → r.1 ≤ lo) ∧
      (hi = a.2 ∨ ∃ r, some r ∈ rs ∧ r.2 = hi) ∧ hi ≤ a.2 ∧ (∀ r, some r ∈ rs → hi ≤ r.2) := by
  induction rs generalizing a with
  | nil => exact ⟨a.1, a.2, rfl, Or.inl rfl, le_refl _, by simp, Or.inl rfl, le_refl _, by simp⟩
  | cons r rs ih =>
    cases r with
    | none =>
      obtain ⟨lo, hi, e, h1, h2, h3, h4, h5, h6⟩ := ih a
      refine ⟨lo, hi, e, ?_, h2, ?_, ?_, h5, ?_⟩
      · rcases h1 with h | ⟨r, hr, e⟩
        · exact Or.inl h
        · exact Or.inr ⟨r, List.mem_cons_of_mem _ hr, e⟩
      · intro r hr; rcases List.mem_cons.mp hr with h | h
        · cases h
        · exact h3 r h
      · rcases h4 with h | ⟨r, hr, e⟩
        · exact Or.inl h
        · exact Or.inr ⟨r, List.mem_cons_of_mem _ hr, e⟩
      · intro r hr; rcases List.mem_cons.mp hr with h | h
        · cases h
        · exact h6 r h
    | some dr =>
      obtain ⟨lo, hi, e, h1, h2, h3, h4, h5, h6⟩ := ih (max a.1 dr.1, min a.2 dr.2)
      refine ⟨lo, hi, e, ?_, le_trans (le_max_left _ _) h2, ?_, ?_, le_trans h5 (min_le_left _ _), ?_⟩
      · rcases h1 with h | ⟨r, hr, e⟩
        · rcases max_choice a.1 dr.1 with m | m
          · exact Or.inl (h.trans m)
          · exact Or.inr ⟨dr, List.mem_cons_self .., (h.trans m).symm⟩
        · exact Or.inr ⟨r, List.mem_cons_of_mem _ hr, e⟩
      · intro r hr; rcases List.mem_cons.mp hr with h | h
        · cases h; exact le_trans (le_max_right _ _) h2
        · exact h3 r h
      · rcases h4 with h | ⟨r, hr, e⟩
        · rcases min_choice a.2 dr.2 with m | m
          · exact Or.inl (h.trans m)
          · exact Or.inr ⟨dr, List.mem_cons_self .., (h.trans m).symm⟩
        · exact Or.inr ⟨r, List.mem_cons_of_mem _ hr, e⟩
      · intro r hr; rcases List.mem_cons.mp hr with h | h
        · cases h; exact le_trans h5 (min_le_right _ _)
        · exact h6 r h

theorem estRange_sup_inf (rs : List (Option Range)) (lo hi : Rat) (h : estRange rs = some (lo, hi)) :
    (∃ r, some r ∈ rs ∧ r.1 = lo) ∧ (∀ r, some r ∈ rs → r.1 ≤ lo) ∧
    (∃ r, some r ∈ rs ∧ r.2 = hi) ∧ (∀ r, some r ∈ rs → hi ≤ r.2) := by
  unfold estRange at h
  induction rs with
  | nil => simp at h
  | cons r rs ih =>
    cases r with
    | none =>
      obtain ⟨h1, h2, h3, h4⟩ := ih (by simpa [rangeStep] using h)
      refine ⟨?_, ?_, ?_, ?_⟩
      · obtain ⟨r, hr, e⟩ := h1; exact ⟨r, List.mem_cons_of_mem _ hr, e⟩
      · intro r hr; rcases List.mem_cons.mp hr with h | h
        · cases h
        · exact h2 r h
      · obtain ⟨r, hr, e⟩ := h3; exact ⟨r, List.mem_cons_of_mem _ hr, e⟩
      · intro r hr; rcases List.mem_cons.mp hr with h | h
        · cases h
        · exact h4 r h
    | some a =>
      obtain ⟨lo', hi', e, h1, h2, h3, h4, h5, h6⟩ := foldl_rangeStep_some rs a
      rw [List.foldl_cons] at h
      simp only [rangeStep] at h
      rw [e] at h
      simp only [Option.some.injEq, Prod.mk.injEq] at h
      obtain ⟨rfl, rfl⟩ := h
      refine ⟨?_, ?_, ?_, ?_⟩
      · rcases h1 with h | ⟨r, hr, e⟩
        · exact ⟨a, List.mem_cons_self .., h.symm⟩
        · exact ⟨r, List.mem_cons_of_mem _ hr, e⟩
      · intro r hr; rcases List.mem_cons.mp hr with h | h
        · cases h; exact h2
        · exact h3 r h
      · rcases h4 with h | ⟨r, hr, e⟩
        · exact ⟨a, List.mem_cons_self .., h.symm⟩
        · exact ⟨r, List.mem_cons_of_mem _ hr, e⟩
      · intro r hr; rcases List.mem_cons.mp hr with h | h
        · cases h; exact h5
        · exact h6 r h


/-- invariant of constructed `ThermochemIncomplete` objects: the range passed the base-class assertion and the
inner table correlation exists exactly when there is heat-capacity data, built from this object's own data -/
structure Incomplete.WF (c : Incomplete) : Prop where
  base : baseInitOk c.range = true
  nocp : c.cp = [] → c.corr = none
  hascp : c.cp ≠ [] → ∃ ip d, RawData.mk ip (c.Href.getD 0) (c.Sref.getD 0) c.cp c.Tref c.range = .ok d ∧ c.corr = some d

theorem Incomplete.mk_wf {ip : Interp} {Href Sref : Option Rat} {cp : List Pt} {Tref : Rat} {range : Option Range}
    {c : Incomplete} (hmk : Incomplete.mk ip Href Sref cp Tref range = .ok c) :
    c.WF ∧ c.Href = Href ∧ c.Sref = Sref ∧ c.cp = cp ∧ c.Tref = Tref ∧ c.range = range := by
  unfold Incomplete.mk at hmk
  split at hmk
  · cases hmk
  · rename_i hb
    have hb' : baseInitOk range = true := by simpa using hb
    cases cp with
    | nil =>
      simp only [Except.ok.injEq] at hmk; subst hmk
      exact ⟨⟨hb', fun _ => rfl, fun h => absurd rfl h⟩, rfl, rfl, rfl, rfl, rfl⟩
    | cons q qs =>
      simp only at hmk
      split at hmk
      · cases hmk
      · rename_i d hd
        rw [mk_sortPts] at hd
        simp only [Except.ok.injEq] at hmk; subst hmk
        exact ⟨⟨hb', (fun h => by cases h), fun _ => ⟨ip, d, hd, rfl⟩⟩, rfl, rfl, rfl, rfl, rfl⟩

theorem Signalled.of_error {e : Err} {w : Bool} : Signalled (.error e, w) := Or.inl ⟨e, rfl⟩
theorem Signalled.of_warn {r : Except Err Rat} : Signalled (r, true) := Or.inr rfl

theorem convertErr_outside : convertErr (.error .outside) = .error .incomplete := rfl
theorem convertErr_ok (v : Rat) : convertErr (.ok v) = .ok v := rfl

/-- out of its range, a table correlation raises the range error for every property -/
theorem RawData.outside_err (d : RawData) {T : Rat} (h : ¬ inRange T (some d.range)) :
    d.CpoR T = .error .outside ∧ d.HoRT T = .error .outside ∧ d.SoR T = .error .outside ∧ d.GoRT T = .error .outside := by
  have e := checkRange_err (r := d.range) (T := T) h
  unfold RawData.GoRT RawData.CpoR RawData.HoRT RawData.SoR
  simp only [e, and_self]

/-- in range (positive lower end) every property of a constructed table correlation is a value -/
theorem RawData.inside_ok {ip : Interp} {Href Sref : Rat} {pts : List Pt} {Tref : Rat} {range : Option Range} {d : RawData}
    (_hmk : RawData.mk ip Href Sref pts Tref range = .ok d) (hpos : 0 < d.range.1) {T : Rat}
    (hT : inRange T (some d.range)) :
    (∃ v, d.CpoR T = .ok v) ∧ (∃ v, d.HoRT T = .ok v) ∧ (∃ v, d.SoR T = .ok v) ∧ (∃ v, d.GoRT T = .ok v) := by
  have eH := (HoRT_in_range hpos hT).1
  have eS := SoR_in_range hT
  refine ⟨?_, ⟨_, eH⟩, ⟨_, eS⟩, ?_⟩
  · unfold RawData.CpoR
    rw [checkRange_ok.mpr hT]
    split_ifs <;> exact ⟨_, rfl⟩
  · unfold RawData.GoRT
    rw [eH, eS]; exact ⟨_, rfl⟩

/-- a constituent evaluated outside its declared range signals (error, or the warning when it has no Cp data) -/
theorem Incomplete.outside_signalled {c : Incomplete} (hw : c.WF) {r : Range} (hr : c.range = some r) {T : Rat}
    (hT : ¬ inRange T (some r)) :
    Signalled (c.CpoR T) ∧ Signalled (c.HoRT T) ∧ Signalled (c.SoR T) ∧
    (c.cp ≠ [] → c.CpoR T = (.error .incomplete, false) ∧ c.HoRT T = (.error .incomplete, false) ∧
      c.SoR T = (.error .incomplete, false)) := by
  by_cases hcp : c.cp = []
  · have hwarn : c.warnNoCp T = true := by
      unfold Incomplete.warnNoCp
      rw [hr]
      have : outsideR r T = true := by
        rcases Bool.eq_false_or_eq_true (outsideR r T) with h | h
        · exact h
        · exact absurd (outsideR_false.mp h) hT
      simp [this]
    refine ⟨?_, ?_, ?_, fun h => absurd hcp h⟩
    · unfold Incomplete.CpoR; rw [hcp]; exact Signalled.of_error
    · unfold Incomplete.HoRT; rw [hcp]
      cases c.Href with
      | none => exact Signalled.of_error
      | some h => simp only [hwarn]; exact Signalled.of_warn
    · unfold Incomplete.SoR; rw [hcp]
      cases c.Sref with
      | none => exact Signalled.of_error
      | some h => simp only [hwarn]; exact Signalled.of_warn
  · obtain ⟨ip, d, hd, hc⟩ := hw.hascp hcp
    have hdr : d.range = r := (RawData.mk_built hd).range_some r hr
    obtain ⟨e1, e2, e3, _⟩ := d.outside_err (T := T) (by rw [hdr]; exact hT)
    obtain ⟨q, qs, hq⟩ := List.exists_cons_of_ne_nil hcp
    have k1 : c.CpoR T = (.error .incomplete, false) := by
      unfold Incomplete.CpoR; rw [hq, hc]; simp only [e1, convertErr_outside]
    have k2 : c.HoRT T = (.error .incomplete, false) := by
      unfold Incomplete.HoRT; rw [hq, hc]
      cases c.Href with
      | none => rfl
      | some h => simp only [e2, convertErr_outside]
    have k3 : c.SoR T = (.error .incomplete, false) := by
      unfold Incomplete.SoR; rw [hq, hc]
      cases c.Sref with
      | none => rfl
      | some h => simp only [e3, convertErr_outside]
    exact ⟨k1 ▸ Signalled.of_error, k2 ▸ Signalled.of_error, k3 ▸ Signalled.of_error, fun _ => ⟨k1, k2, k3⟩⟩

/-- in its declared range (positive lower end) a constituent returns a value for each property it has data for -/
theorem Incomplete.inside_ok {c : Incomplete} (hw : c.WF) {T : Rat}
    (hT : c.cp ≠ [] → ∃ r, c.range = some r ∧ 0 < r.1 ∧ inRange T (some r)) :
    (c.cp ≠ [] → ∃ v, c.CpoR T = (.ok v, false)) ∧
    (c.Href ≠ none → IsValue (c.HoRT T)) ∧ (c.Sref ≠ none → IsValue (c.SoR T)) := by
  by_cases hcp : c.cp = []
  · refine ⟨fun h => absurd hcp h, fun hh => ?_, fun hs => ?_⟩
    · unfold Incomplete.HoRT; rw [hcp]
      cases h : c.Href with
      | none => exact absurd h hh
      | some v => exact ⟨v, rfl⟩
    · unfold Incomplete.SoR; rw [hcp]
      cases h : c.Sref with
      | none => exact absurd h hs
      | some v => exact ⟨v, rfl⟩
  · obtain ⟨r, hr, hpos, hin⟩ := hT hcp
    obtain ⟨ip, d, hd, hc⟩ := hw.hascp hcp
    have hdr : d.range = r := (RawData.mk_built hd).range_some r hr
    obtain ⟨⟨v1, e1⟩, ⟨v2, e2⟩, ⟨v3, e3⟩, _⟩ := RawData.inside_ok hd (by rw [hdr]; exact hpos) (T := T) (by rw [hdr]; exact hin)
    obtain ⟨q, qs, hq⟩ := List.exists_cons_of_ne_nil hcp
    refine ⟨fun _ => ⟨v1, ?_⟩, fun hh => ?_, fun hs => ?_⟩
    · unfold Incomplete.CpoR; rw [hq, hc]; simp only [e1, convertErr_ok]
    · unfold Incomplete.HoRT; rw [hq, hc]
      cases h : c.Href with
      | none => exact absurd h hh
      | some v => exact ⟨v2, by simp only [e2, convertErr_ok]⟩
    · unfold Incomplete.SoR; rw [hq, hc]
      cases h : c.Sref with
      | none => exact absurd h hs
      | some v => exact ⟨v3, by simp only [e3, convertErr_ok]⟩

/-! ### sequential sums and `G = H − S` -/

theorem sumEval_warned (f : Incomplete → Out) (cs : List (Incomplete × Rat)) (acc : Rat) :
    Signalled (sumEval f cs acc true) := by
  induction cs generalizing acc with
  | nil => exact Signalled.of_warn
  | cons c cs ih =>
    obtain ⟨c, n⟩ := c
    unfold sumEval
    rcases h : f c with ⟨r, w'⟩
    cases r with
    | error e => exact Signalled.of_error
    | ok v => simpa using ih _

theorem sumEval_signalled (f : Incomplete → Out) (cs : List (Incomplete × Rat)) (acc : Rat) (w : Bool)
    (h : ∃ c ∈ cs, Signalled (f c.1)) : Signalled (sumEval f cs acc w) := by
  induction cs generalizing acc w with
  | nil => obtain ⟨c, hc, _⟩ := h; cases hc
  | cons c cs ih =>
    obtain ⟨c, n⟩ := c
    unfold sumEval
    rcases hf : f c with ⟨r, w'⟩
    cases r with
    | error e => exact Signalled.of_error
    | ok v =>
      simp only
      obtain ⟨c', hc', hs⟩ := h
      rcases List.mem_cons.mp hc' with rfl | hc'
      · rcases hs with ⟨e, he⟩ | hw
        · rw [hf] at he; cases he
        · rw [hf] at hw
          simp only at hw
          subst hw
          rw [Bool.or_true]
          exact sumEval_warned f cs _
      · exact ih _ _ ⟨c', hc', hs⟩

theorem sumEval_value (f : Incomplete → Out) (cs : List (Incomplete × Rat)) (acc : Rat) (w : Bool)
    (h : ∀ c ∈ cs, IsValue (f c.1)) : IsValue (sumEval f cs acc w) := by
  induction cs generalizing acc w with
  | nil => exact ⟨acc, rfl⟩
  | cons c cs ih =>
    obtain ⟨c, n⟩ := c
    unfold sumEval
    obtain ⟨v, hv⟩ := h (c, n) (List.mem_cons_self ..)
    rcases hf : f c with ⟨r, w'⟩
    rw [hf] at hv
    simp only at hv
    subst hv
    exact ih _ _ (fun c' hc' => h c' (List.mem_cons_of_mem _ hc'))

theorem gibbs_signalled {h : Out} (s : Unit → Out) (hs : Signalled h) : Signalled (gibbs h s) := by
  obtain ⟨r, w⟩ := h
  unfold gibbs
  cases r with
  | error e => exact Signalled.of_error
  | ok hv =>
    rcases hs with ⟨e, he⟩ | hw
    · cases he
    · simp only at hw; subst hw
      rcases s () with ⟨r', w'⟩
      cases r' with
      | error e => exact Signalled.of_error
      | ok sv => simp only [Bool.true_or]; exact Signalled.of_warn

theorem gibbs_value {h : Out} {s : Unit → Out} (hh : IsValue h) (hs : IsValue (s ())) :
    ∃ hv sv, h.1 = .ok hv ∧ (s ()).1 = .ok sv ∧ (gibbs h s).1 = .ok (hv - sv) := by
  obtain ⟨r, w⟩ := h
  obtain ⟨hv, e⟩ := hh
  simp only at e; subst e
  obtain ⟨sv, e'⟩ := hs
  refine ⟨hv, sv, rfl, e', ?_⟩
  unfold gibbs
  rcases hs' : s () with ⟨r', w'⟩
  rw [hs'] at e'
  simp only at e'; subst e'
  rfl

/-- what a successful construction of an estimate establishes -/
theorem Estimate.mk_ok {cs : List (Incomplete × Rat)} {e : Estimate} (hmk : Estimate.mk cs = .ok e) :
    e.cors = cs ∧ e.range = estRange (cs.map (fun c => c.1.range)) ∧ baseInitOk e.range = true := by
  simp only [Estimate.mk] at hmk
  split at hmk
  · cases hmk
  · rename_i hb
    simp only [Except.ok.injEq] at hmk; subst hmk
    exact ⟨rfl, rfl, by simpa using hb⟩

/-! ### the internal-error outcome is unreachable -/


theorem RawData.no_internal (d : RawData) (T : Rat) :
    d.CpoR T ≠ .error .internal ∧ d.HoRT T ≠ .error .internal ∧ d.SoR T ≠ .error .internal := by
  unfold RawData.CpoR RawData.HoRT RawData.SoR checkRange
  simp only
  refine ⟨?_, ?_, ?_⟩ <;> split_ifs <;> simp

theorem convertErr_internal {r : Except Err Rat} (h : r ≠ .error .internal) : convertErr r ≠ .error .internal := by
  unfold convertErr
  split
  · simp
  · exact h

/-- the `AttributeError` outcome (`_correlation` missing) is unreachable for constructed objects -/
theorem Incomplete.no_internal {c : Incomplete} (hw : c.WF) (T : Rat) :
    (c.CpoR T).1 ≠ .error .internal ∧ (c.HoRT T).1 ≠ .error .internal ∧ (c.SoR T).1 ≠ .error .internal := by
  by_cases hcp : c.cp = []
  · unfold Incomplete.CpoR Incomplete.HoRT Incomplete.SoR
    rw [hcp]
    refine ⟨by simp, ?_, ?_⟩
    · cases c.Href <;> simp
    · cases c.Sref <;> simp
  · obtain ⟨ip, d, _, hc⟩ := hw.hascp hcp
    obtain ⟨q, qs, hq⟩ := List.exists_cons_of_ne_nil hcp
    obtain ⟨n1, n2, n3⟩ := d.no_internal T
    unfold Incomplete.CpoR Incomplete.HoRT Incomplete.SoR
    rw [hq, hc]
    refine ⟨convertErr_internal n1, ?_, ?_⟩
    · cases c.Href with
      | none => simp
      | some h => exact convertErr_internal n2
    · cases c.Sref with
      | none => simp
      | some s => exact convertErr_internal n3

end PGA.Thermo
