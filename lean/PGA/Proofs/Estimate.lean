import PGA.Spec.Estimate
import Mathlib.Tactic.Ring
import Mathlib.Tactic.Linarith
import Mathlib.Algebra.BigOperators.Group.List.Basic
import Mathlib.Algebra.Order.Field.Rat
/-! Helper lemmas for C01 / C07 / C20 (model `PGA.Model.Estimate`). -/
namespace PGA.Estimate

/-! ### the weighted sum -/

theorem valD_ok {get : Corr → Val} {c : Corr} {w : Rat} (h : get c = .ok w) : valD get c = w := by
  simp [valD, h]

/-- value characterisation: the fold returns `v` iff every constituent has the datum and `v` is the sum -/
theorem wsumFrom_ok_iff (get : Corr → Val) (cs : List (Corr × Rat)) (acc v : Rat) :
    wsumFrom get acc cs = .ok v ↔ AllOk get cs ∧ v = acc + specSum get cs := by
  induction cs generalizing acc with
  | nil => simp [wsumFrom, AllOk, specSum]; exact eq_comm
  | cons p rest ih =>
    obtain ⟨c, n⟩ := p
    cases hg : get c with
    | error e =>
      simp only [wsumFrom, hg]
      constructor
      · intro h; cases h
      · rintro ⟨h, _⟩
        obtain ⟨w, hw⟩ := h (c, n) (by simp)
        simp [hg] at hw
    | ok w =>
      simp only [wsumFrom, hg]
      rw [ih]
      have hv : valD get c = w := valD_ok hg
      constructor
      · rintro ⟨h1, h2⟩
        refine ⟨?_, ?_⟩
        · intro p hp
          rcases List.mem_cons.mp hp with rfl | hp
          · exact ⟨w, hg⟩
          · exact h1 p hp
        · simp only [specSum, List.map_cons, List.sum_cons, hv] at h2 ⊢
          rw [h2]; ring
      · rintro ⟨h1, h2⟩
        refine ⟨fun p hp => h1 p (List.mem_cons_of_mem _ hp), ?_⟩
        simp only [specSum, List.map_cons, List.sum_cons, hv] at h2 ⊢
        rw [h2]; ring

theorem wsum_ok_iff (get : Corr → Val) (cs : List (Corr × Rat)) (v : Rat) :
    wsum get cs = .ok v ↔ AllOk get cs ∧ v = specSum get cs := by
  rw [wsum, wsumFrom_ok_iff]; simp

/-- error characterisation: the fold fails with `e` iff the first constituent without the datum fails with `e` -/
theorem wsumFrom_error_iff (get : Corr → Val) (cs : List (Corr × Rat)) (acc : Rat) (e : Err) :
    wsumFrom get acc cs = .error e ↔
      ∃ pre p post, cs = pre ++ p :: post ∧ AllOk get pre ∧ get p.1 = .error e := by
  induction cs generalizing acc with
  | nil => simp [wsumFrom]
  | cons p rest ih =>
    obtain ⟨c, n⟩ := p
    cases hg : get c with
    | error e' =>
      simp only [wsumFrom, hg]
      constructor
      · intro h
        cases h
        exact ⟨[], (c, n), rest, rfl, by simp [AllOk], hg⟩
      · rintro ⟨pre, p, post, hcs, hpre, hp⟩
        cases pre with
        | nil =>
          simp only [List.nil_append, List.cons.injEq] at hcs
          obtain ⟨rfl, _⟩ := hcs
          rw [hg] at hp; exact hp
        | cons q pre' =>
          simp only [List.cons_append, List.cons.injEq] at hcs
          obtain ⟨rfl, _⟩ := hcs
          obtain ⟨w, hw⟩ := hpre (c, n) (by simp)
          simp [hg] at hw
    | ok w =>
      simp only [wsumFrom, hg]
      rw [ih]
      constructor
      · rintro ⟨pre, p, post, rfl, hpre, hp⟩
        refine ⟨(c, n) :: pre, p, post, rfl, ?_, hp⟩
        intro q hq
        rcases List.mem_cons.mp hq with rfl | hq
        · exact ⟨w, hg⟩
        · exact hpre q hq
      · rintro ⟨pre, p, post, hcs, hpre, hp⟩
        cases pre with
        | nil =>
          simp only [List.nil_append, List.cons.injEq] at hcs
          obtain ⟨rfl, _⟩ := hcs
          simp [hg] at hp
        | cons q pre' =>
          simp only [List.cons_append, List.cons.injEq] at hcs
          obtain ⟨rfl, rfl⟩ := hcs
          exact ⟨pre', p, post, rfl, fun r hr => hpre r (List.mem_cons_of_mem _ hr), hp⟩

theorem wsum_error_iff (get : Corr → Val) (cs : List (Corr × Rat)) (e : Err) :
    wsum get cs = .error e ↔ ∃ pre p post, cs = pre ++ p :: post ∧ AllOk get pre ∧ get p.1 = .error e :=
  wsumFrom_error_iff get cs 0 e

theorem allOk_append {get : Corr → Val} {a b : List (Corr × Rat)} :
    AllOk get (a ++ b) ↔ AllOk get a ∧ AllOk get b := by
  simp only [AllOk, List.mem_append]
  constructor
  · intro h; exact ⟨fun p hp => h p (Or.inl hp), fun p hp => h p (Or.inr hp)⟩
  · rintro ⟨h1, h2⟩ p (hp | hp)
    · exact h1 p hp
    · exact h2 p hp

theorem specSum_append (get : Corr → Val) (a b : List (Corr × Rat)) :
    specSum get (a ++ b) = specSum get a + specSum get b := by
  simp [specSum]

theorem allOk_perm {get : Corr → Val} {a b : List (Corr × Rat)} (h : a.Perm b) : AllOk get a ↔ AllOk get b := by
  simp only [AllOk]
  constructor
  · intro ha p hp; exact ha p (h.mem_iff.mpr hp)
  · intro hb p hp; exact hb p (h.mem_iff.mp hp)

theorem specSum_perm (get : Corr → Val) {a b : List (Corr × Rat)} (h : a.Perm b) : specSum get a = specSum get b := by
  unfold specSum
  exact (h.map _).sum_eq

/-- the result does not depend on the order of the terms (value or "some error") -/
theorem wsum_perm (get : Corr → Val) {a b : List (Corr × Rat)} (h : a.Perm b) (v : Rat) :
    wsum get a = .ok v ↔ wsum get b = .ok v := by
  rw [wsum_ok_iff, wsum_ok_iff, allOk_perm h, specSum_perm get h]

theorem wsum_append (get : Corr → Val) (a b : List (Corr × Rat)) (v : Rat) :
    wsum get (a ++ b) = .ok v ↔ ∃ va vb, wsum get a = .ok va ∧ wsum get b = .ok vb ∧ v = va + vb := by
  simp only [wsum_ok_iff, allOk_append, specSum_append]
  constructor
  · rintro ⟨⟨ha, hb⟩, rfl⟩; exact ⟨_, _, ⟨ha, rfl⟩, ⟨hb, rfl⟩, rfl⟩
  · rintro ⟨va, vb, ⟨ha, rfl⟩, ⟨hb, rfl⟩, rfl⟩; exact ⟨⟨ha, hb⟩, rfl⟩

theorem specSum_scale (get : Corr → Val) (k : Rat) (cs : List (Corr × Rat)) :
    specSum get (cs.map fun p => (p.1, k * p.2)) = k * specSum get cs := by
  induction cs with
  | nil => simp [specSum]
  | cons p rest ih =>
    simp only [specSum, List.map_cons, List.sum_cons, List.map_map] at ih ⊢
    rw [ih]; ring

theorem allOk_scale {get : Corr → Val} (k : Rat) (cs : List (Corr × Rat)) :
    AllOk get (cs.map fun p => (p.1, k * p.2)) ↔ AllOk get cs := by
  simp only [AllOk, List.mem_map]
  constructor
  · intro h p hp; exact h (p.1, k * p.2) ⟨p, hp, rfl⟩
  · rintro h _ ⟨p, hp, rfl⟩; exact h p hp

theorem wsum_scale (get : Corr → Val) (k : Rat) (cs : List (Corr × Rat)) (v : Rat) (h : wsum get cs = .ok v) :
    wsum get (cs.map fun p => (p.1, k * p.2)) = .ok (k * v) := by
  rw [wsum_ok_iff] at h ⊢
  obtain ⟨h1, rfl⟩ := h
  exact ⟨(allOk_scale k cs).mpr h1, (specSum_scale get k cs).symm⟩

/-! ### `Estimate`: the check, the terms -/
section
variable {N S : Type} [DecidableEq N] [DecidableEq S]

theorem missingGroups_eq_spec (lib : Library N S) (s : S) (gs : List (N × Rat)) :
    missingGroups lib s gs = specMissing lib s gs := by
  unfold missingGroups specMissing
  rw [List.filter_map]
  congr 1
  apply List.filter_congr
  intro g _
  simp [Library.hasSet, corrOf, Function.comp]

theorem specMissing_nil_iff (lib : Library N S) (s : S) (gs : List (N × Rat)) :
    specMissing lib s gs = [] ↔ ∀ g ∈ gs, ∃ c, corrOf lib s g.1 = some c := by
  unfold specMissing
  rw [List.filter_eq_nil_iff]
  simp only [List.mem_map, forall_exists_index, and_imp, forall_apply_eq_imp_iff₂]
  constructor
  · intro h g hg
    have := h g hg
    cases hc : corrOf lib s g.1 with
    | none => simp [hc] at this
    | some c => exact ⟨c, rfl⟩
  · intro h g hg
    obtain ⟨c, hc⟩ := h g hg
    simp [hc]

theorem collect_error (lib : Library N S) (s : S) (gs : List (N × Rat)) (e : EstErr N)
    (h : collect lib s gs = .error e) : e = .keyError ∧ specMissing lib s gs ≠ [] := by
  induction gs with
  | nil => simp [collect] at h
  | cons g rest ih =>
    obtain ⟨g, n⟩ := g
    unfold collect at h
    split at h
    · rename_i hl
      cases h
      refine ⟨rfl, ?_⟩
      intro hm
      obtain ⟨c, hc⟩ := (specMissing_nil_iff lib s _).mp hm (g, n) (by simp)
      simp [corrOf, hl] at hc
    · split at h
      · rename_i e' he'
        cases h
        obtain ⟨h1, h2⟩ := ih he'
        refine ⟨h1, ?_⟩
        intro hm
        apply h2
        rw [specMissing_nil_iff] at hm ⊢
        exact fun g hg => hm g (List.mem_cons_of_mem _ hg)
      · cases h

theorem collect_ok (lib : Library N S) (s : S) (gs : List (N × Rat)) (cs : List (Corr × Rat))
    (h : collect lib s gs = .ok cs) : Terms lib s gs cs := by
  induction gs generalizing cs with
  | nil => simp [collect] at h; subst h; trivial
  | cons g rest ih =>
    obtain ⟨g, n⟩ := g
    unfold collect at h
    split at h
    · cases h
    · rename_i c hl
      split at h
      · cases h
      · rename_i cs' hcs'
        cases h
        exact ⟨hl, rfl, ih cs' hcs'⟩

theorem collect_of_noMissing (lib : Library N S) (s : S) (gs : List (N × Rat))
    (h : specMissing lib s gs = []) : ∃ cs, collect lib s gs = .ok cs := by
  cases hc : collect lib s gs with
  | ok cs => exact ⟨cs, rfl⟩
  | error e => exact absurd h (collect_error lib s gs e hc).2

theorem finish_ok {N : Type} (name : Option (List Nat)) (cs : List (Corr × Rat)) (uq : Option UQE) (e : Estimator)
    (h : finish (N := N) name cs uq = .ok e) :
    e.correlations = cs ∧ e.name = name ∧ e.range = commonRange cs ∧ e.uq = uq := by
  unfold finish at h
  split at h
  · rename_i hr; cases h; exact ⟨rfl, rfl, hr.symm, rfl⟩
  · rename_i lo hi hr
    split at h
    · cases h; exact ⟨rfl, rfl, hr.symm, rfl⟩
    · cases h

theorem finish_error {N : Type} (name : Option (List Nat)) (cs : List (Corr × Rat)) (uq : Option UQE) (err : EstErr N)
    (h : finish name cs uq = .error err) : err = .emptyRange := by
  unfold finish at h
  split at h
  · cases h
  · split at h
    · cases h
    · cases h; rfl

theorem placeX_error (basis : List N) (gs : List (N × Rat)) (x : List Rat) (err : EstErr N)
    (h : placeX basis gs x = .error err) : ∃ g, err = .notInBasis g := by
  induction gs generalizing x with
  | nil => simp [placeX] at h
  | cons g rest ih =>
    obtain ⟨g, n⟩ := g
    unfold placeX at h
    split at h
    · cases h; exact ⟨g, rfl⟩
    · exact ih _ h

theorem buildUQ_error (u : UQ N) (gs : List (N × Rat)) (err : EstErr N)
    (h : buildUQ u gs = .error err) : (∃ g, err = .notInBasis g) ∨ err = .shape := by
  unfold buildUQ at h
  split at h
  · rename_i e he; cases h; exact Or.inl (placeX_error _ _ _ _ he)
  · split at h
    · cases h
    · cases h; exact Or.inr rfl

theorem uqPart_error (lib : Library N S) (gs : List (N × Rat)) (err : EstErr N)
    (h : uqPart lib gs = .error err) : (∃ g, err = .notInBasis g) ∨ err = .shape := by
  unfold uqPart at h
  split at h
  · cases h
  · split at h
    · rename_i e he; cases h; exact buildUQ_error _ _ _ he
    · cases h

/-- the constructor succeeds exactly when its three stages do -/
theorem construct_ok_iff (lib : Library N S) (s : S) (gs : List (N × Rat)) (e : Estimator) :
    construct lib s gs = .ok e ↔
      ∃ cs uq, collect lib s gs = .ok cs ∧ uqPart lib gs = .ok uq ∧ finish (N := N) lib.name cs uq = .ok e := by
  unfold construct
  split
  · rename_i e' he'
    simp [he']
  · rename_i cs hcs
    split
    · rename_i e' he'
      simp [hcs, he']
    · rename_i uq huq
      simp [hcs, huq]

/-- what a successful constructor call fixes -/
theorem construct_ok (lib : Library N S) (s : S) (gs : List (N × Rat)) (e : Estimator)
    (h : construct lib s gs = .ok e) :
    collect lib s gs = .ok e.correlations ∧ e.name = lib.name ∧ e.range = commonRange e.correlations := by
  obtain ⟨cs, uq, hcs, _, hf⟩ := (construct_ok_iff lib s gs e).mp h
  obtain ⟨h1, h2, h3, _⟩ := finish_ok _ _ _ _ hf
  rw [h1]; exact ⟨hcs, h2, h3⟩

theorem construct_error (lib : Library N S) (s : S) (gs : List (N × Rat)) (err : EstErr N)
    (h : construct lib s gs = .error err) (hm : specMissing lib s gs = []) :
    (∃ g, err = .notInBasis g) ∨ err = .shape ∨ err = .emptyRange := by
  unfold construct at h
  split at h
  · rename_i e he
    exact absurd hm (collect_error lib s gs e he).2
  · split at h
    · rename_i e he
      cases h
      rcases uqPart_error _ _ _ he with h | h
      · exact Or.inl h
      · exact Or.inr (Or.inl h)
    · exact Or.inr (Or.inr (finish_error _ _ _ _ h))

theorem terms_allOk_iff (lib : Library N S) (s : S) (get : Corr → Val) (gs : List (N × Rat)) (cs : List (Corr × Rat))
    (ht : Terms lib s gs cs) : AllOk get cs ↔ ∀ g ∈ gs, HasDatum lib s get g.1 := by
  induction gs generalizing cs with
  | nil =>
    cases cs with
    | nil => simp [AllOk]
    | cons c cs => simp [Terms] at ht
  | cons g rest ih =>
    cases cs with
    | nil => simp [Terms] at ht
    | cons c cs =>
      obtain ⟨h1, h2, h3⟩ := ht
      have ih := ih cs h3
      simp only [AllOk, List.mem_cons, forall_eq_or_imp] at ih ⊢
      rw [ih]
      constructor
      · rintro ⟨⟨w, hw⟩, hr⟩; exact ⟨⟨c.1, w, h1, hw⟩, hr⟩
      · rintro ⟨⟨c', w, hc', hw⟩, hr⟩
        rw [h1] at hc'; cases hc'
        exact ⟨⟨w, hw⟩, hr⟩

theorem terms_specSum (lib : Library N S) (s : S) (get : Corr → Val) (gs : List (N × Rat)) (cs : List (Corr × Rat))
    (ht : Terms lib s gs cs) : specSum get cs = specEstimate lib s get gs := by
  induction gs generalizing cs with
  | nil =>
    cases cs with
    | nil => simp [specSum, specEstimate]
    | cons c cs => simp [Terms] at ht
  | cons g rest ih =>
    cases cs with
    | nil => simp [Terms] at ht
    | cons c cs =>
      obtain ⟨h1, h2, h3⟩ := ht
      have ih := ih cs h3
      simp only [specSum, specEstimate, List.map_cons, List.sum_cons] at ih ⊢
      rw [ih, valOf, h1, h2]

/-- splitting the terms where the mapping splits -/
theorem terms_split (lib : Library N S) (s : S) (gs : List (N × Rat)) (pre : List (Corr × Rat)) (p : Corr × Rat)
    (post : List (Corr × Rat)) (ht : Terms lib s gs (pre ++ p :: post)) :
    ∃ gpre g gpost, gs = gpre ++ g :: gpost ∧ Terms lib s gpre pre ∧ corrOf lib s g.1 = some p.1 ∧ Terms lib s gpost post := by
  induction pre generalizing gs with
  | nil =>
    cases gs with
    | nil => simp [Terms] at ht
    | cons g rest =>
      obtain ⟨h1, _, h3⟩ := ht
      exact ⟨[], g, rest, rfl, trivial, h1, h3⟩
  | cons q pre ih =>
    cases gs with
    | nil => simp [Terms] at ht
    | cons g rest =>
      obtain ⟨h1, h2, h3⟩ := ht
      obtain ⟨gpre, g', gpost, rfl, t1, t2, t3⟩ := ih rest h3
      exact ⟨g :: gpre, g', gpost, rfl, ⟨h1, h2, t1⟩, t2, t3⟩

theorem terms_append (lib : Library N S) (s : S) (g1 g2 : List (N × Rat)) (c1 c2 : List (Corr × Rat))
    (h1 : Terms lib s g1 c1) (h2 : Terms lib s g2 c2) : Terms lib s (g1 ++ g2) (c1 ++ c2) := by
  induction g1 generalizing c1 with
  | nil =>
    cases c1 with
    | nil => simpa using h2
    | cons c cs => simp [Terms] at h1
  | cons g rest ih =>
    cases c1 with
    | nil => simp [Terms] at h1
    | cons c cs =>
      obtain ⟨a, b, t⟩ := h1
      exact ⟨a, b, ih cs t⟩

theorem estimate_ok_iff (reg : List S) (lib : Library N S) (gs : List (N × Rat)) (s : S) (e : Estimator) :
    estimate reg lib gs s = .ok e ↔
      reg.contains s = true ∧ specMissing lib s gs = [] ∧ construct lib s gs = .ok e := by
  unfold estimate
  rw [missingGroups_eq_spec]
  split
  · rename_i hr
    split
    · rename_i hm; simp only [hm, true_and]; exact ⟨fun h => ⟨hr, h⟩, fun h => h.2⟩
    · rename_i m ms hm; simp [hm]
  · rename_i hr; simp only [reduceCtorEq, false_iff, not_and]; exact fun h => absurd h hr

/-! ### order of the mapping -/

theorem pyMax_eq_max (a b : Rat) : pyMax a b = max a b := by
  unfold pyMax
  split
  · rename_i h; exact (max_eq_right (le_of_lt h)).symm
  · rename_i h; exact (max_eq_left (not_lt.mp h)).symm

theorem pyMin_eq_min (a b : Rat) : pyMin a b = min a b := by
  unfold pyMin
  split
  · rename_i h; exact (min_eq_right (le_of_lt h)).symm
  · rename_i h; exact (min_eq_left (not_lt.mp h)).symm

theorem interRange_right_comm (acc a b : Option (Rat × Rat)) :
    interRange (interRange acc a) b = interRange (interRange acc b) a := by
  rcases acc with _ | ⟨lo, hi⟩ <;> rcases a with _ | ⟨a1, a2⟩ <;> rcases b with _ | ⟨b1, b2⟩ <;>
    simp only [interRange, pyMax_eq_max, pyMin_eq_min, Option.some.injEq, Prod.mk.injEq]
  · exact ⟨max_comm _ _, min_comm _ _⟩
  · exact ⟨max_right_comm _ _ _, min_right_comm _ _ _⟩

instance : RightCommutative (fun (acc : Option (Rat × Rat)) (c : Corr × Rat) => interRange acc c.1.range) :=
  ⟨fun acc a b => interRange_right_comm acc a.1.range b.1.range⟩

theorem commonRange_perm {a b : List (Corr × Rat)} (h : a.Perm b) : commonRange a = commonRange b := by
  unfold commonRange
  exact h.foldl_eq _

/-- a total version of `corrOf` (only used where the property set exists) -/
def corrD (lib : Library N S) (s : S) (g : N) : Corr :=
  match corrOf lib s g with
  | some c => c
  | none => ⟨fun _ => .error .internal, fun _ => .error .internal, fun _ => .error .internal, none⟩

theorem terms_eq_map (lib : Library N S) (s : S) (gs : List (N × Rat)) (cs : List (Corr × Rat))
    (ht : Terms lib s gs cs) : cs = gs.map fun g => (corrD lib s g.1, g.2) := by
  induction gs generalizing cs with
  | nil =>
    cases cs with
    | nil => rfl
    | cons c cs => simp [Terms] at ht
  | cons g rest ih =>
    cases cs with
    | nil => simp [Terms] at ht
    | cons c cs =>
      obtain ⟨h1, h2, h3⟩ := ht
      rw [List.map_cons, ← ih cs h3]
      congr 1
      simp only [corrD, h1, h2]

theorem specMissing_perm (lib : Library N S) (s : S) {gs gs' : List (N × Rat)} (h : gs.Perm gs')
    (hm : specMissing lib s gs = []) : specMissing lib s gs' = [] := by
  rw [specMissing_nil_iff] at hm ⊢
  exact fun g hg => hm g (h.mem_iff.mpr hg)

theorem placeX_ok_iff (basis : List N) (gs : List (N × Rat)) (x : List Rat) :
    (∃ y, placeX basis gs x = .ok y) ↔ ∀ g ∈ gs, g.1 ∈ basis := by
  induction gs generalizing x with
  | nil => simp [placeX]
  | cons g rest ih =>
    obtain ⟨g, n⟩ := g
    unfold placeX
    split
    · rename_i hi
      simp only [reduceCtorEq, exists_false, List.mem_cons, forall_eq_or_imp, false_iff, not_and]
      intro hg
      rw [List.idxOf?, List.findIdx?_eq_none_iff] at hi
      have := hi g hg
      simp at this
    · rename_i i hi
      rw [ih]
      simp only [List.mem_cons, forall_eq_or_imp, iff_and_self]
      intro _
      rw [List.idxOf?] at hi
      obtain ⟨h1, h2⟩ := List.findIdx?_eq_some_iff_getElem.mp hi
      simp only [beq_iff_eq] at h2
      rw [← h2.1]
      exact List.getElem_mem h1

theorem placeX_length (basis : List N) (gs : List (N × Rat)) (x y : List Rat)
    (h : placeX basis gs x = .ok y) : y.length = x.length := by
  induction gs generalizing x with
  | nil => simp [placeX] at h; rw [h]
  | cons g rest ih =>
    obtain ⟨g, n⟩ := g
    unfold placeX at h
    split at h
    · cases h
    · rw [ih _ h, List.length_set]

theorem buildUQ_ok_iff (u : UQ N) (gs : List (N × Rat)) :
    (∃ q, buildUQ u gs = .ok q) ↔ (∀ g ∈ gs, g.1 ∈ u.basis) ∧ shapeOK u.basis.length u.mat = true := by
  unfold buildUQ
  constructor
  · rintro ⟨q, h⟩
    split at h
    · cases h
    · rename_i x hx
      split at h
      · rename_i hs; exact ⟨(placeX_ok_iff _ _ _).mp ⟨x, hx⟩, hs⟩
      · cases h
  · rintro ⟨h1, h2⟩
    obtain ⟨x, hx⟩ := (placeX_ok_iff u.basis gs (zeros u.basis.length)).mpr h1
    simp [hx, h2]

theorem uqPart_ok_perm (lib : Library N S) {gs gs' : List (N × Rat)} (h : gs.Perm gs')
    (hu : ∃ q, uqPart lib gs = .ok q) : ∃ q, uqPart lib gs' = .ok q := by
  unfold uqPart at hu ⊢
  split
  · exact ⟨_, rfl⟩
  · rename_i u hu'
    simp only [hu'] at hu
    have : ∃ q, buildUQ u gs = .ok q := by
      obtain ⟨q, hq⟩ := hu
      split at hq
      · cases hq
      · rename_i q' hq'; exact ⟨q', hq'⟩
    obtain ⟨h1, h2⟩ := (buildUQ_ok_iff u gs).mp this
    obtain ⟨q', hq'⟩ := (buildUQ_ok_iff u gs').mpr ⟨fun g hg => h1 g (h.mem_iff.mpr hg), h2⟩
    simp [hq']

theorem finish_ok_of_range {N : Type} (name : Option (List Nat)) (cs cs' : List (Corr × Rat)) (uq uq' : Option UQE)
    (e : Estimator) (hr : commonRange cs' = commonRange cs) (h : finish (N := N) name cs uq = .ok e) :
    ∃ e', finish (N := N) name cs' uq' = .ok e' := by
  unfold finish at h ⊢
  rw [hr]
  split at h
  · simp
  · rename_i lo hi h0
    split at h
    · rename_i hle; simp [hle]
    · cases h

/-- `Estimate` succeeds for a mapping iff it succeeds for any reordering of it, and the terms are reordered alike -/
theorem estimate_perm (reg : List S) (lib : Library N S) {gs gs' : List (N × Rat)} (s : S) (e : Estimator)
    (hp : gs.Perm gs') (he : estimate reg lib gs s = .ok e) :
    ∃ e', estimate reg lib gs' s = .ok e' ∧ e'.correlations.Perm e.correlations ∧ e'.name = e.name ∧ e'.range = e.range := by
  obtain ⟨hr, hm, hc⟩ := (estimate_ok_iff reg lib gs s e).mp he
  obtain ⟨cs, uq, hcs, huq, hf⟩ := (construct_ok_iff lib s gs e).mp hc
  have hm' := specMissing_perm lib s hp hm
  obtain ⟨cs', hcs'⟩ := collect_of_noMissing lib s gs' hm'
  obtain ⟨uq', huq'⟩ := uqPart_ok_perm lib hp ⟨uq, huq⟩
  have e1 := terms_eq_map lib s gs cs (collect_ok lib s gs cs hcs)
  have e2 := terms_eq_map lib s gs' cs' (collect_ok lib s gs' cs' hcs')
  have hperm : cs'.Perm cs := by rw [e1, e2]; exact (hp.map _).symm
  obtain ⟨e', hf'⟩ := finish_ok_of_range (N := N) lib.name cs cs' uq uq' e (commonRange_perm hperm) hf
  refine ⟨e', (estimate_ok_iff reg lib gs' s e').mpr ⟨hr, hm', (construct_ok_iff lib s gs' e').mpr ⟨cs', uq', hcs', huq', hf'⟩⟩, ?_⟩
  obtain ⟨a1, a2, a3, _⟩ := finish_ok _ _ _ _ hf
  obtain ⟨b1, b2, b3, _⟩ := finish_ok _ _ _ _ hf'
  rw [a1, b1, a2, b2, a3, b3]
  exact ⟨hperm, rfl, commonRange_perm hperm⟩

/-! ### the range of the estimate -/

theorem interRange_none_iff (acc r : Option (Rat × Rat)) : interRange acc r = none ↔ acc = none ∧ r = none := by
  rcases acc with _ | ⟨lo, hi⟩ <;> rcases r with _ | ⟨a, b⟩ <;> simp [interRange]

/-- folding the intersection only shrinks the interval, and the result lies inside every range folded in -/
theorem foldRange_spec (cs : List (Corr × Rat)) (acc : Option (Rat × Rat)) :
    match cs.foldl (fun acc c => interRange acc c.1.range) acc with
    | none => acc = none ∧ ∀ c ∈ cs, c.1.range = none
    | some (lo, hi) =>
      (∀ a b, acc = some (a, b) → a ≤ lo ∧ hi ≤ b) ∧ ∀ c ∈ cs, ∀ a b, c.1.range = some (a, b) → a ≤ lo ∧ hi ≤ b := by
  induction cs generalizing acc with
  | nil =>
    rcases acc with _ | ⟨lo, hi⟩
    · simp
    · simp only [List.foldl_nil, Option.some.injEq, Prod.mk.injEq, and_imp, List.not_mem_nil, false_imp_iff, implies_true,
        and_true]
      rintro a b rfl rfl; exact ⟨le_refl _, le_refl _⟩
  | cons c rest ih =>
    simp only [List.foldl_cons]
    have ih := ih (interRange acc c.1.range)
    split
    · rename_i h
      rw [h] at ih
      obtain ⟨h1, h2⟩ := ih
      obtain ⟨h3, h4⟩ := (interRange_none_iff _ _).mp h1
      refine ⟨h3, ?_⟩
      intro c' hc'
      rcases List.mem_cons.mp hc' with rfl | hc'
      · exact h4
      · exact h2 c' hc'
    · rename_i lo hi h
      rw [h] at ih
      obtain ⟨h1, h2⟩ := ih
      constructor
      · rintro a b rfl
        rcases hr : c.1.range with _ | ⟨a', b'⟩
        · exact h1 a b (by simp [interRange, hr])
        · obtain ⟨x, y⟩ := h1 (pyMax a a') (pyMin b b') (by simp [interRange, hr])
          rw [pyMax_eq_max] at x; rw [pyMin_eq_min] at y
          exact ⟨le_trans (le_max_left _ _) x, le_trans y (min_le_left _ _)⟩
      · intro c' hc' a b hab
        rcases List.mem_cons.mp hc' with rfl | hc'
        · rcases acc with _ | ⟨lo0, hi0⟩
          · exact h1 a b (by simp [interRange, hab])
          · obtain ⟨x, y⟩ := h1 (pyMax lo0 a) (pyMin hi0 b) (by simp [interRange, hab])
            rw [pyMax_eq_max] at x; rw [pyMin_eq_min] at y
            exact ⟨le_trans (le_max_right _ _) x, le_trans y (min_le_right _ _)⟩
        · exact h2 c' hc' a b hab

/-! ### `get_SoR` / `get_GoRT` as relations -/

/-- without the elemental term, `get_SoR` is the plain weighted sum -/
theorem SoR_plain (sel : Nat → Option Rat) (e : Estimator) (T : Rat) (flag : PyFlag) (hf : flag.truthy = false) :
    e.SoR sel T flag = wsum (·.sor T) e.correlations := by
  unfold Estimator.SoR
  simp only [hf, Bool.false_eq_true, if_false]
  cases wsum (fun x => x.sor T) e.correlations with
  | error err => rfl
  | ok v => simp

omit [DecidableEq N] in
theorem sum_sub_sum (gs : List (N × Rat)) (a b : N → Rat) :
    (gs.map fun g => g.2 * a g.1).sum - (gs.map fun g => g.2 * b g.1).sum
      = (gs.map fun g => g.2 * (a g.1 - b g.1)).sum := by
  induction gs with
  | nil => simp
  | cons g rest ih => simp only [List.map_cons, List.sum_cons]; rw [← ih]; ring



theorem SoR_ok_iff (sel : Nat → Option Rat) (e : Estimator) (T : Rat) (flag : PyFlag) (v : Rat) :
    e.SoR sel T flag = .ok v ↔
      ∃ sele s, (if flag.truthy then selements sel e.name else .ok 0) = .ok sele ∧
        wsum (·.sor T) e.correlations = .ok s ∧ v = s - sele := by
  unfold Estimator.SoR
  cases h1 : (if flag.truthy = true then selements sel e.name else Except.ok 0) with
  | error err => simp
  | ok sele =>
    cases h2 : wsum (fun x => x.sor T) e.correlations with
    | error err => simp
    | ok s =>
      simp only [Except.ok.injEq, exists_and_left, exists_eq_left']
      exact eq_comm

theorem GoRT_ok_iff (o : ND) (T : Rat) (flag : PyFlag) (v : Rat) :
    o.GoRT T flag = .ok v ↔ ∃ h s, o.hort T = .ok h ∧ o.sor T flag = .ok s ∧ v = h - s := by
  unfold ND.GoRT
  cases h1 : o.hort T with
  | error err => simp
  | ok h =>
    cases h2 : o.sor T flag with
    | error err => simp
    | ok s =>
      simp only [Except.ok.injEq, exists_and_left, exists_eq_left']
      exact eq_comm

/-! ### the dimensional getters as relations -/

omit [DecidableEq N] [DecidableEq S] in
theorem lookupR_ok_iff (R : RTable) (u : UnitStr) (r : Rat) : lookupR R u = .ok r ↔ R.lookup u = some r := by
  unfold lookupR
  cases R.lookup u <;> simp

omit [DecidableEq N] [DecidableEq S] in
theorem H_ok_iff (R : RTable) (o : ND) (T : Rat) (u : UnitStr) (v : Rat) :
    o.H R T u = .ok v ↔ ∃ h r, o.hort T = .ok h ∧ R.lookup (perK u) = some r ∧ v = h * T * r := by
  unfold ND.H
  cases h1 : o.hort T with
  | error err => simp
  | ok h =>
    cases h2 : lookupR R (perK u) with
    | error err =>
      have : R.lookup (perK u) = none := by
        unfold lookupR at h2; cases h3 : R.lookup (perK u) <;> simp [h3] at h2 ⊢
      simp [this]
    | ok r =>
      rw [lookupR_ok_iff] at h2
      simp only [Except.ok.injEq, h2, Option.some.injEq, exists_and_left, exists_eq_left']
      exact eq_comm

omit [DecidableEq N] [DecidableEq S] in
theorem G_ok_iff (R : RTable) (o : ND) (T : Rat) (u : UnitStr) (flag : PyFlag) (v : Rat) :
    o.G R T u flag = .ok v ↔ ∃ g r, o.GoRT T flag = .ok g ∧ R.lookup (perK u) = some r ∧ v = g * T * r := by
  unfold ND.G
  cases h1 : o.GoRT T flag with
  | error err => simp
  | ok h =>
    cases h2 : lookupR R (perK u) with
    | error err =>
      have : R.lookup (perK u) = none := by
        unfold lookupR at h2; cases h3 : R.lookup (perK u) <;> simp [h3] at h2 ⊢
      simp [this]
    | ok r =>
      rw [lookupR_ok_iff] at h2
      simp only [Except.ok.injEq, h2, Option.some.injEq, exists_and_left, exists_eq_left']
      exact eq_comm

omit [DecidableEq N] [DecidableEq S] in
theorem S_ok_iff (R : RTable) (o : ND) (T : Rat) (u : UnitStr) (flag : PyFlag) (v : Rat) :
    o.Sdim R T u flag = .ok v ↔ ∃ s r, o.sor T flag = .ok s ∧ R.lookup u = some r ∧ v = s * r := by
  unfold ND.Sdim
  cases h1 : o.sor T flag with
  | error err => simp
  | ok h =>
    cases h2 : lookupR R u with
    | error err =>
      have : R.lookup u = none := by
        unfold lookupR at h2; cases h3 : R.lookup u <;> simp [h3] at h2 ⊢
      simp [this]
    | ok r =>
      rw [lookupR_ok_iff] at h2
      simp only [Except.ok.injEq, h2, Option.some.injEq, exists_and_left, exists_eq_left']
      exact eq_comm

omit [DecidableEq N] [DecidableEq S] in
theorem Cp_ok_iff (R : RTable) (o : ND) (T : Rat) (u : UnitStr) (v : Rat) :
    o.Cp R T u = .ok v ↔ ∃ c r, o.cp T = .ok c ∧ R.lookup u = some r ∧ v = c * r := by
  unfold ND.Cp
  cases h1 : o.cp T with
  | error err => simp
  | ok h =>
    cases h2 : lookupR R u with
    | error err =>
      have : R.lookup u = none := by
        unfold lookupR at h2; cases h3 : R.lookup u <;> simp [h3] at h2 ⊢
      simp [this]
    | ok r =>
      rw [lookupR_ok_iff] at h2
      simp only [Except.ok.injEq, h2, Option.some.injEq, exists_and_left, exists_eq_left']
      exact eq_comm

/-- `Σ_atoms Sel(Z)` as a plain sum (0 for an element without an entry; only used when every atom has one) -/
def selD (sel : Nat → Option Rat) (z : Nat) : Rat := match sel z with | some v => v | none => 0

omit [DecidableEq N] [DecidableEq S] in
theorem selSumFrom_ok_iff (sel : Nat → Option Rat) (acc : Rat) (atoms : List Nat) (v : Rat) :
    selSumFrom sel acc atoms = .ok v ↔ (∀ z ∈ atoms, ∃ w, sel z = some w) ∧ v = acc + (atoms.map (selD sel)).sum := by
  induction atoms generalizing acc with
  | nil => simp [selSumFrom]; exact eq_comm
  | cons z zs ih =>
    unfold selSumFrom
    cases hz : sel z with
    | none => simp [hz]
    | some w =>
      simp only [ih, List.mem_cons, forall_eq_or_imp, hz, Option.some.injEq, exists_eq', true_and, List.map_cons,
        List.sum_cons, selD]
      constructor
      · rintro ⟨h, rfl⟩; exact ⟨h, by ring⟩
      · rintro ⟨h, rfl⟩; exact ⟨h, by ring⟩

/-! ### the estimate as a sum, reorderings -/

/-- T1 with the constituents' values named by a function `h`. -/
theorem estimate_sum (get : Corr → Val) (reg : List S) (lib : Library N S) (gs : List (N × Rat)) (s : S)
    (e : Estimator) (he : estimate reg lib gs s = .ok e) (h : N → Rat)
    (hv : ∀ g ∈ gs, ∃ c, corrOf lib s g.1 = some c ∧ get c = .ok (h g.1)) :
    wsum get e.correlations = .ok ((gs.map fun g => g.2 * h g.1).sum) := by
  have ht : Terms lib s gs e.correlations := by
    obtain ⟨_, _, hc⟩ := (estimate_ok_iff reg lib gs s e).mp he
    exact collect_ok lib s gs _ (construct_ok lib s gs e hc).1
  rw [wsum_ok_iff, terms_allOk_iff lib s get gs _ ht, terms_specSum lib s get gs _ ht]
  refine ⟨fun g hg => ?_, ?_⟩
  · obtain ⟨c, hc, hw⟩ := hv g hg; exact ⟨c, _, hc, hw⟩
  · unfold specEstimate
    congr 1
    apply List.map_congr_left
    intro g hg
    obtain ⟨c, hc, hw⟩ := hv g hg
    simp [valOf, hc, valD, hw]

/-- the terms of two successful estimates of reordered mappings are reorderings of each other -/
theorem perm_terms (reg : List S) (lib : Library N S) {gs gs' : List (N × Rat)} (s : S) (e e' : Estimator)
    (hp : gs.Perm gs') (he : estimate reg lib gs s = .ok e) (he' : estimate reg lib gs' s = .ok e') :
    e'.correlations.Perm e.correlations ∧ e'.name = e.name ∧ e'.range = e.range := by
  obtain ⟨e'', he'', h⟩ := estimate_perm reg lib s e hp he
  rw [he'] at he''; cases he''; exact h

/-! ### linearity of the specification sum -/

theorem specEstimate_append (lib : Library N S) (s : S) (get : Corr → Val) (g1 g2 : List (N × Rat)) :
    specEstimate lib s get (g1 ++ g2) = specEstimate lib s get g1 + specEstimate lib s get g2 := by
  simp [specEstimate]

theorem specEstimate_scale (lib : Library N S) (s : S) (get : Corr → Val) (k : Rat) (gs : List (N × Rat)) :
    specEstimate lib s get (gs.map fun g => (g.1, k * g.2)) = k * specEstimate lib s get gs := by
  induction gs with
  | nil => simp [specEstimate]
  | cons g rest ih =>
    simp only [specEstimate, List.map_cons, List.sum_cons] at ih ⊢
    rw [ih]; ring

end

end PGA.Estimate
