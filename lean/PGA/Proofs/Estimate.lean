import PGA.Spec.Estimate
import Mathlib.Tactic.Ring
import Mathlib.Tactic.Linarith
import Mathlib.Algebra.BigOperators.Group.List.Basic
import Mathlib.Algebra.Order.Field.Rat
/-! Helper lemmas for C01 / C07 / C20 (model `PGA.Model.Estimate`). -/
namespace PGA.Estimate

/-! ### the weighted sum -/

theorem valD_ok {get : Corr → Val} {c : Corr} {w : Rat} (h : get c = .ok w) : valD get c = w := by
  simp [valD, h]

/-- value characterisation: the fold returns `v` iff every constituent has the datum and `v` is the sum -/
theorem wsumFrom_ok_iff (get : Corr → Val) (cs : List (Corr × Rat)) (acc v : Rat) :
    wsumFrom get acc cs = .ok v ↔ AllOk get cs ∧ v = acc + specSum get cs := by
  induction cs generalizing acc with
  | nil => simp [wsumFrom, AllOk, specSum]; exact eq_comm
  | cons p rest ih =>
    obtain ⟨c, n⟩ := p
    cases hg : get c with
    | error e =>
      simp only [wsumFrom, hg]
      constructor
      · intro h; cases h
      · rintro ⟨h, _⟩
        obtain ⟨w, hw⟩ := h (c, n) (by simp)
        simp [hg] at hw
    | ok w =>
      simp only [wsumFrom, hg]
      rw [ih]
      have hv : valD get c = w := valD_ok hg
      constructor
      · rintro ⟨h1, h2⟩
        refine ⟨?_, ?_⟩
        · intro p hp
          rcases List.mem_cons.mp hp with rfl | hp
          · exact ⟨w, hg⟩
          · exact h1 p hp
        · simp only [specSum, List.map_cons, List.sum_cons, hv] at h2 ⊢
          rw [h2]; ring
      · rintro ⟨h1, h2⟩
        refine ⟨fun p hp => h1 p (List.mem_cons_of_mem _ hp), ?_⟩
        simp only [specSum, List.map_cons, List.sum_cons, hv] at h2 ⊢
        rw [h2]; ring

theorem wsum_ok_iff (get : Corr → Val) (cs : List (Corr × Rat)) (v : Rat) :
    wsum get cs = .ok v ↔ AllOk get cs ∧ v = specSum get cs := by
  rw [wsum, wsumFrom_ok_iff]; simp

/-- error characterisation: the fold fails with `e` iff the first constituent without the datum fails with `e` -/
theorem wsumFrom_error_iff (get : Corr → Val) (cs : List (Corr × Rat)) (acc : Rat) (e : Err) :
    wsumFrom get acc cs = .error e ↔
      ∃ pre p post, cs = pre ++ p :: post ∧ AllOk get pre ∧ get p.1 = .error e := by
  induction cs generalizing acc with
  | nil => simp [wsumFrom]
  | cons p rest ih =>
    obtain ⟨c, n⟩ := p
    cases hg : get c with
    | error e' =>
      simp only [wsumFrom, hg]
      constructor
      · intro h
        cases h
        exact ⟨[], (c, n), rest, rfl, by simp [AllOk], hg⟩
      · rintro ⟨pre, p, post, hcs, hpre, hp⟩
        cases pre with
        | nil =>
          simp only [List.nil_append, List.cons.injEq] at hcs
          obtain ⟨rfl, _⟩ := hcs
          rw [hg] at hp; exact hp
        | cons q pre' =>
          simp only [List.cons_append, List.cons.injEq] at hcs
          obtain ⟨rfl, _⟩ := hcs
          obtain ⟨w, hw⟩ := hpre (c, n) (by simp)
          simp [hg] at hw
    | ok w =>
      simp only [wsumFrom, hg]
      rw [ih]
      constructor
      · rintro ⟨pre, p, post, rfl, hpre, hp⟩
        refine ⟨(c, n) :: pre, p, post, rfl, ?_, hp⟩
        intro q hq
        rcases List.mem_cons.mp hq with rfl | hq
        · exact ⟨w, hg⟩
        · exact hpre q hq
      · rintro ⟨pre, p, post, hcs, hpre, hp⟩
        cases pre with
        | nil =>
          simp only [List.nil_append, List.cons.injEq] at hcs
          obtain ⟨rfl, _⟩ := hcs
          simp [hg] at hp
        | cons q pre' =>
          simp only [List.cons_append, List.cons.injEq] at hcs
          obtain ⟨rfl, rfl⟩ := hcs
          exact ⟨pre', p, post, rfl, fun r hr => hpre r (List.mem_cons_of_mem _ hr), hp⟩

theorem wsum_error_iff (get : Corr → Val) (cs : List (Corr × Rat)) (e : Err) :
    wsum get cs = .error e ↔ ∃ pre p post, cs = pre ++ p :: post ∧ AllOk get pre ∧ get p.1 = .error e :=
  wsumFrom_error_iff get cs 0 e

theorem allOk_append {get : Corr → Val} {a b : List (Corr × Rat)} :
    AllOk get (a ++ b) ↔ AllOk get a ∧ AllOk get b := by
  simp only [AllOk, List.mem_append]
  constructor
  · intro h; exact ⟨fun p hp => h p (Or.inl hp), fun p hp => h p (Or.inr hp)⟩
  · rintro ⟨h1, h2⟩ p (hp | hp)
    · exact h1 p hp
    · exact h2 p hp

theorem specSum_append (get : Corr → Val) (a b : List (Corr × Rat)) :
    specSum get (a ++ b) = specSum get a + specSum get b := by
  simp [specSum]

theorem allOk_perm {get : Corr → Val} {a b : List (Corr × Rat)} (h : a.Perm b) : AllOk get a ↔ AllOk get b := by
  simp only [AllOk]
  constructor
  · intro ha p hp; exact ha p (h.mem_iff.mpr hp)
  · intro hb p hp; exact hb p (h.mem_iff.mp hp)

theorem specSum_perm (get : Corr → Val) {a b : List (Corr × Rat)} (h : a.Perm b) : specSum get a = specSum get b := by
  unfold specSum
  exact (h.map _).sum_eq

/-- the result does not depend on the order of the terms (value or "some error") -/
theorem wsum_perm (get : Corr → Val) {a b : List (Corr × Rat)} (h : a.Perm b) (v : Rat) :
    wsum get a = .ok v ↔ wsum get b = .ok v := by
  rw [wsum_ok_iff, wsum_ok_iff, allOk_perm h, specSum_perm get h]

theorem wsum_append (get : Corr → Val) (a b : List (Corr × Rat)) (v : Rat) :
    wsum get (a ++ b) = .ok v ↔ ∃ va vb, wsum get a = .ok va ∧ wsum get b = .ok vb ∧ v = va + vb := by
  simp only [wsum_ok_iff, allOk_append, specSum_append]
  constructor
  · rintro ⟨⟨ha, hb⟩, rfl⟩; exact ⟨_, _, ⟨ha, rfl⟩, ⟨hb, rfl⟩, rfl⟩
  · rintro ⟨va, vb, ⟨ha, rfl⟩, ⟨hb, rfl⟩, rfl⟩; exact ⟨⟨ha, hb⟩, rfl⟩

theorem specSum_scale (get : Corr → Val) (k : Rat) (cs : List (Corr × Rat)) :
    specSum get (cs.map fun p => (p.1, k * p.2)) = k * specSum get cs := by
  induction cs with
  | nil => simp [specSum]
  | cons p rest ih =>
    simp only [specSum, List.map_cons, List.sum_cons, List.map_map] at ih ⊢
    rw [ih]; ring

theorem allOk_scale {get : Corr → Val} (k : Rat) (cs : List (Corr × Rat)) :
    AllOk get (cs.map fun p => (p.1, k * p.2)) ↔ AllOk get cs := by
  simp only [AllOk, List.mem_map]
  constructor
  · intro h p hp; exact h (p.1, k * p.2) ⟨p, hp, rfl⟩
  · rintro h _ ⟨p, hp, rfl⟩; exact h p hp

theorem wsum_scale (get : Corr → Val) (k : Rat) (cs : List (Corr × Rat)) (v : Rat) (h : wsum get cs = .ok v) :
    wsum get (cs.map fun p => (p.1, k * p.2)) = .ok (k * v) := by
  rw [wsum_ok_iff] at h ⊢
  obtain ⟨h1, rfl⟩ := h
  exact ⟨(allOk_scale k cs).mpr h1, (specSum_scale get k cs).symm⟩

/-! ### `Estimate`: the check, the terms -/
section
variable {N S : Type} [DecidableEq N] [DecidableEq S]

theorem missingGroups_eq_spec (lib : Library N S) (s : S) (gs : List (N × Rat)) :
    missingGroups lib s gs = specMissing lib s gs := by
  unfold missingGroups specMissing
  rw [List.filter_map]
  congr 1
  apply List.filter_congr
  intro g _
  simp [Library.hasSet, corrOf, Function.comp]

theorem specMissing_nil_iff (lib : Library N S) (s : S) (gs : List (N × Rat)) :
    specMissing lib s gs = [] ↔ ∀ g ∈ gs, ∃ c, corrOf lib s g.1 = some c := by
  unfold specMissing
  rw [List.filter_eq_nil_iff]
  simp only [List.mem_map, forall_exists_index, and_imp, forall_apply_eq_imp_iff₂]
  constructor
  · intro h g hg
    have := h g hg
    cases hc : corrOf lib s g.1 with
    | none => simp [hc] at this
    | some c => exact ⟨c, rfl⟩
  · intro h g hg
    obtain ⟨c, hc⟩ := h g hg
    simp [hc]

theorem collect_error (lib : Library N S) (s : S) (gs : List (N × Rat)) (e : EstErr N)
    (h : collect lib s gs = .error e) : e = .keyError ∧ specMissing lib s gs ≠ [] := by
  induction gs with
  | nil => simp [collect] at h
  | cons g rest ih =>
    obtain ⟨g, n⟩ := g
    unfold collect at h
    split at h
    · rename_i hl
      cases h
      refine ⟨rfl, ?_⟩
      intro hm
      obtain ⟨c, hc⟩ := (specMissing_nil_iff lib s _).mp hm (g, n) (by simp)
      simp [corrOf, hl] at hc
    · split at h
      · rename_i e' he'
        cases h
        obtain ⟨h1, h2⟩ := ih he'
        refine ⟨h1, ?_⟩
        intro hm
        apply h2
        rw [specMissing_nil_iff] at hm ⊢
        exact fun g hg => hm g (List.mem_cons_of_mem _ hg)
      · cases h

theorem collect_ok (lib : Library N S) (s : S) (gs : List (N × Rat)) (cs : List (Corr × Rat))
    (h : collect lib s gs = .ok cs) : Terms lib s gs cs := by
  induction gs generalizing cs with
  | nil => simp [collect] at h; subst h; trivial
  | cons g rest ih =>
    obtain ⟨g, n⟩ := g
    unfold collect at h
    split at h
    · cases h
    · rename_i c hl
      split at h
      · cases h
      · rename_i cs' hcs'
        cases h
        exact ⟨hl, rfl, ih cs' hcs'⟩

theorem collect_of_noMissing (lib : Library N S) (s : S) (gs : List (N × Rat))
    (h : specMissing lib s gs = []) : ∃ cs, collect lib s gs = .ok cs := by
  cases hc : collect lib s gs with
  | ok cs => exact ⟨cs, rfl⟩
  | error e => exact absurd h (collect_error lib s gs e hc).2

theorem finish_ok {N : Type} (name : Option (List Nat)) (cs : List (Corr × Rat)) (uq : Option UQE) (e : Estimator)
    (h : finish (N := N) name cs uq = .ok e) :
    e.correlations = cs ∧ e.name = name ∧ e.range = commonRange cs ∧ e.uq = uq := by
  unfold finish at h
  split at h
  · rename_i hr; cases h; exact ⟨rfl, rfl, hr.symm, rfl⟩
  · rename_i lo hi hr
    split at h
    · cases h; exact ⟨rfl, rfl, hr.symm, rfl⟩
    · cases h

theorem finish_error {N : Type} (name : Option (List Nat)) (cs : List (Corr × Rat)) (uq : Option UQE) (err : EstErr N)
    (h : finish name cs uq = .error err) : err = .emptyRange := by
  unfold finish at h
  split at h
  · cases h
  · split at h
    · cases h
    · cases h; rfl

theorem placeX_error (basis : List N) (gs : List (N × Rat)) (x : List Rat) (err : EstErr N)
    (h : placeX basis gs x = .error err) : ∃ g, err = .notInBasis g := by
  induction gs generalizing x with
  | nil => simp [placeX] at h
  | cons g rest ih =>
    obtain ⟨g, n⟩ := g
    unfold placeX at h
    split at h
    · cases h; exact ⟨g, rfl⟩
    · exact ih _ h

theorem buildUQ_error (u : UQ N) (gs : List (N × Rat)) (err : EstErr N)
    (h : buildUQ u gs = .error err) : (∃ g, err = .notInBasis g) ∨ err = .shape := by
  unfold buildUQ at h
  split at h
  · rename_i e he; cases h; exact Or.inl (placeX_error _ _ _ _ he)
  · split at h
    · cases h
    · cases h; exact Or.inr rfl

/-- what a successful constructor call fixes -/
theorem construct_ok (lib : Library N S) (s : S) (gs : List (N × Rat)) (e : Estimator)
    (h : construct lib s gs = .ok e) :
    collect lib s gs = .ok e.correlations ∧ e.name = lib.name ∧ e.range = commonRange e.correlations := by
  unfold construct at h
  split at h
  · cases h
  · rename_i cs hcs
    split at h
    · obtain ⟨h1, h2, h3, _⟩ := finish_ok _ _ _ _ h
      rw [h1]; exact ⟨hcs, h2, h3⟩
    · split at h
      · cases h
      · obtain ⟨h1, h2, h3, _⟩ := finish_ok _ _ _ _ h
        rw [h1]; exact ⟨hcs, h2, h3⟩

theorem construct_error (lib : Library N S) (s : S) (gs : List (N × Rat)) (err : EstErr N)
    (h : construct lib s gs = .error err) (hm : specMissing lib s gs = []) :
    (∃ g, err = .notInBasis g) ∨ err = .shape ∨ err = .emptyRange := by
  unfold construct at h
  split at h
  · rename_i e he
    exact absurd hm (collect_error lib s gs e he).2
  · split at h
    · exact Or.inr (Or.inr (finish_error _ _ _ _ h))
    · split at h
      · rename_i e he
        cases h
        rcases buildUQ_error _ _ _ he with h | h
        · exact Or.inl h
        · exact Or.inr (Or.inl h)
      · exact Or.inr (Or.inr (finish_error _ _ _ _ h))

theorem terms_allOk_iff (lib : Library N S) (s : S) (get : Corr → Val) (gs : List (N × Rat)) (cs : List (Corr × Rat))
    (ht : Terms lib s gs cs) : AllOk get cs ↔ ∀ g ∈ gs, HasDatum lib s get g.1 := by
  induction gs generalizing cs with
  | nil =>
    cases cs with
    | nil => simp [AllOk]
    | cons c cs => simp [Terms] at ht
  | cons g rest ih =>
    cases cs with
    | nil => simp [Terms] at ht
    | cons c cs =>
      obtain ⟨h1, h2, h3⟩ := ht
      have ih := ih cs h3
      simp only [AllOk, List.mem_cons, forall_eq_or_imp] at ih ⊢
      rw [ih]
      constructor
      · rintro ⟨⟨w, hw⟩, hr⟩; exact ⟨⟨c.1, w, h1, hw⟩, hr⟩
      · rintro ⟨⟨c', w, hc', hw⟩, hr⟩
        rw [h1] at hc'; cases hc'
        exact ⟨⟨w, hw⟩, hr⟩

theorem terms_specSum (lib : Library N S) (s : S) (get : Corr → Val) (gs : List (N × Rat)) (cs : List (Corr × Rat))
    (ht : Terms lib s gs cs) : specSum get cs = specEstimate lib s get gs := by
  induction gs generalizing cs with
  | nil =>
    cases cs with
    | nil => simp [specSum, specEstimate]
    | cons c cs => simp [Terms] at ht
  | cons g rest ih =>
    cases cs with
    | nil => simp [Terms] at ht
    | cons c cs =>
      obtain ⟨h1, h2, h3⟩ := ht
      have ih := ih cs h3
      simp only [specSum, specEstimate, List.map_cons, List.sum_cons] at ih ⊢
      rw [ih, valOf, h1, h2]

/-- splitting the terms where the mapping splits -/
theorem terms_split (lib : Library N S) (s : S) (gs : List (N × Rat)) (pre : List (Corr × Rat)) (p : Corr × Rat)
    (post : List (Corr × Rat)) (ht : Terms lib s gs (pre ++ p :: post)) :
    ∃ gpre g gpost, gs = gpre ++ g :: gpost ∧ Terms lib s gpre pre ∧ corrOf lib s g.1 = some p.1 ∧ Terms lib s gpost post := by
  induction pre generalizing gs with
  | nil =>
    cases gs with
    | nil => simp [Terms] at ht
    | cons g rest =>
      obtain ⟨h1, _, h3⟩ := ht
      exact ⟨[], g, rest, rfl, trivial, h1, h3⟩
  | cons q pre ih =>
    cases gs with
    | nil => simp [Terms] at ht
    | cons g rest =>
      obtain ⟨h1, h2, h3⟩ := ht
      obtain ⟨gpre, g', gpost, rfl, t1, t2, t3⟩ := ih rest h3
      exact ⟨g :: gpre, g', gpost, rfl, ⟨h1, h2, t1⟩, t2, t3⟩

theorem terms_append (lib : Library N S) (s : S) (g1 g2 : List (N × Rat)) (c1 c2 : List (Corr × Rat))
    (h1 : Terms lib s g1 c1) (h2 : Terms lib s g2 c2) : Terms lib s (g1 ++ g2) (c1 ++ c2) := by
  induction g1 generalizing c1 with
  | nil =>
    cases c1 with
    | nil => simpa using h2
    | cons c cs => simp [Terms] at h1
  | cons g rest ih =>
    cases c1 with
    | nil => simp [Terms] at h1
    | cons c cs =>
      obtain ⟨a, b, t⟩ := h1
      exact ⟨a, b, ih cs t⟩

theorem estimate_ok_iff (reg : List S) (lib : Library N S) (gs : List (N × Rat)) (s : S) (e : Estimator) :
    estimate reg lib gs s = .ok e ↔
      reg.contains s = true ∧ specMissing lib s gs = [] ∧ construct lib s gs = .ok e := by
  unfold estimate
  rw [missingGroups_eq_spec]
  split
  · rename_i hr
    split
    · rename_i hm; simp only [hm, true_and]; exact ⟨fun h => ⟨hr, h⟩, fun h => h.2⟩
    · rename_i m ms hm; simp [hm]
  · rename_i hr; simp only [reduceCtorEq, false_iff, not_and]; exact fun h => absurd h hr

end

end PGA.Estimate
