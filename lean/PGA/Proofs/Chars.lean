import PGA.Model.Chars
/-! Decimal rendering/reading lemmas; table obligations on the generated character tables. -/
namespace PGA.Chars

/-- Table obligation (regenerated tables): the ten ASCII digits are `isdigit` characters whose
`int()` value is the digit. -/
theorem ascii_digits_ok : ∀ d : Fin 10,
    isDigitChar (digitChar d.val) = true ∧ decimalVal (digitChar d.val) = some d.val := by
  decide +kernel

theorem isDigitChar_digitChar {d : Nat} (h : d < 10) : isDigitChar (digitChar d) = true :=
  (ascii_digits_ok ⟨d, h⟩).1
theorem decimalVal_digitChar {d : Nat} (h : d < 10) : decimalVal (digitChar d) = some d :=
  (ascii_digits_ok ⟨d, h⟩).2

theorem digitChar_ne_paren : ∀ d : Fin 10, digitChar d.val ≠ '(' ∧ digitChar d.val ≠ ')' := by
  decide +kernel

theorem showNat_ne_nil (n : Nat) : showNat n ≠ [] := by
  rw [showNat]; split <;> simp

theorem showNat_all_digit (n : Nat) : ∀ c ∈ showNat n, ∃ d, d < 10 ∧ c = digitChar d := by
  induction n using Nat.strongRecOn with
  | _ n ih =>
    rw [showNat]
    split
    · intro c hc; simp at hc; exact ⟨n, by omega, hc⟩
    · intro c hc
      simp only [List.mem_append, List.mem_singleton] at hc
      rcases hc with hc | hc
      · exact ih (n / 10) (by omega) c hc
      · exact ⟨n % 10, by omega, hc⟩

theorem isDigitStr_showNat (n : Nat) : isDigitStr (showNat n) = true := by
  unfold isDigitStr
  have h1 : (showNat n).isEmpty = false := by
    cases h : showNat n with
    | nil => exact absurd h (showNat_ne_nil n)
    | cons _ _ => rfl
  simp only [h1, Bool.not_false, Bool.true_and, List.all_eq_true]
  intro c hc
  obtain ⟨d, hd, rfl⟩ := showNat_all_digit n c hc
  exact isDigitChar_digitChar hd

theorem readNatAux_append_digit (acc : Nat) (s : List Char) (d : Nat) (hd : d < 10) :
    readNatAux acc (s ++ [digitChar d]) = (readNatAux acc s).map (fun v => v * 10 + d) := by
  induction s generalizing acc with
  | nil => simp [readNatAux, decimalVal_digitChar hd]
  | cons c cs ih =>
    simp only [List.cons_append, readNatAux]
    cases decimalVal c with
    | none => simp
    | some v => simp [ih]

theorem readNatAux_showNat (n : Nat) : readNatAux 0 (showNat n) = some n := by
  induction n using Nat.strongRecOn with
  | _ n ih =>
    rw [showNat]
    split
    · rename_i h; simp [readNatAux, decimalVal_digitChar h]
    · rw [readNatAux_append_digit _ _ _ (by omega), ih (n / 10) (by omega)]
      simp; omega

theorem length_showNat_le (k : Nat) : ∀ n, n < 10 ^ (k + 1) → (showNat n).length ≤ k + 1 := by
  induction k with
  | zero => intro n hn; rw [showNat]; simp at hn; simp [hn]
  | succ k ih =>
    intro n hn
    rw [showNat]
    split
    · simp
    · have : n / 10 < 10 ^ (k + 1) := by
        rw [Nat.div_lt_iff_lt_mul (by omega)]; rw [Nat.pow_succ] at hn; exact hn
      have := ih (n / 10) this
      simp; omega

theorem readNat_showNat (n : Nat) (h : n < intLimit) (hpos : 0 < PGA.Gen.Chars.intMaxStrDigits) :
    readNat (showNat n) = some n := by
  unfold readNat
  have : (showNat n).length ≤ PGA.Gen.Chars.intMaxStrDigits := by
    obtain ⟨k, hk⟩ : ∃ k, PGA.Gen.Chars.intMaxStrDigits = k + 1 := ⟨_, (Nat.succ_pred_eq_of_pos hpos).symm⟩
    rw [hk]; apply length_showNat_le; unfold intLimit at h; rw [hk] at h; exact h
  simp [Nat.not_lt.mpr this, readNatAux_showNat]


end PGA.Chars
