import PGA.Model.LibTable
import Mathlib.Tactic.Linarith
import Mathlib.Tactic.Ring
import Mathlib.Algebra.Order.BigOperators.Ring.Finset
import Mathlib.Algebra.Order.Field.Rat
import Mathlib.Algebra.BigOperators.Field
/-! Soundness of the PSD certificate (C14-T3, C20-T5): if `s·M − L·Lᵀ` is symmetric and diagonally
dominant with non-negative diagonal and `s > 0`, then `0 ≤ xᵀ M x` for every rational `x`, any size. -/
namespace PGA.LibTable
open Finset

theorem pt_lower (a xi xj : ℚ) : -(|a|) * ((xi^2 + xj^2)/2) ≤ xi * a * xj := by
  have h1 : 0 ≤ (xi + xj)^2 := sq_nonneg _
  have h2 : 0 ≤ (xi - xj)^2 := sq_nonneg _
  rcases le_or_gt 0 a with h | h
  · rw [abs_of_nonneg h]; nlinarith
  · rw [abs_of_neg h]; nlinarith

/-- A symmetric, diagonally dominant matrix with non-negative diagonal is positive semi-definite (any size). -/
theorem dd_psd (n : ℕ) (E : ℕ → ℕ → ℚ) (hsym : ∀ i ∈ range n, ∀ j ∈ range n, E i j = E j i)
    (hdd : ∀ i ∈ range n, ∑ j ∈ range n, (if j = i then 0 else |E i j|) ≤ E i i) (x : ℕ → ℚ) :
    0 ≤ ∑ i ∈ range n, ∑ j ∈ range n, x i * E i j * x j := by
  set A : ℕ → ℕ → ℚ := fun i j => if j = i then 0 else |E i j| with hA
  have hAsym : ∀ i ∈ range n, ∀ j ∈ range n, A i j = A j i := by
    intro i hi j hj; simp only [hA]
    by_cases h : j = i
    · subst h; simp
    · have : ¬ i = j := fun h' => h h'.symm
      simp [h, this, hsym i hi j hj]
  have hpt : ∀ i j, (if j = i then E i i * (x i)^2 else 0) - A i j * ((x i)^2 + (x j)^2) / 2 ≤ x i * E i j * x j := by
    intro i j
    by_cases h : j = i
    · subst h; simp [hA]; ring_nf; exact le_refl _
    · simp only [hA, h, if_false, zero_sub]
      have := pt_lower (E i j) (x i) (x j); linarith
  have hsum : ∑ i ∈ range n, ∑ j ∈ range n, ((if j = i then E i i * (x i)^2 else 0) - A i j * ((x i)^2 + (x j)^2) / 2)
      ≤ ∑ i ∈ range n, ∑ j ∈ range n, x i * E i j * x j :=
    sum_le_sum fun i _ => sum_le_sum fun j _ => hpt i j
  refine le_trans ?_ hsum
  have e1 : ∑ i ∈ range n, ∑ j ∈ range n, ((if j = i then E i i * (x i)^2 else 0) - A i j * ((x i)^2 + (x j)^2) / 2)
      = ∑ i ∈ range n, (E i i - ∑ j ∈ range n, A i j) * (x i)^2 := by
    have s1 : ∑ i ∈ range n, ∑ j ∈ range n, (if j = i then E i i * (x i)^2 else 0) = ∑ i ∈ range n, E i i * (x i)^2 := by
      apply sum_congr rfl; intro i hi; simp [sum_ite_eq', hi]
    have s2 : ∑ i ∈ range n, ∑ j ∈ range n, A i j * (x j)^2 = ∑ i ∈ range n, ∑ j ∈ range n, A i j * (x i)^2 := by
      rw [sum_comm]; apply sum_congr rfl; intro i hi; apply sum_congr rfl; intro j hj; rw [hAsym j hj i hi]
    have s3 : ∑ i ∈ range n, ∑ j ∈ range n, A i j * ((x i)^2 + (x j)^2) / 2 = ∑ i ∈ range n, ∑ j ∈ range n, A i j * (x i)^2 := by
      have : ∑ i ∈ range n, ∑ j ∈ range n, A i j * ((x i)^2 + (x j)^2) / 2
          = (∑ i ∈ range n, ∑ j ∈ range n, A i j * (x i)^2) / 2 + (∑ i ∈ range n, ∑ j ∈ range n, A i j * (x j)^2) / 2 := by
        simp only [sum_div, ← sum_add_distrib]; apply sum_congr rfl; intro i _; apply sum_congr rfl; intro j _; ring
      rw [this, s2]; ring
    simp only [sum_sub_distrib, s1, s3]
    rw [← sum_sub_distrib]; apply sum_congr rfl; intro i _; rw [sub_mul, sum_mul]
  rw [e1]
  apply sum_nonneg; intro i hi
  exact mul_nonneg (sub_nonneg.mpr (hdd i hi)) (sq_nonneg _)

/-- `xᵀ (L Lᵀ) x = Σ_k (Σ_i x_i L_ik)² ≥ 0` -/
theorem gram_nonneg (n p : ℕ) (L : ℕ → ℕ → ℚ) (x : ℕ → ℚ) :
    0 ≤ ∑ i ∈ range n, ∑ j ∈ range n, x i * (∑ k ∈ range p, L i k * L j k) * x j := by
  have : ∑ i ∈ range n, ∑ j ∈ range n, x i * (∑ k ∈ range p, L i k * L j k) * x j
      = ∑ k ∈ range p, (∑ i ∈ range n, x i * L i k) * (∑ j ∈ range n, x j * L j k) := by
    have h1 : ∀ i j, x i * (∑ k ∈ range p, L i k * L j k) * x j = ∑ k ∈ range p, (x i * L i k) * (x j * L j k) := by
      intro i j; rw [mul_sum, sum_mul]; apply sum_congr rfl; intro k _; ring
    simp only [h1]
    have h2 : ∀ i ∈ range n, ∑ j ∈ range n, ∑ k ∈ range p, (x i * L i k) * (x j * L j k)
        = ∑ k ∈ range p, ∑ j ∈ range n, (x i * L i k) * (x j * L j k) := fun i _ => sum_comm
    rw [sum_congr rfl h2, sum_comm]
    apply sum_congr rfl; intro k _
    rw [sum_mul_sum]
  rw [this]
  apply sum_nonneg; intro k _
  exact mul_self_nonneg _

/-! ### bridging the executable certificate check to sums -/

theorem allN_iff (n : ℕ) (p : ℕ → Bool) : allN n p = true ↔ ∀ i < n, p i = true := by
  induction n with
  | zero => simp [allN]
  | succ n ih =>
    simp only [allN, Bool.and_eq_true, ih]
    constructor
    · rintro ⟨h1, h2⟩ i hi
      rcases Nat.lt_succ_iff_lt_or_eq.mp hi with h | h
      · exact h1 i h
      · exact h ▸ h2
    · intro h; exact ⟨fun i hi => h i (Nat.lt_succ_of_lt hi), h n (Nat.lt_succ_self n)⟩

theorem sumZ_eq (n : ℕ) (f : ℕ → ℤ) : sumZ n f = ∑ k ∈ range n, f k := by
  induction n with
  | zero => simp [sumZ]
  | succ n ih => simp [sumZ, ih, sum_range_succ]

theorem sumN_eq (n : ℕ) (f : ℕ → ℚ) : sumN n f = ∑ k ∈ range n, f k := by
  induction n with
  | zero => simp [sumN]
  | succ n ih => simp [sumN, ih, sum_range_succ]

theorem dotI_eq (a b : List ℤ) (n : ℕ) (h : a.length ≤ n) :
    dotI a b = ∑ k ∈ range n, a.getD k 0 * b.getD k 0 := by
  induction a generalizing b n with
  | nil => simp [dotI]
  | cons x a ih =>
    cases b with
    | nil => simp [dotI]
    | cons y b =>
      cases n with
      | zero => simp at h
      | succ n =>
        have h' : a.length ≤ n := by simpa using h
        rw [dotI, ih b n h', sum_range_succ']
        simp [add_comm]

theorem absI_cast (x : ℤ) : ((absI x : ℤ) : ℚ) = |(x : ℚ)| := by
  unfold absI
  split
  · rename_i h; rw [abs_of_neg (by exact_mod_cast h)]; push_cast; ring
  · rename_i h; rw [abs_of_nonneg (by exact_mod_cast (not_lt.mp h))]

theorem squareSized_row {n : ℕ} {l : List (List ℤ)} (h : squareSized n l = true) (i : ℕ) :
    (l.getD i []).length ≤ n := by
  simp only [squareSized, Bool.and_eq_true, beq_iff_eq, List.all_eq_true] at h
  by_cases hi : i < l.length
  · have : l.getD i [] = l[i] := by simp [List.getD, hi]
    rw [this, h.2 _ (List.getElem_mem hi)]
  · have : l.getD i [] = [] := by simp [List.getD, Nat.le_of_not_lt hi]
    rw [this]; simp

/-- **Soundness of the certificate.** If the kernel-checked certificate holds for integer rows `m`
(symmetric on the first `n` indices), witness rows `l` (each of length `n`) and a positive scale `s`,
then the quadratic form of `m` is non-negative on every rational vector. -/
theorem psd_of_cert (n : ℕ) (s : ℤ) (m l : List (List ℤ)) (x : ℕ → ℚ)
    (hl : squareSized n l = true) (hsym : symmetric n m = true) (hs : 0 < s)
    (hc : certOk n s m l = true) : 0 ≤ quadForm n m x := by
  set M : ℕ → ℕ → ℚ := fun i j => (ent m i j : ℚ) with hM
  set Lf : ℕ → ℕ → ℚ := fun i k => (((l.getD i []).getD k 0 : ℤ) : ℚ) with hLf
  set G : ℕ → ℕ → ℚ := fun i j => ∑ k ∈ range n, Lf i k * Lf j k with hG
  set E : ℕ → ℕ → ℚ := fun i j => M i j * s - G i j with hE
  have hEcast : ∀ i j, ((eEnt s m l i j : ℤ) : ℚ) = E i j := by
    intro i j
    simp only [eEnt, hE, hM, hG, hLf]
    rw [dotI_eq _ _ n (squareSized_row hl i)]
    push_cast; rfl
  have hsymM : ∀ i ∈ range n, ∀ j ∈ range n, M i j = M j i := by
    intro i hi j hj
    have h1 := (allN_iff n _).mp hsym i (mem_range.mp hi)
    have h2 := (allN_iff n _).mp h1 j (mem_range.mp hj)
    simp only [hM]; exact_mod_cast (beq_iff_eq.mp h2)
  have hsymE : ∀ i ∈ range n, ∀ j ∈ range n, E i j = E j i := by
    intro i hi j hj
    simp only [hE, hG, hsymM i hi j hj]
    congr 1; apply sum_congr rfl; intro k _; ring
  have hdd : ∀ i ∈ range n, ∑ j ∈ range n, (if j = i then 0 else |E i j|) ≤ E i i := by
    intro i hi
    have h1 := (allN_iff n _).mp hc i (mem_range.mp hi)
    simp only [rowOk, decide_eq_true_eq, sumZ_eq] at h1
    have h2 : ((∑ j ∈ range n, (if j = i then 0 else absI (eEnt s m l i j)) : ℤ) : ℚ) ≤ ((eEnt s m l i i : ℤ) : ℚ) := by
      exact_mod_cast h1
    rw [hEcast] at h2
    refine le_trans (le_of_eq ?_) h2
    push_cast
    apply sum_congr rfl; intro j _
    split
    · simp
    · rw [absI_cast, hEcast]
  have hE0 := dd_psd n E hsymE hdd x
  have hG0 := gram_nonneg n n Lf x
  have hq : (s : ℚ) * quadForm n m x = ∑ i ∈ range n, ∑ j ∈ range n, x i * E i j * x j
      + ∑ i ∈ range n, ∑ j ∈ range n, x i * (∑ k ∈ range n, Lf i k * Lf j k) * x j := by
    simp only [quadForm, sumN_eq]
    rw [mul_sum, ← sum_add_distrib]
    apply sum_congr rfl; intro i _
    rw [mul_sum, ← sum_add_distrib]
    apply sum_congr rfl; intro j _
    have hg : (∑ k ∈ range n, Lf i k * Lf j k) = G i j := rfl
    rw [hg]
    show (s : ℚ) * (x i * M i j * x j) = x i * (M i j * s - G i j) * x j + x i * G i j * x j
    ring
  have hpos : (0 : ℚ) < s := by exact_mod_cast hs
  have : 0 ≤ (s : ℚ) * quadForm n m x := by rw [hq]; exact add_nonneg hE0 hG0
  exact nonneg_of_mul_nonneg_right this hpos |> fun h => h

end PGA.LibTable
