import PGA.Model.Scheme
import PGA.Proofs.ListUtil
import Mathlib.Tactic.Ring
import Mathlib.Algebra.BigOperators.Group.List.Basic
import Mathlib.Tactic.Linarith
import Mathlib.Algebra.Order.Field.Rat
/-! Helper lemmas for C02: the decomposition logic above the matcher. -/
namespace PGA.Scheme
open PGA

/-! ### centre assignment -/

/-- number of centre patterns (occurrences in the scheme's list) having `i` as first atom of a match -/
def cnt (ps : List CentrePat) (i : Nat) : Nat := (ps.filter fun p => decide (i ∈ firstAtoms p.ms)).length

/-- the names given by the first pattern in the list that matches `i` -/
def firstMatch (ps : List CentrePat) (i : Nat) : Option (String × String) :=
  (ps.find? fun p => decide (i ∈ firstAtoms p.ms)).map fun p => (p.center, p.periph)

theorem cnt_cons (p : CentrePat) (ps : List CentrePat) (i : Nat) :
    cnt (p :: ps) i = (if i ∈ firstAtoms p.ms then 1 else 0) + cnt ps i := by
  unfold cnt
  by_cases h : i ∈ firstAtoms p.ms <;> simp [h] <;> omega

theorem firstMatch_none_iff (ps : List CentrePat) (i : Nat) : firstMatch ps i = none ↔ cnt ps i = 0 := by
  induction ps with
  | nil => simp [firstMatch, cnt]
  | cons p ps ih =>
    rw [cnt_cons]
    by_cases h : i ∈ firstAtoms p.ms
    · simp [firstMatch, h]
    · have : firstMatch (p :: ps) i = firstMatch ps i := by simp [firstMatch, h]
      rw [this, ih]; simp [h]

theorem get?_cons (a : Assign) (i j : Nat) (v : String × String) :
    Assign.get? ((i, v) :: a) j = if i = j then some v else a.get? j := by
  unfold Assign.get?
  by_cases h : i = j
  · subst h; simp
  · have : (i == j) = false := by simp [h]
    simp [this, h]

theorem assignOne_spec (c p : String) (is : List Nat) (hnd : is.Nodup) (a : Assign) :
    (∃ a', assignOne c p is a = .ok a') ↔ ∀ i ∈ is, a.get? i = none := by
  induction is generalizing a with
  | nil => simp [assignOne]
  | cons i is ih =>
    obtain ⟨hni, hnd'⟩ := List.nodup_cons.mp hnd
    unfold assignOne
    cases hg : a.get? i with
    | some v =>
      simp only
      constructor
      · rintro ⟨a', h⟩; cases h
      · intro h; have := h i (by simp); rw [hg] at this; cases this
    | none =>
      simp only
      rw [ih hnd']
      constructor
      · intro h j hj
        rcases List.mem_cons.mp hj with rfl | hj
        · exact hg
        · have := h j hj
          rw [get?_cons] at this
          by_cases e : i = j
          · subst e; exact absurd hj hni
          · simpa [e] using this
      · intro h j hj
        rw [get?_cons]
        have e : i ≠ j := fun e => hni (e ▸ hj)
        simp [e, h j (List.mem_cons_of_mem _ hj)]

theorem assignOne_get (c p : String) (is : List Nat) (a a' : Assign) (h : assignOne c p is a = .ok a') (j : Nat) :
    a'.get? j = if j ∈ is then some (c, p) else a.get? j := by
  induction is generalizing a with
  | nil => simp [assignOne] at h; subst h; simp
  | cons i is ih =>
    unfold assignOne at h
    cases hg : a.get? i with
    | some v => simp [hg] at h
    | none =>
      simp only [hg] at h
      rw [ih _ h, get?_cons]
      by_cases hj : j ∈ is
      · simp [hj]
      · by_cases e : i = j
        · subst e; simp
        · have : ¬ j = i := fun e' => e e'.symm
          simp [hj, e, this]

/-- the loop over the patterns succeeds exactly when no already-assigned atom is matched and no atom is matched twice -/
theorem assignPatterns_ok_iff (ps : List CentrePat) (a : Assign) :
    (∃ a', assignPatterns ps a = .ok a') ↔
      (∀ i, (a.get? i).isSome → cnt ps i = 0) ∧ (∀ i, cnt ps i ≤ 1) := by
  induction ps generalizing a with
  | nil => simp [assignPatterns, cnt]
  | cons p ps ih =>
    have hnd : (firstAtoms p.ms).Nodup := nodup_uniq _
    constructor
    · rintro ⟨a', h⟩
      unfold assignPatterns at h
      cases h1 : assignOne p.center p.periph (firstAtoms p.ms) a with
      | error e => simp [h1] at h
      | ok a1 =>
        simp only [h1] at h
        have hone := (assignOne_spec _ _ _ hnd a).mp ⟨a1, h1⟩
        have hget := assignOne_get _ _ _ _ _ h1
        obtain ⟨hA, hB⟩ := (ih a1).mp ⟨a', h⟩
        refine ⟨?_, ?_⟩
        · intro i hi
          rw [cnt_cons]
          have hni : i ∉ firstAtoms p.ms := by
            intro hm; have := hone i hm; rw [this] at hi; simp at hi
          have : (a1.get? i).isSome := by rw [hget i]; simp [hni, hi]
          simp [hni, hA i this]
        · intro i
          rw [cnt_cons]
          by_cases hm : i ∈ firstAtoms p.ms
          · have : (a1.get? i).isSome := by rw [hget i]; simp [hm]
            simp [hm, hA i this]
          · simp [hm, hB i]
    · rintro ⟨hA, hB⟩
      have hone : ∀ i ∈ firstAtoms p.ms, a.get? i = none := by
        intro i hm
        cases hg : a.get? i with
        | none => rfl
        | some v =>
          have := hA i (by simp [hg])
          rw [cnt_cons] at this; simp [hm] at this
      obtain ⟨a1, h1⟩ := (assignOne_spec _ _ _ hnd a).mpr hone
      have hget := assignOne_get _ _ _ _ _ h1
      have hrec : ∃ a', assignPatterns ps a1 = .ok a' := by
        apply (ih a1).mpr
        refine ⟨?_, ?_⟩
        · intro i hi
          rw [hget i] at hi
          by_cases hm : i ∈ firstAtoms p.ms
          · have := hB i; rw [cnt_cons] at this; simp [hm] at this; omega
          · simp [hm] at hi
            have := hA i hi; rw [cnt_cons] at this; simp [hm] at this; exact this
        · intro i; have := hB i; rw [cnt_cons] at this; omega
      obtain ⟨a', h'⟩ := hrec
      exact ⟨a', by rw [assignPatterns, h1]; exact h'⟩

/-- on success every atom carries the names of the (first = only) pattern matching it, or what it had before -/
theorem assignPatterns_get (ps : List CentrePat) (a a' : Assign) (h : assignPatterns ps a = .ok a') (j : Nat) :
    a'.get? j = match firstMatch ps j with | some x => some x | none => a.get? j := by
  induction ps generalizing a with
  | nil => simp [assignPatterns] at h; subst h; simp [firstMatch]
  | cons p ps ih =>
    have hok := (assignPatterns_ok_iff (p :: ps) a).mp ⟨a', h⟩
    unfold assignPatterns at h
    cases h1 : assignOne p.center p.periph (firstAtoms p.ms) a with
    | error e => simp [h1] at h
    | ok a1 =>
      simp only [h1] at h
      rw [ih a1 h, assignOne_get _ _ _ _ _ h1 j]
      by_cases hm : j ∈ firstAtoms p.ms
      · have hf : firstMatch (p :: ps) j = some (p.center, p.periph) := by
          simp [firstMatch, hm]
        rw [hf]
        have hc : cnt ps j = 0 := by
          have := hok.2 j; rw [cnt_cons] at this; simp [hm] at this; omega
        rw [(firstMatch_none_iff ps j).mpr hc]
        simp [hm]
      · have hf : firstMatch (p :: ps) j = firstMatch ps j := by
          simp [firstMatch, hm]
        rw [hf]; simp [hm]


/-- `_AssignCenterPattern` succeeds exactly when no atom index is matched by two centre patterns and every atom of
the molecule is matched by one -/
theorem assignCentres_ok_iff (inp : Input) :
    (∃ a, assignCentres inp = .ok a) ↔ (∀ i, cnt inp.centres i ≤ 1) ∧ (∀ i < inp.n, cnt inp.centres i = 1) := by
  unfold assignCentres
  constructor
  · rintro ⟨a, h⟩
    cases h1 : assignPatterns inp.centres [] with
    | error e => simp [h1] at h
    | ok a1 =>
      simp only [h1] at h
      have hok := (assignPatterns_ok_iff inp.centres []).mp ⟨a1, h1⟩
      refine ⟨hok.2, ?_⟩
      intro i hi
      split at h
      · rename_i hall
        have := (List.all_eq_true.mp hall) i (List.mem_range.mpr hi)
        rw [assignPatterns_get _ _ _ h1 i] at this
        have hne : firstMatch inp.centres i ≠ none := by
          intro hn; rw [hn] at this; simp [Assign.get?] at this
        have h0 : cnt inp.centres i ≠ 0 := fun h0 => hne ((firstMatch_none_iff _ _).mpr h0)
        have := hok.2 i; omega
      · cases h
  · rintro ⟨h1, h2⟩
    obtain ⟨a1, ha1⟩ := (assignPatterns_ok_iff inp.centres []).mpr ⟨by intro i hi; simp [Assign.get?] at hi, h1⟩
    refine ⟨a1, ?_⟩
    simp only [ha1]
    have hall : (List.range inp.n).all (fun i => (a1.get? i).isSome) = true := by
      apply List.all_eq_true.mpr
      intro i hi
      rw [assignPatterns_get _ _ _ ha1 i]
      have hc := h2 i (List.mem_range.mp hi)
      cases hf : firstMatch inp.centres i with
      | none => rw [(firstMatch_none_iff _ _).mp hf] at hc; cases hc
      | some x => simp
    simp [hall]

theorem assignCentres_get (inp : Input) (a : Assign) (h : assignCentres inp = .ok a) (j : Nat) :
    a.get? j = firstMatch inp.centres j := by
  unfold assignCentres at h
  cases h1 : assignPatterns inp.centres [] with
  | error e => simp [h1] at h
  | ok a1 =>
    simp only [h1] at h
    split at h
    · simp only [Except.ok.injEq] at h; subst h
      rw [assignPatterns_get _ _ _ h1 j]
      cases firstMatch inp.centres j <;> simp [Assign.get?]
    · cases h

/-! ### dictionaries -/

def Counts.keys (c : Counts) : List String := c.map (·.1)

theorem Counts.get_add (c : Counts) (k k' : String) (v : Rat) :
    (c.add k v).get k' = c.get k' + if k = k' then v else 0 := by
  induction c with
  | nil => simp [Counts.add, Counts.get]
  | cons p c ih =>
    obtain ⟨k0, v0⟩ := p
    unfold Counts.add
    by_cases h0 : k0 = k
    · subst h0
      by_cases hk : k0 = k'
      · subst hk; simp [Counts.get]
      · simp [Counts.get, hk]
    · simp only [h0, if_false]
      by_cases hk : k0 = k'
      · subst hk
        have : ¬ k = k0 := fun e => h0 e.symm
        simp [Counts.get, this]
      · simp [Counts.get, hk, ih]

theorem Counts.mem_keys_add (c : Counts) (k x : String) (v : Rat) :
    x ∈ Counts.keys (c.add k v) ↔ x = k ∨ x ∈ Counts.keys c := by
  induction c with
  | nil => simp [Counts.add, Counts.keys]
  | cons p c ih =>
    obtain ⟨k0, v0⟩ := p
    unfold Counts.add
    by_cases h0 : k0 = k
    · subst h0; simp [Counts.keys]
    · simp only [h0, if_false]
      simp only [Counts.keys, List.map_cons, List.mem_cons] at ih ⊢
      rw [ih]
      constructor
      · rintro (h | h | h) <;> simp [h]
      · rintro (h | h | h) <;> simp [h]

theorem Counts.nodup_add (c : Counts) (k : String) (v : Rat) (h : (Counts.keys c).Nodup) :
    (Counts.keys (c.add k v)).Nodup := by
  induction c with
  | nil => simp [Counts.add, Counts.keys]
  | cons p c ih =>
    obtain ⟨k0, v0⟩ := p
    have hc : (Counts.keys c).Nodup := (List.nodup_cons.mp h).2
    have hn : k0 ∉ Counts.keys c := (List.nodup_cons.mp h).1
    unfold Counts.add
    by_cases h0 : k0 = k
    · subst h0; simpa [Counts.keys] using h
    · simp only [h0, if_false]
      show (k0 :: Counts.keys (Counts.add c k v)).Nodup
      refine List.nodup_cons.mpr ⟨?_, ih hc⟩
      rw [Counts.mem_keys_add]
      rintro (h' | h')
      · exact h0 h'
      · exact hn h'

theorem Counts.get_of_not_mem (c : Counts) (k : String) (h : k ∉ Counts.keys c) : c.get k = 0 := by
  induction c with
  | nil => simp [Counts.get]
  | cons p c ih =>
    obtain ⟨k0, v0⟩ := p
    simp only [Counts.keys, List.map_cons, List.mem_cons, not_or] at h
    have : ¬ k0 = k := fun e => h.1 e.symm
    simp [Counts.get, this, ih (by simpa [Counts.keys] using h.2)]

theorem Counts.get_pop (c : Counts) (k k' : String) (h : (Counts.keys c).Nodup) :
    (c.pop k).get k' = if k = k' then 0 else c.get k' := by
  induction c with
  | nil => simp [Counts.pop, Counts.get]
  | cons p c ih =>
    obtain ⟨k0, v0⟩ := p
    have hc : (Counts.keys c).Nodup := (List.nodup_cons.mp h).2
    have hn : k0 ∉ Counts.keys c := (List.nodup_cons.mp h).1
    unfold Counts.pop
    by_cases h0 : k0 = k
    · subst h0
      by_cases hk : k0 = k'
      · subst hk; simp [Counts.get_of_not_mem c k0 hn]
      · simp [Counts.get, hk]
    · simp only [h0, if_false]
      by_cases hk : k0 = k'
      · subst hk
        have : ¬ k = k0 := fun e => h0 e.symm
        simp [Counts.get, this]
      · simp [Counts.get, hk, ih hc]

theorem Counts.mem_keys_pop (c : Counts) (k x : String) : x ∈ Counts.keys (c.pop k) → x ∈ Counts.keys c := by
  induction c with
  | nil => simp [Counts.pop]
  | cons p c ih =>
    obtain ⟨k0, v0⟩ := p
    unfold Counts.pop
    by_cases h0 : k0 = k
    · simp only [h0, if_true]; intro h; exact List.mem_cons_of_mem _ h
    · simp only [h0, if_false]
      intro h
      rcases List.mem_cons.mp h with h | h
      · exact h ▸ List.mem_cons_self
      · exact List.mem_cons_of_mem _ (ih h)

theorem Counts.nodup_pop (c : Counts) (k : String) (h : (Counts.keys c).Nodup) : (Counts.keys (c.pop k)).Nodup := by
  induction c with
  | nil => simp [Counts.pop, Counts.keys]
  | cons p c ih =>
    obtain ⟨k0, v0⟩ := p
    have hc : (Counts.keys c).Nodup := (List.nodup_cons.mp h).2
    have hn : k0 ∉ Counts.keys c := (List.nodup_cons.mp h).1
    unfold Counts.pop
    by_cases h0 : k0 = k
    · simp only [h0, if_true]; exact hc
    · simp only [h0, if_false]
      show (k0 :: Counts.keys (Counts.pop c k)).Nodup
      exact List.nodup_cons.mpr ⟨fun hm => hn (Counts.mem_keys_pop c k k0 hm), ih hc⟩


/-! ### group counting -/

/-- the count of a name after the group loop is what it was plus the number of visited atoms whose group has that name -/
theorem countGroups_get (a : Assign) (nbrs : List (List Nat)) (is : List Nat) (c : Counts) (g : String) :
    (countGroups a nbrs is c).get g = c.get g + ((is.filter fun i => decide (groupName a nbrs i = some g)).length : Rat) := by
  induction is generalizing c with
  | nil => simp [countGroups]
  | cons i is ih =>
    unfold countGroups
    cases hg : groupName a nbrs i with
    | none => simp [ih, hg]
    | some g' =>
      simp only [ih, Counts.get_add]
      by_cases e : g' = g
      · subst e; simp [hg]; ring
      · have : ¬ some g' = some g := fun h => e (Option.some.inj h)
        simp [hg, e]

theorem countGroups_nodup (a : Assign) (nbrs : List (List Nat)) (is : List Nat) (c : Counts)
    (h : (Counts.keys c).Nodup) : (Counts.keys (countGroups a nbrs is c)).Nodup := by
  induction is generalizing c with
  | nil => simpa [countGroups]
  | cons i is ih =>
    unfold countGroups
    cases groupName a nbrs i with
    | none => exact ih c h
    | some g' => exact ih _ (Counts.nodup_add c g' 1 h)

/-! ### remaps -/

/-- contribution of a target list to the name `t` when the remapped count is `n` -/
def targetSum (n : Rat) (ts : List (Rat × String)) (t : String) : Rat :=
  (ts.map fun p => if p.2 = t then n * p.1 else 0).sum

theorem applyTargets_get (n : Rat) (ts : List (Rat × String)) (c : Counts) (t : String) :
    (applyTargets n ts c).get t = c.get t + targetSum n ts t := by
  induction ts generalizing c with
  | nil => simp [applyTargets, targetSum]
  | cons p ts ih =>
    obtain ⟨coef, t'⟩ := p
    simp only [applyTargets, ih, Counts.get_add, targetSum, List.map_cons, List.sum_cons]
    ring

theorem applyTargets_nodup (n : Rat) (ts : List (Rat × String)) (c : Counts) (h : (Counts.keys c).Nodup) :
    (Counts.keys (applyTargets n ts c)).Nodup := by
  induction ts generalizing c with
  | nil => simpa [applyTargets]
  | cons p ts ih =>
    obtain ⟨coef, t'⟩ := p
    simp only [applyTargets]
    exact ih _ (Counts.nodup_add c t' _ h)

/-- no target of any rule is itself a key of a rule -/
def ChainFree (rm : List (String × List (Rat × String))) : Prop :=
  ∀ k ts, lookupRemap rm k = some ts → ∀ p ∈ ts, lookupRemap rm p.2 = none

theorem targetSum_zero_of_not_target (n : Rat) (ts : List (Rat × String)) (t : String)
    (h : ∀ p ∈ ts, p.2 ≠ t) : targetSum n ts t = 0 := by
  induction ts with
  | nil => simp [targetSum]
  | cons p ts ih =>
    have h1 : p.2 ≠ t := h p (by simp)
    have h2 : ∀ q ∈ ts, q.2 ≠ t := fun q hq => h q (by simp [hq])
    simp only [targetSum, List.map_cons, List.sum_cons, h1, if_false, zero_add]
    exact ih h2

/-- contribution to `t` of the key `k` holding `v` under the table: itself if not remapped, else its targets' shares -/
def contrib (rm : List (String × List (Rat × String))) (k : String) (v : Rat) (t : String) : Rat :=
  match lookupRemap rm k with
  | none => if k = t then v else 0
  | some ts => targetSum v ts t

/-- the remap loop over remaining snapshot keys `ks`, from current dictionary `cur` -/
theorem applyRemaps_get (rm : List (String × List (Rat × String))) (hcf : ChainFree rm)
    (ks : List String) (hks : ks.Nodup) (cur : Counts) (hcur : (Counts.keys cur).Nodup) (t : String) :
    (applyRemaps rm ks cur).get t =
      (if t ∈ ks ∧ (lookupRemap rm t).isSome then 0 else cur.get t)
      + (ks.map fun k => match lookupRemap rm k with | none => 0 | some ts => targetSum (cur.get k) ts t).sum := by
  induction ks generalizing cur with
  | nil => simp [applyRemaps]
  | cons k ks ih =>
    obtain ⟨hk, hks'⟩ := List.nodup_cons.mp hks
    unfold applyRemaps
    cases hl : lookupRemap rm k with
    | none =>
      simp only
      rw [ih hks' cur hcur]
      simp only [List.map_cons, List.sum_cons, hl, zero_add]
      congr 1
      by_cases e : t = k
      · subst e; simp [hl, hk]
      · simp [e]
    | some ts =>
      simp only
      have hcur' : (Counts.keys (applyTargets (cur.get k) ts (cur.pop k))).Nodup :=
        applyTargets_nodup _ _ _ (Counts.nodup_pop cur k hcur)
      rw [ih hks' _ hcur']
      simp only [List.map_cons, List.sum_cons, hl]
      -- values of later remapped keys are unaffected
      have hsame : ∀ k' ∈ ks, ∀ ts', lookupRemap rm k' = some ts' →
          (applyTargets (cur.get k) ts (cur.pop k)).get k' = cur.get k' := by
        intro k' hk' ts' hl'
        rw [applyTargets_get, Counts.get_pop _ _ _ hcur]
        have hne : ¬ k = k' := fun e => hk (e ▸ hk')
        have hnt : ∀ p ∈ ts, p.2 ≠ k' := by
          intro p hp e
          have := hcf k ts hl p hp
          rw [e, hl'] at this; cases this
        simp [hne, targetSum_zero_of_not_target _ _ _ hnt]
      have hsum : (ks.map fun k' => match lookupRemap rm k' with
            | none => 0 | some ts' => targetSum ((applyTargets (cur.get k) ts (cur.pop k)).get k') ts' t).sum
          = (ks.map fun k' => match lookupRemap rm k' with
            | none => 0 | some ts' => targetSum (cur.get k') ts' t).sum := by
        congr 1
        apply List.map_congr_left
        intro k' hk'
        cases hl' : lookupRemap rm k' with
        | none => rfl
        | some ts' => simp only; rw [hsame k' hk' ts' hl']
      rw [hsum, applyTargets_get, Counts.get_pop _ _ _ hcur]
      by_cases e : t = k
      · subst e
        have hnt : ∀ p ∈ ts, p.2 ≠ t := by
          intro p hp e'
          have := hcf t ts hl p hp
          rw [e', hl] at this; cases this
        simp [hl, targetSum_zero_of_not_target _ _ _ hnt]
      · have e' : ¬ k = t := fun h => e h.symm
        simp only [e', if_false, List.mem_cons, e, false_or]
        by_cases hc : t ∈ ks ∧ (lookupRemap rm t).isSome = true
        · have hnt : ∀ p ∈ ts, p.2 ≠ t := by
            intro p hp e2
            have := hcf k ts hl p hp
            rw [e2] at this; rw [this] at hc; simp at hc
          simp only [hc, and_self, if_true, targetSum_zero_of_not_target _ _ _ hnt]
          ring
        · simp only [hc, if_false]
          ring


theorem Counts.get_of_mem (c : Counts) (h : (Counts.keys c).Nodup) (p : String × Rat) (hp : p ∈ c) : c.get p.1 = p.2 := by
  induction c with
  | nil => cases hp
  | cons q c ih =>
    obtain ⟨k0, v0⟩ := q
    have hc : (Counts.keys c).Nodup := (List.nodup_cons.mp h).2
    have hn : k0 ∉ Counts.keys c := (List.nodup_cons.mp h).1
    rcases List.mem_cons.mp hp with e | hp'
    · subst e; simp [Counts.get]
    · have : ¬ k0 = p.1 := by
        intro e; apply hn; rw [e]; exact List.mem_map_of_mem hp'
      simp [Counts.get, this, ih hc hp']

theorem sum_entries_eq_sum_keys (c : Counts) (h : (Counts.keys c).Nodup) (F : String → Rat → Rat) :
    (c.map fun p => F p.1 p.2).sum = ((Counts.keys c).map fun k => F k (c.get k)).sum := by
  unfold Counts.keys
  rw [List.map_map]
  congr 1
  apply List.map_congr_left
  intro p hp
  simp [Function.comp, Counts.get_of_mem c h p hp]

theorem sum_ite_eq_nodup (ks : List String) (h : ks.Nodup) (t : String) (f : String → Rat) :
    (ks.map fun k => if k = t then f k else 0).sum = if t ∈ ks then f t else 0 := by
  induction ks with
  | nil => simp
  | cons k ks ih =>
    obtain ⟨hk, hks⟩ := List.nodup_cons.mp h
    simp only [List.map_cons, List.sum_cons, ih hks, List.mem_cons]
    by_cases e : k = t
    · subst e; simp [hk]
    · have : ¬ t = k := fun h => e h.symm
      simp [e, this]

/-- **Remaps are the linear substitution.** For a chain-free table and a dictionary (distinct keys), the count of every
name after the remap pass is the sum over the original entries of their contributions. -/
theorem remapAll_get (rm : List (String × List (Rat × String))) (hcf : ChainFree rm)
    (c : Counts) (hc : (Counts.keys c).Nodup) (t : String) :
    (remapAll rm c).get t = (c.map fun p => contrib rm p.1 p.2 t).sum := by
  have hra : remapAll rm c = applyRemaps rm (Counts.keys c) c := rfl
  rw [hra, applyRemaps_get rm hcf (Counts.keys c) hc c hc t]
  rw [sum_entries_eq_sum_keys c hc (fun k v => contrib rm k v t)]
  -- split the contribution into the "kept" part and the "remapped" part
  have hsplit : ∀ k, contrib rm k (c.get k) t =
      (if k = t then (if (lookupRemap rm k).isSome then 0 else c.get k) else 0)
      + (match lookupRemap rm k with | none => 0 | some ts => targetSum (c.get k) ts t) := by
    intro k
    unfold contrib
    cases hl : lookupRemap rm k with
    | none => by_cases e : k = t <;> simp [e]
    | some ts => simp
  have hsum : ((Counts.keys c).map fun k => contrib rm k (c.get k) t).sum
      = ((Counts.keys c).map fun k => (if k = t then (if (lookupRemap rm k).isSome then 0 else c.get k) else 0)).sum
        + ((Counts.keys c).map fun k => match lookupRemap rm k with | none => 0 | some ts => targetSum (c.get k) ts t).sum := by
    rw [← List.sum_map_add]
    congr 1
    apply List.map_congr_left
    intro k _
    exact hsplit k
  rw [hsum]
  congr 1
  rw [sum_ite_eq_nodup (Counts.keys c) hc t (fun k => if (lookupRemap rm k).isSome then 0 else c.get k)]
  by_cases hm : t ∈ Counts.keys c
  · by_cases hr : (lookupRemap rm t).isSome = true <;> simp [hm, hr]
  · have : c.get t = 0 := Counts.get_of_not_mem c t hm
    simp [hm, this]

/-- **Key order does not matter**: two dictionaries with the same entries in a different insertion order remap alike. -/
theorem remapAll_perm (rm : List (String × List (Rat × String))) (hcf : ChainFree rm)
    (c c' : Counts) (hc : (Counts.keys c).Nodup) (hp : c.Perm c') (t : String) :
    (remapAll rm c).get t = (remapAll rm c').get t := by
  have hc' : (Counts.keys c').Nodup := (hp.map _).nodup_iff.mp hc
  rw [remapAll_get rm hcf c hc, remapAll_get rm hcf c' hc']
  exact (hp.map _).sum_eq

/-! ### correction descriptors -/

theorem countDescs_get (ds : List DescPat) (c : Counts) (name : String) :
    (countDescs ds c).get name =
      c.get name + ((ds.filter fun d => decide (d.name = name)).map fun d => (distinctSets d.ms : Rat)).sum := by
  induction ds generalizing c with
  | nil => simp [countDescs]
  | cons d ds ih =>
    unfold countDescs
    by_cases hz : distinctSets d.ms = 0
    · simp only [hz, beq_self_eq_true, if_true]
      rw [ih]
      by_cases e : d.name = name <;> simp [List.filter_cons, e, hz]
    · have : (distinctSets d.ms == 0) = false := by simp [hz]
      simp only [this, Bool.false_eq_true, if_false]
      rw [ih, Counts.get_add]
      by_cases e : d.name = name
      · simp [List.filter_cons, e]; ring
      · simp [List.filter_cons, e]


theorem countDescs_nodup (ds : List DescPat) (c : Counts) (h : (Counts.keys c).Nodup) :
    (Counts.keys (countDescs ds c)).Nodup := by
  induction ds generalizing c with
  | nil => simpa [countDescs]
  | cons d ds ih =>
    unfold countDescs
    simp only
    split
    · exact ih c h
    · exact ih _ (Counts.nodup_add c d.name _ h)

theorem applyRemaps_nodup (rm : List (String × List (Rat × String))) (ks : List String) (c : Counts)
    (h : (Counts.keys c).Nodup) : (Counts.keys (applyRemaps rm ks c)).Nodup := by
  induction ks generalizing c with
  | nil => simpa [applyRemaps]
  | cons k ks ih =>
    unfold applyRemaps
    cases lookupRemap rm k with
    | none => exact ih c h
    | some ts => exact ih _ (applyTargets_nodup _ _ _ (Counts.nodup_pop c k h))

theorem remapAll_nodup (rm : List (String × List (Rat × String))) (c : Counts) (h : (Counts.keys c).Nodup) :
    (Counts.keys (remapAll rm c)).Nodup := applyRemaps_nodup rm _ c h

/-! ### the final `dict.update` -/

theorem Counts.get_set (c : Counts) (k k' : String) (v : Rat) :
    (c.set k v).get k' = if k = k' then v else c.get k' := by
  induction c with
  | nil => simp [Counts.set, Counts.get]
  | cons p c ih =>
    obtain ⟨k0, v0⟩ := p
    unfold Counts.set
    by_cases h0 : k0 = k
    · subst h0
      by_cases hk : k0 = k' <;> simp [Counts.get, hk]
    · simp only [h0, if_false]
      by_cases hk : k0 = k'
      · subst hk
        have : ¬ k = k0 := fun e => h0 e.symm
        simp [Counts.get, this]
      · simp [Counts.get, hk, ih]

/-- `all = groups.copy(); all.update(descs)`: a name present among the correction descriptors takes their value,
any other name keeps the group value -/
theorem mergeUpdate_get (g d : Counts) (hd : (Counts.keys d).Nodup) (t : String) :
    (mergeUpdate g d).get t = if t ∈ Counts.keys d then d.get t else g.get t := by
  induction d generalizing g with
  | nil => simp [mergeUpdate, Counts.keys]
  | cons p d ih =>
    obtain ⟨k, v⟩ := p
    have hd' : (Counts.keys d).Nodup := (List.nodup_cons.mp hd).2
    have hn : k ∉ Counts.keys d := (List.nodup_cons.mp hd).1
    simp only [mergeUpdate]
    rw [ih _ hd', Counts.get_set]
    have hk : Counts.keys ((k, v) :: d) = k :: Counts.keys d := rfl
    by_cases e : k = t
    · subst e
      simp [hn, hk, Counts.get]
    · have e' : ¬ t = k := fun h => e h.symm
      simp [hk, Counts.get, e, e']

end PGA.Scheme
