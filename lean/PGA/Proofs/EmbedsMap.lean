import PGA.Spec.MolIso
import Mathlib.Data.List.Nodup
import Mathlib.Data.List.Perm.Basic
/-! Transport of the embedding relation `Spec.Embeds` along a map of graphs that keeps everything an atom
constraint can see (`Spec.OpenMap`): `Embeds q m' (f.map φ) ↔ Embeds q m f`. -/
namespace PGA.Spec
open PGA

variable {φ : Nat → Nat} {m m' : Mol}

theorem relabel_bondHolds (bs : BondSpec) (e : Bond) : BondHolds bs (relabelBond φ e) ↔ BondHolds bs e := by
  cases bs <;> exact Iff.rfl

/-- the three ring facts of an `OpenMap` from "the rings through the image are the images of the rings through the atom" -/
theorem rings_facts_of_eq (hr : ringsThrough m' (φ x) = (ringsThrough m x).map (List.map φ)) :
    (OnRing m' (φ x) ↔ OnRing m x) ∧
    (∀ cn : CN, ((∃ r ∈ m'.rings, φ x ∈ r ∧ CNHolds cn r.length) ↔ (∃ r ∈ m.rings, x ∈ r ∧ CNHolds cn r.length))) ∧
    (ringsThrough m' (φ x)).length = (ringsThrough m x).length := by
  have key : ∀ (P : Nat → Prop), (∃ r ∈ m'.rings, φ x ∈ r ∧ P r.length) ↔ (∃ r ∈ m.rings, x ∈ r ∧ P r.length) := by
    intro P
    constructor
    · rintro ⟨r', hr', hxr', hcn⟩
      have : r' ∈ ringsThrough m' (φ x) := by
        unfold ringsThrough; exact List.mem_filter.2 ⟨hr', by simpa using hxr'⟩
      rw [hr] at this
      obtain ⟨r, hrm, rfl⟩ := List.mem_map.1 this
      unfold ringsThrough at hrm
      obtain ⟨h1, h2⟩ := List.mem_filter.1 hrm
      exact ⟨r, h1, by simpa using h2, by simpa using hcn⟩
    · rintro ⟨r, hrm, hxr, hcn⟩
      have : r.map φ ∈ ringsThrough m' (φ x) := by
        rw [hr]; refine List.mem_map.2 ⟨r, ?_, rfl⟩
        unfold ringsThrough; exact List.mem_filter.2 ⟨hrm, by simpa using hxr⟩
      unfold ringsThrough at this
      obtain ⟨h1, h2⟩ := List.mem_filter.1 this
      exact ⟨r.map φ, h1, by simpa using h2, by simpa using hcn⟩
  refine ⟨?_, fun cn => key (fun n => CNHolds cn n), by rw [hr, List.length_map]⟩
  unfold OnRing
  have := key (fun _ => True)
  simpa using this

/-- an `OpenMap` from the list form of the ring condition -/
theorem OpenMap.ofRingsEq (inj : Function.Injective φ)
    (atoms : ∀ x, x < m.natoms → m'.atom? (φ x) = m.atom? x)
    (bonds : ∀ x y, x < m.natoms → y < m.natoms → m'.bondBetween (φ x) (φ y) = (m.bondBetween x y).map (relabelBond φ))
    (closed : ∀ x y' e', x < m.natoms → m'.bondBetween (φ x) y' = some e' → ∃ y, y < m.natoms ∧ y' = φ y)
    (double : ∀ x, x < m.natoms → ((∃ e ∈ m'.bonds, e.touches (φ x) = true ∧ e.kind = .double) ↔
      (∃ e ∈ m.bonds, e.touches x = true ∧ e.kind = .double)))
    (rings : ∀ x, x < m.natoms → ringsThrough m' (φ x) = (ringsThrough m x).map (List.map φ)) : OpenMap φ m m' :=
  ⟨inj, atoms, bonds, closed, double, fun x hx => (rings_facts_of_eq (rings x hx)).1,
    fun x hx => (rings_facts_of_eq (rings x hx)).2.1, fun x hx => (rings_facts_of_eq (rings x hx)).2.2⟩

theorem OpenMap.typeHolds (h : OpenMap φ m m') (t : AtomType) (x : Nat) (hx : x < m.natoms) :
    TypeHolds m' t (φ x) ↔ TypeHolds m t x := by
  unfold TypeHolds
  rw [h.atoms x hx]
  cases m.atom? x with
  | none => exact Iff.rfl
  | some a =>
    simp only
    refine and_congr Iff.rfl (and_congr Iff.rfl ?_)
    cases t.pre with
    | none => exact Iff.rfl
    | some p =>
      cases p with
      | aromatic => exact Iff.rfl
      | nonaromatic => exact Iff.rfl
      | ringatom => exact h.onRing x hx
      | nonringatom => exact not_congr (h.onRing x hx)
      | allylic => exact h.double x hx

theorem OpenMap.adjacent (h : OpenMap φ m m') (bs : BondSpec) (x y : Nat) (hx : x < m.natoms) (hy : y < m.natoms) :
    Adjacent m' (φ x) (φ y) (BondHolds bs) ↔ Adjacent m x y (BondHolds bs) := by
  unfold Adjacent
  rw [h.bonds x y hx hy]
  cases m.bondBetween x y with
  | none => exact Iff.rfl
  | some e => exact relabel_bondHolds bs e

theorem OpenMap.lt (h : OpenMap φ m m') (x : Nat) (hx : x < m.natoms) : φ x < m'.natoms := by
  have := h.atoms x hx
  unfold Mol.atom? Mol.natoms at *
  have h2 : m.atoms[x]? ≠ none := by
    intro hn; rw [List.getElem?_eq_none_iff] at hn; omega
  by_contra hc
  have : m'.atoms[φ x]? = none := List.getElem?_eq_none_iff.2 (by omega)
  simp_all

theorem OpenMap.neighbours (h : OpenMap φ m m') (t : AtomType) (bs : BondSpec) (x : Nat) (hx : x < m.natoms) :
    (Spec.neighbours m' (φ x) t bs).length = (Spec.neighbours m x t bs).length := by
  have hperm : (Spec.neighbours m' (φ x) t bs).Perm ((Spec.neighbours m x t bs).map φ) := by
    rw [List.perm_ext_iff_of_nodup]
    · intro y'
      unfold Spec.neighbours
      simp only [List.mem_filter, List.mem_range, decide_eq_true_eq, List.mem_map]
      constructor
      · rintro ⟨hy', hadj, hty⟩
        have hsome : ∃ e', m'.bondBetween (φ x) y' = some e' := by
          unfold Adjacent at hadj
          cases hb : m'.bondBetween (φ x) y' with
          | none => rw [hb] at hadj; exact absurd hadj (by simp)
          | some e' => exact ⟨e', rfl⟩
        obtain ⟨e', he'⟩ := hsome
        obtain ⟨y, hy, rfl⟩ := h.closed x y' e' hx he'
        exact ⟨y, ⟨hy, (h.adjacent bs x y hx hy).1 hadj, (h.typeHolds t y hy).1 hty⟩, rfl⟩
      · rintro ⟨y, ⟨hy, hadj, hty⟩, rfl⟩
        exact ⟨h.lt y hy, (h.adjacent bs x y hx hy).2 hadj, (h.typeHolds t y hy).2 hty⟩
    · unfold Spec.neighbours; exact (List.nodup_range).filter _
    · unfold Spec.neighbours; exact ((List.nodup_range).filter _).map h.inj
  rw [hperm.length_eq, List.length_map]

theorem OpenMap.consHolds (h : OpenMap φ m m') (c : ACons) (x : Nat) (hx : x < m.natoms) :
    ConsHolds m' (φ x) c ↔ ConsHolds m x c := by
  cases c with
  | conn neg cn t bs =>
    simp only [ConsHolds]
    rw [h.neighbours t bs x hx]
  | ringSize neg cn =>
    simp only [ConsHolds]
    have := h.ringSize x hx cn
    unfold Negated
    split
    · exact not_congr this
    · exact this
  | radical neg cn =>
    simp only [ConsHolds]
    rw [h.atoms x hx]
  | nRing neg cn =>
    simp only [ConsHolds]
    rw [h.nRing x hx]

theorem OpenMap.atomHolds (h : OpenMap φ m m') (qa : QAtom) (x : Nat) (hx : x < m.natoms) :
    AtomHolds m' qa (φ x) ↔ AtomHolds m qa x := by
  unfold AtomHolds
  exact and_congr (h.typeHolds qa.ty x hx) (forall_congr' fun c => forall_congr' fun _ => h.consHolds c x hx)

/-! ### stereo statements -/
theorem contains_map_inj (hinj : Function.Injective φ) (l : List Nat) (x : Nat) : (l.map φ).contains (φ x) = l.contains x := by
  rw [Bool.eq_iff_iff]
  simp only [List.contains_iff_mem, List.mem_map]
  constructor
  · rintro ⟨y, hy, he⟩; rwa [← hinj he]
  · intro hx; exact ⟨x, hx, rfl⟩

theorem sameSide_relabel (hinj : Function.Injective φ) (e : Bond) (x1 x2 : Nat) :
    sameSide (relabelBond φ e) (φ x1) (φ x2) = sameSide e x1 x2 := by
  unfold sameSide relabelBond
  simp only
  have : (([φ x1, φ x2].eraseDups).filter ((e.stereoAtoms.map φ).contains ·)).length
      = (([x1, x2].eraseDups).filter (e.stereoAtoms.contains ·)).length := by
    by_cases h12 : x1 = x2
    · subst h12
      have e1 : [φ x1, φ x1].eraseDups = [φ x1] := by simp [List.eraseDups_cons]
      have e2 : [x1, x1].eraseDups = [x1] := by simp [List.eraseDups_cons]
      rw [e1, e2]
      simp only [List.filter_cons, List.filter_nil, contains_map_inj hinj]
      cases e.stereoAtoms.contains x1 <;> rfl
    · have h12' : φ x1 ≠ φ x2 := fun hh => h12 (hinj hh)
      have e1 : [φ x1, φ x2].eraseDups = [φ x1, φ x2] := by
        simp [List.eraseDups_cons, h12', Ne.symm h12']
      have e2 : [x1, x2].eraseDups = [x1, x2] := by
        simp [List.eraseDups_cons, h12, Ne.symm h12]
      rw [e1, e2]
      simp only [List.filter_cons, List.filter_nil, contains_map_inj hinj]
      cases e.stereoAtoms.contains x1 <;> cases e.stereoAtoms.contains x2 <;> rfl
  rw [this]

theorem stereoRel_relabel (hinj : Function.Injective φ) (e : Bond) (x1 x2 : Nat) (k : StereoKind) :
    StereoRel (relabelBond φ e) (φ x1) (φ x2) k ↔ StereoRel e x1 x2 k := by
  cases k <;> simp only [StereoRel, sameSide_relabel hinj] <;> exact Iff.rfl

/-! ### embeddings -/
theorem getElem?_map_some (f : List Nat) (hinj : Function.Injective φ) (i x : Nat) :
    (f.map φ)[i]? = some (φ x) ↔ f[i]? = some x := by
  rw [List.getElem?_map]
  cases f[i]? with
  | none => simp
  | some y => simp only [Option.map, Option.some.injEq]; exact ⟨fun hh => hinj hh, fun hh => by rw [hh]⟩

/-- **Transport of embeddings.** For an assignment `f` into the atoms of `m`: `f` followed by `φ` embeds the query in
`m'` exactly when `f` embeds it in `m` — provided the query's molecule-level prefixes (which look at the whole
molecule) agree on the two graphs. -/
theorem OpenMap.embeds (h : OpenMap φ m m') (q : Query) (f : List Nat) (hf : ∀ x ∈ f, x < m.natoms)
    (hmol : ∀ p ∈ q.molPre, (MolPrefixHolds m' p ↔ MolPrefixHolds m p)) :
    Embeds q m' (f.map φ) ↔ Embeds q m f := by
  have hin := h.inj
  have key_bond : ∀ (i j : Nat) (bs : BondSpec), BondAt m' (f.map φ) i j (BondHolds bs) ↔ BondAt m f i j (BondHolds bs) := by
    intro i j bs
    unfold BondAt
    constructor
    · rintro ⟨x', y', e', hx', hy', hb, hP⟩
      rw [List.getElem?_map] at hx' hy'
      cases hfi : f[i]? with
      | none => rw [hfi] at hx'; cases hx'
      | some x =>
        cases hfj : f[j]? with
        | none => rw [hfj] at hy'; cases hy'
        | some y =>
          rw [hfi] at hx'; rw [hfj] at hy'
          simp only [Option.map, Option.some.injEq] at hx' hy'
          subst hx' hy'
          have hxl := hf x (List.mem_of_getElem? hfi)
          have hyl := hf y (List.mem_of_getElem? hfj)
          rw [h.bonds x y hxl hyl] at hb
          cases hbm : m.bondBetween x y with
          | none => rw [hbm] at hb; cases hb
          | some e =>
            rw [hbm] at hb
            simp only [Option.map, Option.some.injEq] at hb
            subst hb
            exact ⟨x, y, e, rfl, rfl, hbm, (relabel_bondHolds bs e).1 hP⟩
    · rintro ⟨x, y, e, hx, hy, hb, hP⟩
      have hxl := hf x (List.mem_of_getElem? hx)
      have hyl := hf y (List.mem_of_getElem? hy)
      refine ⟨φ x, φ y, relabelBond φ e, ?_, ?_, ?_, (relabel_bondHolds bs e).2 hP⟩
      · rw [List.getElem?_map, hx]; rfl
      · rw [List.getElem?_map, hy]; rfl
      · rw [h.bonds x y hxl hyl, hb]; rfl
  have key_stereo : ∀ s : QStereo, StereoHolds m' (f.map φ) s ↔ StereoHolds m f s := by
    intro s
    unfold StereoHolds
    constructor
    · rintro ⟨x1', x2', x3', x4', e', h1, h2, h3, h4, hb, hn⟩
      rw [List.getElem?_map] at h1 h2 h3 h4
      cases g1 : f[s.i1]? with
      | none => rw [g1] at h1; cases h1
      | some x1 =>
      cases g2 : f[s.i2]? with
      | none => rw [g2] at h2; cases h2
      | some x2 =>
      cases g3 : f[s.i3]? with
      | none => rw [g3] at h3; cases h3
      | some x3 =>
      cases g4 : f[s.i4]? with
      | none => rw [g4] at h4; cases h4
      | some x4 =>
        rw [g1] at h1; rw [g2] at h2; rw [g3] at h3; rw [g4] at h4
        simp only [Option.map, Option.some.injEq] at h1 h2 h3 h4
        subst h1 h2 h3 h4
        have l3 := hf x3 (List.mem_of_getElem? g3)
        have l4 := hf x4 (List.mem_of_getElem? g4)
        rw [h.bonds x3 x4 l3 l4] at hb
        cases hbm : m.bondBetween x3 x4 with
        | none => rw [hbm] at hb; cases hb
        | some e =>
          rw [hbm] at hb
          simp only [Option.map, Option.some.injEq] at hb
          subst hb
          refine ⟨x1, x2, x3, x4, e, rfl, rfl, rfl, rfl, hbm, ?_⟩
          unfold Negated at hn ⊢
          split at hn
          · rename_i hneg; rw [if_pos hneg]; exact fun hh => hn ((stereoRel_relabel hin e x1 x2 s.kind).2 hh)
          · rename_i hneg; rw [if_neg hneg]; exact (stereoRel_relabel hin e x1 x2 s.kind).1 hn
    · rintro ⟨x1, x2, x3, x4, e, h1, h2, h3, h4, hb, hn⟩
      have l3 := hf x3 (List.mem_of_getElem? h3)
      have l4 := hf x4 (List.mem_of_getElem? h4)
      refine ⟨φ x1, φ x2, φ x3, φ x4, relabelBond φ e, ?_, ?_, ?_, ?_, ?_, ?_⟩
      · rw [List.getElem?_map, h1]; rfl
      · rw [List.getElem?_map, h2]; rfl
      · rw [List.getElem?_map, h3]; rfl
      · rw [List.getElem?_map, h4]; rfl
      · rw [h.bonds x3 x4 l3 l4, hb]; rfl
      · unfold Negated at hn ⊢
        split at hn
        · rename_i hneg; rw [if_pos hneg]; exact fun hh => hn ((stereoRel_relabel hin e x1 x2 s.kind).1 hh)
        · rename_i hneg; rw [if_neg hneg]; exact (stereoRel_relabel hin e x1 x2 s.kind).2 hn
  constructor
  · intro E
    refine ⟨by simpa using E.length, (List.nodup_map_iff hin).1 E.inj, hf, ?_, ?_, ?_, ?_⟩
    · intro i qa x hq hx
      have hx' : (f.map φ)[i]? = some (φ x) := (getElem?_map_some f hin i x).2 hx
      exact (h.atomHolds qa x (hf x (List.mem_of_getElem? hx))).1 (E.atoms i qa (φ x) hq hx')
    · intro b hb; exact (key_bond b.i b.j b.spec).1 (E.bonds b hb)
    · intro p hp; exact (hmol p hp).1 (E.molecule p hp)
    · intro s hs; exact (key_stereo s).1 (E.stereo s hs)
  · intro E
    refine ⟨by simpa using E.length, (List.nodup_map_iff hin).2 E.inj, ?_, ?_, ?_, ?_, ?_⟩
    · intro x' hx'
      obtain ⟨x, hx, rfl⟩ := List.mem_map.1 hx'
      exact h.lt x (hf x hx)
    · intro i qa x' hq hx'
      rw [List.getElem?_map] at hx'
      cases hfi : f[i]? with
      | none => rw [hfi] at hx'; cases hx'
      | some x =>
        rw [hfi] at hx'
        simp only [Option.map, Option.some.injEq] at hx'
        subst hx'
        exact (h.atomHolds qa x (hf x (List.mem_of_getElem? hfi))).2 (E.atoms i qa x hq hfi)
    · intro b hb; exact (key_bond b.i b.j b.spec).2 (E.bonds b hb)
    · intro p hp; exact (hmol p hp).2 (E.molecule p hp)
    · intro s hs; exact (key_stereo s).2 (E.stereo s hs)

end PGA.Spec
