import PGA.Model.Match
import Mathlib.Data.List.Nodup
import Mathlib.Data.List.Perm.Basic
import Mathlib.Data.List.Perm.Lattice
/-! Counting the bonds at an atom (what `AtomConnectivityAtom` does) is counting its neighbours
(what the property text says), in every well-formed graph. -/
namespace PGA.Match

theorem wf_bonds (m : Mol) (h : m.wf = true) :
    (∀ e ∈ m.bonds, e.a < m.natoms ∧ e.b < m.natoms ∧ e.a ≠ e.b) ∧
    m.bonds.Pairwise (fun e e' => e'.joins e.a e.b = false) ∧
    (∀ r ∈ m.rings, r.Nodup) := by
  simp only [Mol.wf, Bool.and_eq_true, List.all_eq_true, decide_eq_true_eq, bne_iff_ne, ne_eq] at h
  obtain ⟨⟨h1, h2⟩, h3⟩ := h
  refine ⟨fun e he => ?_, ?_, fun r hr => ?_⟩
  · have := h1 e he; exact ⟨this.1.1, this.1.2, this.2⟩
  · exact h2.imp (by intro a b hab; simpa using hab)
  · exact (h3 r hr).1

theorem joins_self (e : Bond) : e.joins e.a e.b = true := by simp [Bond.joins]

theorem joins_other (e : Bond) (x : Nat) (h : e.touches x = true) : e.joins x (e.other x) = true := by
  simp only [Bond.touches, Bool.or_eq_true, beq_iff_eq] at h
  simp only [Bond.joins, Bond.other, Bool.or_eq_true, Bool.and_eq_true, beq_iff_eq]
  by_cases ha : e.a = x
  · simp [ha]
  · have hb : e.b = x := by tauto
    simp [ha, hb]

theorem other_of_joins (e : Bond) (x y : Nat) (h : e.joins x y = true) :
    e.touches x = true ∧ e.other x = y := by
  simp only [Bond.joins, Bool.or_eq_true, Bool.and_eq_true, beq_iff_eq] at h
  simp only [Bond.touches, Bond.other, Bool.or_eq_true, beq_iff_eq]
  rcases h with ⟨h1, h2⟩ | ⟨h1, h2⟩
  · simp [h1, h2]
  · refine ⟨Or.inr h2, ?_⟩
    by_cases ha : e.a = x
    · simp [ha]; omega
    · subst h1 h2; simp [ha]

/-- if two bonds join the same pair of atoms, each joins the other's endpoints -/
theorem joins_ends (e e' : Bond) (x y : Nat) (h : e.joins x y = true) (h' : e'.joins x y = true) :
    e.joins e'.a e'.b = true := by
  simp only [Bond.joins, Bool.or_eq_true, Bool.and_eq_true, beq_iff_eq] at h h' ⊢
  rcases h with ⟨h1, h2⟩ | ⟨h1, h2⟩ <;> rcases h' with ⟨h3, h4⟩ | ⟨h3, h4⟩ <;> simp [h1, h2, h3, h4]

/-- in a graph without parallel bonds, `GetBondBetweenAtoms` finds *the* bond joining two atoms -/
theorem bondBetween_of_mem (m : Mol) (hp : m.bonds.Pairwise (fun e e' => e'.joins e.a e.b = false))
    (e : Bond) (he : e ∈ m.bonds) (x y : Nat) (hj : e.joins x y = true) :
    m.bondBetween x y = some e := by
  unfold Mol.bondBetween
  cases hf : m.bonds.find? (·.joins x y) with
  | none =>
    have := List.find?_eq_none.1 hf e he
    simp [hj] at this
  | some e' =>
    rw [List.find?_eq_some_iff_append] at hf
    obtain ⟨hj', as, bs, hl, hnot⟩ := hf
    have hj' : e'.joins x y = true := by simpa using hj'
    rw [hl] at he hp
    rcases List.mem_append.1 he with h | h
    · have := hnot e h; simp [hj] at this
    · rcases List.mem_cons.1 h with h | h
      · rw [h]
      · have hp' := (List.pairwise_append.1 hp).2.1
        have := (List.pairwise_cons.1 hp').1 e h
        rw [joins_ends e e' x y hj hj'] at this
        exact absurd this (by simp)

theorem bonds_nodup (m : Mol) (hp : m.bonds.Pairwise (fun e e' => e'.joins e.a e.b = false)) :
    m.bonds.Nodup := by
  refine hp.imp ?_
  intro a b hab hEq
  subst hEq
  rw [joins_self] at hab
  exact absurd hab (by simp)

/-- **bond count = neighbour count** -/
theorem count_bonds_eq_neighbours (m : Mol) (h : m.wf = true) (x : Nat) (P : Nat → Bond → Bool) :
    ((m.bondsOf x).filter fun e => P (e.other x) e).length =
    ((List.range m.natoms).filter fun y =>
      match m.bondBetween x y with
      | some e => P y e
      | none => false).length := by
  obtain ⟨hw1, hw2, _⟩ := wf_bonds m h
  have F1 : ∀ e ∈ m.bondsOf x, m.bondBetween x (e.other x) = some e := by
    intro e he
    simp only [Mol.bondsOf, List.mem_filter] at he
    exact bondBetween_of_mem m hw2 e he.1 _ _ (joins_other e x he.2)
  have F2 : ∀ y e, m.bondBetween x y = some e → e ∈ m.bondsOf x ∧ e.other x = y := by
    intro y e hb
    unfold Mol.bondBetween at hb
    have hmem := List.mem_of_find?_eq_some hb
    have hj := List.find?_some hb
    have := other_of_joins e x y (by simpa using hj)
    exact ⟨by simp [Mol.bondsOf, hmem, this.1], this.2⟩
  have F4 : ∀ e ∈ m.bondsOf x, e.other x < m.natoms := by
    intro e he
    simp only [Mol.bondsOf, List.mem_filter] at he
    have := hw1 e he.1
    unfold Bond.other; split <;> omega
  have Bnodup : (m.bondsOf x).Nodup := (bonds_nodup m hw2).filter _
  have Ginj : ∀ e ∈ m.bondsOf x, ∀ e' ∈ m.bondsOf x, e.other x = e'.other x → e = e' := by
    intro e he e' he' hEq
    have h1 := F1 e he
    have h2 := F1 e' he'
    rw [hEq, h2] at h1
    exact (Option.some.inj h1).symm
  have hperm : ((List.range m.natoms).filter fun y =>
      match m.bondBetween x y with
      | some e => P y e
      | none => false).Perm
      (((m.bondsOf x).filter fun e => P (e.other x) e).map (·.other x)) := by
    rw [List.perm_ext_iff_of_nodup ((List.nodup_range).filter _)]
    · intro y
      simp only [List.mem_filter, List.mem_range, List.mem_map]
      constructor
      · rintro ⟨_, hq⟩
        cases hb : m.bondBetween x y with
        | none => simp [hb] at hq
        | some e =>
          simp only [hb] at hq
          obtain ⟨he, ho⟩ := F2 y e hb
          exact ⟨e, ⟨he, by rw [ho]; exact hq⟩, ho⟩
      · rintro ⟨e, ⟨he, hp⟩, rfl⟩
        refine ⟨F4 e he, ?_⟩
        simp only [F1 e he]; exact hp
    · refine List.Nodup.map_on ?_ (Bnodup.filter _)
      intro e he e' he' hEq
      exact Ginj e (List.mem_of_mem_filter he) e' (List.mem_of_mem_filter he') hEq
  rw [hperm.length_eq, List.length_map]

end PGA.Match
