import PGA.Proofs.Enum
/-! The candidate enumeration (`rawMatches`) returns exactly the injective, in-range assignments of
the right length that pass every query atom and every declared bond's type test. -/
namespace PGA.Match

/-- what RDKit's candidate enumeration stands for -/
structure Cand (q : Query) (m : Mol) (f : List Nat) : Prop where
  length : f.length = q.atoms.length
  inj : f.Nodup
  range : ∀ x ∈ f, x < m.natoms
  atoms : ∀ (i : Nat) (qa : QAtom) (x : Nat), q.atoms[i]? = some qa → f[i]? = some x →
    ∃ a, m.atom? x = some a ∧ rdAtomMatch qa.ty a = true
  bonds : ∀ b ∈ q.bonds, bondAt m f b.i b.j (rdBondMatch b.spec) = true

theorem nodup_iff_not_mem_take (f : List Nat) :
    f.Nodup ↔ ∀ (i : Nat) (hi : i < f.length), f[i] ∉ f.take i := by
  constructor
  · intro h i hi hmem
    have e : f = f.take i ++ f[i] :: f.drop (i + 1) := by
      rw [List.getElem_cons_drop]; exact (List.take_append_drop i f).symm
    rw [e] at h
    have := (List.nodup_append.1 h).2.2
    exact this _ hmem _ (List.mem_cons_self) rfl
  · intro h
    have key : ∀ j, j ≤ f.length → (f.take j).Nodup := by
      intro j
      induction j with
      | zero => intro _; simp
      | succ j ih =>
        intro hj
        have hj' : j < f.length := by omega
        rw [List.take_succ_eq_append_getElem hj']
        rw [List.nodup_append]
        refine ⟨ih (by omega), by simp, ?_⟩
        intro a ha b hb
        simp at hb
        subst hb
        rintro rfl
        exact h j hj' ha
    simpa using key f.length (Nat.le_refl _)

theorem bondAt_take (m : Mol) (f : List Nat) (n i j : Nat) (p : Bond → Bool) (hi : i < n) (hj : j < n) :
    bondAt m (f.take n) i j p = bondAt m f i j p := by
  simp [bondAt, hi, hj]

theorem candOK_take (q : Query) (m : Mol) (f : List Nat) (i : Nat) (hi : i < f.length) (qa : QAtom)
    (hqa : q.atoms[i]? = some qa) :
    candOK q m (f.take (i + 1)) = true ↔
      f[i] ∉ f.take i ∧ (∃ a, m.atom? f[i] = some a ∧ rdAtomMatch qa.ty a = true) ∧
      (∀ b ∈ q.bonds, max b.i b.j = i → bondAt m f b.i b.j (rdBondMatch b.spec) = true) := by
  have hlen : (f.take (i + 1)).length = i + 1 := by simp; omega
  have hget : (f.take (i + 1))[i]? = some f[i] := by
    rw [List.getElem?_take]; simp [hi]
  have htake : (f.take (i + 1)).take i = f.take i := by
    rw [List.take_take]; congr 1; omega
  unfold candOK
  simp only [hlen, hget, hqa, htake]
  simp only [Bool.and_eq_true, Bool.not_eq_true', List.all_eq_true]
  constructor
  · rintro ⟨⟨h1, h2⟩, h3⟩
    refine ⟨by simpa using h1, ?_, ?_⟩
    · cases hm : m.atom? f[i] with
      | none => simp [hm] at h2
      | some a => simp [hm] at h2; exact ⟨a, rfl, h2⟩
    · intro b hb hmax
      have := h3 b hb
      simp only [hmax, beq_self_eq_true, if_true] at this
      rwa [bondAt_take m f (i + 1) b.i b.j _ (by omega) (by omega)] at this
  · rintro ⟨h1, ⟨a, ha, hr⟩, h3⟩
    refine ⟨⟨by simpa using h1, by simp [ha, hr]⟩, ?_⟩
    intro b hb
    by_cases hmax : max b.i b.j = i
    · simp only [hmax, beq_self_eq_true, if_true]
      rw [bondAt_take m f (i + 1) b.i b.j _ (by omega) (by omega)]
      exact h3 b hb hmax
    · have : (max b.i b.j == i) = false := by simpa using hmax
      simp [this]

theorem mem_rawMatches (q : Query) (m : Mol) (f : List Nat) (hq : q.wf = true) :
    f ∈ rawMatches q m ↔ Cand q m f := by
  unfold rawMatches
  rw [mem_enum]
  simp only [List.nil_append, List.length_nil, exists_eq_left', PrefOK]
  have hb : ∀ b ∈ q.bonds, b.i < q.atoms.length ∧ b.j < q.atoms.length := by
    intro b hb
    have := hq
    simp only [Query.wf, Bool.and_eq_true, List.all_eq_true, decide_eq_true_eq] at this
    exact this.1 b hb
  constructor
  · rintro ⟨⟨hlen, hrange⟩, hok⟩
    have step : ∀ (i : Nat) (hi : i < f.length), ∃ qa, q.atoms[i]? = some qa ∧
        f[i] ∉ f.take i ∧ (∃ a, m.atom? f[i] = some a ∧ rdAtomMatch qa.ty a = true) ∧
        (∀ b ∈ q.bonds, max b.i b.j = i → bondAt m f b.i b.j (rdBondMatch b.spec) = true) := by
      intro i hi
      have hi' : i < q.atoms.length := by omega
      refine ⟨q.atoms[i], List.getElem?_eq_getElem hi', ?_⟩
      exact (candOK_take q m f i hi _ (List.getElem?_eq_getElem hi')).1 (hok (i + 1) (by omega) (by omega))
    refine ⟨hlen, ?_, hrange, ?_, ?_⟩
    · rw [nodup_iff_not_mem_take]
      intro i hi
      obtain ⟨_, _, h, _⟩ := step i hi
      exact h
    · intro i qa x hqa hx
      have hi : i < f.length := by
        rcases List.getElem?_eq_some_iff.1 hx with ⟨h, _⟩; exact h
      obtain ⟨qa', hqa', _, h, _⟩ := step i hi
      have : qa' = qa := by rw [hqa] at hqa'; exact (Option.some.inj hqa').symm
      subst this
      have hx' : f[i] = x := by
        rcases List.getElem?_eq_some_iff.1 hx with ⟨_, h⟩; exact h
      rw [← hx']; exact h
    · intro b hbm
      obtain ⟨h1, h2⟩ := hb b hbm
      have hi : max b.i b.j < f.length := by omega
      obtain ⟨_, _, _, _, h⟩ := step (max b.i b.j) hi
      exact h b hbm rfl
  · rintro ⟨hlen, hinj, hrange, hatoms, hbonds⟩
    refine ⟨⟨hlen, hrange⟩, ?_⟩
    intro j hj0 hj
    obtain ⟨i, rfl⟩ : ∃ i, j = i + 1 := ⟨j - 1, by omega⟩
    have hi : i < f.length := by omega
    have hi' : i < q.atoms.length := by omega
    rw [candOK_take q m f i hi q.atoms[i] (List.getElem?_eq_getElem hi')]
    refine ⟨(nodup_iff_not_mem_take f).1 hinj i hi, ?_, ?_⟩
    · exact hatoms i _ _ (List.getElem?_eq_getElem hi') (List.getElem?_eq_getElem hi)
    · intro b hbm _
      exact hbonds b hbm

theorem rawMatches_nodup (q : Query) (m : Mol) : (rawMatches q m).Nodup := enum_nodup _ _ _ _

end PGA.Match
