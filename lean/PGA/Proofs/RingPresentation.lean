import PGA.Spec.RingsSame
import PGA.Proofs.EmbedsMap
import PGA.Proofs.Aromatize
import PGA.Proofs.Decompose
import Mathlib.Data.List.Perm.Basic
/-! How the rings of a graph are *presented* — where each ring's atom list starts, which way round it runs, in which order
the rings are listed — does not matter to the matcher (`embeds_rings`), and matters to the Benson perception only
through the order of rings that share a bond (`aromatizeRings_same`). -/
namespace PGA.Spec
open PGA PGA.Arom

/-! ### one ring -/
theorem RingEquiv.mem_iff {r r' : List Nat} (h : RingEquiv r r') (x : Nat) : x ∈ r ↔ x ∈ r' := by
  induction h with
  | refl r => exact Iff.rfl
  | rot a l => simp only [List.mem_cons, List.mem_append, List.mem_singleton, List.not_mem_nil, or_false]; exact or_comm
  | rev r => exact List.mem_reverse.symm
  | trans _ _ ih1 ih2 => exact ih1.trans ih2

theorem RingEquiv.length_eq {r r' : List Nat} (h : RingEquiv r r') : r.length = r'.length := by
  induction h with
  | refl r => rfl
  | rot a l => simp
  | rev r => simp
  | trans _ _ ih1 ih2 => exact ih1.trans ih2

theorem RingEquiv.nodup_iff {r r' : List Nat} (h : RingEquiv r r') : r.Nodup ↔ r'.Nodup := by
  induction h with
  | refl r => exact Iff.rfl
  | rot a l => exact (List.perm_append_singleton a l).symm.nodup_iff
  | rev r => exact List.nodup_reverse.symm
  | trans _ _ ih1 ih2 => exact ih1.trans ih2

theorem eligible_equiv (m : Mol) {r r' : List Nat} (h : RingEquiv r r') : eligible m r' = eligible m r := by
  have six : ∀ (r : List Nat), r.length ≠ 6 → eligible m r = false := by
    intro r hl
    cases he : eligible m r
    · rfl
    · exact absurd (eligible_length m r he) hl
  induction h with
  | refl r => rfl
  | rot a l =>
    by_cases hl : l.length = 5
    · rcases l with _ | ⟨a1, _ | ⟨a2, _ | ⟨a3, _ | ⟨a4, _ | ⟨a5, _ | ⟨a6, l⟩⟩⟩⟩⟩⟩ <;> simp at hl
      exact eligible_rot m a a1 a2 a3 a4 a5
    · rw [six, six]
      · simp; omega
      · simp; omega
  | rev r =>
    by_cases hl : r.length = 6
    · rcases r with _ | ⟨a0, _ | ⟨a1, _ | ⟨a2, _ | ⟨a3, _ | ⟨a4, _ | ⟨a5, _ | ⟨a6, l⟩⟩⟩⟩⟩⟩⟩ <;> simp at hl
      exact eligible_rev m a0 a1 a2 a3 a4 a5
    · rw [six r hl, six]; simpa using hl
  | trans _ _ ih1 ih2 => exact ih2.trans ih1

/-- the pair `x, y` is a pair of consecutive atoms of a ring with edge pairs `es` (either direction) -/
def hit (es : List (Nat × Nat)) (x y : Nat) : Bool := es.any fun p' => (x == p'.1 && y == p'.2) || (x == p'.2 && y == p'.1)

theorem hit_comm (es : List (Nat × Nat)) (x y : Nat) : hit es y x = hit es x y := by
  unfold hit; congr 1; funext p'; rw [Bool.or_comm, Bool.and_comm (x == p'.1), Bool.and_comm (x == p'.2)]

theorem sharesBond_hit (r s : List Nat) : sharesBond r s = (edgePairs r).any fun p => hit (edgePairs s) p.1 p.2 := rfl

theorem sharesBond_equiv_left {r r' : List Nat} (h : RingEquiv r r') (s : List Nat) : sharesBond r' s = sharesBond r s := by
  have nil : ∀ (r : List Nat), r.length ≠ 6 → sharesBond r s = false := by
    intro r hl; unfold sharesBond; rw [edgePairs_length_ne r hl]; rfl
  induction h with
  | refl r => rfl
  | rot a l =>
    by_cases hl : l.length = 5
    · rcases l with _ | ⟨a1, _ | ⟨a2, _ | ⟨a3, _ | ⟨a4, _ | ⟨a5, _ | ⟨a6, l⟩⟩⟩⟩⟩⟩ <;> simp at hl
      show sharesBond [a1, a2, a3, a4, a5, a] s = sharesBond [a, a1, a2, a3, a4, a5] s
      rw [sharesBond_hit, sharesBond_hit]
      generalize edgePairs s = es
      simp only [edgePairs, List.any_cons, List.any_nil, Bool.or_false]
      cases hit es a a1 <;> cases hit es a1 a2 <;> cases hit es a2 a3 <;> cases hit es a3 a4 <;> cases hit es a4 a5 <;>
        cases hit es a5 a <;> rfl
    · rw [nil, nil]
      · simp; omega
      · simp; omega
  | rev r =>
    by_cases hl : r.length = 6
    · rcases r with _ | ⟨a0, _ | ⟨a1, _ | ⟨a2, _ | ⟨a3, _ | ⟨a4, _ | ⟨a5, _ | ⟨a6, l⟩⟩⟩⟩⟩⟩⟩ <;> simp at hl
      show sharesBond [a5, a4, a3, a2, a1, a0] s = sharesBond [a0, a1, a2, a3, a4, a5] s
      rw [sharesBond_hit, sharesBond_hit]
      generalize edgePairs s = es
      simp only [edgePairs, List.any_cons, List.any_nil, Bool.or_false]
      rw [hit_comm es a4 a5, hit_comm es a3 a4, hit_comm es a2 a3, hit_comm es a1 a2, hit_comm es a0 a1, hit_comm es a5 a0]
      cases hit es a0 a1 <;> cases hit es a1 a2 <;> cases hit es a2 a3 <;> cases hit es a3 a4 <;> cases hit es a4 a5 <;>
        cases hit es a5 a0 <;> rfl
    · rw [nil r hl, nil]; simpa using hl
  | trans _ _ ih1 ih2 => exact ih2.trans ih1

theorem sharesBond_equiv {r r' s s' : List Nat} (h : RingEquiv r r') (hs : RingEquiv s s') :
    sharesBond r' s' = sharesBond r s := by
  rw [sharesBond_equiv_left h, sharesBond_comm, sharesBond_equiv_left hs, sharesBond_comm]

/-! ### lists of rings -/
theorem forall₂_filter {α : Type} {R : α → α → Prop} (p : α → Bool) (hp : ∀ a b, R a b → p a = p b) :
    ∀ {l l' : List α}, List.Forall₂ R l l' → List.Forall₂ R (l.filter p) (l'.filter p) := by
  intro l l' h
  induction h with
  | nil => exact List.Forall₂.nil
  | @cons a b l l' hab _ ih =>
    simp only [List.filter_cons]
    rw [← hp a b hab]
    split
    · exact List.Forall₂.cons hab ih
    · exact ih

theorem forall₂_pairwise {α : Type} {R : α → α → Prop} {S : α → α → Prop}
    (hS : ∀ a b a' b', R a a' → R b b' → S a b → S a' b') :
    ∀ {l l' : List α}, List.Forall₂ R l l' → l.Pairwise S → l'.Pairwise S := by
  intro l l' h
  induction h with
  | nil => intro _; exact List.Pairwise.nil
  | @cons a b l l' hab hl ih =>
    intro hp
    obtain ⟨h1, h2⟩ := List.pairwise_cons.1 hp
    refine List.pairwise_cons.2 ⟨?_, ih h2⟩
    intro b' hb'
    obtain ⟨a', ha', hr⟩ : ∃ a', a' ∈ l ∧ R a' b' := by
      clear ih h2 h1 hp
      induction hl with
      | nil => cases hb'
      | @cons x y l l' hxy _ ih2 =>
        rcases List.mem_cons.1 hb' with rfl | hm
        · exact ⟨x, List.mem_cons_self, hxy⟩
        · obtain ⟨a', ha', hr⟩ := ih2 hm
          exact ⟨a', List.mem_cons_of_mem _ ha', hr⟩
    exact hS a a' b b' hab hr (h1 a' ha')

theorem bondDisjoint_equiv (m : Mol) {rs rs' : List (List Nat)} (h : List.Forall₂ RingEquiv rs rs')
    (hd : BondDisjointEligible m rs) : BondDisjointEligible m rs' := by
  unfold BondDisjointEligible at *
  have hf := forall₂_filter (R := RingEquiv) (eligible m) (fun a b hab => (eligible_equiv m hab).symm) h
  exact forall₂_pairwise (R := RingEquiv) (S := fun r r' => sharesBond r r' = false)
    (fun a b a' b' ha hb hs => by rw [sharesBond_equiv ha hb]; exact hs) hf hd

/-- the general order lemma: two lists of rings that are permutations of each other, no two eligible ones sharing a bond -/
theorem aromatizeRings_perm (m : Mol) (rs rs' : List (List Nat)) (hp : rs.Perm rs') (hd : BondDisjointEligible m rs) :
    aromatizeRings rs' m = aromatizeRings rs m := by
  have hd' : BondDisjointEligible m rs' := by
    unfold BondDisjointEligible at *
    exact ((hp.filter _).pairwise_iff (fun {a b} h => by rw [sharesBond_comm]; exact h)).1 hd
  rw [aromatizeRings_eq_setAll m rs m hd (fun _ _ h => h) (fun _ h => h),
      aromatizeRings_eq_setAll m rs' m hd' (fun _ _ h => h) (fun _ h => h)]
  exact (setAll_perm _ _ (hp.filter _) m).symm

theorem aromatizeRings_equiv (rs rs' : List (List Nat)) (h : List.Forall₂ RingEquiv rs rs') (m : Mol) :
    aromatizeRings rs' m = aromatizeRings rs m := by
  have one : ∀ (m : Mol) {r r' : List Nat}, RingEquiv r r' → aromStep m r' = aromStep m r := by
    intro m r r' hr
    induction hr with
    | refl r => rfl
    | rot a l => exact aromStep_rot m a l
    | rev r => exact aromStep_rev m r
    | trans _ _ ih1 ih2 => exact ih2.trans ih1
  induction h generalizing m with
  | nil => rfl
  | cons hr _ ih =>
    unfold aromatizeRings at ih ⊢
    simp only [List.foldl_cons]
    rw [one m hr]
    exact ih _

/-- **the perception and the presentation of the rings** -/
theorem aromatizeRings_same (m : Mol) (rs rs' : List (List Nat)) (h : RingsSame rs rs') (hd : BondDisjointEligible m rs) :
    aromatizeRings rs' m = aromatizeRings rs m := by
  obtain ⟨rs'', h1, h2⟩ := h
  rw [aromatizeRings_perm m rs'' rs' h2 (bondDisjoint_equiv m h1 hd), aromatizeRings_equiv rs rs'' h1]

/-! ### the matcher does not see the presentation -/
theorem ringsSame_exists {rs rs' : List (List Nat)} (h : RingsSame rs rs') (P : List Nat → Prop)
    (hP : ∀ r r', RingEquiv r r' → (P r ↔ P r')) : (∃ r ∈ rs', P r) ↔ (∃ r ∈ rs, P r) := by
  obtain ⟨rs'', h1, h2⟩ := h
  have step : (∃ r ∈ rs'', P r) ↔ (∃ r ∈ rs, P r) := by
    clear h2
    induction h1 with
    | nil => simp
    | @cons a b l l' hab _ ih =>
      simp only [List.mem_cons, exists_eq_or_imp]
      rw [hP a b hab, ih]
  rw [← step]
  constructor
  · rintro ⟨r, hr, hp⟩; exact ⟨r, h2.mem_iff.2 hr, hp⟩
  · rintro ⟨r, hr, hp⟩; exact ⟨r, h2.mem_iff.1 hr, hp⟩

theorem ringsSame_filter_length {rs rs' : List (List Nat)} (h : RingsSame rs rs') (p : List Nat → Bool)
    (hp : ∀ r r', RingEquiv r r' → p r = p r') : (rs'.filter p).length = (rs.filter p).length := by
  obtain ⟨rs'', h1, h2⟩ := h
  rw [← (h2.filter p).length_eq]
  clear h2
  induction h1 with
  | nil => rfl
  | @cons a b l l' hab _ ih =>
    simp only [List.filter_cons]
    rw [← hp a b hab]
    split <;> simp [ih]

theorem relabelBond_id' (e : Bond) : relabelBond id e = e := by
  cases e; simp [relabelBond]

/-- presenting the rings of a well-formed graph differently is an `OpenMap` (with the identity on atoms) -/
theorem openMap_rings (m : Mol) (hm : m.wf = true) (rs' : List (List Nat)) (h : RingsSame m.rings rs') :
    OpenMap id m { m with rings := rs' } := by
  refine ⟨Function.injective_id, fun _ _ => rfl, ?_, ?_, fun _ _ => Iff.rfl, ?_, ?_, ?_⟩
  · intro x y _ _
    show m.bondBetween x y = (m.bondBetween x y).map (relabelBond id)
    cases m.bondBetween x y with
    | none => rfl
    | some e => simp only [Option.map, relabelBond_id']
  · intro x y' e' _ hb
    have hb' : m.bondBetween x y' = some e' := hb
    have he : e' ∈ m.bonds := by unfold Mol.bondBetween at hb'; exact List.mem_of_find?_eq_some hb'
    have hj : e'.joins x y' = true := by
      unfold Mol.bondBetween at hb'; exact List.find?_some (p := fun e : Bond => e.joins x y') hb'
    obtain ⟨ha, hb2, _⟩ := (PGA.Match.wf_bonds m hm).1 e' he
    refine ⟨y', ?_, rfl⟩
    simp only [Bond.joins, Bool.or_eq_true, Bool.and_eq_true, beq_iff_eq] at hj
    rcases hj with ⟨_, h2⟩ | ⟨h1, _⟩ <;> omega
  · intro x _
    unfold OnRing
    exact ringsSame_exists h (fun r => x ∈ r) (fun r r' hr => hr.mem_iff x)
  · intro x _ cn
    exact ringsSame_exists h (fun r => x ∈ r ∧ CNHolds cn r.length)
      (fun r r' hr => by rw [hr.mem_iff x, hr.length_eq])
  · intro x _
    unfold ringsThrough
    exact ringsSame_filter_length h (fun r => decide (x ∈ r))
      (fun r r' hr => by rw [Bool.eq_iff_iff, decide_eq_true_eq, decide_eq_true_eq]; exact hr.mem_iff x)

theorem ringsSame_nil_iff {rs rs' : List (List Nat)} (h : RingsSame rs rs') : rs' = [] ↔ rs = [] := by
  obtain ⟨rs'', h1, h2⟩ := h
  constructor
  · intro e; subst e
    have : rs'' = [] := List.Perm.eq_nil h2
    subst this; cases h1; rfl
  · intro e; subst e
    cases h1; exact List.Perm.nil_eq h2 |>.symm

theorem molPrefix_rings (m : Mol) (rs' : List (List Nat)) (h : RingsSame m.rings rs') (p : MolPrefix) :
    MolPrefixHolds { m with rings := rs' } p ↔ MolPrefixHolds m p := by
  cases p with
  | cyclic => simp only [MolPrefixHolds, ne_eq]; exact not_congr (ringsSame_nil_iff h)
  | linear => simp only [MolPrefixHolds]; exact ringsSame_nil_iff h
  | _ => exact Iff.rfl

/-- **the embeddings of a query do not depend on how the rings are presented** -/
theorem embeds_rings (m : Mol) (hm : m.wf = true) (rs' : List (List Nat)) (h : RingsSame m.rings rs') (q : Query)
    (f : List Nat) : Embeds q { m with rings := rs' } f ↔ Embeds q m f := by
  have O := openMap_rings m hm rs' h
  constructor
  · intro E
    have hf : ∀ x ∈ f, x < m.natoms := E.range
    exact (O.embeds q f hf (fun p _ => molPrefix_rings m rs' h p)).1 (by rw [List.map_id]; exact E)
  · intro E
    have := (O.embeds q f E.range (fun p _ => molPrefix_rings m rs' h p)).2 E
    rwa [List.map_id] at this

theorem wf_rings (m : Mol) (hm : m.wf = true) (rs' : List (List Nat)) (h : RingsSame m.rings rs') :
    ({ m with rings := rs' } : Mol).wf = true := by
  unfold Mol.wf at hm ⊢
  simp only [Bool.and_eq_true, List.all_eq_true, decide_eq_true_eq] at hm ⊢
  refine ⟨hm.1, ?_⟩
  intro r' hr'
  obtain ⟨rs'', h1, h2⟩ := h
  have hr'' := h2.mem_iff.2 hr'
  have gen : ∀ (l l' : List (List Nat)), List.Forall₂ RingEquiv l l' → r' ∈ l' → ∃ r ∈ l, RingEquiv r r' := by
    intro l l' hll
    induction hll with
    | nil => intro hh; cases hh
    | @cons a b l l' hab _ ih =>
      intro hh
      rcases List.mem_cons.1 hh with rfl | hm'
      · exact ⟨a, List.mem_cons_self, hab⟩
      · obtain ⟨r, hr, he⟩ := ih hm'
        exact ⟨r, List.mem_cons_of_mem _ hr, he⟩
  have := gen _ _ h1 hr''
  obtain ⟨r, hr, he⟩ := this
  obtain ⟨n1, n2⟩ := hm.2 r hr
  exact ⟨he.nodup_iff.1 n1, fun x hx => n2 x ((he.mem_iff x).2 hx)⟩

end PGA.Spec

namespace PGA.Decompose
open PGA PGA.Spec PGA.Scheme PGA.Match PGA.Arom

theorem aromatizeRings_rings (rs : List (List Nat)) (s : Mol) : (aromatizeRings rs s).rings = s.rings := by
  induction rs generalizing s with
  | nil => rfl
  | cons r rs ih =>
    unfold aromatizeRings at ih ⊢
    simp only [List.foldl_cons]
    rw [ih]
    unfold aromStep; split <;> rfl

/-- the perception on a graph whose ring list is replaced: same atoms and bonds as on the original graph with that list -/
theorem aromatizeRings_with_rings (rs : List (List Nat)) (s : Mol) (R : List (List Nat)) :
    aromatizeRings rs { s with rings := R } = { aromatizeRings rs s with rings := R } := by
  induction rs generalizing s with
  | nil => rfl
  | cons r rs ih =>
    unfold aromatizeRings at ih ⊢
    simp only [List.foldl_cons]
    have : aromStep { s with rings := R } r = { aromStep s r with rings := R } := by
      unfold aromStep
      have he : eligible { s with rings := R } r = eligible s r := by
        rcases r with _ | ⟨a0, _ | ⟨a1, _ | ⟨a2, _ | ⟨a3, _ | ⟨a4, _ | ⟨a5, _ | ⟨a6, l⟩⟩⟩⟩⟩⟩⟩ <;> rfl
      rw [he]; split <;> rfl
    rw [this]
    exact ih _

/-- under the guard, aromatising the graph with its rings presented differently gives the aromatised graph with its rings
presented that way -/
theorem aromatizeBenson_rings (m : Mol) (rs' : List (List Nat)) (h : RingsSame m.rings rs') (hd : EligibleRingsBondDisjoint m) :
    aromatizeBenson { m with rings := rs' } = { aromatizeBenson m with rings := rs' } := by
  unfold aromatizeBenson
  show aromatizeRings rs' { m with rings := rs' } = _
  rw [aromatizeRings_with_rings, aromatizeRings_same m m.rings rs' h hd]

theorem declares_rings (S : SchemeDef) (a : Mol) (ha : a.wf = true) (rs' : List (List Nat)) (h : RingsSame a.rings rs')
    (inp : Input) (D : Declares S { a with rings := rs' } inp) : Declares S a inp := by
  refine ⟨D.n, D.nbrs, ?_, ?_, D.remaps⟩
  · refine D.centres.imp ?_
    intro c p ⟨h1, h2, h3⟩
    exact ⟨h1, h2, fun f => (h3 f).trans (embeds_rings a ha rs' h c.q f)⟩
  · refine D.descs.imp ?_
    intro d p ⟨h1, h3⟩
    exact ⟨h1, fun f => (h3 f).trans (embeds_rings a ha rs' h d.q f)⟩

theorem toInput_rings_relabel (S : SchemeDef) (a : Mol) (ha : a.wf = true) (rs' : List (List Nat)) (h : RingsSame a.rings rs')
    (hq : S.wf = true) (hs : S.noStar = true) (hcap : maxRaw S a < maxMatches)
    (hcap' : maxRaw S { a with rings := rs' } < maxMatches) :
    Relabel (toInput S a) (toInput S { a with rings := rs' }) id :=
  declares_relabel S a _ _ (toInput_declares S a ha hq hs hcap)
    (declares_rings S a ha rs' h _ (toInput_declares S _ (wf_rings a ha rs' h) hq hs hcap'))

end PGA.Decompose
