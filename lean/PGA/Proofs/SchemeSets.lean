import PGA.Proofs.Scheme
import Mathlib.Data.Finset.Card
import Mathlib.Data.Finset.Image
/-! The number of distinct atom sets among matches, as a cardinality. -/
namespace PGA.Scheme
open PGA

theorem mem_insertSorted (x y : Nat) (l : List Nat) : y ∈ insertSorted x l ↔ y = x ∨ y ∈ l := by
  induction l with
  | nil => simp [insertSorted]
  | cons z l ih =>
    unfold insertSorted
    split
    · simp
    · split
      · rename_i h1 h2
        have : x = z := by simpa using h2
        subst this; simp
      · simp only [List.mem_cons, ih]
        constructor
        · rintro (h | h | h) <;> simp [h]
        · rintro (h | h | h) <;> simp [h]

theorem sorted_insertSorted (x : Nat) (l : List Nat) (h : l.Pairwise (· < ·)) :
    (insertSorted x l).Pairwise (· < ·) := by
  induction l with
  | nil => simp [insertSorted]
  | cons z l ih =>
    obtain ⟨hz, hl⟩ := List.pairwise_cons.mp h
    unfold insertSorted
    split
    · rename_i hxz
      refine List.pairwise_cons.mpr ⟨?_, h⟩
      intro a ha
      rcases List.mem_cons.mp ha with rfl | ha
      · exact hxz
      · exact Nat.lt_trans hxz (hz a ha)
    · split
      · exact h
      · rename_i h1 h2
        have hne : x ≠ z := by simpa using h2
        have hzx : z < x := by omega
        refine List.pairwise_cons.mpr ⟨?_, ih hl⟩
        intro a ha
        rcases (mem_insertSorted x a l).mp ha with rfl | ha
        · exact hzx
        · exact hz a ha

theorem mem_atomSet (m : Match) (y : Nat) : y ∈ atomSet m ↔ y ∈ m := by
  induction m with
  | nil => simp [atomSet]
  | cons x m ih =>
    simp only [atomSet, List.foldr_cons] at ih ⊢
    rw [mem_insertSorted, ih]; simp

theorem sorted_atomSet (m : Match) : (atomSet m).Pairwise (· < ·) := by
  induction m with
  | nil => simp [atomSet]
  | cons x m ih => exact sorted_insertSorted x _ ih

/-- two matches have the same canonical atom list exactly when they cover the same set of atoms -/
theorem atomSet_eq_iff (m m' : Match) : atomSet m = atomSet m' ↔ ∀ y, y ∈ m ↔ y ∈ m' := by
  constructor
  · intro h y; rw [← mem_atomSet m, ← mem_atomSet m', h]
  · intro h
    have hn : ∀ l : List Nat, l.Pairwise (· < ·) → l.Nodup := fun l hl => hl.imp (fun h => Nat.ne_of_lt h)
    apply List.Perm.eq_of_pairwise (le := fun a b => decide (a < b) = true)
    · intro a b _ _ hab hba
      simp only [decide_eq_true_eq] at hab hba
      omega
    · exact (sorted_atomSet m).imp (fun h => by simpa using h)
    · exact (sorted_atomSet m').imp (fun h => by simpa using h)
    · rw [List.perm_ext_iff_of_nodup (hn _ (sorted_atomSet m)) (hn _ (sorted_atomSet m'))]
      intro y; rw [mem_atomSet, mem_atomSet]; exact h y

theorem atomSet_toFinset (m : Match) : (atomSet m).toFinset = m.toFinset := by
  ext y; simp [mem_atomSet]

/-- **each correction descriptor counts the distinct sets of matched atoms** -/
theorem distinctSets_card (ms : List Match) :
    distinctSets ms = ((ms.map List.toFinset).toFinset).card := by
  unfold distinctSets
  have h1 : (uniq (ms.map atomSet)).length = ((ms.map atomSet).toFinset).card := by
    rw [← List.toFinset_card_of_nodup (nodup_uniq _)]
    congr 1
    ext l; simp [mem_uniq]
  rw [h1]
  have h2 : ((ms.map List.toFinset).toFinset) = ((ms.map atomSet).toFinset).image List.toFinset := by
    ext s
    simp only [List.mem_toFinset, List.mem_map, Finset.mem_image]
    constructor
    · rintro ⟨m, hm, rfl⟩; exact ⟨atomSet m, ⟨m, hm, rfl⟩, atomSet_toFinset m⟩
    · rintro ⟨l, ⟨m, hm, rfl⟩, rfl⟩; exact ⟨m, hm, (atomSet_toFinset m).symm⟩
  rw [h2, Finset.card_image_of_injOn]
  intro l hl l' hl' he
  simp only [Finset.coe_sort_coe, List.coe_toFinset, Set.mem_setOf_eq, List.mem_map] at hl hl'
  obtain ⟨m, _, rfl⟩ := hl
  obtain ⟨m', _, rfl⟩ := hl'
  rw [atomSet_eq_iff]
  intro y
  have : y ∈ (atomSet m).toFinset ↔ y ∈ (atomSet m').toFinset := by rw [he]
  simpa [mem_atomSet] using this

end PGA.Scheme
