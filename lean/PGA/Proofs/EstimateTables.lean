import PGA.Proofs.Estimate
import PGA.Gen.Pmutt
import Mathlib.Algebra.Order.Ring.Abs
/-! Vocabulary for the table obligations of C07 over the regenerated pmutt tables. -/
namespace PGA.Estimate

open PGA.Gen.Pmutt in
/-- value of the table's `J/mol/K` entry -/
def rSI : Rat := match rTable.lookup ['J','/','m','o','l','/','K'] with | some d => d.toRat | none => 0

/-- `|a − b| ≤ tol·|b|` without absolute-value notation -/
def within (a b tol : Rat) : Bool := (a - b) * (a - b) ≤ tol * tol * (b * b)

open PGA.Gen.Pmutt in
/-- `R(u₁)·k = R(u₂)` exactly -/
def ratioIs (u1 u2 : List Char) (k : Rat) : Bool :=
  match rTable.lookup u1, rTable.lookup u2 with
  | some a, some b => a.toRat * k == b.toRat
  | _, _ => false

theorem within_iff (a b tol : Rat) (ht : 0 ≤ tol) : within a b tol = true ↔ |a - b| ≤ tol * |b| := by
  unfold within
  simp only [decide_eq_true_eq]
  have h : tol * tol * (b * b) = (tol * |b|) ^ 2 := by rw [mul_pow, sq_abs]; ring
  rw [h, show (a - b) * (a - b) = (a - b) ^ 2 by ring, sq_le_sq, abs_of_nonneg (mul_nonneg ht (abs_nonneg b))]

end PGA.Estimate
