import Mathlib.Algebra.Order.Ring.Abs
import PGA.Spec.YamlFormat
import PGA.Proofs.Yaml
import PGA.Proofs.Merge
/-! Helper lemmas for C18: what `yaml_format` writes, and that it is a presentation (in the sense of C12) of `readBack`. -/
namespace PGA.YamlFormat
open PGA.Yaml PGA.Merge

/-! ### `fmt_in_units` on the three kinds of quantity -/

theorem energy_add_zero : Dim.molarEnergy.add Dim.zero = Dim.molarEnergy := by decide
theorem entropy_add_zero : Dim.molarEntropy.add Dim.zero = Dim.molarEntropy := by decide

theorem withUnits_kelvin (T : Rat) : withUnits T ⟨1, Dim.temperature⟩ = .qty T Dim.temperature := by
  simp [withUnits, build_of_ne (show Dim.temperature ≠ Dim.zero by decide)]

theorem fmtIn_qty {tab : UnitTable} {rnd : Rat → Rat} {us : String} {f : Rat} {d : Dim}
    (h : tab.lookup us = some ⟨f, d⟩) (hf : f ≠ 0) (x : Rat) :
    fmtIn tab rnd (.qty x d) us = .ok (.qstr (rnd (x / f)) us) := by
  simp [fmtIn, h, QV.inUnits, hf]

theorem fmtIn_temp {tab : UnitTable} {rnd : Rat → Rat} {us : String} {f : Rat}
    (h : tab.lookup us = some ⟨f, Dim.temperature⟩) (hf : f ≠ 0) (T : Rat) :
    fmtIn tab rnd (withUnits T ⟨1, Dim.temperature⟩) us = .ok (.qstr (rnd (T / f)) us) := by
  rw [withUnits_kelvin]; exact fmtIn_qty h hf T

theorem RT_mul_h (r Tref h : Rat) :
    (((QV.qty r Dim.molarEntropy).mul (withUnits Tref ⟨1, Dim.temperature⟩)).mul (.num h))
      = .qty (r * Tref * h) Dim.molarEnergy := by
  rw [withUnits_kelvin, R_mul_T]
  simp only [QV.mul, QV.value, QV.dim, energy_add_zero]
  exact build_of_ne (by decide)

theorem R_mul_v (r v : Rat) : (QV.qty r Dim.molarEntropy).mul (.num v) = .qty (r * v) Dim.molarEntropy := by
  simp only [QV.mul, QV.value, QV.dim, entropy_add_zero]
  exact build_of_ne (by decide)

/-! ### what is written -/

def outH (rnd : Rat → Rat) (r : Rat) (ru : RUnits) (c : Corr) : List (String × YVal) :=
  match c.H with
  | none => []
  | some h => match ru.H with
    | some (us, f) => [("H_ref", .qstr (rnd (r * c.Tref * h / f)) us)]
    | none => [("ND_H_ref", .num h)]

def outS (rnd : Rat → Rat) (r : Rat) (ru : RUnits) (c : Corr) : List (String × YVal) :=
  match c.S with
  | none => []
  | some s => match ru.S with
    | some (us, f) => [("S_ref", .qstr (rnd (r * s / f)) us)]
    | none => [("ND_S_ref", .num s)]

def outCpVal (rnd : Rat → Rat) (r : Rat) (ru : RUnits) (v : Rat) : YVal :=
  match ru.Cp with
  | some (us, f) => .qstr (rnd (r * v / f)) us
  | none => .num v

def outRows (rnd : Rat → Rat) (r : Rat) (ru : RUnits) (cp : List (Rat × Rat)) : List Rat → List YVal
  | [] => []
  | T :: rest => .seq [.qstr (rnd (T / ru.T.2)) ru.T.1, outCpVal rnd r ru ((dlookup T cp).getD 0)] :: outRows rnd r ru cp rest

def outCp (rnd : Rat → Rat) (r : Rat) (ru : RUnits) (c : Corr) : List (String × YVal) :=
  if c.cp.isEmpty then [] else
    [(match ru.Cp with | some _ => "Cp_data" | none => "ND_Cp_data", .seq (outRows rnd r ru c.cp (sortedKeys c.cp)))]

def outRange (rnd : Rat → Rat) (ru : RUnits) (c : Corr) : List (String × YVal) :=
  match c.range with
  | none => []
  | some (lo, hi) => [("range", .seq [.qstr (rnd (lo / ru.T.2)) ru.T.1, .qstr (rnd (hi / ru.T.2)) ru.T.1])]

def outAll (rnd : Rat → Rat) (r : Rat) (ru : RUnits) (c : Corr) : List (String × YVal) :=
  [("T_ref", .qstr (rnd (c.Tref / ru.T.2)) ru.T.1)] ++ outH rnd r ru c ++ outS rnd r ru c ++ outCp rnd r ru c ++ outRange rnd ru c

section written
variable {tab : UnitTable} {R : QV} {K : UnitQ} {r : Rat} {rnd : Rat → Rat} {ru : RUnits}

theorem fmtH_eq (env : EnvOK tab R K r) (ok : ru.OK tab) (c : Corr) :
    fmtH tab R K rnd c ru.toFmt = .ok (outH rnd r ru c) := by
  unfold fmtH outH
  cases c.H with
  | none => rfl
  | some h =>
    cases hu : ru.H with
    | none => simp [RUnits.toFmt, hu]
    | some uf =>
      obtain ⟨us, f⟩ := uf
      obtain ⟨hl, hf⟩ := ok.h us f hu
      simp only [RUnits.toFmt, hu, Option.map_some, env.R_eq, env.K_eq, RT_mul_h, fmtIn_qty hl hf]

theorem fmtS_eq (env : EnvOK tab R K r) (ok : ru.OK tab) (c : Corr) :
    fmtS tab R rnd c ru.toFmt = .ok (outS rnd r ru c) := by
  unfold fmtS outS
  cases c.S with
  | none => rfl
  | some s =>
    cases hu : ru.S with
    | none => simp [RUnits.toFmt, hu]
    | some uf =>
      obtain ⟨us, f⟩ := uf
      obtain ⟨hl, hf⟩ := ok.s us f hu
      simp only [RUnits.toFmt, hu, Option.map_some, env.R_eq, R_mul_v, fmtIn_qty hl hf]

theorem fmtCpValue_eq (env : EnvOK tab R K r) (ok : ru.OK tab) (v : Rat) :
    fmtCpValue tab R rnd (ru.Cp.map Prod.fst) v = .ok (outCpVal rnd r ru v) := by
  unfold fmtCpValue outCpVal
  cases hu : ru.Cp with
  | none => rfl
  | some uf =>
    obtain ⟨us, f⟩ := uf
    obtain ⟨hl, hf⟩ := ok.cp us f hu
    simp only [Option.map_some, env.R_eq, R_mul_v, fmtIn_qty hl hf]

theorem cpRows_eq (env : EnvOK tab R K r) (ok : ru.OK tab) (cp : List (Rat × Rat)) (ks : List Rat) :
    cpRows tab R K rnd cp ru.T.1 (ru.Cp.map Prod.fst) ks = .ok (outRows rnd r ru cp ks) := by
  induction ks with
  | nil => rfl
  | cons T rest ih =>
    simp only [cpRows, env.K_eq, fmtIn_temp ok.t.1 ok.t.2, fmtCpValue_eq env ok, outRows]
    rw [← env.K_eq, ih]

theorem fmtCp_eq (env : EnvOK tab R K r) (ok : ru.OK tab) (c : Corr) :
    fmtCp tab R K rnd c ru.toFmt = .ok (outCp rnd r ru c) := by
  unfold fmtCp outCp
  split
  · rfl
  · simp only [RUnits.toFmt, cpRows_eq env ok]
    cases ru.Cp <;> rfl

theorem fmtRange_eq (env : EnvOK tab R K r) (ok : ru.OK tab) (c : Corr) :
    fmtRange tab K rnd c ru.toFmt = .ok (outRange rnd ru c) := by
  unfold fmtRange outRange
  cases c.range with
  | none => rfl
  | some lh =>
    obtain ⟨lo, hi⟩ := lh
    simp only [RUnits.toFmt, env.K_eq, fmtIn_temp ok.t.1 ok.t.2]

/-- **what `yaml_format` writes**: with units of the right dimensions it never fails, and its output is `outAll` -/
theorem yamlFormat_eq (env : EnvOK tab R K r) (ok : ru.OK tab) (c : Corr) :
    yamlFormat tab R K rnd c ru.toFmt = .ok (outAll rnd r ru c) := by
  unfold yamlFormat
  have hT : fmtIn tab rnd (withUnits c.Tref K) ru.toFmt.T = .ok (.qstr (rnd (c.Tref / ru.T.2)) ru.T.1) := by
    rw [env.K_eq]; exact fmtIn_temp ok.t.1 ok.t.2 _
  simp only [hT, fmtH_eq env ok, fmtS_eq env ok, fmtCp_eq env ok, fmtRange_eq env ok, ok_bind, outAll]

end written

/-! ### the written mapping is an entry presentation in the sense of C12 -/

def presT (rnd : Rat → Rat) (ru : RUnits) (T : Rat) : Pres := .explicit (rnd (T / ru.T.2)) ru.T.1

def rowsDim (rnd : Rat → Rat) (r : Rat) (ru : RUnits) (us : String) (f : Rat) (cp : List (Rat × Rat)) : List Rat → List (Pres × Pres)
  | [] => []
  | T :: rest => (presT rnd ru T, .explicit (rnd (r * ((dlookup T cp).getD 0) / f)) us) :: rowsDim rnd r ru us f cp rest

def rowsNd (rnd : Rat → Rat) (ru : RUnits) (cp : List (Rat × Rat)) : List Rat → List (Pres × Rat)
  | [] => []
  | T :: rest => (presT rnd ru T, (dlookup T cp).getD 0) :: rowsNd rnd ru cp rest

/-- the entry `yaml_format` writes -/
def fmtEntry (rnd : Rat → Rat) (r : Rat) (ru : RUnits) (c : Corr) : EntryPres :=
  { Tref := some (presT rnd ru c.Tref)
    H := c.H.map fun h => match ru.H with
      | some (us, f) => .dim (.explicit (rnd (r * c.Tref * h / f)) us)
      | none => .nd h
    S := c.S.map fun s => match ru.S with
      | some (us, f) => .dim (.explicit (rnd (r * s / f)) us)
      | none => .nd s
    cp := if c.cp.isEmpty then none else some (match ru.Cp with
      | some (us, f) => .dim (rowsDim rnd r ru us f c.cp (sortedKeys c.cp))
      | none => .nd (rowsNd rnd ru c.cp (sortedKeys c.cp)))
    range := c.range.map fun lh => (presT rnd ru lh.1, presT rnd ru lh.2) }

theorem lookup_append' {α : Type} (k : String) (l₁ l₂ : List (String × α)) :
    (l₁ ++ l₂).lookup k = match l₁.lookup k with | some v => some v | none => l₂.lookup k := by
  induction l₁ with
  | nil => rfl
  | cons kv l ih =>
    obtain ⟨k', v⟩ := kv
    simp only [List.cons_append, List.lookup]
    split
    · rfl
    · exact ih

theorem lookup_single {α : Type} (k k' : String) (v : α) :
    List.lookup k [(k', v)] = if k = k' then some v else none := by
  simp only [List.lookup]
  by_cases h : k = k'
  · subst h; simp
  · have : (k == k') = false := by simpa using h
    simp [this, h]

theorem lookup_outH (rnd : Rat → Rat) (r : Rat) (ru : RUnits) (c : Corr) (k : String) :
    (outH rnd r ru c).lookup k =
      if k = "H_ref" then (match c.H, ru.H with | some h, some (us, f) => some (.qstr (rnd (r * c.Tref * h / f)) us) | _, _ => none)
      else if k = "ND_H_ref" then (match c.H, ru.H with | some h, none => some (.num h) | _, _ => none)
      else none := by
  unfold outH
  cases c.H with
  | none => simp
  | some h =>
    cases ru.H with
    | none =>
      simp only [lookup_single]
      by_cases h1 : k = "H_ref"
      · subst h1; simp
      · simp [h1]
    | some uf =>
      obtain ⟨us, f⟩ := uf
      simp only [lookup_single]
      by_cases h1 : k = "H_ref"
      · subst h1; simp
      · by_cases h2 : k = "ND_H_ref"
        · subst h2; simp
        · simp [h1, h2]

theorem lookup_outS (rnd : Rat → Rat) (r : Rat) (ru : RUnits) (c : Corr) (k : String) :
    (outS rnd r ru c).lookup k =
      if k = "S_ref" then (match c.S, ru.S with | some s, some (us, f) => some (.qstr (rnd (r * s / f)) us) | _, _ => none)
      else if k = "ND_S_ref" then (match c.S, ru.S with | some s, none => some (.num s) | _, _ => none)
      else none := by
  unfold outS
  cases c.S with
  | none => simp
  | some h =>
    cases ru.S with
    | none =>
      simp only [lookup_single]
      by_cases h1 : k = "S_ref"
      · subst h1; simp
      · simp [h1]
    | some uf =>
      obtain ⟨us, f⟩ := uf
      simp only [lookup_single]
      by_cases h1 : k = "S_ref"
      · subst h1; simp
      · by_cases h2 : k = "ND_S_ref"
        · subst h2; simp
        · simp [h1, h2]

theorem lookup_outCp (rnd : Rat → Rat) (r : Rat) (ru : RUnits) (c : Corr) (k : String) :
    (outCp rnd r ru c).lookup k =
      if c.cp.isEmpty then none
      else if k = "Cp_data" then (if ru.Cp.isSome then some (.seq (outRows rnd r ru c.cp (sortedKeys c.cp))) else none)
      else if k = "ND_Cp_data" then (if ru.Cp.isSome then none else some (.seq (outRows rnd r ru c.cp (sortedKeys c.cp))))
      else none := by
  unfold outCp
  by_cases he : c.cp.isEmpty = true
  · simp [he]
  · simp only [he, Bool.false_eq_true, if_false]
    cases ru.Cp with
    | none =>
      simp only [lookup_single, Option.isSome_none, Bool.false_eq_true, if_false]
      by_cases h1 : k = "Cp_data"
      · subst h1; simp
      · simp [h1]
    | some uf =>
      simp only [lookup_single, Option.isSome_some, if_true]
      by_cases h1 : k = "Cp_data"
      · subst h1; simp
      · by_cases h2 : k = "ND_Cp_data"
        · subst h2; simp
        · simp [h1, h2]

theorem lookup_outRange (rnd : Rat → Rat) (ru : RUnits) (c : Corr) (k : String) :
    (outRange rnd ru c).lookup k =
      if k = "range" then c.range.map (fun lh => YVal.seq [.qstr (rnd (lh.1 / ru.T.2)) ru.T.1, .qstr (rnd (lh.2 / ru.T.2)) ru.T.1])
      else none := by
  unfold outRange
  cases c.range with
  | none => simp
  | some lh =>
    obtain ⟨lo, hi⟩ := lh
    simp only [lookup_single, Option.map_some]

theorem outRows_dim (rnd : Rat → Rat) (r : Rat) (ru : RUnits) (us : String) (f : Rat) (hu : ru.Cp = some (us, f))
    (cp : List (Rat × Rat)) (ks : List Rat) :
    outRows rnd r ru cp ks = (rowsDim rnd r ru us f cp ks).map fun x => YVal.seq [x.1.node, x.2.node] := by
  induction ks with
  | nil => rfl
  | cons T rest ih => simp [outRows, rowsDim, outCpVal, hu, presT, Pres.node, ih]

theorem outRows_nd (rnd : Rat → Rat) (r : Rat) (ru : RUnits) (hu : ru.Cp = none) (cp : List (Rat × Rat)) (ks : List Rat) :
    outRows rnd r ru cp ks = (rowsNd rnd ru cp ks).map fun x => YVal.seq [x.1.node, YVal.num x.2] := by
  induction ks with
  | nil => rfl
  | cons T rest ih => simp [outRows, rowsNd, outCpVal, hu, presT, Pres.node, ih]

/-- the written mapping is the entry `fmtEntry` -/
theorem renders_outAll (rnd : Rat → Rat) (r : Rat) (ru : RUnits) (c : Corr) :
    Renders (outAll rnd r ru c) (fmtEntry rnd r ru c) := by
  have L : ∀ k, (outAll rnd r ru c).lookup k =
      if k = "T_ref" then some (.qstr (rnd (c.Tref / ru.T.2)) ru.T.1) else
        match (outH rnd r ru c).lookup k with
        | some v => some v
        | none => match (outS rnd r ru c).lookup k with
          | some v => some v
          | none => match (outCp rnd r ru c).lookup k with
            | some v => some v
            | none => (outRange rnd ru c).lookup k := by
    intro k
    unfold outAll
    rw [lookup_append', lookup_append', lookup_append', lookup_append']
    simp only [List.lookup]
    by_cases h : k = "T_ref"
    · subst h; simp
    · have : (k == "T_ref") = false := by simpa using h
      simp only [this, h, if_false]
      cases (outH rnd r ru c).lookup k with
      | some v => rfl
      | none =>
        cases (outS rnd r ru c).lookup k with
        | some v => rfl
        | none => cases (outCp rnd r ru c).lookup k <;> rfl
  constructor
  · rw [L]; simp [fmtEntry, presT, Pres.node]
  · rw [L, lookup_outH, lookup_outS, lookup_outCp, lookup_outRange]
    simp only [fmtEntry]
    cases c.H with
    | none => simp
    | some h => cases ru.H with
      | none => simp
      | some uf => obtain ⟨us, f⟩ := uf; simp [Pres.node]
  · rw [L, lookup_outH, lookup_outS, lookup_outCp, lookup_outRange]
    simp only [fmtEntry]
    cases c.H with
    | none => simp
    | some h => cases ru.H with
      | none => simp
      | some uf => obtain ⟨us, f⟩ := uf; simp
  · rw [L, lookup_outH, lookup_outS, lookup_outCp, lookup_outRange]
    simp only [fmtEntry]
    cases c.S with
    | none => simp
    | some h => cases ru.S with
      | none => simp
      | some uf => obtain ⟨us, f⟩ := uf; simp [Pres.node]
  · rw [L, lookup_outH, lookup_outS, lookup_outCp, lookup_outRange]
    simp only [fmtEntry]
    cases c.S with
    | none => simp
    | some h => cases ru.S with
      | none => simp
      | some uf => obtain ⟨us, f⟩ := uf; simp
  · rw [L, lookup_outH, lookup_outS, lookup_outCp, lookup_outRange]
    simp only [fmtEntry]
    by_cases he : c.cp.isEmpty = true
    · simp [he]
    · cases hu : ru.Cp with
      | none => simp [he]
      | some uf => obtain ⟨us, f⟩ := uf; simp [he, CpPres.node, outRows_dim rnd r ru us f hu]
  · rw [L, lookup_outH, lookup_outS, lookup_outCp, lookup_outRange]
    simp only [fmtEntry]
    by_cases he : c.cp.isEmpty = true
    · simp [he]
    · cases hu : ru.Cp with
      | none => simp [he, CpPres.node, outRows_nd rnd r ru hu]
      | some uf => obtain ⟨us, f⟩ := uf; simp [he]
  · rw [L, lookup_outH, lookup_outS, lookup_outCp, lookup_outRange]
    simp only [fmtEntry]
    cases c.range with
    | none => simp
    | some lh => simp [presT, Pres.node]

/-! ### the written entry denotes `readBack` -/

section denotes
variable {tab : UnitTable} {r : Rat} {rnd : Rat → Rat} {ru : RUnits}

theorem denotes_presT (ok : ru.OK tab) (T : Rat) :
    Denotes tab [] .temperature (presT rnd ru T) (rT rnd ru.T.2 T) :=
  ⟨⟨ru.T.2, Dim.temperature⟩, ok.t.1, rfl, rfl⟩

theorem rowsDim_denote (ok : ru.OK tab) {us : String} {f : Rat} (hu : ru.Cp = some (us, f)) (cp : List (Rat × Rat))
    (ks : List Rat) : DimRowsDenote tab [] r (rowsDim rnd r ru us f cp ks) (readBackPts rnd r ru cp ks) := by
  induction ks with
  | nil => trivial
  | cons T rest ih =>
    refine ⟨denotes_presT ok T, ⟨rnd (r * ((dlookup T cp).getD 0) / f) * f, ?_, ?_⟩, ih⟩
    · exact ⟨⟨f, Dim.molarEntropy⟩, (ok.cp us f hu).1, rfl, rfl⟩
    · simp [rS, hu]

theorem rowsNd_denote (ok : ru.OK tab) (hu : ru.Cp = none) (cp : List (Rat × Rat)) (ks : List Rat) :
    NdRowsDenote tab [] (rowsNd rnd ru cp ks) (readBackPts rnd r ru cp ks) := by
  induction ks with
  | nil => trivial
  | cons T rest ih =>
    refine ⟨denotes_presT ok T, ?_, ih⟩
    simp [rS, hu]

theorem sortedKeys_nil_of_isEmpty {cp : List (Rat × Rat)} (h : cp.isEmpty = true) : sortedKeys cp = [] := by
  cases cp with
  | nil => rfl
  | cons a l => simp at h

/-- the entry `yaml_format` writes denotes, in the sense of C12, the correlation `readBack` -/
theorem fmtEntry_denotes (ok : ru.OK tab) (c : Corr) :
    EntryDenotes tab [] r (fmtEntry rnd r ru c) (readBack rnd r ru c) := by
  constructor
  · exact denotes_presT ok c.Tref
  · simp only [fmtEntry, readBack]
    cases c.H with
    | none => simp
    | some h =>
      cases hu : ru.H with
      | none => simp [rH]
      | some uf =>
        obtain ⟨us, f⟩ := uf
        simp only [Option.map_some]
        refine ⟨rnd (r * c.Tref * h / f) * f, ⟨⟨f, Dim.molarEnergy⟩, (ok.h us f hu).1, rfl, rfl⟩, ?_⟩
        simp [rH]
  · simp only [fmtEntry, readBack]
    cases c.S with
    | none => simp
    | some s0 =>
      cases hu : ru.S with
      | none => simp [rS]
      | some uf =>
        obtain ⟨us, f⟩ := uf
        simp only [Option.map_some]
        refine ⟨rnd (r * s0 / f) * f, ⟨⟨f, Dim.molarEntropy⟩, (ok.s us f hu).1, rfl, rfl⟩, ?_⟩
        simp [rS]
  · simp only [fmtEntry, readBack]
    by_cases he : c.cp.isEmpty = true
    · simp [he, sortedKeys_nil_of_isEmpty he, readBackPts, dictOfList]
    · simp only [he, Bool.false_eq_true, if_false]
      cases hu : ru.Cp with
      | none => exact ⟨_, rowsNd_denote ok hu c.cp _, rfl⟩
      | some uf =>
        obtain ⟨us, f⟩ := uf
        exact ⟨_, rowsDim_denote ok hu c.cp _, rfl⟩
  · simp only [fmtEntry, readBack]
    cases c.range with
    | none => simp
    | some lh =>
      obtain ⟨lo, hi⟩ := lh
      exact ⟨_, _, denotes_presT ok lo, denotes_presT ok hi, rfl⟩

end denotes

/-- **Write, then read.**  With units of the right dimensions, formatting never fails and loading the written entry
gives exactly `readBack` — every value a plain number — provided what is read back is a consistent correlation with
a non-zero reference temperature (it is whenever the rounding is monotone; see `Props/C18`). -/
theorem roundTrip_readBack {tab : UnitTable} {R : QV} {K : UnitQ} {r : Rat} {rnd : Rat → Rat} {ru : RUnits}
    (env : EnvOK tab R K r) (ok : ru.OK tab) (c : Corr)
    (hT : (readBack rnd r ru c).Tref ≠ 0)
    (hv : checkValid (readBack rnd r ru c).cp (readBack rnd r ru c).Tref (readBack rnd r ru c).range = .ok ()) :
    roundTrip tab R K rnd c ru.toFmt = .ok (.ok (embed (readBack rnd r ru c))) := by
  unfold roundTrip
  rw [yamlFormat_eq env ok c]
  simp only
  rw [loadEntry_denotes env (renders_outAll rnd r ru c) (fmtEntry_denotes ok c) hT hv]

/-! ### sorted keys and dictionaries built from lists -/

theorem insertKey_perm (k : Rat) (l : List Rat) : (insertKey k l).Perm (k :: l) := by
  induction l with
  | nil => exact List.Perm.refl _
  | cons x xs ih =>
    simp only [insertKey]
    split
    · exact List.Perm.refl _
    · exact (List.Perm.cons x ih).trans (List.Perm.swap k x xs)

theorem sortedKeys_perm (cp : List (Rat × Rat)) : (sortedKeys cp).Perm (keys cp) := by
  unfold sortedKeys keys
  induction cp.map Prod.fst with
  | nil => exact List.Perm.refl _
  | cons k ks ih =>
    simp only [List.foldr_cons]
    exact (insertKey_perm k _).trans (List.Perm.cons k ih)

theorem mem_sortedKeys (cp : List (Rat × Rat)) (T : Rat) : T ∈ sortedKeys cp ↔ T ∈ keys cp :=
  (sortedKeys_perm cp).mem_iff

theorem nodup_sortedKeys {cp : List (Rat × Rat)} (h : (keys cp).Nodup) : (sortedKeys cp).Nodup :=
  (sortedKeys_perm cp).nodup_iff.mpr h

theorem dlookup_foldl_dinsert {V : Type} (T : Rat) :
    ∀ (l acc : List (Rat × V)), (keys l).Nodup →
      dlookup T (l.foldl (fun d kv => dinsert kv.1 kv.2 d) acc) =
        match dlookup T l with | some v => some v | none => dlookup T acc := by
  intro l
  induction l with
  | nil => intro acc _; simp [dlookup]
  | cons kv rest ih =>
    intro acc hnd
    obtain ⟨k, v⟩ := kv
    simp only [keys, List.map_cons, List.nodup_cons] at hnd
    simp only [List.foldl_cons]
    rw [ih _ hnd.2, dlookup_dinsert]
    simp only [dlookup]
    by_cases hk : k = T
    · subst hk
      have : dlookup k rest = none := (dlookup_eq_none_iff k rest).mpr hnd.1
      simp [this]
    · simp [hk]

theorem dlookup_dictOfList {V : Type} (T : Rat) (l : List (Rat × V)) (h : (keys l).Nodup) :
    dlookup T (dictOfList l) = dlookup T l := by
  unfold dictOfList
  rw [dlookup_foldl_dinsert T l [] h]
  cases dlookup T l <;> simp [dlookup]

theorem keys_dictOfList_mem {V : Type} (T : Rat) (l : List (Rat × V)) (h : (keys l).Nodup) :
    T ∈ keys (dictOfList l) ↔ T ∈ keys l := by
  rw [← dlookup_isSome_iff, ← dlookup_isSome_iff, dlookup_dictOfList T l h]

/-- the table as it is written: ascending temperatures with their values -/
def sortedItems (cp : List (Rat × Rat)) : List (Rat × Rat) := (sortedKeys cp).map fun T => (T, (dlookup T cp).getD 0)

theorem keys_sortedItems (cp : List (Rat × Rat)) : keys (sortedItems cp) = sortedKeys cp := by
  simp [sortedItems, keys, Function.comp_def]

theorem dlookup_map_keys (f : Rat → Rat) (T : Rat) (ks : List Rat) :
    dlookup T (ks.map fun k => (k, f k)) = if T ∈ ks then some (f T) else none := by
  induction ks with
  | nil => simp [dlookup]
  | cons k rest ih =>
    simp only [List.map_cons, dlookup, ih, List.mem_cons]
    by_cases h : k = T
    · subst h; simp
    · have : ¬ T = k := fun e => h e.symm
      simp [h, this]

theorem dlookup_sortedItems (cp : List (Rat × Rat)) (T : Rat) : dlookup T (sortedItems cp) = dlookup T cp := by
  unfold sortedItems
  rw [dlookup_map_keys (fun T => (dlookup T cp).getD 0) T]
  by_cases h : T ∈ keys cp
  · have h' : T ∈ sortedKeys cp := (mem_sortedKeys cp T).mpr h
    simp only [h', if_true]
    rw [← dlookup_isSome_iff] at h
    cases hv : dlookup T cp with
    | none => rw [hv] at h; cases h
    | some v => rfl
  · have h' : T ∉ sortedKeys cp := fun hm => h ((mem_sortedKeys cp T).mp hm)
    simp only [h', if_false]
    exact ((dlookup_eq_none_iff T cp).mpr h).symm

/-- the canonical (ascending) form of a correlation: what a write–read cycle returns when nothing is rounded -/
def canonCorr (c : Corr) : Corr := ⟨c.H, c.S, dictOfList (sortedItems c.cp), c.Tref, c.range⟩

theorem canonCorr_same {c : Corr} (h : (keys c.cp).Nodup) : Same (canonCorr c) c := by
  refine ⟨rfl, rfl, ?_, rfl, rfl⟩
  intro T
  show dlookup T (dictOfList (sortedItems c.cp)) = dlookup T c.cp
  rw [dlookup_dictOfList T _ (by rw [keys_sortedItems]; exact nodup_sortedKeys h), dlookup_sortedItems]

theorem canonCorr_valid {c : Corr} (v : Valid c) : checkValid (canonCorr c).cp (canonCorr c).Tref (canonCorr c).range = .ok () := by
  rw [checkValid_iff]
  have hk : ∀ T, T ∈ keys (canonCorr c).cp ↔ T ∈ keys c.cp := by
    intro T
    show T ∈ keys (dictOfList (sortedItems c.cp)) ↔ _
    rw [keys_dictOfList_mem T _ (by rw [keys_sortedItems]; exact nodup_sortedKeys v.nodup), keys_sortedItems, mem_sortedKeys]
  exact (validP_congr hk _ _).mpr v.ok

/-- when the rounding leaves the written temperatures alone, the points read back are the sorted items -/
theorem readBackPts_fixed {rnd : Rat → Rat} {r : Rat} {ru : RUnits} (hf : ru.T.2 ≠ 0) (hCp : ru.Cp = none)
    (cp : List (Rat × Rat)) (ks : List Rat) (hfix : ∀ T ∈ ks, rnd (T / ru.T.2) = T / ru.T.2) :
    readBackPts rnd r ru cp ks = ks.map fun T => (T, (dlookup T cp).getD 0) := by
  induction ks with
  | nil => rfl
  | cons T rest ih =>
    have h1 : rT rnd ru.T.2 T = T := by
      unfold rT; rw [hfix T (by simp)]; field_simp
    simp only [readBackPts, List.map_cons, h1, rS, hCp, ih (fun T' h' => hfix T' (by simp [h']))]

/-! ### the keys written -/

theorem keys_outAll (rnd : Rat → Rat) (r : Rat) (ru : RUnits) (c : Corr) :
    (outAll rnd r ru c).map Prod.fst = expectedKeys c ru.toFmt := by
  have a : (outH rnd r ru c).map Prod.fst =
      (match c.H with | none => [] | some _ => [if (ru.H.map Prod.fst).isSome then "H_ref" else "ND_H_ref"]) := by
    unfold outH
    cases c.H with
    | none => rfl
    | some h => cases ru.H with
      | none => rfl
      | some uf => rfl
  have b : (outS rnd r ru c).map Prod.fst =
      (match c.S with | none => [] | some _ => [if (ru.S.map Prod.fst).isSome then "S_ref" else "ND_S_ref"]) := by
    unfold outS
    cases c.S with
    | none => rfl
    | some h => cases ru.S with
      | none => rfl
      | some uf => rfl
  have d : (outCp rnd r ru c).map Prod.fst =
      (if c.cp.isEmpty then [] else [if (ru.Cp.map Prod.fst).isSome then "Cp_data" else "ND_Cp_data"]) := by
    unfold outCp
    split
    · rfl
    · cases ru.Cp <;> rfl
  have e : (outRange rnd ru c).map Prod.fst = (match c.range with | none => [] | some _ => ["range"]) := by
    unfold outRange
    cases c.range with
    | none => rfl
    | some lh => rfl
  simp only [outAll, expectedKeys, List.map_append, List.map_cons, List.map_nil, RUnits.toFmt, a, b, d, e]
  rfl

/-! ### six significant digits -/

theorem absR_eq_abs (x : Rat) : absR x = |x| := by
  unfold absR
  split
  · rename_i h; rw [abs_of_neg h]
  · rename_i h; rw [abs_of_nonneg (not_lt.mp h)]

theorem round6_zero {rnd : Rat → Rat} (hr : Round6 rnd) : rnd 0 = 0 := by
  have := hr 0
  rw [absR_eq_abs, absR_eq_abs] at this
  simp only [sub_zero, abs_zero, mul_zero] at this
  exact abs_eq_zero.mp (le_antisymm this (abs_nonneg _))

/-- a rounded number scaled back: the relative bound is kept -/
theorem scaled_bound {rnd : Rat → Rat} (hr : Round6 rnd) (x s : Rat) :
    |(rnd x - x) * s| ≤ (5 / 1000000 : Rat) * |x * s| := by
  have h := hr x
  rw [absR_eq_abs, absR_eq_abs] at h
  rw [abs_mul, abs_mul, ← mul_assoc]
  exact mul_le_mul_of_nonneg_right h (abs_nonneg s)

theorem rT_bound {rnd : Rat → Rat} (hr : Round6 rnd) (f : Rat) (hf : f ≠ 0) (T : Rat) :
    absR (rT rnd f T - T) ≤ (5 / 1000000 : Rat) * absR T := by
  rw [absR_eq_abs, absR_eq_abs]
  have e1 : rT rnd f T - T = (rnd (T / f) - T / f) * f := by unfold rT; field_simp
  have e2 : T = T / f * f := by field_simp
  rw [e1]
  conv_rhs => rw [e2]
  exact scaled_bound hr _ _

theorem rS_bound {rnd : Rat → Rat} {r : Rat} (hr : Round6 rnd) (hr0 : r ≠ 0) (us : String) (f : Rat) (hf : f ≠ 0) (v : Rat) :
    absR (rS rnd r (some (us, f)) v - v) ≤ (5 / 1000000 : Rat) * absR v := by
  rw [absR_eq_abs, absR_eq_abs]
  have e1 : rS rnd r (some (us, f)) v - v = (rnd (r * v / f) - r * v / f) * (f / r) := by
    simp only [rS]; field_simp
  have e2 : v = r * v / f * (f / r) := by field_simp
  rw [e1]
  conv_rhs => rw [e2]
  exact scaled_bound hr _ _

theorem rH_bound {rnd : Rat → Rat} {r : Rat} (hr : Round6 rnd) (hr0 : r ≠ 0) (us : String) (f : Rat) (hf : f ≠ 0)
    (T h : Rat) (hT : T ≠ 0) :
    absR (rH rnd r T T (some (us, f)) h - h) ≤ (5 / 1000000 : Rat) * absR h := by
  rw [absR_eq_abs, absR_eq_abs]
  have e1 : rH rnd r T T (some (us, f)) h - h = (rnd (r * T * h / f) - r * T * h / f) * (f / (r * T)) := by
    simp only [rH]; field_simp
  have e2 : h = r * T * h / f * (f / (r * T)) := by field_simp
  rw [e1]
  conv_rhs => rw [e2]
  exact scaled_bound hr _ _

/-! ### what is read back is consistent when the rounding is monotone -/

/-- `'%g'` is monotone: a larger number is not written as a smaller one -/
def Mono (rnd : Rat → Rat) : Prop := ∀ x y, x ≤ y → rnd x ≤ rnd y

theorem rT_mono {rnd : Rat → Rat} (hm : Mono rnd) {f : Rat} (hf : 0 < f) {x y : Rat} (h : x ≤ y) :
    rT rnd f x ≤ rT rnd f y := by
  unfold rT
  exact mul_le_mul_of_nonneg_right (hm _ _ (div_le_div_of_nonneg_right h (le_of_lt hf))) (le_of_lt hf)

theorem mem_keys_foldl_dinsert {V : Type} (T : Rat) :
    ∀ (l acc : List (Rat × V)),
      T ∈ keys (l.foldl (fun d kv => dinsert kv.1 kv.2 d) acc) ↔ T ∈ keys acc ∨ T ∈ keys l := by
  intro l
  induction l with
  | nil => intro acc; simp [keys]
  | cons kv rest ih =>
    intro acc
    simp only [List.foldl_cons]
    rw [ih, mem_keys_dinsert]
    simp only [keys, List.map_cons, List.mem_cons]
    constructor
    · rintro ((h | h) | h)
      · exact Or.inr (Or.inl h)
      · exact Or.inl h
      · exact Or.inr (Or.inr h)
    · rintro (h | h | h)
      · exact Or.inl (Or.inr h)
      · exact Or.inl (Or.inl h)
      · exact Or.inr h

theorem mem_keys_dictOfList {V : Type} (T : Rat) (l : List (Rat × V)) : T ∈ keys (dictOfList l) ↔ T ∈ keys l := by
  unfold dictOfList
  rw [mem_keys_foldl_dinsert]
  simp [keys]

theorem keys_readBackPts (rnd : Rat → Rat) (r : Rat) (ru : RUnits) (cp : List (Rat × Rat)) (ks : List Rat) :
    keys (readBackPts rnd r ru cp ks) = ks.map (rT rnd ru.T.2) := by
  induction ks with
  | nil => rfl
  | cons T rest ih =>
    simp only [readBackPts, keys, List.map_cons] at ih ⊢
    rw [ih]

theorem mem_keys_readBack (rnd : Rat → Rat) (r : Rat) (ru : RUnits) (c : Corr) (T' : Rat) :
    T' ∈ keys (readBack rnd r ru c).cp ↔ ∃ T ∈ keys c.cp, T' = rT rnd ru.T.2 T := by
  show T' ∈ keys (dictOfList (readBackPts rnd r ru c.cp (sortedKeys c.cp))) ↔ _
  rw [mem_keys_dictOfList, keys_readBackPts, List.mem_map]
  constructor
  · rintro ⟨T, hT, rfl⟩; exact ⟨T, (mem_sortedKeys c.cp T).mp hT, rfl⟩
  · rintro ⟨T, hT, rfl⟩; exact ⟨T, (mem_sortedKeys c.cp T).mpr hT, rfl⟩

/-- with a monotone rounding and a positive temperature unit, what is read back from a consistent correlation is
consistent -/
theorem readBack_valid {rnd : Rat → Rat} (hm : Mono rnd) {r : Rat} {ru : RUnits} (hf : 0 < ru.T.2) {c : Corr} (v : Valid c) :
    checkValid (readBack rnd r ru c).cp (readBack rnd r ru c).Tref (readBack rnd r ru c).range = .ok () := by
  rw [checkValid_iff]
  have hk := mem_keys_readBack rnd r ru c
  have hne : keys (readBack rnd r ru c).cp ≠ [] → keys c.cp ≠ [] := by
    intro h
    obtain ⟨T', hT'⟩ := List.exists_mem_of_ne_nil _ h
    obtain ⟨T, hT, _⟩ := (hk T').mp hT'
    exact List.ne_nil_of_mem hT
  have vo := v.ok
  show ValidP _ (rT rnd ru.T.2 c.Tref) (c.range.map fun lh => (rT rnd ru.T.2 lh.1, rT rnd ru.T.2 lh.2))
  cases hr : c.range with
  | none =>
    rw [hr] at vo
    simp only [ValidP, Option.map_none] at vo ⊢
    intro h
    obtain ⟨⟨k1, m1, l1⟩, ⟨k2, m2, l2⟩⟩ := vo (hne h)
    exact ⟨⟨_, (hk _).mpr ⟨k1, m1, rfl⟩, rT_mono hm hf l1⟩, ⟨_, (hk _).mpr ⟨k2, m2, rfl⟩, rT_mono hm hf l2⟩⟩
  | some lh =>
    obtain ⟨lo, hi⟩ := lh
    rw [hr] at vo
    simp only [ValidP, Option.map_some] at vo ⊢
    refine ⟨rT_mono hm hf vo.1, ?_⟩
    intro h
    obtain ⟨hall, h1, h2⟩ := vo.2 (hne h)
    refine ⟨?_, rT_mono hm hf h1, rT_mono hm hf h2⟩
    intro k' hk'
    obtain ⟨T, hT, rfl⟩ := (hk k').mp hk'
    exact ⟨rT_mono hm hf (hall T hT).1, rT_mono hm hf (hall T hT).2⟩

theorem rT_ne_zero {rnd : Rat → Rat} (hr : Round6 rnd) {f : Rat} (hf : f ≠ 0) {T : Rat} (hT : T ≠ 0) : rT rnd f T ≠ 0 := by
  intro h
  have hb := rT_bound hr f hf T
  rw [h, absR_eq_abs, absR_eq_abs] at hb
  simp only [zero_sub, abs_neg] at hb
  have hpos : 0 < |T| := abs_pos.mpr hT
  nlinarith

end PGA.YamlFormat
