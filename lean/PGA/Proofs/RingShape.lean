import PGA.Proofs.RingTop
/-!
# Shapes of the trees the engine builds (towards C09-T4)

`kinds e` — the finitely many sequences of child *kinds* (string leaf, integer leaf, node of rule `n`)
a successful evaluation of `e` can append, for expressions without `ZeroOrMore`.
`Conf G t` — hereditarily: every node's children have one of the kind sequences of its rule body, and
every string leaf is non-empty.  `eval_conf`: everything the engine outputs conforms.
-/
set_option linter.unusedVariables false
namespace PGA.Ring
open PGA.Chars

inductive Kind where
  | str | int | node (n : Nat)
  deriving DecidableEq, Repr

def kindOf : Ast → Kind
  | .node n _ => .node n
  | .str _ => .str
  | .int _ => .int

def kinds : Expr → List (List Kind)
  | .eos => [[]]
  | .digit _ => [[.int]]
  | .number => [[.int]]
  | .string => [[.str]]
  | .lit _ _ => [[.str]]
  | .filler _ _ => [[]]
  | .opt a => [] :: kinds a
  | .star _ => []
  | .allNil => [[]]
  | .allCons a r => (kinds a).flatMap fun x => (kinds r).map fun y => x ++ y
  | .anyNil => []
  | .anyCons a r => kinds a ++ kinds r
  | .literals _ _ => [[.str]]
  | .ref n => [[.node n]]

/-- no `ZeroOrMore`, every literal token non-empty -/
def plain : Expr → Bool
  | .star _ => false
  | .lit tok _ => !tok.isEmpty
  | .literals toks _ => toks.all (fun t => !t.isEmpty)
  | .opt a => plain a
  | .allCons a r => plain a && plain r
  | .anyCons a r => plain a && plain r
  | _ => true

def allPlain (G : Grammar) : Bool :=
  G.rules.all fun r => match r with | some b => plain b | none => true

inductive Conf (G : Grammar) : Ast → Prop where
  | str (s : List Char) : s ≠ [] → Conf G (.str s)
  | int (v : Nat) : Conf G (.int v)
  | node (n : Nat) (body : Expr) (kids : List Ast) : G.rules[n]? = some (some body) →
      kids.map kindOf ∈ kinds body → (∀ k ∈ kids, Conf G k) → Conf G (.node n kids)

theorem take_fst (fil : List (List Char)) (st : St) (n : Nat) (s : List Char) (st' : St)
    (h : take fil st n = some (s, st')) : s = st.rest.take n := by
  unfold take at h
  simp only [skipFiller] at h
  split at h
  · cases h
  · cases h; rfl

theorem digitLoop_out (G : Grammar) : ∀ (n : Nat) (st : St) (acc : List Char) (cur : Option Err) (st' : St) (out : List Ast)
    (cur' : Option Err), digitLoop G n st acc cur = .ok st' out cur' → ∃ v, out = [.int v] := by
  intro n
  induction n with
  | zero =>
    intro st acc cur st' out cur' h
    simp only [digitLoop, pyInt] at h
    split at h
    · cases h; exact ⟨_, rfl⟩
    · cases h
  | succ n ih =>
    intro st acc cur st' out cur' h
    unfold digitLoop at h
    split at h
    · cases h
    · split at h
      · split at h
        · cases h
        · exact ih _ _ _ _ _ _ h
      · cases h

theorem literalsLoop_out (G : Grammar) (st : St) : ∀ (toks : List (List Char)) (cur : Option Err) (st' : St) (out : List Ast)
    (cur' : Option Err), (∀ t ∈ toks, t ≠ []) → literalsLoop G st toks cur = .ok st' out cur' → ∃ s, s ≠ [] ∧ out = [.str s] := by
  intro toks
  induction toks with
  | nil => intro cur st' out cur' _ h; cases cur <;> simp [literalsLoop] at h
  | cons tok more ih =>
    intro cur st' out cur' hne h
    unfold literalsLoop at h
    split at h
    · rename_i hm
      split at h
      · cases h
      · rename_i s st1 ht
        cases h
        have := take_fst _ _ _ _ _ ht
        refine ⟨s, ?_, rfl⟩
        rw [this, hm]; exact hne tok (by simp)
    · exact ih _ _ _ _ (fun t ht => hne t (by simp [ht])) h

/-- what a successful result outputs -/
def OutOK (G : Grammar) (e : Expr) (out : List Ast) : Prop :=
  out.map kindOf ∈ kinds e ∧ ∀ t ∈ out, Conf G t

theorem evalLeaf_conf (G : Grammar) (e : Expr) (st : St) (cur : Option Err) (hp : plain e = true)
    (st' : St) (out : List Ast) (cur' : Option Err) (h : evalLeaf G e st cur = .ok st' out cur') : OutOK G e out := by
  cases e with
  | eos =>
    simp only [evalLeaf] at h
    split at h
    · cases h; exact ⟨by simp [kinds], by simp⟩
    · cases h
  | digit n =>
    simp only [evalLeaf] at h
    obtain ⟨v, rfl⟩ := digitLoop_out G n st [] cur st' out cur' h
    exact ⟨by simp [kinds, kindOf], by intro t ht; simp at ht; subst ht; exact .int v⟩
  | number =>
    simp only [evalLeaf] at h
    split at h
    · cases h
    · split at h
      · split at h
        · cases h
        · split at h
          · cases h
          · split at h
            · cases h; exact ⟨by simp [kinds, kindOf], by intro t ht; simp at ht; subst ht; exact .int _⟩
            · cases h
      · cases h
  | string =>
    simp only [evalLeaf] at h
    split at h
    · cases h
    · rename_i c r hrest
      split at h
      · split at h
        · cases h
        · rename_i s st1 ht
          cases h
          have := take_fst _ _ _ _ _ ht
          refine ⟨by simp [kinds, kindOf], ?_⟩
          intro t ht'; simp at ht'; subst ht'
          refine .str s ?_
          rw [this, hrest]; simp
      · cases h
  | lit tok noErr =>
    simp only [plain, Bool.not_eq_true', List.isEmpty_eq_false_iff] at hp
    simp only [evalLeaf] at h
    split at h
    · rename_i hm
      split at h
      · cases h
      · rename_i s st1 ht
        cases h
        have := take_fst _ _ _ _ _ ht
        refine ⟨by simp [kinds, kindOf], ?_⟩
        intro t ht'; simp at ht'; subst ht'
        refine .str s ?_
        rw [this, hm]; exact hp
    · cases h
  | filler tok noErr =>
    simp only [evalLeaf] at h
    split at h
    · split at h
      · cases h
      · cases h; exact ⟨by simp [kinds], by simp⟩
    · cases h
  | literals toks name =>
    simp only [plain, List.all_eq_true, Bool.not_eq_true', List.isEmpty_eq_false_iff] at hp
    simp only [evalLeaf] at h
    split at h
    · split at h <;> cases h
    · rename_i r hnf
      obtain ⟨s, hs, rfl⟩ := literalsLoop_out G st toks cur st' out cur' hp h
      exact ⟨by simp [kinds, kindOf], by intro t ht; simp at ht; subst ht; exact .str s hs⟩
  | _ => simp [evalLeaf] at h

theorem eval_conf (G : Grammar) (hG : allPlain G = true) :
    ∀ (e : Expr) (st : St) (cur : Option Err) (bound : Nat), plain e = true →
      ∀ st' out cur', eval G e st cur bound = .ok st' out cur' → OutOK G e out := by
  have hbody : ∀ (n : Nat) body, G.rules[n]? = some (some body) → plain body = true := by
    intro n body hb
    unfold allPlain at hG
    rw [List.all_eq_true] at hG
    have := hG (some body) (List.mem_of_getElem? hb)
    exact this
  intro e st cur bound
  fun_induction eval G e st cur bound with
  | case1 st cur bound a c cur' hfail ih =>
    intro hp st' out cur'' h; cases h
    exact ⟨by simp [kinds], by simp⟩
  | case2 st cur bound a hnf ih =>
    intro hp st' out cur' h
    have g := ih (by simpa [plain] using hp) st' out cur' h
    exact ⟨by simp [kinds, g.1], g.2⟩
  | case3 st cur bound a err cur' hfail ih => intro hp; simp [plain] at hp
  | case4 st cur bound a st1 out1 cur1 hok hlt st2 out2 cur2 hrec ih1 ih2 => intro hp; simp [plain] at hp
  | case5 st cur bound a st1 out1 cur1 hok hlt hnok ih1 ih2 => intro hp; simp [plain] at hp
  | case6 st cur bound a st1 out1 cur1 hok hnlt ih => intro hp; simp [plain] at hp
  | case7 st cur bound a hnf hnok ih => intro hp; simp [plain] at hp
  | case8 st cur bound =>
    intro hp st' out cur' h; cases h
    exact ⟨by simp [kinds], by simp⟩
  | case9 st cur bound a rest st2 out2 cur2 hok hlt st3 out3 cur3 hrec ih1 ih2 =>
    intro hp st' out cur' h; cases h
    simp only [plain, Bool.and_eq_true] at hp
    have g1 := ih1 hp.1 _ _ _ hok
    have g2 := ih2 hp.2 _ _ _ hrec
    refine ⟨?_, ?_⟩
    · simp only [kinds, List.map_append, List.mem_flatMap, List.mem_map]
      exact ⟨_, g1.1, _, g2.1, rfl⟩
    · intro t ht; rcases List.mem_append.mp ht with ht | ht
      · exact g1.2 t ht
      · exact g2.2 t ht
  | case10 st cur bound a rest st2 out2 cur2 hok hlt hnok ih1 ih2 =>
    intro hp st' out cur' h; exact absurd h (fun h => hnok _ _ _ h)
  | case11 st cur bound a rest st2 out2 cur2 hok hnlt heq st3 out3 cur3 hrec ih1 ih2 =>
    intro hp st' out cur' h; cases h
    simp only [plain, Bool.and_eq_true] at hp
    have g1 := ih1 hp.1 _ _ _ hok
    have g2 := ih2 hp.2 _ _ _ hrec
    refine ⟨?_, ?_⟩
    · simp only [kinds, List.map_append, List.mem_flatMap, List.mem_map]
      exact ⟨_, g1.1, _, g2.1, rfl⟩
    · intro t ht; rcases List.mem_append.mp ht with ht | ht
      · exact g1.2 t ht
      · exact g2.2 t ht
  | case12 st cur bound a rest st2 out2 cur2 hok hnlt heq hnok ih1 ih2 =>
    intro hp st' out cur' h; exact absurd h (fun h => hnok _ _ _ h)
  | case13 st cur bound a rest st2 out2 cur2 hok hnlt hneq ih1 => intro hp st' out cur' h; cases h
  | case14 st cur bound a rest hnok ih1 => intro hp st' out cur' h; exact absurd h (fun h => hnok _ _ _ h)
  | case15 st bound => intro hp st' out cur' h; cases h
  | case16 st bound c => intro hp st' out cur' h; cases h
  | case17 st cur bound a rest c cur' hfail ih1 ih2 =>
    intro hp st' out cur'' h
    simp only [plain, Bool.and_eq_true] at hp
    have g := ih2 hp.2 _ _ _ h
    exact ⟨by simp [kinds, g.1], g.2⟩
  | case18 st cur bound a rest hnf ih1 =>
    intro hp st' out cur' h
    simp only [plain, Bool.and_eq_true] at hp
    have g := ih1 hp.1 _ _ _ h
    exact ⟨by simp [kinds, g.1], g.2⟩
  | case19 st cur bound n body hb v hrank hlt st2 out2 cur2 hok ih =>
    intro hp st' out cur' h; cases h
    have g := ih (hbody n body hb) _ _ _ hok
    refine ⟨by simp [kinds, kindOf], ?_⟩
    intro t ht; simp at ht; subst ht
    exact .node n body out2 hb g.1 g.2
  | case20 st cur bound n body hb v hrank hlt hnok ih =>
    intro hp st' out cur' h; exact absurd h (fun h => hnok _ _ _ h)
  | case21 st cur bound n body hb v hrank hnlt => intro hp st' out cur' h; cases h
  | case22 st cur bound n body hb hrank => intro hp st' out cur' h; cases h
  | case23 st cur bound n hmiss => intro hp st' out cur' h; cases h
  | case24 st cur bound e h1 h2 h3 h4 h5 h6 h7 =>
    intro hp st' out cur' h
    exact evalLeaf_conf G e st cur hp st' out cur' h

/-- the tree of an accepted text conforms to the grammar table and is a node of the root rule -/
theorem parse_conf (G : Grammar) (hG : allPlain G = true) (s : List Char) (ast : Ast) (fin : St)
    (h : parse G s = .accepted ast fin) : Conf G ast ∧ kindOf ast = .node G.root := by
  unfold parse at h
  split at h
  · cases h
  · rename_i st0 h0
    split at h
    · rename_i st out cur he
      have g := eval_conf G hG (.ref G.root) st0 none G.top rfl _ _ _ he
      split at h
      · split at h
        · rename_i t rest
          cases h
          have h1 := g.1
          simp only [kinds, List.mem_singleton, List.map_cons] at h1
          refine ⟨g.2 _ (by simp), ?_⟩
          injection h1 with h1 _
        · cases h
      · cases h
    · cases h
    · cases h

end PGA.Ring
