import Mathlib.Tactic.Linarith
import PGA.Spec.Merge
import PGA.Proofs.Yaml
/-! Helper lemmas for C13: dictionaries, the validity check as a proposition, the merge loop. -/
namespace PGA.Merge
open PGA.Yaml

/-! ### dictionaries -/

section dict
variable {V : Type}

theorem dlookup_dinsert (k T : Rat) (v : V) (l : List (Rat × V)) :
    dlookup T (dinsert k v l) = if k = T then some v else dlookup T l := by
  induction l with
  | nil => simp [dinsert, dlookup]
  | cons kv l ih =>
    obtain ⟨k', v'⟩ := kv
    simp only [dinsert]
    by_cases h : k' = k
    · subst h
      simp only [if_true, dlookup]
      split <;> rfl
    · simp only [h, if_false, dlookup, ih]
      by_cases h2 : k' = T
      · subst h2
        have : ¬ k = k' := fun e => h e.symm
        simp [this]
      · simp [h2]

theorem dlookup_isSome_iff (T : Rat) (l : List (Rat × V)) : (dlookup T l).isSome = true ↔ T ∈ keys l := by
  induction l with
  | nil => simp [dlookup, keys]
  | cons kv l ih =>
    obtain ⟨k', v'⟩ := kv
    simp only [dlookup, keys, List.map_cons, List.mem_cons] at ih ⊢
    by_cases h : k' = T
    · subst h; simp
    · simp only [h, if_false, ih]
      constructor
      · intro hm; exact Or.inr hm
      · rintro (e | hm)
        · exact absurd e.symm h
        · exact hm

theorem dlookup_eq_none_iff (T : Rat) (l : List (Rat × V)) : dlookup T l = none ↔ T ∉ keys l := by
  rw [← dlookup_isSome_iff]
  cases dlookup T l <;> simp

theorem keys_dinsert (k : Rat) (v : V) (l : List (Rat × V)) :
    keys (dinsert k v l) = if k ∈ keys l then keys l else keys l ++ [k] := by
  induction l with
  | nil => simp [dinsert, keys]
  | cons kv l ih =>
    obtain ⟨k', v'⟩ := kv
    simp only [dinsert, keys, List.map_cons, List.mem_cons] at ih ⊢
    by_cases h : k' = k
    · subst h; simp
    · have h' : ¬ k = k' := fun e => h e.symm
      simp only [h, if_false, List.map_cons, ih, h', false_or]
      split <;> simp_all

theorem nodup_dinsert (k : Rat) (v : V) (l : List (Rat × V)) (h : (keys l).Nodup) : (keys (dinsert k v l)).Nodup := by
  rw [keys_dinsert]
  split
  · exact h
  · rename_i hk
    rw [List.nodup_append]
    refine ⟨h, by simp, ?_⟩
    intro a ha b hb
    simp at hb
    subst hb
    intro e; subst e; exact hk ha

theorem mem_keys_dinsert (k T : Rat) (v : V) (l : List (Rat × V)) : T ∈ keys (dinsert k v l) ↔ T = k ∨ T ∈ keys l := by
  rw [keys_dinsert]
  split
  · rename_i hk
    constructor
    · exact Or.inr
    · rintro (rfl | h)
      · exact hk
      · exact h
  · simp [or_comm]

/-- storing the value a key already has changes nothing -/
theorem dinsert_same (k : Rat) (v : V) (l : List (Rat × V)) (h : dlookup k l = some v) : dinsert k v l = l := by
  induction l with
  | nil => simp [dlookup] at h
  | cons kv l ih =>
    obtain ⟨k', v'⟩ := kv
    simp only [dlookup] at h
    simp only [dinsert]
    by_cases hk : k' = k
    · subst hk
      simp only [if_true, Option.some.injEq] at h ⊢
      rw [h]
    · simp only [hk, if_false] at h ⊢
      rw [ih h]

theorem keys_eq_nil {l : List (Rat × V)} : keys l = [] ↔ l = [] := by
  cases l <;> simp [keys]

theorem isEmpty_eq_false_iff {l : List (Rat × V)} : l.isEmpty = false ↔ keys l ≠ [] := by
  cases l <;> simp [keys]

/-! ### smallest and largest key -/

theorem minKey_eq_none {l : List (Rat × V)} : minKey l = none ↔ l = [] := by
  cases l with
  | nil => simp [minKey]
  | cons kv l =>
    obtain ⟨k, v⟩ := kv
    simp only [minKey]
    cases minKey l <;> simp

theorem maxKey_eq_none {l : List (Rat × V)} : maxKey l = none ↔ l = [] := by
  cases l with
  | nil => simp [maxKey]
  | cons kv l =>
    obtain ⟨k, v⟩ := kv
    simp only [maxKey]
    cases maxKey l <;> simp

theorem minKey_spec {l : List (Rat × V)} {m : Rat} (h : minKey l = some m) : m ∈ keys l ∧ ∀ k ∈ keys l, m ≤ k := by
  induction l generalizing m with
  | nil => simp [minKey] at h
  | cons kv l ih =>
    obtain ⟨k, v⟩ := kv
    simp only [minKey] at h
    cases hm : minKey l with
    | none =>
      rw [hm] at h
      simp only [Option.some.injEq] at h
      subst h
      have : l = [] := minKey_eq_none.mp hm
      subst this
      simp [keys]
    | some m' =>
      rw [hm] at h
      simp only [Option.some.injEq] at h
      obtain ⟨hmem, hle⟩ := ih hm
      simp only [keys, List.map_cons, List.mem_cons] at hmem hle ⊢
      by_cases hk : k ≤ m'
      · simp only [hk, if_true] at h
        subst h
        refine ⟨Or.inl rfl, ?_⟩
        rintro x (rfl | hx)
        · exact le_refl _
        · exact le_trans hk (hle x hx)
      · simp only [hk, if_false] at h
        subst h
        refine ⟨Or.inr hmem, ?_⟩
        rintro x (rfl | hx)
        · exact le_of_lt (not_le.mp hk)
        · exact hle x hx

theorem maxKey_spec {l : List (Rat × V)} {m : Rat} (h : maxKey l = some m) : m ∈ keys l ∧ ∀ k ∈ keys l, k ≤ m := by
  induction l generalizing m with
  | nil => simp [maxKey] at h
  | cons kv l ih =>
    obtain ⟨k, v⟩ := kv
    simp only [maxKey] at h
    cases hm : maxKey l with
    | none =>
      rw [hm] at h
      simp only [Option.some.injEq] at h
      subst h
      have : l = [] := maxKey_eq_none.mp hm
      subst this
      simp [keys]
    | some m' =>
      rw [hm] at h
      simp only [Option.some.injEq] at h
      obtain ⟨hmem, hle⟩ := ih hm
      simp only [keys, List.map_cons, List.mem_cons] at hmem hle ⊢
      by_cases hk : m' ≤ k
      · simp only [hk, if_true] at h
        subst h
        refine ⟨Or.inl rfl, ?_⟩
        rintro x (rfl | hx)
        · exact le_refl _
        · exact le_trans (hle x hx) hk
      · simp only [hk, if_false] at h
        subst h
        refine ⟨Or.inr hmem, ?_⟩
        rintro x (rfl | hx)
        · exact le_of_lt (not_le.mp hk)
        · exact hle x hx

theorem minKey_isSome {l : List (Rat × V)} (h : l ≠ []) : ∃ m, minKey l = some m := by
  cases hm : minKey l with
  | none => exact absurd (minKey_eq_none.mp hm) h
  | some m => exact ⟨m, rfl⟩

theorem maxKey_isSome {l : List (Rat × V)} (h : l ≠ []) : ∃ m, maxKey l = some m := by
  cases hm : maxKey l with
  | none => exact absurd (maxKey_eq_none.mp hm) h
  | some m => exact ⟨m, rfl⟩

end dict

/-! ### the constructor's check is the proposition `ValidP` -/

theorem setupCheck_iff {V : Type} (cp : List (Rat × V)) (T : Rat) (range : Option (Rat × Rat)) :
    setupCheck cp T range = .ok () ↔
      (keys cp ≠ [] → match range with
        | some (lo, hi) => (∀ k ∈ keys cp, lo ≤ k ∧ k ≤ hi) ∧ lo ≤ T ∧ T ≤ hi
        | none => (∃ k ∈ keys cp, k ≤ T) ∧ (∃ k ∈ keys cp, T ≤ k)) := by
  by_cases hcp : cp = []
  · subst hcp
    simp [setupCheck, minKey, maxKey, keys]
  · obtain ⟨mn, hmn⟩ := minKey_isSome hcp
    obtain ⟨mx, hmx⟩ := maxKey_isSome hcp
    have hk : keys cp ≠ [] := fun h => hcp (keys_eq_nil.mp h)
    obtain ⟨mnmem, mnle⟩ := minKey_spec hmn
    obtain ⟨mxmem, mxle⟩ := maxKey_spec hmx
    simp only [setupCheck, hmn, hmx, rawCheck, ne_eq, hk, not_false_eq_true, forall_const]
    cases range with
    | none =>
      simp only
      constructor
      · intro h
        split at h
        · cases h
        · rename_i hn
          rw [not_or, not_lt, not_lt] at hn
          exact ⟨⟨mn, mnmem, hn.1⟩, ⟨mx, mxmem, hn.2⟩⟩
      · rintro ⟨⟨k1, hk1, h1⟩, ⟨k2, hk2, h2⟩⟩
        have : ¬ (T < mn ∨ mx < T) := by
          rw [not_or, not_lt, not_lt]
          exact ⟨le_trans (mnle k1 hk1) h1, le_trans h2 (mxle k2 hk2)⟩
        simp [this]
    | some lh =>
      obtain ⟨lo, hi⟩ := lh
      simp only
      constructor
      · intro h
        split at h
        · cases h
        · rename_i hn
          split at h
          · cases h
          · rename_i hn2
            rw [not_or, not_lt, not_lt] at hn hn2
            exact ⟨fun k hk => ⟨le_trans hn.1 (mnle k hk), le_trans (mxle k hk) hn.2⟩, hn2.1, hn2.2⟩
      · rintro ⟨hall, h1, h2⟩
        have a : ¬ (mn < lo ∨ hi < mx) := by
          rw [not_or, not_lt, not_lt]; exact ⟨(hall mn mnmem).1, (hall mx mxmem).2⟩
        have b : ¬ (T < lo ∨ hi < T) := by
          rw [not_or, not_lt, not_lt]; exact ⟨h1, h2⟩
        simp [a, b]

theorem checkValid_iff {V : Type} (cp : List (Rat × V)) (T : Rat) (range : Option (Rat × Rat)) :
    checkValid cp T range = .ok () ↔ ValidP (keys cp) T range := by
  unfold checkValid ValidP
  cases range with
  | none =>
    simp only [rangeAssert]
    show setupCheck cp T none = .ok () ↔ _
    rw [setupCheck_iff]
  | some lh =>
    obtain ⟨lo, hi⟩ := lh
    simp only [rangeAssert]
    by_cases h : hi < lo
    · simp only [h, if_true]
      constructor
      · intro e; cases e
      · rintro ⟨hle, _⟩; exact absurd h (not_lt.mpr hle)
    · simp only [h, if_false]
      show setupCheck cp T (some (lo, hi)) = .ok () ↔ _
      rw [setupCheck_iff]
      exact ⟨fun hh => ⟨not_lt.mp h, hh⟩, fun hh => hh.2⟩

/-- the second half of the constructor's check follows from the whole -/
theorem setupCheck_of_checkValid {V : Type} {cp : List (Rat × V)} {T : Rat} {range : Option (Rat × Rat)}
    (h : checkValid cp T range = .ok ()) : setupCheck cp T range = .ok () := by
  unfold checkValid at h
  cases hr : rangeAssert range with
  | error e => rw [hr] at h; cases h
  | ok u => rw [hr] at h; exact h

/-! ### failure atomicity -/

theorem setup_ok {c : Corr} (h : setupCheck c.cp c.Tref c.range = .ok ()) : setup c = (⟨c, !c.cp.isEmpty⟩, none) := by
  simp [setup, h]

/-- whenever `update` raises, `self` is left exactly as it was — for every pair of correlations, equal reference
temperatures or not, with or without `overwrite`, whatever the raw-data evaluator returns -/
theorem update_atomic (ev : RawEval) (self : Obj) (d : Corr) (ow : Bool) (e : UErr)
    (h : (update ev self d ow).2 = some e) : (update ev self d ow).1 = self := by
  unfold update at h ⊢
  simp only at h ⊢
  cases hm : mergeCp ow self.c.cp self.c.cp d.cp with
  | error e1 => simp [hm]
  | ok cp =>
    simp only [hm] at h ⊢
    cases hr : mergeRefs ev ow self.c d cp (unionRange self.c.range d.range) with
    | error e2 => simp [hr]
    | ok HS =>
      obtain ⟨H, S⟩ := HS
      simp only [hr] at h ⊢
      cases hv : checkValid cp self.c.Tref (unionRange self.c.range d.range) with
      | error e3 => simp [hv]
      | ok u =>
        simp only [hv] at h ⊢
        have hs : setupCheck cp self.c.Tref (unionRange self.c.range d.range) = .ok () := setupCheck_of_checkValid hv
        have := setup_ok (c := ⟨H, S, cp, self.c.Tref, unionRange self.c.range d.range⟩) hs
        rw [this] at h
        simp at h

/-! ### the merge loop over the table -/

theorem mem_keys_of_dlookup {V : Type} {T : Rat} {v : V} {l : List (Rat × V)} (h : dlookup T l = some v) : T ∈ keys l := by
  rw [← dlookup_isSome_iff, h]; rfl

/-- if no datum of `other` meets a different value in `self` (or `overwrite` is set), the loop succeeds and the result
holds `other`'s value where `other` has one and `acc`'s elsewhere -/
theorem mergeCp_spec (ow : Bool) (self : List (Rat × Rat)) :
    ∀ (other acc : List (Rat × Rat)), (keys other).Nodup →
      (ow = false → ∀ T v, dlookup T other = some v → (dlookup T self).isSome = true → dlookup T acc = some v) →
      ∃ r, mergeCp ow self acc other = .ok r ∧
        (∀ T, dlookup T r = match dlookup T other with | some v => some v | none => dlookup T acc) ∧
        ((keys acc).Nodup → (keys r).Nodup) := by
  intro other
  induction other with
  | nil =>
    intro acc _ _
    exact ⟨acc, rfl, fun T => by simp [dlookup], id⟩
  | cons kv rest ih =>
    intro acc hnd hc
    obtain ⟨T, v⟩ := kv
    simp only [keys, List.map_cons, List.nodup_cons] at hnd
    have hTrest : dlookup T rest = none := (dlookup_eq_none_iff T rest).mpr hnd.1
    have hcond : (!ow && (dlookup T self).isSome && dlookup T acc != some v) = false := by
      cases ow with
      | true => simp
      | false =>
        cases hs : (dlookup T self).isSome with
        | false => simp
        | true =>
          have := hc rfl T v (by simp [dlookup]) hs
          simp [this]
    have hc' : ow = false → ∀ T' v', dlookup T' rest = some v' → (dlookup T' self).isSome = true →
        dlookup T' (dinsert T v acc) = some v' := by
      intro how T' v' h1 h2
      have hne : T ≠ T' := by
        intro e; subst e; rw [hTrest] at h1; cases h1
      rw [dlookup_dinsert, if_neg hne]
      apply hc how T' v' _ h2
      simp only [dlookup, if_neg hne]; exact h1
    obtain ⟨r, hr, hl, hn⟩ := ih (dinsert T v acc) hnd.2 hc'
    refine ⟨r, ?_, ?_, ?_⟩
    · rw [mergeCp, hcond]; simpa using hr
    · intro X
      rw [hl X]
      simp only [dlookup]
      by_cases hX : T = X
      · subst hX
        simp [hTrest, dlookup_dinsert]
      · simp only [if_neg hX, dlookup_dinsert]
    · intro hacc
      exact hn (nodup_dinsert T v acc hacc)

/-! ### reference values through the temporary correlation -/

theorem absR_nonneg (x : Rat) : 0 ≤ absR x := by
  unfold absR; split <;> linarith

theorem le_maxR_left (x y : Rat) : x ≤ maxR x y := by
  unfold maxR; split <;> linarith

theorem isclose_self (x : Rat) : isclose x x = true := by
  simp only [isclose, sub_self, decide_eq_true_eq]
  have h0 : absR 0 = 0 := by simp [absR]
  rw [h0]
  have h1 := absR_nonneg x
  have h2 := le_maxR_left (absR x) (absR x)
  have h3 : (0 : Rat) ≤ maxR (absR x) (absR x) := le_trans h1 h2
  exact mul_nonneg (by norm_num) h3

theorem inRange_of_validP {cp : List (Rat × Rat)} {T : Rat} {range : Option (Rat × Rat)}
    (h : ValidP (keys cp) T range) (hne : keys cp ≠ []) : inRange cp range T = true := by
  unfold ValidP at h
  unfold inRange
  cases range with
  | some lh =>
    obtain ⟨lo, hi⟩ := lh
    obtain ⟨_, h2⟩ := h
    obtain ⟨_, h3, h4⟩ := h2 hne
    simp only [Bool.not_eq_true', decide_eq_false_iff_not, not_or, not_lt]
    exact ⟨h3, h4⟩
  | none =>
    obtain ⟨⟨k1, hk1, h1⟩, ⟨k2, hk2, h2⟩⟩ := h hne
    have hcp : cp ≠ [] := fun e => hne (keys_eq_nil.mpr e)
    obtain ⟨mn, hmn⟩ := minKey_isSome hcp
    obtain ⟨mx, hmx⟩ := maxKey_isSome hcp
    simp only [hmn, hmx, Bool.not_eq_true', decide_eq_false_iff_not, not_or, not_lt]
    exact ⟨le_trans ((minKey_spec hmn).2 k1 hk1) h1, le_trans h2 ((maxKey_spec hmx).2 k2 hk2)⟩

/-- the temporary correlation evaluated at its own reference temperature returns its reference enthalpy -/
theorem getH_at_ref (ev : RawEval) {c : Corr} {h : Rat} (hH : c.H = some h) (hv : ValidP (keys c.cp) c.Tref c.range)
    (hT : c.Tref ≠ 0) : getH ev c c.Tref = .ok h := by
  unfold getH
  rw [hH]
  simp only
  by_cases he : c.cp.isEmpty = true
  · simp [he]
  · have hne : keys c.cp ≠ [] := isEmpty_eq_false_iff.mp (by simpa using he)
    simp only [he, inRange_of_validP hv hne, evalAt, if_true, hT, if_false]
    simp

theorem getS_at_ref (ev : RawEval) {c : Corr} {s : Rat} (hS : c.S = some s) (hv : ValidP (keys c.cp) c.Tref c.range)
    (hT : c.Tref ≠ 0) : getS ev c c.Tref = .ok s := by
  unfold getS
  rw [hS]
  simp only
  by_cases he : c.cp.isEmpty = true
  · simp [he]
  · have hne : keys c.cp ≠ [] := isEmpty_eq_false_iff.mp (by simpa using he)
    simp only [he, inRange_of_validP hv hne, evalAt, if_true, hT, if_false]
    simp

/-- a reference value that agrees with the one already present (or meets none) is stored -/
theorem mergeRef_agree (ow : Bool) (old : Option Rat) (new : Rat) (h : old = none ∨ old = some new) :
    mergeRef ow old new = .ok (some new) := by
  rcases h with rfl | rfl
  · rfl
  · simp [mergeRef, isclose_self]

/-! ### merging two parts of one whole -/

theorem unionRange_parts {a b W : Corr} (pa : PartOf a W) (pb : PartOf b W) :
    (unionRange a.range b.range = none ∧ a.range = none ∧ b.range = none) ∨
      (∃ lo hi, W.range = some (lo, hi) ∧ unionRange a.range b.range = some (lo, hi)) := by
  rcases pa.range with ha | ha <;> rcases pb.range with hb | hb
  · left; simp [ha, hb, unionRange]
  · cases hW : W.range with
    | none => left; rw [hW] at hb; simp [ha, hb, unionRange]
    | some lh => obtain ⟨lo, hi⟩ := lh; right; rw [hW] at hb; exact ⟨lo, hi, rfl, by simp [ha, hb, unionRange]⟩
  · cases hW : W.range with
    | none => left; rw [hW] at ha; simp [ha, hb, unionRange]
    | some lh => obtain ⟨lo, hi⟩ := lh; right; rw [hW] at ha; exact ⟨lo, hi, rfl, by simp [ha, hb, unionRange]⟩
  · cases hW : W.range with
    | none => left; rw [hW] at ha hb; simp [ha, hb, unionRange]
    | some lh => obtain ⟨lo, hi⟩ := lh; right; rw [hW] at ha hb; exact ⟨lo, hi, rfl, by simp [ha, hb, unionRange]⟩

theorem partOf_key {p W : Corr} (pp : PartOf p W) {T : Rat} (h : T ∈ keys p.cp) : T ∈ keys W.cp := by
  rw [← dlookup_isSome_iff] at h
  cases hv : dlookup T p.cp with
  | none => rw [hv] at h; cases h
  | some v => exact mem_keys_of_dlookup (pp.cp T v hv)

/-- the union of two consistent parts of a consistent whole is consistent -/
theorem merged_validP {a b W : Corr} {cp : List (Rat × Rat)} (hW : Valid W) (pa : PartOf a W) (pb : PartOf b W)
    (va : Valid a) (vb : Valid b) (hk : ∀ T, T ∈ keys cp ↔ T ∈ keys b.cp ∨ T ∈ keys a.cp) :
    ValidP (keys cp) W.Tref (unionRange a.range b.range) := by
  rcases unionRange_parts pa pb with ⟨hu, ha, hb⟩ | ⟨lo, hi, hWr, hu⟩
  · rw [hu]
    simp only [ValidP]
    intro hne
    obtain ⟨T, hT⟩ := List.exists_mem_of_ne_nil _ hne
    rcases (hk T).mp hT with hTb | hTa
    · have hb' := vb.ok
      rw [hb, pb.tref] at hb'
      simp only [ValidP] at hb'
      obtain ⟨⟨k1, hk1, h1⟩, ⟨k2, hk2, h2⟩⟩ := hb' (List.ne_nil_of_mem hTb)
      exact ⟨⟨k1, (hk k1).mpr (Or.inl hk1), h1⟩, ⟨k2, (hk k2).mpr (Or.inl hk2), h2⟩⟩
    · have ha' := va.ok
      rw [ha, pa.tref] at ha'
      simp only [ValidP] at ha'
      obtain ⟨⟨k1, hk1, h1⟩, ⟨k2, hk2, h2⟩⟩ := ha' (List.ne_nil_of_mem hTa)
      exact ⟨⟨k1, (hk k1).mpr (Or.inr hk1), h1⟩, ⟨k2, (hk k2).mpr (Or.inr hk2), h2⟩⟩
  · rw [hu]
    have hw := hW.ok
    rw [hWr] at hw
    simp only [ValidP] at hw ⊢
    refine ⟨hw.1, ?_⟩
    intro hne
    obtain ⟨T, hT⟩ := List.exists_mem_of_ne_nil _ hne
    have hTW : T ∈ keys W.cp := by
      rcases (hk T).mp hT with h | h
      · exact partOf_key pb h
      · exact partOf_key pa h
    obtain ⟨hall, h1, h2⟩ := hw.2 (List.ne_nil_of_mem hTW)
    refine ⟨?_, h1, h2⟩
    intro k hkm
    apply hall
    rcases (hk k).mp hkm with h | h
    · exact partOf_key pb h
    · exact partOf_key pa h

/-- choice between the new and the old reference value -/
def pick (new old : Option Rat) : Option Rat := if new.isSome then new else old

/-- **Merging a part into a part.**  Two consistent parts of one consistent whole (shared `T_ref ≠ 0`) merge without
error; the result is again a consistent part of the whole and holds a datum exactly when one of the two did. -/
theorem update_parts (ev : RawEval) {a b W : Corr} (hW : Valid W) (hT : W.Tref ≠ 0)
    (pa : PartOf a W) (pb : PartOf b W) (va : Valid a) (vb : Valid b) :
    ∃ c, update ev (fresh a) b false = (fresh c, none) ∧ PartOf c W ∧ Valid c ∧
      c.H = pick b.H a.H ∧ c.S = pick b.S a.S ∧
      (∀ T, dlookup T c.cp = match dlookup T b.cp with | some v => some v | none => dlookup T a.cp) ∧
      c.Tref = a.Tref ∧ c.range = unionRange a.range b.range := by
  -- the table
  have hcompat : (false = false) → ∀ T v, dlookup T b.cp = some v → (dlookup T a.cp).isSome = true → dlookup T a.cp = some v := by
    intro _ T v hb ha
    cases hva : dlookup T a.cp with
    | none => rw [hva] at ha; cases ha
    | some va' =>
      have h1 := pa.cp T va' hva
      have h2 := pb.cp T v hb
      rw [h1] at h2; exact h2
  obtain ⟨cp, hcp, hlook, hnd⟩ := mergeCp_spec false a.cp b.cp a.cp vb.nodup hcompat
  have hkeys : ∀ T, T ∈ keys cp ↔ T ∈ keys b.cp ∨ T ∈ keys a.cp := by
    intro T
    rw [← dlookup_isSome_iff, ← dlookup_isSome_iff, ← dlookup_isSome_iff, hlook T]
    cases dlookup T b.cp <;> simp
  have hvalid : ValidP (keys cp) W.Tref (unionRange a.range b.range) := merged_validP hW pa pb va vb hkeys
  have hcheckA : checkValid cp a.Tref (unionRange a.range b.range) = .ok () := by
    rw [pa.tref]; exact (checkValid_iff _ _ _).mpr hvalid
  have hcheckB : checkValid cp b.Tref (unionRange a.range b.range) = .ok () := by
    rw [pb.tref]; exact (checkValid_iff _ _ _).mpr hvalid
  -- the reference values
  have hrefs : mergeRefs ev false a b cp (unionRange a.range b.range) = .ok (pick b.H a.H, pick b.S a.S) := by
    unfold mergeRefs
    by_cases hany : (b.H.isSome || b.S.isSome) = true
    · simp only [hany, if_true, hcheckB]
      have tv : ValidP (keys cp) b.Tref (unionRange a.range b.range) := by rw [pb.tref]; exact hvalid
      have tT : b.Tref ≠ 0 := by rw [pb.tref]; exact hT
      have eT : a.Tref = b.Tref := by rw [pa.tref, pb.tref]
      have hH : newH ev false a b ⟨b.H, b.S, cp, b.Tref, unionRange a.range b.range⟩ = .ok (pick b.H a.H) := by
        unfold newH
        cases hbH : b.H with
        | none => rfl
        | some h =>
          have := getH_at_ref ev (c := ⟨some h, b.S, cp, b.Tref, unionRange a.range b.range⟩) rfl tv tT
          simp only [eT, this, pick, Option.isSome_some, if_true]
          apply mergeRef_agree
          rcases pa.h with h1 | h1
          · exact Or.inl h1
          · right
            rcases pb.h with h2 | h2
            · rw [hbH] at h2; cases h2
            · rw [h1, ← h2, hbH]
      have hS : newS ev false a b ⟨b.H, b.S, cp, b.Tref, unionRange a.range b.range⟩ = .ok (pick b.S a.S) := by
        unfold newS
        cases hbS : b.S with
        | none => rfl
        | some s0 =>
          have := getS_at_ref ev (c := ⟨b.H, some s0, cp, b.Tref, unionRange a.range b.range⟩) rfl tv tT
          simp only [eT, this, pick, Option.isSome_some, if_true]
          apply mergeRef_agree
          rcases pa.s with h1 | h1
          · exact Or.inl h1
          · right
            rcases pb.s with h2 | h2
            · rw [hbS] at h2; cases h2
            · rw [h1, ← h2, hbS]
      simp only [hH, hS]
    · have h1 : b.H.isSome = false := by
        cases h : b.H.isSome <;> simp_all
      have h2 : b.S.isSome = false := by
        cases h : b.S.isSome <;> simp_all
      simp [h1, h2, pick]
  -- the result
  let c : Corr := ⟨pick b.H a.H, pick b.S a.S, cp, a.Tref, unionRange a.range b.range⟩
  refine ⟨c, ?_, ?_, ?_, rfl, rfl, hlook, rfl, rfl⟩
  · unfold update
    simp only [fresh, hcp, hrefs, hcheckA]
    exact setup_ok (c := c) (setupCheck_of_checkValid hcheckA)
  · refine ⟨pa.tref, ?_, ?_, ?_, ?_⟩
    · show pick b.H a.H = none ∨ pick b.H a.H = W.H
      unfold pick
      split
      · rcases pb.h with h | h
        · rename_i hs; rw [h] at hs; cases hs
        · exact Or.inr h
      · exact pa.h
    · show pick b.S a.S = none ∨ pick b.S a.S = W.S
      unfold pick
      split
      · rcases pb.s with h | h
        · rename_i hs; rw [h] at hs; cases hs
        · exact Or.inr h
      · exact pa.s
    · intro T v hv
      show dlookup T W.cp = some v
      have := hlook T
      rw [this] at hv
      cases hb : dlookup T b.cp with
      | none => rw [hb] at hv; exact pa.cp T v hv
      | some vb' => rw [hb] at hv; cases hv; exact pb.cp T _ hb
    · show unionRange a.range b.range = none ∨ unionRange a.range b.range = W.range
      rcases unionRange_parts pa pb with ⟨hu, _, _⟩ | ⟨lo, hi, hWr, hu⟩
      · exact Or.inl hu
      · right; rw [hu, hWr]
  · exact ⟨by show ValidP (keys cp) a.Tref _; rw [pa.tref]; exact hvalid, hnd va.nodup⟩

/-! ### merging a correlation into itself -/

theorem dlookup_of_mem_nodup {V : Type} {l : List (Rat × V)} (hnd : (keys l).Nodup) {T : Rat} {v : V} (h : (T, v) ∈ l) :
    dlookup T l = some v := by
  induction l with
  | nil => simp at h
  | cons kv l ih =>
    obtain ⟨k', v'⟩ := kv
    simp only [keys, List.map_cons, List.nodup_cons] at hnd
    simp only [dlookup]
    rcases List.mem_cons.mp h with e | hm
    · cases e; simp
    · have : k' ≠ T := by
        intro e; subst e
        exact hnd.1 (List.mem_map_of_mem (f := Prod.fst) hm)
      simp only [this, if_false]
      exact ih hnd.2 hm

theorem mergeCp_same (ow : Bool) (self : List (Rat × Rat)) :
    ∀ (other acc : List (Rat × Rat)), (∀ T v, (T, v) ∈ other → dlookup T acc = some v) →
      mergeCp ow self acc other = .ok acc := by
  intro other
  induction other with
  | nil => intro acc _; rfl
  | cons kv rest ih =>
    intro acc h
    obtain ⟨T, v⟩ := kv
    have hv := h T v (by simp)
    rw [mergeCp]
    have : (!ow && (dlookup T self).isSome && dlookup T acc != some v) = false := by simp [hv]
    rw [this, dinsert_same T v acc hv]
    simp only [Bool.false_eq_true, if_false]
    exact ih acc (fun T' v' hm => h T' v' (by simp [hm]))

theorem unionRange_self (r : Option (Rat × Rat)) : unionRange r r = r := by
  cases r with
  | none => rfl
  | some lh => obtain ⟨lo, hi⟩ := lh; simp [unionRange]

/-- merging a consistent correlation into itself (with or without `overwrite`) changes nothing — not even the order of
its table -/
theorem update_self (ev : RawEval) {a : Corr} (va : Valid a) (hT : a.Tref ≠ 0) (ow : Bool) :
    update ev (fresh a) a ow = (fresh a, none) := by
  have hcp : mergeCp ow a.cp a.cp a.cp = .ok a.cp :=
    mergeCp_same ow a.cp a.cp a.cp (fun T v hm => dlookup_of_mem_nodup va.nodup hm)
  have hvalid : checkValid a.cp a.Tref a.range = .ok () := (checkValid_iff _ _ _).mpr va.ok
  have hH : newH ev ow a a ⟨a.H, a.S, a.cp, a.Tref, a.range⟩ = .ok a.H := by
    unfold newH
    cases hh : a.H with
    | none => rfl
    | some h =>
      have := getH_at_ref ev (c := ⟨some h, a.S, a.cp, a.Tref, a.range⟩) rfl va.ok hT
      simp only [this]
      exact mergeRef_agree ow (some h) h (Or.inr rfl)
  have hS : newS ev ow a a ⟨a.H, a.S, a.cp, a.Tref, a.range⟩ = .ok a.S := by
    unfold newS
    cases hh : a.S with
    | none => rfl
    | some s0 =>
      have := getS_at_ref ev (c := ⟨a.H, some s0, a.cp, a.Tref, a.range⟩) rfl va.ok hT
      simp only [this]
      exact mergeRef_agree ow (some s0) s0 (Or.inr rfl)
  have hrefs : mergeRefs ev ow a a a.cp a.range = .ok (a.H, a.S) := by
    unfold mergeRefs
    split
    · simp only [hvalid, hH, hS]
    · rfl
  unfold update
  simp only [fresh, unionRange_self, hcp, hrefs, hvalid]
  exact setup_ok (c := a) (setupCheck_of_checkValid hvalid)

/-! ### conflicts -/

/-- a heat-capacity point that meets a different value in `self` stops the loop with `ReadOnlyDataError` -/
theorem mergeCp_conflict (self : List (Rat × Rat)) {Tc x y : Rat} (hs : dlookup Tc self = some x) (hxy : x ≠ y) :
    ∀ (other acc : List (Rat × Rat)), (keys other).Nodup → dlookup Tc other = some y → dlookup Tc acc = some x →
      mergeCp false self acc other = .error .readOnly := by
  intro other
  induction other with
  | nil => intro acc _ h; simp [dlookup] at h
  | cons kv rest ih =>
    intro acc hnd ho ha
    obtain ⟨T, v⟩ := kv
    simp only [keys, List.map_cons, List.nodup_cons] at hnd
    rw [mergeCp]
    by_cases hT : T = Tc
    · subst hT
      simp only [dlookup, if_true, Option.some.injEq] at ho
      subst ho
      simp [hs, ha, hxy]
    · simp only [dlookup, if_neg hT] at ho
      by_cases hc : (!false && (dlookup T self).isSome && dlookup T acc != some v) = true
      · rw [if_pos hc]
      · rw [if_neg hc]
        apply ih (dinsert T v acc) hnd.2 ho
        rw [dlookup_dinsert, if_neg hT]; exact ha

theorem validP_congr {ks ks' : List Rat} (h : ∀ T, T ∈ ks ↔ T ∈ ks') (T : Rat) (r : Option (Rat × Rat)) :
    ValidP ks T r ↔ ValidP ks' T r := by
  have hne : ks ≠ [] ↔ ks' ≠ [] := by
    constructor
    · intro hk; obtain ⟨x, hx⟩ := List.exists_mem_of_ne_nil _ hk; exact List.ne_nil_of_mem ((h x).mp hx)
    · intro hk; obtain ⟨x, hx⟩ := List.exists_mem_of_ne_nil _ hk; exact List.ne_nil_of_mem ((h x).mpr hx)
  unfold ValidP
  cases r with
  | none =>
    simp only [hne]
    constructor
    · intro hh hk
      obtain ⟨⟨k1, m1, l1⟩, ⟨k2, m2, l2⟩⟩ := hh hk
      exact ⟨⟨k1, (h k1).mp m1, l1⟩, ⟨k2, (h k2).mp m2, l2⟩⟩
    · intro hh hk
      obtain ⟨⟨k1, m1, l1⟩, ⟨k2, m2, l2⟩⟩ := hh hk
      exact ⟨⟨k1, (h k1).mpr m1, l1⟩, ⟨k2, (h k2).mpr m2, l2⟩⟩
  | some lh =>
    obtain ⟨lo, hi⟩ := lh
    simp only [hne]
    constructor
    · rintro ⟨h1, h2⟩
      exact ⟨h1, fun hk => ⟨fun k hkm => (h2 hk).1 k ((h k).mpr hkm), (h2 hk).2⟩⟩
    · rintro ⟨h1, h2⟩
      exact ⟨h1, fun hk => ⟨fun k hkm => (h2 hk).1 k ((h k).mp hkm), (h2 hk).2⟩⟩

/-! ### merging a list of parts -/

theorem unionRange_isSome (r s : Option (Rat × Rat)) : (unionRange r s).isSome = (r.isSome || s.isSome) := by
  cases r with
  | none => cases s <;> rfl
  | some a => obtain ⟨a1, a2⟩ := a; cases s with
    | none => rfl
    | some b => obtain ⟨b1, b2⟩ := b; rfl

theorem pick_isSome (n o : Option Rat) : (pick n o).isSome = (n.isSome || o.isSome) := by
  unfold pick; cases n <;> simp

/-- merging any list of consistent parts of a consistent whole never fails; the result is a consistent part of the whole
that holds a datum exactly when the start or one of the merged parts did -/
theorem mergeAll_parts (ev : RawEval) {W : Corr} (hW : Valid W) (hT : W.Tref ≠ 0) :
    ∀ (ps : List Corr) (a : Corr) (done : List Corr), PartOf a W → Valid a → Covers done a →
      (∀ p ∈ ps, PartOf p W ∧ Valid p) →
      ∃ c, mergeAll ev (fresh a) ps = (fresh c, none) ∧ PartOf c W ∧ Valid c ∧ Covers (done ++ ps) c := by
  intro ps
  induction ps with
  | nil =>
    intro a done pa va ca _
    exact ⟨a, rfl, pa, va, by simpa using ca⟩
  | cons b ps ih =>
    intro a done pa va ca hps
    obtain ⟨pb, vb⟩ := hps b (by simp)
    obtain ⟨c, hc, pc, vc, hH, hS, hcp, _, hr⟩ := update_parts ev hW hT pa pb va vb
    have cc : Covers (done ++ [b]) c := by
      refine ⟨?_, ?_, ?_, ?_⟩
      · rw [hH, pick_isSome, Bool.or_eq_true, ca.h]
        constructor
        · rintro (h | ⟨p, hp, h⟩)
          · exact ⟨b, by simp, h⟩
          · exact ⟨p, by simp [hp], h⟩
        · rintro ⟨p, hp, h⟩
          rcases List.mem_append.mp hp with hp | hp
          · exact Or.inr ⟨p, hp, h⟩
          · simp at hp; subst hp; exact Or.inl h
      · rw [hS, pick_isSome, Bool.or_eq_true, ca.s]
        constructor
        · rintro (h | ⟨p, hp, h⟩)
          · exact ⟨b, by simp, h⟩
          · exact ⟨p, by simp [hp], h⟩
        · rintro ⟨p, hp, h⟩
          rcases List.mem_append.mp hp with hp | hp
          · exact Or.inr ⟨p, hp, h⟩
          · simp at hp; subst hp; exact Or.inl h
      · intro T
        have : (dlookup T c.cp).isSome = ((dlookup T b.cp).isSome || (dlookup T a.cp).isSome) := by
          rw [hcp T]; cases dlookup T b.cp <;> simp
        rw [this, Bool.or_eq_true, ca.cp T]
        constructor
        · rintro (h | ⟨p, hp, h⟩)
          · exact ⟨b, by simp, h⟩
          · exact ⟨p, by simp [hp], h⟩
        · rintro ⟨p, hp, h⟩
          rcases List.mem_append.mp hp with hp | hp
          · exact Or.inr ⟨p, hp, h⟩
          · simp at hp; subst hp; exact Or.inl h
      · rw [hr, unionRange_isSome, Bool.or_eq_true, ca.range]
        constructor
        · rintro (⟨p, hp, h⟩ | h)
          · exact ⟨p, by simp [hp], h⟩
          · exact ⟨b, by simp, h⟩
        · rintro ⟨p, hp, h⟩
          rcases List.mem_append.mp hp with hp | hp
          · exact Or.inl ⟨p, hp, h⟩
          · simp at hp; subst hp; exact Or.inr h
    obtain ⟨c', hc', pc', vc', cc'⟩ := ih c (done ++ [b]) pc vc cc (fun p hp => hps p (by simp [hp]))
    refine ⟨c', ?_, pc', vc', by simpa using cc'⟩
    rw [mergeAll, hc]
    exact hc'

theorem covers_self (a : Corr) : Covers [a] a := by
  refine ⟨?_, ?_, ?_, ?_⟩ <;> simp

/-- a part of `W` is determined, up to the order of its table, by which data it holds -/
theorem covers_unique {W c c' : Corr} {ps ps' : List Corr} (pc : PartOf c W) (pc' : PartOf c' W)
    (cc : Covers ps c) (cc' : Covers ps' c') (hmem : ∀ p, p ∈ ps ↔ p ∈ ps') : Same c c' := by
  have ex : ∀ (P : Corr → Prop), (∃ p ∈ ps, P p) ↔ (∃ p ∈ ps', P p) := by
    intro P
    constructor
    · rintro ⟨p, hp, h⟩; exact ⟨p, (hmem p).mp hp, h⟩
    · rintro ⟨p, hp, h⟩; exact ⟨p, (hmem p).mpr hp, h⟩
  have optEq : ∀ (x y w : Option Rat), (x = none ∨ x = w) → (y = none ∨ y = w) → (x.isSome = true ↔ y.isSome = true) → x = y := by
    intro x y w hx hy hiff
    cases x with
    | none =>
      cases y with
      | none => rfl
      | some v => simp at hiff
    | some u =>
      cases y with
      | none => simp at hiff
      | some v =>
        rcases hx with hx | hx
        · cases hx
        · rcases hy with hy | hy
          · cases hy
          · rw [hx, hy]
  refine ⟨?_, ?_, ?_, by rw [pc.tref, pc'.tref], ?_⟩
  · exact optEq _ _ _ pc.h pc'.h (by rw [cc.h, cc'.h]; exact ex _)
  · exact optEq _ _ _ pc.s pc'.s (by rw [cc.s, cc'.s]; exact ex _)
  · intro T
    have hiff : (dlookup T c.cp).isSome = true ↔ (dlookup T c'.cp).isSome = true := by
      rw [cc.cp T, cc'.cp T]; exact ex _
    cases h1 : dlookup T c.cp with
    | none =>
      cases h2 : dlookup T c'.cp with
      | none => rfl
      | some v => rw [h1, h2] at hiff; simp at hiff
    | some v =>
      cases h2 : dlookup T c'.cp with
      | none => rw [h1, h2] at hiff; simp at hiff
      | some v' =>
        have a1 := pc.cp T v h1
        have a2 := pc'.cp T v' h2
        rw [a1] at a2; exact a2
  · have hiff : c.range.isSome = true ↔ c'.range.isSome = true := by
      rw [cc.range, cc'.range]; exact ex _
    rcases pc.range with h1 | h1 <;> rcases pc'.range with h2 | h2
    · rw [h1, h2]
    · rw [h1, h2] at hiff ⊢
      cases hW : W.range with
      | none => rfl
      | some v => rw [hW] at hiff; simp at hiff
    · rw [h1, h2] at hiff ⊢
      cases hW : W.range with
      | none => rfl
      | some v => rw [hW] at hiff; simp at hiff
    · rw [h1, h2]

/-! ### overwrite: the later value wins -/

theorem mergeRef_overwrite (old : Option Rat) (new : Rat) : mergeRef true old new = .ok (some new) := by
  cases old <;> rfl

/-- with `overwrite` nothing is read-only: provided the union is consistent, the merge succeeds and every datum of the
source replaces the target's -/
theorem update_overwrite (ev : RawEval) {c d : Corr} (hT : c.Tref = d.Tref) (h0 : c.Tref ≠ 0)
    (hnd : (keys d.cp).Nodup) (hv : ValidP (keys d.cp ++ keys c.cp) c.Tref (unionRange c.range d.range)) (built : Bool) :
    ∃ r, update ev ⟨c, built⟩ d true = (fresh r, none) ∧ r.H = pick d.H c.H ∧ r.S = pick d.S c.S ∧
      (∀ T, dlookup T r.cp = match dlookup T d.cp with | some v => some v | none => dlookup T c.cp) ∧
      r.Tref = c.Tref ∧ r.range = unionRange c.range d.range := by
  obtain ⟨cp, hcp, hlook, _⟩ := mergeCp_spec true c.cp d.cp c.cp hnd (fun h => by cases h)
  have hkeys : ∀ T, T ∈ keys cp ↔ T ∈ keys d.cp ++ keys c.cp := by
    intro T
    rw [List.mem_append, ← dlookup_isSome_iff, ← dlookup_isSome_iff, ← dlookup_isSome_iff, hlook T]
    cases dlookup T d.cp <;> simp
  have hvalid : ValidP (keys cp) c.Tref (unionRange c.range d.range) := (validP_congr hkeys _ _).mpr hv
  have hcheckC : checkValid cp c.Tref (unionRange c.range d.range) = .ok () := (checkValid_iff _ _ _).mpr hvalid
  have hcheckD : checkValid cp d.Tref (unionRange c.range d.range) = .ok () := by rw [← hT]; exact hcheckC
  have tv : ValidP (keys cp) d.Tref (unionRange c.range d.range) := by rw [← hT]; exact hvalid
  have tT : d.Tref ≠ 0 := by rw [← hT]; exact h0
  have hH : newH ev true c d ⟨d.H, d.S, cp, d.Tref, unionRange c.range d.range⟩ = .ok (pick d.H c.H) := by
    unfold newH
    cases hd : d.H with
    | none => rfl
    | some h =>
      have := getH_at_ref ev (c := ⟨some h, d.S, cp, d.Tref, unionRange c.range d.range⟩) rfl tv tT
      simp only [hT, this, pick, Option.isSome_some, if_true]
      exact mergeRef_overwrite _ _
  have hS : newS ev true c d ⟨d.H, d.S, cp, d.Tref, unionRange c.range d.range⟩ = .ok (pick d.S c.S) := by
    unfold newS
    cases hd : d.S with
    | none => rfl
    | some s0 =>
      have := getS_at_ref ev (c := ⟨d.H, some s0, cp, d.Tref, unionRange c.range d.range⟩) rfl tv tT
      simp only [hT, this, pick, Option.isSome_some, if_true]
      exact mergeRef_overwrite _ _
  have hrefs : mergeRefs ev true c d cp (unionRange c.range d.range) = .ok (pick d.H c.H, pick d.S c.S) := by
    unfold mergeRefs
    by_cases hany : (d.H.isSome || d.S.isSome) = true
    · simp only [hany, if_true, hcheckD, hH, hS]
    · have h1 : d.H.isSome = false := by cases h : d.H.isSome <;> simp_all
      have h2 : d.S.isSome = false := by cases h : d.S.isSome <;> simp_all
      simp [h1, h2, pick]
  refine ⟨⟨pick d.H c.H, pick d.S c.S, cp, c.Tref, unionRange c.range d.range⟩, ?_, rfl, rfl, hlook, rfl, rfl⟩
  unfold update
  simp only [hcp, hrefs, hcheckC]
  exact setup_ok (c := ⟨pick d.H c.H, pick d.S c.S, cp, c.Tref, unionRange c.range d.range⟩) (setupCheck_of_checkValid hcheckC)

end PGA.Merge
