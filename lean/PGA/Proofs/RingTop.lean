import PGA.Proofs.RingPos
/-! # Top-level consequences for `parse` (C09-T2, T3, T5) -/
set_option linter.unusedVariables false
namespace PGA.Ring
open PGA.Chars

theorem eval_ref_out (G : Grammar) (n : Nat) (st : St) (cur : Option Err) (b : Nat) (st' : St) (out : List Ast)
    (cur' : Option Err) (h : eval G (.ref n) st cur b = .ok st' out cur') : ∃ kids, out = [.node n kids] := by
  rw [eval] at h
  split at h
  · split at h
    · split at h
      · split at h
        · cases h; exact ⟨_, rfl⟩
        · rename_i hn
          exact absurd h (fun h' => hn _ _ _ h')
      · cases h
    · cases h
  · cases h

theorem init_inv (s : List Char) : Inv s ⟨s, 0, 1, 1⟩ := ⟨Nat.zero_le _, rfl, rfl, rfl⟩

/-- **no abort**: on a well-ranked table `parse` ends in `accepted` or `syntaxError` for every text -/
theorem parse_no_abort (G : Grammar) (nt : List Bool) (hG : WellRanked G nt) (hc : decimalCovered = true)
    (s : List Char) : ∀ a, parse G s ≠ .abort a := by
  intro a
  unfold parse
  obtain ⟨st0, h0⟩ := skipFillerAux_isSome G.filler hG.filler s 0 1 1
  simp only [skipFiller, h0]
  obtain ⟨b, hb⟩ := hG.root
  obtain ⟨r, hr, hrt⟩ := hG.ranked G.root b hb
  have hw : wfE G nt false (.ref G.root) = true := by simp [wfE, hb, hr, hrt]
  have hl : leftOK G nt (.ref G.root) G.top = true := by simp [leftOK, hr, hrt]
  have g := eval_good G nt hG hc (.ref G.root) st0 none G.top (Or.inl hw) hl
  cases he : eval G (.ref G.root) st0 none G.top with
  | ok st out cur =>
    simp only
    obtain ⟨kids, hk⟩ := eval_ref_out G G.root st0 none G.top st out cur he
    subst hk
    split <;> simp
  | fail e cur => simp
  | abort a' => exact absurd he (g.1 a')

/-- **position**: a syntax error reported by `parse` carries the line/column of an index of the text -/
theorem parse_error_inside (G : Grammar) (s : List Char) (e : Err) (h : parse G s = .syntaxError e) :
    Inside s e.line e.col := by
  unfold parse at h
  simp only [skipFiller] at h
  split at h
  · cases h
  · rename_i st0 h0
    have hi0 := skipFillerAux_inv s G.filler s 0 1 1 st0 h0 (init_inv s)
    have g := eval_inv G s (.ref G.root) st0 none G.top hi0 trivial
    split at h
    · rename_i st out cur he
      rw [he] at g
      split at h
      · split at h <;> cases h
      · cases h; exact errAt_inside s st _ g.1
    · rename_i e' cur he
      rw [he] at g
      cases h; exact g.1
    · cases h

/-- **consumption**: accepted text has been consumed in full, and the final state is the end position -/
theorem parse_accepted_end (G : Grammar) (s : List Char) (ast : Ast) (fin : St) (h : parse G s = .accepted ast fin) :
    fin.rest = [] ∧ fin.idx = s.length ∧ fin.line = lineOf s ∧ fin.col = colOf s := by
  unfold parse at h
  simp only [skipFiller] at h
  split at h
  · cases h
  · rename_i st0 h0
    have hi0 := skipFillerAux_inv s G.filler s 0 1 1 st0 h0 (init_inv s)
    have g := eval_inv G s (.ref G.root) st0 none G.top hi0 trivial
    split at h
    · rename_i st out cur he
      rw [he] at g
      split at h
      · rename_i hrest
        split at h
        · cases h
          obtain ⟨h1, h2, h3, h4⟩ := g.1
          have hidx : fin.idx = s.length := by
            rw [hrest] at h2
            have := List.drop_eq_nil_iff.mp h2.symm
            omega
          refine ⟨hrest, hidx, ?_, ?_⟩
          · rw [h3, hidx, List.take_length]
          · rw [h4, hidx, List.take_length]
        · cases h
      · cases h
    · cases h
    · cases h

end PGA.Ring
