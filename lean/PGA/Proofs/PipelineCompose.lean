import PGA.Proofs.Pipeline
import PGA.Proofs.PipelineKeys
import PGA.Props.C07
import PGA.Props.C19
import PGA.Props.C20
/-! Helper lemmas of the pipeline theorems that compose the property theorems of C03, C04, C07 (the estimate under a reordered
dictionary and a reordered atom list; the three decompositions of a union; the stage of a pipeline outcome). -/
namespace PGA.Pipeline
open PGA PGA.Spec PGA.Scheme PGA.Decompose PGA.Match PGA.Estimate

/-- the estimate on record under another molecule: only the elemental term can tell -/
theorem withName_HoRT (nm : Option (List Nat)) (e : Estimator) (T : Rat) : (withName nm e).HoRT T = e.HoRT T := rfl
theorem withName_CpoR (nm : Option (List Nat)) (e : Estimator) (T : Rat) : (withName nm e).CpoR T = e.CpoR T := rfl

/-- the elemental term of two atom lists that are reorderings of each other -/
theorem selements_perm (sel : Nat → Option Rat) {a a' : List Nat} (h : a.Perm a') (v : Rat) :
    selements sel (some a) = .ok v ↔ selements sel (some a') = .ok v := by
  rw [C07_selements, C07_selements, (h.map (selD sel)).sum_eq]
  constructor
  · rintro ⟨h1, h2⟩; exact ⟨fun z hz => h1 z (h.mem_iff.mpr hz), h2⟩
  · rintro ⟨h1, h2⟩; exact ⟨fun z hz => h1 z (h.mem_iff.mp hz), h2⟩

/-- **Core of the invariance theorems.** If two molecules decompose to dictionaries that list the same entries in possibly
different orders, and carry the same atoms in possibly different orders, the pipeline cannot tell them apart. -/
theorem sameOutcome_of_perm (sel : Nat → Option Rat) (reg : List String) (S : SchemeDef) (lib : Lib) (set : String)
    (m m' : Mol) (hpm : decompose S m' = .error .patternMatch ↔ decompose S m = .error .patternMatch)
    (hperm : ∀ c c', decompose S m = .ok c → decompose S m' = .ok c' → c.Perm c')
    (hatoms : (atomsOf m).Perm (atomsOf m')) :
    SameOutcome sel (pipeline reg S lib m set) (pipeline reg S lib m' set) := by
  have hdec : ∀ c, decompose S m = .ok c → ∃ c', decompose S m' = .ok c' ∧ c.Perm c' := by
    intro c hc
    cases hc' : decompose S m' with
    | error e =>
      cases e
      have := hpm.mp hc'
      rw [hc] at this; cases this
    | ok c' => exact ⟨c', rfl, hperm c c' hc hc'⟩
  refine ⟨?_, ?_, ?_⟩
  · rw [pipeline_patternMatch_iff, pipeline_patternMatch_iff]; exact hpm
  · intro err herr
    obtain ⟨c, hc, he⟩ := (pipeline_esterr_iff reg S lib m set err).mp herr
    obtain ⟨c', hc', hp⟩ := hdec c hc
    obtain ⟨hk, hmiss⟩ := estimate_perm_kind reg lib set hp
    cases he' : estimate reg lib c' set with
    | ok e' => rw [he, he'] at hk; cases hk
    | error err' =>
      refine ⟨err', (pipeline_esterr_iff reg S lib m' set err').mpr ⟨c', hc', he'⟩, ?_, ?_⟩
      · rw [he, he'] at hk
        simpa [kindOf] using hk
      · rintro ds rfl
        obtain ⟨ds', h1, h2⟩ := hmiss ds he
        rw [he'] at h1
        cases h1
        exact ⟨ds', rfl, h2⟩
  · intro e hok
    obtain ⟨c, e0, hc, he0, rfl⟩ := (pipeline_ok_iff reg S lib m set e).mp hok
    obtain ⟨c', hc', hp⟩ := hdec c hc
    obtain ⟨e0', he0', hcorr, _, hrange⟩ := estimate_perm reg lib set e0 hp he0
    refine ⟨withName (some (atomsOf m')) e0', (pipeline_ok_iff reg S lib m' set _).mpr ⟨c', e0', hc', he0', rfl⟩, hrange, ?_⟩
    refine ⟨fun T v => ?_, fun T v => ?_, fun T flag v => ?_⟩
    · exact C01_perm_Cp reg lib set e0 e0' T v hp he0 he0'
    · exact C01_perm_H reg lib set e0 e0' T v hp he0 he0'
    · show (withName (some (atomsOf m)) e0).SoR sel T flag = .ok v ↔ (withName (some (atomsOf m')) e0').SoR sel T flag = .ok v
      rw [SoR_ok_iff, SoR_ok_iff]
      have hw : ∀ s, wsum (·.sor T) e0.correlations = .ok s ↔ wsum (·.sor T) e0'.correlations = .ok s :=
        fun s => (wsum_perm _ hcorr s).symm
      show (∃ sele s, (if flag.truthy then selements sel (some (atomsOf m)) else .ok 0) = .ok sele ∧
          wsum (·.sor T) e0.correlations = .ok s ∧ v = s - sele) ↔
        (∃ sele s, (if flag.truthy then selements sel (some (atomsOf m')) else .ok 0) = .ok sele ∧
          wsum (·.sor T) e0'.correlations = .ok s ∧ v = s - sele)
      by_cases hf : flag.truthy = true
      · simp only [hf, if_true, hw, selements_perm sel hatoms]
      · simp only [hf, hw, Bool.false_eq_true, if_false]

/-- what the three decompositions have to do with each other (C04 and its key-set companion) -/
theorem union_counts {S : SchemeDef} {A B : Mol} (H : UnionHyps S A B) (rU rA rB : Counts)
    (hU : decompose S (A.union B) = .ok rU) (hrA : decompose S A = .ok rA) (hrB : decompose S B = .ok rB) :
    (Counts.keys rU).Nodup ∧ (Counts.keys rA).Nodup ∧ (Counts.keys rB).Nodup ∧
    (∀ k, k ∈ Counts.keys rU ↔ k ∈ Counts.keys rA ∨ k ∈ Counts.keys rB) ∧
    (SeparatedMol S A B → ∀ k, rU.get k = rA.get k + rB.get k) := by
  refine ⟨decompose_nodup _ _ _ hU, decompose_nodup _ _ _ hrA, decompose_nodup _ _ _ hrB,
    decompose_union_keys S A B H.hA H.hB H.hq H.hs H.hmp H.hcn H.capa H.capb H.capu H.hcf rU rA rB hU hrA hrB, ?_⟩
  intro hsep k
  obtain ⟨a, ha, _⟩ := getDescriptors_ok _ rA hrA
  obtain ⟨b, hb, _⟩ := getDescriptors_ok _ rB hrB
  exact (PGA.C04.C04_decompose_union S A B H.hA H.hB H.hq H.hs H.hmp H.hcn H.capa H.capb H.capu H.hcf).2
    rU rA rB a b hU hrA hrB ha hb (hsep a b ha hb) k

/-- the union decomposes when both parts do -/
theorem union_decomposes {S : SchemeDef} {A B : Mol} (H : UnionHyps S A B) (rA rB : Counts)
    (hrA : decompose S A = .ok rA) (hrB : decompose S B = .ok rB) : ∃ rU, decompose S (A.union B) = .ok rU := by
  cases hU : decompose S (A.union B) with
  | ok rU => exact ⟨rU, rfl⟩
  | error e =>
    cases e
    rcases (PGA.C04.C04_decompose_union S A B H.hA H.hB H.hq H.hs H.hmp H.hcn H.capa H.capb H.capu H.hcf).1.mp hU with h | h
    · rw [hrA] at h; cases h
    · rw [hrB] at h; cases h

theorem atomsOf_union (A B : Mol) : atomsOf (A.union B) = atomsOf A ++ atomsOf B := by
  simp [atomsOf, Mol.union]

/-- the elemental term of the union is the sum of the parts' -/
theorem selements_union (sel : Nat → Option Rat) (A B : Mol) (σ : Rat) :
    selements sel (some (atomsOf (A.union B))) = .ok σ ↔
      ∃ a b, selements sel (some (atomsOf A)) = .ok a ∧ selements sel (some (atomsOf B)) = .ok b ∧ σ = a + b := by
  simp only [C07_selements, atomsOf_union, List.mem_append, List.map_append, List.sum_append]
  constructor
  · rintro ⟨h, rfl⟩
    exact ⟨_, _, ⟨fun z hz => h z (Or.inl hz), rfl⟩, ⟨fun z hz => h z (Or.inr hz), rfl⟩, rfl⟩
  · rintro ⟨a, b, ⟨h1, rfl⟩, ⟨h2, rfl⟩, rfl⟩
    exact ⟨fun z hz => hz.elim (h1 z) (h2 z), rfl⟩

theorem pkindOf_pipeline (reg : List String) (S : SchemeDef) (lib : Lib) (m : Mol) (set : String) :
    pkindOf (pipeline reg S lib m set) =
      match decompose S m with
      | .error _ => some .patternMatch
      | .ok c => (kindOf (estimate reg lib c set)).map PKind.estimate := by
  unfold pipeline getDescriptors estimateOf remember
  cases decompose S m with
  | error e => cases e; rfl
  | ok c =>
    simp only
    rw [estimate_withName]
    cases estimate reg lib c set <;> rfl

theorem estPart_map (k : Option EstKind) : estPart (k.map PKind.estimate) = k := by
  cases k <;> rfl

theorem map_estimate_ne_patternMatch (k : Option EstKind) : k.map PKind.estimate ≠ some PKind.patternMatch := by
  cases k <;> simp

end PGA.Pipeline
