import PGA.Proofs.Estimate
import Mathlib.Data.List.Nodup
/-! Helper lemmas for C20: the count vector, the quadratic form. -/
namespace PGA.Estimate

/-! ### vectors -/

theorem dot_eq_specDot (a b : List Rat) : dot a b = specDot a b := by
  induction a generalizing b with
  | nil => simp [dot, specDot]
  | cons x xs ih =>
    cases b with
    | nil => simp [dot, specDot]
    | cons y ys => simp [dot, specDot, ih ys] at *

theorem dot_zeros (n : Nat) (y : List Rat) : dot (zeros n) y = 0 := by
  induction n generalizing y with
  | zero => simp [zeros, dot]
  | succ n ih =>
    cases y with
    | nil => simp [zeros, List.replicate_succ, dot]
    | cons y ys =>
      have := ih ys
      simp only [zeros, List.replicate_succ, dot] at this ⊢
      rw [this]; ring

theorem vadd_length (a b : List Rat) (h : a.length = b.length) : (vadd a b).length = a.length := by
  induction a generalizing b with
  | nil => cases b <;> simp [vadd]
  | cons x xs ih =>
    cases b with
    | nil => simp at h
    | cons y ys => simp [vadd, ih ys (by simpa using h)]

theorem dot_vadd (a b y : List Rat) (h : a.length = b.length) : dot (vadd a b) y = dot a y + dot b y := by
  induction a generalizing b y with
  | nil =>
    cases b with
    | nil => simp [vadd, dot]
    | cons z zs => simp at h
  | cons x xs ih =>
    cases b with
    | nil => simp at h
    | cons z zs =>
      cases y with
      | nil => simp [vadd, dot]
      | cons w ws =>
        simp only [vadd, dot, ih zs ws (by simpa using h)]
        ring

theorem dot_smul (k : Rat) (a y : List Rat) : dot (a.map (k * ·)) y = k * dot a y := by
  induction a generalizing y with
  | nil => simp [dot]
  | cons x xs ih =>
    cases y with
    | nil => simp [dot]
    | cons w ws => simp only [List.map_cons, dot, ih ws]; ring

theorem dot_smul_right (k : Rat) (a y : List Rat) : dot a (y.map (k * ·)) = k * dot a y := by
  induction a generalizing y with
  | nil => simp [dot]
  | cons x xs ih =>
    cases y with
    | nil => simp [dot]
    | cons w ws => simp only [List.map_cons, dot, ih ws]; ring

theorem vecMat_length (n : Nat) (xs : List Rat) (rows : List (List Rat)) (h : ∀ row ∈ rows, row.length = n) :
    (vecMat n xs rows).length = n := by
  induction xs generalizing rows with
  | nil => simp [vecMat, zeros]
  | cons x xs ih =>
    cases rows with
    | nil => simp [vecMat, zeros]
    | cons row rows =>
      have h1 : row.length = n := h row (by simp)
      have h2 := ih rows (fun r hr => h r (List.mem_cons_of_mem _ hr))
      simp only [vecMat]
      rw [vadd_length _ _ (by simp [h1, h2])]
      simp [h1]

/-- `(xᵀM)·y = Σ_i x_i (row_i · y)` -/
theorem dot_vecMat (n : Nat) (xs : List Rat) (rows : List (List Rat)) (y : List Rat)
    (h : ∀ row ∈ rows, row.length = n) :
    dot (vecMat n xs rows) y = (List.zipWith (fun xi row => xi * specDot row y) xs rows).sum := by
  induction xs generalizing rows with
  | nil => simp [vecMat, dot_zeros]
  | cons x xs ih =>
    cases rows with
    | nil => simp [vecMat, dot_zeros]
    | cons row rows =>
      have h1 : row.length = n := h row (by simp)
      have hr : ∀ r ∈ rows, r.length = n := fun r hr => h r (List.mem_cons_of_mem _ hr)
      simp only [vecMat, List.zipWith_cons_cons, List.sum_cons]
      rw [dot_vadd _ _ _ (by simp [h1, vecMat_length n xs rows hr]), dot_smul, ih rows hr, dot_eq_specDot]

/-- the model's `(xᵀM)x` is the specification's double sum -/
theorem quad_eq_specQuad (x : List Rat) (M : List (List Rat)) (h : ∀ row ∈ M, row.length = x.length) :
    quad x M = specQuad M x := by
  unfold quad specQuad
  exact dot_vecMat x.length x M x h

theorem specDot_smul_right (k : Rat) (a y : List Rat) : specDot a (y.map (k * ·)) = k * specDot a y := by
  rw [← dot_eq_specDot, ← dot_eq_specDot, dot_smul_right]

/-- scaling the vector by `k` scales the quadratic form by `k²` -/
theorem specQuad_smul (k : Rat) (M : List (List Rat)) (x : List Rat) :
    specQuad M (x.map (k * ·)) = k * k * specQuad M x := by
  unfold specQuad
  have key : ∀ (xs : List Rat) (rows : List (List Rat)),
      (List.zipWith (fun xi row => xi * specDot row (x.map (k * ·))) (xs.map (k * ·)) rows).sum
        = k * k * (List.zipWith (fun xi row => xi * specDot row x) xs rows).sum := by
    intro xs
    induction xs with
    | nil => simp
    | cons a as ih =>
      intro rows
      cases rows with
      | nil => simp
      | cons r rs =>
        simp only [List.map_cons, List.zipWith_cons_cons, List.sum_cons]
        rw [ih rs, specDot_smul_right]
        ring
  exact key x M

theorem shapeOK_iff (n : Nat) (M : List (List Rat)) : shapeOK n M = true ↔ n ≠ 0 ∧ Square n M := by
  simp [shapeOK, Square, List.all_eq_true]
  tauto

/-! ### the count vector -/
section
variable {N : Type} [DecidableEq N]

/-- `x` after the placement loop: basis position `i` holds the mapping's count for `basis[i]`, else the old entry -/
def fillX (basis : List N) (gs : List (N × Rat)) (x : List Rat) : List Rat :=
  List.zipWith (fun b xi => match gs.lookup b with | some n => n | none => xi) basis x

theorem fillX_length (basis : List N) (gs : List (N × Rat)) (x : List Rat) (hx : x.length = basis.length) :
    (fillX basis gs x).length = basis.length := by
  simp [fillX, hx]

theorem fillX_nil (basis : List N) (x : List Rat) (hx : x.length = basis.length) : fillX basis [] x = x := by
  apply List.ext_getElem
  · simp [fillX, hx]
  · intro j h1 h2
    simp [fillX]

theorem lookup_none_of_not_mem (gs : List (N × Rat)) (g : N) (h : g ∉ gs.map (·.1)) : gs.lookup g = none := by
  rw [List.lookup_eq_none_iff]
  intro p hp
  simp only [bne_iff_ne, ne_eq]
  intro hg
  exact h (List.mem_map.mpr ⟨p, hp, hg.symm⟩)

theorem placeX_spec (basis : List N) (hb : basis.Nodup) (gs : List (N × Rat)) (hk : (gs.map (·.1)).Nodup)
    (x y : List Rat) (hx : x.length = basis.length) (h : placeX basis gs x = .ok y) : y = fillX basis gs x := by
  induction gs generalizing x with
  | nil =>
    simp only [placeX, Except.ok.injEq] at h
    rw [fillX_nil basis x hx, h]
  | cons p rest ih =>
    obtain ⟨g, n⟩ := p
    simp only [List.map_cons, List.nodup_cons] at hk
    unfold placeX at h
    split at h
    · cases h
    · rename_i i hi
      obtain ⟨hlt, hgi, _⟩ := List.idxOf?_eq_some_iff.mp hi
      have hy := ih hk.2 (x.set i n) (by simp [hx]) h
      rw [hy]
      have hgn : rest.lookup g = none := lookup_none_of_not_mem rest g hk.1
      apply List.ext_getElem
      · simp [fillX]
      · intro j h1 h2
        simp only [fillX, List.getElem_zipWith, List.lookup_cons]
        by_cases hji : j = i
        · subst hji
          simp [hgi, hgn]
        · have hne : basis[j]'(by simp [fillX] at h1; omega) ≠ g := by
            intro heq
            apply hji
            have := (List.Nodup.getElem_inj_iff hb (i := j) (j := i) (hi := by simp [fillX] at h1; omega) (hj := hlt)).mp
              (heq.trans hgi.symm)
            exact this
          have hbeq : (basis[j]'(by simp [fillX] at h1; omega) == g) = false := by simpa using hne
          simp only [hbeq]
          rw [List.getElem_set_ne (Ne.symm hji)]

theorem fillX_zeros (basis : List N) (gs : List (N × Rat)) :
    fillX basis gs (zeros basis.length) = specX basis gs := by
  unfold fillX specX zeros
  induction basis with
  | nil => simp
  | cons b bs ih =>
    simp only [List.length_cons, List.replicate_succ, List.zipWith_cons_cons, List.map_cons]
    rw [ih]
    rfl

/-- with distinct keys, `lookup` is membership -/
theorem lookup_eq_some_of_nodup (gs : List (N × Rat)) (hk : (gs.map (·.1)).Nodup) (b : N) (n : Rat) :
    gs.lookup b = some n ↔ (b, n) ∈ gs := by
  induction gs with
  | nil => simp
  | cons p rest ih =>
    obtain ⟨g, m⟩ := p
    simp only [List.map_cons, List.nodup_cons] at hk
    rw [List.lookup_cons]
    by_cases hbg : b = g
    · subst hbg
      simp only [beq_self_eq_true, Option.some.injEq, List.mem_cons, Prod.mk.injEq, true_and]
      constructor
      · intro h; exact Or.inl h.symm
      · rintro (h | h)
        · exact h.symm
        · exact absurd (List.mem_map.mpr ⟨(b, n), h, rfl⟩) hk.1
    · have : (b == g) = false := by simpa using hbg
      simp only [this, ih hk.2, List.mem_cons, Prod.mk.injEq, hbg, false_and, false_or]

theorem lookup_perm (gs gs' : List (N × Rat)) (hp : gs.Perm gs') (hk : (gs.map (·.1)).Nodup) (b : N) :
    gs.lookup b = gs'.lookup b := by
  have hk' : (gs'.map (·.1)).Nodup := (hp.map _).nodup_iff.mp hk
  apply Option.ext
  intro n
  rw [lookup_eq_some_of_nodup gs hk, lookup_eq_some_of_nodup gs' hk', hp.mem_iff]

/-- the count vector does not depend on the order of the mapping -/
theorem specX_perm (basis : List N) (gs gs' : List (N × Rat)) (hp : gs.Perm gs') (hk : (gs.map (·.1)).Nodup) :
    specX basis gs = specX basis gs' := by
  unfold specX
  apply List.map_congr_left
  intro b _
  rw [lookup_perm gs gs' hp hk b]

theorem lookup_scale (k : Rat) (gs : List (N × Rat)) (b : N) :
    (gs.map fun g => (g.1, k * g.2)).lookup b = (gs.lookup b).map (k * ·) := by
  induction gs with
  | nil => simp
  | cons p rest ih =>
    obtain ⟨g, m⟩ := p
    simp only [List.map_cons, List.lookup_cons]
    cases b == g <;> simp [ih]

/-- scaling every count by `k` scales the count vector by `k` -/
theorem specX_scale (k : Rat) (basis : List N) (gs : List (N × Rat)) :
    specX basis (gs.map fun g => (g.1, k * g.2)) = (specX basis gs).map (k * ·) := by
  unfold specX
  rw [List.map_map]
  apply List.map_congr_left
  intro b _
  simp only [Function.comp, lookup_scale]
  cases gs.lookup b <;> simp

theorem specX_length (basis : List N) (gs : List (N × Rat)) : (specX basis gs).length = basis.length := by
  simp [specX]

variable {S : Type} [DecidableEq S]

theorem buildUQ_ok (u : UQ N) (gs : List (N × Rat)) (q : UQE) (h : buildUQ u gs = .ok q) :
    ∃ x, placeX u.basis gs (zeros u.basis.length) = .ok x ∧ shapeOK u.basis.length u.mat = true ∧
      q = ⟨u.rmse, quad x u.mat, u.dof⟩ := by
  unfold buildUQ at h
  split at h
  · cases h
  · rename_i x hx
    split at h
    · rename_i hs; cases h; exact ⟨x, hx, hs, rfl⟩
    · cases h

theorem estimate_uq (reg : List S) (lib : Library N S) (gs : List (N × Rat)) (s : S) (e : Estimator) (u : UQ N)
    (he : estimate reg lib gs s = .ok e) (hu : lib.uq = some u) :
    ∃ q, buildUQ u gs = .ok q ∧ e.uq = some q := by
  obtain ⟨_, _, hc⟩ := (estimate_ok_iff reg lib gs s e).mp he
  obtain ⟨cs, uq, _, huq, hf⟩ := (construct_ok_iff lib s gs e).mp hc
  obtain ⟨_, _, _, h4⟩ := finish_ok _ _ _ _ hf
  unfold uqPart at huq
  rw [hu] at huq
  simp only at huq
  split at huq
  · cases huq
  · rename_i q hq; cases huq; exact ⟨q, hq, h4⟩

/-- first out-of-basis descriptor → that error -/
theorem placeX_notInBasis (basis : List N) (pre : List (N × Rat)) (g : N) (n : Rat) (post : List (N × Rat)) (x : List Rat)
    (hpre : ∀ p ∈ pre, p.1 ∈ basis) (hg : g ∉ basis) :
    placeX basis (pre ++ (g, n) :: post) x = .error (.notInBasis g) := by
  induction pre generalizing x with
  | nil =>
    simp only [List.nil_append, placeX]
    have : basis.idxOf? g = none := List.idxOf?_eq_none_iff.mpr hg
    simp [this]
  | cons p pre ih =>
    obtain ⟨g', n'⟩ := p
    simp only [List.cons_append, placeX]
    have hin : g' ∈ basis := hpre (g', n') (by simp)
    cases hi : basis.idxOf? g' with
    | none => exact absurd hin (List.idxOf?_eq_none_iff.mp hi)
    | some i => exact ih _ (fun p hp => hpre p (List.mem_cons_of_mem _ hp))

end

end PGA.Estimate
