import PGA.Proofs.RingParse
/-!
# Position invariant of the RING engine (C09-T3)

`(lineno, colno)` is always the line/column of `sidx`, `sidx ≤ |s|`, and `stream[sidx:]` is what
is left; every error the engine raises or remembers carries the position of some index of the text.
-/
set_option linter.unusedVariables false
namespace PGA.Ring
open PGA.Chars

theorem lineOf_snoc (p : List Char) (ch : Char) :
    lineOf (p ++ [ch]) = if ch = '\n' then lineOf p + 1 else lineOf p := by
  unfold lineOf
  rw [List.count_append]
  by_cases h : ch = '\n'
  · subst h; simp; omega
  · have : ([ch] : List Char).count '\n' = 0 := by
      simp [h]
    simp [this, h]

theorem colOf_snoc (p : List Char) (ch : Char) :
    colOf (p ++ [ch]) = if ch = '\n' then 1 else colOf p + 1 := by
  unfold colOf
  rw [List.reverse_append]
  by_cases h : ch = '\n'
  · subst h; simp
  · simp [h]; omega

theorem lineOf_nil : lineOf [] = 1 := rfl
theorem colOf_nil : colOf [] = 1 := rfl

/-- one character forward -/
theorem inv_step (s : List Char) (ch : Char) (r : List Char) (i l c : Nat) (h : Inv s ⟨ch :: r, i, l, c⟩) :
    Inv s ⟨r, i + 1, if ch = '\n' then l + 1 else l, if ch = '\n' then 1 else c + 1⟩ := by
  obtain ⟨h1, h2, h3, h4⟩ := h
  simp only at h1 h2 h3 h4
  have hlt : i < s.length := by
    rcases Nat.lt_or_ge i s.length with hlt | hge
    · exact hlt
    · have : s.drop i = [] := List.drop_eq_nil_iff.mpr hge
      rw [this] at h2; cases h2
  have hcons := List.drop_eq_getElem_cons hlt
  rw [hcons] at h2
  injection h2 with ha hb
  have htake : s.take (i + 1) = s.take i ++ [ch] := by
    rw [List.take_succ_eq_append_getElem hlt, ← ha]
  have hdrop : s.drop (i + 1) = r := hb.symm
  refine ⟨by simp only; omega, by simp only; exact hdrop.symm, ?_, ?_⟩
  · simp only [htake, lineOf_snoc, h3]
  · simp only [htake, colOf_snoc, h4]

theorem skipFillerAux_inv (s : List Char) (fil : List (List Char)) :
    ∀ (r : List Char) (i l c : Nat) (st' : St), skipFillerAux fil r i l c = some st' →
      Inv s ⟨r, i, l, c⟩ → Inv s st' := by
  intro r
  induction r with
  | nil =>
    intro i l c st' h hi
    simp only [skipFillerAux] at h
    split at h
    · cases h
    · cases h; exact hi
  | cons ch r ih =>
    intro i l c st' h hi
    simp only [skipFillerAux] at h
    have hs := inv_step s ch r i l c hi
    split at h
    · split at h
      · rename_i hn; simp only [hn, if_true] at hs; exact ih _ _ _ _ h hs
      · rename_i hn; simp only [hn, if_false] at hs; exact ih _ _ _ _ h hs
    · cases h; exact hi

theorem advance_inv (s : List Char) :
    ∀ (n : Nat) (rest : List Char) (i l c : Nat), n ≤ rest.length → Inv s ⟨rest, i, l, c⟩ →
      Inv s ⟨rest.drop n, i + n, (advance (rest.take n) l c).1, (advance (rest.take n) l c).2⟩ := by
  intro n
  induction n with
  | zero => intro rest i l c _ h; simpa [advance] using h
  | succ n ih =>
    intro rest i l c hn h
    cases rest with
    | nil => simp at hn
    | cons ch r =>
      have hs := inv_step s ch r i l c h
      simp only [List.length_cons] at hn
      have := ih r (i + 1) _ _ (by omega) hs
      simp only [List.drop_succ_cons, List.take_succ_cons, advance]
      by_cases hc : ch = '\n'
      · simp only [hc, if_true] at this ⊢
        rw [show i + (n + 1) = i + 1 + n by omega]; exact this
      · simp only [hc, if_false] at this ⊢
        rw [show i + (n + 1) = i + 1 + n by omega]; exact this

theorem take_inv (s : List Char) (fil : List (List Char)) (st : St) (n : Nat) (t : List Char) (st' : St)
    (h : take fil st n = some (t, st')) (hn : n ≤ st.rest.length) (hi : Inv s st) : Inv s st' := by
  unfold take at h
  simp only [skipFiller] at h
  split at h
  · cases h
  · rename_i st'' hs
    cases h
    exact skipFillerAux_inv s fil _ _ _ _ _ hs (advance_inv s n st.rest st.idx st.line st.col hn hi)

theorem errAt_inside (s : List Char) (st : St) (t : Tok) (hi : Inv s st) : ErrInside s (errAt st t) :=
  ⟨st.idx, hi.1, hi.2.2.1, hi.2.2.2⟩

theorem update_inside (s : List Char) (e c : Err) (he : ErrInside s e) (hc : ErrInside s c) :
    ErrInside s (e.update c) := by
  unfold Err.update
  split
  · exact hc
  · split
    · exact he
    · exact he

theorem catchErr_inside (s : List Char) (e : Err) (cur : Option Err) (he : ErrInside s e) (hc : CurInside s cur) :
    CurInside s (catchErr e cur) := by
  cases cur with
  | none => exact he
  | some c => exact update_inside s e c he hc

/-- what the invariant says about a result -/
def ResInv (s : List Char) : Res → Prop
  | .ok st' _ cur' => Inv s st' ∧ CurInside s cur'
  | .fail e cur' => ErrInside s e ∧ CurInside s cur'
  | .abort _ => True

theorem take_eq_le {α} (l tok : List α) (h : l.take tok.length = tok) : tok.length ≤ l.length := by
  have := congrArg List.length h
  simp only [List.length_take] at this
  omega

theorem identRun_le (G : Grammar) : ∀ r : List Char, identRun G r ≤ r.length := by
  intro r
  induction r with
  | nil => simp [identRun]
  | cons c r ih => simp only [identRun]; split <;> simp <;> omega

theorem digitLoop_inv (G : Grammar) (s : List Char) :
    ∀ (n : Nat) (st : St) (acc : List Char) (cur : Option Err), Inv s st → CurInside s cur →
      ResInv s (digitLoop G n st acc cur) := by
  intro n
  induction n with
  | zero =>
    intro st acc cur hi hc
    simp only [digitLoop, pyInt]
    split
    · exact ⟨hi, hc⟩
    · trivial
  | succ n ih =>
    intro st acc cur hi hc
    unfold digitLoop
    split
    · exact ⟨errAt_inside s st _ hi, hc⟩
    · rename_i c r hrest
      split
      · split
        · trivial
        · rename_i t st' ht
          exact ih st' _ cur (take_inv s G.filler st 1 t st' ht (by rw [hrest]; simp) hi) hc
      · exact ⟨errAt_inside s st _ hi, hc⟩

theorem numberLoop_inv (G : Grammar) (s : List Char) (st : St) (acc : List Char) (st' : St) (out : List Char)
    (h : numberLoop G st acc = some (st', out)) (hi : Inv s st) : Inv s st' := by
  fun_induction numberLoop G st acc with
  | case1 st acc hr => cases h; exact hi
  | case2 st acc c r hr hd h2 => cases h
  | case3 st acc c r hr hd t st1 h2 ih =>
    exact ih h (take_inv s G.filler st 1 t st1 h2 (by rw [hr]; simp) hi)
  | case4 st acc c r hr hd => cases h; exact hi

theorem literalsLoop_inv (G : Grammar) (s : List Char) (st : St) (hi : Inv s st) :
    ∀ (toks : List (List Char)) (cur : Option Err), CurInside s cur → ResInv s (literalsLoop G st toks cur) := by
  intro toks
  induction toks with
  | nil =>
    intro cur hc
    cases cur with
    | none => simp only [literalsLoop]; trivial
    | some c => simp only [literalsLoop]; exact ⟨hc, hc⟩
  | cons tok more ih =>
    intro cur hc
    unfold literalsLoop
    split
    · rename_i hm
      split
      · trivial
      · rename_i t st' ht
        exact ⟨take_inv s G.filler st _ t st' ht (take_eq_le _ _ hm) hi, hc⟩
    · exact ih _ (catchErr_inside s _ cur (errAt_inside s st _ hi) hc)

theorem evalLeaf_inv (G : Grammar) (s : List Char) (e : Expr) (st : St) (cur : Option Err)
    (hi : Inv s st) (hc : CurInside s cur) : ResInv s (evalLeaf G e st cur) := by
  cases e with
  | eos =>
    simp only [evalLeaf]
    split
    · exact ⟨hi, hc⟩
    · exact ⟨errAt_inside s st _ hi, hc⟩
  | digit n => simp only [evalLeaf]; exact digitLoop_inv G s n st [] cur hi hc
  | number =>
    simp only [evalLeaf]
    split
    · exact ⟨errAt_inside s st _ hi, hc⟩
    · rename_i c r hrest
      split
      · split
        · trivial
        · rename_i t st1 ht
          have h1 := take_inv s G.filler st 1 t st1 ht (by rw [hrest]; simp) hi
          split
          · trivial
          · rename_i st2 out hn
            have h2 := numberLoop_inv G s st1 t st2 out hn h1
            split
            · exact ⟨h2, hc⟩
            · exact ⟨errAt_inside s st2 _ h2, hc⟩
      · exact ⟨errAt_inside s st _ hi, hc⟩
  | string =>
    simp only [evalLeaf]
    split
    · exact ⟨errAt_inside s st _ hi, hc⟩
    · rename_i c r hrest
      split
      · split
        · trivial
        · rename_i t st' ht
          refine ⟨take_inv s G.filler st _ t st' ht ?_ hi, hc⟩
          rw [hrest]; have := identRun_le G r; simp; omega
      · exact ⟨errAt_inside s st _ hi, hc⟩
  | lit tok noErr =>
    simp only [evalLeaf]
    split
    · rename_i hm
      split
      · trivial
      · rename_i t st' ht
        exact ⟨take_inv s G.filler st _ t st' ht (take_eq_le _ _ hm) hi, hc⟩
    · exact ⟨errAt_inside s st _ hi, hc⟩
  | filler tok noErr =>
    simp only [evalLeaf]
    split
    · rename_i hm
      split
      · trivial
      · rename_i t st' ht
        exact ⟨take_inv s G.filler st _ t st' ht (take_eq_le _ _ hm) hi, hc⟩
    · exact ⟨errAt_inside s st _ hi, hc⟩
  | literals toks name =>
    have g := literalsLoop_inv G s st hi toks cur hc
    simp only [evalLeaf]
    split
    · rename_i c cur' hf
      rw [hf] at g
      split
      · exact ⟨errAt_inside s st _ hi, g.2⟩
      · exact g
    · exact g
  | _ => simp only [evalLeaf]; trivial

theorem eval_inv (G : Grammar) (s : List Char) :
    ∀ (e : Expr) (st : St) (cur : Option Err) (bound : Nat), Inv s st → CurInside s cur →
      ResInv s (eval G e st cur bound) := by
  intro e st cur bound
  fun_induction eval G e st cur bound with
  | case1 st cur bound a c cur' hfail ih =>
    intro hi hc
    have g := ih hi hc; rw [hfail] at g
    exact ⟨hi, catchErr_inside s c cur' g.1 g.2⟩
  | case2 st cur bound a hnf ih => intro hi hc; exact ih hi hc
  | case3 st cur bound a err cur' hfail ih =>
    intro hi hc
    have g := ih hi hc; rw [hfail] at g
    exact ⟨hi, catchErr_inside s err cur' g.1 g.2⟩
  | case4 st cur bound a st1 out1 cur1 hok hlt st2 out2 cur2 hrec ih1 ih2 =>
    intro hi hc
    have g1 := ih1 hi hc; rw [hok] at g1
    have g2 := ih2 g1.1 g1.2; rw [hrec] at g2
    exact g2
  | case5 st cur bound a st1 out1 cur1 hok hlt hnok ih1 ih2 =>
    intro hi hc
    have g1 := ih1 hi hc; rw [hok] at g1
    exact ih2 g1.1 g1.2
  | case6 st cur bound a st1 out1 cur1 hok hnlt ih => intro _ _; trivial
  | case7 st cur bound a hnf hnok ih => intro hi hc; exact ih hi hc
  | case8 st cur bound => intro hi hc; exact ⟨hi, hc⟩
  | case9 st cur bound a rest st2 out2 cur2 hok hlt st3 out3 cur3 hrec ih1 ih2 =>
    intro hi hc
    have g1 := ih1 hi hc; rw [hok] at g1
    have g2 := ih2 g1.1 g1.2; rw [hrec] at g2
    exact g2
  | case10 st cur bound a rest st2 out2 cur2 hok hlt hnok ih1 ih2 =>
    intro hi hc
    have g1 := ih1 hi hc; rw [hok] at g1
    exact ih2 g1.1 g1.2
  | case11 st cur bound a rest st2 out2 cur2 hok hnlt heq st3 out3 cur3 hrec ih1 ih2 =>
    intro hi hc
    have g1 := ih1 hi hc; rw [hok] at g1
    have g2 := ih2 g1.1 g1.2; rw [hrec] at g2
    exact g2
  | case12 st cur bound a rest st2 out2 cur2 hok hnlt heq hnok ih1 ih2 =>
    intro hi hc
    have g1 := ih1 hi hc; rw [hok] at g1
    exact ih2 g1.1 g1.2
  | case13 st cur bound a rest st2 out2 cur2 hok hnlt hneq ih1 => intro _ _; trivial
  | case14 st cur bound a rest hnok ih1 => intro hi hc; exact ih1 hi hc
  | case15 st bound => intro _ _; trivial
  | case16 st bound c => intro hi hc; exact ⟨hc, hc⟩
  | case17 st cur bound a rest c cur' hfail ih1 ih2 =>
    intro hi hc
    have g1 := ih1 hi hc; rw [hfail] at g1
    exact ih2 hi (catchErr_inside s c cur' g1.1 g1.2)
  | case18 st cur bound a rest hnf ih1 => intro hi hc; exact ih1 hi hc
  | case19 st cur bound n body hbody v hrank hlt st2 out2 cur2 hok ih =>
    intro hi hc
    have g := ih hi hc; rw [hok] at g
    exact g
  | case20 st cur bound n body hbody v hrank hlt hnok ih => intro hi hc; exact ih hi hc
  | case21 st cur bound n body hbody v hrank hnlt => intro _ _; trivial
  | case22 st cur bound n body hbody hrank => intro _ _; trivial
  | case23 st cur bound n hmiss => intro _ _; trivial
  | case24 st cur bound e h1 h2 h3 h4 h5 h6 h7 => intro hi hc; exact evalLeaf_inv G s e st cur hi hc

end PGA.Ring
