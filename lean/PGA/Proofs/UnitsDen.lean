import PGA.Proofs.UnitsRender
/-!
# Evaluating the parsed tree gives the denotation

For a configuration whose database entries are exact magnitudes with integer exponents (a table
obligation for the live tables) and an expression all of whose powers are integers, `eval_subtree`
(with the snapping `_build` after every operation) computes exactly the specification's `den`
(plain rational arithmetic on magnitudes, plain integer arithmetic on exponents).
-/
namespace PGA.Units
open SExpr

/-- non-negative threshold; every database entry is an exact magnitude with integer exponents -/
structure CfgGood (cfg : Cfg) : Prop where
  thr : 0 ≤ cfg.thr
  db : ∀ kv ∈ cfg.db, ∃ q, kv.2.mag = .exact q ∧ kv.2.dim.Integral

theorem Table.find_mem {α} (t : Table α) (n : Name) (v : α) (h : t.find n = some v) : (n, v) ∈ t := by
  induction t with
  | nil => simp [Table.find] at h
  | cons kv rest ih =>
    obtain ⟨k, w⟩ := kv
    simp only [Table.find] at h
    split at h
    · next hk => injection h with h; subst h; subst hk; exact List.mem_cons_self
    · exact List.mem_cons_of_mem _ (ih h)

theorem scale_good {thr p : Rat} (ht : 0 ≤ thr) {v : Val} {q : Rat} (hm : v.mag = .exact q) (hd : v.dim.Integral) :
    ∃ q', (scale thr p v).mag = .exact q' ∧ (scale thr p v).dim.Integral := by
  refine ⟨p * q, ?_, ?_⟩
  · simp [scale, Val.mul, Val.plain, hm, Mag.mul]
  · simp only [scale, Val.mul, Val.plain]
    exact (Dim.mul_integral ht Dim.integral_zero hd).2

theorem lookup_good {cfg : Cfg} (hg : CfgGood cfg) {s : Name} {v : Val} (h : lookup cfg s = .ok v) :
    ∃ q, v.mag = .exact q ∧ v.dim.Integral := by
  unfold lookup at h
  split at h
  · next w hw =>
    injection h with h; subst h
    exact hg.db _ (Table.find_mem _ _ _ hw)
  · split at h
    · next w p hw hp =>
      injection h with h; subst h
      obtain ⟨q, hq, hd⟩ := hg.db _ (Table.find_mem _ _ _ hw)
      exact scale_good hg.thr hq hd
    · split at h
      · next w p hw hp =>
        injection h with h; subst h
        obtain ⟨q, hq, hd⟩ := hg.db _ (Table.find_mem _ _ _ hw)
        exact scale_good hg.thr hq hd
      · simp [perr] at h

/-- the model's result `r` is the denotation `v` (and the exponents are integers) -/
def Agrees (v : Res SVal) (r : Res Val) : Prop :=
  match v with
  | .ok (q, d) => r = .ok ⟨.exact q, d⟩ ∧ d.Integral
  | .error e => r = .error e

theorem agrees_name {cfg : Cfg} (hg : CfgGood cfg) (s : Name) : Agrees (nameDen cfg s) (lookup cfg s) := by
  unfold nameDen
  cases h : lookup cfg s with
  | error e => simp [Agrees]
  | ok v =>
    obtain ⟨q, hq, hd⟩ := lookup_good hg h
    obtain ⟨m, d⟩ := v
    simp only at hq hd
    subst hq
    exact ⟨rfl, hd⟩

theorem agrees_pw {cfg : Cfg} (hg : CfgGood cfg) (t : Tree) (v : Res SVal) (pw : Option PowLit)
    (hint : pwInt pw) (h : Agrees v (evalTree cfg t)) : Agrees (applyPw v pw) (evalTree cfg (pwTree t pw)) := by
  cases pw with
  | none => exact h
  | some p =>
    have hx : isInt p.lit.value = true := hint
    simp only [applyPw, pwTree, evalTree, bind, Except.bind]
    cases v with
    | error e =>
      have : evalTree cfg t = .error e := h
      simp [this, Agrees]
    | ok qd =>
      obtain ⟨q, d⟩ := qd
      obtain ⟨he, hd⟩ : evalTree cfg t = .ok ⟨.exact q, d⟩ ∧ d.Integral := h
      simp only [he, hx, Bool.not_true, Bool.and_false, Bool.false_eq_true, if_false, Val.pow, Mag.pow, if_true,
        bind, Except.bind]
      by_cases hz : q = 0 ∧ p.lit.value.num < 0
      · simp [hz, Agrees]
      · simp only [hz, if_false, pure, Except.pure, Agrees]
        have := Dim.pow_integral hg.thr hx hd
        exact ⟨by rw [this.1]; rfl, by rw [← Dim.smul, ← this.1]; exact this.2⟩

/-- **evaluation = denotation**, for every expression tree with integer powers -/
theorem eval_den {cfg : Cfg} (hg : CfgGood cfg) (e : SExpr) (hint : e.IntPows) :
    Agrees (den cfg e) (evalTree cfg (toTree e)) := by
  induction e with
  | num n pw =>
    apply agrees_pw hg _ _ pw hint
    exact ⟨rfl, Dim.integral_zero⟩
  | name s pw =>
    apply agrees_pw hg _ _ pw hint
    exact agrees_name hg s
  | paren e pw ih =>
    apply agrees_pw hg _ _ pw hint.2
    exact ih hint.1
  | bin e op f ihe ihf =>
    have he := ihe hint.1
    have hf := ihf hint.2
    simp only [den, toTree]
    cases hde : den cfg e with
    | error err =>
      rw [hde] at he
      have he' : evalTree cfg (toTree e) = .error err := he
      cases op <;> simp [mkBin, evalTree, he', bind, Except.bind, Agrees]
    | ok a =>
      obtain ⟨qa, da⟩ := a
      rw [hde] at he
      obtain ⟨he', hda⟩ : evalTree cfg (toTree e) = .ok ⟨.exact qa, da⟩ ∧ da.Integral := he
      cases hdf : den cfg f with
      | error err =>
        rw [hdf] at hf
        have hf' : evalTree cfg (toTree f) = .error err := hf
        cases op <;> simp [mkBin, evalTree, he', hf', bind, Except.bind, Agrees]
      | ok b =>
        obtain ⟨qb, db⟩ := b
        rw [hdf] at hf
        obtain ⟨hf', hdb⟩ : evalTree cfg (toTree f) = .ok ⟨.exact qb, db⟩ ∧ db.Integral := hf
        have hm := Dim.mul_integral hg.thr hda hdb
        have hdv := Dim.div_integral hg.thr hda hdb
        cases op with
        | times =>
          simp only [mkBin, evalTree, he', hf', bind, Except.bind, pure, Except.pure, Val.mul, Mag.mul, Agrees]
          exact ⟨by rw [hm.1]; rfl, by rw [← Dim.add, ← hm.1]; exact hm.2⟩
        | juxt =>
          simp only [mkBin, evalTree, he', hf', bind, Except.bind, pure, Except.pure, Val.mul, Mag.mul, Agrees]
          exact ⟨by rw [hm.1]; rfl, by rw [← Dim.add, ← hm.1]; exact hm.2⟩
        | over =>
          simp only [mkBin, evalTree, he', hf', bind, Except.bind, Val.div, Mag.div, Mag.isZero, beq_iff_eq]
          by_cases hz : qb = 0
          · simp [hz, Agrees]
          · simp only [hz, if_false, pure, Except.pure, Mag.inv, Mag.mul, Agrees]
            exact ⟨by rw [hdv.1, Rat.div_def]; rfl, by rw [← Dim.sub, ← hdv.1]; exact hdv.2⟩

end PGA.Units
