import PGA.Proofs.EmbedsMap
import PGA.Proofs.Aromatize
import PGA.Proofs.Neighbours
import PGA.Proofs.SchemeRelabel
import PGA.Proofs.Decompose
import Mathlib.Algebra.BigOperators.Group.List.Basic
/-! A renumbering of the atoms of a graph (`Spec.MolIso`): it is an `OpenMap`, it keeps every molecule-level prefix, and
the Benson perception commutes with it. -/
namespace PGA.Spec
open PGA PGA.Arom

variable {π : Nat → Nat} {m m' : Mol}

theorem joins_relabel (hinj : Function.Injective π) (e : Bond) (x y : Nat) :
    (relabelBond π e).joins (π x) (π y) = e.joins x y := by
  unfold Bond.joins relabelBond
  simp only
  rw [Bool.eq_iff_iff]
  simp only [Bool.or_eq_true, Bool.and_eq_true, beq_iff_eq]
  constructor
  · rintro (⟨a, b⟩ | ⟨a, b⟩)
    · exact Or.inl ⟨hinj a, hinj b⟩
    · exact Or.inr ⟨hinj a, hinj b⟩
  · rintro (⟨a, b⟩ | ⟨a, b⟩)
    · exact Or.inl ⟨by rw [a], by rw [b]⟩
    · exact Or.inr ⟨by rw [a], by rw [b]⟩

theorem touches_relabel (hinj : Function.Injective π) (e : Bond) (x : Nat) :
    (relabelBond π e).touches (π x) = e.touches x := by
  unfold Bond.touches relabelBond
  simp only
  rw [Bool.eq_iff_iff]
  simp only [Bool.or_eq_true, beq_iff_eq]
  constructor
  · rintro (a | a)
    · exact Or.inl (hinj a)
    · exact Or.inr (hinj a)
  · rintro (a | a)
    · exact Or.inl (by rw [a])
    · exact Or.inr (by rw [a])

theorem other_relabel (hinj : Function.Injective π) (e : Bond) (x : Nat) :
    (relabelBond π e).other (π x) = π (e.other x) := by
  unfold Bond.other relabelBond
  simp only
  by_cases h : e.a = x
  · simp [h]
  · have : π e.a ≠ π x := fun hh => h (hinj hh)
    simp [h, this]

/-- in graphs without parallel bonds, `GetBondBetweenAtoms` does not depend on the order of the bond list -/
theorem bondBetween_perm (m1 m2 : Mol) (hp : m1.bonds.Perm m2.bonds)
    (h1 : m1.bonds.Pairwise (fun e e' => e'.joins e.a e.b = false))
    (h2 : m2.bonds.Pairwise (fun e e' => e'.joins e.a e.b = false)) (x y : Nat) :
    m1.bondBetween x y = m2.bondBetween x y := by
  cases hb : m1.bondBetween x y with
  | some e =>
    have he : e ∈ m1.bonds := by unfold Mol.bondBetween at hb; exact List.mem_of_find?_eq_some hb
    have hj : e.joins x y = true := by
      unfold Mol.bondBetween at hb; exact List.find?_some (p := fun e : Bond => e.joins x y) hb
    exact (PGA.Match.bondBetween_of_mem m2 h2 e (hp.mem_iff.1 he) x y hj).symm
  | none =>
    have _ := h1
    unfold Mol.bondBetween at hb ⊢
    rw [List.find?_eq_none] at hb
    symm
    rw [List.find?_eq_none]
    intro e he
    exact hb e (hp.mem_iff.2 he)

theorem pairwise_relabel (hinj : Function.Injective π) (l : List Bond)
    (h : l.Pairwise (fun e e' => e'.joins e.a e.b = false)) :
    (l.map (relabelBond π)).Pairwise (fun e e' => e'.joins e.a e.b = false) := by
  rw [List.pairwise_map]
  refine h.imp ?_
  intro e e' hh
  show (relabelBond π e').joins (π e.a) (π e.b) = false
  rw [joins_relabel hinj]; exact hh

theorem MolIso.bondBetween (h : MolIso π m m') (hm : m.wf = true) (hm' : m'.wf = true) (x y : Nat) :
    m'.bondBetween (π x) (π y) = (m.bondBetween x y).map (relabelBond π) := by
  obtain ⟨_, p1, _⟩ := PGA.Match.wf_bonds m hm
  obtain ⟨_, p2, _⟩ := PGA.Match.wf_bonds m' hm'
  have := bondBetween_perm m' ⟨m.atoms, m.bonds.map (relabelBond π), m.rings⟩ h.bonds p2 (pairwise_relabel h.inj _ p1) (π x) (π y)
  rw [this]
  unfold Mol.bondBetween
  simp only
  rw [List.find?_map]
  congr 2
  funext e
  exact joins_relabel h.inj e x y

theorem MolIso.atom? (h : MolIso π m m') (x : Nat) : m'.atom? (π x) = m.atom? x := h.atoms x

theorem mem_map_inj (hinj : Function.Injective π) (r : List Nat) (x : Nat) : π x ∈ r.map π ↔ x ∈ r := by
  simp only [List.mem_map]
  constructor
  · rintro ⟨y, hy, he⟩; rwa [← hinj he]
  · intro hx; exact ⟨x, hx, rfl⟩

theorem MolIso.ringsThrough (h : MolIso π m m') (x : Nat) :
    ringsThrough m' (π x) = (ringsThrough m x).map (List.map π) := by
  unfold Spec.ringsThrough
  rw [h.rings, List.filter_map]
  congr 1
  apply List.filter_congr
  intro r _
  simp only [Function.comp]
  rw [Bool.eq_iff_iff, decide_eq_true_eq, decide_eq_true_eq]
  exact mem_map_inj h.inj r x

theorem MolIso.openMap (h : MolIso π m m') (hm : m.wf = true) (hm' : m'.wf = true) : OpenMap π m m' := by
  refine OpenMap.ofRingsEq h.inj (fun x _ => h.atom? x) (fun x y _ _ => h.bondBetween hm hm' x y) ?_ ?_ (fun x _ => h.ringsThrough x)
  · intro x y' e' hx hb
    obtain ⟨y, rfl⟩ := h.surj y'
    refine ⟨y, ?_, rfl⟩
    rw [h.bondBetween hm hm'] at hb
    cases hbm : m.bondBetween x y with
    | none => rw [hbm] at hb; cases hb
    | some e =>
      have he : e ∈ m.bonds := by unfold Mol.bondBetween at hbm; exact List.mem_of_find?_eq_some hbm
      have hj : e.joins x y = true := by
        unfold Mol.bondBetween at hbm; exact List.find?_some (p := fun e : Bond => e.joins x y) hbm
      obtain ⟨hw, _, _⟩ := PGA.Match.wf_bonds m hm
      obtain ⟨ha, hb', _⟩ := hw e he
      unfold Bond.joins at hj
      simp only [Bool.or_eq_true, Bool.and_eq_true, beq_iff_eq] at hj
      rcases hj with ⟨_, h2⟩ | ⟨h1, _⟩
      · omega
      · omega
  · intro x _
    constructor
    · rintro ⟨e', he', ht, hk⟩
      obtain ⟨e, he, rfl⟩ := List.mem_map.1 (h.bonds.mem_iff.1 he')
      exact ⟨e, he, by rwa [touches_relabel h.inj] at ht, hk⟩
    · rintro ⟨e, he, ht, hk⟩
      exact ⟨relabelBond π e, h.bonds.mem_iff.2 (List.mem_map.2 ⟨e, he, rfl⟩), by rwa [touches_relabel h.inj], hk⟩

/-! ### molecule-level prefixes -/
theorem MolIso.atoms_lookup (h : MolIso π m m') :
    ((List.range m.natoms).map (fun j => m'.atoms[j]?)).Perm ((List.range m.natoms).map (fun i => m.atoms[i]?)) := by
  have hp := (PGA.Scheme.range_map_perm m.natoms h.inj h.range).symm
  have := hp.map (fun j => m'.atoms[j]?)
  rw [List.map_map] at this
  have e : ((fun j => m'.atoms[j]?) ∘ π) = fun i => m.atoms[i]? := by funext i; exact h.atoms i
  rw [e] at this
  exact this

theorem map_lookup_range (l : List Atom) : (List.range l.length).map (fun i => l[i]?) = l.map some := by
  apply List.ext_getElem?
  intro i
  simp only [List.getElem?_map, List.getElem?_range]
  by_cases hi : i < l.length
  · simp [hi]
  · simp [hi, List.getElem?_eq_none_iff.2 (Nat.le_of_not_lt hi)]

theorem MolIso.atoms_perm (h : MolIso π m m') : (m'.atoms.map some).Perm (m.atoms.map some) := by
  have := h.atoms_lookup
  have hn : m'.atoms.length = m.atoms.length := h.natoms
  rw [← map_lookup_range m'.atoms, ← map_lookup_range m.atoms, hn]
  exact this

theorem MolIso.atoms_perm' (h : MolIso π m m') : m'.atoms.Perm m.atoms := by
  have := h.atoms_perm
  exact (List.map_perm_map_iff (Option.some_injective _)).1 this

theorem MolIso.molPrefix (h : MolIso π m m') (p : MolPrefix) : MolPrefixHolds m' p ↔ MolPrefixHolds m p := by
  have hperm := h.atoms_perm'
  have htc : m'.totalCharge = m.totalCharge := by
    unfold Mol.totalCharge
    exact (hperm.map _).sum_eq
  have hcc : HasCC m' ↔ HasCC m := by
    unfold HasCC
    constructor
    · rintro ⟨e', he', hk, a, b, ha, hb, za, zb⟩
      obtain ⟨e, he, rfl⟩ := List.mem_map.1 (h.bonds.mem_iff.1 he')
      exact ⟨e, he, hk, a, b, by rw [← h.atom? e.a]; exact ha, by rw [← h.atom? e.b]; exact hb, za, zb⟩
    · rintro ⟨e, he, hk, a, b, ha, hb, za, zb⟩
      exact ⟨relabelBond π e, h.bonds.mem_iff.2 (List.mem_map.2 ⟨e, he, rfl⟩), hk, a, b, by rw [← ha]; exact h.atom? e.a,
        by rw [← hb]; exact h.atom? e.b, za, zb⟩
  cases p with
  | positive => simp only [MolPrefixHolds, htc]
  | negative => simp only [MolPrefixHolds, htc]
  | neutral => simp only [MolPrefixHolds, htc]
  | aromatic =>
    simp only [MolPrefixHolds]
    constructor
    · rintro ⟨a, ha, hh⟩; exact ⟨a, hperm.mem_iff.1 ha, hh⟩
    · rintro ⟨a, ha, hh⟩; exact ⟨a, hperm.mem_iff.2 ha, hh⟩
  | olefinic => exact hcc
  | paraffinic => exact not_congr hcc
  | cyclic => simp only [MolPrefixHolds, h.rings, ne_eq, List.map_eq_nil_iff]
  | linear => simp only [MolPrefixHolds, h.rings, List.map_eq_nil_iff]

/-! ### the Benson perception commutes with a renumbering -/
theorem MolIso.isC (h : MolIso π m m') (x : Nat) : Arom.isC m' (π x) = Arom.isC m x := by
  unfold Arom.isC; rw [h.atom?]

theorem MolIso.kindAt (h : MolIso π m m') (hm : m.wf = true) (hm' : m'.wf = true) (x y : Nat) :
    Arom.kindAt m' (π x) (π y) = Arom.kindAt m x y := by
  unfold Arom.kindAt
  rw [h.bondBetween hm hm']
  cases m.bondBetween x y <;> rfl

theorem MolIso.eligible (h : MolIso π m m') (hm : m.wf = true) (hm' : m'.wf = true) (r : List Nat) :
    Arom.eligible m' (r.map π) = Arom.eligible m r := by
  rcases r with _ | ⟨a0, _ | ⟨a1, _ | ⟨a2, _ | ⟨a3, _ | ⟨a4, _ | ⟨a5, _ | ⟨a6, l⟩⟩⟩⟩⟩⟩⟩ <;> try rfl
  simp only [List.map_cons, List.map_nil]
  rw [eligible_six, eligible_six]
  simp only [h.isC, h.kindAt hm hm']

theorem ringEdge_relabel (hinj : Function.Injective π) (r : List Nat) (e : Bond) :
    ringEdge (r.map π) (relabelBond π e) = ringEdge r e := by
  rcases r with _ | ⟨a0, _ | ⟨a1, _ | ⟨a2, _ | ⟨a3, _ | ⟨a4, _ | ⟨a5, _ | ⟨a6, l⟩⟩⟩⟩⟩⟩⟩ <;> try rfl
  simp only [List.map_cons, List.map_nil, ringEdge, edgePairs, List.any_cons, List.any_nil, joins_relabel hinj]

theorem MolIso.setAromatic (h : MolIso π m m') (r : List Nat) :
    MolIso π (Arom.setAromatic m r) (Arom.setAromatic m' (r.map π)) := by
  refine ⟨h.inj, h.surj, ?_, ?_, ?_, ?_, ?_⟩
  · intro i; rw [setAromatic_natoms]; exact h.range i
  · rw [setAromatic_natoms, setAromatic_natoms]; exact h.natoms
  · intro i
    unfold Arom.setAromatic
    simp only [List.getElem?_mapIdx]
    rw [h.atoms i, contains_map_inj h.inj]
  · unfold Arom.setAromatic
    simp only
    have := h.bonds.map (fun e => if ringEdge (r.map π) e then { e with kind := BondKind.aromatic } else e)
    refine this.trans ?_
    rw [List.map_map, List.map_map]
    have : ((fun e => if ringEdge (r.map π) e then { e with kind := BondKind.aromatic } else e) ∘ relabelBond π)
        = (relabelBond π ∘ fun e => if ringEdge r e then { e with kind := BondKind.aromatic } else e) := by
      funext e
      simp only [Function.comp, ringEdge_relabel h.inj]
      split <;> rfl
    rw [this]
  · exact h.rings

theorem MolIso.aromStep (h : MolIso π m m') (hm : m.wf = true) (hm' : m'.wf = true) (r : List Nat) :
    MolIso π (Arom.aromStep m r) (Arom.aromStep m' (r.map π)) := by
  unfold Arom.aromStep
  rw [h.eligible hm hm']
  split
  · exact h.setAromatic r
  · exact h

theorem wf_aromStep (m : Mol) (r : List Nat) (h : m.wf = true) : (Arom.aromStep m r).wf = true := by
  unfold Arom.aromStep
  split
  · exact PGA.Decompose.wf_setAromatic m r h
  · exact h

theorem MolIso.aromatizeRings (rs : List (List Nat)) : ∀ {m m' : Mol}, MolIso π m m' → m.wf = true → m'.wf = true →
    MolIso π (Arom.aromatizeRings rs m) (Arom.aromatizeRings (rs.map (List.map π)) m') := by
  induction rs with
  | nil => intro m m' h _ _; exact h
  | cons r rs ih =>
    intro m m' h hm hm'
    unfold Arom.aromatizeRings at ih ⊢
    simp only [List.map_cons, List.foldl_cons]
    exact ih (h.aromStep hm hm' r) (wf_aromStep m r hm) (wf_aromStep m' _ hm')

theorem MolIso.aromatizeBenson (h : MolIso π m m') (hm : m.wf = true) (hm' : m'.wf = true) :
    MolIso π (aromatizeBenson m) (aromatizeBenson m') := by
  unfold PGA.aromatizeBenson
  rw [h.rings]
  exact MolIso.aromatizeRings m.rings h hm hm'

/-- a renumbering of a well-formed graph is well-formed -/
theorem MolIso.wf (h : MolIso π m m') (hm : m.wf = true) : m'.wf = true := by
  obtain ⟨w1, w2, _⟩ := PGA.Match.wf_bonds m hm
  have hm0 := hm
  unfold Mol.wf at hm ⊢
  simp only [Bool.and_eq_true, List.all_eq_true, decide_eq_true_eq] at hm ⊢
  obtain ⟨⟨_, _⟩, h3⟩ := hm
  refine ⟨⟨?_, ?_⟩, ?_⟩
  · intro e' he'
    obtain ⟨e, he, rfl⟩ := List.mem_map.1 (h.bonds.mem_iff.1 he')
    obtain ⟨a1, a2, a3⟩ := w1 e he
    rw [h.natoms]
    simp only [relabelBond, Bool.and_eq_true, decide_eq_true_eq, bne_iff_ne, ne_eq]
    exact ⟨⟨(h.range _).2 a1, (h.range _).2 a2⟩, fun hh => a3 (h.inj hh)⟩
  · have hp := pairwise_relabel h.inj _ w2
    have hsymm : ∀ (e e' : Bond), e'.joins e.a e.b = false → e.joins e'.a e'.b = false := by
      intro e e' hh
      cases hc : e.joins e'.a e'.b
      · rfl
      · exfalso
        have : e'.joins e.a e.b = true := by
          unfold Bond.joins at hc ⊢
          simp only [Bool.or_eq_true, Bool.and_eq_true, beq_iff_eq] at hc ⊢
          rcases hc with ⟨c1, c2⟩ | ⟨c1, c2⟩
          · exact Or.inl ⟨c1.symm, c2.symm⟩
          · exact Or.inr ⟨c2.symm, c1.symm⟩
        rw [hh] at this; cases this
    have := (h.bonds.pairwise_iff (fun {a b} hab => hsymm a b hab)).2 hp
    exact this.imp (by intro a b hab; simpa using hab)
  · intro r' hr'
    rw [h.rings] at hr'
    obtain ⟨r, hr, rfl⟩ := List.mem_map.1 hr'
    obtain ⟨n1, n2⟩ := h3 r hr
    refine ⟨(List.nodup_map_iff h.inj).2 n1, ?_⟩
    intro x hx
    obtain ⟨y, hy, rfl⟩ := List.mem_map.1 hx
    rw [h.natoms]
    exact (h.range y).2 (n2 y hy)

end PGA.Spec
