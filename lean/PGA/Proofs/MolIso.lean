import PGA.Proofs.EmbedsMap
import PGA.Proofs.Aromatize
import PGA.Proofs.Neighbours
import PGA.Proofs.SchemeRelabel
import Mathlib.Algebra.BigOperators.Group.List.Basic
/-! A renumbering of the atoms of a graph (`Spec.MolIso`): it is an `OpenMap`, it keeps every molecule-level prefix, and
the Benson perception commutes with it. -/
namespace PGA.Spec
open PGA PGA.Arom

variable {π : Nat → Nat} {m m' : Mol}

theorem joins_relabel (hinj : Function.Injective π) (e : Bond) (x y : Nat) :
    (relabelBond π e).joins (π x) (π y) = e.joins x y := by
  unfold Bond.joins relabelBond
  simp only
  rw [Bool.eq_iff_iff]
  simp only [Bool.or_eq_true, Bool.and_eq_true, beq_iff_eq]
  constructor
  · rintro (⟨a, b⟩ | ⟨a, b⟩)
    · exact Or.inl ⟨hinj a, hinj b⟩
    · exact Or.inr ⟨hinj a, hinj b⟩
  · rintro (⟨a, b⟩ | ⟨a, b⟩)
    · exact Or.inl ⟨by rw [a], by rw [b]⟩
    · exact Or.inr ⟨by rw [a], by rw [b]⟩

theorem touches_relabel (hinj : Function.Injective π) (e : Bond) (x : Nat) :
    (relabelBond π e).touches (π x) = e.touches x := by
  unfold Bond.touches relabelBond
  simp only
  rw [Bool.eq_iff_iff]
  simp only [Bool.or_eq_true, beq_iff_eq]
  constructor
  · rintro (a | a)
    · exact Or.inl (hinj a)
    · exact Or.inr (hinj a)
  · rintro (a | a)
    · exact Or.inl (by rw [a])
    · exact Or.inr (by rw [a])

theorem other_relabel (hinj : Function.Injective π) (e : Bond) (x : Nat) :
    (relabelBond π e).other (π x) = π (e.other x) := by
  unfold Bond.other relabelBond
  simp only
  by_cases h : e.a = x
  · simp [h]
  · have : π e.a ≠ π x := fun hh => h (hinj hh)
    simp [h, this]

theorem MolIso.bondBetween (h : MolIso π m m') (x y : Nat) :
    m'.bondBetween (π x) (π y) = (m.bondBetween x y).map (relabelBond π) := by
  unfold Mol.bondBetween
  rw [h.bonds, List.find?_map]
  congr 2
  funext e
  exact joins_relabel h.inj e x y

theorem MolIso.atom? (h : MolIso π m m') (x : Nat) : m'.atom? (π x) = m.atom? x := h.atoms x

theorem mem_map_inj (hinj : Function.Injective π) (r : List Nat) (x : Nat) : π x ∈ r.map π ↔ x ∈ r := by
  simp only [List.mem_map]
  constructor
  · rintro ⟨y, hy, he⟩; rwa [← hinj he]
  · intro hx; exact ⟨x, hx, rfl⟩

theorem MolIso.ringsThrough (h : MolIso π m m') (x : Nat) :
    ringsThrough m' (π x) = (ringsThrough m x).map (List.map π) := by
  unfold Spec.ringsThrough
  rw [h.rings, List.filter_map]
  congr 1
  apply List.filter_congr
  intro r _
  simp only [Function.comp]
  rw [Bool.eq_iff_iff, decide_eq_true_eq, decide_eq_true_eq]
  exact mem_map_inj h.inj r x

theorem MolIso.openMap (h : MolIso π m m') (hm : m.wf = true) : OpenMap π m m' := by
  refine ⟨h.inj, fun x _ => h.atom? x, fun x y _ _ => h.bondBetween x y, ?_, ?_, fun x _ => h.ringsThrough x⟩
  · intro x y' e' hx hb
    obtain ⟨y, rfl⟩ := h.surj y'
    refine ⟨y, ?_, rfl⟩
    rw [h.bondBetween] at hb
    cases hbm : m.bondBetween x y with
    | none => rw [hbm] at hb; cases hb
    | some e =>
      have he : e ∈ m.bonds := by unfold Mol.bondBetween at hbm; exact List.mem_of_find?_eq_some hbm
      have hj : e.joins x y = true := by
        unfold Mol.bondBetween at hbm; exact List.find?_some (p := fun e : Bond => e.joins x y) hbm
      obtain ⟨hw, _, _⟩ := PGA.Match.wf_bonds m hm
      obtain ⟨ha, hb', _⟩ := hw e he
      unfold Bond.joins at hj
      simp only [Bool.or_eq_true, Bool.and_eq_true, beq_iff_eq] at hj
      rcases hj with ⟨_, h2⟩ | ⟨h1, _⟩
      · omega
      · omega
  · intro x _
    rw [h.bonds]
    constructor
    · rintro ⟨e', he', ht, hk⟩
      obtain ⟨e, he, rfl⟩ := List.mem_map.1 he'
      exact ⟨e, he, by rwa [touches_relabel h.inj] at ht, hk⟩
    · rintro ⟨e, he, ht, hk⟩
      exact ⟨relabelBond π e, List.mem_map.2 ⟨e, he, rfl⟩, by rwa [touches_relabel h.inj], hk⟩

/-! ### molecule-level prefixes -/
theorem MolIso.atoms_lookup (h : MolIso π m m') :
    ((List.range m.natoms).map (fun j => m'.atoms[j]?)).Perm ((List.range m.natoms).map (fun i => m.atoms[i]?)) := by
  have hp := (PGA.Scheme.range_map_perm m.natoms h.inj h.range).symm
  have := hp.map (fun j => m'.atoms[j]?)
  rw [List.map_map] at this
  have e : ((fun j => m'.atoms[j]?) ∘ π) = fun i => m.atoms[i]? := by funext i; exact h.atoms i
  rw [e] at this
  exact this

theorem map_lookup_range (l : List Atom) : (List.range l.length).map (fun i => l[i]?) = l.map some := by
  apply List.ext_getElem?
  intro i
  simp only [List.getElem?_map, List.getElem?_range]
  by_cases hi : i < l.length
  · simp [hi]
  · simp [hi, List.getElem?_eq_none_iff.2 (Nat.le_of_not_lt hi)]

theorem MolIso.atoms_perm (h : MolIso π m m') : (m'.atoms.map some).Perm (m.atoms.map some) := by
  have := h.atoms_lookup
  have hn : m'.atoms.length = m.atoms.length := h.natoms
  rw [← map_lookup_range m'.atoms, ← map_lookup_range m.atoms, hn]
  exact this

theorem MolIso.atoms_perm' (h : MolIso π m m') : m'.atoms.Perm m.atoms := by
  have := h.atoms_perm
  exact (List.map_perm_map_iff (Option.some_injective _)).1 this

theorem MolIso.molPrefix (h : MolIso π m m') (p : MolPrefix) : MolPrefixHolds m' p ↔ MolPrefixHolds m p := by
  have hperm := h.atoms_perm'
  have htc : m'.totalCharge = m.totalCharge := by
    unfold Mol.totalCharge
    exact (hperm.map _).sum_eq
  have hcc : HasCC m' ↔ HasCC m := by
    unfold HasCC
    rw [h.bonds]
    constructor
    · rintro ⟨e', he', hk, a, b, ha, hb, za, zb⟩
      obtain ⟨e, he, rfl⟩ := List.mem_map.1 he'
      exact ⟨e, he, hk, a, b, by rw [← h.atom? e.a]; exact ha, by rw [← h.atom? e.b]; exact hb, za, zb⟩
    · rintro ⟨e, he, hk, a, b, ha, hb, za, zb⟩
      exact ⟨relabelBond π e, List.mem_map.2 ⟨e, he, rfl⟩, hk, a, b, by rw [← ha]; exact h.atom? e.a,
        by rw [← hb]; exact h.atom? e.b, za, zb⟩
  cases p with
  | positive => simp only [MolPrefixHolds, htc]
  | negative => simp only [MolPrefixHolds, htc]
  | neutral => simp only [MolPrefixHolds, htc]
  | aromatic =>
    simp only [MolPrefixHolds]
    constructor
    · rintro ⟨a, ha, hh⟩; exact ⟨a, hperm.mem_iff.1 ha, hh⟩
    · rintro ⟨a, ha, hh⟩; exact ⟨a, hperm.mem_iff.2 ha, hh⟩
  | olefinic => exact hcc
  | paraffinic => exact not_congr hcc
  | cyclic => simp only [MolPrefixHolds, h.rings, ne_eq, List.map_eq_nil_iff]
  | linear => simp only [MolPrefixHolds, h.rings, List.map_eq_nil_iff]

/-! ### the Benson perception commutes with a renumbering -/
theorem MolIso.isC (h : MolIso π m m') (x : Nat) : Arom.isC m' (π x) = Arom.isC m x := by
  unfold Arom.isC; rw [h.atom?]

theorem MolIso.kindAt (h : MolIso π m m') (x y : Nat) : Arom.kindAt m' (π x) (π y) = Arom.kindAt m x y := by
  unfold Arom.kindAt
  rw [h.bondBetween]
  cases m.bondBetween x y <;> rfl

theorem MolIso.eligible (h : MolIso π m m') (r : List Nat) : Arom.eligible m' (r.map π) = Arom.eligible m r := by
  rcases r with _ | ⟨a0, _ | ⟨a1, _ | ⟨a2, _ | ⟨a3, _ | ⟨a4, _ | ⟨a5, _ | ⟨a6, l⟩⟩⟩⟩⟩⟩⟩ <;> try rfl
  simp only [List.map_cons, List.map_nil]
  rw [eligible_six, eligible_six]
  simp only [h.isC, h.kindAt]

theorem ringEdge_relabel (hinj : Function.Injective π) (r : List Nat) (e : Bond) :
    ringEdge (r.map π) (relabelBond π e) = ringEdge r e := by
  rcases r with _ | ⟨a0, _ | ⟨a1, _ | ⟨a2, _ | ⟨a3, _ | ⟨a4, _ | ⟨a5, _ | ⟨a6, l⟩⟩⟩⟩⟩⟩⟩ <;> try rfl
  simp only [List.map_cons, List.map_nil, ringEdge, edgePairs, List.any_cons, List.any_nil, joins_relabel hinj]

theorem MolIso.setAromatic (h : MolIso π m m') (r : List Nat) :
    MolIso π (Arom.setAromatic m r) (Arom.setAromatic m' (r.map π)) := by
  refine ⟨h.inj, h.surj, ?_, ?_, ?_, ?_, ?_⟩
  · intro i; rw [setAromatic_natoms]; exact h.range i
  · rw [setAromatic_natoms, setAromatic_natoms]; exact h.natoms
  · intro i
    unfold Arom.setAromatic
    simp only [List.getElem?_mapIdx]
    rw [h.atoms i, contains_map_inj h.inj]
  · unfold Arom.setAromatic
    simp only
    rw [h.bonds, List.map_map, List.map_map]
    congr 1
    funext e
    simp only [Function.comp, ringEdge_relabel h.inj]
    split <;> rfl
  · exact h.rings

theorem MolIso.aromStep (h : MolIso π m m') (r : List Nat) :
    MolIso π (Arom.aromStep m r) (Arom.aromStep m' (r.map π)) := by
  unfold Arom.aromStep
  rw [h.eligible]
  split
  · exact h.setAromatic r
  · exact h

theorem MolIso.aromatizeRings (rs : List (List Nat)) : ∀ {m m' : Mol}, MolIso π m m' →
    MolIso π (Arom.aromatizeRings rs m) (Arom.aromatizeRings (rs.map (List.map π)) m') := by
  induction rs with
  | nil => intro m m' h; exact h
  | cons r rs ih =>
    intro m m' h
    unfold Arom.aromatizeRings at ih ⊢
    simp only [List.map_cons, List.foldl_cons]
    exact ih (h.aromStep r)

theorem MolIso.aromatizeBenson (h : MolIso π m m') : MolIso π (aromatizeBenson m) (aromatizeBenson m') := by
  unfold PGA.aromatizeBenson
  rw [h.rings]
  exact MolIso.aromatizeRings m.rings h

end PGA.Spec
