import PGA.Spec.Decompose
import PGA.Spec.Relabel
import PGA.Proofs.Match
import PGA.Proofs.Read
import PGA.Proofs.Aromatize
import PGA.Proofs.SchemeUnion
/-! Composition of the matcher theorem (C08) with the decomposition logic: the input `toInput S m`
built by the end-to-end model *declares* the scheme on `m` in the sense of `Spec.Declares`, and any
two inputs declaring the same scheme on the same graph are related by `Scheme.Relabel … id`. -/
namespace PGA.Decompose
open PGA PGA.Spec PGA.Scheme PGA.Match PGA.Arom

/-! ### the driver's form of the input -/
theorem toInputOfRaws_eq (S : SchemeDef) (m : Mol) :
    toInputOfRaws S m (S.centres.map fun c => rawMatches c.q m) (S.descs.map fun d => rawMatches d.q m) = toInput S m := by
  unfold toInputOfRaws toInput queryMatchesCapped
  congr 1
  · generalize S.centres = cs
    induction cs with
    | nil => rfl
    | cons c cs ih => simp only [List.map_cons, List.zipWith_cons_cons, ih]
  · generalize S.descs = ds
    induction ds with
    | nil => rfl
    | cons d ds ih => simp only [List.map_cons, List.zipWith_cons_cons, ih]

/-! ### the perception keeps a graph well-formed -/
theorem wf_setAromatic (m : Mol) (r : List Nat) (h : m.wf = true) : (setAromatic m r).wf = true := by
  unfold Mol.wf at h ⊢
  simp only [Bool.and_eq_true] at h ⊢
  obtain ⟨⟨h1, h2⟩, h3⟩ := h
  refine ⟨⟨?_, ?_⟩, ?_⟩
  · rw [setAromatic_natoms]
    unfold setAromatic
    simp only [List.all_map]
    rw [List.all_eq_true] at h1 ⊢
    intro e he
    have := h1 e he
    simp only [Function.comp]
    split <;> exact this
  · unfold setAromatic
    simp only
    rw [decide_eq_true_eq] at h2 ⊢
    rw [List.pairwise_map]
    refine h2.imp ?_
    intro e e' hh
    have hj : ∀ (x y : Bond), (if ringEdge r x then { x with kind := BondKind.aromatic } else x).joins
        (if ringEdge r y then { y with kind := BondKind.aromatic } else y).a
        (if ringEdge r y then { y with kind := BondKind.aromatic } else y).b = x.joins y.a y.b := by
      intro x y; cases ringEdge r x <;> cases ringEdge r y <;> rfl
    rw [hj]; exact hh
  · rw [setAromatic_natoms]; exact h3

theorem wf_aromatizeRings (rs : List (List Nat)) (m : Mol) (h : m.wf = true) : (aromatizeRings rs m).wf = true := by
  induction rs generalizing m with
  | nil => exact h
  | cons r rs ih =>
    unfold aromatizeRings at ih ⊢
    simp only [List.foldl_cons]
    apply ih
    unfold aromStep
    split
    · exact wf_setAromatic m r h
    · exact h

theorem wf_aromatizeBenson (m : Mol) (h : m.wf = true) : (aromatizeBenson m).wf = true :=
  wf_aromatizeRings _ _ h

/-! ### loading a scheme yields well-formed queries -/
theorem mapM_ok_mem {α β ε : Type} (f : α → Except ε β) : ∀ (l : List α) (l' : List β),
    l.mapM f = .ok l' → ∀ y ∈ l', ∃ x ∈ l, f x = .ok y := by
  intro l
  induction l with
  | nil => intro l' h y hy; simp [pure, Except.pure] at h; subst h; cases hy
  | cons a l ih =>
    intro l' h y hy
    rw [List.mapM_cons] at h
    simp only [bind, Except.bind, pure, Except.pure] at h
    cases ha : f a with
    | error e => simp [ha] at h
    | ok b =>
      simp only [ha] at h
      cases hl : l.mapM f with
      | error e => simp [hl] at h
      | ok bs =>
        simp only [hl, Except.ok.injEq] at h
        subst h
        rcases List.mem_cons.1 hy with rfl | hy
        · exact ⟨a, List.mem_cons_self, ha⟩
        · obtain ⟨x, hx, hfx⟩ := ih bs hl y hy
          exact ⟨x, List.mem_cons_of_mem _ hx, hfx⟩

theorem readFragment_wf (t : Ast) (q : Query) (h : readFragment t = .ok q) : q.wf = true := by
  unfold readFragment at h
  simp only [bind, Except.bind] at h
  cases hf : Frag.ofAst t with
  | error e => simp [hf] at h
  | ok f => simp only [hf] at h; exact Read.frag_wf f q h

theorem load_wf (src : SchemeSrc) (S : SchemeDef) (h : src.load = .ok S) : S.wf = true := by
  unfold SchemeSrc.load at h
  simp only [bind, Except.bind, pure, Except.pure] at h
  cases hc : src.centres.mapM readCentre with
  | error e => simp [hc] at h
  | ok cs =>
    simp only [hc] at h
    cases hd : src.descs.mapM readDesc with
    | error e => simp [hd] at h
    | ok ds =>
      simp only [hd, Except.ok.injEq] at h
      subst h
      unfold SchemeDef.wf
      simp only [Bool.and_eq_true, List.all_eq_true]
      constructor
      · intro c hcm
        obtain ⟨x, _, hx⟩ := mapM_ok_mem readCentre _ _ hc c hcm
        unfold readCentre at hx
        simp only [bind, Except.bind, pure, Except.pure] at hx
        cases hr : readFragment x.2.2 with
        | error e => simp [hr] at hx
        | ok q => simp only [hr, Except.ok.injEq] at hx; subst hx; exact readFragment_wf _ _ hr
      · intro d hdm
        obtain ⟨x, _, hx⟩ := mapM_ok_mem readDesc _ _ hd d hdm
        unfold readDesc at hx
        simp only [bind, Except.bind, pure, Except.pure] at hx
        cases hr : readFragment x.2 with
        | error e => simp [hr] at hx
        | ok q => simp only [hr, Except.ok.injEq] at hx; subst hx; exact readFragment_wf _ _ hr

/-! ### the cap -/
theorem foldl_max_le (l : List Nat) : ∀ (a : Nat) (x : Nat), x ∈ l → x ≤ l.foldl max a := by
  induction l with
  | nil => intro a x hx; cases hx
  | cons y l ih =>
    intro a x hx
    simp only [List.foldl_cons]
    rcases List.mem_cons.1 hx with rfl | hx
    · have : ∀ (l : List Nat) (b : Nat), b ≤ l.foldl max b := by
        intro l
        induction l with
        | nil => intro b; exact Nat.le_refl _
        | cons z l ih2 => intro b; simp only [List.foldl_cons]; exact Nat.le_trans (Nat.le_max_left _ _) (ih2 _)
      exact Nat.le_trans (Nat.le_max_right _ _) (this l _)
    · exact ih _ x hx

theorem raw_lt_of_maxRaw (S : SchemeDef) (m : Mol) (h : maxRaw S m < maxMatches) :
    (∀ c ∈ S.centres, (rawMatches c.q m).length < maxMatches) ∧ (∀ d ∈ S.descs, (rawMatches d.q m).length < maxMatches) := by
  unfold maxRaw at h
  constructor
  · intro c hc
    refine Nat.lt_of_le_of_lt (foldl_max_le _ 0 _ ?_) h
    exact List.mem_append_left _ (List.mem_map.2 ⟨c, hc, rfl⟩)
  · intro d hd
    refine Nat.lt_of_le_of_lt (foldl_max_le _ 0 _ ?_) h
    exact List.mem_append_right _ (List.mem_map.2 ⟨d, hd, rfl⟩)

theorem mem_capped (q : Query) (m : Mol) (f : List Nat) (hq : q.wf = true) (hm : m.wf = true) (hs : NoStar q = true)
    (hcap : (rawMatches q m).length < maxMatches) : f ∈ queryMatchesCapped q m ↔ Embeds q m f := by
  have : queryMatchesCapped q m = queryMatches q m := by
    unfold queryMatchesCapped queryMatches
    rw [List.take_of_length_le (Nat.le_of_lt hcap)]
  rw [this]; exact mem_queryMatches q m f hq hm hs

/-! ### the model's input declares the scheme -/
theorem forall₂_map_right {α β : Type} (R : α → β → Prop) (g : α → β) : ∀ (l : List α), (∀ a ∈ l, R a (g a)) →
    List.Forall₂ R l (l.map g) := by
  intro l
  induction l with
  | nil => intro _; exact List.Forall₂.nil
  | cons a l ih =>
    intro h
    exact List.Forall₂.cons (h a List.mem_cons_self) (ih fun b hb => h b (List.mem_cons_of_mem _ hb))

theorem neighbours_nil_of_ge (m : Mol) (hm : m.wf = true) (i : Nat) (hi : m.natoms ≤ i) : neighbours m i = [] := by
  unfold neighbours Mol.bondsOf
  have : m.bonds.filter (·.touches i) = [] := by
    rw [List.filter_eq_nil_iff]
    intro e he
    unfold Mol.wf at hm
    simp only [Bool.and_eq_true, List.all_eq_true, decide_eq_true_eq] at hm
    have := hm.1.1 e he
    unfold Bond.touches
    simp only [Bool.or_eq_true, beq_iff_eq, not_or]
    constructor <;> omega
  rw [this]; rfl

theorem toInput_declares (S : SchemeDef) (m : Mol) (hm : m.wf = true) (hq : S.wf = true) (hs : S.noStar = true)
    (hcap : maxRaw S m < maxMatches) : Declares S m (toInput S m) := by
  obtain ⟨capC, capD⟩ := raw_lt_of_maxRaw S m hcap
  unfold SchemeDef.wf at hq
  unfold SchemeDef.noStar at hs
  simp only [Bool.and_eq_true, List.all_eq_true] at hq hs
  refine ⟨rfl, ?_, ?_, ?_, rfl⟩
  · intro i
    unfold toInput
    simp only
    by_cases hi : i < m.natoms
    · have : ((List.range m.natoms).map (neighbours m)).getD i [] = neighbours m i := by
        simp [List.getD, hi]
      rw [this]
    · have : ((List.range m.natoms).map (neighbours m)).getD i [] = [] := by
        simp [List.getD, hi]
      rw [this, neighbours_nil_of_ge m hm i (by omega)]
  · unfold toInput
    simp only
    apply forall₂_map_right
    intro c hc
    exact ⟨rfl, rfl, fun f => mem_capped c.q m f (hq.1 c hc) hm (hs.1 c hc) (capC c hc)⟩
  · unfold toInput
    simp only
    apply forall₂_map_right
    intro d hd
    exact ⟨rfl, fun f => mem_capped d.q m f (hq.2 d hd) hm (hs.2 d hd) (capD d hd)⟩

/-! ### two inputs declaring the same thing differ by a `Relabel … id` -/
theorem forall₂_comp {α β γ : Type} {R : α → β → Prop} {R' : α → γ → Prop} {T : β → γ → Prop}
    (h : ∀ a b c, R a b → R' a c → T b c) : ∀ {l : List α} {l1 : List β} {l2 : List γ},
    List.Forall₂ R l l1 → List.Forall₂ R' l l2 → List.Forall₂ T l1 l2 := by
  intro l l1 l2 h1
  induction h1 generalizing l2 with
  | nil => intro h2; cases h2; exact List.Forall₂.nil
  | cons hab _ ih =>
    intro h2
    cases h2 with
    | cons hac h2' => exact List.Forall₂.cons (h _ _ _ hab hac) (ih h2')

theorem declares_relabel (S : SchemeDef) (m : Mol) (inp inp' : Input) (h : Declares S m inp) (h' : Declares S m inp') :
    Relabel inp inp' id := by
  refine ⟨fun _ _ h => h, fun y => ⟨y, rfl⟩, by rw [h.n, h'.n], fun _ => Iff.rfl, ?_, ?_, ?_, by rw [h.remaps, h'.remaps]⟩
  · intro i
    rw [List.map_id]
    exact (h'.nbrs i).trans (h.nbrs i).symm
  · refine forall₂_comp ?_ h.centres h'.centres
    intro c p p' ⟨hc, hp, hm⟩ ⟨hc', hp', hm'⟩
    refine ⟨hc'.trans hc.symm, hp'.trans hp.symm, fun i => ?_⟩
    simp only [id, mem_firstAtoms]
    constructor
    · rintro ⟨f, hf, hh⟩; exact ⟨f, (hm f).2 ((hm' f).1 hf), hh⟩
    · rintro ⟨f, hf, hh⟩; exact ⟨f, (hm' f).2 ((hm f).1 hf), hh⟩
  · refine forall₂_comp ?_ h.descs h'.descs
    intro d p p' ⟨hn, hm⟩ ⟨hn', hm'⟩
    refine ⟨hn'.trans hn.symm, ?_⟩
    have : (Finset.image id : Finset Nat → Finset Nat) = id := by funext s; simp
    rw [this, Finset.image_id]
    ext s
    simp only [List.mem_toFinset, List.mem_map]
    constructor
    · rintro ⟨f, hf, rfl⟩; exact ⟨f, (hm f).2 ((hm' f).1 hf), rfl⟩
    · rintro ⟨f, hf, rfl⟩; exact ⟨f, (hm' f).2 ((hm f).1 hf), rfl⟩

end PGA.Decompose
