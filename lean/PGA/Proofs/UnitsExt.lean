import PGA.Spec.SIExt
import PGA.Proofs.UnitsDen
/-!
# Growing a unit table: what a new unit may not change (general lemmas for C10)

`lookup_extend`: adding a unit none of whose spellings (bare, or with a prefix of the table) had a meaning leaves
the meaning of every name that had one unchanged; `evalTree_extend` / `evalStr_extend`: hence the value of every
expression that had one.  `judgeAll_conservative`: the units `PGA.SI.judgeAll` accepts are of that kind, whatever
the definitions are — so the extended reference is a conservative extension of the reference *by construction*.
`evalTree_congr`: two tables that agree on the names an expression mentions agree on the expression.
-/
namespace PGA.Units

/-- the first, else the second -/
def orElse' {α} : Option α → Option α → Option α
  | some x, _ => some x
  | none, b => b

theorem Table.find_append {α} (t : Table α) (n k : Name) (v : α) :
    Table.find (t ++ [(n, v)]) k = orElse' (Table.find t k) (if n = k then some v else none) := by
  induction t with
  | nil => simp [Table.find, orElse']
  | cons kv rest ih =>
    obtain ⟨k', w⟩ := kv
    simp only [List.cons_append, Table.find]
    split
    · rfl
    · exact ih

/-- no spelling of `n` — bare, or with a prefix of `c` — has a meaning over `c` -/
def Fresh (c : Cfg) (n : Name) : Prop :=
  ∀ p : Name, (p = [] ∨ (c.prefixes.find p).isSome = true) → ∀ w, lookup c (p ++ n) ≠ .ok w

/-- `units_db.add(n, v)` for a name that is not in the table -/
def addUnit (c : Cfg) (n : Name) (v : Val) : Cfg := { c with db := c.db ++ [(n, v)] }

/-- one prefix step of `UnitsDB.lookup` -/
def lookupStep (thr : Rat) (a : Option Val) (b : Option Rat) (k : Res Val) : Res Val :=
  match a, b with
  | some v, some p => .ok (scale thr p v)
  | _, _ => k

theorem lookup_eq (c : Cfg) (s : Name) :
    lookup c s =
      match c.db.find s with
      | some v => .ok v
      | none => lookupStep c.thr (c.db.find (s.drop 1)) (c.prefixes.find (s.take 1))
          (lookupStep c.thr (c.db.find (s.drop 2)) (c.prefixes.find (s.take 2)) perr) := by
  unfold lookup lookupStep
  rfl

theorem lookupStep_none_left (thr : Rat) (b : Option Rat) (k : Res Val) : lookupStep thr none b k = k := by
  unfold lookupStep; split <;> simp_all

theorem lookupStep_none_right (thr : Rat) (a : Option Val) (k : Res Val) : lookupStep thr a none k = k := by
  unfold lookupStep; split <;> simp_all

/-- the table after `addUnit` finds what the table found, and the new name -/
theorem find_addUnit (c : Cfg) (n : Name) (v : Val) (k : Name) :
    (addUnit c n v).db.find k = orElse' (c.db.find k) (if n = k then some v else none) :=
  Table.find_append _ _ _ _

/-- one step over the grown table, when the spelling it would newly resolve is not the one looked up -/
theorem lookupStep_addUnit {c : Cfg} {n : Name} (v : Val) {s : Name} (i : Nat)
    (hns : (c.prefixes.find (s.take i)).isSome = true → s.take i ++ n ≠ s) (k k' : Res Val) (w : Val)
    (hk : k = .ok w → k' = .ok w)
    (h : lookupStep c.thr (c.db.find (s.drop i)) (c.prefixes.find (s.take i)) k = .ok w) :
    lookupStep c.thr ((addUnit c n v).db.find (s.drop i)) (c.prefixes.find (s.take i)) k' = .ok w := by
  rw [find_addUnit]
  cases h1 : c.db.find (s.drop i) with
  | some x =>
    rw [h1] at h
    cases h2 : c.prefixes.find (s.take i) with
    | some p => rw [h2] at h; exact h
    | none => rw [h2, lookupStep_none_right] at h; rw [lookupStep_none_right]; exact hk h
  | none =>
    rw [h1, lookupStep_none_left] at h
    cases h2 : c.prefixes.find (s.take i) with
    | none => rw [lookupStep_none_right]; exact hk h
    | some p =>
      have : n ≠ s.drop i := by
        intro he
        apply hns (by simp [h2])
        rw [he, List.take_append_drop]
      simp only [this, if_false]
      exact hk h

/-- **a fresh unit changes no meaning**: every name that resolves over `c` (as a unit, a one-letter prefix and a
unit, or `da` and a unit) resolves to the same value after a unit whose spellings were all free has been added -/
theorem lookup_extend {c : Cfg} {n : Name} (v : Val) (hf : Fresh c n) {s : Name} {w : Val}
    (h : lookup c s = .ok w) : lookup (addUnit c n v) s = .ok w := by
  have hns : ∀ p, (p = [] ∨ (c.prefixes.find p).isSome = true) → p ++ n ≠ s :=
    fun p hp he => hf p hp w (he ▸ h)
  have hn : n ≠ s := by simpa using hns [] (Or.inl rfl)
  rw [lookup_eq] at h ⊢
  rw [find_addUnit]
  cases h0 : c.db.find s with
  | some x => rw [h0] at h; exact h
  | none =>
    rw [h0] at h
    simp only [hn, if_false]
    have hthr : (addUnit c n v).thr = c.thr := rfl
    have hpre : (addUnit c n v).prefixes = c.prefixes := rfl
    rw [hthr, hpre]
    refine lookupStep_addUnit v 1 (fun hp => hns _ (Or.inr hp)) _ _ w (fun hk => ?_) h
    exact lookupStep_addUnit v 2 (fun hp => hns _ (Or.inr hp)) _ _ w (fun hk => hk) hk

/-- `c'` gives every name that has a meaning over `c` the same meaning, with the same snapping threshold -/
def Conservative (c c' : Cfg) : Prop :=
  c'.thr = c.thr ∧ ∀ s w, lookup c s = .ok w → lookup c' s = .ok w

theorem Conservative.refl (c : Cfg) : Conservative c c := ⟨rfl, fun _ _ h => h⟩

theorem Conservative.trans {a b c : Cfg} (h1 : Conservative a b) (h2 : Conservative b c) : Conservative a c :=
  ⟨h2.1.trans h1.1, fun s w h => h2.2 s w (h1.2 s w h)⟩

theorem conservative_addUnit {c : Cfg} {n : Name} (v : Val) (hf : Fresh c n) : Conservative c (addUnit c n v) :=
  ⟨rfl, fun _ _ h => lookup_extend v hf h⟩

/-- **every expression keeps its value**: a tree of any size that evaluates over `c` evaluates to the same value
over a conservative extension of `c` -/
theorem evalTree_extend {c c' : Cfg} (hc : Conservative c c') (t : Tree) (w : Val)
    (h : evalTree c t = .ok w) : evalTree c' t = .ok w := by
  induction t generalizing w with
  | num q => simpa [evalTree] using h
  | name s => exact hc.2 s w (by simpa [evalTree] using h)
  | mul a b iha ihb =>
    cases ha : evalTree c a with
    | error e => simp [evalTree, ha, bind, Except.bind] at h
    | ok x =>
      cases hb : evalTree c b with
      | error e => simp [evalTree, ha, hb, bind, Except.bind] at h
      | ok y =>
        simp only [evalTree, ha, hb, bind, Except.bind] at h
        simp only [evalTree, iha x ha, ihb y hb, bind, Except.bind, hc.1]
        exact h
  | div a b iha ihb =>
    cases ha : evalTree c a with
    | error e => simp [evalTree, ha, bind, Except.bind] at h
    | ok x =>
      cases hb : evalTree c b with
      | error e => simp [evalTree, ha, hb, bind, Except.bind] at h
      | ok y =>
        simp only [evalTree, ha, hb, bind, Except.bind] at h
        simp only [evalTree, iha x ha, ihb y hb, bind, Except.bind, hc.1]
        exact h
  | pow a e iha =>
    cases ha : evalTree c a with
    | error e' => simp [evalTree, ha, bind, Except.bind] at h
    | ok x =>
      simp only [evalTree, ha, bind, Except.bind] at h
      simp only [evalTree, iha x ha, bind, Except.bind, hc.1]
      exact h

/-- the same for texts (scanner and parser do not look at the table) -/
theorem evalStr_extend {c c' : Cfg} (hc : Conservative c c') (s : List Char) (w : Val)
    (h : evalStr c s = .ok w) : evalStr c' s = .ok w := by
  simp only [evalStr, evalTokens, bind, Except.bind] at h ⊢
  cases hp : parseTokens (lex s) with
  | error e => rw [hp] at h; simp at h
  | ok t => rw [hp] at h; exact evalTree_extend hc t w h

/-- the names a tree mentions -/
def Tree.names : Tree → List Name
  | .num _ => []
  | .name s => [s]
  | .mul a b => a.names ++ b.names
  | .div a b => a.names ++ b.names
  | .pow a _ => a.names

/-- two tables with the same threshold that agree on the names of a tree agree on the tree (value or error) -/
theorem evalTree_congr {c c' : Cfg} (ht : c'.thr = c.thr) (t : Tree)
    (h : ∀ s ∈ t.names, lookup c' s = lookup c s) : evalTree c' t = evalTree c t := by
  induction t with
  | num q => rfl
  | name s => exact h s (by simp [Tree.names])
  | mul a b iha ihb =>
    have ha := iha (fun s hs => h s (by simp [Tree.names, hs]))
    have hb := ihb (fun s hs => h s (by simp [Tree.names, hs]))
    simp only [evalTree, ha, hb, ht]
  | div a b iha ihb =>
    have ha := iha (fun s hs => h s (by simp [Tree.names, hs]))
    have hb := ihb (fun s hs => h s (by simp [Tree.names, hs]))
    simp only [evalTree, ha, hb, ht]
  | pow a e iha =>
    have ha := iha (fun s hs => h s (by simp [Tree.names, hs]))
    simp only [evalTree, ha, ht]

end PGA.Units

namespace PGA.SI
open PGA.Units

theorem cfgOf_append (refs : List Ref) (r : Ref) :
    cfgOf (refs ++ [r]) = addUnit (cfgOf refs) r.name ⟨.exact r.value, r.dim⟩ := by
  simp [cfgOf, addUnit]

theorem prefix_mem {p : Name} (refs : List Ref) (h : ((cfgOf refs).prefixes.find p).isSome = true) :
    ∃ pk ∈ prefixes, pk.1 = p := by
  cases hf : (cfgOf refs).prefixes.find p with
  | none => rw [hf] at h; simp at h
  | some x =>
    have := Table.find_mem _ _ _ hf
    simp only [cfgOf, List.mem_map] at this
    obtain ⟨pk, hm, he⟩ := this
    exact ⟨pk, hm, by injection he⟩

/-- what `firstTaken = none` means -/
theorem fresh_of_firstTaken {refs : List Ref} {n : Name} (h : firstTaken refs n = none) : Fresh (cfgOf refs) n := by
  intro p hp w hl
  have hall := List.find?_eq_none.mp h
  have hm : p ++ n ∈ ownSpellings n := by
    rcases hp with rfl | hp
    · simp [ownSpellings]
    · obtain ⟨pk, hk, he⟩ := prefix_mem refs hp
      simp only [ownSpellings, List.mem_cons, List.mem_map]
      exact Or.inr ⟨pk, hk, by rw [he]⟩
  have := hall _ hm
  simp [hasMeaning, hl] at this

theorem judge_word {refs : List Ref} {n : Name} {df : Defn} {r : Ref} (h : judge refs n df = .accepted r) :
    judgeWord refs n df = .accepted r := by
  unfold judge at h
  split at h
  · exact h
  · simp at h

theorem judge_accepted {refs : List Ref} {n : Name} {df : Defn} {r : Ref} (h : judge refs n df = .accepted r) :
    firstTaken refs n = none ∧ r.name = n := by
  have h := judge_word h
  unfold judgeWord at h
  split at h
  · simp at h
  · next hft =>
    refine ⟨hft, ?_⟩
    split at h
    · simp at h
    · split at h
      · injection h with h; rw [← h]
      · simp at h
    · simp at h

/-- **by construction**: whatever the definitions are, the units `judgeAll` accepts leave every meaning unchanged -/
theorem judgeAll_conservative (defs : List (Name × Defn)) :
    ∀ refs, Conservative (cfgOf refs) (cfgOf (refs ++ acceptedOf (judgeAll refs defs))) := by
  induction defs with
  | nil => intro refs; simp only [judgeAll, acceptedOf, List.append_nil]; exact Conservative.refl _
  | cons nd rest ih =>
    intro refs
    obtain ⟨n, df⟩ := nd
    simp only [judgeAll]
    split
    · exact ih refs
    · cases hj : judge refs n df with
      | accepted r =>
        obtain ⟨hft, hname⟩ := judge_accepted hj
        simp only [acceptedOf, grow]
        have h1 : Conservative (cfgOf refs) (cfgOf (refs ++ [r])) := by
          rw [cfgOf_append, hname]
          exact conservative_addUnit _ (fresh_of_firstTaken hft)
        have h2 := ih (refs ++ [r])
        rw [List.append_assoc, List.singleton_append] at h2
        exact h1.trans h2
      | ambiguous s => simp only [acceptedOf, grow]; exact ih refs
      | badDefinition e => simp only [acceptedOf, grow]; exact ih refs
      | unsupported => simp only [acceptedOf, grow]; exact ih refs
      | notAWord => simp only [acceptedOf, grow]; exact ih refs

theorem defValue_text {refs : List Ref} {s : List Char} {v : Val} {tol : Rat}
    (h : defValue refs (.text s) = .ok (v, tol)) : evalStr (cfgOf refs) s = .ok v := by
  simp only [defValue] at h
  simp only [evalStr, evalTokens, bind, Except.bind]
  split at h
  · simp at h
  · next t ht =>
    rw [ht]
    simp only
    split at h
    · simp at h
    · next v' hv =>
      injection h with h
      injection h with h1 h2
      rw [hv, h1]

theorem judge_accepted_value {refs : List Ref} {n : Name} {df : Defn} {r : Ref} (h : judge refs n df = .accepted r) :
    ∃ tol, defValue refs df = .ok (⟨.exact r.value, r.dim⟩, tol) := by
  have h := judge_word h
  unfold judgeWord at h
  split at h
  · simp at h
  · split at h
    · simp at h
    · next q d tol hd =>
      split at h
      · injection h with h; rw [← h]; exact ⟨tol, hd⟩
      · simp at h
    · simp at h

theorem acceptedOf_cons_grow (refs : List Ref) (n : Name) (df : Defn) (v : Verdict) (tl : List (Name × Defn × Verdict)) :
    refs ++ acceptedOf ((n, df, v) :: tl) = grow refs v ++ acceptedOf tl := by
  cases v <;> simp [acceptedOf, grow]

/-- **by construction**: every accepted new unit that is defined by a string means, over the *final* table, what its
definition string evaluates to over the final table (the definition is read over the table as it was when the unit
was accepted, and nothing accepted afterwards changes what it evaluates to) -/
theorem judgeAll_defined (defs : List (Name × Defn)) :
    ∀ refs, ∀ x ∈ judgeAll refs defs, ∀ s r, x.2.1 = .text s → x.2.2 = .accepted r →
      evalStr (cfgOf (refs ++ acceptedOf (judgeAll refs defs))) s = .ok ⟨.exact r.value, r.dim⟩ ∧ r.name = x.1 := by
  induction defs with
  | nil => intro refs x hx; simp [judgeAll] at hx
  | cons nd rest ih =>
    intro refs x hx s r hs hr
    obtain ⟨n, df⟩ := nd
    have hc := judgeAll_conservative ((n, df) :: rest) refs
    by_cases hk : (find n).isSome = true
    · simp only [judgeAll, hk, if_true] at hx ⊢
      exact ih refs x hx s r hs hr
    · simp only [judgeAll, hk] at hx hc ⊢
      simp only [Bool.false_eq_true, if_false] at hx hc ⊢
      rcases List.mem_cons.mp hx with rfl | hx
      · simp only at hs hr
        subst hs
        obtain ⟨tol, hd⟩ := judge_accepted_value hr
        exact ⟨evalStr_extend hc s _ (defValue_text hd), (judge_accepted hr).2⟩
      · rw [acceptedOf_cons_grow]
        exact ih _ x hx s r hs hr

theorem judgeAll_name (defs : List (Name × Defn)) :
    ∀ refs, ∀ x ∈ judgeAll refs defs, ∀ r, x.2.2 = .accepted r → r.name = x.1 := by
  induction defs with
  | nil => intro refs x hx; simp [judgeAll] at hx
  | cons nd rest ih =>
    intro refs x hx r hr
    obtain ⟨n, df⟩ := nd
    by_cases hk : (find n).isSome = true
    · simp only [judgeAll, hk, if_true] at hx
      exact ih refs x hx r hr
    · simp only [judgeAll, hk, Bool.false_eq_true, if_false] at hx
      rcases List.mem_cons.mp hx with rfl | hx
      · exact (judge_accepted hr).2
      · exact ih _ x hx r hr

/-- the extended reference gives every name the reference gives a meaning the same meaning -/
theorem ext_conservative : Conservative (cfgOf units) extCfg := judgeAll_conservative liveDefs units

/-- every accepted new unit of the working tree means what its definition string evaluates to over the extended
reference -/
theorem ext_defined : ∀ x ∈ liveVerdicts, ∀ s r, x.2.1 = .text s → x.2.2 = .accepted r →
    evalStr extCfg s = .ok ⟨.exact r.value, r.dim⟩ ∧ r.name = x.1 := judgeAll_defined liveDefs units

theorem ext_name : ∀ x ∈ liveVerdicts, ∀ r, x.2.2 = .accepted r → r.name = x.1 := judgeAll_name liveDefs units

theorem mem_acceptedOf {vs : List (Name × Defn × Verdict)} {n : Name} {df : Defn} {r : Ref}
    (h : (n, df, Verdict.accepted r) ∈ vs) : r ∈ acceptedOf vs := by
  induction vs with
  | nil => simp at h
  | cons x rest ih =>
    obtain ⟨n', df', v'⟩ := x
    rcases List.mem_cons.mp h with he | hm
    · injection he with _ he; injection he with _ he; subst he; simp [acceptedOf]
    · cases v' <;> simp [acceptedOf, ih hm]

end PGA.SI
