import PGA.Proofs.MolUnion
import PGA.Proofs.OneSide
import PGA.Proofs.ReadConnected
import PGA.Proofs.DecomposeRelabel
import PGA.Proofs.SchemeUnion
/-! The end-to-end model on a disjoint union of two graphs: an embedding of a connected pattern without molecule-level
prefix lies in one part, hence the input `toInput S (a ⊔ b)` carries, as sets, the matches of `a` and the shifted
matches of `b` — it is related to `Scheme.union (toInput S a) (toInput S b)` by `Relabel … id`. -/
namespace PGA.Decompose
open PGA PGA.Spec PGA.Scheme PGA.Match

/-! ### the reader yields connected patterns -/
theorem load_connected (src : SchemeSrc) (S : SchemeDef) (h : src.load = .ok S) : S.connected = true := by
  unfold SchemeSrc.load at h
  simp only [bind, Except.bind, pure, Except.pure] at h
  cases hc : src.centres.mapM readCentre with
  | error e => simp [hc] at h
  | ok cs =>
    simp only [hc] at h
    cases hd : src.descs.mapM readDesc with
    | error e => simp [hd] at h
    | ok ds =>
      simp only [hd, Except.ok.injEq] at h
      subst h
      unfold SchemeDef.connected
      simp only [Bool.and_eq_true, List.all_eq_true, decide_eq_true_eq]
      constructor
      · intro c hcm
        obtain ⟨x, _, hx⟩ := mapM_ok_mem readCentre _ _ hc c hcm
        unfold readCentre at hx
        simp only [bind, Except.bind, pure, Except.pure] at hx
        cases hr : readFragment x.2.2 with
        | error e => simp [hr] at hx
        | ok q => simp only [hr, Except.ok.injEq] at hx; subst hx; exact readFragment_connected _ _ hr
      · intro d hdm
        obtain ⟨x, _, hx⟩ := mapM_ok_mem readDesc _ _ hd d hdm
        unfold readDesc at hx
        simp only [bind, Except.bind, pure, Except.pure] at hx
        cases hr : readFragment x.2 with
        | error e => simp [hr] at hx
        | ok q => simp only [hr, Except.ok.injEq] at hx; subst hx; exact readFragment_connected _ _ hr

/-! ### embeddings into a union -/
theorem map_sub_add (f : List Nat) (n : Nat) (h : ∀ x ∈ f, n ≤ x) : (f.map (· - n)).map (· + n) = f := by
  rw [List.map_map]
  conv => rhs; rw [← List.map_id f]
  apply List.map_congr_left
  intro x hx
  have := h x hx
  simp only [Function.comp, id]
  omega

/-- **An embedding of a connected pattern without molecule-level prefix into `A ⊔ B` is an embedding into `A` or a
shifted embedding into `B`** (and conversely). -/
theorem embeds_union_iff (A B : Mol) (hA : A.wf = true) (hB : B.wf = true) (q : Query)
    (hc : q.connected = true) (hmp : q.molPre = []) (f : List Nat) :
    Embeds q (A.union B) f ↔ Embeds q A f ∨ ∃ g, Embeds q B g ∧ f = g.map (· + A.natoms) := by
  have L := union_openMap_left A B hA hB
  have R := union_openMap_right A B hA hB
  have hmol : ∀ (m m' : Mol), ∀ p ∈ q.molPre, (MolPrefixHolds m' p ↔ MolPrefixHolds m p) := by
    intro m m' p hp; rw [hmp] at hp; cases hp
  constructor
  · intro E
    rcases one_side (A.union B) A.natoms (union_bond_sides A B hA hB) q hc f E with hl | hr
    · left
      have := (L.embeds q f hl (hmol A _)).1 (by rw [List.map_id]; exact E)
      exact this
    · right
      refine ⟨f.map (· - A.natoms), ?_, (map_sub_add f A.natoms hr).symm⟩
      have hg : ∀ x ∈ f.map (· - A.natoms), x < B.natoms := by
        intro x hx
        obtain ⟨y, hy, rfl⟩ := List.mem_map.1 hx
        have h1 := E.range y hy
        rw [union_natoms] at h1
        have h2 := hr y hy
        show y - A.natoms < B.natoms
        omega
      exact (R.embeds q _ hg (hmol B _)).1 (by rw [map_sub_add f A.natoms hr]; exact E)
  · rintro (E | ⟨g, E, rfl⟩)
    · have := (L.embeds q f E.range (hmol A _)).2 E
      rwa [List.map_id] at this
    · exact (R.embeds q g E.range (hmol B _)).2 E

/-! ### list plumbing -/
theorem forall₂_zipWith_map {α β γ δ ε : Type} (R : δ → ε → Prop) (f : β → γ → δ) (g1 : α → β) (g2 : α → γ) (g3 : α → ε) :
    ∀ (l : List α), (∀ c ∈ l, R (f (g1 c) (g2 c)) (g3 c)) → List.Forall₂ R (List.zipWith f (l.map g1) (l.map g2)) (l.map g3) := by
  intro l
  induction l with
  | nil => intro _; exact List.Forall₂.nil
  | cons a l ih =>
    intro h
    simp only [List.map_cons, List.zipWith_cons_cons]
    exact List.Forall₂.cons (h a List.mem_cons_self) (ih fun c hc => h c (List.mem_cons_of_mem _ hc))

theorem forall₂_map_map {α β γ : Type} (R : β → γ → Prop) (g1 : α → β) (g2 : α → γ) :
    ∀ (l : List α), (∀ c ∈ l, R (g1 c) (g2 c)) → List.Forall₂ R (l.map g1) (l.map g2) := by
  intro l
  induction l with
  | nil => intro _; exact List.Forall₂.nil
  | cons a l ih =>
    intro h
    exact List.Forall₂.cons (h a List.mem_cons_self) (ih fun c hc => h c (List.mem_cons_of_mem _ hc))

/-! ### the inputs -/
section
variable (S : SchemeDef) (a b : Mol) (ha : a.wf = true) (hb : b.wf = true)
  (hq : S.wf = true) (hs : S.noStar = true) (hmp : S.noMolPrefix = true) (hcn : S.connected = true)
  (capa : maxRaw S a < maxMatches) (capb : maxRaw S b < maxMatches) (capu : maxRaw S (a.union b) < maxMatches)

include ha hb in
/-- membership in a pattern's (capped) match list on the union -/
theorem mem_capped_union (q : Query) (hqw : q.wf = true) (hqs : NoStar q = true) (hqm : q.molPre.isEmpty = true)
    (hqc : q.connected = true)
    (ca : (rawMatches q a).length < maxMatches) (cb : (rawMatches q b).length < maxMatches)
    (cu : (rawMatches q (a.union b)).length < maxMatches) (f : List Nat) :
    f ∈ queryMatchesCapped q (a.union b) ↔
      f ∈ queryMatchesCapped q a ∨ ∃ g ∈ queryMatchesCapped q b, f = shift a.natoms g := by
  rw [mem_capped q _ f hqw (wf_union a b ha hb) hqs cu, mem_capped q a f hqw ha hqs ca,
    embeds_union_iff a b ha hb q hqc (by simpa using hqm) f]
  constructor
  · rintro (h | ⟨g, hg, rfl⟩)
    · exact Or.inl h
    · exact Or.inr ⟨g, (mem_capped q b g hqw hb hqs cb).2 hg, rfl⟩
  · rintro (h | ⟨g, hg, rfl⟩)
    · exact Or.inl h
    · exact Or.inr ⟨g, (mem_capped q b g hqw hb hqs cb).1 hg, rfl⟩

theorem nbrs_union (ha : a.wf = true) (hb : b.wf = true) :
    (List.range (a.union b).natoms).map (neighbours (a.union b)) =
      (List.range a.natoms).map (neighbours a) ++ ((List.range b.natoms).map (neighbours b)).map (shift a.natoms) := by
  rw [union_natoms, List.range_add, List.map_append, List.map_map, List.map_map]
  congr 1
  · apply List.map_congr_left
    intro i hi
    exact neighbours_union_left a b ha hb i (List.mem_range.1 hi)
  · apply List.map_congr_left
    intro j _
    simp only [Function.comp]
    rw [Nat.add_comm a.natoms j, neighbours_union_right a b ha hb j]
    rfl

include ha hb hq hs hmp hcn capa capb capu in
theorem toInput_union_relabel :
    Relabel (Scheme.union (toInput S a) (toInput S b)) (toInput S (a.union b)) id := by
  obtain ⟨caC, caD⟩ := raw_lt_of_maxRaw S a capa
  obtain ⟨cbC, cbD⟩ := raw_lt_of_maxRaw S b capb
  obtain ⟨cuC, cuD⟩ := raw_lt_of_maxRaw S _ capu
  unfold SchemeDef.wf at hq
  unfold SchemeDef.noStar at hs
  unfold SchemeDef.noMolPrefix at hmp
  unfold SchemeDef.connected at hcn
  simp only [Bool.and_eq_true, List.all_eq_true, decide_eq_true_eq] at hq hs hmp hcn
  refine ⟨fun _ _ h => h, fun y => ⟨y, rfl⟩, ?_, fun _ => Iff.rfl, ?_, ?_, ?_, rfl⟩
  · show (a.union b).natoms = a.natoms + b.natoms
    exact union_natoms a b
  · intro i
    show (((List.range (a.union b).natoms).map (neighbours (a.union b))).getD (id i) []).Perm
      ((((List.range a.natoms).map (neighbours a) ++ ((List.range b.natoms).map (neighbours b)).map (shift a.natoms)).getD i []).map id)
    rw [nbrs_union a b ha hb, List.map_id]
    exact List.Perm.refl _
  · show List.Forall₂ _ (List.zipWith _ (S.centres.map _) (S.centres.map _)) (S.centres.map _)
    apply forall₂_zipWith_map
    intro c hc
    refine ⟨rfl, rfl, fun i => ?_⟩
    have M := mem_capped_union a b ha hb c.q (hq.1 c hc) (hs.1 c hc) (hmp.1 c hc) (hcn.1 c hc).1 (caC c hc) (cbC c hc) (cuC c hc)
    simp only [id, mem_firstAtoms]
    constructor
    · rintro ⟨f, hf, hh⟩
      rcases (M f).1 hf with h | ⟨g, hg, rfl⟩
      · exact ⟨f, List.mem_append_left _ h, hh⟩
      · exact ⟨shift a.natoms g, List.mem_append_right _ (List.mem_map.2 ⟨g, hg, rfl⟩), hh⟩
    · rintro ⟨f, hf, hh⟩
      rcases List.mem_append.1 hf with h | h
      · exact ⟨f, (M f).2 (Or.inl h), hh⟩
      · obtain ⟨g, hg, rfl⟩ := List.mem_map.1 h
        exact ⟨shift a.natoms g, (M _).2 (Or.inr ⟨g, hg, rfl⟩), hh⟩
  · show List.Forall₂ _ (List.zipWith _ (S.descs.map _) (S.descs.map _)) (S.descs.map _)
    apply forall₂_zipWith_map
    intro d hd
    refine ⟨rfl, ?_⟩
    have M := mem_capped_union a b ha hb d.q (hq.2 d hd) (hs.2 d hd) (hmp.2 d hd) (hcn.2 d hd).1 (caD d hd) (cbD d hd) (cuD d hd)
    have : (Finset.image id : Finset Nat → Finset Nat) = id := by funext s; simp
    rw [this, Finset.image_id]
    ext s
    simp only [List.mem_toFinset, List.mem_map, List.mem_append]
    constructor
    · rintro ⟨f, hf, rfl⟩
      rcases (M f).1 hf with h | ⟨g, hg, rfl⟩
      · exact ⟨f, Or.inl h, rfl⟩
      · exact ⟨shift a.natoms g, Or.inr ⟨g, hg, rfl⟩, rfl⟩
    · rintro ⟨f, hf | ⟨g, hg, rfl⟩, rfl⟩
      · exact ⟨f, (M f).2 (Or.inl hf), rfl⟩
      · exact ⟨shift a.natoms g, (M _).2 (Or.inr ⟨g, hg, rfl⟩), rfl⟩

theorem sameScheme_toInput : SameScheme (toInput S a) (toInput S b) :=
  ⟨forall₂_map_map _ _ _ _ (fun _ _ => ⟨rfl, rfl⟩), forall₂_map_map _ _ _ _ (fun _ _ => rfl), rfl⟩

include ha hq hs hcn capa in
theorem wF_toInput : WF (toInput S a) := by
  obtain ⟨caC, caD⟩ := raw_lt_of_maxRaw S a capa
  unfold SchemeDef.wf at hq
  unfold SchemeDef.noStar at hs
  unfold SchemeDef.connected at hcn
  simp only [Bool.and_eq_true, List.all_eq_true, decide_eq_true_eq] at hq hs hcn
  refine ⟨by simp [toInput], ?_, ?_, ?_⟩
  · intro l hl j hj
    simp only [toInput, List.mem_map, List.mem_range] at hl
    obtain ⟨i, _, rfl⟩ := hl
    unfold neighbours Mol.bondsOf at hj
    obtain ⟨e, he, rfl⟩ := List.mem_map.1 hj
    have hem := (List.mem_filter.1 he).1
    obtain ⟨hw, _, _⟩ := wf_bonds a ha
    obtain ⟨h1, h2, _⟩ := hw e hem
    show e.other i < a.natoms
    unfold Bond.other; split <;> assumption
  · intro p hp f hf j hj
    simp only [toInput, List.mem_map] at hp
    obtain ⟨c, hc, rfl⟩ := hp
    exact ((mem_capped c.q a f (hq.1 c hc) ha (hs.1 c hc) (caC c hc)).1 hf).range j hj
  · intro p hp f hf
    simp only [toInput, List.mem_map] at hp
    obtain ⟨d, hd, rfl⟩ := hp
    have E := (mem_capped d.q a f (hq.2 d hd) ha (hs.2 d hd) (caD d hd)).1 hf
    refine ⟨?_, fun j hj => E.range j hj⟩
    intro hnil
    have := E.length
    rw [hnil] at this
    have := (hcn.2 d hd).2
    simp at *
    omega
end

end PGA.Decompose
