import PGA.Model.Match
import Mathlib.Data.List.Nodup
/-! The pruned backtracking enumerator returns, without repetition, exactly the assignments all of
whose prefixes pass the pruning test (every size). -/
namespace PGA.Match

def PrefOK (ok : List Nat → Bool) (f : List Nat) (from_ : Nat) : Prop :=
  ∀ m, from_ < m → m ≤ f.length → ok (f.take m) = true

theorem mem_enum (n : Nat) (ok : List Nat → Bool) :
    ∀ k pre f, f ∈ enum n ok k pre ↔
      (∃ suf, f = pre ++ suf ∧ suf.length = k ∧ (∀ a ∈ suf, a < n)) ∧ PrefOK ok f pre.length := by
  intro k
  induction k with
  | zero =>
    intro pre f
    simp only [enum, List.mem_singleton]
    constructor
    · rintro rfl
      exact ⟨⟨[], by simp, rfl, by simp⟩, fun m h1 h2 => by omega⟩
    · rintro ⟨⟨suf, rfl, hl, _⟩, _⟩
      have : suf = [] := List.eq_nil_of_length_eq_zero hl
      simp [this]
  | succ k ih =>
    intro pre f
    simp only [enum, List.mem_flatMap, List.mem_range]
    constructor
    · rintro ⟨a, ha, hf⟩
      split at hf
      · rename_i hok
        have := (ih (pre ++ [a]) f).1 hf
        obtain ⟨⟨suf, rfl, hl, hlt⟩, hp⟩ := this
        refine ⟨⟨a :: suf, by simp, by simp [hl], ?_⟩, ?_⟩
        · intro b hb; rcases List.mem_cons.1 hb with rfl | hb
          · exact ha
          · exact hlt b hb
        · intro m h1 h2
          by_cases hm : m = pre.length + 1
          · subst hm
            have : (pre ++ [a] ++ suf).take (pre.length + 1) = pre ++ [a] := by
              have := @List.take_append_length _ (pre ++ [a]) suf
              simpa using this
            rw [this]; exact hok
          · apply hp m
            · simp; omega
            · exact h2
      · simp at hf
    · rintro ⟨⟨suf, rfl, hl, hlt⟩, hp⟩
      match suf, hl with
      | a :: suf', hl' =>
        refine ⟨a, hlt a (by simp), ?_⟩
        have hok : ok (pre ++ [a]) = true := by
          have := hp (pre.length + 1) (by omega) (by simp)
          have e : (pre ++ a :: suf').take (pre.length + 1) = pre ++ [a] := by
            have := @List.take_append_length _ (pre ++ [a]) suf'
            simpa using this
          rwa [e] at this
        simp only [hok, if_true]
        apply (ih (pre ++ [a]) (pre ++ a :: suf')).2
        refine ⟨⟨suf', by simp, by simpa using hl', fun b hb => hlt b (by simp [hb])⟩, ?_⟩
        intro m h1 h2
        exact hp m (by simp at h1; omega) h2

/-- every enumerated list extends the prefix it was started with -/
theorem enum_prefix (n : Nat) (ok : List Nat → Bool) (k : Nat) (pre f : List Nat)
    (h : f ∈ enum n ok k pre) : pre <+: f := by
  obtain ⟨⟨suf, rfl, _, _⟩, _⟩ := (mem_enum n ok k pre f).1 h
  exact List.prefix_append _ _

theorem enum_nodup (n : Nat) (ok : List Nat → Bool) : ∀ k pre, (enum n ok k pre).Nodup := by
  intro k
  induction k with
  | zero => intro pre; simp [enum]
  | succ k ih =>
    intro pre
    simp only [enum]
    rw [List.nodup_flatMap]
    refine ⟨?_, ?_⟩
    · intro a _
      split
      · exact ih _
      · exact List.nodup_nil
    · refine List.Nodup.pairwise_of_forall_ne (List.nodup_range) ?_
      intro a _ b _ hab
      simp only [Function.onFun]
      rw [List.disjoint_left]
      intro f hfa hfb
      split at hfa
      · split at hfb
        · have pa := enum_prefix n ok k _ f hfa
          have pb := enum_prefix n ok k _ f hfb
          have := List.prefix_of_prefix_length_le pa pb (by simp)
          have e := List.IsPrefix.eq_of_length this (by simp)
          have : a = b := by simpa using e
          exact hab this
        · simp at hfb
      · simp at hfa

end PGA.Match
