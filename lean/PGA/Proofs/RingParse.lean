import PGA.Spec.RingParse
/-!
# Lemmas about the RING combinator engine (C09)

* `checkGrammar_sound` — the executable table check implies `WellRanked`.
* `eval_good` — on a well-ranked table the interpreter never aborts (no `stuck`, `missingRule`,
  `hang`, internal exception), never moves backwards, and an expression that succeeds without
  consuming a character is statically nullable (soundness of the nullable / left-call analysis).
-/
set_option linter.unusedVariables false
namespace PGA.Ring
open PGA.Chars

/-! ## the table check -/

theorem checkGrammar_sound (G : Grammar) (nt : List Bool) (h : checkGrammar G nt = true) : WellRanked G nt := by
  simp only [checkGrammar, Bool.and_eq_true, Bool.not_eq_true', List.all_eq_true, List.mem_range] at h
  obtain ⟨⟨hf, hr⟩, hall⟩ := h
  have key : ∀ (n : Nat) body, G.rules[n]? = some (some body) → checkRule G nt n = true := by
    intro n body hb
    apply hall
    have := List.getElem?_eq_some_iff.mp hb
    exact this.1
  refine ⟨?_, ?_, ?_, ?_, ?_, ?_⟩
  · intro hmem
    have : G.filler.contains [] = true := List.contains_iff_mem.mpr hmem
    rw [this] at hf
    exact Bool.noConfusion hf
  · split at hr
    · rename_i b hb; exact ⟨b, hb⟩
    · simp at hr
  · intro n body hb
    have := key n body hb
    simp only [checkRule, hb, Bool.and_eq_true] at this
    exact this.1.2
  · intro n body r hb hr'
    have := key n body hb
    simp only [checkRule, hb, hr', Bool.and_eq_true] at this
    exact this.1.1.2
  · intro n body hb hn
    have := key n body hb
    simp only [checkRule, hb, Bool.and_eq_true, hn, Bool.not_true, Bool.false_or, beq_iff_eq] at this
    exact this.2
  · intro n body hb
    have := key n body hb
    simp only [checkRule, hb, Bool.and_eq_true] at this
    have h1 := this.1.1
    split at h1
    · rename_i r hr'
      simp only [Bool.and_eq_true, decide_eq_true_eq] at h1
      exact ⟨r, hr', h1.1⟩
    · simp at h1

/-! ## stream primitives -/

theorem skipFillerAux_isSome (fil : List (List Char)) (hf : [] ∉ fil) :
    ∀ (r : List Char) (i l c : Nat), ∃ st, skipFillerAux fil r i l c = some st := by
  intro r
  induction r with
  | nil => intro i l c; simp [skipFillerAux, hf]
  | cons ch r ih =>
    intro i l c
    simp only [skipFillerAux]
    split
    · split
      · exact ih _ _ _
      · exact ih _ _ _
    · exact ⟨_, rfl⟩

theorem take_isSome (fil : List (List Char)) (hf : [] ∉ fil) (st : St) (n : Nat) :
    ∃ s st', take fil st n = some (s, st') ∧ s = st.rest.take n := by
  unfold take skipFiller
  obtain ⟨st', h⟩ := skipFillerAux_isSome fil hf (st.rest.drop n) (st.idx + n)
    (advance (st.rest.take n) st.line st.col).1 (advance (st.rest.take n) st.line st.col).2
  simp only [h]
  exact ⟨_, _, rfl, rfl⟩

theorem take_lt (fil : List (List Char)) (st : St) (n : Nat) (s : List Char) (st' : St)
    (h : take fil st n = some (s, st')) (hn : 0 < n) (hr : st.rest ≠ []) : st'.rest.length < st.rest.length := by
  have := take_length fil st n s st' h
  have : 0 < st.rest.length := List.length_pos_iff.mpr hr
  omega

theorem take_le (fil : List (List Char)) (st : St) (n : Nat) (s : List Char) (st' : St)
    (h : take fil st n = some (s, st')) : st'.rest.length ≤ st.rest.length := by
  have := take_length fil st n s st' h
  omega

/-- a result that is not an abort, does not move backwards, and moves forward strictly when it succeeds -/
def Strict (st : St) (r : Res) : Prop :=
  (∀ a, r ≠ .abort a) ∧ ∀ st' out cur', r = .ok st' out cur' → st'.rest.length < st.rest.length

/-! ## `int()` on decimal digits -/

/-- Table obligation shape: every code point of every `isdecimal` range lies in a run of
`int()`-convertible digits. -/
def decimalCovered : Bool :=
  PGA.Gen.RingChars.isdecimalRanges.all fun r =>
    (List.range (r.2 - r.1 + 1)).all fun k =>
      PGA.Gen.Chars.decimalRuns.any fun u => decide (u.1 ≤ r.1 + k) && decide (r.1 + k ≤ u.2.1)

theorem decimalVal_isSome (hc : decimalCovered = true) (c : Char) (h : isDecimalChar c = true) :
    ∃ v, decimalVal c = some v := by
  unfold isDecimalChar inRanges at h
  simp only [List.any_eq_true, Bool.and_eq_true, decide_eq_true_eq] at h
  obtain ⟨r, hr, h1, h2⟩ := h
  unfold decimalCovered at hc
  simp only [List.all_eq_true, List.any_eq_true, Bool.and_eq_true, decide_eq_true_eq, List.mem_range] at hc
  obtain ⟨u, hu, h3, h4⟩ := hc r hr (c.toNat - r.1) (by omega)
  unfold decimalVal
  have : (PGA.Gen.Chars.decimalRuns.find? (fun r => decide (r.1 ≤ c.toNat) && decide (c.toNat ≤ r.2.1))).isSome = true := by
    rw [List.find?_isSome]
    exact ⟨u, hu, by simp; omega⟩
  cases hfind : PGA.Gen.Chars.decimalRuns.find? (fun r => decide (r.1 ≤ c.toNat) && decide (c.toNat ≤ r.2.1)) with
  | none => simp [hfind] at this
  | some x => exact ⟨_, rfl⟩

theorem readNatAux_isSome (hc : decimalCovered = true) (s : List Char) (h : ∀ c ∈ s, isDecimalChar c = true) :
    ∀ acc, ∃ v, readNatAux acc s = some v := by
  induction s with
  | nil => intro acc; exact ⟨acc, rfl⟩
  | cons c cs ih =>
    intro acc
    obtain ⟨v, hv⟩ := decimalVal_isSome hc c (h c (by simp))
    simp only [readNatAux, hv]
    exact ih (fun c hc' => h c (by simp [hc'])) _

theorem readNat_isSome (hc : decimalCovered = true) (s : List Char) (h : ∀ c ∈ s, isDecimalChar c = true)
    (hl : s.length ≤ PGA.Gen.Chars.intMaxStrDigits) : ∃ v, readNat s = some v := by
  unfold readNat
  simp only [Nat.not_lt.mpr hl, if_false]
  exact readNatAux_isSome hc s h 0

/-! ## the leaf combinators -/

theorem digitLoop_strict (G : Grammar) (hf : [] ∉ G.filler) (hc : decimalCovered = true) :
    ∀ (n : Nat) (st : St) (acc : List Char) (cur : Option Err),
      (∀ c ∈ acc, isDecimalChar c = true) → acc.length + n ≤ PGA.Gen.Chars.intMaxStrDigits →
      (∀ a, digitLoop G n st acc cur ≠ .abort a) ∧
      ∀ st' out cur', digitLoop G n st acc cur = .ok st' out cur' →
        st'.rest.length ≤ st.rest.length ∧ (0 < n → st'.rest.length < st.rest.length) := by
  intro n
  induction n with
  | zero =>
    intro st acc cur hacc hl
    obtain ⟨v, hv⟩ := readNat_isSome hc acc hacc (by omega)
    simp only [digitLoop, pyInt, hv]
    refine ⟨fun _ h => Res.noConfusion h, ?_⟩
    intro st' out cur' h
    cases h
    exact ⟨Nat.le_refl _, fun h => absurd h (Nat.lt_irrefl 0)⟩
  | succ n ih =>
    intro st acc cur hacc hl
    unfold digitLoop
    split
    · refine ⟨fun _ h => Res.noConfusion h, fun _ _ _ h => Res.noConfusion h⟩
    · rename_i c r hrest
      split
      · rename_i hdec
        obtain ⟨s, st1, ht, hs⟩ := take_isSome G.filler hf st 1
        simp only [ht]
        have hs' : s = [c] := by rw [hs, hrest]; rfl
        have hacc' : ∀ x ∈ acc ++ s, isDecimalChar x = true := by
          intro x hx
          rw [hs'] at hx
          simp only [List.mem_append, List.mem_singleton] at hx
          rcases hx with hx | hx
          · exact hacc x hx
          · rw [hx]; exact hdec
        have hl' : (acc ++ s).length + n ≤ PGA.Gen.Chars.intMaxStrDigits := by
          rw [hs']; simp; omega
        have hlt := take_lt G.filler st 1 s st1 ht (by omega) (by rw [hrest]; simp)
        obtain ⟨g1, g2⟩ := ih st1 (acc ++ s) cur hacc' hl'
        refine ⟨g1, ?_⟩
        intro st' out cur' h
        have := (g2 st' out cur' h).1
        exact ⟨by omega, fun _ => by omega⟩
      · refine ⟨fun _ h => Res.noConfusion h, fun _ _ _ h => Res.noConfusion h⟩

theorem numberLoop_good (G : Grammar) (hf : [] ∉ G.filler) (st : St) (acc : List Char) :
    ∃ st' out, numberLoop G st acc = some (st', out) ∧ st'.rest.length ≤ st.rest.length := by
  fun_induction numberLoop G st acc with
  | case1 st acc h => exact ⟨_, _, rfl, Nat.le_refl _⟩
  | case2 st acc c r h hd h2 =>
    obtain ⟨s, st1, ht, _⟩ := take_isSome G.filler hf st 1
    rw [ht] at h2; cases h2
  | case3 st acc c r h hd s st1 h2 ih =>
    obtain ⟨st', out, h3, h4⟩ := ih
    have := take_le G.filler st 1 s st1 h2
    exact ⟨st', out, h3, by omega⟩
  | case4 st acc c r h hd => exact ⟨_, _, rfl, Nat.le_refl _⟩

theorem literalsLoop_strict (G : Grammar) (hf : [] ∉ G.filler) (st : St) :
    ∀ (toks : List (List Char)) (cur : Option Err), (∀ t ∈ toks, t ≠ []) → (toks ≠ [] ∨ cur ≠ none) →
      Strict st (literalsLoop G st toks cur) := by
  intro toks
  induction toks with
  | nil =>
    intro cur _ h
    cases cur with
    | none => simp at h
    | some c =>
      simp only [literalsLoop]
      exact ⟨fun _ h => Res.noConfusion h, fun _ _ _ h => Res.noConfusion h⟩
  | cons tok more ih =>
    intro cur hne _
    unfold literalsLoop
    split
    · rename_i hm
      obtain ⟨s, st1, ht, _⟩ := take_isSome G.filler hf st tok.length
      simp only [ht]
      have htok : tok ≠ [] := hne tok (by simp)
      have hr : st.rest ≠ [] := by
        intro h0; rw [h0] at hm; simp at hm; first | exact htok hm | exact htok hm.symm
      refine ⟨fun _ h => Res.noConfusion h, ?_⟩
      intro st' out cur' h
      cases h
      exact take_lt G.filler st tok.length s st1 ht (List.length_pos_iff.mpr htok) hr
    · exact ih _ (fun t ht => hne t (by simp [ht])) (Or.inr (by cases cur <;> simp [catchErr]))

/-- the leaf combinators: never an abort; success consumes at least one character, except `EOS` -/
theorem evalLeaf_good (G : Grammar) (nt : List Bool) (hf : [] ∉ G.filler) (hc : decimalCovered = true)
    (e : Expr) (st : St) (cur : Option Err) (hw : wfE G nt false e = true)
    (h1 : ∀ a, e ≠ .opt a) (h2 : ∀ a, e ≠ .star a) (h3 : e ≠ .allNil) (h4 : ∀ a r, e ≠ .allCons a r)
    (h5 : e ≠ .anyNil) (h6 : ∀ a r, e ≠ .anyCons a r) (h7 : ∀ n, e ≠ .ref n) :
    (∀ a, evalLeaf G e st cur ≠ .abort a) ∧
    ∀ st' out cur', evalLeaf G e st cur = .ok st' out cur' →
      st'.rest.length ≤ st.rest.length ∧ (st'.rest.length = st.rest.length → nullE nt e = true) := by
  cases e with
  | opt a => exact absurd rfl (h1 a)
  | star a => exact absurd rfl (h2 a)
  | allNil => exact absurd rfl h3
  | allCons a r => exact absurd rfl (h4 a r)
  | anyNil => exact absurd rfl h5
  | anyCons a r => exact absurd rfl (h6 a r)
  | ref n => exact absurd rfl (h7 n)
  | eos =>
    simp only [evalLeaf]
    split
    · refine ⟨fun _ h => Res.noConfusion h, ?_⟩
      intro st' out cur' h; cases h
      exact ⟨Nat.le_refl _, fun _ => rfl⟩
    · exact ⟨fun _ h => Res.noConfusion h, fun _ _ _ h => Res.noConfusion h⟩
  | digit n =>
    simp only [wfE, Bool.and_eq_true, decide_eq_true_eq] at hw
    obtain ⟨g1, g2⟩ := digitLoop_strict G hf hc n st [] cur (by simp) (by simp; omega)
    simp only [evalLeaf]
    refine ⟨g1, ?_⟩
    intro st' out cur' h
    have := g2 st' out cur' h
    exact ⟨this.1, fun heq => by have := this.2 (by omega); omega⟩
  | number =>
    simp only [evalLeaf]
    split
    · exact ⟨fun _ h => Res.noConfusion h, fun _ _ _ h => Res.noConfusion h⟩
    · rename_i c r hrest
      split
      · obtain ⟨s, st1, ht, _⟩ := take_isSome G.filler hf st 1
        simp only [ht]
        obtain ⟨st2, out, hn, hle⟩ := numberLoop_good G hf st1 s
        simp only [hn]
        have hlt := take_lt G.filler st 1 s st1 ht (by omega) (by rw [hrest]; simp)
        split
        · refine ⟨fun _ h => Res.noConfusion h, ?_⟩
          intro st' out' cur' h; cases h
          exact ⟨by omega, fun heq => by omega⟩
        · exact ⟨fun _ h => Res.noConfusion h, fun _ _ _ h => Res.noConfusion h⟩
      · exact ⟨fun _ h => Res.noConfusion h, fun _ _ _ h => Res.noConfusion h⟩
  | string =>
    simp only [evalLeaf]
    split
    · exact ⟨fun _ h => Res.noConfusion h, fun _ _ _ h => Res.noConfusion h⟩
    · rename_i c r hrest
      split
      · obtain ⟨s, st1, ht, _⟩ := take_isSome G.filler hf st (identRun G r + 1)
        simp only [ht]
        have hlt := take_lt G.filler st _ s st1 ht (by omega) (by rw [hrest]; simp)
        refine ⟨fun _ h => Res.noConfusion h, ?_⟩
        intro st' out' cur' h; cases h
        exact ⟨by omega, fun heq => by omega⟩
      · exact ⟨fun _ h => Res.noConfusion h, fun _ _ _ h => Res.noConfusion h⟩
  | lit tok noErr =>
    simp only [wfE, Bool.not_eq_true', List.isEmpty_eq_false_iff] at hw
    simp only [evalLeaf]
    split
    · rename_i hm
      obtain ⟨s, st1, ht, _⟩ := take_isSome G.filler hf st tok.length
      simp only [ht]
      have hr : st.rest ≠ [] := by
        intro h0; rw [h0] at hm; simp at hm; first | exact hw hm | exact hw hm.symm
      have hlt := take_lt G.filler st _ s st1 ht (List.length_pos_iff.mpr hw) hr
      refine ⟨fun _ h => Res.noConfusion h, ?_⟩
      intro st' out' cur' h; cases h
      exact ⟨by omega, fun heq => by omega⟩
    · exact ⟨fun _ h => Res.noConfusion h, fun _ _ _ h => Res.noConfusion h⟩
  | filler tok noErr =>
    simp only [wfE, Bool.not_eq_true', List.isEmpty_eq_false_iff] at hw
    simp only [evalLeaf]
    split
    · rename_i hm
      obtain ⟨s, st1, ht, _⟩ := take_isSome G.filler hf st tok.length
      simp only [ht]
      have hr : st.rest ≠ [] := by
        intro h0; rw [h0] at hm; simp at hm; first | exact hw hm | exact hw hm.symm
      have hlt := take_lt G.filler st _ s st1 ht (List.length_pos_iff.mpr hw) hr
      refine ⟨fun _ h => Res.noConfusion h, ?_⟩
      intro st' out' cur' h; cases h
      exact ⟨by omega, fun heq => by omega⟩
    · exact ⟨fun _ h => Res.noConfusion h, fun _ _ _ h => Res.noConfusion h⟩
  | literals toks name =>
    simp only [wfE, Bool.and_eq_true, Bool.not_eq_true', List.isEmpty_eq_false_iff, List.all_eq_true] at hw
    obtain ⟨g1, g2⟩ := literalsLoop_strict G hf st toks cur (fun t ht => hw.2 t ht) (Or.inl hw.1)
    simp only [evalLeaf]
    split
    · split
      · exact ⟨fun _ h => Res.noConfusion h, fun _ _ _ h => Res.noConfusion h⟩
      · exact ⟨fun _ h => Res.noConfusion h, fun _ _ _ h => Res.noConfusion h⟩
    · rename_i r hnf
      refine ⟨g1, ?_⟩
      intro st' out' cur' h
      have := g2 st' out' cur' h
      exact ⟨by omega, fun heq => by omega⟩

/-! ## the interpreter -/

/-- with every reference ranked below `top`, `leftOK` holds at the top bound -/
theorem leftOK_top (G : Grammar) (nt : List Bool) : ∀ (e : Expr) (t : Bool), wfE G nt t e = true → leftOK G nt e G.top = true := by
  intro e
  induction e with
  | opt a ih =>
    intro t h; cases t <;> simp only [wfE] at h
    · simpa [leftOK] using ih false h
    · exact Bool.noConfusion h
  | star a ih =>
    intro t h; cases t <;> simp only [wfE, Bool.and_eq_true] at h
    · simpa [leftOK] using ih false h.1
    · exact Bool.noConfusion h
  | allCons a r iha ihr =>
    intro t h; cases t <;> simp only [wfE, Bool.and_eq_true] at h
    · simp only [leftOK, Bool.and_eq_true]
      refine ⟨iha false h.1, ?_⟩
      split
      · exact ihr false h.2
      · rfl
    · exact Bool.noConfusion h
  | anyCons a r iha ihr =>
    intro t h
    have h' : wfE G nt false a = true ∧ wfE G nt true r = true := by
      cases t <;> simpa [wfE] using h
    simp only [leftOK, Bool.and_eq_true]
    exact ⟨iha false h'.1, ihr true h'.2⟩
  | ref n =>
    intro t h; cases t <;> simp only [wfE, Bool.and_eq_true] at h
    · simp only [leftOK]
      have h2 := h.2
      split at h2
      · rename_i r hr
        first
          | exact h2
          | (simp only [hr]; exact h2)
          | (rw [hr]; exact h2)
      · exact Bool.noConfusion h2
    · exact Bool.noConfusion h
  | _ => intro t h; first | rfl | (unfold leftOK; rfl) | simp only [leftOK]

/-- never an abort; never backwards; success without progress only for a statically nullable expression -/
def Good (nt : List Bool) (e : Expr) (st : St) (r : Res) : Prop :=
  (∀ a, r ≠ .abort a) ∧
  ∀ st' out cur', r = .ok st' out cur' →
    st'.rest.length ≤ st.rest.length ∧ (st'.rest.length = st.rest.length → nullE nt e = true)

theorem eval_good (G : Grammar) (nt : List Bool) (hG : WellRanked G nt) (hc : decimalCovered = true) :
    ∀ (e : Expr) (st : St) (cur : Option Err) (bound : Nat),
      (wfE G nt false e = true ∨ (wfE G nt true e = true ∧ cur ≠ none)) → leftOK G nt e bound = true →
      Good nt e st (eval G e st cur bound) := by
  intro e st cur bound
  fun_induction eval G e st cur bound with
  | case1 st cur bound a c cur' hfail ih =>
    intro _ _
    refine ⟨fun _ h => Res.noConfusion h, ?_⟩
    intro st' out cur'' h; cases h
    exact ⟨Nat.le_refl _, fun _ => rfl⟩
  | case2 st cur bound a hnf ih =>
    intro hw hl
    have hw' : wfE G nt false a = true := by
      rcases hw with hw | hw
      · simpa [wfE] using hw
      · simp [wfE] at hw
    have g := ih (Or.inl hw') (by simpa [leftOK] using hl)
    refine ⟨g.1, ?_⟩
    intro st' out cur' h
    exact ⟨(g.2 st' out cur' h).1, fun _ => rfl⟩
  | case3 st cur bound a err cur' hfail ih =>
    intro _ _
    refine ⟨fun _ h => Res.noConfusion h, ?_⟩
    intro st' out cur'' h; cases h
    exact ⟨Nat.le_refl _, fun _ => rfl⟩
  | case4 st cur bound a st1 out1 cur1 hok hlt st2 out2 cur2 hrec ih1 ih2 =>
    intro hw hl
    have hw' : wfE G nt false (.star a) = true := by
      rcases hw with hw | hw
      · exact hw
      · simp [wfE] at hw
    have g2 := ih2 (Or.inl hw') (leftOK_top G nt _ _ hw')
    refine ⟨fun _ h => Res.noConfusion h, ?_⟩
    intro st' out cur' h; cases h
    have := (g2.2 _ _ _ hrec).1
    exact ⟨by omega, fun _ => rfl⟩
  | case5 st cur bound a st1 out1 cur1 hok hlt hnok ih1 ih2 =>
    intro hw hl
    have hw' : wfE G nt false (.star a) = true := by
      rcases hw with hw | hw
      · exact hw
      · simp [wfE] at hw
    have g2 := ih2 (Or.inl hw') (leftOK_top G nt _ _ hw')
    refine ⟨g2.1, ?_⟩
    intro st' out cur' h
    exact absurd h (fun h => hnok _ _ _ h)
  | case6 st cur bound a st1 out1 cur1 hok hnlt ih =>
    intro hw hl
    exfalso
    have hw' : wfE G nt false a = true ∧ nullE nt a = false := by
      rcases hw with hw | hw
      · simpa [wfE] using hw
      · simp [wfE] at hw
    have g := ih (Or.inl hw'.1) (by simpa [leftOK] using hl)
    have := g.2 _ _ _ hok
    have hn := this.2 (by omega)
    rw [hw'.2] at hn; exact Bool.noConfusion hn
  | case7 st cur bound a hnf hnok ih =>
    intro hw hl
    have hw' : wfE G nt false a = true := by
      rcases hw with hw | hw
      · have : wfE G nt false a = true ∧ nullE nt a = false := by simpa [wfE] using hw
        exact this.1
      · simp [wfE] at hw
    have g := ih (Or.inl hw') (by simpa [leftOK] using hl)
    refine ⟨g.1, ?_⟩
    intro st' out cur' h
    exact absurd h (fun h => hnok _ _ _ h)
  | case8 st cur bound =>
    intro _ _
    refine ⟨fun _ h => Res.noConfusion h, ?_⟩
    intro st' out cur' h; cases h
    exact ⟨Nat.le_refl _, fun _ => rfl⟩
  | case9 st cur bound a rest st2 out2 cur2 hok hlt st3 out3 cur3 hrec ih1 ih2 =>
    intro hw hl
    have hw' : wfE G nt false a = true ∧ wfE G nt false rest = true := by
      rcases hw with hw | hw
      · simpa [wfE] using hw
      · simp [wfE] at hw
    have g2 := ih2 (Or.inl hw'.2) (leftOK_top G nt _ _ hw'.2)
    refine ⟨fun _ h => Res.noConfusion h, ?_⟩
    intro st' out cur' h; cases h
    have := (g2.2 _ _ _ hrec).1
    exact ⟨by omega, fun h => by omega⟩
  | case10 st cur bound a rest st2 out2 cur2 hok hlt hnok ih1 ih2 =>
    intro hw hl
    have hw' : wfE G nt false a = true ∧ wfE G nt false rest = true := by
      rcases hw with hw | hw
      · simpa [wfE] using hw
      · simp [wfE] at hw
    have g2 := ih2 (Or.inl hw'.2) (leftOK_top G nt _ _ hw'.2)
    refine ⟨g2.1, ?_⟩
    intro st' out cur' h
    exact absurd h (fun h => hnok _ _ _ h)
  | case11 st cur bound a rest st2 out2 cur2 hok hnlt heq st3 out3 cur3 hrec ih1 ih2 =>
    intro hw hl
    have hw' : wfE G nt false a = true ∧ wfE G nt false rest = true := by
      rcases hw with hw | hw
      · simpa [wfE] using hw
      · simp [wfE] at hw
    simp only [leftOK, Bool.and_eq_true] at hl
    have g1 := ih1 (Or.inl hw'.1) hl.1
    have hn : nullE nt a = true := (g1.2 _ _ _ hok).2 heq
    have g2 := ih2 (Or.inl hw'.2) (by simpa [hn] using hl.2)
    refine ⟨fun _ h => Res.noConfusion h, ?_⟩
    intro st' out cur' h; cases h
    have := g2.2 _ _ _ hrec
    exact ⟨by omega, fun h => by simp [nullE, hn, this.2 (by omega)]⟩
  | case12 st cur bound a rest st2 out2 cur2 hok hnlt heq hnok ih1 ih2 =>
    intro hw hl
    have hw' : wfE G nt false a = true ∧ wfE G nt false rest = true := by
      rcases hw with hw | hw
      · simpa [wfE] using hw
      · simp [wfE] at hw
    simp only [leftOK, Bool.and_eq_true] at hl
    have g1 := ih1 (Or.inl hw'.1) hl.1
    have hn : nullE nt a = true := (g1.2 _ _ _ hok).2 heq
    have g2 := ih2 (Or.inl hw'.2) (by simpa [hn] using hl.2)
    refine ⟨g2.1, ?_⟩
    intro st' out cur' h
    exact absurd h (fun h => hnok _ _ _ h)
  | case13 st cur bound a rest st2 out2 cur2 hok hnlt hneq ih1 =>
    intro hw hl
    exfalso
    have hw' : wfE G nt false a = true ∧ wfE G nt false rest = true := by
      rcases hw with hw | hw
      · simpa [wfE] using hw
      · simp [wfE] at hw
    simp only [leftOK, Bool.and_eq_true] at hl
    have g1 := ih1 (Or.inl hw'.1) hl.1
    have := (g1.2 _ _ _ hok).1
    omega
  | case14 st cur bound a rest hnok ih1 =>
    intro hw hl
    have hw' : wfE G nt false a = true ∧ wfE G nt false rest = true := by
      rcases hw with hw | hw
      · simpa [wfE] using hw
      · simp [wfE] at hw
    simp only [leftOK, Bool.and_eq_true] at hl
    have g1 := ih1 (Or.inl hw'.1) hl.1
    refine ⟨g1.1, ?_⟩
    intro st' out cur' h
    exact absurd h (fun h => hnok _ _ _ h)
  | case15 st bound =>
    intro hw _
    exfalso
    rcases hw with hw | hw
    · simp [wfE] at hw
    · exact hw.2 rfl
  | case16 st bound c =>
    intro _ _
    exact ⟨fun _ h => Res.noConfusion h, fun _ _ _ h => Res.noConfusion h⟩
  | case17 st cur bound a rest c cur' hfail ih1 ih2 =>
    intro hw hl
    have hw' : wfE G nt false a = true ∧ wfE G nt true rest = true := by
      rcases hw with hw | hw
      · simpa [wfE] using hw
      · simpa [wfE] using hw.1
    simp only [leftOK, Bool.and_eq_true] at hl
    have g2 := ih2 (Or.inr ⟨hw'.2, by cases cur' <;> simp [catchErr]⟩) hl.2
    refine ⟨g2.1, ?_⟩
    intro st' out cur'' h
    have := g2.2 _ _ _ h
    exact ⟨this.1, fun h' => by simp [nullE, this.2 h']⟩
  | case18 st cur bound a rest hnf ih1 =>
    intro hw hl
    have hw' : wfE G nt false a = true ∧ wfE G nt true rest = true := by
      rcases hw with hw | hw
      · simpa [wfE] using hw
      · simpa [wfE] using hw.1
    simp only [leftOK, Bool.and_eq_true] at hl
    have g1 := ih1 (Or.inl hw'.1) hl.1
    refine ⟨g1.1, ?_⟩
    intro st' out cur' h
    have := g1.2 _ _ _ h
    exact ⟨this.1, fun h' => by simp [nullE, this.2 h']⟩
  | case19 st cur bound n body hbody v hrank hlt st2 out2 cur2 hok ih =>
    intro hw hl
    have g := ih (Or.inl (hG.wf n body hbody)) (hG.left n body v hbody hrank)
    refine ⟨fun _ h => Res.noConfusion h, ?_⟩
    intro st' out cur' h; cases h
    have := g.2 _ _ _ hok
    refine ⟨this.1, fun h' => ?_⟩
    have h1 := hG.nul n body hbody (this.2 h')
    simp [nullE, h1]
  | case20 st cur bound n body hbody v hrank hlt hnok ih =>
    intro hw hl
    have g := ih (Or.inl (hG.wf n body hbody)) (hG.left n body v hbody hrank)
    refine ⟨g.1, ?_⟩
    intro st' out cur' h
    exact absurd h (fun h => hnok _ _ _ h)
  | case21 st cur bound n body hbody v hrank hnlt =>
    intro hw hl
    exfalso
    simp only [leftOK, hrank, decide_eq_true_eq] at hl
    exact hnlt hl
  | case22 st cur bound n body hbody hrank =>
    intro hw hl
    exfalso
    obtain ⟨r, hr, _⟩ := hG.ranked n body hbody
    rw [hrank] at hr; cases hr
  | case23 st cur bound n hmiss =>
    intro hw hl
    exfalso
    rcases hw with hw | hw
    · simp only [wfE, Bool.and_eq_true] at hw
      have h1 := hw.1
      first
        | exact Bool.noConfusion h1
        | (split at h1
           · rename_i b hb; exact hmiss b hb
           · exact Bool.noConfusion h1)
    · simp [wfE] at hw
  | case24 st cur bound e h1 h2 h3 h4 h5 h6 h7 =>
    intro hw hl
    have hw' : wfE G nt false e = true := by
      rcases hw with hw | hw
      · exact hw
      · exfalso
        have := hw.1
        cases e <;> simp [wfE] at this
        · exact h5 rfl
        · exact h6 _ _ rfl
    have := evalLeaf_good G nt hG.filler hc e st cur hw' (fun a h => h1 a h) (fun a h => h2 a h) (fun h => h3 h)
      (fun a r h => h4 a r h) (fun h => h5 h) (fun a r h => h6 a r h) (fun n h => h7 n h)
    exact this

end PGA.Ring
