import PGA.Model.ListUtil
namespace PGA
variable {α : Type} [DecidableEq α]

theorem mem_uniq (a : α) (l : List α) : a ∈ uniq l ↔ a ∈ l := by
  induction l with
  | nil => simp [uniq]
  | cons b l ih =>
    unfold uniq
    split
    · rename_i h; rw [ih]; constructor
      · intro h'; exact List.mem_cons_of_mem _ h'
      · intro h'; rcases List.mem_cons.mp h' with rfl | h'
        · exact h
        · exact h'
    · simp [ih]

theorem nodup_uniq (l : List α) : (uniq l).Nodup := by
  induction l with
  | nil => simp [uniq]
  | cons b l ih =>
    unfold uniq
    split
    · exact ih
    · rename_i h; exact List.nodup_cons.mpr ⟨by rwa [mem_uniq], ih⟩

theorem uniq_perm {l l' : List α} (h : ∀ a, a ∈ l ↔ a ∈ l') : (uniq l).Perm (uniq l') := by
  rw [List.perm_iff_count]
  intro a
  rw [(nodup_uniq l).count, (nodup_uniq l').count]
  simp only [mem_uniq, h a]

end PGA
