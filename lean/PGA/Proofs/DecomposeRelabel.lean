import PGA.Proofs.MolIso
import PGA.Proofs.Decompose
import Mathlib.Logic.Function.Basic
/-! The end-to-end model under a renumbering of the atoms: the inputs `toInput S a` and `toInput S a'` of two
isomorphic (aromatised) graphs are related by `Scheme.Relabel … π`. -/
namespace PGA.Decompose
open PGA PGA.Spec PGA.Scheme PGA.Match

variable {π : Nat → Nat} {a a' : Mol}

theorem neighbours_relabel (iso : MolIso π a a') (i : Nat) : (neighbours a' (π i)).Perm ((neighbours a i).map π) := by
  unfold neighbours Mol.bondsOf
  refine ((iso.bonds.filter _).map _).trans ?_
  rw [List.filter_map, List.map_map, List.map_map]
  have e1 : ((fun e : Bond => e.touches (π i)) ∘ relabelBond π) = fun e : Bond => e.touches i := by
    funext e; exact touches_relabel iso.inj e i
  rw [e1]
  apply List.Perm.of_eq
  apply List.map_congr_left
  intro e _
  simp only [Function.comp]
  exact other_relabel iso.inj e i

theorem toFinset_map' (π : Nat → Nat) (f : List Nat) : (f.map π).toFinset = Finset.image π f.toFinset := by
  ext y
  simp only [List.mem_toFinset, List.mem_map, Finset.mem_image]

theorem head?_map_inj (hinj : Function.Injective π) (f : List Nat) (i : Nat) : (f.map π).head? = some (π i) ↔ f.head? = some i := by
  cases f with
  | nil => simp
  | cons x f => simp only [List.map_cons, List.head?_cons, Option.some.injEq]; exact ⟨fun h => hinj h, fun h => by rw [h]⟩

/-- every embedding into the renumbered graph is the renumbering of an assignment into the original one -/
theorem embeds_preimage (iso : MolIso π a a') (q : Query) (f' : List Nat) (E : Embeds q a' f') :
    ∃ f : List Nat, f' = f.map π ∧ ∀ x ∈ f, x < a.natoms := by
  refine ⟨f'.map (Function.invFun π), ?_, ?_⟩
  · rw [List.map_map]
    have : π ∘ Function.invFun π = id := by
      funext y; exact Function.rightInverse_invFun iso.surj y
    rw [this, List.map_id]
  · intro x hx
    obtain ⟨y, hy, rfl⟩ := List.mem_map.1 hx
    have hy' := E.range y hy
    rw [iso.natoms] at hy'
    apply (iso.range _).1
    rw [Function.rightInverse_invFun iso.surj y]
    exact hy'

theorem embeds_iso (iso : MolIso π a a') (ha : a.wf = true) (q : Query) (f : List Nat) (hf : ∀ x ∈ f, x < a.natoms) :
    Embeds q a' (f.map π) ↔ Embeds q a f :=
  (iso.openMap ha (iso.wf ha)).embeds q f hf (fun p _ => iso.molPrefix p)

theorem toInput_relabel (S : SchemeDef) (iso : MolIso π a a') (ha : a.wf = true) (ha' : a'.wf = true)
    (hq : S.wf = true) (hs : S.noStar = true) (hcap : maxRaw S a < maxMatches) (hcap' : maxRaw S a' < maxMatches) :
    Relabel (toInput S a) (toInput S a') π := by
  have D := toInput_declares S a ha hq hs hcap
  have D' := toInput_declares S a' ha' hq hs hcap'
  -- membership in a pattern's match list is transported
  have key : ∀ (q : Query) (ms ms' : List (List Nat)), (∀ f, f ∈ ms ↔ Embeds q a f) → (∀ f, f ∈ ms' ↔ Embeds q a' f) →
      (∀ f, f ∈ ms → f.map π ∈ ms') ∧ (∀ f', f' ∈ ms' → ∃ f, f ∈ ms ∧ f' = f.map π) := by
    intro q ms ms' h h'
    constructor
    · intro f hf
      have E := (h f).1 hf
      exact (h' _).2 ((embeds_iso iso ha q f E.range).2 E)
    · intro f' hf'
      have E' := (h' f').1 hf'
      obtain ⟨f, rfl, hr⟩ := embeds_preimage iso q f' E'
      exact ⟨f, (h f).2 ((embeds_iso iso ha q f hr).1 E'), rfl⟩
  refine ⟨iso.inj, iso.surj, iso.natoms, iso.range, ?_, ?_, ?_, rfl⟩
  · intro i
    show (((List.range a'.natoms).map (neighbours a')).getD (π i) []).Perm
      ((((List.range a.natoms).map (neighbours a)).getD i []).map π)
    by_cases hi : i < a.natoms
    · have hi' : π i < a'.natoms := by rw [iso.natoms]; exact (iso.range i).2 hi
      have e1 : ((List.range a'.natoms).map (neighbours a')).getD (π i) [] = neighbours a' (π i) := by simp [List.getD, hi']
      have e2 : ((List.range a.natoms).map (neighbours a)).getD i [] = neighbours a i := by simp [List.getD, hi]
      rw [e1, e2]; exact neighbours_relabel iso i
    · have hi' : ¬ π i < a'.natoms := by rw [iso.natoms]; exact fun hh => hi ((iso.range i).1 hh)
      have e1 : ((List.range a'.natoms).map (neighbours a')).getD (π i) [] = [] := by simp [List.getD, hi']
      have e2 : ((List.range a.natoms).map (neighbours a)).getD i [] = [] := by simp [List.getD, hi]
      rw [e1, e2]; exact List.Perm.refl _
  · refine forall₂_comp ?_ D.centres D'.centres
    intro c p p' ⟨hc, hp, hm⟩ ⟨hc', hp', hm'⟩
    refine ⟨hc'.trans hc.symm, hp'.trans hp.symm, fun i => ?_⟩
    obtain ⟨k1, k2⟩ := key c.q p.ms p'.ms hm hm'
    simp only [mem_firstAtoms]
    constructor
    · rintro ⟨f', hf', hh⟩
      obtain ⟨f, hf, rfl⟩ := k2 f' hf'
      exact ⟨f, hf, (head?_map_inj iso.inj f i).1 hh⟩
    · rintro ⟨f, hf, hh⟩
      exact ⟨f.map π, k1 f hf, (head?_map_inj iso.inj f i).2 hh⟩
  · refine forall₂_comp ?_ D.descs D'.descs
    intro d p p' ⟨hn, hm⟩ ⟨hn', hm'⟩
    refine ⟨hn'.trans hn.symm, ?_⟩
    obtain ⟨k1, k2⟩ := key d.q p.ms p'.ms hm hm'
    ext s
    simp only [List.mem_toFinset, List.mem_map, Finset.mem_image]
    constructor
    · rintro ⟨f', hf', rfl⟩
      obtain ⟨f, hf, rfl⟩ := k2 f' hf'
      exact ⟨f.toFinset, ⟨f, hf, rfl⟩, (toFinset_map' π f).symm⟩
    · rintro ⟨_, ⟨f, hf, rfl⟩, rfl⟩
      exact ⟨f.map π, k1 f hf, toFinset_map' π f⟩

end PGA.Decompose
