import PGA.Proofs.Thermo
/-! The lines of `raw_data.py` / `incomplete.py` as they were *before* the repairs F5, F6 and F27, and the
concrete witnesses at which the C05 / C06 statements fail for them.  Documentation of why the repairs
were needed; the model in `PGA/Model/Thermo.lean` mirrors the repaired code. -/
namespace PGA.Thermo

/-- a concrete interpolant meeting the assumptions: Cp/R = t/100 (so ∫Cp = (b²−a²)/200, ∫Cp/t = (b−a)/100);
`lg` is any additive function -/
def exIp : Interp :=
  { val := fun t => t / 100, I := fun a b => (b * b - a * a) / 200, J := fun a b => (b - a) / 100, lg := fun a b => b - a }

theorem exIp_good : exIp.Good :=
  ⟨fun a b c => by simp only [exIp]; ring, fun a b c _ _ _ => by simp only [exIp]; ring,
   fun a b c _ _ _ => by simp only [exIp]; ring⟩

/-! ### F5: `return rH + self.max_ND_Cp*(T_b - T_a)/T` (raw_data.py:160 before the repair) -/

/-- `get_HoRT` with the unrepaired line 160 (value after the check of the range) -/
def RawData.hVal_F5 (d : RawData) (T : Rat) : Rat :=
  let stage2 (rH Ta Tb : Rat) : Rat :=
    if Ta ≥ d.maxT then
      if Tb ≥ d.maxT then rH + d.maxCp * (Tb - Ta) / T          -- the defect
      else (rH + d.maxCp * (d.maxT - Ta) + d.ip.I d.maxT Tb) / T
    else if Tb ≥ d.maxT then (rH + d.maxCp * (Tb - d.maxT) + d.ip.I Ta d.maxT) / T
    else (rH + d.ip.I Ta Tb) / T
  if d.Tref ≤ d.minT then
    if T ≤ d.minT then (d.Href * d.Tref + d.minCp * (T - d.Tref)) / T
    else stage2 (d.Href * d.Tref + d.minCp * (d.minT - d.Tref)) d.minT T
  else if T ≤ d.minT then stage2 (d.Href * d.Tref + d.minCp * (T - d.minT)) d.Tref d.minT
  else stage2 (d.Href * d.Tref) d.Tref T

/-- the witness of DESIGN section 4: `ThermochemRawData(2, 3, [300,400], [3,4], T_ref=500, range=(200,600))` -/
def f5Witness : Except Err RawData := RawData.mk exIp 2 3 [(300, 3), (400, 4)] 500 (some (200, 600))

/-- With the unrepaired line, H/RT at the reference temperature is `H_ref·T_ref = 1000`, not `H_ref = 2`
(C05-T1 fails); the repaired model returns 2. -/
theorem F5_breaks_reference_value :
    (match f5Witness with
     | .ok d => decide (d.hVal_F5 500 = 1000) && decide (d.HoRT 500 = .ok 2)
     | .error _ => false) = true := by decide +kernel

/-! ### F6: `self.min_T = Ts[0]; self.max_T = Ts[-1]` taken from the data as supplied -/

/-- the constructor with the unrepaired lines 48-49 (end temperatures from the unsorted input) -/
def RawData.mk_F6 (ip : Interp) (Href Sref : Rat) (pts : List Pt) (Tref : Rat) (range : Option Range) :
    Except Err RawData :=
  match sortPts pts, pts with
  | [], _ => .error .value
  | _, [] => .error .value
  | p0 :: rest, u0 :: urest =>
    let pl := lastPt p0 rest
    let minT := u0.1                              -- Ts[0] of the input
    let maxT := (lastPt u0 urest).1               -- Ts[-1] of the input
    let checked : Except Err Range :=
      match range with
      | none => .ok (minT, maxT)
      | some r => if decide (minT < r.1) || decide (maxT > r.2) then .error .value else .ok r
    match checked with
    | .error e => .error e
    | .ok r =>
      if outsideR r Tref then .error .value
      else if r.2 < r.1 then .error .assertion
      else
        let d : RawData := { pts := p0 :: rest, minT := minT, maxT := maxT, minCp := p0.2, maxCp := pl.2,
                             Href := Href, Sref := Sref, Tref := Tref, range := r, ip := ip }
        match rest with
        | [] => .ok { d with ip := constInterp p0.2 ip }
        | _ :: _ => if strictInc (p0 :: rest) then .ok d else .error .value

def cpAt (r : Except Err RawData) (T : Rat) : Option Rat :=
  match r with
  | .ok d => (match d.CpoR T with | .ok v => some v | .error _ => none)
  | .error _ => none

/-- With the unrepaired lines the same two data points supplied in the other order give a different
`Cp/R` at 350 K (3 instead of 7/2: C05-T6 and T4 fail); the repaired constructor gives 7/2 for both orders. -/
theorem F6_breaks_order_independence :
    cpAt (RawData.mk_F6 exIp 2 3 [(400, 4), (300, 3)] 350 (some (200, 600))) 350 = some 3 ∧
    cpAt (RawData.mk_F6 exIp 2 3 [(300, 3), (400, 4)] 350 (some (200, 600))) 350 = some (7 / 2) ∧
    cpAt (RawData.mk exIp 2 3 [(400, 4), (300, 3)] 350 (some (200, 600))) 350 = some (7 / 2) ∧
    cpAt (RawData.mk exIp 2 3 [(300, 3), (400, 4)] 350 (some (200, 600))) 350 = some (7 / 2) := by decide +kernel

/-! ### F27: no warning at `T == T_ref` outside the declared range (incomplete.py before the repair) -/

/-- the warning condition before the repair: `T != self.T_ref` only -/
def Incomplete.warnNoCp_F27 (c : Incomplete) (T : Rat) : Bool := decide (T ≠ c.Tref)

/-- `ThermochemIncomplete(ND_H_ref=1, T_ref=298.15, range=(300,1000)).get_HoRT(298.15)`: out of range, a value,
and (before the repair) no warning; the repaired model warns. -/
theorem F27_unsignalled_before_repair :
    (match Incomplete.mk exIp (some 1) none [] (5963 / 20) (some (300, 1000)) with
     | .ok c => decide (c.HoRT (5963 / 20) = (.ok 1, true)) && !(c.warnNoCp_F27 (5963 / 20)) && outsideR (300, 1000) (5963 / 20)
     | .error _ => false) = true := by decide +kernel

end PGA.Thermo
