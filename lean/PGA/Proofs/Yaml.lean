import Mathlib.Tactic.Linarith
import Mathlib.Tactic.FieldSimp
import Mathlib.Tactic.Ring
import PGA.Spec.Yaml
/-! Helper lemmas for C12 (and the loading half of C18). -/
namespace PGA.Yaml

@[simp] theorem ok_bind {ε α β} (a : α) (f : α → Except ε β) : (Except.ok a >>= f) = f a := rfl
@[simp] theorem error_bind {ε α β} (e : ε) (f : α → Except ε β) : ((Except.error e : Except ε α) >>= f) = .error e := rfl

/-! ### dimensions and `build` -/

theorem build_of_ne {v : Rat} {d : Dim} (h : d ≠ Dim.zero) : build v d = .qty v d := by
  simp [build, h]

@[simp] theorem build_zero (v : Rat) : build v Dim.zero = .num v := by
  simp [build]

theorem Kind.dim_ne_zero (k : Kind) : k.dim ≠ Dim.zero := by
  cases k <;> decide

@[simp] theorem Dim.sub_self (d : Dim) : d.sub d = Dim.zero := by
  cases d; simp [Dim.sub, Dim.zero]

theorem Dim.sub_eq_zero_iff (a b : Dim) : a.sub b = Dim.zero ↔ a = b := by
  cases a; cases b
  simp only [Dim.sub, Dim.zero, Dim.mk.injEq]
  constructor
  · rintro ⟨h1, h2, h3, h4, h5, h6, h7⟩
    refine ⟨?_, ?_, ?_, ?_, ?_, ?_, ?_⟩ <;> omega
  · rintro ⟨h1, h2, h3, h4, h5, h6, h7⟩
    refine ⟨?_, ?_, ?_, ?_, ?_, ?_, ?_⟩ <;> omega

theorem molarEntropy_add_temperature : Dim.molarEntropy.add Dim.temperature = Dim.molarEnergy := by decide

/-! ### the quantity loader -/

theorem unitOf_eq {tab : UnitTable} {us : String} {u : UnitQ} (h : tab.lookup us = some u) : unitOf tab us = .ok u := by
  simp [unitOf, h]

/-- a value that denotes a quantity loads as that quantity, whichever way it is written -/
theorem qtyLoad_denotes {tab : UnitTable} {units : List (Kind × String)} {k : Kind} {p : Pres} {x : Rat}
    (h : Denotes tab units k p x) : qtyLoad tab units k p.node = .ok (.q (.qty x k.dim)) := by
  cases p with
  | bare v =>
    obtain ⟨us, u, hu, ht, hd, hx⟩ := h
    simp only [Pres.node, qtyLoad, hu, unitOf_eq ht, ok_bind, withUnits, hd, build_of_ne (Kind.dim_ne_zero k), hx]
  | explicit v us =>
    obtain ⟨u, ht, hd, hx⟩ := h
    simp only [Pres.node, qtyLoad, unitOf_eq ht, ok_bind, hd, build_of_ne (Kind.dim_ne_zero k), hx]

/-! ### the object loader: the parameter dictionary is indexed by member name -/

theorem bind_pair_key {n : String} {x : Except LoadErr LVal} {kv : String × LVal}
    (h : (x >>= fun v => (Except.ok (some (n, v)) : Except LoadErr (Option (String × LVal)))) = .ok (some kv)) : kv.1 = n := by
  cases x with
  | error e => simp at h
  | ok v => simp at h; rw [← h]

theorem loadMember_key {tab : UnitTable} {units : List (Kind × String)} {data : List (String × YVal)} {m : Member}
    {kv : String × LVal} (h : loadMember tab units data m = .ok (some kv)) : kv.1 = m.name := by
  unfold loadMember at h
  split at h
  · cases h
  · cases h
  · exact bind_pair_key h
  · exact bind_pair_key h

theorem loadMembers_lookup_not_mem {tab : UnitTable} {units : List (Kind × String)} {data : List (String × YVal)} :
    ∀ (s : Schema) (p : Params), loadMembers tab units data s = .ok p →
      ∀ k, k ∉ s.map Member.name → p.lookup k = none := by
  intro s
  induction s with
  | nil => intro p h k _; simp [loadMembers] at h; subst h; rfl
  | cons m ms ih =>
    intro p h k hk
    simp only [List.map_cons, List.mem_cons, not_or] at hk
    unfold loadMembers at h
    cases hm : loadMember tab units data m with
    | error e => simp [hm] at h
    | ok r =>
      cases hr : loadMembers tab units data ms with
      | error e => simp [hm, hr] at h
      | ok rest =>
        simp only [hm, hr, ok_bind] at h
        have hrest := ih rest hr k hk.2
        cases r with
        | none => simp at h; subst h; exact hrest
        | some kv =>
          simp at h; subst h
          have hkey := loadMember_key hm
          have : (k == kv.1) = false := by
            rw [hkey]; simp; exact hk.1
          obtain ⟨k1, v1⟩ := kv
          simp only [List.lookup]
          simp only at this
          rw [this]; exact hrest

theorem loadMembers_lookup {tab : UnitTable} {units : List (Kind × String)} {data : List (String × YVal)} :
    ∀ (s : Schema) (p : Params), (s.map Member.name).Nodup → loadMembers tab units data s = .ok p →
      ∀ m ∈ s, ∃ r, loadMember tab units data m = .ok r ∧ p.lookup m.name = r.map Prod.snd := by
  intro s
  induction s with
  | nil => intro p _ _ m hm; simp at hm
  | cons m0 ms ih =>
    intro p hnd h m hm
    simp only [List.map_cons, List.nodup_cons] at hnd
    unfold loadMembers at h
    cases hm0 : loadMember tab units data m0 with
    | error e => simp [hm0] at h
    | ok r =>
      cases hr : loadMembers tab units data ms with
      | error e => simp [hm0, hr] at h
      | ok rest =>
        simp only [hm0, hr, ok_bind] at h
        rcases List.mem_cons.mp hm with rfl | hm'
        · refine ⟨r, hm0, ?_⟩
          cases r with
          | none =>
            simp at h; subst h
            simpa using loadMembers_lookup_not_mem ms rest hr m.name hnd.1
          | some kv =>
            simp at h; subst h
            have hkey := loadMember_key hm0
            obtain ⟨k1, v1⟩ := kv
            simp only at hkey
            subst hkey
            simp [List.lookup]
        · obtain ⟨r', hr', hl⟩ := ih rest hnd.2 hr m hm'
          refine ⟨r', hr', ?_⟩
          have hne : m.name ≠ m0.name := by
            intro heq
            exact hnd.1 (heq ▸ List.mem_map_of_mem hm')
          cases r with
          | none => simp at h; subst h; exact hl
          | some kv =>
            simp at h; subst h
            have hkey := loadMember_key hm0
            obtain ⟨k1, v1⟩ := kv
            simp only at hkey
            subst hkey
            simp only [List.lookup]
            have : (m.name == m0.name) = false := by simpa using hne
            rw [this]; exact hl

theorem loadMembers_ok {tab : UnitTable} {units : List (Kind × String)} {data : List (String × YVal)} :
    ∀ (s : Schema), (∀ m ∈ s, ∃ r, loadMember tab units data m = .ok r) → ∃ p, loadMembers tab units data s = .ok p := by
  intro s
  induction s with
  | nil => intro _; exact ⟨[], rfl⟩
  | cons m ms ih =>
    intro h
    obtain ⟨r, hr⟩ := h m (by simp)
    obtain ⟨p, hp⟩ := ih (fun m' hm' => h m' (by simp [hm']))
    unfold loadMembers
    simp only [hr, hp, ok_bind]
    cases r with
    | none => exact ⟨p, rfl⟩
    | some kv => exact ⟨kv :: p, rfl⟩

theorem loadMembers_error {tab : UnitTable} {units : List (Kind × String)} {data : List (String × YVal)} :
    ∀ (s : Schema) (m : Member), m ∈ s → (∃ e, loadMember tab units data m = .error e) →
      ∃ e, loadMembers tab units data s = .error e := by
  intro s
  induction s with
  | nil => intro m hm; simp at hm
  | cons m0 ms ih =>
    intro m hm he
    unfold loadMembers
    cases hm0 : loadMember tab units data m0 with
    | error e => exact ⟨e, by simp⟩
    | ok r =>
      rcases List.mem_cons.mp hm with rfl | hm'
      · obtain ⟨e, he⟩ := he; rw [hm0] at he; cases he
      · obtain ⟨e, he'⟩ := ih m hm' he
        exact ⟨e, by simp [he']⟩

/-! ### dictionaries: mapping the values commutes with everything that only looks at keys -/

def mapVal {V W : Type} (f : V → W) (l : List (Rat × V)) : List (Rat × W) := l.map fun kv => (kv.1, f kv.2)

theorem dinsert_mapVal {V W : Type} (f : V → W) (k : Rat) (v : V) (l : List (Rat × V)) :
    dinsert k (f v) (mapVal f l) = mapVal f (dinsert k v l) := by
  induction l with
  | nil => rfl
  | cons kv l ih =>
    obtain ⟨k', v'⟩ := kv
    simp only [mapVal, List.map_cons, dinsert] at ih ⊢
    split <;> simp_all

theorem foldl_dinsert_mapVal {V W : Type} (f : V → W) (l acc : List (Rat × V)) :
    (mapVal f l).foldl (fun d kv => dinsert kv.1 kv.2 d) (mapVal f acc)
      = mapVal f (l.foldl (fun d kv => dinsert kv.1 kv.2 d) acc) := by
  induction l generalizing acc with
  | nil => rfl
  | cons kv l ih =>
    simp only [mapVal, List.map_cons, List.foldl_cons]
    have := dinsert_mapVal f kv.1 kv.2 acc
    simp only [mapVal] at this ih
    rw [this]
    exact ih _

theorem dictOfList_mapVal {V W : Type} (f : V → W) (l : List (Rat × V)) :
    dictOfList (mapVal f l) = mapVal f (dictOfList l) := by
  unfold dictOfList
  exact foldl_dinsert_mapVal f l []

theorem minKey_mapVal {V W : Type} (f : V → W) (l : List (Rat × V)) : minKey (mapVal f l) = minKey l := by
  induction l with
  | nil => rfl
  | cons kv l ih =>
    obtain ⟨k, v⟩ := kv
    simp only [mapVal, List.map_cons, minKey] at ih ⊢
    rw [ih]

theorem maxKey_mapVal {V W : Type} (f : V → W) (l : List (Rat × V)) : maxKey (mapVal f l) = maxKey l := by
  induction l with
  | nil => rfl
  | cons kv l ih =>
    obtain ⟨k, v⟩ := kv
    simp only [mapVal, List.map_cons, maxKey] at ih ⊢
    rw [ih]

theorem checkValid_mapVal {V W : Type} (f : V → W) (l : List (Rat × V)) (T : Rat) (r : Option (Rat × Rat)) :
    checkValid (mapVal f l) T r = checkValid l T r := by
  simp only [checkValid, setupCheck, minKey_mapVal, maxKey_mapVal]

theorem embed_cp (L : CorrOf Rat) : (embed L).cp = mapVal QV.num L.cp := rfl

/-! ### the members of the thermochemistry schema -/

def mRange : Member := ⟨"range", .optional, .pair (.qty .temperature) (.qty .temperature)⟩
def mTref : Member := ⟨"T_ref", .default (.qstr (29815 / 100) "K"), .qty .temperature⟩
def mNdCp : Member := ⟨"ND_Cp_data", .optional, .list (.pair (.qty .temperature) .float)⟩
def mNdH : Member := ⟨"ND_H_ref", .optional, .float⟩
def mNdS : Member := ⟨"ND_S_ref", .optional, .float⟩
def mCp : Member := ⟨"Cp_data", .optional, .list (.pair (.qty .temperature) (.qty .molarHeatCapacity))⟩
def mH : Member := ⟨"H_ref", .optional, .qty .molarEnthalpy⟩
def mS : Member := ⟨"S_ref", .optional, .qty .molarEntropy⟩

theorem thermoSchema_eq : thermoSchema = [mRange, mTref, mNdCp, mNdH, mNdS, mCp, mH, mS] := rfl

theorem thermoSchema_nodup : (thermoSchema.map Member.name).Nodup := by decide

section members
variable {tab : UnitTable} {units : List (Kind × String)} {data : List (String × YVal)}

theorem member_optional_absent {n : String} {ty : Ty} (h : data.lookup n = none) :
    loadMember tab units data ⟨n, .optional, ty⟩ = .ok none := by
  simp [loadMember, h]

theorem member_present {n : String} {mode : Mode} {ty : Ty} {x : YVal} {v : LVal} (h : data.lookup n = some x)
    (hl : load tab units ty x = .ok v) : loadMember tab units data ⟨n, mode, ty⟩ = .ok (some (n, v)) := by
  cases mode <;> simp [loadMember, h, hl]

theorem member_default {n : String} {d : YVal} {ty : Ty} {v : LVal} (h : data.lookup n = none)
    (hl : load tab units ty d = .ok v) : loadMember tab units data ⟨n, .default d, ty⟩ = .ok (some (n, v)) := by
  simp [loadMember, h, hl]

theorem load_qty {k : Kind} {p : Pres} {x : Rat} (h : Denotes tab units k p x) :
    load tab units (.qty k) p.node = .ok (.q (.qty x k.dim)) := by
  simp [load, qtyLoad_denotes h]

theorem load_pair_T {a b : Pres} {lo hi : Rat} (ha : Denotes tab units .temperature a lo)
    (hb : Denotes tab units .temperature b hi) :
    load tab units (.pair (.qty .temperature) (.qty .temperature)) (.seq [a.node, b.node])
      = .ok (.pair (.q (.qty lo Dim.temperature)) (.q (.qty hi Dim.temperature))) := by
  simp [load, qtyLoad_denotes ha, qtyLoad_denotes hb, Kind.dim]

/-- loaded rows of a dimensional table -/
def dimRowsL (r : Rat) : List (Rat × Rat) → List LVal
  | [] => []
  | (T, v) :: pts => .pair (.q (.qty T Dim.temperature)) (.q (.qty (v * r) Dim.molarEntropy)) :: dimRowsL r pts

def ndRowsL : List (Rat × Rat) → List LVal
  | [] => []
  | (T, v) :: pts => .pair (.q (.qty T Dim.temperature)) (.f v) :: ndRowsL pts

theorem load_list_seq (item : Ty) (l : List YVal) :
    load tab units (.list item) (.seq l) = (l.mapM (load tab units item) >>= fun l' => .ok (.list l')) := by
  rw [load]

theorem load_row_dim {pT pc : Pres} {T c : Rat} (hT : Denotes tab units .temperature pT T)
    (hc : Denotes tab units .molarHeatCapacity pc c) :
    load tab units (.pair (.qty .temperature) (.qty .molarHeatCapacity)) (.seq [pT.node, pc.node])
      = .ok (.pair (.q (.qty T Dim.temperature)) (.q (.qty c Dim.molarEntropy))) := by
  simp [load, qtyLoad_denotes hT, qtyLoad_denotes hc, Kind.dim]

theorem load_row_nd {pT : Pres} {T x : Rat} (hT : Denotes tab units .temperature pT T) :
    load tab units (.pair (.qty .temperature) .float) (.seq [pT.node, .num x])
      = .ok (.pair (.q (.qty T Dim.temperature)) (.f x)) := by
  simp [load, qtyLoad_denotes hT, floatLoad, Kind.dim]

theorem mapM_dimRows {r : Rat} (hr : r ≠ 0) :
    ∀ (rows : List (Pres × Pres)) (pts : List (Rat × Rat)), DimRowsDenote tab units r rows pts →
      (rows.map fun x => YVal.seq [x.1.node, x.2.node]).mapM
        (load tab units (.pair (.qty .temperature) (.qty .molarHeatCapacity))) = .ok (dimRowsL r pts) := by
  intro rows
  induction rows with
  | nil =>
    intro pts h
    cases pts with
    | nil => rfl
    | cons _ _ => simp [DimRowsDenote] at h
  | cons row rows ih =>
    intro pts h
    obtain ⟨pT, pc⟩ := row
    cases pts with
    | nil => simp [DimRowsDenote] at h
    | cons pt pts =>
      obtain ⟨T, v⟩ := pt
      obtain ⟨hT, ⟨c, hc, hv⟩, hrest⟩ := h
      have hcv : c = v * r := by rw [hv]; field_simp
      rw [List.map_cons, List.mapM_cons, load_row_dim hT hc, ih pts hrest, hcv]
      rfl

theorem mapM_ndRows :
    ∀ (rows : List (Pres × Rat)) (pts : List (Rat × Rat)), NdRowsDenote tab units rows pts →
      (rows.map fun x => YVal.seq [x.1.node, YVal.num x.2]).mapM
        (load tab units (.pair (.qty .temperature) .float)) = .ok (ndRowsL pts) := by
  intro rows
  induction rows with
  | nil =>
    intro pts h
    cases pts with
    | nil => rfl
    | cons _ _ => simp [NdRowsDenote] at h
  | cons row rows ih =>
    intro pts h
    obtain ⟨pT, x⟩ := row
    cases pts with
    | nil => simp [NdRowsDenote] at h
    | cons pt pts =>
      obtain ⟨T, v⟩ := pt
      obtain ⟨hT, hv, hrest⟩ := h
      rw [List.map_cons, List.mapM_cons, load_row_nd hT, ih pts hrest, hv]
      rfl

end members

/-! ### `yaml_construct` on the loaded parameters -/

theorem inUnits_kelvin (T : Rat) : (QV.qty T Dim.temperature).inUnits ⟨1, Dim.temperature⟩ = .ok T := by
  simp [QV.inUnits]

theorem cpPoints_dim {r : Rat} (hr : r ≠ 0) (pts : List (Rat × Rat)) :
    cpPoints ⟨1, Dim.temperature⟩ (dimValue (.qty r Dim.molarEntropy)) (dimRowsL r pts) = .ok (mapVal QV.num pts) := by
  induction pts with
  | nil => rfl
  | cons pt pts ih =>
    obtain ⟨T, v⟩ := pt
    have hv : v * r / r = v := by field_simp
    simp only [dimRowsL, cpPoints, inUnits_kelvin, ok_bind, dimValue, QV.div, QV.value, hr, if_false, QV.dim,
      Dim.sub_self, build_zero, ih, hv]
    rfl

theorem cpPoints_nd (pts : List (Rat × Rat)) :
    cpPoints ⟨1, Dim.temperature⟩ ndValue (ndRowsL pts) = .ok (mapVal QV.num pts) := by
  induction pts with
  | nil => rfl
  | cons pt pts ih =>
    obtain ⟨T, v⟩ := pt
    simp only [ndRowsL, cpPoints, inUnits_kelvin, ok_bind, ndValue, ih]
    rfl

theorem dimRowsL_eq_nil {r : Rat} {pts : List (Rat × Rat)} : dimRowsL r pts = [] ↔ pts = [] := by
  cases pts with
  | nil => simp [dimRowsL]
  | cons pt pts => obtain ⟨T, v⟩ := pt; simp [dimRowsL]

theorem ndRowsL_eq_nil {pts : List (Rat × Rat)} : ndRowsL pts = [] ↔ pts = [] := by
  cases pts with
  | nil => simp [ndRowsL]
  | cons pt pts => obtain ⟨T, v⟩ := pt; simp [ndRowsL]

theorem R_mul_T (r T : Rat) :
    (QV.qty r Dim.molarEntropy).mul (.qty T Dim.temperature) = .qty (r * T) Dim.molarEnergy := by
  simp only [QV.mul, QV.value, QV.dim, molarEntropy_add_temperature]
  exact build_of_ne (by decide)

theorem div_energy {h x : Rat} (hx : x ≠ 0) :
    (QV.qty h Dim.molarEnergy).div (.qty x Dim.molarEnergy) = .ok (.num (h / x)) := by
  simp [QV.div, QV.value, QV.dim, hx]

theorem div_entropy {s x : Rat} (hx : x ≠ 0) :
    (QV.qty s Dim.molarEntropy).div (.qty x Dim.molarEntropy) = .ok (.num (s / x)) := by
  simp [QV.div, QV.value, QV.dim, hx]

/-! ### what each member of a rendered entry loads to -/

section entry
variable {tab : UnitTable} {R : QV} {K : UnitQ} {r : Rat} {units : List (Kind × String)} {data : List (String × YVal)}
  {e : EntryPres} {L : CorrOf Rat}

theorem mem_Tref (env : EnvOK tab R K r) (hr : Renders data e) (hd : EntryDenotes tab units r e L) :
    loadMember tab units data mTref = .ok (some ("T_ref", .q (.qty L.Tref Dim.temperature))) := by
  have h1 := hr.tref
  have h2 := hd.tref
  cases hT : e.Tref with
  | none =>
    rw [hT] at h1 h2
    simp only [Option.map_none] at h1
    simp only at h2
    apply member_default h1
    simp [load, qtyLoad, unitOf, env.K_tab, h2, build_of_ne (show Dim.temperature ≠ Dim.zero by decide)]
  | some p =>
    rw [hT] at h1 h2
    simp only [Option.map_some] at h1
    simp only at h2
    exact member_present h1 (load_qty h2)

theorem mem_range (hr : Renders data e) (hd : EntryDenotes tab units r e L) :
    loadMember tab units data mRange = .ok (L.range.map fun x =>
      ("range", .pair (.q (.qty x.1 Dim.temperature)) (.q (.qty x.2 Dim.temperature)))) := by
  have h1 := hr.range
  have h2 := hd.range
  cases hR : e.range with
  | none =>
    rw [hR] at h1 h2
    simp only [Option.map_none] at h1
    simp only at h2
    rw [h2]
    exact member_optional_absent h1
  | some ab =>
    obtain ⟨a, b⟩ := ab
    rw [hR] at h1 h2
    simp only [Option.map_some] at h1
    obtain ⟨lo, hi, ha, hb, hL⟩ := h2
    rw [hL]
    exact member_present h1 (load_pair_T ha hb)

theorem mem_NdH (hr : Renders data e) :
    loadMember tab units data mNdH = .ok (match e.H with | some (.nd x) => some ("ND_H_ref", .f x) | _ => none) := by
  have h1 := hr.h_nd
  cases hH : e.H with
  | none => rw [hH] at h1; exact member_optional_absent h1
  | some rp =>
    cases rp with
    | dim p => rw [hH] at h1; exact member_optional_absent h1
    | nd x => rw [hH] at h1; exact member_present h1 (by simp [load, floatLoad])

theorem mem_NdS (hr : Renders data e) :
    loadMember tab units data mNdS = .ok (match e.S with | some (.nd x) => some ("ND_S_ref", .f x) | _ => none) := by
  have h1 := hr.s_nd
  cases hS : e.S with
  | none => rw [hS] at h1; exact member_optional_absent h1
  | some rp =>
    cases rp with
    | dim p => rw [hS] at h1; exact member_optional_absent h1
    | nd x => rw [hS] at h1; exact member_present h1 (by simp [load, floatLoad])

theorem mem_H (hr : Renders data e) (hd : EntryDenotes tab units r e L) (hrT : r * L.Tref ≠ 0) :
    loadMember tab units data mH = .ok (match e.H with
      | some (.dim _) => some ("H_ref", .q (.qty ((L.H.getD 0) * (r * L.Tref)) Dim.molarEnergy))
      | _ => none) := by
  have h1 := hr.h_dim
  have h2 := hd.h
  cases hH : e.H with
  | none => rw [hH] at h1; exact member_optional_absent h1
  | some rp =>
    cases rp with
    | nd x => rw [hH] at h1; exact member_optional_absent h1
    | dim p =>
      rw [hH] at h1 h2
      obtain ⟨h, hden, hL⟩ := h2
      have : (L.H.getD 0) * (r * L.Tref) = h := by
        rw [hL]; simp only [Option.getD_some]; exact div_mul_cancel₀ h hrT
      simp only [this]
      exact member_present h1 (load_qty hden)

theorem mem_S (hr : Renders data e) (hd : EntryDenotes tab units r e L) (hr0 : r ≠ 0) :
    loadMember tab units data mS = .ok (match e.S with
      | some (.dim _) => some ("S_ref", .q (.qty ((L.S.getD 0) * r) Dim.molarEntropy))
      | _ => none) := by
  have h1 := hr.s_dim
  have h2 := hd.s
  cases hS : e.S with
  | none => rw [hS] at h1; exact member_optional_absent h1
  | some rp =>
    cases rp with
    | nd x => rw [hS] at h1; exact member_optional_absent h1
    | dim p =>
      rw [hS] at h1 h2
      obtain ⟨s, hden, hL⟩ := h2
      have : (L.S.getD 0) * r = s := by
        rw [hL]; simp only [Option.getD_some]; exact div_mul_cancel₀ s hr0
      simp only [this]
      exact member_present h1 (load_qty hden)

theorem mem_Cp (hr : Renders data e) (hd : EntryDenotes tab units r e L) (hr0 : r ≠ 0) :
    ∃ pts, L.cp = dictOfList pts ∧ (e.cp = none → pts = []) ∧
      loadMember tab units data mCp = .ok (match e.cp with
        | some (.dim _) => some ("Cp_data", .list (dimRowsL r pts)) | _ => none) ∧
      loadMember tab units data mNdCp = .ok (match e.cp with
        | some (.nd _) => some ("ND_Cp_data", .list (ndRowsL pts)) | _ => none) := by
  have h1 := hr.cp_dim
  have h2 := hr.cp_nd
  have h3 := hd.cp
  cases hC : e.cp with
  | none =>
    rw [hC] at h1 h2 h3
    exact ⟨[], by simpa [dictOfList] using h3, fun _ => rfl, member_optional_absent h1, member_optional_absent h2⟩
  | some cpp =>
    cases cpp with
    | dim rows =>
      rw [hC] at h1 h2 h3
      obtain ⟨pts, hrows, hL⟩ := h3
      refine ⟨pts, hL, (fun h => by cases h), ?_, member_optional_absent h2⟩
      apply member_present h1
      simp only [CpPres.node, load_list_seq, mapM_dimRows hr0 rows pts hrows, ok_bind]
    | nd rows =>
      rw [hC] at h1 h2 h3
      obtain ⟨pts, hrows, hL⟩ := h3
      refine ⟨pts, hL, (fun h => by cases h), member_optional_absent h1, ?_⟩
      apply member_present h2
      simp only [CpPres.node, load_list_seq, mapM_ndRows rows pts hrows, ok_bind]

/-- **Loading is the denotation.**  An entry that denotes the non-dimensional correlation `L` (consistent, `T_ref ≠ 0`)
loads to exactly `L`, every value a plain number — however its values are written. -/
theorem loadEntry_denotes (env : EnvOK tab R K r) (hr : Renders data e) (hd : EntryDenotes tab units r e L)
    (hT : L.Tref ≠ 0) (hv : checkValid L.cp L.Tref L.range = .ok ()) :
    loadEntry tab R K units (.map data) = .ok (embed L) := by
  have hr0 := env.r_ne
  have hrT : r * L.Tref ≠ 0 := mul_ne_zero hr0 hT
  obtain ⟨pts, hpts, hnil, hCp, hNdCp⟩ := mem_Cp hr hd hr0
  have hall : ∀ m ∈ thermoSchema, ∃ x, loadMember tab units data m = .ok x := by
    intro m hm
    rw [thermoSchema_eq] at hm
    simp only [List.mem_cons, List.not_mem_nil, or_false] at hm
    rcases hm with rfl | rfl | rfl | rfl | rfl | rfl | rfl | rfl
    · exact ⟨_, mem_range hr hd⟩
    · exact ⟨_, mem_Tref env hr hd⟩
    · exact ⟨_, hNdCp⟩
    · exact ⟨_, mem_NdH hr⟩
    · exact ⟨_, mem_NdS hr⟩
    · exact ⟨_, hCp⟩
    · exact ⟨_, mem_H hr hd hrT⟩
    · exact ⟨_, mem_S hr hd hr0⟩
  obtain ⟨p, hp⟩ := loadMembers_ok thermoSchema hall
  have look : ∀ m ∈ thermoSchema, ∀ x, loadMember tab units data m = .ok x → p.lookup m.name = x.map Prod.snd := by
    intro m hm x hx
    obtain ⟨x', hx', hl⟩ := loadMembers_lookup thermoSchema p thermoSchema_nodup hp m hm
    rw [hx] at hx'; cases hx'; exact hl
  have mem : ∀ m, m ∈ [mRange, mTref, mNdCp, mNdH, mNdS, mCp, mH, mS] → m ∈ thermoSchema := fun m h => thermoSchema_eq ▸ h
  have lRange := look mRange (mem _ (by simp)) _ (mem_range hr hd)
  have lTref := look mTref (mem _ (by simp)) _ (mem_Tref env hr hd)
  have lNdCp := look mNdCp (mem _ (by simp)) _ hNdCp
  have lNdH := look mNdH (mem _ (by simp)) _ (mem_NdH hr)
  have lNdS := look mNdS (mem _ (by simp)) _ (mem_NdS hr)
  have lCp := look mCp (mem _ (by simp)) _ hCp
  have lH := look mH (mem _ (by simp)) _ (mem_H hr hd hrT)
  have lS := look mS (mem _ (by simp)) _ (mem_S hr hd hr0)
  simp only [mRange, mTref, mNdCp, mNdH, mNdS, mCp, mH, mS] at lRange lTref lNdCp lNdH lNdS lCp lH lS
  -- the parts of `yaml_construct`
  have eR := env.R_eq
  have eK := env.K_eq
  have cT : cTref p = .ok (.qty L.Tref Dim.temperature) := by simp [cTref, lTref]
  have cHh : cH R (.qty L.Tref Dim.temperature) p = .ok (L.H.map QV.num) := by
    have h2 := hd.h
    cases hH : e.H with
    | none => rw [hH] at lNdH lH h2; simp [cH, getF, getQ, lNdH, lH, h2]
    | some rp =>
      cases rp with
      | nd x => rw [hH] at lNdH lH h2; simp [cH, getF, lNdH, h2]
      | dim pp =>
        rw [hH] at lNdH lH h2
        obtain ⟨h, _, hL⟩ := h2
        simp only [cH, getF, getQ, lNdH, lH, Option.map_none, Option.map_some, eR, R_mul_T, div_energy hrT, hL,
          Option.getD_some]
        congr 2
        rw [div_mul_cancel₀ h hrT]
  have cSs : cS R p = .ok (L.S.map QV.num) := by
    have h2 := hd.s
    cases hS : e.S with
    | none => rw [hS] at lNdS lS h2; simp [cS, getF, getQ, lNdS, lS, h2]
    | some rp =>
      cases rp with
      | nd x => rw [hS] at lNdS lS h2; simp [cS, getF, lNdS, h2]
      | dim pp =>
        rw [hS] at lNdS lS h2
        obtain ⟨s0, _, hL⟩ := h2
        simp only [cS, getF, getQ, lNdS, lS, Option.map_none, Option.map_some, eR, div_entropy hr0, hL,
          Option.getD_some]
        congr 2
        rw [div_mul_cancel₀ s0 hr0]
  have cC : cCp R K p = .ok (mapVal QV.num pts) := by
    rw [eR, eK]
    cases hC : e.cp with
    | none =>
      rw [hC] at lNdCp lCp
      rw [hnil hC]
      simp [cCp, lNdCp, lCp, mapVal]
    | some cpp =>
      cases cpp with
      | dim rows =>
        rw [hC] at lNdCp lCp
        simp only [Option.map_none, Option.map_some] at lNdCp lCp
        cases pts with
        | nil => simp [cCp, lNdCp, lCp, dimRowsL, mapVal]
        | cons pt pts' =>
          obtain ⟨T, v⟩ := pt
          have := cpPoints_dim hr0 ((T, v) :: pts')
          simp only [dimRowsL] at this lCp
          simp only [cCp, lNdCp, lCp, this]
      | nd rows =>
        rw [hC] at lNdCp lCp
        simp only [Option.map_none, Option.map_some] at lNdCp lCp
        cases pts with
        | nil => simp [cCp, lNdCp, lCp, ndRowsL, mapVal]
        | cons pt pts' =>
          obtain ⟨T, v⟩ := pt
          have := cpPoints_nd ((T, v) :: pts')
          simp only [ndRowsL] at this lNdCp
          simp only [cCp, lNdCp, this]
  have cR : rangeOf K (p.lookup "range") = .ok L.range := by
    rw [eK, lRange]
    cases hR : L.range with
    | none => simp [rangeOf]
    | some lh => obtain ⟨lo, hi⟩ := lh; simp [rangeOf, inUnits_kelvin]
  have cI : (QV.qty L.Tref Dim.temperature).inUnits K = .ok L.Tref := by rw [eK]; exact inUnits_kelvin _
  have cV : checkValid (dictOfList (mapVal QV.num pts)) L.Tref L.range = .ok () := by
    rw [dictOfList_mapVal, checkValid_mapVal, ← hpts]; exact hv
  simp only [loadEntry, hp, ok_bind, construct, cT, cHh, cSs, cC, cR, cI, cV]
  have := dictOfList_mapVal QV.num pts
  rw [this, ← hpts]
  rfl

end entry

/-! ### rejection: a value with no unit available, anywhere in an entry -/

/-- somewhere inside the value `x` of schema type `ty` there is a bare number of a kind for which the file has no
default unit -/
inductive HasBareNoUnit (units : List (Kind × String)) : Ty → YVal → Prop
  | here (k : Kind) (v : Rat) (h : units.lookup k = none) : HasBareNoUnit units (.qty k) (.num v)
  | left (a b : Ty) (x y : YVal) (h : HasBareNoUnit units a x) : HasBareNoUnit units (.pair a b) (.seq [x, y])
  | right (a b : Ty) (x y : YVal) (h : HasBareNoUnit units b y) : HasBareNoUnit units (.pair a b) (.seq [x, y])
  | item (t : Ty) (l : List YVal) (x : YVal) (hx : x ∈ l) (h : HasBareNoUnit units t x) : HasBareNoUnit units (.list t) (.seq l)

theorem mapM_error_of_mem {α β ε : Type} (f : α → Except ε β) :
    ∀ (l : List α) (x : α), x ∈ l → (∃ e, f x = .error e) → ∃ e, l.mapM f = .error e := by
  intro l
  induction l with
  | nil => intro x hx; simp at hx
  | cons a l ih =>
    intro x hx he
    rw [List.mapM_cons]
    cases ha : f a with
    | error e => exact ⟨e, by simp⟩
    | ok b =>
      rcases List.mem_cons.mp hx with rfl | hx'
      · obtain ⟨e, he⟩ := he; rw [ha] at he; cases he
      · obtain ⟨e, he'⟩ := ih x hx' he
        exact ⟨e, by simp [he']⟩

theorem load_error_of_bare {tab : UnitTable} {units : List (Kind × String)} {ty : Ty} {x : YVal}
    (h : HasBareNoUnit units ty x) : ∃ e, load tab units ty x = .error e := by
  induction h with
  | here k v h => exact ⟨.inputData, by simp [load, qtyLoad, h]⟩
  | left a b x y _ ih =>
    obtain ⟨e, he⟩ := ih
    exact ⟨e, by rw [load]; simp [he]⟩
  | right a b x y _ ih =>
    obtain ⟨e, he⟩ := ih
    rw [load]
    cases hx : load tab units a x with
    | error e' => exact ⟨e', by simp⟩
    | ok x' => exact ⟨e, by simp [he]⟩
  | item t l x hx _ ih =>
    obtain ⟨e, he⟩ := mapM_error_of_mem (load tab units t) l x hx ih
    exact ⟨e, by rw [load]; simp [he]⟩

theorem loadMember_error_of_present {tab : UnitTable} {units : List (Kind × String)} {data : List (String × YVal)}
    {m : Member} {x : YVal} (hx : data.lookup m.name = some x) (he : ∃ e, load tab units m.ty x = .error e) :
    ∃ e, loadMember tab units data m = .error e := by
  obtain ⟨e, he⟩ := he
  refine ⟨e, ?_⟩
  unfold loadMember
  rw [hx]
  cases m.mode <;> simp [he]

theorem loadEntry_error_of_member {tab : UnitTable} {R : QV} {K : UnitQ} {units : List (Kind × String)}
    {data : List (String × YVal)} {m : Member} {x : YVal} (hm : m ∈ thermoSchema) (hx : data.lookup m.name = some x)
    (he : ∃ e, load tab units m.ty x = .error e) : ∃ e, loadEntry tab R K units (.map data) = .error e := by
  obtain ⟨e, he'⟩ := loadMembers_error thermoSchema m hm (loadMember_error_of_present hx he)
  exact ⟨e, by simp [loadEntry, he']⟩

/-! ### unpacking a successful load -/

theorem bind_eq_ok {ε α β : Type} {x : Except ε α} {f : α → Except ε β} {b : β} (h : (x >>= f) = .ok b) :
    ∃ a, x = .ok a ∧ f a = .ok b := by
  cases x with
  | error e => simp at h
  | ok a => exact ⟨a, rfl, by simpa using h⟩

/-- what a successful `loadEntry` went through -/
theorem loadEntry_ok_inv {tab : UnitTable} {R : QV} {K : UnitQ} {units : List (Kind × String)}
    {data : List (String × YVal)} {c : Loaded} (h : loadEntry tab R K units (.map data) = .ok c) :
    ∃ p Tq cp, loadMembers tab units data thermoSchema = .ok p ∧ cTref p = .ok Tq ∧ cH R Tq p = .ok c.H ∧
      cS R p = .ok c.S ∧ cCp R K p = .ok cp ∧ c.cp = dictOfList cp ∧ Tq.inUnits K = .ok c.Tref := by
  simp only [loadEntry] at h
  obtain ⟨p, hp, h⟩ := bind_eq_ok h
  cases hc : construct R K p with
  | error e => simp [hc] at h
  | ok c' =>
    simp only [hc] at h
    cases h
    unfold construct at hc
    obtain ⟨Tq, h1, hc⟩ := bind_eq_ok hc
    obtain ⟨H, h2, hc⟩ := bind_eq_ok hc
    obtain ⟨S, h3, hc⟩ := bind_eq_ok hc
    obtain ⟨cp, h4, hc⟩ := bind_eq_ok hc
    obtain ⟨range, h5, hc⟩ := bind_eq_ok hc
    obtain ⟨Tref, h6, hc⟩ := bind_eq_ok hc
    obtain ⟨_, h7, hc⟩ := bind_eq_ok hc
    cases hc
    exact ⟨p, Tq, cp, hp, h1, h2, h3, h4, rfl, h6⟩

theorem inUnits_ok_dim {q : QV} {u : UnitQ} {x : Rat} (h : q.inUnits u = .ok x) : ∃ v, q = .qty v u.dim := by
  cases q with
  | num v => simp [QV.inUnits] at h
  | qty v d =>
    refine ⟨v, ?_⟩
    simp only [QV.inUnits] at h
    split at h
    · cases h
    · by_cases hd : d.sub u.dim = Dim.zero
      · rw [(Dim.sub_eq_zero_iff d u.dim).mp hd]
      · rw [build_of_ne hd] at h; simp at h

theorem lookup_of_member {tab : UnitTable} {units : List (Kind × String)} {data : List (String × YVal)} {p : Params}
    (hp : loadMembers tab units data thermoSchema = .ok p) {m : Member} (hm : m ∈ thermoSchema)
    {x : Option (String × LVal)} (hx : loadMember tab units data m = .ok x) : p.lookup m.name = x.map Prod.snd := by
  obtain ⟨x', hx', hl⟩ := loadMembers_lookup thermoSchema p thermoSchema_nodup hp m hm
  rw [hx] at hx'; cases hx'; exact hl

/-! ### wrong dimension in the table -/

theorem mapM_ok_forall₂ {α β ε : Type} (f : α → Except ε β) :
    ∀ (l : List α) (ls : List β), l.mapM f = .ok ls → List.Forall₂ (fun a b => f a = .ok b) l ls := by
  intro l
  induction l with
  | nil => intro ls h; simp at h; cases h; exact List.Forall₂.nil
  | cons a l ih =>
    intro ls h
    rw [List.mapM_cons] at h
    obtain ⟨b, hb, h⟩ := bind_eq_ok h
    obtain ⟨bs, hbs, h⟩ := bind_eq_ok h
    cases h
    exact List.Forall₂.cons hb (ih bs hbs)

theorem forall₂_mem_right {α β : Type} {R : α → β → Prop} {l : List α} {ls : List β} (h : List.Forall₂ R l ls)
    {b : β} (hb : b ∈ ls) : ∃ a ∈ l, R a b := by
  induction h with
  | nil => simp at hb
  | cons h _ ih =>
    rcases List.mem_cons.mp hb with rfl | hb'
    · exact ⟨_, by simp, h⟩
    · obtain ⟨a, ha, hr⟩ := ih hb'
      exact ⟨a, by simp [ha], hr⟩

theorem dinsert_all {V : Type} (P : V → Prop) (k : Rat) (v : V) (l : List (Rat × V)) (hv : P v) (hl : ∀ kv ∈ l, P kv.2) :
    ∀ kv ∈ dinsert k v l, P kv.2 := by
  induction l with
  | nil => intro kv h; simp [dinsert] at h; subst h; exact hv
  | cons x l ih =>
    obtain ⟨k', v'⟩ := x
    intro kv h
    simp only [dinsert] at h
    split at h
    · rcases List.mem_cons.mp h with rfl | hm
      · exact hv
      · exact hl kv (List.mem_cons_of_mem _ hm)
    · rcases List.mem_cons.mp h with rfl | hm
      · exact hl _ (by simp)
      · exact ih (fun kv' h' => hl kv' (List.mem_cons_of_mem _ h')) kv hm

theorem foldl_dinsert_all {V : Type} (P : V → Prop) :
    ∀ (l acc : List (Rat × V)), (∀ kv ∈ l, P kv.2) → (∀ kv ∈ acc, P kv.2) →
      ∀ kv ∈ l.foldl (fun d kv => dinsert kv.1 kv.2 d) acc, P kv.2 := by
  intro l
  induction l with
  | nil => intro acc _ ha; exact ha
  | cons x l ih =>
    intro acc hl ha
    simp only [List.foldl_cons]
    exact ih _ (fun kv h => hl kv (List.mem_cons_of_mem _ h)) (dinsert_all P x.1 x.2 acc (hl x (by simp)) ha)

theorem dictOfList_all {V : Type} (P : V → Prop) (l : List (Rat × V)) (h : ∀ kv ∈ l, P kv.2) :
    ∀ kv ∈ dictOfList l, P kv.2 :=
  foldl_dinsert_all P l [] h (by simp)

theorem dinsert_ne_nil {V : Type} (k : Rat) (v : V) (l : List (Rat × V)) : dinsert k v l ≠ [] := by
  cases l with
  | nil => simp [dinsert]
  | cons x l => obtain ⟨k', v'⟩ := x; simp only [dinsert]; split <;> simp

theorem foldl_dinsert_ne_nil {V : Type} :
    ∀ (l acc : List (Rat × V)), (l ≠ [] ∨ acc ≠ []) → l.foldl (fun d kv => dinsert kv.1 kv.2 d) acc ≠ [] := by
  intro l
  induction l with
  | nil => intro acc h; rcases h with h | h; exact absurd rfl h; exact h
  | cons x l ih => intro acc _; exact ih _ (Or.inr (dinsert_ne_nil _ _ _))

/-- rows all of whose heat capacities have a wrong dimension give points none of whose values is a plain number -/
theorem cpPoints_wrong_dim {r : Rat} (hr : r ≠ 0) :
    ∀ (ls : List LVal) (cp : List (Rat × QV)),
      (∀ x ∈ ls, ∃ t y d, x = .pair t (.q (.qty y d)) ∧ d ≠ Dim.molarEntropy) →
      cpPoints ⟨1, Dim.temperature⟩ (dimValue (.qty r Dim.molarEntropy)) ls = .ok cp →
      ∀ kv ∈ cp, ∃ y d, kv.2 = .qty y d := by
  intro ls
  induction ls with
  | nil => intro cp _ h; simp [cpPoints] at h; cases h; simp
  | cons x ls ih =>
    intro cp hall h
    obtain ⟨t, y, d, rfl, hd⟩ := hall x (by simp)
    cases t with
    | q tq =>
      simp only [cpPoints] at h
      obtain ⟨t', _, h⟩ := bind_eq_ok h
      obtain ⟨v', hv', h⟩ := bind_eq_ok h
      obtain ⟨rest, hrest, h⟩ := bind_eq_ok h
      cases h
      have hne : d.sub Dim.molarEntropy ≠ Dim.zero := fun e => hd ((Dim.sub_eq_zero_iff _ _).mp e)
      simp only [dimValue, QV.div, QV.value, hr, if_false, QV.dim, build_of_ne hne] at hv'
      cases hv'
      intro kv hkv
      rcases List.mem_cons.mp hkv with rfl | hm
      · exact ⟨_, _, rfl⟩
      · exact ih rest (fun x hx => hall x (by simp [hx])) hrest kv hm
    | none => simp [cpPoints] at h
    | f _ => simp [cpPoints] at h
    | pair _ _ => simp [cpPoints] at h
    | list _ => simp [cpPoints] at h

end PGA.Yaml
