import PGA.Model.Match
import Mathlib.Logic.Function.Basic
/-! The reader produces well-formed queries, and reading commutes with renaming the labels. -/
namespace PGA.Read

theorem lookup_lt (names : List String) (l : String) (i : Nat) (h : lookup names l = .ok i) :
    i < names.length := by
  unfold lookup at h
  cases hi : names.idxOf? l with
  | none => simp [hi] at h
  | some k =>
    simp only [hi] at h
    cases h
    have := List.idxOf?_eq_some_iff.1 hi
    exact this.1

theorem idxOf?_map (σ : String → String) (hσ : Function.Injective σ) (names : List String) (l : String) :
    (names.map σ).idxOf? (σ l) = names.idxOf? l := by
  induction names with
  | nil => simp
  | cons a as ih =>
    simp only [List.map_cons, List.idxOf?_cons, ih]
    by_cases h : a = l
    · simp [h]
    · have : σ a ≠ σ l := fun e => h (hσ e)
      simp [h, this]

theorem lookup_map (σ : String → String) (hσ : Function.Injective σ) (names : List String) (l : String) :
    lookup (names.map σ) (σ l) = lookup names l := by
  unfold lookup; rw [idxOf?_map σ hσ]

/-- the reader's state with every label renamed -/
def St.rename (σ : String → String) (st : St) : St :=
  { st with names := st.names.map σ, atoms := st.atoms.map fun a => { a with label := σ a.label } }

def renameItem (σ : String → String) : RawItem → RawItem
  | .bonded ty l b l2 ch => .bonded ty (σ l) b (σ l2) ch
  | .ringBond l1 b l2 => .ringBond (σ l1) b (σ l2)
  | .stereo l1 bo k l2 l3 l4 => .stereo (σ l1) bo k (σ l2) (σ l3) (σ l4)

theorem addBond_rename (σ : String → String) (st : St) (i j : Nat) (s : BondSpec) :
    addBond (St.rename σ st) i j s = (addBond st i j s).map (St.rename σ) := by
  unfold addBond
  by_cases h1 : (i == j) = true
  · simp [h1, Except.map, throw, throwThe, MonadExceptOf.throw]
  · simp only [h1]
    by_cases h2 : (st.bonds.any fun b => (b.i == i && b.j == j) || (b.i == j && b.j == i)) = true
    · simp [St.rename, h2, Except.map, throw, throwThe, MonadExceptOf.throw]
    · simp [St.rename, h2, Except.map, pure, Except.pure]

theorem step_rename (σ : String → String) (hσ : Function.Injective σ) (st : St) (it : RawItem) :
    step (St.rename σ st) (renameItem σ it) = (step st it).map (St.rename σ) := by
  cases it with
  | bonded ty l b l2 ch =>
    simp only [step, renameItem]
    cases atomType ty with
    | error e => simp [bind, Except.bind, Except.map]
    | ok t =>
      simp only [bind, Except.bind]
      have hn : (St.rename σ st).names ++ [σ l] = (st.names ++ [l]).map σ := by simp [St.rename]
      rw [hn, lookup_map σ hσ]
      cases lookup (st.names ++ [l]) l2 with
      | error e => simp [Except.map]
      | ok j =>
        simp only
        cases bondSpec b with
        | error e => simp [Except.map]
        | ok bs =>
          simp only
          have hst : (⟨(st.names ++ [l]).map σ, (St.rename σ st).atoms ++ [⟨σ l, t, []⟩],
                        (St.rename σ st).bonds, (St.rename σ st).stereo⟩ : St) =
              St.rename σ ⟨st.names ++ [l], st.atoms ++ [⟨l, t, []⟩], st.bonds, st.stereo⟩ := by
            simp [St.rename]
          have hlen : (St.rename σ st).atoms.length = st.atoms.length := by simp [St.rename]
          rw [hst, hlen, addBond_rename]
          cases addBond ⟨st.names ++ [l], st.atoms ++ [⟨l, t, []⟩], st.bonds, st.stereo⟩ st.atoms.length j bs with
          | error e => simp [Except.map]
          | ok st' =>
            simp only [Except.map]
            cases ch.mapM cons with
            | error e => simp
            | ok chain => simp [St.rename, pure, Except.pure]
  | ringBond l1 b l2 =>
    simp only [step, renameItem]
    have h1 : lookup (St.rename σ st).names (σ l1) = lookup st.names l1 := lookup_map σ hσ _ _
    have h2 : lookup (St.rename σ st).names (σ l2) = lookup st.names l2 := lookup_map σ hσ _ _
    rw [h1, h2]
    cases lookup st.names l1 with
    | error e => simp [bind, Except.bind, Except.map]
    | ok i =>
      cases lookup st.names l2 with
      | error e => simp [bind, Except.bind, Except.map]
      | ok j =>
        cases bondSpec b with
        | error e => simp [bind, Except.bind, Except.map]
        | ok bs => simp [bind, Except.bind, addBond_rename]
  | stereo l1 bo k l2 l3 l4 =>
    simp only [step, renameItem]
    have h1 : lookup (St.rename σ st).names (σ l1) = lookup st.names l1 := lookup_map σ hσ _ _
    have h2 : lookup (St.rename σ st).names (σ l2) = lookup st.names l2 := lookup_map σ hσ _ _
    have h3 : lookup (St.rename σ st).names (σ l3) = lookup st.names l3 := lookup_map σ hσ _ _
    have h4 : lookup (St.rename σ st).names (σ l4) = lookup st.names l4 := lookup_map σ hσ _ _
    rw [h1, h2, h3, h4]
    have hbonds : (St.rename σ st).bonds = st.bonds := rfl
    have hhas : ∀ i j, hasBond (St.rename σ st) i j = hasBond st i j := fun _ _ => rfl
    simp only [bind, Except.bind, hbonds, hhas]
    cases lookup st.names l1 <;> cases negOf bo <;> cases stereoKind k <;> cases lookup st.names l2 <;>
      cases lookup st.names l3 <;> cases lookup st.names l4 <;> try rfl
    rename_i i1 neg kind i2 i3 i4
    simp only
    cases st.bonds.find? (fun b => (b.i == i3 && b.j == i4) || (b.i == i4 && b.j == i3)) with
    | none => rfl
    | some d =>
      simp only
      repeat' split
      all_goals first | rfl | simp [Except.map, St.rename, pure, Except.pure]

theorem items_rename (σ : String → String) (hσ : Function.Injective σ) (its : List RawItem) (st : St) :
    items (St.rename σ st) (its.map (renameItem σ)) = (items st its).map (St.rename σ) := by
  induction its generalizing st with
  | nil => simp [items, Except.map, pure, Except.pure]
  | cons it its ih =>
    simp only [List.map_cons, items, bind, Except.bind]
    rw [step_rename σ hσ]
    cases step st it with
    | error e => simp [Except.map]
    | ok st' => simp only [Except.map]; exact ih st'

/-- **reading commutes with renaming the labels** (typed fragment level) -/
theorem frag_rename (σ : String → String) (hσ : Function.Injective σ) (f : Frag) :
    frag (f.rename σ) = (frag f).map (Query.relabel σ) := by
  unfold frag
  have hitems : (f.rename σ).items = f.items.map (renameItem σ) := by
    simp only [Frag.rename]
    apply List.map_congr_left
    intro it _
    cases it <;> rfl
  simp only [hitems]
  simp only [Frag.rename, bind, Except.bind]
  cases molPrefix f.pre with
  | error e => simp [Except.map]
  | ok mp =>
    cases atomType f.ty0 with
    | error e => simp [Except.map]
    | ok t =>
      cases f.chain0.mapM cons with
      | error e => simp [Except.map]
      | ok chain =>
        simp only
        have h0 : (⟨[σ f.label0], [⟨σ f.label0, t, chain⟩], [], []⟩ : St) =
            St.rename σ ⟨[f.label0], [⟨f.label0, t, chain⟩], [], []⟩ := by simp [St.rename]
        rw [h0, items_rename σ hσ]
        cases items ⟨[f.label0], [⟨f.label0, t, chain⟩], [], []⟩ f.items with
        | error e => simp [Except.map]
        | ok st => simp [Except.map, pure, Except.pure, Query.relabel, St.rename]

/-! ## well-formedness of what the reader returns -/

/-- reader invariant: as many names as atoms; every bond and stereo statement refers to declared atoms -/
def Inv (st : St) : Prop :=
  st.names.length = st.atoms.length ∧
  (∀ b ∈ st.bonds, b.i < st.atoms.length ∧ b.j < st.atoms.length) ∧
  (∀ s ∈ st.stereo, s.i1 < st.atoms.length ∧ s.i2 < st.atoms.length ∧ s.i3 < st.atoms.length ∧ s.i4 < st.atoms.length)

theorem addBond_ok (st st' : St) (i j : Nat) (s : BondSpec) (h : addBond st i j s = .ok st') :
    st' = { st with bonds := st.bonds ++ [⟨i, j, s⟩] } := by
  unfold addBond at h
  split at h
  · cases h
  · split at h
    · cases h
    · cases h; rfl

theorem step_inv (st st' : St) (it : RawItem) (h : step st it = .ok st') (hi : Inv st) : Inv st' := by
  obtain ⟨hn, hb, hs⟩ := hi
  cases it with
  | bonded ty l b l2 ch =>
    simp only [step, bind, Except.bind] at h
    cases h1 : atomType ty with
    | error e => simp [h1] at h
    | ok t =>
      simp only [h1] at h
      cases h2 : lookup (st.names ++ [l]) l2 with
      | error e => simp [h2] at h
      | ok j =>
        simp only [h2] at h
        have hj := lookup_lt _ _ _ h2
        cases h3 : bondSpec b with
        | error e => simp [h3] at h
        | ok bs =>
          simp only [h3] at h
          cases h4 : addBond ⟨st.names ++ [l], st.atoms ++ [⟨l, t, []⟩], st.bonds, st.stereo⟩ st.atoms.length j bs with
          | error e => simp [h4] at h
          | ok st1 =>
            simp only [h4] at h
            have e1 := addBond_ok _ _ _ _ _ h4
            cases h5 : ch.mapM cons with
            | error e => simp [h5] at h
            | ok chain =>
              simp only [h5, pure, Except.pure, Except.ok.injEq] at h
              subst h e1
              simp only [List.length_append, List.length_cons, List.length_nil] at hj ⊢
              refine ⟨by simp [hn], ?_, ?_⟩
              · intro b' hb'
                simp only [List.mem_append, List.mem_singleton] at hb'
                rcases hb' with hb' | rfl
                · have := hb b' hb'; simp; omega
                · simp; omega
              · intro s hs'
                have := hs s hs'; simp; omega
  | ringBond l1 b l2 =>
    simp only [step, bind, Except.bind] at h
    cases h1 : lookup st.names l1 with
    | error e => simp [h1] at h
    | ok i =>
      cases h2 : lookup st.names l2 with
      | error e => simp [h1, h2] at h
      | ok j =>
        cases h3 : bondSpec b with
        | error e => simp [h1, h2, h3] at h
        | ok bs =>
          simp only [h1, h2, h3] at h
          have e1 := addBond_ok _ _ _ _ _ h
          subst e1
          have hi' := lookup_lt _ _ _ h1
          have hj' := lookup_lt _ _ _ h2
          refine ⟨hn, ?_, hs⟩
          intro b' hb'
          simp only [List.mem_append, List.mem_singleton] at hb'
          rcases hb' with hb' | rfl
          · exact hb b' hb'
          · simp; omega
  | stereo l1 bo k l2 l3 l4 =>
    simp only [step, bind, Except.bind] at h
    cases h1 : lookup st.names l1 with
    | error e => simp [h1] at h
    | ok i1 =>
    cases hb0 : negOf bo with
    | error e => simp [h1, hb0] at h
    | ok neg =>
    cases hk : stereoKind k with
    | error e => simp [h1, hb0, hk] at h
    | ok kind =>
    cases h2 : lookup st.names l2 with
    | error e => simp [h1, hb0, hk, h2] at h
    | ok i2 =>
    cases h3 : lookup st.names l3 with
    | error e => simp [h1, hb0, hk, h2, h3] at h
    | ok i3 =>
    cases h4 : lookup st.names l4 with
    | error e => simp [h1, hb0, hk, h2, h3, h4] at h
    | ok i4 =>
      simp only [h1, hb0, hk, h2, h3, h4] at h
      have l1' := lookup_lt _ _ _ h1
      have l2' := lookup_lt _ _ _ h2
      have l3' := lookup_lt _ _ _ h3
      have l4' := lookup_lt _ _ _ h4
      have key : ∀ st'', st'' = ({ st with stereo := st.stereo ++ [⟨i1, i2, i3, i4, neg, kind⟩] } : St) → Inv st'' := by
        intro st'' e
        subst e
        refine ⟨hn, hb, ?_⟩
        intro s hs'
        simp only [List.mem_append, List.mem_singleton] at hs'
        rcases hs' with hs' | rfl
        · exact hs s hs'
        · simp; omega
      split at h
      · cases h
      · split at h
        · cases h
        · split at h
          · cases h
          · split at h
            · cases h
            · split at h
              · cases h
              · simp only [pure, Except.pure, Except.ok.injEq] at h
                exact key _ h.symm

theorem items_inv (its : List RawItem) (st st' : St) (h : items st its = .ok st') (hi : Inv st) : Inv st' := by
  induction its generalizing st with
  | nil => simp only [items, pure, Except.pure, Except.ok.injEq] at h; subst h; exact hi
  | cons it its ih =>
    simp only [items, bind, Except.bind] at h
    cases h1 : step st it with
    | error e => simp [h1] at h
    | ok st1 =>
      simp only [h1] at h
      exact ih st1 h (step_inv st st1 it h1 hi)

theorem frag_wf (f : Frag) (q : Query) (h : frag f = .ok q) : q.wf = true := by
  unfold frag at h
  simp only [bind, Except.bind] at h
  cases h1 : molPrefix f.pre with
  | error e => simp [h1] at h
  | ok mp =>
  cases h2 : atomType f.ty0 with
  | error e => simp [h1, h2] at h
  | ok t =>
  cases h3 : f.chain0.mapM cons with
  | error e => simp [h1, h2, h3] at h
  | ok chain =>
  cases h4 : items ⟨[f.label0], [⟨f.label0, t, chain⟩], [], []⟩ f.items with
  | error e => simp [h1, h2, h3, h4] at h
  | ok st =>
    simp only [h1, h2, h3, h4, pure, Except.pure, Except.ok.injEq] at h
    subst h
    have hinv : Inv st := items_inv _ _ _ h4 ⟨by simp, by simp, by simp⟩
    obtain ⟨_, hb, hs⟩ := hinv
    simp only [Query.wf, Bool.and_eq_true, List.all_eq_true, decide_eq_true_eq]
    exact ⟨fun b hb' => hb b hb', fun s hs' => by have := hs s hs'; exact ⟨⟨⟨this.1, this.2.1⟩, this.2.2.1⟩, this.2.2.2⟩⟩

end PGA.Read

namespace PGA.Match

theorem candOK_relabel (σ : String → String) (q : Query) (m : Mol) :
    candOK (q.relabel σ) m = candOK q m := by
  funext pre
  unfold candOK
  cases pre.length with
  | zero => rfl
  | succ k =>
    simp only [Query.relabel, List.getElem?_map]
    cases pre[k]? <;> cases q.atoms[k]? <;> rfl

/-- label names play no part in matching -/
theorem queryMatches_relabel (σ : String → String) (q : Query) (m : Mol) :
    queryMatches (q.relabel σ) m = queryMatches q m := by
  unfold queryMatches rawMatches pipeline
  rw [candOK_relabel]
  have h1 : (q.relabel σ).atoms.length = q.atoms.length := by simp [Query.relabel]
  have h2 : molConsOK (q.relabel σ) m = molConsOK q m := rfl
  have h3 : bondConsOK (q.relabel σ) m = bondConsOK q m := rfl
  have h4 : stereoOK (q.relabel σ) m = stereoOK q m := rfl
  have h5 : atomConsOK (q.relabel σ) m = atomConsOK q m := by
    funext f
    simp only [atomConsOK, Query.relabel, List.zip_map_left, List.all_map]
    rfl
  rw [h1, h2, h3, h4, h5]

end PGA.Match
