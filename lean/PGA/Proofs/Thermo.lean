import PGA.Spec.Thermo
import Mathlib.Tactic.Linarith
import Mathlib.Tactic.Ring
import Mathlib.Tactic.SplitIfs
import Mathlib.Algebra.Order.Field.Rat
/-! Helper lemmas for C05 / C06: the stable sort of the data points, what a successful construction
establishes, and the two analytic identities (enthalpy numerator and entropy as antiderivative
differences) proved by case analysis over the literal branch structure of the model. -/
namespace PGA.Thermo

/-! ### the stable sort -/


theorem insertPt_perm (p : Pt) (l : List Pt) : (insertPt p l).Perm (p :: l) := by
  induction l with
  | nil => exact List.Perm.refl _
  | cons q qs ih =>
    unfold insertPt
    split
    · exact List.Perm.refl _
    · exact (List.Perm.cons q ih).trans (List.Perm.swap p q qs)

theorem sortPts_perm (l : List Pt) : (sortPts l).Perm l := by
  induction l with
  | nil => exact List.Perm.refl _
  | cons p ps ih => exact (insertPt_perm p _).trans (List.Perm.cons p ih)

def KeyLe (p q : Pt) : Prop := p.1 ≤ q.1
def KeyLt (p q : Pt) : Prop := p.1 < q.1

theorem insertPt_sorted (p : Pt) (l : List Pt) (h : l.Pairwise KeyLe) : (insertPt p l).Pairwise KeyLe := by
  induction l with
  | nil => simp [insertPt]
  | cons q qs ih =>
    unfold insertPt
    rw [List.pairwise_cons] at h
    split
    · rename_i hpq
      refine List.pairwise_cons.mpr ⟨?_, List.pairwise_cons.mpr h⟩
      intro x hx
      rcases List.mem_cons.mp hx with rfl | hx
      · exact hpq
      · exact le_trans hpq (h.1 x hx)
    · rename_i hpq
      refine List.pairwise_cons.mpr ⟨?_, ih h.2⟩
      intro x hx
      rcases List.mem_cons.mp ((insertPt_perm p qs).mem_iff.mp hx) with rfl | hx
      · exact le_of_lt (not_le.mp hpq)
      · exact h.1 x hx

theorem sortPts_sorted (l : List Pt) : (sortPts l).Pairwise KeyLe := by
  induction l with
  | nil => exact List.Pairwise.nil
  | cons p ps ih => exact insertPt_sorted p _ ih

theorem strictInc_iff (l : List Pt) : strictInc l = true ↔ l.Pairwise KeyLt := by
  induction l with
  | nil => simp [strictInc]
  | cons p rest ih =>
    cases rest with
    | nil => simp [strictInc]
    | cons q rest =>
      simp only [strictInc, Bool.and_eq_true, decide_eq_true_eq, ih]
      constructor
      · rintro ⟨h1, h2⟩
        refine List.pairwise_cons.mpr ⟨?_, h2⟩
        intro x hx
        rcases List.mem_cons.mp hx with rfl | hx
        · exact h1
        · exact lt_trans h1 ((List.pairwise_cons.mp h2).1 x hx)
      · intro h
        rw [List.pairwise_cons] at h
        exact ⟨h.1 q (List.mem_cons_self ..), h.2⟩

/-- two key-sorted lists with the same elements and pairwise distinct keys are equal -/
theorem sorted_perm_eq : ∀ (l₁ l₂ : List Pt), l₁.Pairwise KeyLe → l₂.Pairwise KeyLe → l₁.Perm l₂ →
    (l₁.map (·.1)).Nodup → l₁ = l₂
  | [], l₂, _, _, hp, _ => by simpa using hp.symm.eq_nil
  | a :: l₁, [], _, _, hp, _ => by simpa using hp.eq_nil
  | a :: l₁, b :: l₂, h1, h2, hp, hn => by
    rw [List.pairwise_cons] at h1 h2
    have hn' := hn
    rw [List.map_cons, List.nodup_cons] at hn
    have hab : a = b := by
      have ha : a ∈ b :: l₂ := hp.mem_iff.mp (List.mem_cons_self ..)
      have hb : b ∈ a :: l₁ := hp.mem_iff.mpr (List.mem_cons_self ..)
      rcases List.mem_cons.mp ha with h | ha
      · exact h
      · rcases List.mem_cons.mp hb with h | hb
        · exact h.symm
        · have k1 : a.1 ≤ b.1 := h1.1 b hb
          have k2 : b.1 ≤ a.1 := h2.1 a ha
          have : a.1 = b.1 := le_antisymm k1 k2
          exact absurd (this ▸ List.mem_map_of_mem (f := (·.1)) hb) hn.1
    subst hab
    rw [sorted_perm_eq l₁ l₂ h1.2 h2.2 (List.Perm.cons_inv hp) hn.2]

theorem sortPts_perm_eq (l₁ l₂ : List Pt) (hp : l₁.Perm l₂) (hn : (l₁.map (·.1)).Nodup) :
    sortPts l₁ = sortPts l₂ := by
  apply sorted_perm_eq _ _ (sortPts_sorted _) (sortPts_sorted _)
  · exact (sortPts_perm l₁).trans (hp.trans (sortPts_perm l₂).symm)
  · exact ((sortPts_perm l₁).map _).nodup_iff.mpr hn

theorem lastPt_mem (p0 : Pt) (l : List Pt) : lastPt p0 l ∈ p0 :: l := by
  induction l generalizing p0 with
  | nil => simp [lastPt]
  | cons q qs ih => exact List.mem_cons_of_mem _ (ih q)

theorem le_lastPt (p0 : Pt) (l : List Pt) (h : (p0 :: l).Pairwise KeyLe) : ∀ x ∈ p0 :: l, x.1 ≤ (lastPt p0 l).1 := by
  induction l generalizing p0 with
  | nil => intro x hx; simp at hx; subst hx; exact le_refl _
  | cons q qs ih =>
    intro x hx
    rw [List.pairwise_cons] at h
    have hl := ih q h.2
    rcases List.mem_cons.mp hx with rfl | hx
    · exact le_trans (h.1 q (List.mem_cons_self ..)) (hl q (List.mem_cons_self ..))
    · exact hl x hx

/-! ### construction -/


theorem outsideR_false {r : Range} {T : Rat} : outsideR r T = false ↔ r.1 ≤ T ∧ T ≤ r.2 := by
  simp [outsideR, not_lt]

theorem outsideR_true {r : Range} {T : Rat} : outsideR r T = true ↔ T < r.1 ∨ r.2 < T := by
  simp [outsideR]

/-- what a successful construction establishes -/
structure RawData.Built (ip : Interp) (Href Sref : Rat) (pts : List Pt) (Tref : Rat) (range : Option Range)
    (d : RawData) : Prop where
  sorted : ∃ p0 rest, sortPts pts = p0 :: rest ∧ d.pts = p0 :: rest ∧ d.minT = p0.1 ∧ d.minCp = p0.2 ∧
    d.maxT = (lastPt p0 rest).1 ∧ d.maxCp = (lastPt p0 rest).2 ∧
    (rest = [] → d.ip = constInterp p0.2 ip) ∧ (rest ≠ [] → d.ip = ip ∧ strictInc (p0 :: rest) = true)
  href : d.Href = Href
  sref : d.Sref = Sref
  tref : d.Tref = Tref
  range_none : range = none → d.range = (d.minT, d.maxT)
  range_some : ∀ r, range = some r → d.range = r
  lo_le_min : d.range.1 ≤ d.minT
  max_le_hi : d.maxT ≤ d.range.2
  lo_le_ref : d.range.1 ≤ d.Tref
  ref_le_hi : d.Tref ≤ d.range.2

theorem RawData.mk_built {ip : Interp} {Href Sref : Rat} {pts : List Pt} {Tref : Rat} {range : Option Range}
    {d : RawData} (h : RawData.mk ip Href Sref pts Tref range = .ok d) :
    RawData.Built ip Href Sref pts Tref range d := by
  unfold RawData.mk at h
  split at h
  · cases h
  · rename_i p0 rest hs
    simp only at h
    split at h
    · cases h
    · rename_i r hr
      split at h
      · cases h
      · rename_i ho
        split at h
        · cases h
        · have ho' := outsideR_false.mp (by simpa using ho)
          have hrange : (range = none → r = (p0.1, (lastPt p0 rest).1)) ∧ (∀ r', range = some r' → r = r') ∧
              r.1 ≤ p0.1 ∧ (lastPt p0 rest).1 ≤ r.2 := by
            cases range with
            | none => simp only [Except.ok.injEq] at hr; subst hr; simp
            | some r' =>
              simp only at hr
              split at hr
              · cases hr
              · rename_i hc
                simp only [Except.ok.injEq] at hr; subst hr
                simp only [Bool.or_eq_true, decide_eq_true_eq, not_or, not_lt] at hc
                exact ⟨by simp, by simp, hc.1, hc.2⟩
          split at h
          · simp only [Except.ok.injEq] at h; subst h
            exact ⟨⟨p0, [], hs, rfl, rfl, rfl, rfl, rfl, fun _ => rfl, fun hne => absurd rfl hne⟩, rfl, rfl, rfl,
              hrange.1, hrange.2.1, hrange.2.2.1, hrange.2.2.2, ho'.1, ho'.2⟩
          · rename_i q qs
            split at h
            · rename_i hinc
              simp only [Except.ok.injEq] at h; subst h
              exact ⟨⟨p0, q :: qs, hs, rfl, rfl, rfl, rfl, rfl, (fun hh => by cases hh), fun _ => ⟨rfl, hinc⟩⟩, rfl, rfl, rfl,
                hrange.1, hrange.2.1, hrange.2.2.1, hrange.2.2.2, ho'.1, ho'.2⟩
            · cases h

/-! ### the analytic identities -/


/-- antiderivative of `CpExt`, anchored at `minT` (proof device) -/
def RawData.antiH (d : RawData) (t : Rat) : Rat :=
  if t ≤ d.minT then d.minCp * (t - d.minT)
  else if t ≥ d.maxT then d.ip.I d.minT d.maxT + d.maxCp * (t - d.maxT)
  else d.ip.I d.minT t

def RawData.antiS (d : RawData) (t : Rat) : Rat :=
  if t ≤ d.minT then d.minCp * d.ip.lg d.minT t
  else if t ≥ d.maxT then d.ip.J d.minT d.maxT + d.maxCp * d.ip.lg d.maxT t
  else d.ip.J d.minT t

theorem hNum_eq (d : RawData) (T : Rat) (hmm : d.minT ≤ d.maxT)
    (hadd : ∀ a b c, d.ip.I a b + d.ip.I b c = d.ip.I a c) :
    d.hNum T = d.Href * d.Tref + (d.antiH T - d.antiH d.Tref) := by
  have h0 : ∀ a, d.ip.I a a = 0 := fun a => by have := hadd a a a; linarith
  have hneg : ∀ a b, d.ip.I a b = - d.ip.I b a := fun a b => by have := hadd a b a; have := h0 a; linarith
  unfold RawData.hNum RawData.hStage2 RawData.hFin RawData.antiH
  rcases hmm.lt_or_eq with hlt | heq
  · have e1 := hadd d.minT d.Tref T; have e2 := hadd d.minT d.maxT T; have e3 := hadd d.minT d.Tref d.maxT
    have e4 := hadd d.minT T d.maxT; have e5 := hneg d.Tref d.minT; have e6 := hneg d.maxT d.minT
    have e7 := hadd d.Tref d.minT T; have e8 := hadd d.Tref d.minT d.maxT
    have e11 := hneg d.maxT T; have e12 := hneg d.Tref T
    have e13 := hneg d.maxT d.Tref; have e14 := hadd d.maxT d.minT T
    split_ifs <;> linarith
  · rw [heq]
    have e1 := hadd d.maxT d.Tref T; have e5 := hneg d.Tref d.maxT
    have e7 := hadd d.Tref d.maxT T; have e9 := h0 d.maxT; have e11 := hneg d.maxT T; have e12 := hneg d.Tref T
    split_ifs <;> linarith



theorem RawData.zones (d : RawData) (t : Rat) (hmm : d.minT ≤ d.maxT) :
    (t ≤ d.minT ∧ min t d.minT = t ∧ d.clamp t = d.minT ∧ max t d.maxT = d.maxT
      ∧ d.antiH t = d.minCp * (t - d.minT) ∧ d.antiS t = d.minCp * d.ip.lg d.minT t)
  ∨ (d.minT < t ∧ t < d.maxT ∧ min t d.minT = d.minT ∧ d.clamp t = t ∧ max t d.maxT = d.maxT
      ∧ d.antiH t = d.ip.I d.minT t ∧ d.antiS t = d.ip.J d.minT t)
  ∨ (d.minT < t ∧ d.maxT ≤ t ∧ min t d.minT = d.minT ∧ d.clamp t = d.maxT ∧ max t d.maxT = t
      ∧ d.antiH t = d.ip.I d.minT d.maxT + d.maxCp * (t - d.maxT)
      ∧ d.antiS t = d.ip.J d.minT d.maxT + d.maxCp * d.ip.lg d.maxT t) := by
  unfold RawData.clamp RawData.antiH RawData.antiS
  rcases le_or_gt t d.minT with h1 | h1
  · left
    refine ⟨h1, min_eq_left h1, ?_, max_eq_right (h1.trans hmm), if_pos h1, if_pos h1⟩
    rw [min_eq_left (h1.trans hmm), max_eq_left h1]
  · rcases lt_or_ge t d.maxT with h2 | h2
    · right; left
      refine ⟨h1, h2, min_eq_right h1.le, ?_, max_eq_right h2.le, ?_, ?_⟩
      · rw [min_eq_left h2.le, max_eq_right h1.le]
      · rw [if_neg (not_le.mpr h1), if_neg (not_le.mpr h2)]
      · rw [if_neg (not_le.mpr h1), if_neg (not_le.mpr h2)]
    · right; right
      refine ⟨h1, h2, min_eq_right h1.le, ?_, max_eq_left h2, ?_, ?_⟩
      · rw [min_eq_right h2, max_eq_right hmm]
      · rw [if_neg (not_le.mpr h1), if_pos h2]
      · rw [if_neg (not_le.mpr h1), if_pos h2]

theorem antiH_sub (d : RawData) (a b : Rat) (hmm : d.minT ≤ d.maxT)
    (hadd : ∀ a b c, d.ip.I a b + d.ip.I b c = d.ip.I a c) :
    d.antiH b - d.antiH a = d.intCp a b := by
  have h0 : ∀ a, d.ip.I a a = 0 := fun a => by have := hadd a a a; linarith
  unfold RawData.intCp
  have e1 := hadd d.minT a b; have e2 := hadd d.minT d.maxT b; have e3 := hadd d.minT a d.maxT
  have e4 := hadd d.minT b d.maxT; have e5 := h0 d.minT; have e6 := h0 d.maxT
  have e7 := hadd a d.minT b; have e8 := hadd a d.minT d.maxT; have e9 := hadd d.maxT d.minT d.maxT
  have e10 := hadd d.maxT d.minT b ; have e11 := hadd d.maxT d.minT a; have e12 := hadd d.maxT a b
  have e13 := h0 a; have e14 := h0 b; have e15 := hadd a b a
  rcases d.zones a hmm with ⟨_, a2, a3, a4, a5, _⟩ | ⟨_, _, a2, a3, a4, a5, _⟩ | ⟨_, _, a2, a3, a4, a5, _⟩ <;>
  rcases d.zones b hmm with ⟨_, b2, b3, b4, b5, _⟩ | ⟨_, _, b2, b3, b4, b5, _⟩ | ⟨_, _, b2, b3, b4, b5, _⟩ <;>
  rw [a2, a3, a4, a5, b2, b3, b4, b5] <;> linarith

theorem sVal_eq (d : RawData) (T : Rat) (hmm : d.minT ≤ d.maxT) (hg : d.ip.Good)
    (p1 : 0 < d.minT) (p3 : 0 < d.Tref) (p4 : 0 < T) :
    d.sVal T = d.Sref + (d.antiS T - d.antiS d.Tref) := by
  have p2 : 0 < d.maxT := lt_of_lt_of_le p1 hmm
  have J0 : ∀ a, 0 < a → d.ip.J a a = 0 := fun a h => by have := hg.J_add a a a h h h; linarith
  have L0 : ∀ a, 0 < a → d.ip.lg a a = 0 := fun a h => by have := hg.lg_add a a a h h h; linarith
  have Jn : ∀ a b, 0 < a → 0 < b → d.ip.J a b = - d.ip.J b a := fun a b ha hb => by
    have := hg.J_add a b a ha hb ha; have := J0 a ha; linarith
  -- every logarithm in terms of the potential `lg minT ·`
  have Lb : ∀ a b, 0 < a → 0 < b → d.ip.lg a b = d.ip.lg d.minT b - d.ip.lg d.minT a := fun a b ha hb => by
    have := hg.lg_add d.minT a b p1 ha hb; linarith
  have r1 := Lb d.Tref T p3 p4; have r2 := Lb d.Tref d.minT p3 p1; have r3 := Lb d.Tref d.maxT p3 p2
  have r4 := Lb d.maxT T p2 p4; have r5 := Lb d.maxT d.Tref p2 p3; have r6 := L0 d.minT p1
  unfold RawData.sVal RawData.sStage2 RawData.sFin RawData.antiS
  rcases hmm.lt_or_eq with hlt | heq
  · have e1 := hg.J_add d.minT d.Tref T p1 p3 p4; have e2 := hg.J_add d.minT d.maxT T p1 p2 p4
    have e3 := hg.J_add d.minT d.Tref d.maxT p1 p3 p2
    have e4 := hg.J_add d.minT T d.maxT p1 p4 p2; have e5 := Jn d.Tref d.minT p3 p1; have e6 := Jn d.maxT d.minT p2 p1
    have e7 := hg.J_add d.Tref d.minT T p3 p1 p4; have e8 := hg.J_add d.Tref d.minT d.maxT p3 p1 p2
    have e11 := Jn d.maxT T p2 p4; have e12 := Jn d.Tref T p3 p4
    have e13 := Jn d.maxT d.Tref p2 p3; have e14 := hg.J_add d.maxT d.minT T p2 p1 p4
    split_ifs <;> (try simp only [r1, r2, r3, r4, r5, r6]) <;> linarith
  · have e1 := hg.J_add d.maxT d.Tref T p2 p3 p4; have e5 := Jn d.Tref d.maxT p3 p2
    have e7 := hg.J_add d.Tref d.maxT T p3 p2 p4; have e9 := J0 d.maxT p2; have e11 := Jn d.maxT T p2 p4
    have e12 := Jn d.Tref T p3 p4
    have Lb' : ∀ a b, 0 < a → 0 < b → d.ip.lg a b = d.ip.lg d.maxT b - d.ip.lg d.maxT a := fun a b ha hb => by
      have := hg.lg_add d.maxT a b p2 ha hb; linarith
    have s1 := Lb' d.Tref T p3 p4; have s2 := Lb' d.Tref d.maxT p3 p2; have s3 := L0 d.maxT p2
    rw [heq]
    split_ifs <;> (try simp only [s1, s2, s3]) <;> linarith

theorem antiS_sub (d : RawData) (a b : Rat) (hmm : d.minT ≤ d.maxT) (hg : d.ip.Good)
    (p1 : 0 < d.minT) (pa : 0 < a) (pb : 0 < b) :
    d.antiS b - d.antiS a = d.intCpT a b := by
  have p2 : 0 < d.maxT := lt_of_lt_of_le p1 hmm
  have Lb : ∀ a b, 0 < a → 0 < b → d.ip.lg a b = d.ip.lg d.minT b - d.ip.lg d.minT a := fun a b ha hb => by
    have := hg.lg_add d.minT a b p1 ha hb; linarith
  have Jb : ∀ a b, 0 < a → 0 < b → d.ip.J a b = d.ip.J d.minT b - d.ip.J d.minT a := fun a b ha hb => by
    have := hg.J_add d.minT a b p1 ha hb; linarith
  have L0 : d.ip.lg d.minT d.minT = 0 := by have := hg.lg_add d.minT d.minT d.minT p1 p1 p1; linarith
  have J0 : d.ip.J d.minT d.minT = 0 := by have := hg.J_add d.minT d.minT d.minT p1 p1 p1; linarith
  have r1 := Lb a b pa pb; have r2 := Lb a d.minT pa p1; have r3 := Lb a d.maxT pa p2
  have r4 := Lb d.maxT b p2 pb; have r5 := Lb d.maxT d.maxT p2 p2; have r6 := Lb d.maxT a p2 pa
  have j1 := Jb a b pa pb; have j2 := Jb a d.minT pa p1; have j3 := Jb a d.maxT pa p2
  have j4 := Jb d.maxT b p2 pb; have j5 := Jb d.maxT d.maxT p2 p2; have j6 := Jb d.maxT a p2 pa
  have j7 := Jb d.maxT d.minT p2 p1
  unfold RawData.intCpT
  rcases d.zones a hmm with ⟨_, a2, a3, a4, _, a5⟩ | ⟨_, _, a2, a3, a4, _, a5⟩ | ⟨_, _, a2, a3, a4, _, a5⟩ <;>
  rcases d.zones b hmm with ⟨_, b2, b3, b4, _, b5⟩ | ⟨_, _, b2, b3, b4, _, b5⟩ | ⟨_, _, b2, b3, b4, _, b5⟩ <;>
  rw [a2, a3, a4, a5, b2, b3, b4, b5] <;> (try simp only [r1, r2, r3, r4, r5, r6, L0]) <;> linarith

/-! ### consequences of a successful construction -/


theorem constInterp_good {ip : Interp} (c : Rat) (hg : ip.Good) : (constInterp c ip).Good :=
  ⟨fun a b c' => by simp only [constInterp]; ring, hg.J_add, hg.lg_add⟩

namespace RawData.Built
variable {ip : Interp} {Href Sref : Rat} {pts : List Pt} {Tref : Rat} {range : Option Range} {d : RawData}

theorem mem_pts (hb : Built ip Href Sref pts Tref range d) (p : Pt) : p ∈ d.pts ↔ p ∈ pts := by
  obtain ⟨p0, rest, hs, hp, _⟩ := hb.sorted
  rw [hp, ← hs]; exact (sortPts_perm pts).mem_iff

theorem min_le (hb : Built ip Href Sref pts Tref range d) : ∀ p ∈ pts, d.minT ≤ p.1 := by
  obtain ⟨p0, rest, hs, hp, hmin, _⟩ := hb.sorted
  intro p hp'
  have hsrt := sortPts_sorted pts
  rw [hs] at hsrt
  have : p ∈ p0 :: rest := hs ▸ (sortPts_perm pts).mem_iff.mpr hp'
  rw [hmin]
  rcases List.mem_cons.mp this with rfl | h
  · exact le_refl _
  · exact (List.pairwise_cons.mp hsrt).1 p h

theorem le_max (hb : Built ip Href Sref pts Tref range d) : ∀ p ∈ pts, p.1 ≤ d.maxT := by
  obtain ⟨p0, rest, hs, hp, _, _, hmax, _⟩ := hb.sorted
  intro p hp'
  have hsrt := sortPts_sorted pts
  rw [hs] at hsrt
  have : p ∈ p0 :: rest := hs ▸ (sortPts_perm pts).mem_iff.mpr hp'
  rw [hmax]
  exact le_lastPt p0 rest hsrt p this

theorem min_mem (hb : Built ip Href Sref pts Tref range d) : (d.minT, d.minCp) ∈ pts := by
  obtain ⟨p0, rest, hs, hp, hmin, hminc, _⟩ := hb.sorted
  rw [hmin, hminc]
  exact (sortPts_perm pts).mem_iff.mp (hs ▸ List.mem_cons_self ..)

theorem max_mem (hb : Built ip Href Sref pts Tref range d) : (d.maxT, d.maxCp) ∈ pts := by
  obtain ⟨p0, rest, hs, hp, _, _, hmax, hmaxc, _⟩ := hb.sorted
  rw [hmax, hmaxc]
  exact (sortPts_perm pts).mem_iff.mp (hs ▸ lastPt_mem p0 rest)

theorem min_le_max (hb : Built ip Href Sref pts Tref range d) : d.minT ≤ d.maxT :=
  hb.le_max _ hb.min_mem

theorem good (hb : Built ip Href Sref pts Tref range d) (hg : ip.Good) : d.ip.Good := by
  obtain ⟨p0, rest, _, _, _, _, _, _, h1, h2⟩ := hb.sorted
  cases rest with
  | nil => rw [h1 rfl]; exact constInterp_good _ hg
  | cons q qs => rw [(h2 (by simp)).1]; exact hg

theorem hits (hb : Built ip Href Sref pts Tref range d) (hh : ip.Hits pts) : d.ip.Hits pts := by
  obtain ⟨p0, rest, hs, _, _, _, _, _, h1, h2⟩ := hb.sorted
  cases rest with
  | nil =>
    rw [h1 rfl]
    intro p hp
    have : p ∈ [p0] := hs ▸ (sortPts_perm pts).mem_iff.mpr hp
    simp at this
    subst this; rfl
  | cons q qs => rw [(h2 (by simp)).1]; exact hh

end RawData.Built

theorem checkRange_ok {r : Range} {T : Rat} : checkRange (some r) T = .ok () ↔ r.1 ≤ T ∧ T ≤ r.2 := by
  unfold checkRange
  simp only
  split
  · rename_i h
    constructor
    · intro h'; cases h'
    · rintro ⟨h1, h2⟩
      rcases outsideR_true.mp h with h | h
      · exact absurd h1 (not_le.mpr h)
      · exact absurd h2 (not_le.mpr h)
  · rename_i h
    simpa using outsideR_false.mp (by simpa using h)

theorem checkRange_err {r : Range} {T : Rat} (h : ¬ (r.1 ≤ T ∧ T ≤ r.2)) : checkRange (some r) T = .error .outside := by
  unfold checkRange
  simp only
  split
  · rfl
  · rename_i h'
    exact absurd (outsideR_false.mp (by simpa using h')) h



/-! ### evaluation in range -/
section
variable {ip : Interp} {Href Sref : Rat} {pts : List Pt} {Tref : Rat} {range : Option Range} {d : RawData}

/-- in-range evaluation of H/RT returns the enthalpy numerator divided by `T` -/
theorem HoRT_in_range (hpos : 0 < d.range.1)
    {T : Rat} (hT : inRange T (some d.range)) : d.HoRT T = .ok (d.hNum T / T) ∧ T ≠ 0 := by
  have hne : T ≠ 0 := ne_of_gt (lt_of_lt_of_le hpos hT.1)
  unfold RawData.HoRT
  rw [checkRange_ok.mpr hT]
  simp [hne]

theorem SoR_in_range {T : Rat} (hT : inRange T (some d.range)) : d.SoR T = .ok (d.sVal T) := by
  unfold RawData.SoR
  rw [checkRange_ok.mpr hT]

/-- `T·H/RT(T) = T_ref·H_ref/RT_ref + ∫_{T_ref}^{T} CpExt` -/
theorem hNum_integral (hmk : RawData.mk ip Href Sref pts Tref range = .ok d) (hg : ip.Good) (T : Rat) :
    d.hNum T = Href * Tref + d.intCp Tref T := by
  have hb := RawData.mk_built hmk
  have hadd := (hb.good hg).I_add
  rw [hNum_eq d T hb.min_le_max hadd, antiH_sub d d.Tref T hb.min_le_max hadd, hb.href, hb.tref]

theorem sVal_integral (hmk : RawData.mk ip Href Sref pts Tref range = .ok d) (hg : ip.Good) (hpos : 0 < d.range.1)
    {T : Rat} (hT : inRange T (some d.range)) : d.sVal T = Sref + d.intCpT Tref T := by
  have hb := RawData.mk_built hmk
  have p1 : 0 < d.minT := lt_of_lt_of_le hpos hb.lo_le_min
  have p3 : 0 < d.Tref := lt_of_lt_of_le hpos hb.lo_le_ref
  have p4 : 0 < T := lt_of_lt_of_le hpos hT.1
  rw [sVal_eq d T hb.min_le_max (hb.good hg) p1 p3 p4, antiS_sub d d.Tref T hb.min_le_max (hb.good hg) p1 p3 p4,
    hb.sref, hb.tref]

theorem sortPts_of_sorted : ∀ (l : List Pt), l.Pairwise KeyLe → sortPts l = l
  | [], _ => rfl
  | p :: ps, h => by
    rw [List.pairwise_cons] at h
    show insertPt p (sortPts ps) = p :: ps
    rw [sortPts_of_sorted ps h.2]
    cases ps with
    | nil => rfl
    | cons q qs => unfold insertPt; rw [if_pos (show p.1 ≤ q.1 from h.1 q (List.mem_cons_self ..))]

theorem sortPts_idem (l : List Pt) : sortPts (sortPts l) = sortPts l := sortPts_of_sorted _ (sortPts_sorted l)

/-- `RawData.mk` sees the points only through their sorted order -/
theorem mk_sortPts (ip : Interp) (Href Sref : Rat) (pts : List Pt) (Tref : Rat) (range : Option Range) :
    RawData.mk ip Href Sref (sortPts pts) Tref range = RawData.mk ip Href Sref pts Tref range := by
  unfold RawData.mk
  rw [sortPts_idem]

end

end PGA.Thermo
