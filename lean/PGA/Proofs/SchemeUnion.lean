import PGA.Spec.Union
import PGA.Proofs.SchemeRelabel
/-! Additivity of the decomposition model over disjoint unions (C04). -/
namespace PGA.Scheme
open PGA

theorem mem_firstAtoms (ms : List Match) (j : Nat) : j ∈ firstAtoms ms ↔ ∃ m ∈ ms, m.head? = some j := by
  unfold firstAtoms
  rw [mem_uniq, List.mem_filterMap]

theorem firstAtoms_lt (ms : List Match) (n : Nat) (h : ∀ m ∈ ms, ∀ j ∈ m, j < n) : ∀ j ∈ firstAtoms ms, j < n := by
  intro j hj
  obtain ⟨m, hm, hh⟩ := (mem_firstAtoms ms j).mp hj
  exact h m hm j (List.mem_of_mem_head? hh)

theorem mem_firstAtoms_union (msA msB : List Match) (k j : Nat) :
    j ∈ firstAtoms (msA ++ msB.map (shift k)) ↔ j ∈ firstAtoms msA ∨ ∃ i ∈ firstAtoms msB, j = i + k := by
  simp only [mem_firstAtoms, List.mem_append, List.mem_map]
  constructor
  · rintro ⟨m, hm | ⟨m', hm', rfl⟩, hh⟩
    · exact Or.inl ⟨m, hm, hh⟩
    · right
      cases m' with
      | nil => simp [shift] at hh
      | cons x m' =>
        simp only [shift, List.map_cons, List.head?_cons, Option.some.injEq] at hh
        exact ⟨x, ⟨x :: m', hm', rfl⟩, hh.symm⟩
  · rintro (⟨m, hm, hh⟩ | ⟨i, ⟨m, hm, hh⟩, rfl⟩)
    · exact ⟨m, Or.inl hm, hh⟩
    · refine ⟨shift k m, Or.inr ⟨m, hm, rfl⟩, ?_⟩
      cases m with
      | nil => simp at hh
      | cons x m =>
        simp only [List.head?_cons, Option.some.injEq] at hh
        simp [shift, hh]

/-- counting and naming centre matches in the union, over the zipped pattern lists -/
theorem cnt_union_aux (nA : Nat) (psA psB : List CentrePat)
    (hs : List.Forall₂ (fun p q => q.center = p.center ∧ q.periph = p.periph) psA psB)
    (hA : ∀ p ∈ psA, ∀ j ∈ firstAtoms p.ms, j < nA) :
    let psU := List.zipWith (fun p q => (⟨p.center, p.periph, p.ms ++ q.ms.map (shift nA)⟩ : CentrePat)) psA psB
    (∀ j < nA, cnt psU j = cnt psA j ∧ firstMatch psU j = firstMatch psA j) ∧
    (∀ i, cnt psU (i + nA) = cnt psB i ∧ firstMatch psU (i + nA) = firstMatch psB i) := by
  induction hs with
  | nil => simp [cnt, firstMatch]
  | @cons p q psA psB hpq _ ih =>
    have hA' : ∀ p ∈ psA, ∀ j ∈ firstAtoms p.ms, j < nA := fun p' hp' => hA p' (List.mem_cons_of_mem _ hp')
    have hp : ∀ j ∈ firstAtoms p.ms, j < nA := hA p (by simp)
    obtain ⟨ih1, ih2⟩ := ih hA'
    simp only [List.zipWith_cons_cons]
    constructor
    · intro j hj
      have hm : j ∈ firstAtoms (p.ms ++ q.ms.map (shift nA)) ↔ j ∈ firstAtoms p.ms := by
        rw [mem_firstAtoms_union]
        constructor
        · rintro (h | ⟨i, _, rfl⟩)
          · exact h
          · omega
        · exact Or.inl
      constructor
      · rw [cnt_cons, cnt_cons, (ih1 j hj).1]
        by_cases h : j ∈ firstAtoms p.ms <;> simp [h, hm]
      · by_cases h : j ∈ firstAtoms p.ms
        · simp [firstMatch, h, hm]
        · have e1 : firstMatch (p :: psA) j = firstMatch psA j := by simp [firstMatch, h]
          rw [e1, ← (ih1 j hj).2]
          simp [firstMatch, h, hm]
    · intro i
      have hm : i + nA ∈ firstAtoms (p.ms ++ q.ms.map (shift nA)) ↔ i ∈ firstAtoms q.ms := by
        rw [mem_firstAtoms_union]
        constructor
        · rintro (h | ⟨i', hi', he⟩)
          · have := hp _ h; omega
          · have : i = i' := by omega
            subst this; exact hi'
        · intro h; exact Or.inr ⟨i, h, rfl⟩
      constructor
      · rw [cnt_cons, cnt_cons, (ih2 i).1]
        by_cases h : i ∈ firstAtoms q.ms <;> simp [h, hm]
      · by_cases h : i ∈ firstAtoms q.ms
        · simp [firstMatch, h, hm, hpq.1, hpq.2]
        · have e1 : firstMatch (q :: psB) i = firstMatch psB i := by simp [firstMatch, h]
          rw [e1, ← (ih2 i).2]
          simp [firstMatch, h, hm]


variable {A B : Input}

theorem centres_lt_of_WF (hA : WF A) : ∀ p ∈ A.centres, ∀ j ∈ firstAtoms p.ms, j < A.n :=
  fun p hp => firstAtoms_lt p.ms A.n (hA.centre_lt p hp)

theorem cnt_union_left (hs : SameScheme A B) (hA : WF A) (j : Nat) (hj : j < A.n) :
    cnt (union A B).centres j = cnt A.centres j ∧ firstMatch (union A B).centres j = firstMatch A.centres j :=
  (cnt_union_aux A.n A.centres B.centres hs.centres (centres_lt_of_WF hA)).1 j hj

theorem cnt_union_right (hs : SameScheme A B) (hA : WF A) (i : Nat) :
    cnt (union A B).centres (i + A.n) = cnt B.centres i ∧
    firstMatch (union A B).centres (i + A.n) = firstMatch B.centres i :=
  (cnt_union_aux A.n A.centres B.centres hs.centres (centres_lt_of_WF hA)).2 i

/-- the union can be classified exactly when both parts can -/
theorem centres_ok_union (hs : SameScheme A B) (hA : WF A) :
    (∃ a, assignCentres (union A B) = .ok a) ↔
      (∃ a, assignCentres A = .ok a) ∧ (∃ b, assignCentres B = .ok b) := by
  rw [assignCentres_ok_iff, assignCentres_ok_iff, assignCentres_ok_iff]
  have hn : (union A B).n = A.n + B.n := rfl
  constructor
  · rintro ⟨h1, h2⟩
    refine ⟨⟨fun j => ?_, fun j hj => ?_⟩, ⟨fun i => ?_, fun i hi => ?_⟩⟩
    · by_cases hj : j < A.n
      · rw [← (cnt_union_left hs hA j hj).1]; exact h1 j
      · -- an atom index outside A is matched by no pattern of A
        have : cnt A.centres j = 0 := by
          unfold cnt
          rw [List.length_eq_zero_iff, List.filter_eq_nil_iff]
          intro p hp
          simp only [decide_eq_true_eq]
          intro hm; exact hj (centres_lt_of_WF hA p hp j hm)
        omega
    · rw [← (cnt_union_left hs hA j hj).1]; exact h2 j (by rw [hn]; omega)
    · rw [← (cnt_union_right hs hA i).1]; exact h1 _
    · rw [← (cnt_union_right hs hA i).1]; exact h2 _ (by rw [hn]; omega)
  · rintro ⟨⟨a1, a2⟩, ⟨b1, b2⟩⟩
    refine ⟨fun j => ?_, fun j hj => ?_⟩
    · by_cases hjA : j < A.n
      · rw [(cnt_union_left hs hA j hjA).1]; exact a1 j
      · obtain ⟨i, rfl⟩ : ∃ i, j = i + A.n := ⟨j - A.n, by omega⟩
        rw [(cnt_union_right hs hA i).1]; exact b1 i
    · by_cases hjA : j < A.n
      · rw [(cnt_union_left hs hA j hjA).1]; exact a2 j hjA
      · obtain ⟨i, rfl⟩ : ∃ i, j = i + A.n := ⟨j - A.n, by omega⟩
        rw [(cnt_union_right hs hA i).1]; exact b2 i (by rw [hn] at hj; omega)

theorem get_union_left (hs : SameScheme A B) (hA : WF A) (u a : Assign)
    (hu : assignCentres (union A B) = .ok u) (ha : assignCentres A = .ok a) (j : Nat) (hj : j < A.n) :
    u.get? j = a.get? j := by
  rw [assignCentres_get _ u hu, assignCentres_get _ a ha, (cnt_union_left hs hA j hj).2]

theorem get_union_right (hs : SameScheme A B) (hA : WF A) (u b : Assign)
    (hu : assignCentres (union A B) = .ok u) (hb : assignCentres B = .ok b) (i : Nat) :
    u.get? (i + A.n) = b.get? i := by
  rw [assignCentres_get _ u hu, assignCentres_get _ b hb, (cnt_union_right hs hA i).2]

theorem groupName_union_left (hs : SameScheme A B) (hA : WF A) (u a : Assign)
    (hu : assignCentres (union A B) = .ok u) (ha : assignCentres A = .ok a) (j : Nat) (hj : j < A.n) :
    groupName u (union A B).nbrs j = groupName a A.nbrs j := by
  unfold groupName
  rw [get_union_left hs hA u a hu ha j hj]
  have hnb : (union A B).nbrs.getD j [] = A.nbrs.getD j [] := by
    show (A.nbrs ++ B.nbrs.map (shift A.n)).getD j [] = A.nbrs.getD j []
    simp only [List.getD_eq_getElem?_getD]
    rw [List.getElem?_append_left (by rw [hA.nbrs_len]; exact hj)]
  rw [hnb]
  cases a.get? j with
  | none => rfl
  | some v =>
    obtain ⟨csg, per⟩ := v
    simp only
    split
    · rfl
    · congr 4
      apply List.filterMap_congr
      intro x hx
      have hxlt : x < A.n := by
        have hmem : A.nbrs.getD j [] ∈ A.nbrs := by
          simp only [List.getD_eq_getElem?_getD]
          rw [List.getElem?_eq_getElem (by rw [hA.nbrs_len]; exact hj)]
          simp
        exact hA.nbrs_lt _ hmem x hx
      rw [get_union_left hs hA u a hu ha x hxlt]

theorem groupName_union_right (hs : SameScheme A B) (hA : WF A) (u b : Assign)
    (hu : assignCentres (union A B) = .ok u) (hb : assignCentres B = .ok b) (i : Nat) :
    groupName u (union A B).nbrs (i + A.n) = groupName b B.nbrs i := by
  unfold groupName
  rw [get_union_right hs hA u b hu hb i]
  have hnb : (union A B).nbrs.getD (i + A.n) [] = shift A.n (B.nbrs.getD i []) := by
    show (A.nbrs ++ B.nbrs.map (shift A.n)).getD (i + A.n) [] = _
    simp only [List.getD_eq_getElem?_getD]
    rw [List.getElem?_append_right (by rw [hA.nbrs_len]; omega)]
    rw [hA.nbrs_len]
    have : i + A.n - A.n = i := by omega
    rw [this, List.getElem?_map]
    cases B.nbrs[i]? with
    | none => simp [shift]
    | some l => simp
  rw [hnb]
  cases b.get? i with
  | none => rfl
  | some v =>
    obtain ⟨csg, per⟩ := v
    simp only
    split
    · rfl
    · congr 3
      unfold shift
      rw [List.filterMap_map]
      congr 1
      apply List.filterMap_congr
      intro x _
      simp only [Function.comp, get_union_right hs hA u b hu hb x]

/-- the number of atoms carrying a given group name adds up -/
theorem groupCount_union (hs : SameScheme A B) (hA : WF A) (u a b : Assign)
    (hu : assignCentres (union A B) = .ok u) (ha : assignCentres A = .ok a) (hb : assignCentres B = .ok b)
    (g : String) :
    ((List.range (union A B).n).filter fun j => decide (groupName u (union A B).nbrs j = some g)).length
      = ((List.range A.n).filter fun j => decide (groupName a A.nbrs j = some g)).length
        + ((List.range B.n).filter fun i => decide (groupName b B.nbrs i = some g)).length := by
  have hn : (union A B).n = A.n + B.n := rfl
  rw [hn, List.range_add, List.filter_append, List.length_append]
  congr 1
  · congr 1
    apply List.filter_congr
    intro j hj
    rw [groupName_union_left hs hA u a hu ha j (List.mem_range.mp hj)]
  · rw [List.filter_map, List.length_map]
    congr 1
    apply List.filter_congr
    intro i _
    have e : groupName u (union A B).nbrs (A.n + i) = groupName b B.nbrs i := by
      rw [Nat.add_comm]; exact groupName_union_right hs hA u b hu hb i
    simp only [Function.comp, e]


/-! ### correction descriptors of a union -/

theorem distinctSets_union (k : Nat) (msA msB : List Match)
    (hA : ∀ m ∈ msA, m ≠ [] ∧ ∀ j ∈ m, j < k) (hB : ∀ m ∈ msB, m ≠ []) :
    distinctSets (msA ++ msB.map (shift k)) = distinctSets msA + distinctSets msB := by
  rw [distinctSets_card, distinctSets_card, distinctSets_card]
  have hinj : Function.Injective (· + k : Nat → Nat) := fun a b h => by simpa using h
  have e : ((msA ++ msB.map (shift k)).map List.toFinset).toFinset
      = (msA.map List.toFinset).toFinset ∪ ((msB.map List.toFinset).toFinset).image (Finset.image (· + k)) := by
    ext s
    simp only [List.map_append, List.map_map, List.toFinset_append, Finset.mem_union, List.mem_toFinset,
      List.mem_map, Finset.mem_image, Function.comp]
    constructor
    · rintro (h | ⟨m, hm, rfl⟩)
      · exact Or.inl h
      · exact Or.inr ⟨m.toFinset, ⟨m, hm, rfl⟩, by ext y; simp [shift]⟩
    · rintro (h | ⟨s', ⟨m, hm, rfl⟩, rfl⟩)
      · exact Or.inl h
      · exact Or.inr ⟨m, hm, by ext y; simp [shift]⟩
  rw [e, Finset.card_union_of_disjoint, Finset.card_image_of_injective _ (Finset.image_injective hinj)]
  rw [Finset.disjoint_left]
  intro s hsA hsB
  simp only [List.mem_toFinset, List.mem_map, Finset.mem_image] at hsA hsB
  obtain ⟨m, hm, rfl⟩ := hsA
  obtain ⟨s', ⟨m', hm', rfl⟩, he⟩ := hsB
  obtain ⟨hne, hlt⟩ := hA m hm
  cases m with
  | nil => exact hne rfl
  | cons x m =>
    have hx : x ∈ (x :: m).toFinset := by simp
    rw [← he] at hx
    obtain ⟨y, _, hy⟩ := Finset.mem_image.mp hx
    have := hlt x (by simp)
    omega

/-- the correction-descriptor dictionary of the union holds, for every name, the sum of the parts' counts, and a name
is present exactly when it is present in one of the parts -/
theorem countDescs_union_aux (k : Nat) (dsA dsB : List DescPat)
    (hs : List.Forall₂ (fun d e => e.name = d.name) dsA dsB)
    (hA : ∀ d ∈ dsA, ∀ m ∈ d.ms, m ≠ [] ∧ ∀ j ∈ m, j < k) (hB : ∀ d ∈ dsB, ∀ m ∈ d.ms, m ≠ [])
    (cU cA cB : Counts)
    (hget : ∀ t, cU.get t = cA.get t + cB.get t)
    (hkeys : ∀ t, t ∈ Counts.keys cU ↔ t ∈ Counts.keys cA ∨ t ∈ Counts.keys cB) :
    let dsU := List.zipWith (fun d e => (⟨d.name, d.ms ++ e.ms.map (shift k)⟩ : DescPat)) dsA dsB
    (∀ t, (countDescs dsU cU).get t = (countDescs dsA cA).get t + (countDescs dsB cB).get t) ∧
    (∀ t, t ∈ Counts.keys (countDescs dsU cU) ↔
      t ∈ Counts.keys (countDescs dsA cA) ∨ t ∈ Counts.keys (countDescs dsB cB)) := by
  induction hs generalizing cU cA cB with
  | nil => exact ⟨hget, hkeys⟩
  | @cons d e dsA dsB hde _ ih =>
    have hA' : ∀ d ∈ dsA, ∀ m ∈ d.ms, m ≠ [] ∧ ∀ j ∈ m, j < k := fun d' hd' => hA d' (List.mem_cons_of_mem _ hd')
    have hB' : ∀ d ∈ dsB, ∀ m ∈ d.ms, m ≠ [] := fun d' hd' => hB d' (List.mem_cons_of_mem _ hd')
    have hsum := distinctSets_union k d.ms e.ms (hA d (by simp)) (hB e (by simp))
    simp only [List.zipWith_cons_cons]
    unfold countDescs
    simp only [hsum]
    -- case analysis on which of the two parts contributes
    by_cases ha : distinctSets d.ms = 0 <;> by_cases hb : distinctSets e.ms = 0
    · simp only [ha, hb, Nat.add_zero, beq_self_eq_true, if_true]
      exact ih hA' hB' cU cA cB hget hkeys
    · have h1 : (0 + distinctSets e.ms == 0) = false := by simp [hb]
      have h2 : (distinctSets e.ms == 0) = false := by simp [hb]
      simp only [ha, h1, h2, beq_self_eq_true, if_true, Bool.false_eq_true, if_false]
      apply ih hA' hB'
      · intro t; simp only [Counts.get_add, hget t, hde]
        by_cases e' : d.name = t <;> simp [e'] <;> ring
      · intro t; rw [Counts.mem_keys_add, Counts.mem_keys_add, hkeys t, hde]; tauto
    · have h1 : (distinctSets d.ms + 0 == 0) = false := by simp [ha]
      have h2 : (distinctSets d.ms == 0) = false := by simp [ha]
      simp only [hb, h1, h2, beq_self_eq_true, if_true, Bool.false_eq_true, if_false]
      apply ih hA' hB'
      · intro t; simp only [Counts.get_add, hget t]
        by_cases e' : d.name = t <;> simp [e'] <;> ring
      · intro t; rw [Counts.mem_keys_add, Counts.mem_keys_add, hkeys t]; tauto
    · have h1 : (distinctSets d.ms + distinctSets e.ms == 0) = false := by simp [ha]
      have h2 : (distinctSets d.ms == 0) = false := by simp [ha]
      have h3 : (distinctSets e.ms == 0) = false := by simp [hb]
      simp only [h1, h2, h3, Bool.false_eq_true, if_false]
      apply ih hA' hB'
      · intro t; simp only [Counts.get_add, hget t, hde]
        by_cases e' : d.name = t <;> simp [e'] <;> ring
      · intro t; rw [Counts.mem_keys_add, Counts.mem_keys_add, Counts.mem_keys_add, hkeys t, hde]; tauto


/-! ### remaps of a union -/

theorem targetSum_add (v w : Rat) (ts : List (Rat × String)) (t : String) :
    targetSum (v + w) ts t = targetSum v ts t + targetSum w ts t := by
  induction ts with
  | nil => simp [targetSum]
  | cons p ts ih =>
    simp only [targetSum, List.map_cons, List.sum_cons] at ih ⊢
    rw [ih]; by_cases e : p.2 = t <;> simp [e] <;> ring

theorem contrib_add (rm : List (String × List (Rat × String))) (k t : String) (v w : Rat) :
    contrib rm k (v + w) t = contrib rm k v t + contrib rm k w t := by
  unfold contrib
  cases lookupRemap rm k with
  | none => by_cases e : k = t <;> simp [e]
  | some ts => exact targetSum_add v w ts t

theorem remapAll_get_finset (rm : List (String × List (Rat × String))) (hcf : ChainFree rm)
    (d : Counts) (hd : (Counts.keys d).Nodup) (K : Finset String) (hK : (Counts.keys d).toFinset ⊆ K) (t : String) :
    (remapAll rm d).get t = ∑ k ∈ K, contrib rm k (d.get k) t := by
  rw [remapAll_get rm hcf d hd, sum_entries_eq_sum_keys d hd (fun k v => contrib rm k v t)]
  rw [← List.sum_toFinset _ hd]
  apply Finset.sum_subset hK
  intro k _ hk
  have : k ∉ Counts.keys d := fun h => hk (List.mem_toFinset.mpr h)
  rw [Counts.get_of_not_mem d k this, contrib_zero]

/-- **the remap pass is additive in the counts** -/
theorem remapAll_get_add (rm : List (String × List (Rat × String))) (hcf : ChainFree rm)
    (cU cA cB : Counts) (hU : (Counts.keys cU).Nodup) (hA : (Counts.keys cA).Nodup) (hB : (Counts.keys cB).Nodup)
    (hget : ∀ k, cU.get k = cA.get k + cB.get k) (t : String) :
    (remapAll rm cU).get t = (remapAll rm cA).get t + (remapAll rm cB).get t := by
  set K := (Counts.keys cU).toFinset ∪ (Counts.keys cA).toFinset ∪ (Counts.keys cB).toFinset with hK
  rw [remapAll_get_finset rm hcf cU hU K (by rw [hK]; intro x hx; simp only [Finset.mem_union]; tauto),
      remapAll_get_finset rm hcf cA hA K (by rw [hK]; intro x hx; simp only [Finset.mem_union]; tauto),
      remapAll_get_finset rm hcf cB hB K (by rw [hK]; intro x hx; simp only [Finset.mem_union]; tauto),
      ← Finset.sum_add_distrib]
  apply Finset.sum_congr rfl
  intro k _
  rw [hget k, contrib_add]

theorem Counts.mem_keys_pop_iff (c : Counts) (k x : String) (h : (Counts.keys c).Nodup) :
    x ∈ Counts.keys (c.pop k) ↔ x ∈ Counts.keys c ∧ x ≠ k := by
  induction c with
  | nil => simp [Counts.pop, Counts.keys]
  | cons p c ih =>
    obtain ⟨k0, v0⟩ := p
    have hc : (Counts.keys c).Nodup := (List.nodup_cons.mp h).2
    have hn : k0 ∉ Counts.keys c := (List.nodup_cons.mp h).1
    have hk : Counts.keys ((k0, v0) :: c) = k0 :: Counts.keys c := rfl
    unfold Counts.pop
    by_cases h0 : k0 = k
    · subst h0
      simp only [if_true, hk, List.mem_cons]
      constructor
      · intro hx; exact ⟨Or.inr hx, fun e => hn (e ▸ hx)⟩
      · rintro ⟨hx | hx, hne⟩
        · exact absurd hx hne
        · exact hx
    · simp only [h0, if_false]
      have hk' : Counts.keys ((k0, v0) :: Counts.pop c k) = k0 :: Counts.keys (Counts.pop c k) := rfl
      rw [hk', hk, List.mem_cons, List.mem_cons, ih hc]
      constructor
      · rintro (hx | ⟨hx, hne⟩)
        · exact ⟨Or.inl hx, fun e => h0 (hx ▸ e)⟩
        · exact ⟨Or.inr hx, hne⟩
      · rintro ⟨hx | hx, hne⟩
        · exact Or.inl hx
        · exact Or.inr ⟨hx, hne⟩

theorem mem_keys_applyTargets (n : Rat) (ts : List (Rat × String)) (c : Counts) (x : String) :
    x ∈ Counts.keys (applyTargets n ts c) ↔ x ∈ Counts.keys c ∨ ∃ p ∈ ts, p.2 = x := by
  induction ts generalizing c with
  | nil => simp [applyTargets]
  | cons p ts ih =>
    obtain ⟨coef, t'⟩ := p
    simp only [applyTargets, ih, Counts.mem_keys_add, List.mem_cons]
    constructor
    · rintro ((h | h) | ⟨q, hq, hx⟩)
      · exact Or.inr ⟨(coef, t'), Or.inl rfl, h.symm⟩
      · exact Or.inl h
      · exact Or.inr ⟨q, Or.inr hq, hx⟩
    · rintro (h | ⟨q, hq | hq, hx⟩)
      · exact Or.inl (Or.inr h)
      · subst hq; exact Or.inl (Or.inl hx.symm)
      · exact Or.inr ⟨q, hq, hx⟩

/-- which names are present after the remap loop -/
theorem mem_keys_applyRemaps (rm : List (String × List (Rat × String))) (hcf : ChainFree rm)
    (ks : List String) (hks : ks.Nodup) (cur : Counts) (hcur : (Counts.keys cur).Nodup) (t : String) :
    t ∈ Counts.keys (applyRemaps rm ks cur) ↔
      (t ∈ Counts.keys cur ∧ ¬ (t ∈ ks ∧ (lookupRemap rm t).isSome)) ∨
      (∃ k ∈ ks, ∃ ts, lookupRemap rm k = some ts ∧ ∃ p ∈ ts, p.2 = t) := by
  induction ks generalizing cur with
  | nil => simp [applyRemaps]
  | cons k ks ih =>
    obtain ⟨hk, hks'⟩ := List.nodup_cons.mp hks
    unfold applyRemaps
    cases hl : lookupRemap rm k with
    | none =>
      simp only
      rw [ih hks' cur hcur]
      constructor
      · rintro (⟨h1, h2⟩ | ⟨k', hk', ts, hts, hp⟩)
        · left; refine ⟨h1, ?_⟩
          rintro ⟨hm, hs⟩
          rcases List.mem_cons.mp hm with e | hm
          · rw [e, hl] at hs; simp at hs
          · exact h2 ⟨hm, hs⟩
        · right; exact ⟨k', List.mem_cons_of_mem _ hk', ts, hts, hp⟩
      · rintro (⟨h1, h2⟩ | ⟨k', hk', ts, hts, hp⟩)
        · left; exact ⟨h1, fun ⟨hm, hs⟩ => h2 ⟨List.mem_cons_of_mem _ hm, hs⟩⟩
        · rcases List.mem_cons.mp hk' with e | hk'
          · rw [e, hl] at hts; cases hts
          · right; exact ⟨k', hk', ts, hts, hp⟩
    | some ts =>
      simp only
      have hcur' : (Counts.keys (applyTargets (cur.get k) ts (cur.pop k))).Nodup :=
        applyTargets_nodup _ _ _ (Counts.nodup_pop cur k hcur)
      rw [ih hks' _ hcur', mem_keys_applyTargets, Counts.mem_keys_pop_iff _ _ _ hcur]
      have hnotkey : ∀ p ∈ ts, lookupRemap rm p.2 = none := hcf k ts hl
      constructor
      · rintro (⟨(⟨h1, hne⟩ | ⟨p, hp, hx⟩), h2⟩ | ⟨k', hk', ts', hts', hp⟩)
        · left; refine ⟨h1, ?_⟩
          rintro ⟨hm, hs⟩
          rcases List.mem_cons.mp hm with e | hm
          · exact hne e
          · exact h2 ⟨hm, hs⟩
        · right; exact ⟨k, by simp, ts, hl, p, hp, hx⟩
        · right; exact ⟨k', List.mem_cons_of_mem _ hk', ts', hts', hp⟩
      · rintro (⟨h1, h2⟩ | ⟨k', hk', ts', hts', hp⟩)
        · left
          have hne : t ≠ k := by
            intro e; apply h2; rw [e]; exact ⟨by simp, by rw [hl]; rfl⟩
          exact ⟨Or.inl ⟨h1, hne⟩, fun ⟨hm, hs⟩ => h2 ⟨List.mem_cons_of_mem _ hm, hs⟩⟩
        · rcases List.mem_cons.mp hk' with e | hk'
          · subst e
            rw [hl] at hts'; cases hts'
            obtain ⟨p, hp, hx⟩ := hp
            left
            refine ⟨Or.inr ⟨p, hp, hx⟩, ?_⟩
            rintro ⟨_, hs⟩
            rw [← hx, hnotkey p hp] at hs; simp at hs
          · right; exact ⟨k', hk', ts', hts', hp⟩

theorem mem_keys_remapAll (rm : List (String × List (Rat × String))) (hcf : ChainFree rm)
    (c : Counts) (hc : (Counts.keys c).Nodup) (t : String) :
    t ∈ Counts.keys (remapAll rm c) ↔
      (t ∈ Counts.keys c ∧ lookupRemap rm t = none) ∨
      (∃ k ∈ Counts.keys c, ∃ ts, lookupRemap rm k = some ts ∧ ∃ p ∈ ts, p.2 = t) := by
  have hra : remapAll rm c = applyRemaps rm (Counts.keys c) c := rfl
  rw [hra, mem_keys_applyRemaps rm hcf (Counts.keys c) hc c hc t]
  constructor
  · rintro (⟨h1, h2⟩ | h)
    · left; refine ⟨h1, ?_⟩
      cases hl : lookupRemap rm t with
      | none => rfl
      | some ts => exact absurd ⟨h1, by rw [hl]; rfl⟩ h2
    · exact Or.inr h
  · rintro (⟨h1, h2⟩ | h)
    · left; exact ⟨h1, fun ⟨_, hs⟩ => by rw [h2] at hs; simp at hs⟩
    · exact Or.inr h

/-- if the names present in `cU` are those present in `cA` or `cB`, the same holds after the remap pass -/
theorem mem_keys_remapAll_union (rm : List (String × List (Rat × String))) (hcf : ChainFree rm)
    (cU cA cB : Counts) (hU : (Counts.keys cU).Nodup) (hA : (Counts.keys cA).Nodup) (hB : (Counts.keys cB).Nodup)
    (hkeys : ∀ t, t ∈ Counts.keys cU ↔ t ∈ Counts.keys cA ∨ t ∈ Counts.keys cB) (t : String) :
    t ∈ Counts.keys (remapAll rm cU) ↔ t ∈ Counts.keys (remapAll rm cA) ∨ t ∈ Counts.keys (remapAll rm cB) := by
  rw [mem_keys_remapAll rm hcf cU hU, mem_keys_remapAll rm hcf cA hA, mem_keys_remapAll rm hcf cB hB]
  constructor
  · rintro (⟨h1, h2⟩ | ⟨k, hk, ts, hts, hp⟩)
    · rcases (hkeys t).mp h1 with h | h
      · exact Or.inl (Or.inl ⟨h, h2⟩)
      · exact Or.inr (Or.inl ⟨h, h2⟩)
    · rcases (hkeys k).mp hk with h | h
      · exact Or.inl (Or.inr ⟨k, h, ts, hts, hp⟩)
      · exact Or.inr (Or.inr ⟨k, h, ts, hts, hp⟩)
  · rintro ((⟨h1, h2⟩ | ⟨k, hk, ts, hts, hp⟩) | (⟨h1, h2⟩ | ⟨k, hk, ts, hts, hp⟩))
    · exact Or.inl ⟨(hkeys t).mpr (Or.inl h1), h2⟩
    · exact Or.inr ⟨k, (hkeys k).mpr (Or.inl hk), ts, hts, hp⟩
    · exact Or.inl ⟨(hkeys t).mpr (Or.inr h1), h2⟩
    · exact Or.inr ⟨k, (hkeys k).mpr (Or.inr hk), ts, hts, hp⟩

end PGA.Scheme
