import PGA.Model.Match
import PGA.Spec.Embeds
import Mathlib.Data.List.Nodup
import Mathlib.Tactic.Tauto
/-! The implementation's evaluators agree with the reference tables of the specification
(`PGA/Spec/Embeds.lean`): comparison operators, negation, element classes, suffix split between
query atom and radical constraint, prefixes, bond words, ring counts. -/
namespace PGA.Match
open PGA.Spec

theorem cmp_eval (o : CmpOp) (a b : Int) : o.eval a b = true ↔ Cmp o a b := by
  cases o <;> simp [CmpOp.eval, Cmp]

theorem cn_holds (c : CN) (x : Int) : c.holds x = true ↔ CNHolds c x := cmp_eval _ _ _

theorem negated_iff (neg v : Bool) (P : Prop) (h : v = true ↔ P) :
    negated neg v = true ↔ Negated neg P := by
  cases neg <;> simp [negated, Negated, ← h]

theorem classMatch_iff (c : ElemClass) (a : Atom) : classMatch c a = true ↔ ClassHolds c a := by
  cases c <;> simp [classMatch, ClassHolds] <;> omega

theorem atomInRing_iff (m : Mol) (x : Nat) : m.atomInRing x = true ↔ OnRing m x := by
  simp [Mol.atomInRing, OnRing]

theorem prefix_iff (m : Mol) (x : Nat) (a : Atom) (p : APrefix) :
    evalS m x a (prefixCons p) = true ↔ PrefixHolds m x a p := by
  cases p <;> simp [prefixCons, evalS, negated, PrefixHolds, ← atomInRing_iff, Mol.bondsOf]

/-- the suffix's meaning is split between the charge primitive of the query atom and the radical
constraint — for every suffix except `*`, which the reader drops -/
theorem suffix_split (m : Mol) (x : Nat) (cls : ElemClass) (s : Suffix) (a : Atom) (hs : s ≠ .star) :
    SuffixHolds cls s a ↔
      (match rdCharge s with
        | some c => a.charge == c
        | none => true) = true ∧ ∀ c ∈ suffixCons s, evalS m x a c = true := by
  cases s <;> simp [SuffixHolds, rdCharge, suffixCons, evalS, negated, CN.holds, CmpOp.eval] at hs ⊢ <;> omega

theorem typeMatch_iff (m : Mol) (t : AtomType) (y : Nat) (hs : t.suf ≠ .star) :
    typeMatch m t y = true ↔ TypeHolds m t y := by
  unfold typeMatch TypeHolds
  cases hm : m.atom? y with
  | none => simp
  | some a =>
    simp only [rdAtomMatch, typeCons, Bool.and_eq_true, List.all_eq_true, List.mem_append]
    rw [classMatch_iff, suffix_split m y t.cls t.suf a hs]
    cases hp : t.pre with
    | none => simp; tauto
    | some p =>
      simp only [List.mem_singleton]
      rw [← prefix_iff m y a p]
      constructor
      · rintro ⟨⟨h1, h2⟩, h3⟩
        exact ⟨h1, ⟨h2, fun c hc => h3 c (Or.inr hc)⟩, h3 _ (Or.inl rfl)⟩
      · rintro ⟨h1, ⟨h2, h3⟩, h4⟩
        refine ⟨⟨h1, h2⟩, ?_⟩
        rintro c (rfl | hc)
        · exact h4
        · exact h3 c hc

theorem bondQuery_iff (s : BondSpec) (e : Bond) : bondQuery s e = true ↔ BondHolds s e := by
  cases s <;> simp [bondQuery, BondHolds, or_assoc]

/-- a declared bond's meaning is split between the query bond's type and the bond constraint -/
theorem bond_split (s : BondSpec) (e : Bond) :
    BondHolds s e ↔ rdBondMatch s e = true ∧ ∀ c ∈ bondCons s, bondQuery c e = true := by
  cases s <;> simp [BondHolds, rdBondMatch, rdBondKind, bondCons, bondQuery, or_assoc]

theorem count_of_nodup (r : List Nat) (x : Nat) (h : r.Nodup) : r.count x = if x ∈ r then 1 else 0 := by
  split
  · exact List.count_eq_one_of_mem h ‹_›
  · exact List.count_eq_zero_of_not_mem ‹_›

theorem ringCount_eq (m : Mol) (x : Nat) (h : ∀ r ∈ m.rings, r.Nodup) :
    ringCount m x = (ringsThrough m x).length := by
  unfold ringCount ringsThrough
  generalize m.rings = rs at h
  induction rs with
  | nil => simp
  | cons r rs ih =>
    have hr := h r (by simp)
    have ih' := ih (fun r' hr' => h r' (by simp [hr']))
    simp only [List.map_cons, List.sum_cons, List.filter_cons]
    rw [ih', count_of_nodup r x hr]
    by_cases hx : x ∈ r <;> simp [hx]; omega

end PGA.Match
