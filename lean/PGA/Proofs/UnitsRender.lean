import PGA.Spec.UnitExpr
import PGA.Proofs.UnitsEval
/-!
# The parser reads back every rendered expression tree (any depth, any length)

`parseTokens (render e) = .ok (toTree e)` for every well-formed `SExpr`, by induction on the size of
the tree: a factor is read by `parse_factor` (a parenthesised one through the induction hypothesis
for its body), a left-nested chain is read by the `while` loop, which stops — by backtracking from a
failed `parse_factor` — exactly at the closing parenthesis or at the end of the input.
-/
namespace PGA.Units
open SExpr PGA.Chars

def pwTree (t : Tree) : Option PowLit → Tree
  | none => t
  | some p => .pow t p.lit.value

def mkBin (op : SOp) (a b : Tree) : Tree :=
  match op with
  | .over => .div a b
  | _ => .mul a b

/-- the syntax tree `parser.py` builds for the expression (wrappers elided) -/
def toTree : SExpr → Tree
  | .num n pw => pwTree (.num n.value) pw
  | .name s pw => pwTree (.name s) pw
  | .paren e pw => pwTree (toTree e) pw
  | .bin e op f => mkBin op (toTree e) (toTree f)

def depth : SExpr → Nat
  | .num _ _ => 0
  | .name _ _ => 0
  | .paren e _ => depth e + 1
  | .bin e _ f => max (depth e) (depth f)

def size : SExpr → Nat
  | .num _ _ => 1
  | .name _ _ => 1
  | .paren e _ => size e + 1
  | .bin e _ f => size e + size f + 1

/-- first factor and the following (operator, factor) items of a left-nested chain -/
def spine : SExpr → SExpr × List (SOp × SExpr)
  | .bin e op f => ((spine e).1, (spine e).2 ++ [(op, f)])
  | e => (e, [])

def renderItems : List (SOp × SExpr) → List Tok
  | [] => []
  | (op, f) :: rest => opToks op ++ (render f ++ renderItems rest)

def foldItems (acc : Tree) : List (SOp × SExpr) → Tree
  | [] => acc
  | (op, f) :: rest => foldItems (mkBin op acc (toTree f)) rest

theorem renderItems_append (a b : List (SOp × SExpr)) : renderItems (a ++ b) = renderItems a ++ renderItems b := by
  induction a with
  | nil => rfl
  | cons x a ih => obtain ⟨op, f⟩ := x; simp [renderItems, ih, List.append_assoc]

theorem foldItems_append (acc : Tree) (a b : List (SOp × SExpr)) :
    foldItems acc (a ++ b) = foldItems (foldItems acc a) b := by
  induction a generalizing acc with
  | nil => rfl
  | cons x a ih => obtain ⟨op, f⟩ := x; simp [foldItems, ih]

theorem spine_render (e : SExpr) : render e = render (spine e).1 ++ renderItems (spine e).2 := by
  induction e with
  | bin e op f ihe _ =>
    simp only [spine, render, renderItems_append, renderItems, List.append_nil]
    rw [ihe]; simp [List.append_assoc]
  | num n pw => simp [spine, renderItems]
  | name s pw => simp [spine, renderItems]
  | paren e pw _ => simp [spine, renderItems]

theorem spine_tree (e : SExpr) : toTree e = foldItems (toTree (spine e).1) (spine e).2 := by
  induction e with
  | bin e op f ihe _ => simp only [spine, toTree, foldItems_append, foldItems]; rw [← ihe]
  | num n pw => simp [spine, foldItems]
  | name s pw => simp [spine, foldItems]
  | paren e pw _ => simp [spine, foldItems]

/-- facts about the spine of a well-formed tree -/
theorem spine_facts (e : SExpr) (hwf : e.WF) :
    (spine e).1.isFactor = true ∧ (spine e).1.WF ∧ size (spine e).1 ≤ size e ∧ depth (spine e).1 ≤ depth e ∧
    (e.isFactor = false → size (spine e).1 < size e) ∧
    ∀ x ∈ (spine e).2, x.2.isFactor = true ∧ x.2.WF ∧ size x.2 < size e ∧ depth x.2 ≤ depth e := by
  induction e with
  | bin e op f ihe _ =>
    obtain ⟨hwe, hwf', hff⟩ := hwf
    obtain ⟨h1, h2, h3, h4, _, h6⟩ := ihe hwe
    refine ⟨h1, h2, by simp only [spine, size]; omega, by simp only [spine, depth]; omega,
            fun _ => by simp only [spine, size]; omega, ?_⟩
    intro x hx
    simp only [spine, List.mem_append, List.mem_singleton] at hx
    rcases hx with hx | rfl
    · obtain ⟨a, b, c, d⟩ := h6 x hx
      exact ⟨a, b, by simp only [size]; omega, by simp only [depth]; omega⟩
    · exact ⟨hff, hwf', by simp only [size]; omega, by simp only [depth]; omega⟩
  | num n pw => exact ⟨rfl, hwf, Nat.le_refl _, Nat.le_refl _, fun h => by simp [isFactor] at h, fun x hx => by simp [spine] at hx⟩
  | name s pw => exact ⟨rfl, hwf, Nat.le_refl _, Nat.le_refl _, fun h => by simp [isFactor] at h, fun x hx => by simp [spine] at hx⟩
  | paren e pw _ => exact ⟨rfl, hwf, Nat.le_refl _, Nat.le_refl _, fun h => by simp [isFactor] at h, fun x hx => by simp [spine] at hx⟩

/-! ## tokens that can start a factor, and what may follow one -/

def StartTok (t : Tok) : Prop := (∃ neg body, t = .num neg body) ∨ (∃ s, t = .word s) ∨ t = .sym '('

theorem StartTok.ne_sym {t : Tok} (h : StartTok t) {c : Char} (hc : c ≠ '(') : t ≠ .sym c := by
  rcases h with ⟨_, _, rfl⟩ | ⟨_, rfl⟩ | rfl
  · simp
  · simp
  · intro h'; injection h' with h'; exact hc h'.symm

theorem render_start (e : SExpr) : ∃ t r, render e = t :: r ∧ StartTok t := by
  induction e with
  | num n pw => exact ⟨_, _, rfl, Or.inl ⟨_, _, rfl⟩⟩
  | name s pw => exact ⟨_, _, rfl, Or.inr (Or.inl ⟨_, rfl⟩)⟩
  | paren e pw _ => exact ⟨_, _, rfl, Or.inr (Or.inr rfl)⟩
  | bin e op f ihe _ =>
    obtain ⟨t, r, h, hs⟩ := ihe
    exact ⟨t, r ++ (opToks op ++ render f), by simp [render, h], hs⟩

/-- the next token is not `^` -/
def NoCaret (tail : List Tok) : Prop := ∀ r, tail ≠ .sym '^' :: r

/-- end of input or a closing parenthesis -/
def Closing (tail : List Tok) : Prop := tail = [] ∨ ∃ r, tail = .sym ')' :: r

theorem Closing.noCaret {tail : List Tok} (h : Closing tail) : NoCaret tail := by
  intro r hr
  rcases h with rfl | ⟨r', rfl⟩
  · simp at hr
  · injection hr with h1 _; injection h1 with h1; revert h1; decide

theorem noCaret_items (items : List (SOp × SExpr)) (tail : List Tok) (h : Closing tail) :
    NoCaret (renderItems items ++ tail) := by
  cases items with
  | nil => simpa [renderItems] using h.noCaret
  | cons x rest =>
    obtain ⟨op, f⟩ := x
    obtain ⟨t, r, hr, hs⟩ := render_start f
    intro r' h'
    cases op <;> simp only [renderItems, opToks, hr, List.cons_append, List.nil_append] at h'
    · injection h' with h1 _; injection h1 with h1; revert h1; decide
    · injection h' with h1 _; injection h1 with h1; revert h1; decide
    · injection h' with h1 _; exact hs.ne_sym (by decide) h1

theorem items_length (items : List (SOp × SExpr)) : items.length ≤ (renderItems items).length := by
  induction items with
  | nil => simp
  | cons x rest ih =>
    obtain ⟨op, f⟩ := x
    obtain ⟨t, r, hr, _⟩ := render_start f
    simp only [renderItems, List.length_append, List.length_cons, hr]
    omega

/-! ## reading numbers, bases, factors -/

theorem numberOf_lit (n : NumLit) (h : n.WF) (rest : List Tok) : numberOf n.tok rest = .ok (n.value, rest) := by
  unfold numberOf NumLit.tok
  simp only [h.1, if_true]
  rw [if_neg (by intro hc; have := h.2; omega)]
  rfl

theorem parseNumber_pw (p : PowLit) (h : p.lit.WF) (tail : List Tok) :
    parseNumber ((if p.paren then [.sym '(', p.lit.tok, .sym ')'] else [p.lit.tok]) ++ tail) = .ok (p.lit.value, tail) := by
  cases hp : p.paren
  · simp only [Bool.false_eq_true, if_false, List.cons_append, List.nil_append, parseNumber]
    rw [if_neg (by simp [NumLit.tok])]
    exact numberOf_lit _ h _
  · simp only [if_true, List.cons_append, List.nil_append, parseNumber]
    exact numberOf_lit _ h _

theorem factor_of_base (pe : List Tok → PRes) (ts : List Tok) (left : Tree) (pw : Option PowLit) (tail : List Tok)
    (hb : parseBaseWith pe ts = .ok (left, renderPw pw ++ tail)) (hpw : pwWF pw) (hnc : NoCaret tail) :
    parseFactorWith pe ts = .ok (pwTree left pw, tail) := by
  unfold parseFactorWith
  rw [hb]
  cases pw with
  | none =>
    simp only [renderPw, List.nil_append, pwTree]
    cases tail with
    | nil => rfl
    | cons c r2 =>
      have : c ≠ .sym '^' := fun hc => hnc r2 (by rw [hc])
      simp [this]
  | some p =>
    simp only [renderPw, List.cons_append, pwTree, if_true]
    rw [parseNumber_pw p hpw tail]

theorem base_num (pe : List Tok → PRes) (n : NumLit) (h : n.WF) (r : List Tok) :
    parseBaseWith pe (n.tok :: r) = .ok (.num n.value, r) := by
  unfold parseBaseWith
  have h1 : n.tok ≠ .sym '(' := by simp [NumLit.tok]
  have h2 : n.tok.isNumber = true := by simp [NumLit.tok, Tok.isNumber, h.1]
  simp only [h1, if_false, h2, if_true, numberOf_lit n h r]

theorem base_name (pe : List Tok → PRes) (s : Name) (r : List Tok) :
    parseBaseWith pe (.word s :: r) = .ok (.name s, r) := by
  unfold parseBaseWith
  simp [Tok.isNumber, Tok.isAlpha, Tok.text]

theorem base_paren (pe : List Tok → PRes) (inner : List Tok) (te : Tree) (r : List Tok)
    (h : pe (inner ++ .sym ')' :: r) = .ok (te, .sym ')' :: r)) :
    parseBaseWith pe (.sym '(' :: (inner ++ .sym ')' :: r)) = .ok (te, r) := by
  unfold parseBaseWith
  simp [h]

theorem isAlpha_close : isAlphaChar ')' = false := by decide +kernel

theorem factor_close (pe : List Tok → PRes) (r : List Tok) :
    parseFactorWith pe (.sym ')' :: r) = .error .unitsParse := by
  unfold parseFactorWith parseBaseWith
  have h1 : (Tok.sym ')') ≠ .sym '(' := by decide
  simp [h1, Tok.isNumber, Tok.isAlpha, isAlpha_close, perr]

/-! ## the loop reads a chain of items and stops at the closing token -/

theorem loop_items (pf : List Tok → PRes) (hclose : ∀ r, pf (.sym ')' :: r) = .error .unitsParse) :
    ∀ (items : List (SOp × SExpr)) (acc : Tree) (n : Nat) (tail : List Tok),
      items.length < n → Closing tail →
      (∀ x ∈ items, ∀ tl, NoCaret tl → pf (render x.2 ++ tl) = .ok (toTree x.2, tl)) →
      parseLoopWith pf n acc (renderItems items ++ tail) = .ok (foldItems acc items, tail) := by
  intro items
  induction items with
  | nil =>
    intro acc n tail hn hc _
    obtain ⟨n, rfl⟩ : ∃ m, n = m + 1 := ⟨n - 1, by omega⟩
    rcases hc with rfl | ⟨r, rfl⟩
    · simp [renderItems, parseLoopWith, foldItems]
    · simp only [renderItems, List.nil_append, parseLoopWith, foldItems]
      have h1 : (Tok.sym ')') ≠ .sym '*' := by decide
      have h2 : (Tok.sym ')') ≠ .sym '/' := by decide
      simp only [h1, h2, if_false, hclose r]
  | cons x rest ih =>
    intro acc n tail hn hc hF
    obtain ⟨op, f⟩ := x
    obtain ⟨n, rfl⟩ : ∃ m, n = m + 1 := ⟨n - 1, by omega⟩
    have hlen : rest.length < n := by simp at hn; omega
    have hnc := noCaret_items rest tail hc
    have hf := hF (op, f) List.mem_cons_self (renderItems rest ++ tail) hnc
    have hrest := ih (mkBin op acc (toTree f)) n tail hlen hc (fun y hy => hF y (List.mem_cons_of_mem _ hy))
    cases op with
    | times =>
      simp only [renderItems, opToks, List.cons_append, List.nil_append, List.append_assoc, parseLoopWith, if_true]
      simp only [] at hf
      rw [hf]
      exact hrest
    | over =>
      have h1 : (Tok.sym '/') ≠ .sym '*' := by decide
      simp only [renderItems, opToks, List.cons_append, List.nil_append, List.append_assoc, parseLoopWith, h1,
        if_false, if_true]
      simp only [] at hf
      rw [hf]
      exact hrest
    | juxt =>
      obtain ⟨t, r, hr, hs⟩ := render_start f
      simp only [renderItems, opToks, List.nil_append, List.append_assoc] at hf ⊢
      rw [hr] at hf ⊢
      simp only [List.cons_append, parseLoopWith, hs.ne_sym (show '*' ≠ '(' by decide),
        hs.ne_sym (show '/' ≠ '(' by decide), if_false]
      simp only [List.cons_append] at hf
      rw [hf]
      exact hrest

/-! ## the main induction -/

def ReadsExpr (e : SExpr) : Prop :=
  ∀ d, depth e < d → ∀ tail, Closing tail → parseExpr d (render e ++ tail) = .ok (toTree e, tail)

def ReadsFactor (f : SExpr) : Prop :=
  ∀ d, depth f ≤ d → ∀ tail, NoCaret tail → parseFactorWith (parseExpr d) (render f ++ tail) = .ok (toTree f, tail)

theorem reads_factor_of (f : SExpr) (hf : f.isFactor = true) (hwf : f.WF)
    (ih : ∀ e, size e < size f → e.WF → ReadsExpr e) : ReadsFactor f := by
  intro d hd tail hnc
  cases f with
  | bin e op g => simp [isFactor] at hf
  | num n pw =>
    apply factor_of_base _ _ _ pw tail _ hwf.2 hnc
    simp only [render, List.cons_append]
    exact base_num _ n hwf.1 _
  | name s pw =>
    apply factor_of_base _ _ _ pw tail _ hwf hnc
    simp only [render, List.cons_append]
    exact base_name _ s _
  | paren e pw =>
    apply factor_of_base _ _ _ pw tail _ hwf.2 hnc
    simp only [render, List.cons_append, List.append_assoc]
    apply base_paren
    have := ih e (by simp [size]) hwf.1 d (by simp only [depth] at hd; omega) (.sym ')' :: (renderPw pw ++ tail))
      (Or.inr ⟨_, rfl⟩)
    exact this

theorem reads_expr_of (e : SExpr) (hwf : e.WF)
    (hF : ∀ f, size f ≤ size e → f.isFactor = true → f.WF → ReadsFactor f) : ReadsExpr e := by
  intro d hd tail hc
  obtain ⟨d, rfl⟩ : ∃ m, d = m + 1 := ⟨d - 1, by omega⟩
  obtain ⟨h1, h2, h3, h4, _, h6⟩ := spine_facts e hwf
  have hhead := hF _ h3 h1 h2 d (by omega) (renderItems (spine e).2 ++ tail) (noCaret_items _ _ hc)
  simp only [parseExpr]
  rw [spine_render e, List.append_assoc, hhead]
  simp only []
  rw [spine_tree e]
  apply loop_items _ (factor_close _)
  · have := items_length (spine e).2
    simp only [List.length_append]; omega
  · exact hc
  · intro x hx tl hnc
    obtain ⟨a, b, c, dd⟩ := h6 x hx
    exact hF x.2 (by omega) a b d (by omega) tl hnc

theorem reads_all : ∀ (n : Nat) (e : SExpr), size e ≤ n → e.WF →
    ReadsExpr e ∧ (e.isFactor = true → ReadsFactor e) := by
  intro n
  induction n with
  | zero =>
    intro e h
    cases e <;> simp [size] at h
  | succ n ih =>
    intro e hsz hwf
    have hfac : ∀ f, size f ≤ size e → f.isFactor = true → f.WF → ReadsFactor f := by
      intro f hsf hff hwff
      exact reads_factor_of f hff hwff (fun e' he' hwe' => (ih e' (by omega) hwe').1)
    exact ⟨reads_expr_of e hwf hfac, fun hf => hfac e (Nat.le_refl _) hf hwf⟩

theorem depth_lt_length (e : SExpr) : depth e < (render e).length := by
  induction e with
  | num n pw => simp [depth, render]
  | name s pw => simp [depth, render]
  | paren e pw ih => simp only [depth, render, List.length_cons, List.length_append]; omega
  | bin e op f ihe ihf => simp only [depth, render, List.length_append]; omega

/-- the parser reads back every well-formed expression tree -/
theorem parseTokens_render (e : SExpr) (hwf : e.WF) : parseTokens (render e) = .ok (toTree e) := by
  have h := (reads_all (size e) e (Nat.le_refl _) hwf).1 ((render e).length + 1)
    (by have := depth_lt_length e; omega) [] (Or.inl rfl)
  simp only [List.append_nil] at h
  simp [parseTokens, h]

end PGA.Units
