import Mathlib.Data.Rat.Floor
import Mathlib.Tactic.Linarith
import PGA.Model.Units
/-!
# The integer-snapping rule of `FundamentalUnits._build` and dimension arithmetic

`snap thr e` leaves `e` alone when `e` is an integer or farther than `thr` from every integer;
on such exponents `Dim.mul/div/pow` are plain addition, subtraction and scaling.
-/
namespace PGA.Units

theorem absR_nonneg (x : Rat) : 0 ≤ absR x := by
  unfold absR; split <;> linarith

theorem absR_zero : absR 0 = 0 := by simp [absR]

theorem nearest_int (k : Int) : nearest (k : Rat) = k := by
  unfold nearest
  have : ((k : Rat) + 1 / 2).floor = k := by
    apply le_antisymm
    · have h : ¬ (k + 1 ≤ ((k : Rat) + 1 / 2).floor) := by
        rw [Rat.le_floor_iff]; push_cast; intro h; linarith
      omega
    · rw [Rat.le_floor_iff]; linarith
  rw [this]

theorem isInt_iff (e : Rat) : isInt e = true ↔ ∃ k : Int, e = k := by
  unfold isInt
  constructor
  · intro h
    have hd : e.den = 1 := by simpa using h
    exact ⟨e.num, (Rat.coe_int_num_of_den_eq_one hd).symm⟩
  · rintro ⟨k, rfl⟩
    simp

/-- an exponent that `_build` leaves unchanged, stated without reference to `snap`: an integer, or
farther than the threshold from every integer -/
def Stable (thr : Rat) (e : Rat) : Prop := isInt e = true ∨ ∀ k : Int, thr < absR (e - k)

theorem snap_int (thr : Rat) (h : 0 ≤ thr) (k : Int) : snap thr (k : Rat) = k := by
  unfold snap
  rw [nearest_int]
  simp [absR_zero, not_lt.mpr h]

theorem snap_stable {thr e : Rat} (h : 0 ≤ thr) (hs : Stable thr e) : snap thr e = e := by
  rcases hs with hi | hf
  · obtain ⟨k, rfl⟩ := (isInt_iff e).mp hi
    exact snap_int thr h k
  · unfold snap
    have := hf ((e + 1 / 2).floor)
    unfold nearest
    rw [if_pos this]

theorem snap_isInt_or_eq (thr e : Rat) : snap thr e = e ∨ isInt (snap thr e) = true := by
  unfold snap
  split
  · exact Or.inl rfl
  · right
    unfold nearest
    exact (isInt_iff _).mpr ⟨_, rfl⟩

/-- the result of `_build` is stable: building twice is building once -/
theorem snap_idem (thr : Rat) (h : 0 ≤ thr) (e : Rat) : snap thr (snap thr e) = snap thr e := by
  rcases snap_isInt_or_eq thr e with he | hi
  · rw [he, he]
  · obtain ⟨k, hk⟩ := (isInt_iff _).mp hi
    rw [hk]
    exact snap_int thr h k

namespace Dim

@[ext] theorem ext' {a b : Dim} (h1 : a.m = b.m) (h2 : a.kg = b.kg) (h3 : a.s = b.s) (h4 : a.A = b.A)
    (h5 : a.K = b.K) (h6 : a.mol = b.mol) (h7 : a.cd = b.cd) : a = b := by
  cases a; cases b; simp_all

/-- every exponent satisfies `P` -/
def All (P : Rat → Prop) (d : Dim) : Prop := P d.m ∧ P d.kg ∧ P d.s ∧ P d.A ∧ P d.K ∧ P d.mol ∧ P d.cd

def add (a b : Dim) : Dim := zip (· + ·) a b
def sub (a b : Dim) : Dim := zip (· - ·) a b
def smul (x : Rat) (a : Dim) : Dim := a.map (x * ·)

theorem build_of_all_stable {thr : Rat} (h : 0 ≤ thr) {d : Dim} (hs : d.All (Stable thr)) : d.build thr = d := by
  obtain ⟨h1, h2, h3, h4, h5, h6, h7⟩ := hs
  apply Dim.ext' <;> simp only [build, map] <;> exact snap_stable h ‹_›

theorem mul_of_stable {thr : Rat} (h : 0 ≤ thr) {a b : Dim} (hs : (add a b).All (Stable thr)) :
    Dim.mul thr a b = add a b := build_of_all_stable h hs

theorem div_of_stable {thr : Rat} (h : 0 ≤ thr) {a b : Dim} (hs : (sub a b).All (Stable thr)) :
    Dim.div thr a b = sub a b := build_of_all_stable h hs

theorem pow_of_stable {thr : Rat} (h : 0 ≤ thr) {a : Dim} {x : Rat} (hs : (smul x a).All (Stable thr)) :
    Dim.pow thr a x = smul x a := build_of_all_stable h hs

/-- integer exponents -/
def Integral (d : Dim) : Prop := d.All (fun e => isInt e = true)

theorem Integral.stable {thr : Rat} {d : Dim} (h : d.Integral) : d.All (Stable thr) := by
  obtain ⟨h1, h2, h3, h4, h5, h6, h7⟩ := h
  exact ⟨Or.inl h1, Or.inl h2, Or.inl h3, Or.inl h4, Or.inl h5, Or.inl h6, Or.inl h7⟩

theorem isInt_add {a b : Rat} (ha : isInt a = true) (hb : isInt b = true) : isInt (a + b) = true := by
  obtain ⟨k, rfl⟩ := (isInt_iff a).mp ha
  obtain ⟨l, rfl⟩ := (isInt_iff b).mp hb
  exact (isInt_iff _).mpr ⟨k + l, by push_cast; rfl⟩

theorem isInt_sub {a b : Rat} (ha : isInt a = true) (hb : isInt b = true) : isInt (a - b) = true := by
  obtain ⟨k, rfl⟩ := (isInt_iff a).mp ha
  obtain ⟨l, rfl⟩ := (isInt_iff b).mp hb
  exact (isInt_iff _).mpr ⟨k - l, by push_cast; rfl⟩

theorem isInt_mul {a b : Rat} (ha : isInt a = true) (hb : isInt b = true) : isInt (a * b) = true := by
  obtain ⟨k, rfl⟩ := (isInt_iff a).mp ha
  obtain ⟨l, rfl⟩ := (isInt_iff b).mp hb
  exact (isInt_iff _).mpr ⟨k * l, by push_cast; rfl⟩

theorem Integral.add {a b : Dim} (ha : a.Integral) (hb : b.Integral) : (Dim.add a b).Integral := by
  obtain ⟨a1, a2, a3, a4, a5, a6, a7⟩ := ha
  obtain ⟨b1, b2, b3, b4, b5, b6, b7⟩ := hb
  exact ⟨isInt_add a1 b1, isInt_add a2 b2, isInt_add a3 b3, isInt_add a4 b4, isInt_add a5 b5, isInt_add a6 b6, isInt_add a7 b7⟩

theorem Integral.sub {a b : Dim} (ha : a.Integral) (hb : b.Integral) : (Dim.sub a b).Integral := by
  obtain ⟨a1, a2, a3, a4, a5, a6, a7⟩ := ha
  obtain ⟨b1, b2, b3, b4, b5, b6, b7⟩ := hb
  exact ⟨isInt_sub a1 b1, isInt_sub a2 b2, isInt_sub a3 b3, isInt_sub a4 b4, isInt_sub a5 b5, isInt_sub a6 b6, isInt_sub a7 b7⟩

theorem Integral.smul {a : Dim} {x : Rat} (hx : isInt x = true) (ha : a.Integral) : (Dim.smul x a).Integral := by
  obtain ⟨a1, a2, a3, a4, a5, a6, a7⟩ := ha
  exact ⟨isInt_mul hx a1, isInt_mul hx a2, isInt_mul hx a3, isInt_mul hx a4, isInt_mul hx a5, isInt_mul hx a6, isInt_mul hx a7⟩

theorem integral_zero : Dim.zero.Integral := by
  refine ⟨?_, ?_, ?_, ?_, ?_, ?_, ?_⟩ <;> decide

theorem mul_integral {thr : Rat} (h : 0 ≤ thr) {a b : Dim} (ha : a.Integral) (hb : b.Integral) :
    Dim.mul thr a b = Dim.add a b ∧ (Dim.mul thr a b).Integral := by
  have := mul_of_stable h (Integral.add ha hb).stable
  exact ⟨this, this ▸ Integral.add ha hb⟩

theorem div_integral {thr : Rat} (h : 0 ≤ thr) {a b : Dim} (ha : a.Integral) (hb : b.Integral) :
    Dim.div thr a b = Dim.sub a b ∧ (Dim.div thr a b).Integral := by
  have := div_of_stable h (Integral.sub ha hb).stable
  exact ⟨this, this ▸ Integral.sub ha hb⟩

theorem pow_integral {thr : Rat} (h : 0 ≤ thr) {a : Dim} {x : Rat} (hx : isInt x = true) (ha : a.Integral) :
    Dim.pow thr a x = Dim.smul x a ∧ (Dim.pow thr a x).Integral := by
  have := pow_of_stable h (Integral.smul hx ha).stable
  exact ⟨this, this ▸ Integral.smul hx ha⟩

theorem sub_self (a : Dim) : Dim.sub a a = Dim.zero := by
  apply Dim.ext' <;> simp [Dim.sub, zip, zero]

theorem add_zero (a : Dim) : Dim.add a Dim.zero = a := by
  apply Dim.ext' <;> simp [Dim.add, zip, zero]

theorem zero_add (a : Dim) : Dim.add Dim.zero a = a := by
  apply Dim.ext' <;> simp [Dim.add, zip, zero]

theorem isZero_iff (d : Dim) : d.isZero = true ↔ d = Dim.zero := by
  unfold isZero; exact beq_iff_eq

/-- `x / x` of any dimension has the null dimension (whatever the threshold) -/
theorem div_self {thr : Rat} (h : 0 ≤ thr) (a : Dim) : Dim.div thr a a = Dim.zero := by
  have hz : (Dim.sub a a) = Dim.zero := sub_self a
  unfold Dim.div
  change Dim.build thr (Dim.sub a a) = _
  rw [hz]
  exact build_of_all_stable h integral_zero.stable

end Dim
end PGA.Units
